(* MemAlias.v — C18: the step theorem for all sixteen memory operations. *)
Require Import Calc.Base Calc.Bytecode Calc.Value Calc.FloatText Calc.Compile Calc.VM Calc.Mem18 Calc.MemRefine Calc.MemProofs Calc.MemClosure.
Require Import Lia.
Open Scope Z_scope.

Ltac conj := repeat match goal with |- _ /\ _ => split end.

(* ---------- pairwise related lists ---------- *)
Lemma F2_impl {A B} (R1 R2 : A -> B -> Prop) l l' : (forall a b, R1 a b -> R2 a b) -> Forall2 R1 l l' -> Forall2 R2 l l'.
Proof. intros H F. induction F; constructor; auto. Qed.

Lemma F2_length {A B} (R : A -> B -> Prop) l l' : Forall2 R l l' -> List.length l = List.length l'.
Proof. intros F. induction F; cbn; congruence. Qed.

Lemma F2_nth {A B} (R : A -> B -> Prop) l l' : Forall2 R l l' -> forall n,
  match nth_error l n, nth_error l' n with
  | Some x, Some y => R x y
  | None, None => True
  | _, _ => False
  end.
Proof. intros F. induction F as [|x y l l' Hxy F IH]; intros [|n]; cbn; auto. apply IH. Qed.

Lemma F2_firstn {A B} (R : A -> B -> Prop) l l' n : Forall2 R l l' -> Forall2 R (firstn n l) (firstn n l').
Proof. intros F. revert n. induction F; intros [|n]; cbn; constructor; auto. Qed.

Lemma F2_last {A B} (R : A -> B -> Prop) l l' : Forall2 R l l' ->
  match last_opt l, last_opt l' with
  | Some x, Some y => R x y
  | None, None => True
  | _, _ => False
  end.
Proof. intros F. unfold last_opt. rewrite <- (F2_length _ _ _ F). apply F2_nth. exact F. Qed.

Lemma F2_drop_last {A B} (R : A -> B -> Prop) l l' n : Forall2 R l l' -> Forall2 R (drop_last n l) (drop_last n l').
Proof. intros F. unfold drop_last. rewrite <- (F2_length _ _ _ F). apply F2_firstn. exact F. Qed.

(* ---------- the specification never aborts ---------- *)
Lemma a_obs_not_abort aw o w : snd (a_step aw o) <> OAbort w.
Proof.
  destruct o; unfold a_step;
    repeat match goal with
           | |- context [match ?x with _ => _ end] => destruct x; cbn [opt_obs fst snd]
           end; discriminate.
Qed.

(* ---------- an activation's variables, as a segment of the Go stack ---------- *)
Lemma geo_flat2 : forall acts start pre junk ser a,
  start = zlen pre ->
  find (fun x => aa_serial x =? ser) acts = Some a ->
  exists pre' rest, pre ++ flat_acts acts ++ junk = pre' ++ aa_locals a ++ rest /\
     geo_l (map aa_serial acts) (fps start acts) ser = Some (zlen pre', zlen (aa_locals a)).
Proof.
  induction acts as [|b acts IH]; intros start pre junk ser a Hs Hf; [discriminate Hf|].
  cbn [find map fps geo_l] in *. destruct (aa_serial b =? ser) eqn:E.
  - injection Hf as <-. exists pre, (aa_ops b ++ flat_acts acts ++ junk). split.
    + rewrite flat_acts_cons. unfold act_cells. rewrite <- !app_assoc. reflexivity.
    + f_equal. f_equal; lia.
  - destruct (IH (start + zlen (act_cells b)) (pre ++ act_cells b) junk ser a) as (pre' & rest & Hl & Hg).
    + rewrite zlen_app; lia.
    + exact Hf.
    + exists pre', rest. split; [|exact Hg]. rewrite flat_acts_cons, <- Hl, <- !app_assoc. reflexivity.
Qed.

Lemma rw_lookup gw aw mid : Rw (strip_g gw) (strip_a aw) ->
  match assoc_get (gw_mems gw) mid, assoc_get (aw_mems aw) mid with
  | Some gm, Some am => Rm (noclos gm) (noclos_a am)
  | None, None => True
  | _, _ => False
  end.
Proof.
  intros (HF & _). pose proof (assoc_get_rel _ _ mid HF) as H. cbn [strip_g strip_a gw_mems aw_mems] in H.
  rewrite !assoc_get_map_snd in H. destruct (assoc_get (gw_mems gw) mid), (assoc_get (aw_mems aw) mid); exact H.
Qed.

Lemma alias_segment gw mid ser base len gen gm am a :
  Rf gw (FAlias mid ser base len gen) (ARef mid ser) ->
  assoc_get (gw_mems gw) mid = Some gm -> Rm (noclos gm) (noclos_a am) ->
  find_act am ser = Some a ->
  len = zlen (aa_locals a) /\ exists pre' rest, m_stack gm = pre' ++ aa_locals a ++ rest /\ base = zlen pre'.
Proof.
  intros (_ & _ & _ & Hgeo) Hl (junk & Hst & _ & Hfp & Hser & _) Hf.
  cbn [noclos noclos_a m_stack m_fp m_serials am_base am_acts] in *. unfold flat in Hst. cbn [am_base am_acts noclos_a] in Hst.
  destruct (geo_flat2 (am_acts am) (zlen (am_base am)) (am_base am) junk ser a eq_refl Hf) as (pre' & rest & E & G).
  rewrite <- Hfp, <- Hser in G. destruct (Hgeo gm _ _ Hl G) as [Eb El]. split; [symmetry; exact El|].
  exists pre', rest. split; [|symmetry; exact Eb]. rewrite Hst, <- app_assoc. exact E.
Qed.

Lemma Rf_ext gw gw' f a : gw_mems gw' = gw_mems gw -> gw_serial gw' = gw_serial gw -> Rf gw f a -> Rf gw' f a.
Proof. intros Hm Hs. destruct f, a; cbn [Rf]; rewrite ?Hm, ?Hs; auto. Qed.

Lemma ser_ok_ext gw gw' : gw_mems gw' = gw_mems gw -> gw_serial gw' = gw_serial gw -> ser_ok gw -> ser_ok gw'.
Proof. intros Hm Hs H mid gm. rewrite Hm, Hs. apply H. Qed.

(* replacing a memory by one with the same frame bookkeeping *)
Lemma Rf_gset gw mid0 m0 m1 f a :
  assoc_get (gw_mems gw) mid0 = Some m0 -> m_serials m1 = m_serials m0 -> m_fp m1 = m_fp m0 ->
  Rf gw f a -> Rf (gset gw mid0 m1) f a.
Proof.
  intros H0 S F H. destruct f as [|mid ser base len gen|vs]; destruct a as [|mid' ser'|vs']; try exact H.
  cbn [Rf gset gw_mems gw_serial] in *. destruct H as (-> & -> & Hlt & Hgeo). conj; try reflexivity; [exact Hlt|].
  intros gm p l Hl Hg. destruct (Z.eq_dec mid0 mid') as [->|NE].
  - rewrite assoc_get_set_same in Hl. injection Hl as <-. rewrite S, F in Hg. exact (Hgeo _ _ _ H0 Hg).
  - rewrite assoc_get_set_other in Hl by exact NE. exact (Hgeo _ _ _ Hl Hg).
Qed.

Lemma ser_ok_gset gw mid0 m0 m1 :
  assoc_get (gw_mems gw) mid0 = Some m0 -> m_serials m1 = m_serials m0 -> m_fp m1 = m_fp m0 ->
  ser_ok gw -> ser_ok (gset gw mid0 m1).
Proof.
  intros H0 S F H mid gm Hl. cbn [gset gw_mems gw_serial] in *. destruct (Z.eq_dec mid0 mid) as [->|NE].
  - rewrite assoc_get_set_same in Hl. injection Hl as <-. rewrite S, F. exact (H _ _ H0).
  - rewrite assoc_get_set_other in Hl by exact NE. exact (H _ _ Hl).
Qed.

Lemma copied_related gw gs asrc :
  Forall2 (Rf gw) (m_clos gs) (am_clos asrc) -> Forall2 (Rf gw) (copied_clos gs) (copied_clos_a asrc).
Proof.
  intros F. pose proof (F2_last _ _ _ F) as L. unfold copied_clos, copied_clos_a.
  destruct (last_opt (m_clos gs)), (last_opt (am_clos asrc)); try contradiction; constructor; auto.
Qed.

Lemma core_full_step gw aw o :
  RW gw aw -> core_op o = true -> snd (a_step aw o) <> OIllegal ->
  snd (g_step gw o) = snd (a_step aw o) /\ RW (fst (g_step gw o)) (fst (a_step aw o)).
Proof.
  intros [HRw HRc] Hc Hleg.
  pose proof (g_step_strip gw o Hc) as GS. pose proof (a_step_strip aw o Hc) as AS.
  assert (Hleg' : snd (a_step (strip_a aw) o) <> OIllegal) by (rewrite AS; exact Hleg).
  destruct (core_step _ _ o HRw Hc Hleg') as [Eo HRw']. rewrite GS, AS in Eo, HRw'. cbn [fst snd] in Eo, HRw'.
  split; [exact Eo|]. split; [exact HRw'|].
  destruct HRc as (Hh & Hcl & Hok).
  destruct (core_mem_after gw o Hc) as (Hhs & Hser & Hafter). cbv zeta in *.
  assert (Hna : forall w, snd (g_step gw o) <> OAbort w).
  { intros w Hw. rewrite Eo in Hw. exact (a_obs_not_abort _ _ _ Hw). }
  assert (Hup : forall f a, Rf gw f a -> Rf (fst (g_step gw o)) f a).
  { intros f a. apply rf_after; assumption. }
  assert (Hnext : gw_next_mem gw = aw_next_mem aw).
  { destruct HRw as (_ & _ & Hn & _). exact Hn. }
  unfold Rc. conj.
  - rewrite Hhs, (a_handles_core aw o Hc). exact (F2_impl _ _ _ _ Hup Hh).
  - intros mid gm' am' Hg Ha.
    pose proof (g_clos_after gw o Hc Hna mid gm' Hg) as CG.
    pose proof (a_clos_after aw o Hc Hleg mid am' Ha) as CA.
    unfold clos_after_g, clos_after_a in *. rewrite <- Hnext in CA.
    destruct (clone_target (gw_next_mem gw) o) as [[t src]|].
    + destruct (t =? mid).
      * destruct CG as (gs & Hgs & ->). destruct CA as (asrc & Has & ->).
        apply (F2_impl _ _ _ _ Hup). apply copied_related. exact (Hcl _ _ _ Hgs Has).
      * destruct CG as (gm & Hgm & ->). destruct CA as (am & Ham & ->).
        apply (F2_impl _ _ _ _ Hup). exact (Hcl _ _ _ Hgm Ham).
    + destruct CG as (gm & Hgm & ->). destruct CA as (am & Ham & ->).
      apply (F2_impl _ _ _ _ Hup). exact (Hcl _ _ _ Hgm Ham).
  - apply (ser_ok_after gw); assumption.
Qed.

(* ---------- the five aliasing operations ---------- *)
Lemma Rc_snoc gw aw gw' aw' c c' :
  Rc gw aw -> gw_mems gw' = gw_mems gw -> gw_serial gw' = gw_serial gw -> aw_mems aw' = aw_mems aw ->
  gw_handles gw' = gw_handles gw ++ [c] -> aw_handles aw' = aw_handles aw ++ [c'] -> Rf gw c c' -> Rc gw' aw'.
Proof.
  intros (Hh & Hcl & Hok) Hm Hs Ham Hg Ha Hc.
  assert (Hup : forall f a, Rf gw f a -> Rf gw' f a) by (intros f a; apply Rf_ext; assumption).
  unfold Rc. conj.
  - rewrite Hg, Ha. apply Forall2_app; [exact (F2_impl _ _ _ _ Hup Hh)|]. constructor; [apply Hup; exact Hc|constructor].
  - intros mid gm am. rewrite Hm, Ham. intros H1 H2. exact (F2_impl _ _ _ _ Hup (Hcl _ _ _ H1 H2)).
  - exact (ser_ok_ext _ _ Hm Hs Hok).
Qed.

Lemma Rc_same gw aw gw' aw' :
  Rc gw aw -> gw_mems gw' = gw_mems gw -> gw_serial gw' = gw_serial gw -> aw_mems aw' = aw_mems aw ->
  gw_handles gw' = gw_handles gw -> aw_handles aw' = aw_handles aw -> Rc gw' aw'.
Proof.
  intros (Hh & Hcl & Hok) Hm Hs Ham Hg Ha.
  assert (Hup : forall f a, Rf gw f a -> Rf gw' f a) by (intros f a; apply Rf_ext; assumption).
  unfold Rc. conj.
  - rewrite Hg, Ha. exact (F2_impl _ _ _ _ Hup Hh).
  - intros mid gm am. rewrite Hm, Ham. intros H1 H2. exact (F2_impl _ _ _ _ Hup (Hcl _ _ _ H1 H2)).
  - exact (ser_ok_ext _ _ Hm Hs Hok).
Qed.

Lemma fps_length start acts : List.length (fps start acts) = (2 * List.length (map aa_serial acts))%nat.
Proof. revert start. induction acts as [|a acts IH]; intros start; cbn [fps map List.length]; [reflexivity|]. rewrite IH. lia. Qed.

Lemma top_related gw m gm am :
  ser_ok gw -> assoc_get (gw_mems gw) m = Some gm -> Rm (noclos gm) (noclos_a am) ->
  Rf gw (g_top m gm) (match last_opt (am_acts am) with Some a => ARef m (aa_serial a) | None => ANone end).
Proof.
  intros Hok Hl (junk & _ & _ & Hfp & Hser & _). cbn [noclos noclos_a m_fp m_serials am_base am_acts] in *.
  destruct (Hok _ _ Hl) as (Hnd & Hlt & Hlen).
  unfold g_top. destruct (last_opt (am_acts am)) as [a|] eqn:L.
  - destruct (last_opt_inv _ _ L) as [acts E]. rewrite E in *. rewrite fps_snoc in Hfp. rewrite map_app in Hser. cbn [map] in Hser.
    destruct (fp_at_snoc2 gm _ _ _ Hfp) as [F2 F1]. rewrite F2, F1, Hser, last_opt_snoc.
    cbn [Rf]. conj; try reflexivity.
    + rewrite Hser in Hlt. apply Forall_app in Hlt. destruct Hlt as [_ Hl1]. inversion Hl1; assumption.
    + intros gm0 p l Hl0 Hg. rewrite Hl in Hl0. injection Hl0 as <-. rewrite Hser, Hfp in Hg.
      rewrite geo_l_last in Hg.
      * injection Hg as <- <-. split; reflexivity.
      * apply fps_length.
      * rewrite Hser in Hnd. apply NoDup_remove_2 in Hnd. rewrite app_nil_r in Hnd. exact Hnd.
  - apply last_opt_none in L. rewrite L in *. cbn in Hfp. destruct (fp_at_nil gm (-2) Hfp ltac:(lia)) as [w ->]. exact I.
Qed.

Lemma capture_step gw aw m :
  RW gw aw -> snd (a_step aw (MCapture m)) <> OIllegal ->
  snd (g_step gw (MCapture m)) = snd (a_step aw (MCapture m)) /\
  RW (fst (g_step gw (MCapture m))) (fst (a_step aw (MCapture m))).
Proof.
  intros [HRw HRc] Hleg. pose proof (rw_lookup gw aw m HRw) as Hm. unfold g_step, a_step in *.
  destruct (assoc_get (gw_mems gw) m) as [gm|] eqn:EG; destruct (assoc_get (aw_mems aw) m) as [am|] eqn:EA; try contradiction;
    cbn [req obind opt_obs fst snd] in *; try congruence.
  split; [reflexivity|]. split; [exact HRw|].
  eapply Rc_snoc; try exact HRc; try reflexivity.
  destruct HRc as (_ & _ & Hok). exact (top_related gw m gm am Hok EG Hm).
Qed.

Lemma segment_copy (pre' locals rest : list value) :
  firstn (Z.to_nat (zlen locals)) (skipn (Z.to_nat (zlen pre')) (pre' ++ locals ++ rest)) = locals.
Proof. unfold zlen. rewrite !Nat2Z.id. apply firstn_skipn_mid. Qed.

Lemma own_step gw aw h :
  RW gw aw -> snd (a_step aw (MOwn h)) <> OIllegal ->
  snd (g_step gw (MOwn h)) = snd (a_step aw (MOwn h)) /\
  RW (fst (g_step gw (MOwn h))) (fst (a_step aw (MOwn h))).
Proof.
  intros [HRw HRc] Hleg. pose proof HRc as (Hh & Hcl & Hok).
  pose proof (F2_nth _ _ _ Hh (Z.to_nat h)) as Hn. unfold g_step, a_step in *.
  destruct (nth_error (gw_handles gw) (Z.to_nat h)) as [gf|]; destruct (nth_error (aw_handles aw) (Z.to_nat h)) as [af|];
    try contradiction; cbn [req obind opt_obs fst snd] in *; try congruence.
  destruct gf as [|mid ser base len gen|vs]; destruct af as [|mid' ser'|vs']; try contradiction.
  - cbn [g_content opt_obs fst snd]. split; [reflexivity|]. split; [exact HRw|].
    eapply Rc_snoc; try exact HRc; try reflexivity.
  - pose proof Hn as (<- & <- & _).
    pose proof (rw_lookup gw aw mid HRw) as Hm.
    destruct (assoc_get (aw_mems aw) mid) as [am|] eqn:EA; cbn [opt_obs fst snd] in *; [|congruence].
    destruct (find_act am ser) as [a|] eqn:EF; cbn [opt_obs fst snd] in *; [|congruence].
    destruct (assoc_get (gw_mems gw) mid) as [gm|] eqn:EG; [|contradiction].
    destruct (alias_segment gw mid ser base len gen gm am a Hn EG Hm EF) as (-> & pre' & rest & Hst & ->).
    cbn [g_content]. rewrite EG. cbn [fst snd]. split; [reflexivity|]. split; [exact HRw|].
    eapply Rc_snoc; try exact HRc; try reflexivity.
    cbn [Rf]. rewrite Hst. apply segment_copy.
  - cbn [g_content opt_obs fst snd]. split; [reflexivity|]. split; [exact HRw|].
    eapply Rc_snoc; try exact HRc; try reflexivity. exact Hn.
Qed.

(* replacing the closure stack of one memory *)
Lemma Rc_set_clos gw aw mid gm am cl cl' :
  Rc gw aw -> assoc_get (gw_mems gw) mid = Some gm -> assoc_get (aw_mems aw) mid = Some am ->
  Forall2 (Rf gw) cl cl' ->
  Rc (gset gw mid {| m_sp := m_sp gm; m_fp := m_fp gm; m_clos := cl; m_stack := m_stack gm;
                     m_serials := m_serials gm; m_cap := m_cap gm; m_gen := m_gen gm |})
     (aset aw mid {| am_base := am_base am; am_acts := am_acts am; am_clos := cl' |}).
Proof.
  intros (Hh & Hcl & Hok) EG EA Hc.
  set (m1 := {| m_sp := m_sp gm; m_fp := m_fp gm; m_clos := cl; m_stack := m_stack gm;
                m_serials := m_serials gm; m_cap := m_cap gm; m_gen := m_gen gm |}).
  assert (Hup : forall f a, Rf gw f a -> Rf (gset gw mid m1) f a).
  { intros f a. apply (Rf_gset gw mid gm m1 f a EG); reflexivity. }
  unfold Rc. conj.
  - cbn [gset aset gw_handles aw_handles]. exact (F2_impl _ _ _ _ Hup Hh).
  - intros mid0 gm' am'. cbn [gset aset gw_mems aw_mems]. destruct (Z.eq_dec mid mid0) as [->|NE].
    + rewrite !assoc_get_set_same. intros H1 H2. injection H1 as <-. injection H2 as <-.
      cbn [m1 m_clos am_clos]. exact (F2_impl _ _ _ _ Hup Hc).
    + rewrite !assoc_get_set_other by exact NE. intros H1 H2. exact (F2_impl _ _ _ _ Hup (Hcl _ _ _ H1 H2)).
  - apply (ser_ok_gset gw mid gm m1 EG); try reflexivity. exact Hok.
Qed.

Lemma Rw_set_clos gw aw mid gm am cl cl' :
  Rw (strip_g gw) (strip_a aw) -> assoc_get (gw_mems gw) mid = Some gm -> assoc_get (aw_mems aw) mid = Some am ->
  Rw (strip_g (gset gw mid {| m_sp := m_sp gm; m_fp := m_fp gm; m_clos := cl; m_stack := m_stack gm;
                     m_serials := m_serials gm; m_cap := m_cap gm; m_gen := m_gen gm |}))
     (strip_a (aset aw mid {| am_base := am_base am; am_acts := am_acts am; am_clos := cl' |})).
Proof.
  intros HRw EG EA. pose proof (rw_lookup gw aw mid HRw) as Hm. rewrite EG, EA in Hm.
  rewrite strip_gset, strip_aset. apply rw_set; [exact HRw|exact Hm].
Qed.

Lemma pushclosure_step gw aw m h :
  RW gw aw -> snd (a_step aw (MPushClosure m h)) <> OIllegal ->
  snd (g_step gw (MPushClosure m h)) = snd (a_step aw (MPushClosure m h)) /\
  RW (fst (g_step gw (MPushClosure m h))) (fst (a_step aw (MPushClosure m h))).
Proof.
  intros [HRw HRc] Hleg. pose proof HRc as (Hh & Hcl & Hok).
  pose proof (rw_lookup gw aw m HRw) as Hm.
  pose proof (F2_nth _ _ _ Hh (Z.to_nat h)) as Hn. unfold g_step, a_step in *.
  destruct (assoc_get (gw_mems gw) m) as [gm|] eqn:EG; destruct (assoc_get (aw_mems aw) m) as [am|] eqn:EA; try contradiction;
    cbn [req obind opt_obs fst snd] in *; try congruence.
  destruct (nth_error (gw_handles gw) (Z.to_nat h)) as [gf|]; destruct (nth_error (aw_handles aw) (Z.to_nat h)) as [af|];
    try contradiction; cbn [req obind opt_obs fst snd] in *; try congruence.
  split; [reflexivity|]. split.
  - apply Rw_set_clos; assumption.
  - apply Rc_set_clos; try assumption. apply Forall2_app; [exact (Hcl _ _ _ EG EA)|]. constructor; [exact Hn|constructor].
Qed.

Lemma popclosure_step gw aw m :
  RW gw aw -> snd (a_step aw (MPopClosure m)) <> OIllegal ->
  snd (g_step gw (MPopClosure m)) = snd (a_step aw (MPopClosure m)) /\
  RW (fst (g_step gw (MPopClosure m))) (fst (a_step aw (MPopClosure m))).
Proof.
  intros [HRw HRc] Hleg. pose proof HRc as (Hh & Hcl & Hok).
  pose proof (rw_lookup gw aw m HRw) as Hm. unfold g_step, a_step in *.
  destruct (assoc_get (gw_mems gw) m) as [gm|] eqn:EG; destruct (assoc_get (aw_mems aw) m) as [am|] eqn:EA; try contradiction;
    cbn [req obind opt_obs fst snd] in *; try congruence.
  pose proof (Hcl _ _ _ EG EA) as Hc.
  destruct (m_clos gm) as [|f0 fr] eqn:EC; destruct (am_clos am) as [|a0 ar] eqn:EAC; try (inversion Hc; fail);
    cbn [opt_obs fst snd] in *; try congruence.
  split; [reflexivity|]. split.
  - apply Rw_set_clos; assumption.
  - apply Rc_set_clos; try assumption. apply F2_drop_last. exact Hc.
Qed.

Lemma read_related gw aw f af i x :
  Rw (strip_g gw) (strip_a aw) -> Rf gw f af -> a_read aw af i = Some x ->
  exists st dd, g_read gw f i = Good (x, st, dd).
Proof.
  intros HRw Hf Hr. destruct f as [|mid ser base len gen|vs]; destruct af as [|mid' ser'|vs']; try contradiction; cbn [a_read g_read] in *.
  - discriminate Hr.
  - pose proof Hf as (<- & <- & _). pose proof (rw_lookup gw aw mid HRw) as Hm.
    destruct (assoc_get (aw_mems aw) mid) as [am|] eqn:EA; [|discriminate Hr].
    destruct (find_act am ser) as [a|] eqn:EF; [|discriminate Hr].
    destruct (assoc_get (gw_mems gw) mid) as [gm|] eqn:EG; [|contradiction].
    destruct (alias_segment gw mid ser base len gen gm am a Hf EG Hm EF) as (-> & pre' & rest & Hst & ->).
    pose proof (znth_some_bounds _ _ _ Hr) as Hb.
    destruct (Z.ltb_spec i 0); [lia|]. destruct (Z.geb_spec i (zlen (aa_locals a))); [lia|]. cbn [orb].
    rewrite Hst. rewrite znth_app_r by lia. replace (zlen pre' + i - zlen pre') with i by lia.
    rewrite znth_app_l by lia. rewrite Hr. eauto.
  - cbn [Rf] in Hf. subst vs'. rewrite Hr. cbn [req obind]. eauto.
Qed.

Lemma closure_step gw aw m i :
  RW gw aw -> snd (a_step aw (MClosure m i)) <> OIllegal ->
  snd (g_step gw (MClosure m i)) = snd (a_step aw (MClosure m i)) /\
  RW (fst (g_step gw (MClosure m i))) (fst (a_step aw (MClosure m i))).
Proof.
  intros [HRw HRc] Hleg. pose proof HRc as (Hh & Hcl & Hok).
  pose proof (rw_lookup gw aw m HRw) as Hm. unfold g_step, a_step in *.
  destruct (assoc_get (gw_mems gw) m) as [gm|] eqn:EG; destruct (assoc_get (aw_mems aw) m) as [am|] eqn:EA; try contradiction;
    cbn [req obind opt_obs fst snd] in *; try congruence.
  pose proof (F2_last _ _ _ (Hcl _ _ _ EG EA)) as Hl.
  destruct (last_opt (m_clos gm)) as [f|]; destruct (last_opt (am_clos am)) as [af|]; try contradiction;
    cbn [req obind opt_obs fst snd] in *; try congruence.
  destruct (a_read aw af i) as [x|] eqn:ER; cbn [opt_obs fst snd] in *; try congruence.
  destruct (read_related gw aw f af i x HRw Hl ER) as (st & dd & ->). cbn [obind fst snd].
  split; [reflexivity|]. split; [exact HRw|].
  eapply Rc_same; try exact HRc; reflexivity.
Qed.

(* ---------- every operation ---------- *)
Theorem full_step gw aw o :
  RW gw aw -> snd (a_step aw o) <> OIllegal ->
  snd (g_step gw o) = snd (a_step aw o) /\ RW (fst (g_step gw o)) (fst (a_step aw o)).
Proof.
  intros H Hleg. destruct (core_op o) eqn:Hc; [exact (core_full_step gw aw o H Hc Hleg)|].
  destruct o; try discriminate Hc.
  - apply capture_step; assumption.
  - apply own_step; assumption.
  - apply pushclosure_step; assumption.
  - apply popclosure_step; assumption.
  - apply closure_step; assumption.
Qed.

Lemma RW_init : RW gw_init aw_init.
Proof.
  split; [exact rw_init|]. unfold Rc. conj.
  - constructor.
  - intros mid gm am. unfold gw_init, aw_init. cbn [gw_mems aw_mems assoc_get]. destruct (0 =? mid); [|intros H1; discriminate H1]. intros H1 H2. injection H1 as <-. injection H2 as <-. constructor.
  - intros mid gm. unfold gw_init. cbn [gw_mems assoc_get]. destruct (0 =? mid); [|intros H1; discriminate H1]. intros H1. injection H1 as <-. cbn. conj; [constructor|constructor|reflexivity].
Qed.

Theorem full_histories : forall ops gw aw,
  RW gw aw -> Forall (fun ob => ob <> OIllegal) (a_run aw ops) ->
  map (fun x => fst (fst x)) (g_run gw ops) = a_run aw ops.
Proof.
  induction ops as [|o ops IH]; intros gw aw HR Hleg; [reflexivity|].
  cbn [g_run a_run] in *.
  destruct (g_step gw o) as [gw' og] eqn:G. destruct (a_step aw o) as [aw' oa] eqn:A.
  inversion Hleg as [|? ? Hoa Hrest]; subst.
  pose proof (full_step gw aw o HR) as CS. rewrite G, A in CS. cbn [fst snd] in CS.
  destruct (CS Hoa) as [Eo HR']. cbn [map fst]. rewrite Eo. f_equal. apply IH; assumption.
Qed.

(* from the initial memories: every legal history of ALL the memory operations — frames, operands,
   variables, globals, clones, captured frames, owned copies, the closure stack, captured variables —
   shows the same values on the Go algorithm and on the specification, and the Go algorithm never aborts on it *)
Theorem go_memory_refines_activations_full : forall ops,
  Forall (fun ob => ob <> OIllegal) (a_run aw_init ops) ->
  map (fun x => fst (fst x)) (g_run gw_init ops) = a_run aw_init ops.
Proof. intros ops Hl. apply full_histories; [exact RW_init|exact Hl]. Qed.

Print Assumptions go_memory_refines_activations_full.
