(* CallVM.v — the call protocol of the VM model for a one-argument function whose
   frame holds exactly its argument: CALL pushes the frame, the captured frame
   and the return address; RET pops them and leaves the result where the
   argument was.  Used for the built-in functions (StmtCorrect.v). *)
Require Import Calc.Sem.
Require Import Calc.Base Calc.Bytecode Calc.BytecodeProofs Calc.Value Calc.FloatText Calc.Ast Calc.Compile Calc.VM
        Calc.MemProofs Calc.ExprSem Calc.ExprVM Calc.ExprCorrect Calc.StmtVM.
Require Import Lia.
Open Scope Z_scope.

Definition vbump (v : vm) : vm := fst (bump v).

Lemma bump_St v mid m : bump (St v mid m) = (St (vbump v) mid m, v_next v).
Proof. reflexivity. Qed.

Lemma set_mem_St v mid m g : set_mem v mid m g = St v mid m.
Proof. reflexivity. Qed.

(* inside the frame of a call made with its a arguments (a = 0 or 1) at b0 *)
Definition in_frame (a b0 ip : Z) (fr : framed) (ser : Z) (x : value) (m1 mc : mem) : Prop :=
  m_fp mc = m_fp m1 ++ [b0; b0 + a] /\ m_clos mc = m_clos m1 ++ [fr] /\ m_serials mc = m_serials m1 ++ [ser] /\
  incl (m_cap mc) (m_cap m1) /\ firstn (Z.to_nat b0) (m_stack mc) = firstn (Z.to_nat b0) (m_stack m1) /\
  (a = 1 -> znth (m_stack mc) b0 = Some x) /\ znth (m_stack mc) (b0 + a) = Some (VInt ip).

Lemma in_frame_msame a b0 ip fr ser x m1 mc m4 b :
  in_frame a b0 ip fr ser x m1 mc -> msame b mc m4 -> b0 + a + 1 <= b -> 0 <= b0 -> 0 <= a <= 1 ->
  in_frame a b0 ip fr ser x m1 m4.
Proof.
  intros (F & C & S & P & T & X0 & X1) (F' & C' & S' & P' & T' & B') Hb H0 Ha. unfold in_frame.
  split; [congruence|]. split; [congruence|]. split; [congruence|]. split; [exact (incl_tran P' P)|].
  assert (Hpre : forall i, 0 <= i < b -> znth (m_stack m4) i = znth (m_stack mc) i).
  { intros i Hi. apply (znth_firstn _ _ (Z.to_nat b)); [exact T'|lia|lia]. }
  split; [|split].
  - rewrite <- T.
    assert (H : forall l : list value, firstn (Z.to_nat b0) l = firstn (Z.to_nat b0) (firstn (Z.to_nat b) l)).
    { intros l. rewrite firstn_firstn. f_equal. lia. }
    rewrite (H (m_stack m4)), T', <- H. reflexivity.
  - intros E. rewrite Hpre by lia. exact (X0 E).
  - rewrite Hpre by lia. exact X1.
Qed.

Lemma fp_at_app2 m l a b : m_fp m = l ++ [a; b] -> fp_at m (-2) = Good a /\ fp_at m (-1) = Good b.
Proof.
  intros H. unfold fp_at, znth, zlen. rewrite H, app_length. cbn [List.length].
  split.
  - destruct (Z.ltb_spec (Z.of_nat (List.length l + 2) + -2) 0); [lia|].
    replace (Z.to_nat (Z.of_nat (List.length l + 2) + -2)) with (List.length l + 0)%nat by lia.
    rewrite nth_error_app2 by lia. replace (_ - _)%nat with 0%nat by lia. reflexivity.
  - destruct (Z.ltb_spec (Z.of_nat (List.length l + 2) + -1) 0); [lia|].
    replace (Z.to_nat (Z.of_nat (List.length l + 2) + -1)) with (List.length l + 1)%nat by lia.
    rewrite nth_error_app2 by lia. replace (_ - _)%nat with 1%nat by lia. reflexivity.
Qed.

Lemma drop_last_app2' {A} (l : list A) x y : drop_last 2 (l ++ [x; y]) = l.
Proof.
  unfold drop_last. rewrite app_length. cbn [List.length].
  replace (List.length l + 2 - 2)%nat with (List.length l + 0)%nat by lia. rewrite firstn_app_2. cbn. apply app_nil_r.
Qed.

Lemma drop_last_app1' {A} (l : list A) x : drop_last 1 (l ++ [x]) = l.
Proof.
  unfold drop_last. rewrite app_length. cbn [List.length].
  replace (List.length l + 1 - 1)%nat with (List.length l + 0)%nat by lia. rewrite firstn_app_2. cbn. apply app_nil_r.
Qed.

Lemma last_opt_app1 {A} (l : list A) x : last_opt (l ++ [x]) = Some x.
Proof.
  unfold last_opt. rewrite app_length. cbn [List.length].
  replace (List.length l + 1 - 1)%nat with (List.length l + 0)%nat by lia.
  rewrite nth_error_app2 by lia. replace (_ - _)%nat with 0%nat by lia. reflexivity.
Qed.

(* ---- CALL of a function with a parameters and a locals, a = 0 or 1 ---- *)
Lemma call_enter rr v mid m1 r1 instr A nm morph fid fr a b0 x k2 a2 :
  at_ip v r1 mid instr ->
  decode instr = {| f_op := CALL; f_k0 := AddrGbl; f_k1 := AddrImm; f_k2 := k2; f_a0 := A; f_a1 := a; f_a2 := a2 |} ->
  znth (v_ds v) A = Some (VStr nm) -> gval (v_globals v) nm = VFun morph fid ->
  fn_params morph = a -> fn_locals morph = a -> assoc_get (v_frames v) fid = Some fr ->
  0 <= a <= 1 -> 0 <= b0 -> m_sp m1 = b0 + a -> m_sp m1 <= zlen (m_stack m1) -> (a = 1 -> znth (m_stack m1) b0 = Some x) ->
  exists mc, step (St v mid m1) r1 rr = SNext (St (vbump v) mid mc) (with_ip r1 (fn_node morph - 1)) /\
    in_frame a b0 (r_ip r1) fr (v_next v) x m1 mc /\ m_sp mc = b0 + a + 1 /\ m_sp mc <= zlen (m_stack mc).
Proof.
  intros Hat Hd Hnm Hg Hp Hl Hfr Ha Hb0 Hsp Hle Hx.
  rewrite (step_call v mid m1 r1 rr instr _ _ _ _ _ _ Hat Hd).
  rewrite (fetch_gbl v mid m1 A nm Hnm). cbn [obind]. rewrite Hg, Hp. rewrite Z.eqb_refl. cbn [negb].
  change (v_frames (St v mid m1)) with (v_frames v). rewrite Hfr. cbn [req obind].
  rewrite bump_St. rewrite St_get. cbn [obind]. rewrite Hl.
  unfold mPushFrame. replace (a - a) with 0 by lia.
  pose proof (growStack_only_grows m1 0) as (Esp & Efp & Ecl & Elen & Efst).
  assert (Eser : m_serials (fst (growStack m1 0)) = m_serials m1 /\ m_cap (fst (growStack m1 0)) = m_cap m1).
  { unfold growStack. destruct (m_sp m1 + 0 >=? zlen (m_stack m1)); split; reflexivity. }
  destruct Eser as [Eser Ecap].
  destruct (growStack m1 0) as [mg g] eqn:G. cbn [fst] in *.
  cbn [Z.gtb Z.compare andb fill_nil Z.to_nat]. cbn [obind].
  rewrite St_St. cbn [m_sp m_fp m_clos m_stack m_serials m_cap m_gen].
  match goal with |- context [vPush (St _ _ ?mm) _ _] => set (m2 := mm) end.
  assert (Hsp2 : 0 <= m_sp m2 <= zlen (m_stack m2)).
  { cbn [m2 m_sp m_stack]. unfold zlen in *. lia. }
  destruct (vPush_St (vbump v) mid m2 (VInt (r_ip r1)) Hsp2) as [mc [Hpush [Hmc [Hspc Htop]]]].
  rewrite Hpush. cbn [obind lift next]. exists mc. split; [reflexivity|].
  destruct Hmc as (F & C & S & P & T & B). cbn [m2 m_sp m_fp m_clos m_serials m_cap m_stack] in *.
  split; [|split; [lia|lia]].
  unfold in_frame. split; [rewrite F, Efp, Esp; f_equal; f_equal; [lia|f_equal; lia]|].
  split; [rewrite C, Ecl; reflexivity|]. split; [rewrite S, Eser; reflexivity|]. split; [rewrite <- Ecap; exact P|].
  split; [|split].
  - assert (H : forall l : list value, firstn (Z.to_nat b0) l = firstn (Z.to_nat b0) (firstn (Z.to_nat (m_sp mg + 0)) l)).
    { intros l. rewrite firstn_firstn. f_equal. lia. }
    rewrite (H (m_stack mc)), T, <- H.
    assert (H' : forall l : list value, firstn (Z.to_nat b0) l = firstn (Z.to_nat b0) (firstn (List.length (m_stack m1)) l)).
    { intros l. rewrite firstn_firstn. f_equal. unfold zlen in Hle. lia. }
    rewrite (H' (m_stack mg)), Efst. reflexivity.
  - intros E. specialize (Hx E).
    assert (Hx' : znth (m_stack mg) b0 = Some x).
    { rewrite <- Hx. apply (znth_firstn _ _ (List.length (m_stack m1))); [rewrite Efst; rewrite firstn_all; reflexivity|lia|].
      unfold zlen in Hle. lia. }
    rewrite <- Hx'. apply (znth_firstn _ _ (Z.to_nat (m_sp mg + 0))); [exact T|lia|lia].
  - replace (b0 + a) with (m_sp mg + 0) by lia. exact Htop.
Qed.

(* ---- RET of such a call, with a result that is not a function value ---- *)
Definition not_fun (y : value) : Prop := match y with VFun _ _ => False | _ => True end.

Lemma call_leave rr v mid m1 m4 r instr a b0 ip fr ser x y k1 k2 a0 a1 a2 :
  at_ip v r mid instr ->
  decode instr = {| f_op := RET; f_k0 := AddrStck; f_k1 := k1; f_k2 := k2; f_a0 := a0; f_a1 := a1; f_a2 := a2 |} ->
  in_frame a b0 ip fr ser x m1 m4 -> 0 <= a <= 1 -> 0 <= b0 -> m_sp m4 = b0 + a + 2 -> m_sp m4 <= zlen (m_stack m4) ->
  znth (m_stack m4) (b0 + a + 1) = Some y -> not_fun y ->
  exists m5, step (St v mid m4) r rr = SNext (St v mid m5) (with_ip r ip) /\
    m_fp m5 = m_fp m1 /\ m_clos m5 = m_clos m1 /\ m_serials m5 = m_serials m1 /\ incl (m_cap m5) (m_cap m1) /\
    firstn (Z.to_nat b0) (m_stack m5) = firstn (Z.to_nat b0) (m_stack m1) /\
    m_sp m5 = b0 + 1 /\ m_sp m5 <= zlen (m_stack m5) /\ znth (m_stack m5) b0 = Some y.
Proof.
  intros Hat Hd (F & C & S & P & T & X0 & X1) Ha Hb0 Hsp Hle Hy Hnf.
  rewrite (step_ret v mid m4 r rr instr _ _ _ _ _ _ Hat Hd).
  rewrite (fetch_stck v mid m4 a0 y) by (rewrite Hsp; replace (b0 + a + 2 - 1) with (b0 + a + 1) by lia; exact Hy).
  cbn [obind].
  assert (Epv : (match y with
                 | VFun morph fid =>
                     match assoc_get (v_frames (St v mid (mdrop m4))) fid with
                     | Some fr0 => let (va, owned) := frame_content (St v mid (mdrop m4)) fr0 in
                                   let (vb, nfid) := add_frame va owned in Good (vb, VFun morph nfid)
                     | None => Good (St v mid (mdrop m4), y)
                     end
                 | _ => Good (St v mid (mdrop m4), y)
                 end) = Good (St v mid (mdrop m4), y)).
  { destruct y; try reflexivity. contradiction. }
  rewrite Epv. cbn [obind]. rewrite St_get. cbn [obind].
  change (m_fp (mdrop m4)) with (m_fp m4). rewrite F.
  assert (Hz : (zlen (m_fp m1 ++ [b0; b0 + a]) - 1 <? 0) = false).
  { apply Z.ltb_ge. unfold zlen. rewrite app_length. cbn [List.length]. lia. }
  rewrite Hz.
  destruct (fp_at_app2 (mdrop m4) (m_fp m1) b0 (b0 + a) F) as [F2 F1].
  rewrite F1. cbn [obind]. unfold stack_get. change (m_stack (mdrop m4)) with (m_stack m4). rewrite X1. cbn [req obind].
  unfold mPopFrame. rewrite F2. cbn [obind].
  change (m_clos (mdrop m4)) with (m_clos m4). change (m_serials (mdrop m4)) with (m_serials m4).
  change (m_cap (mdrop m4)) with (m_cap m4). change (m_gen (mdrop m4)) with (m_gen m4).
  cbn [m_clos m_sp m_fp m_stack m_serials m_cap m_gen].
  rewrite C. assert (Hzc : (zlen (m_clos m1 ++ [fr]) <? 1) = false).
  { apply Z.ltb_ge. unfold zlen. rewrite app_length. cbn [List.length]. lia. }
  rewrite Hzc. rewrite St_St.
  change (m_fp (mdrop m4)) with (m_fp m4). change (m_stack (mdrop m4)) with (m_stack m4).
  rewrite F, S, drop_last_app2', drop_last_app1', drop_last_app1', last_opt_app1.
  set (m5' := {| m_sp := b0; m_fp := m_fp m1; m_clos := m_clos m1; m_stack := m_stack m4; m_serials := m_serials m1;
                 m_cap := filter (fun x0 => negb (x0 =? ser)) (m_cap m4); m_gen := m_gen m4 |}).
  assert (Hsp5 : 0 <= m_sp m5' <= zlen (m_stack m5')) by (cbn [m5' m_sp m_stack]; lia).
  destruct (vPush_St v mid m5' y Hsp5) as [m5 [Hpush [Hm5 [Hsp5' Htop]]]].
  rewrite Hpush. cbn [obind lift next]. exists m5. split; [reflexivity|].
  destruct Hm5 as (F5 & C5 & S5 & P5 & T5 & B5). cbn [m5' m_sp m_fp m_clos m_serials m_cap m_stack] in *.
  split; [exact F5|]. split; [exact C5|]. split; [exact S5|].
  split; [intros z Hz5; apply P; apply P5 in Hz5; apply filter_In in Hz5; exact (proj1 Hz5)|].
  split; [rewrite T5; exact T|]. split; [lia|]. split; [lia|exact Htop].
Qed.

(* ---- RET with its result in any operand that is not the temp register: the operand is fetched
        (popped when it is on the stack), then the frame is left as above ---- *)
Lemma call_leave_gen rr v mid m1 m4 m4' r instr a b0 ip fr ser x y K A k1 k2 a1 a2 :
  at_ip v r mid instr ->
  decode instr = {| f_op := RET; f_k0 := K; f_k1 := k1; f_k2 := k2; f_a0 := A; f_a1 := a1; f_a2 := a2 |} ->
  fetch (St v mid m4) mid K A = Good (St v mid m4', y) ->
  in_frame a b0 ip fr ser x m1 m4' -> 0 <= a <= 1 -> 0 <= b0 -> m_sp m4' = b0 + a + 1 -> m_sp m4' <= zlen (m_stack m4') ->
  not_fun y ->
  exists m5, step (St v mid m4) r rr = SNext (St v mid m5) (with_ip r ip) /\
    m_fp m5 = m_fp m1 /\ m_clos m5 = m_clos m1 /\ m_serials m5 = m_serials m1 /\ incl (m_cap m5) (m_cap m1) /\
    firstn (Z.to_nat b0) (m_stack m5) = firstn (Z.to_nat b0) (m_stack m1) /\
    m_sp m5 = b0 + 1 /\ m_sp m5 <= zlen (m_stack m5) /\ znth (m_stack m5) b0 = Some y.
Proof.
  intros Hat Hd Hf (F & C & S & P & T & X0 & X1) Ha Hb0 Hsp Hle Hnf.
  rewrite (step_ret v mid m4 r rr instr _ _ _ _ _ _ Hat Hd). rewrite Hf. cbn [obind].
  assert (Epv : (match y with
                 | VFun morph fid =>
                     match assoc_get (v_frames (St v mid m4')) fid with
                     | Some fr0 => let (va, owned) := frame_content (St v mid m4') fr0 in
                                   let (vb, nfid) := add_frame va owned in Good (vb, VFun morph nfid)
                     | None => Good (St v mid m4', y)
                     end
                 | _ => Good (St v mid m4', y)
                 end) = Good (St v mid m4', y)).
  { destruct y; try reflexivity. contradiction. }
  rewrite Epv. cbn [obind]. rewrite St_get. cbn [obind]. rewrite F.
  assert (Hz : (zlen (m_fp m1 ++ [b0; b0 + a]) - 1 <? 0) = false).
  { apply Z.ltb_ge. unfold zlen. rewrite app_length. cbn [List.length]. lia. }
  rewrite Hz.
  destruct (fp_at_app2 m4' (m_fp m1) b0 (b0 + a) F) as [F2 F1].
  rewrite F1. cbn [obind]. unfold stack_get. rewrite X1. cbn [req obind].
  unfold mPopFrame. rewrite F2. cbn [obind]. cbn [m_clos m_sp m_fp m_stack m_serials m_cap m_gen].
  rewrite C. assert (Hzc : (zlen (m_clos m1 ++ [fr]) <? 1) = false).
  { apply Z.ltb_ge. unfold zlen. rewrite app_length. cbn [List.length]. lia. }
  rewrite Hzc. rewrite St_St.
  rewrite F, S, drop_last_app2', drop_last_app1', drop_last_app1', last_opt_app1.
  set (m5' := {| m_sp := b0; m_fp := m_fp m1; m_clos := m_clos m1; m_stack := m_stack m4'; m_serials := m_serials m1;
                 m_cap := filter (fun x0 => negb (x0 =? ser)) (m_cap m4'); m_gen := m_gen m4' |}).
  assert (Hsp5 : 0 <= m_sp m5' <= zlen (m_stack m5')) by (cbn [m5' m_sp m_stack]; lia).
  destruct (vPush_St v mid m5' y Hsp5) as [m5 [Hpush [Hm5 [Hsp5' Htop]]]].
  rewrite Hpush. cbn [obind lift next]. exists m5. split; [reflexivity|].
  destruct Hm5 as (F5 & C5 & S5 & P5 & T5 & B5). cbn [m5' m_sp m_fp m_clos m_serials m_cap m_stack] in *.
  split; [exact F5|]. split; [exact C5|]. split; [exact S5|].
  split; [intros z Hz5; apply P; apply P5 in Hz5; apply filter_In in Hz5; exact (proj1 Hz5)|].
  split; [rewrite T5; exact T|]. split; [lia|]. split; [lia|exact Htop].
Qed.

(* ================= any number of arguments ================= *)
(* inside the frame of a call made with the arguments xs (a of them) at b0 *)
Definition in_frameN (a b0 ip : Z) (fr : framed) (ser : Z) (xs : list value) (m1 mc : mem) : Prop :=
  m_fp mc = m_fp m1 ++ [b0; b0 + a] /\ m_clos mc = m_clos m1 ++ [fr] /\ m_serials mc = m_serials m1 ++ [ser] /\
  incl (m_cap mc) (m_cap m1) /\ firstn (Z.to_nat b0) (m_stack mc) = firstn (Z.to_nat b0) (m_stack m1) /\
  (forall i x, znth xs i = Some x -> znth (m_stack mc) (b0 + i) = Some x) /\ znth (m_stack mc) (b0 + a) = Some (VInt ip).

Lemma znth_some_range {A} (l : list A) i x : znth l i = Some x -> 0 <= i < zlen l.
Proof.
  unfold znth, zlen. destruct (Z.ltb_spec i 0) as [Hn|Hn]; [discriminate|]. intros Hi. split; [lia|].
  assert (Z.to_nat i < List.length l)%nat by (apply nth_error_Some; congruence). lia.
Qed.

Lemma in_frameN_msame a b0 ip fr ser xs m1 mc m4 b :
  in_frameN a b0 ip fr ser xs m1 mc -> msame b mc m4 -> b0 + a + 1 <= b -> 0 <= b0 -> a = zlen xs ->
  in_frameN a b0 ip fr ser xs m1 m4.
Proof.
  intros (F & C & S & P & T & X0 & X1) (F' & C' & S' & P' & T' & B') Hb H0 Ha. unfold in_frameN.
  assert (Ha0 : 0 <= a) by (subst a; unfold zlen; lia).
  split; [congruence|]. split; [congruence|]. split; [congruence|]. split; [exact (incl_tran P' P)|].
  assert (Hpre : forall i, 0 <= i < b -> znth (m_stack m4) i = znth (m_stack mc) i).
  { intros i Hi. apply (znth_firstn _ _ (Z.to_nat b)); [exact T'|lia|lia]. }
  split; [|split].
  - rewrite <- T.
    assert (H : forall l : list value, firstn (Z.to_nat b0) l = firstn (Z.to_nat b0) (firstn (Z.to_nat b) l)).
    { intros l. rewrite firstn_firstn. f_equal. lia. }
    rewrite (H (m_stack m4)), T', <- H. reflexivity.
  - intros i x Hi. pose proof (znth_some_range xs i x Hi). rewrite Hpre by lia. exact (X0 i x Hi).
  - rewrite Hpre by lia. exact X1.
Qed.

Lemma call_enterN rr v mid m1 r1 instr A nm morph fid fr a b0 xs k2 a2 :
  at_ip v r1 mid instr ->
  decode instr = {| f_op := CALL; f_k0 := AddrGbl; f_k1 := AddrImm; f_k2 := k2; f_a0 := A; f_a1 := a; f_a2 := a2 |} ->
  znth (v_ds v) A = Some (VStr nm) -> gval (v_globals v) nm = VFun morph fid ->
  fn_params morph = a -> fn_locals morph = a -> assoc_get (v_frames v) fid = Some fr ->
  a = zlen xs -> 0 <= b0 -> m_sp m1 = b0 + a -> m_sp m1 <= zlen (m_stack m1) ->
  (forall i x, znth xs i = Some x -> znth (m_stack m1) (b0 + i) = Some x) ->
  exists mc, step (St v mid m1) r1 rr = SNext (St (vbump v) mid mc) (with_ip r1 (fn_node morph - 1)) /\
    in_frameN a b0 (r_ip r1) fr (v_next v) xs m1 mc /\ m_sp mc = b0 + a + 1 /\ m_sp mc <= zlen (m_stack mc).
Proof.
  intros Hat Hd Hnm Hg Hp Hl Hfr Ha Hb0 Hsp Hle Hx.
  assert (Ha0 : 0 <= a) by (rewrite Ha; unfold zlen; lia).
  rewrite (step_call v mid m1 r1 rr instr _ _ _ _ _ _ Hat Hd).
  rewrite (fetch_gbl v mid m1 A nm Hnm). cbn [obind]. rewrite Hg, Hp. rewrite Z.eqb_refl. cbn [negb].
  change (v_frames (St v mid m1)) with (v_frames v). rewrite Hfr. cbn [req obind].
  rewrite bump_St. rewrite St_get. cbn [obind]. rewrite Hl.
  unfold mPushFrame. replace (a - a) with 0 by lia.
  pose proof (growStack_only_grows m1 0) as (Esp & Efp & Ecl & Elen & Efst).
  assert (Eser : m_serials (fst (growStack m1 0)) = m_serials m1 /\ m_cap (fst (growStack m1 0)) = m_cap m1).
  { unfold growStack. destruct (m_sp m1 + 0 >=? zlen (m_stack m1)); split; reflexivity. }
  destruct Eser as [Eser Ecap].
  destruct (growStack m1 0) as [mg g] eqn:G. cbn [fst] in *.
  cbn [Z.gtb Z.compare andb fill_nil Z.to_nat]. cbn [obind].
  rewrite St_St. cbn [m_sp m_fp m_clos m_stack m_serials m_cap m_gen].
  match goal with |- context [vPush (St _ _ ?mm) _ _] => set (m2 := mm) end.
  assert (Hsp2 : 0 <= m_sp m2 <= zlen (m_stack m2)).
  { cbn [m2 m_sp m_stack]. unfold zlen in *. lia. }
  destruct (vPush_St (vbump v) mid m2 (VInt (r_ip r1)) Hsp2) as [mc [Hpush [Hmc [Hspc Htop]]]].
  rewrite Hpush. cbn [obind lift next]. exists mc. split; [reflexivity|].
  destruct Hmc as (F & C & S & P & T & B). cbn [m2 m_sp m_fp m_clos m_serials m_cap m_stack] in *.
  split; [|split; [lia|lia]].
  unfold in_frameN. split; [rewrite F, Efp, Esp; f_equal; f_equal; [lia|f_equal; lia]|].
  split; [rewrite C, Ecl; reflexivity|]. split; [rewrite S, Eser; reflexivity|]. split; [rewrite <- Ecap; exact P|].
  split; [|split].
  - assert (H : forall l : list value, firstn (Z.to_nat b0) l = firstn (Z.to_nat b0) (firstn (Z.to_nat (m_sp mg + 0)) l)).
    { intros l. rewrite firstn_firstn. f_equal. lia. }
    rewrite (H (m_stack mc)), T, <- H.
    assert (H' : forall l : list value, firstn (Z.to_nat b0) l = firstn (Z.to_nat b0) (firstn (List.length (m_stack m1)) l)).
    { intros l. rewrite firstn_firstn. f_equal. unfold zlen in Hle. lia. }
    rewrite (H' (m_stack mg)), Efst. reflexivity.
  - intros i x Hi. pose proof (znth_some_range xs i x Hi) as Hr. specialize (Hx i x Hi).
    assert (Hx' : znth (m_stack mg) (b0 + i) = Some x).
    { rewrite <- Hx. apply (znth_firstn _ _ (List.length (m_stack m1))); [rewrite Efst; rewrite firstn_all; reflexivity|lia|].
      unfold zlen in Hle. lia. }
    rewrite <- Hx'. apply (znth_firstn _ _ (Z.to_nat (m_sp mg + 0))); [exact T|lia|lia].
  - replace (b0 + a) with (m_sp mg + 0) by lia. exact Htop.
Qed.

Lemma call_leaveN rr v mid m1 m4 m4' r instr a b0 ip fr ser xs y K A k1 k2 a1 a2 :
  at_ip v r mid instr ->
  decode instr = {| f_op := RET; f_k0 := K; f_k1 := k1; f_k2 := k2; f_a0 := A; f_a1 := a1; f_a2 := a2 |} ->
  fetch (St v mid m4) mid K A = Good (St v mid m4', y) ->
  in_frameN a b0 ip fr ser xs m1 m4' -> 0 <= a -> 0 <= b0 -> m_sp m4' = b0 + a + 1 -> m_sp m4' <= zlen (m_stack m4') ->
  not_fun y ->
  exists m5, step (St v mid m4) r rr = SNext (St v mid m5) (with_ip r ip) /\
    m_fp m5 = m_fp m1 /\ m_clos m5 = m_clos m1 /\ m_serials m5 = m_serials m1 /\ incl (m_cap m5) (m_cap m1) /\
    firstn (Z.to_nat b0) (m_stack m5) = firstn (Z.to_nat b0) (m_stack m1) /\
    m_sp m5 = b0 + 1 /\ m_sp m5 <= zlen (m_stack m5) /\ znth (m_stack m5) b0 = Some y.
Proof.
  intros Hat Hd Hf (F & C & S & P & T & X0 & X1) Ha Hb0 Hsp Hle Hnf.
  rewrite (step_ret v mid m4 r rr instr _ _ _ _ _ _ Hat Hd). rewrite Hf. cbn [obind].
  assert (Epv : (match y with
                 | VFun morph fid =>
                     match assoc_get (v_frames (St v mid m4')) fid with
                     | Some fr0 => let (va, owned) := frame_content (St v mid m4') fr0 in
                                   let (vb, nfid) := add_frame va owned in Good (vb, VFun morph nfid)
                     | None => Good (St v mid m4', y)
                     end
                 | _ => Good (St v mid m4', y)
                 end) = Good (St v mid m4', y)).
  { destruct y; try reflexivity. contradiction. }
  rewrite Epv. cbn [obind]. rewrite St_get. cbn [obind]. rewrite F.
  assert (Hz : (zlen (m_fp m1 ++ [b0; b0 + a]) - 1 <? 0) = false).
  { apply Z.ltb_ge. unfold zlen. rewrite app_length. cbn [List.length]. lia. }
  rewrite Hz.
  destruct (fp_at_app2 m4' (m_fp m1) b0 (b0 + a) F) as [F2 F1].
  rewrite F1. cbn [obind]. unfold stack_get. rewrite X1. cbn [req obind].
  unfold mPopFrame. rewrite F2. cbn [obind]. cbn [m_clos m_sp m_fp m_stack m_serials m_cap m_gen].
  rewrite C. assert (Hzc : (zlen (m_clos m1 ++ [fr]) <? 1) = false).
  { apply Z.ltb_ge. unfold zlen. rewrite app_length. cbn [List.length]. lia. }
  rewrite Hzc. rewrite St_St.
  rewrite F, S, drop_last_app2', drop_last_app1', drop_last_app1', last_opt_app1.
  set (m5' := {| m_sp := b0; m_fp := m_fp m1; m_clos := m_clos m1; m_stack := m_stack m4'; m_serials := m_serials m1;
                 m_cap := filter (fun x0 => negb (x0 =? ser)) (m_cap m4'); m_gen := m_gen m4' |}).
  assert (Hsp5 : 0 <= m_sp m5' <= zlen (m_stack m5')) by (cbn [m5' m_sp m_stack]; lia).
  destruct (vPush_St v mid m5' y Hsp5) as [m5 [Hpush [Hm5 [Hsp5' Htop]]]].
  rewrite Hpush. cbn [obind lift next]. exists m5. split; [reflexivity|].
  destruct Hm5 as (F5 & C5 & S5 & P5 & T5 & B5). cbn [m5' m_sp m_fp m_clos m_serials m_cap m_stack] in *.
  split; [exact F5|]. split; [exact C5|]. split; [exact S5|].
  split; [intros z Hz5; apply P; apply P5 in Hz5; apply filter_In in Hz5; exact (proj1 Hz5)|].
  split; [rewrite T5; exact T|]. split; [lia|]. split; [lia|exact Htop].
Qed.
