(* PropC18.v — C18: frames are isolated under any growth.

   Proved here about the memory operations of the VM model (VM.v, the same
   functions every session correspondence runs through): a written local is
   read back, writing one slot changes no other, growth keeps every cell,
   Push/Pop and PushFrame/PopFrame restore the frame structure.  And the
   history statement (MemRefine.v): on every legal history of pushes, pops,
   frame pushes and pops of any width and depth, variable writes and reads,
   return-address reads and writes, globals, and clones into fresh or recycled
   memories, the Go algorithm G (these very memory functions, with its growing
   slice and frame-pointer pairs) shows exactly the values of the
   specification A in which every activation owns its variables — growth and
   foreign frames never change a variable.  MemClosure.v and MemAlias.v extend
   this to ALL sixteen operations: capturing the top frame as an alias into the
   stack slice, copying a captured frame, the closure stack, reading a captured
   variable (C18_go_memory_refines_activations_full).  Where the real Go slices
   deviate from G — an alias taken before its slice was reallocated keeps the
   old array (finding K1) — G raises its stale flag; the list model cannot
   exhibit the deviation itself.  The check runs G, A and the real memory.Type
   side by side on generated histories. *)
Require Import Calc.Base Calc.Bytecode Calc.Value Calc.FloatText Calc.Compile Calc.VM Calc.MemProofs Calc.Mem18 Calc.MemRefine Calc.MemClosure Calc.MemAlias.
Open Scope Z_scope.

Lemma znth_zset_same {A} (l : list A) i v :
  0 <= i < zlen l -> znth (zset l (Z.to_nat i) v) i = Some v.
Proof.
  intros H. unfold znth, zlen in *. destruct (Z.ltb_spec i 0); [lia|].
  apply zset_nth_same. lia.
Qed.

Lemma znth_zset_other {A} (l : list A) i j v :
  0 <= i -> i <> j -> znth (zset l (Z.to_nat i) v) j = znth l j.
Proof.
  intros Hi H. unfold znth. destruct (Z.ltb_spec j 0); [reflexivity|].
  apply zset_nth_other. lia.
Qed.

Theorem C18_write_then_read : forall m i v m',
  mSet m i v = Good m' -> mLookUpLocal m' i = Good v.
Proof.
  intros m i v m' H. unfold mSet, mLookUpLocal in *.
  destruct (fp_at m (-2)) as [fp|] eqn:F; cbn [obind] in *; [|discriminate].
  unfold stack_set in H.
  destruct ((fp + i <? 0) || (fp + i >=? zlen (m_stack m))) eqn:B; [discriminate|].
  inversion H; subst; clear H.
  unfold fp_at in *. cbn [with_stack m_fp]. rewrite F. cbn [obind].
  unfold stack_get. cbn [with_stack m_stack].
  rewrite znth_zset_same by lia. reflexivity.
Qed.
Print Assumptions C18_write_then_read.

Theorem C18_write_leaves_other_slots : forall m i j v m',
  mSet m i v = Good m' -> i <> j -> mLookUpLocal m' j = mLookUpLocal m j.
Proof.
  intros m i j v m' H NE. unfold mSet, mLookUpLocal in *.
  destruct (fp_at m (-2)) as [fp|] eqn:F; cbn [obind] in *; [|discriminate].
  unfold stack_set in H.
  destruct ((fp + i <? 0) || (fp + i >=? zlen (m_stack m))) eqn:B; [discriminate|].
  inversion H; subst; clear H.
  unfold fp_at in *. cbn [with_stack m_fp]. rewrite F. cbn [obind].
  unfold stack_get. cbn [with_stack m_stack].
  rewrite znth_zset_other by lia. reflexivity.
Qed.
Print Assumptions C18_write_leaves_other_slots.

(* a write touches exactly one cell of the whole stack: every other frame keeps every variable *)
Theorem C18_write_touches_one_cell : forall m i v m' fp,
  mSet m i v = Good m' -> fp_at m (-2) = Good fp ->
  forall k, k <> fp + i -> znth (m_stack m') k = znth (m_stack m) k.
Proof.
  intros m i v m' fp H F k NE. unfold mSet in H. rewrite F in H. cbn [obind] in H.
  unfold stack_set in H.
  destruct ((fp + i <? 0) || (fp + i >=? zlen (m_stack m))) eqn:B; [discriminate|].
  inversion H; subst; clear H. cbn [with_stack m_stack].
  apply znth_zset_other; lia.
Qed.
Print Assumptions C18_write_touches_one_cell.

Theorem C18_growth_keeps_every_cell : forall m n,
  let m' := fst (growStack m n) in
  m_sp m' = m_sp m /\ m_fp m' = m_fp m /\ m_clos m' = m_clos m /\
  firstn (List.length (m_stack m)) (m_stack m') = m_stack m.
Proof.
  intros m n. pose proof (growStack_only_grows m n) as (A & B & C & _ & E). cbv zeta. auto.
Qed.
Print Assumptions C18_growth_keeps_every_cell.

Theorem C18_push_pop_restores : forall m x m' g,
  0 <= m_sp m <= zlen (m_stack m) -> mPush m x = Good (m', g) ->
  exists m'', mPop m' = Good (m'', x) /\ m_sp m'' = m_sp m /\ m_fp m'' = m_fp m /\ m_clos m'' = m_clos m.
Proof. exact push_pop_balanced. Qed.
Print Assumptions C18_push_pop_restores.

Theorem C18_frame_push_pop_restores : forall m a l ser m' g,
  mPushFrame m a l ser = Good (m', g) ->
  exists m'', mPopFrame m' = Good m'' /\ m_sp m'' = m_sp m - a /\ m_fp m'' = m_fp m /\
              m_clos m'' = m_clos m /\ m_serials m'' = m_serials m.
Proof. exact pushframe_popframe_balanced. Qed.
Print Assumptions C18_frame_push_pop_restores.

(* pushing a frame writes only at or above the old stack pointer: all lower frames keep their cells *)
Lemma fill_nil_below (st : list value) (from n : nat) k :
  (k < from)%nat -> nth_error (fill_nil st from n) k = nth_error st k.
Proof.
  revert st from. induction n as [|n IH]; intros st from H; cbn; [reflexivity|].
  rewrite IH by lia. apply zset_nth_other. lia.
Qed.

Lemma nth_error_firstn_lt {A} (l : list A) n k : (k < n)%nat -> nth_error (firstn n l) k = nth_error l k.
Proof.
  revert n k. induction l as [|x l IH]; intros [|n] [|k] H; cbn; try reflexivity; try lia.
  apply IH. lia.
Qed.

Theorem C18_new_frame_leaves_lower_cells : forall m a l ser m' g,
  0 <= m_sp m <= zlen (m_stack m) -> mPushFrame m a l ser = Good (m', g) ->
  forall k, 0 <= k < m_sp m -> znth (m_stack m') k = znth (m_stack m) k.
Proof.
  intros m a l ser m' g Hsp H k Hk. unfold mPushFrame in H.
  destruct (growStack m (l - a)) as [m1 g1] eqn:G.
  pose proof (growStack_only_grows m (l - a)) as (Esp & _ & _ & Hlen & Epre). rewrite G in Esp, Hlen, Epre. cbn in Esp, Hlen, Epre.
  destruct ((l - a >? 0) && (m_sp m1 + (l - a) >? zlen (m_stack m1))); [discriminate|].
  inversion H; subst; clear H. cbn [m_stack].
  unfold znth, zlen in *. destruct (Z.ltb_spec k 0); [lia|].
  rewrite fill_nil_below by lia.
  rewrite <- Epre. rewrite nth_error_firstn_lt by lia. reflexivity.
Qed.
Print Assumptions C18_new_frame_leaves_lower_cells.

(* ---- histories ---- *)
Theorem C18_go_memory_refines_activations : forall ops,
  forallb core_op ops = true -> Forall (fun ob => ob <> OIllegal) (a_run aw_init ops) ->
  map (fun x => fst (fst x)) (g_run gw_init ops) = a_run aw_init ops.
Proof. exact go_memory_refines_activations. Qed.
Print Assumptions C18_go_memory_refines_activations.

(* one step from any related pair of worlds keeps them related: the invariant behind it *)
Theorem C18_step_keeps_simulation : forall gw aw o,
  Rw gw aw -> core_op o = true -> snd (a_step aw o) <> OIllegal ->
  snd (g_step gw o) = snd (a_step aw o) /\ Rw (fst (g_step gw o)) (fst (a_step aw o)).
Proof. exact core_step. Qed.
Print Assumptions C18_step_keeps_simulation.

(* ---- histories of all sixteen operations, the aliasing ones included ---- *)
Theorem C18_go_memory_refines_activations_full : forall ops,
  Forall (fun ob => ob <> OIllegal) (a_run aw_init ops) ->
  map (fun x => fst (fst x)) (g_run gw_init ops) = a_run aw_init ops.
Proof. exact go_memory_refines_activations_full. Qed.
Print Assumptions C18_go_memory_refines_activations_full.

(* its invariant: the frame values of G (aliases and owned copies, wherever they are stored: handles or
   closure stacks) denote the frame values of A, and serial numbers are never reused *)
Theorem C18_full_step_keeps_simulation : forall gw aw o,
  RW gw aw -> snd (a_step aw o) <> OIllegal ->
  snd (g_step gw o) = snd (a_step aw o) /\ RW (fst (g_step gw o)) (fst (a_step aw o)).
Proof. exact full_step. Qed.
Print Assumptions C18_full_step_keeps_simulation.

(* a captured frame is read through the closure stack while its activation is live, after a deeper call
   returned, and as an owned copy after the activation ended: all legal, values as written *)
Definition C18_alias_history : list mop :=
  [MPush 0 (VInt 1); MPushFrame 0 1 3; MSet 0 1 (VInt 11); MCapture 0; MPushClosure 0 0; MClosure 0 1; MClosure 0 0;
   MPush 0 (VInt 2); MPushFrame 0 1 130; MSet 0 129 (VInt 12); MClosure 0 1; MCapture 0; MPushClosure 0 1; MClosure 0 129;
   MPopClosure 0; MPopFrame 0; MSet 0 2 (VInt 13); MClosure 0 2; MOwn 0; MPopClosure 0; MPopFrame 0;
   MPushClosure 0 2; MClosure 0 2; MClosure 0 1; MClone 0 None; MClosure 1 0].

Example C18_alias_nonvacuous :
  forallb (fun ob => match ob with OIllegal => false | _ => true end) (a_run aw_init C18_alias_history) = true /\
  existsb (fun o => negb (core_op o)) C18_alias_history = true /\
  a_run aw_init C18_alias_history =
  [ONone; ONone; ONone; ONone; ONone; OVal (VInt 11); OVal (VInt 1);
   ONone; ONone; ONone; OVal (VInt 11); ONone; ONone; OVal (VInt 12);
   ONone; ONone; ONone; OVal (VInt 13); ONone; ONone; ONone;
   ONone; OVal (VInt 13); OVal (VInt 11); ONone; OVal (VInt 1)].
Proof. repeat split; vm_compute; reflexivity. Qed.

(* the hypotheses are met by a real history: nested calls of widths 3 and 130
   (past the first growth step), a write in the outer frame read back after the
   inner call returned, a fork of the frame into a fresh and into a recycled
   memory, all legal *)
Definition C18_history : list mop :=
  [MPush 0 (VInt 1); MPush 0 (VInt 2); MPushFrame 0 2 3; MPush 0 (VInt 99); MSet 0 2 (VInt 7);
   MPush 0 (VInt 5); MPushFrame 0 1 130; MPush 0 (VInt 98); MSet 0 129 (VInt 8); MLocal 0 129; MLocal 0 0;
   MClone 0 None; MSet 1 129 (VInt 9); MLocal 1 129; MLocal 0 129; MIPGet 0; MPopFrame 0;
   MLocal 0 2; MLocal 0 0; MLocal 0 1; MIPGet 0; MClone 0 (Some 1); MLocal 1 2; MSetGlobal "g" (VInt 3); MGlobal "g";
   MPopFrame 0; MPush 0 (VInt 4); MPop 0].

Example C18_nonvacuous :
  forallb core_op C18_history = true /\
  forallb (fun ob => match ob with OIllegal => false | _ => true end) (a_run aw_init C18_history) = true /\
  a_run aw_init C18_history =
  [ONone; ONone; ONone; ONone; ONone; ONone; ONone; ONone; ONone; OVal (VInt 8); OVal (VInt 5); ONone; ONone;
   OVal (VInt 9); OVal (VInt 8); OVal (VInt 98); ONone; OVal (VInt 7); OVal (VInt 1); OVal (VInt 2); OVal (VInt 99);
   ONone; OVal (VInt 7); ONone; OVal (VInt 3); ONone; ONone; OVal (VInt 4)].
Proof. repeat split; vm_compute; reflexivity. Qed.

(* ---- a parameter, read by the compiled code of a function body ---- *)
Require Calc.LExprCorrect.
Require Import Calc.Ast Calc.ExprCorrect Calc.LExprSem.
(* the operand the compiler returns for local variable ix denotes, in any activation whose frame holds L,
   the value L holds at ix — whatever lies above the frame, however far the stack has grown
   (LExprCorrect.lfr is stable under everything that keeps the cells below the stack pointer: lfr_msame) *)
Theorem C18_local_operand_is_the_variable : forall L ix n sel fl s s' w,
  0 <= ix < zlen L -> wfcs s -> Compile.comp_ref (NLocal ix n) sel s = COk (w, s') ->
  LExprCorrect.SpecD L (fun G => lden L G (NLocal ix n)) sel fl s s' w.
Proof. exact LExprCorrect.local_spec. Qed.
Print Assumptions C18_local_operand_is_the_variable.

Theorem C18_frame_survives_what_keeps_the_stack_below : forall L m m1,
  LExprCorrect.lfr L m -> ExprVM.msame (m_sp m) m m1 -> 0 <= m_sp m -> LExprCorrect.lfr L m1.
Proof. exact LExprCorrect.lfr_msame. Qed.
Print Assumptions C18_frame_survives_what_keeps_the_stack_below.
