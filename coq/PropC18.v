(* PropC18.v — C18: frames are isolated under any growth.

   Proved here about the memory operations of the VM model (VM.v, the same
   functions every session correspondence runs through): a written local is
   read back, writing one slot changes no other, growth keeps every cell,
   Push/Pop and PushFrame/PopFrame restore the frame structure.  The history
   statement (G = A of Mem18.v on every legal history without stale or dead
   reads) is the refinement theorem in MemRefine.v when present; the check
   runs G, A and the real memory.Type side by side on generated histories. *)
Require Import Calc.Base Calc.Bytecode Calc.Value Calc.FloatText Calc.Compile Calc.VM Calc.MemProofs.
Open Scope Z_scope.

Lemma znth_zset_same {A} (l : list A) i v :
  0 <= i < zlen l -> znth (zset l (Z.to_nat i) v) i = Some v.
Proof.
  intros H. unfold znth, zlen in *. destruct (Z.ltb_spec i 0); [lia|].
  apply zset_nth_same. lia.
Qed.

Lemma znth_zset_other {A} (l : list A) i j v :
  0 <= i -> i <> j -> znth (zset l (Z.to_nat i) v) j = znth l j.
Proof.
  intros Hi H. unfold znth. destruct (Z.ltb_spec j 0); [reflexivity|].
  apply zset_nth_other. lia.
Qed.

Theorem C18_write_then_read : forall m i v m',
  mSet m i v = Good m' -> mLookUpLocal m' i = Good v.
Proof.
  intros m i v m' H. unfold mSet, mLookUpLocal in *.
  destruct (fp_at m (-2)) as [fp|] eqn:F; cbn [obind] in *; [|discriminate].
  unfold stack_set in H.
  destruct ((fp + i <? 0) || (fp + i >=? zlen (m_stack m))) eqn:B; [discriminate|].
  inversion H; subst; clear H.
  unfold fp_at in *. cbn [with_stack m_fp]. rewrite F. cbn [obind].
  unfold stack_get. cbn [with_stack m_stack].
  rewrite znth_zset_same by lia. reflexivity.
Qed.
Print Assumptions C18_write_then_read.

Theorem C18_write_leaves_other_slots : forall m i j v m',
  mSet m i v = Good m' -> i <> j -> mLookUpLocal m' j = mLookUpLocal m j.
Proof.
  intros m i j v m' H NE. unfold mSet, mLookUpLocal in *.
  destruct (fp_at m (-2)) as [fp|] eqn:F; cbn [obind] in *; [|discriminate].
  unfold stack_set in H.
  destruct ((fp + i <? 0) || (fp + i >=? zlen (m_stack m))) eqn:B; [discriminate|].
  inversion H; subst; clear H.
  unfold fp_at in *. cbn [with_stack m_fp]. rewrite F. cbn [obind].
  unfold stack_get. cbn [with_stack m_stack].
  rewrite znth_zset_other by lia. reflexivity.
Qed.
Print Assumptions C18_write_leaves_other_slots.

(* a write touches exactly one cell of the whole stack: every other frame keeps every variable *)
Theorem C18_write_touches_one_cell : forall m i v m' fp,
  mSet m i v = Good m' -> fp_at m (-2) = Good fp ->
  forall k, k <> fp + i -> znth (m_stack m') k = znth (m_stack m) k.
Proof.
  intros m i v m' fp H F k NE. unfold mSet in H. rewrite F in H. cbn [obind] in H.
  unfold stack_set in H.
  destruct ((fp + i <? 0) || (fp + i >=? zlen (m_stack m))) eqn:B; [discriminate|].
  inversion H; subst; clear H. cbn [with_stack m_stack].
  apply znth_zset_other; lia.
Qed.
Print Assumptions C18_write_touches_one_cell.

Theorem C18_growth_keeps_every_cell : forall m n,
  let m' := fst (growStack m n) in
  m_sp m' = m_sp m /\ m_fp m' = m_fp m /\ m_clos m' = m_clos m /\
  firstn (List.length (m_stack m)) (m_stack m') = m_stack m.
Proof.
  intros m n. pose proof (growStack_only_grows m n) as (A & B & C & _ & E). cbv zeta. auto.
Qed.
Print Assumptions C18_growth_keeps_every_cell.

Theorem C18_push_pop_restores : forall m x m' g,
  0 <= m_sp m <= zlen (m_stack m) -> mPush m x = Good (m', g) ->
  exists m'', mPop m' = Good (m'', x) /\ m_sp m'' = m_sp m /\ m_fp m'' = m_fp m /\ m_clos m'' = m_clos m.
Proof. exact push_pop_balanced. Qed.
Print Assumptions C18_push_pop_restores.

Theorem C18_frame_push_pop_restores : forall m a l ser m' g,
  mPushFrame m a l ser = Good (m', g) ->
  exists m'', mPopFrame m' = Good m'' /\ m_sp m'' = m_sp m - a /\ m_fp m'' = m_fp m /\
              m_clos m'' = m_clos m /\ m_serials m'' = m_serials m.
Proof. exact pushframe_popframe_balanced. Qed.
Print Assumptions C18_frame_push_pop_restores.

(* pushing a frame writes only at or above the old stack pointer: all lower frames keep their cells *)
Lemma fill_nil_below (st : list value) (from n : nat) k :
  (k < from)%nat -> nth_error (fill_nil st from n) k = nth_error st k.
Proof.
  revert st from. induction n as [|n IH]; intros st from H; cbn; [reflexivity|].
  rewrite IH by lia. apply zset_nth_other. lia.
Qed.

Lemma nth_error_firstn_lt {A} (l : list A) n k : (k < n)%nat -> nth_error (firstn n l) k = nth_error l k.
Proof.
  revert n k. induction l as [|x l IH]; intros [|n] [|k] H; cbn; try reflexivity; try lia.
  apply IH. lia.
Qed.

Theorem C18_new_frame_leaves_lower_cells : forall m a l ser m' g,
  0 <= m_sp m <= zlen (m_stack m) -> mPushFrame m a l ser = Good (m', g) ->
  forall k, 0 <= k < m_sp m -> znth (m_stack m') k = znth (m_stack m) k.
Proof.
  intros m a l ser m' g Hsp H k Hk. unfold mPushFrame in H.
  destruct (growStack m (l - a)) as [m1 g1] eqn:G.
  pose proof (growStack_only_grows m (l - a)) as (Esp & _ & _ & Hlen & Epre). rewrite G in Esp, Hlen, Epre. cbn in Esp, Hlen, Epre.
  destruct ((l - a >? 0) && (m_sp m1 + (l - a) >? zlen (m_stack m1))); [discriminate|].
  inversion H; subst; clear H. cbn [m_stack].
  unfold znth, zlen in *. destruct (Z.ltb_spec k 0); [lia|].
  rewrite fill_nil_below by lia.
  rewrite <- Epre. rewrite nth_error_firstn_lt by lia. reflexivity.
Qed.
Print Assumptions C18_new_frame_leaves_lower_cells.
