(* CorrParse.v — executable checkers tying Grammar.v / Printer.v to parser.Parse (C07, C06). *)
Require Import Calc.Base Calc.Bytecode Calc.Value Calc.FloatText Calc.Ast Calc.Lexer Calc.Grammar Calc.Printer.
Open Scope Z_scope.

(* structural identity, floats by bit pattern *)
Fixpoint node_same (a b : node) {struct a} : bool :=
  let list_same :=
    (fix go (l m : list node) {struct l} : bool :=
       match l, m with
       | [], [] => true
       | x :: l', y :: m' => node_same x y && go l' m'
       | _, _ => false
       end) in
  match a, b with
  | NInvalid, NInvalid => true
  | NInt x, NInt y => x =? y
  | NFloat x, NFloat y => fsame x y
  | NStr x, NStr y => String.eqb x y
  | NBool x, NBool y => Bool.eqb x y
  | NName x, NName y => String.eqb x y
  | NBin o l r, NBin o' l' r' => String.eqb o o' && node_same l l' && node_same r r'
  | NUn o t, NUn o' t' => String.eqb o o' && node_same t t'
  | NIndexAt x i, NIndexAt x' i' => node_same x x' && node_same i i'
  | NIndexFromTo x f t, NIndexFromTo x' f' t' => node_same x x' && node_same f f' && node_same t t'
  | NIf c t, NIf c' t' => node_same c c' && node_same t t'
  | NIfElse c t f, NIfElse c' t' f' => node_same c c' && node_same t t' && node_same f f'
  | NWhile c x, NWhile c' x' => node_same c c' && node_same x x'
  | NFor v i x, NFor v' i' x' => list_same v v' && list_same i i' && node_same x x'
  | NReturn t, NReturn t' => node_same t t'
  | NYield t, NYield t' => node_same t t'
  | NAssign v e, NAssign v' e' => node_same v v' && node_same e e'
  | NBlock l, NBlock l' => list_same l l'
  | NList l, NList l' => list_same l l'
  | NCall n x, NCall n' x' => node_same n n' && list_same x x'
  | NFunction p x c, NFunction p' x' c' => list_same p p' && node_same x x' && (c =? c')
  | _, _ => false
  end.

Fixpoint nodes_same (l m : list node) : bool :=
  match l, m with
  | [], [] => true
  | x :: l', y :: m' => node_same x y && nodes_same l' m'
  | _, _ => false
  end.

(* parser.Parse against the model on one input.  0 agree, 1 differ, 4 fuel *)
Definition chk_parse (c : string * option (list node)) : Z :=
  match parse_model (fst c), snd c with
  | PTrees l, Some m => if nodes_same l m then 0 else 1
  | PError, None => 0
  | PFuel, _ => 4
  | _, _ => 1
  end.

Definition gtok_eqb (a b : gtok) : bool := kind_eqb (g_kind a) (g_kind b) && String.eqb (g_value a) (g_value b).
(* the scanned tokens are the printed ones followed by end-of-line, end-of-file *)
Fixpoint toks_eqb (a : list tok) (b : list gtok) : bool :=
  match a, b with
  | [Some x; Some y], [] => kind_eqb (g_kind x) KEOL && kind_eqb (g_kind y) KEOF
  | Some x :: a', y :: b' => gtok_eqb x y && toks_eqb a' b'
  | _, _ => false
  end.

(* the round trip on one tree.  The case carries the tree, the canonical text
   written by the check's own printer, and the results of parser.Parse on
   several layouts of it.
     0 fine
     2 the tree is outside the printer's domain (generator error)
     3 the check's printer and Printer.v differ on the canonical text
     5 the lexer model does not give back the printed tokens
     1 the model parser does not give back the tree from the canonical text
     4 fuel
     100+i  parser.Parse on layout i did not give back the tree   (a failing input)
     200+i  parser.Parse and the model parser differ on layout i *)
Fixpoint chk_layouts (t : node) (i : Z) (l : list (string * option (list node))) : Z :=
  match l with
  | [] => 0
  | (txt, go) :: r =>
      match go with
      | Some [x] =>
          if node_same x t then
            (if chk_parse (txt, go) =? 0 then chk_layouts t (i + 1) r else 200 + i)
          else 100 + i
      | _ => 100 + i
      end
  end.

Definition chk_roundtrip (c : node * string * list (string * option (list node))) : Z :=
  let '(t, canon, layouts) := c in
  if negb (wfb t) then 2
  else
    let ts := pp t in
    let txt := render ts in
    if negb (String.eqb txt canon) then 3
    else if negb (toks_eqb (toks_of_lexres (tokens_of txt)) ts) then 5
    else
      match parse_model txt with
      | PTrees [x] => if node_same x t then chk_layouts t 0 layouts else 1
      | PFuel => 4
      | _ => 1
      end.

(* the printed canonical text, for diagnosis *)
Definition show_roundtrip (c : node * string * list (string * option (list node))) :=
  let '(t, canon, _) := c in (render (pp t), parse_model (render (pp t))).
