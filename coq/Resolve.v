(* Resolve.v — model of types/node/strewriter.go: resolution of variable
   names to frame slots.  The symbol table is a stack of scopes (innermost
   last, as the Go slice); each scope is a map from name to slot, modelled as
   an association list where insertion replaces.  The Go maps are mutated in
   place, so the table is threaded through as state.  A Go panic is None. *)
Require Import Calc.Base Calc.Bytecode Calc.Value Calc.Ast.
Open Scope Z_scope.

Definition scope := list (string * Z).
Definition symtbl := list scope.

Fixpoint scope_get (s : scope) (n : string) : option Z :=
  match s with
  | [] => None
  | (k, v) :: r => if String.eqb k n then Some v else scope_get r n
  end.

Fixpoint scope_put (s : scope) (n : string) (v : Z) : scope :=
  match s with
  | [] => [(n, v)]
  | (k, w) :: r => if String.eqb k n then (k, v) :: r else (k, w) :: scope_put r n v
  end.

Definition scope_len (s : scope) : Z := Z.of_nat (List.length s).

(* split the table into (outer scopes, innermost scope) *)
Fixpoint split_last (t : symtbl) : option (symtbl * scope) :=
  match t with
  | [] => None
  | [s] => Some ([], s)
  | s :: r => match split_last r with
              | Some (o, l) => Some (s :: o, l)
              | None => None
              end
  end.

Definition RM (A : Type) := symtbl -> option (A * symtbl).
Definition rret {A} (a : A) : RM A := fun t => Some (a, t).
Definition rbind {A B} (m : RM A) (f : A -> RM B) : RM B :=
  fun t => match m t with Some (a, t') => f a t' | None => None end.
Definition rfail {A} : RM A := fun _ => None.
Notation "x <- m ;; k" := (rbind m (fun x => k)) (at level 61, m at next level, right associativity).

(* slot of a variable that is written (Assign target, for variable): the
   existing slot of the innermost scope or a fresh one *)
Definition slot_for_write (name : string) : RM Z :=
  fun t =>
    match split_last t with
    | None => None
    | Some (outer, top) =>
        match scope_get top name with
        | Some ix => Some (ix, t)
        | None => let l := scope_len top in Some (l, outer ++ [scope_put top name l])
        end
    end.

Definition resolve_name (n : string) : RM node :=
  fun t =>
    match split_last t with
    | None => Some (NName n, t)
    | Some (outer, top) =>
        match scope_get top n with
        | Some ix => Some (NLocal ix n, t)
        | None =>
            match split_last outer with
            | Some (_, encl) =>
                match scope_get encl n with
                | Some ix => Some (NClosure ix n, t)
                | None => Some (NName n, t)
                end
            | None => Some (NName n, t)
            end
        end
    end.

(* for-loop variables become locals of the innermost scope *)
Fixpoint resolve_vars (vs : list node) : RM (list node) :=
  match vs with
  | [] => rret []
  | NName name :: r =>
      ix <- slot_for_write name ;; r' <- resolve_vars r ;; rret (NLocal ix name :: r')
  | _ :: _ => rfail            (* varRef.(Name) type assertion *)
  end.

(* scope of a function literal: parameter i is slot i (a repeated name keeps the last) *)
Fixpoint param_scope (ps : list node) (i : Z) (s : scope) : option scope :=
  match ps with
  | [] => Some s
  | NName name :: r => param_scope r (i + 1) (scope_put s name i)
  | _ :: _ => None
  end.

Fixpoint resolve (n : node) : RM node :=
  let resolve_list :=
    (fix go (l : list node) : RM (list node) :=
       match l with
       | [] => rret []
       | x :: r => x' <- resolve x ;; r' <- go r ;; rret (x' :: r')
       end) in
  match n with
  | NInvalid => rfail
  | NInt _ | NFloat _ | NStr _ | NBool _ | NRead => rret n
  | NName s => resolve_name s
  | NLocal _ _ | NClosure _ _ => rfail          (* panic("STRewrite called on local") *)
  | NBin op l r => l' <- resolve l ;; r' <- resolve r ;; rret (NBin op l' r')
  | NUn op t => t' <- resolve t ;; rret (NUn op t')
  | NIndexAt a i => a' <- resolve a ;; i' <- resolve i ;; rret (NIndexAt a' i')
  | NIndexFromTo a f t =>
      a' <- resolve a ;; f' <- resolve f ;; t' <- resolve t ;; rret (NIndexFromTo a' f' t')
  | NIf c t => c' <- resolve c ;; t' <- resolve t ;; rret (NIf c' t')
  | NIfElse c t f => c' <- resolve c ;; t' <- resolve t ;; f' <- resolve f ;; rret (NIfElse c' t' f')
  | NWhile c b => c' <- resolve c ;; b' <- resolve b ;; rret (NWhile c' b')
  | NFor vars iters body =>
      iters' <- resolve_list iters ;;
      (fun t =>
         match t with
         | [] => (body' <- resolve body ;; rret (NFor vars iters' body')) t
         | _ => (vars' <- resolve_vars vars ;; body' <- resolve body ;; rret (NFor vars' iters' body')) t
         end)
  | NReturn t => t' <- resolve t ;; rret (NReturn t')
  | NYield t => t' <- resolve t ;; rret (NYield t')
  | NAssign v e =>
      e' <- resolve e ;;
      match v with
      | NName name =>
          (fun t =>
             match t with
             | [] => Some (NAssign (NName name) e', t)
             | _ => (ix <- slot_for_write name ;; rret (NAssign (NLocal ix name) e')) t
             end)
      | _ => rfail
      end
  | NBlock l => l' <- resolve_list l ;; rret (NBlock l')
  | NList l => l' <- resolve_list l ;; rret (NList l')
  | NCall name args =>
      name' <- resolve name ;; args' <- resolve_list args ;; rret (NCall name' args')
  | NFunction params body _ =>
      (* new scope holding the parameters, pushed on the table *)
      (fun t =>
         let scope0 := param_scope params 0 [] in
         match scope0 with
         | None => None
         | Some sc =>
             match (params' <- resolve_list params ;; body' <- resolve body ;; rret (params', body')) (t ++ [sc]) with
             | None => None
             | Some ((params', body'), t') =>
                 match split_last t' with
                 | Some (outer, top) => Some (NFunction params' body' (scope_len top), outer)
                 | None => None
                 end
             end
         end)
  | NWrite v => v' <- resolve v ;; rret (NWrite v')
  | NAton v => v' <- resolve v ;; rret (NAton v')
  | NToa v => v' <- resolve v ;; rret (NToa v')
  | NExit v => v' <- resolve v ;; rret (NExit v')
  end.

(* STRewrite(SymTbl{}) as every caller uses it *)
Definition strewrite (n : node) : option node :=
  match resolve n [] with
  | Some (n', _) => Some n'
  | None => None
  end.
