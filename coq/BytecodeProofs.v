(* BytecodeProofs.v — lemmas about the instruction word model (C15). *)
Require Import Calc.Base Calc.Bytecode.
Open Scope Z_scope.

Lemma mask_ones hi lo : mask hi lo = Z.ones (hi - lo + 1).
Proof. unfold mask. rewrite Z.shiftl_1_l, Z.ones_equiv. reflexivity. Qed.

(* field extraction distributes over OR: what makes back-patching by |= sound *)
Lemma field_lor x y hi lo :
  field (Z.lor x y) hi lo = Z.lor (field x hi lo) (field y hi lo).
Proof. unfold field. rewrite Z.shiftr_lor, Z.land_lor_distr_l. reflexivity. Qed.

Lemma field_0 hi lo : field 0 hi lo = 0.
Proof. unfold field. rewrite Z.shiftr_0_l. apply Z.land_0_l. Qed.

(* a value placed at bit p, read back through the field it was placed in *)
Lemma field_shiftl_same v p hi lo :
  0 <= p -> lo = p -> lo <= hi + 1 -> 0 <= v < 2 ^ (hi - lo + 1) -> field (Z.shiftl v p) hi lo = v.
Proof.
  intros Hp -> Hw Hv. unfold field. rewrite mask_ones.
  rewrite Z.shiftr_shiftl_l by lia. rewrite Z.sub_diag, Z.shiftl_0_r.
  rewrite Z.land_ones by lia. apply Z.mod_small. lia.
Qed.

Lemma lor_bound a b n :
  0 <= n -> 0 <= a < 2 ^ n -> 0 <= b < 2 ^ n -> 0 <= Z.lor a b < 2 ^ n.
Proof.
  intros Hn Ha Hb. split; [apply Z.lor_nonneg; lia|].
  assert (Hnn : 0 <= Z.lor a b) by (apply Z.lor_nonneg; lia).
  destruct (Z.eq_dec (Z.lor a b) 0) as [E|NE]; [rewrite E; lia|].
  apply Z.log2_lt_pow2; [lia|].
  rewrite Z.log2_lor by lia.
  assert (Hpos : 0 < n).
  { destruct (Z.eq_dec n 0) as [->|]; [|lia]. change (2 ^ 0) with 1 in *.
    assert (a = 0) by lia. assert (b = 0) by lia. subst. cbn in NE. congruence. }
  apply Z.max_lub_lt.
  - destruct (Z.eq_dec a 0) as [->|]; [cbn; lia|]. apply Z.log2_lt_pow2; lia.
  - destruct (Z.eq_dec b 0) as [->|]; [cbn; lia|]. apply Z.log2_lt_pow2; lia.
Qed.

Lemma shiftl_bound v p w n :
  0 <= p -> 0 <= w -> 0 <= v < 2 ^ w -> p + w <= n -> 0 <= Z.shiftl v p < 2 ^ n.
Proof.
  intros Hp Hw Hv Hn. rewrite Z.shiftl_mul_pow2 by lia. split; [apply Z.mul_nonneg_nonneg; lia|].
  apply Z.lt_le_trans with (2 ^ w * 2 ^ p).
  - apply Z.mul_lt_mono_pos_r; lia.
  - rewrite <- Z.pow_add_r by lia. apply Z.pow_le_mono_r; lia.
Qed.

(* ... read through a field that lies entirely above it *)
Lemma field_shiftl_above v p w hi lo :
  0 <= p -> 0 <= w -> 0 <= v < 2 ^ w -> p + w <= lo -> field (Z.shiftl v p) hi lo = 0.
Proof.
  intros Hp Hw Hv Hlo. unfold field.
  rewrite Z.shiftr_shiftl_r by lia. rewrite Z.shiftr_div_pow2 by lia.
  rewrite Z.div_small. apply Z.land_0_l.
  split; [lia|]. apply Z.lt_le_trans with (2 ^ w); [lia|].
  apply Z.pow_le_mono_r; lia.
Qed.

(* ... read through a field that lies entirely below it *)
Lemma field_shiftl_below v p hi lo :
  0 <= lo -> lo <= hi + 1 -> hi < p -> field (Z.shiftl v p) hi lo = 0.
Proof.
  intros Hlo Hhi Hp. unfold field. rewrite mask_ones.
  rewrite Z.shiftr_shiftl_l by lia. rewrite Z.land_ones by lia.
  rewrite Z.shiftl_mul_pow2 by lia.
  replace (p - lo) with ((p - hi - 1) + (hi - lo + 1)) by lia.
  rewrite Z.pow_add_r by lia. rewrite Z.mul_assoc. apply Z.mod_mul.
  apply Z.pow_nonzero; lia.
Qed.

Lemma convImm_arith n :
  0 <= n < 65536 -> convImm n = if n <? 32768 then n else n - 65536.
Proof.
  intros Hn. unfold convImm, SrcChanWidth.
  change (16 - 1) with 15. change (Z.shiftl 1 16) with 65536.
  rewrite Z.testbit_eqb by lia. change (2 ^ 15) with 32768.
  destruct (Z.ltb_spec n 32768) as [Hlt|Hge].
  - rewrite Z.div_small by lia. reflexivity.
  - replace (n / 32768) with 1 by (apply Z.div_unique with (n - 32768); lia).
    reflexivity.
Qed.

(* the 16-bit channel holds addr mod 2^16, and sign extension recovers addr *)
Lemma chan_roundtrip addr :
  -32768 <= addr < 32768 -> convImm (Z.land (u64 addr) (Z.ones 16)) = addr.
Proof.
  intros Ha. rewrite Z.land_ones by lia. unfold u64, two64.
  change 18446744073709551616 with (2 ^ 48 * 2 ^ 16).
  change (2 ^ 16) with 65536. change (2 ^ 48) with 281474976710656.
  assert (Hmm : (addr mod (281474976710656 * 65536)) mod 65536 = addr mod 65536).
  { rewrite Z.mul_comm. rewrite Z.rem_mul_r by lia.
    rewrite Z.mul_comm, Z.mod_add by lia. apply Z.mod_mod. lia. }
  rewrite Hmm.
  assert (Hm : 0 <= addr mod 65536 < 65536) by (apply Z.mod_pos_bound; lia).
  rewrite convImm_arith by exact Hm.
  destruct (Z_lt_le_dec addr 0) as [Hneg|Hpos].
  - assert (E : addr mod 65536 = addr + 65536).
    { symmetry. apply Z.mod_unique with (-1); lia. }
    rewrite E. destruct (Z.ltb_spec (addr + 65536) 32768); lia.
  - rewrite Z.mod_small by lia. destruct (Z.ltb_spec addr 32768); lia.
Qed.

Lemma chan_bound addr : 0 <= Z.land (u64 addr) (Z.ones 16) < 2 ^ 16.
Proof. rewrite Z.land_ones by lia. apply Z.mod_pos_bound. lia. Qed.

Lemma kind_land k : 0 <= k < 8 -> Z.land k (Z.ones 3) = k.
Proof. intros H. rewrite Z.land_ones by lia. apply Z.mod_small. exact H. Qed.

(* ------------------------------------------------------------------ *)
(* EncodeSrc: what comes out, for each selector                         *)

Definition chan (addr : Z) : Z := Z.land (u64 addr) (Z.ones 16).

Lemma EncodeSrc_in_range sel kind addr :
  -32768 <= addr < 32768 ->
  EncodeSrc sel kind addr =
    if sel =? 0 then Some (Z.lor (Z.shiftl (Z.land kind (Z.ones 3)) 48) (Z.shiftl (chan addr) 0))
    else if sel =? 1 then Some (Z.lor (Z.shiftl (Z.land kind (Z.ones 3)) 51) (Z.shiftl (chan addr) 16))
    else if sel =? 2 then Some (Z.lor (Z.shiftl (Z.land kind (Z.ones 3)) 54) (Z.shiftl (chan addr) 32))
    else None.
Proof.
  intros Ha. unfold EncodeSrc, SrcChanWidth. change (- Z.shiftl 1 (16 - 1)) with (-32768). change (Z.shiftl 1 (16 - 1)) with 32768.
  destruct (Z.ltb_spec addr (-32768)); [lia|].
  destruct (Z.geb_spec addr 32768); [lia|]. cbn [orb].
  rewrite !mask_ones. reflexivity.
Qed.

Theorem encode_refuses sel kind addr :
  addr < -32768 \/ 32768 <= addr -> EncodeSrc sel kind addr = None.
Proof.
  intros H. unfold EncodeSrc, SrcChanWidth. change (- Z.shiftl 1 (16 - 1)) with (-32768). change (Z.shiftl 1 (16 - 1)) with 32768.
  destruct (Z.ltb_spec addr (-32768)); [reflexivity|].
  destruct (Z.geb_spec addr 32768); [reflexivity|]. lia.
Qed.

Theorem encode_accepts_iff sel kind addr :
  0 <= sel <= 2 ->
  (exists w, EncodeSrc sel kind addr = Some w) <-> -32768 <= addr < 32768.
Proof.
  intros Hs. split.
  - intros [w Hw]. destruct (Z_lt_le_dec addr (-32768)); [rewrite encode_refuses in Hw by lia; discriminate|].
    destruct (Z_lt_le_dec addr 32768); [lia|]. rewrite encode_refuses in Hw by lia. discriminate.
  - intros Ha. rewrite EncodeSrc_in_range by exact Ha.
    assert (Hsel : sel = 0 \/ sel = 1 \/ sel = 2) by lia.
    destruct Hsel as [->|[->| ->]]; cbn; eexists; reflexivity.
Qed.

(* decoding all seven fields of one encoded operand *)
Record fields := { f_op : Z; f_k0 : Z; f_k1 : Z; f_k2 : Z; f_a0 : Z; f_a1 : Z; f_a2 : Z }.
Definition decode (b : Z) : fields :=
  {| f_op := OpCode b; f_k0 := Src0 b; f_k1 := Src1 b; f_k2 := Src2 b;
     f_a0 := Src0Addr b; f_a1 := Src1Addr b; f_a2 := Src2Addr b |}.

Ltac side := first [lia | apply chan_bound | (cbn; lia)].

Ltac field_calc :=
  repeat first
    [ rewrite field_lor
    | rewrite field_0
    | match goal with
      | |- context [field (Z.shiftl ?v ?p) ?hi ?lo] =>
          first
            [ rewrite (field_shiftl_same v p hi lo) by side
            | rewrite (field_shiftl_above v p 16 hi lo) by side
            | rewrite (field_shiftl_above v p 3 hi lo) by side
            | rewrite (field_shiftl_above v p 7 hi lo) by side
            | rewrite (field_shiftl_above v p 32 hi lo) by side
            | rewrite (field_shiftl_below v p hi lo) by side ]
      end ];
  rewrite ?Z.lor_0_l, ?Z.lor_0_r.

Local Opaque Z.shiftl Z.shiftr Z.lor Z.land Z.pow.

Ltac bound_calc :=
  repeat match goal with
  | |- 0 <= Z.lor _ _ < 2 ^ _ => apply lor_bound; [lia| |]
  | |- 0 <= Z.shiftl _ _ < 2 ^ _ =>
      first [ apply (shiftl_bound _ _ 3); lia | apply (shiftl_bound _ _ 7); lia
            | apply (shiftl_bound _ _ 16); lia | apply (shiftl_bound _ _ 32); lia ]
  end.

Lemma convImm_0 : convImm 0 = 0. Proof. reflexivity. Qed.

Ltac unfold_layout :=
  unfold decode, OpCode, Src0, Src1, Src2, Src0Addr, Src1Addr, Src2Addr,
         OpcodeHi, OpcodeLo, Src0Hi, Src0Lo, Src1Hi, Src1Lo, Src2Hi, Src2Lo,
         Src0AddrHi, Src0AddrLo, Src1AddrHi, Src1AddrLo, Src2AddrHi, Src2AddrLo.

Theorem src_roundtrip sel kind addr :
  0 <= sel <= 2 -> 0 <= kind < 8 -> -32768 <= addr < 32768 ->
  exists w, EncodeSrc sel kind addr = Some w /\ 0 <= w < two64 /\
    decode w =
      {| f_op := 0;
         f_k0 := if sel =? 0 then kind else 0;
         f_k1 := if sel =? 1 then kind else 0;
         f_k2 := if sel =? 2 then kind else 0;
         f_a0 := if sel =? 0 then addr else 0;
         f_a1 := if sel =? 1 then addr else 0;
         f_a2 := if sel =? 2 then addr else 0 |}.
Proof.
  intros Hs Hk Ha. rewrite EncodeSrc_in_range by exact Ha.
  pose proof (chan_bound addr) as Hc. fold (chan addr) in Hc.
  pose proof (chan_roundtrip addr Ha) as Hr. fold (chan addr) in Hr.
  rewrite (kind_land kind Hk).
  assert (Hk3 : 0 <= kind < 2 ^ 3) by (change (2 ^ 3) with 8; exact Hk).
  assert (Hsel : sel = 0 \/ sel = 1 \/ sel = 2) by lia.
  destruct Hsel as [->|[->| ->]]; cbn [Z.eqb Pos.eqb]; eexists; (split; [reflexivity|]); split.
  all: try (change two64 with (2 ^ 64); apply lor_bound; [lia| |];
            [apply (shiftl_bound _ _ 3); lia | apply (shiftl_bound _ _ 16); lia]).
  all: unfold_layout; field_calc; rewrite ?convImm_0, ?Hr; reflexivity.
Qed.

Lemma New_shift op : 0 <= op < 128 -> New op = Z.shiftl op 57.
Proof.
  intros H. unfold New, OpcodeHi, OpcodeLo. rewrite mask_ones.
  change (63 - 57 + 1) with 7. rewrite Z.land_ones by lia.
  rewrite Z.mod_small by (change (2 ^ 7) with 128; lia). reflexivity.
Qed.

Theorem opcode_roundtrip op :
  0 <= op < 128 ->
  0 <= New op < two64 /\
  decode (New op) = {| f_op := op; f_k0 := 0; f_k1 := 0; f_k2 := 0; f_a0 := 0; f_a1 := 0; f_a2 := 0 |}.
Proof.
  intros H. rewrite New_shift by exact H.
  assert (H7 : 0 <= op < 2 ^ 7) by (change (2 ^ 7) with 128; exact H).
  split.
  - change two64 with (2 ^ 64). apply (shiftl_bound _ _ 7); lia.
  - unfold_layout; field_calc; rewrite ?convImm_0; reflexivity.
Qed.

(* New masks its argument to 7 bits: the temp flag is bit 6 of the opcode *)
Theorem New_masks op : New op = New (op mod 128).
Proof.
  unfold New, OpcodeHi, OpcodeLo. rewrite mask_ones. change (63 - 57 + 1) with 7.
  rewrite !Z.land_ones by lia. change (2 ^ 7) with 128. rewrite Z.mod_mod by lia. reflexivity.
Qed.

(* A complete instruction: opcode and three operands OR-ed together decode to
   exactly the seven fields they were built from. *)
Theorem instr_roundtrip op k0 a0 k1 a1 k2 a2 w0 w1 w2 :
  0 <= op < 128 ->
  0 <= k0 < 8 -> 0 <= k1 < 8 -> 0 <= k2 < 8 ->
  EncodeSrc 0 k0 a0 = Some w0 -> EncodeSrc 1 k1 a1 = Some w1 -> EncodeSrc 2 k2 a2 = Some w2 ->
  let w := Z.lor (Z.lor (Z.lor (New op) w0) w1) w2 in
  0 <= w < two64 /\
  decode w = {| f_op := op; f_k0 := k0; f_k1 := k1; f_k2 := k2; f_a0 := a0; f_a1 := a1; f_a2 := a2 |}.
Proof.
  intros Hop Hk0 Hk1 Hk2 E0 E1 E2.
  assert (R0 : -32768 <= a0 < 32768).
  { apply (proj1 (encode_accepts_iff 0 k0 a0 ltac:(lia))). eauto. }
  assert (R1 : -32768 <= a1 < 32768).
  { apply (proj1 (encode_accepts_iff 1 k1 a1 ltac:(lia))). eauto. }
  assert (R2 : -32768 <= a2 < 32768).
  { apply (proj1 (encode_accepts_iff 2 k2 a2 ltac:(lia))). eauto. }
  rewrite EncodeSrc_in_range in E0, E1, E2 by assumption. cbn [Z.eqb Pos.eqb] in E0, E1, E2.
  injection E0 as <-. injection E1 as <-. injection E2 as <-.
  rewrite !kind_land by assumption. rewrite New_shift by exact Hop.
  pose proof (chan_roundtrip a0 R0) as Hr0. pose proof (chan_roundtrip a1 R1) as Hr1.
  pose proof (chan_roundtrip a2 R2) as Hr2. fold (chan a0) in Hr0. fold (chan a1) in Hr1. fold (chan a2) in Hr2.
  pose proof (chan_bound a0) as Hc0. pose proof (chan_bound a1) as Hc1. pose proof (chan_bound a2) as Hc2.
  fold (chan a0) in Hc0. fold (chan a1) in Hc1. fold (chan a2) in Hc2.
  assert (H7 : 0 <= op < 2 ^ 7) by (change (2 ^ 7) with 128; exact Hop).
  assert (Hk0' : 0 <= k0 < 2 ^ 3) by (change (2 ^ 3) with 8; exact Hk0).
  assert (Hk1' : 0 <= k1 < 2 ^ 3) by (change (2 ^ 3) with 8; exact Hk1).
  assert (Hk2' : 0 <= k2 < 2 ^ 3) by (change (2 ^ 3) with 8; exact Hk2).
  cbv zeta. split.
  - change two64 with (2 ^ 64).
    bound_calc.
  - unfold_layout; field_calc; rewrite ?convImm_0, ?Hr0, ?Hr1, ?Hr2; reflexivity.
Qed.

(* Back-patching: OR-ing an operand into an instruction whose field for that
   operand is still zero sets that field and leaves every other field alone. *)
Theorem patch_src1_imm b off w :
  Src1 b = 0 -> field b Src1AddrHi Src1AddrLo = 0 ->
  EncodeSrc 1 AddrImm off = Some w ->
  let b' := Z.lor b w in
  OpCode b' = OpCode b /\ Src0 b' = Src0 b /\ Src0Addr b' = Src0Addr b /\
  Src2 b' = Src2 b /\ Src2Addr b' = Src2Addr b /\ Src1 b' = AddrImm /\ Src1Addr b' = off.
Proof.
  intros Hk Ha E.
  assert (R : -32768 <= off < 32768).
  { apply (proj1 (encode_accepts_iff 1 AddrImm off ltac:(lia))). eauto. }
  rewrite EncodeSrc_in_range in E by assumption. cbn [Z.eqb Pos.eqb] in E. injection E as <-.
  rewrite kind_land by (unfold AddrImm; lia).
  pose proof (chan_roundtrip off R) as Hr. fold (chan off) in Hr.
  pose proof (chan_bound off) as Hc. fold (chan off) in Hc.
  unfold Src1 in Hk. unfold AddrImm in *.
  cbv zeta. unfold_layout. unfold Src1Hi, Src1Lo, Src1AddrHi, Src1AddrLo in *.
  rewrite !field_lor. field_calc. rewrite ?Hk, ?Ha, ?Z.lor_0_l, ?Z.lor_0_r, ?Hr.
  repeat split; reflexivity.
Qed.

Theorem patch_src0_imm b off w :
  Src0 b = 0 -> field b Src0AddrHi Src0AddrLo = 0 ->
  EncodeSrc 0 AddrImm off = Some w ->
  let b' := Z.lor b w in
  OpCode b' = OpCode b /\ Src1 b' = Src1 b /\ Src1Addr b' = Src1Addr b /\
  Src2 b' = Src2 b /\ Src2Addr b' = Src2Addr b /\ Src0 b' = AddrImm /\ Src0Addr b' = off.
Proof.
  intros Hk Ha E.
  assert (R : -32768 <= off < 32768).
  { apply (proj1 (encode_accepts_iff 0 AddrImm off ltac:(lia))). eauto. }
  rewrite EncodeSrc_in_range in E by assumption. cbn [Z.eqb Pos.eqb] in E. injection E as <-.
  rewrite kind_land by (unfold AddrImm; lia).
  pose proof (chan_roundtrip off R) as Hr. fold (chan off) in Hr.
  pose proof (chan_bound off) as Hc. fold (chan off) in Hc.
  unfold Src0 in Hk. unfold AddrImm in *.
  cbv zeta. unfold_layout. unfold Src0Hi, Src0Lo, Src0AddrHi, Src0AddrLo in *.
  rewrite !field_lor. field_calc. rewrite ?Hk, ?Ha, ?Z.lor_0_l, ?Z.lor_0_r, ?Hr.
  repeat split; reflexivity.
Qed.

(* ---- function value packing ---- *)
Lemma fn_fields m :
  fn_node m = field m 31 0 /\ fn_params m = field m 63 48 /\ fn_locals m = field m 47 32.
Proof. repeat split; reflexivity. Qed.

Theorem function_pack_roundtrip node pc lc :
  0 <= node < 2 ^ 32 -> 0 <= pc < 2 ^ 16 -> 0 <= lc < 2 ^ 16 ->
  let m := pack_function node pc lc in
  0 <= m < two64 /\ fn_node m = node /\ fn_params m = pc /\ fn_locals m = lc.
Proof.
  intros Hn Hp Hl. cbv zeta.
  destruct (fn_fields (pack_function node pc lc)) as (-> & -> & ->).
  unfold pack_function, paramsCntLo, localCntLo, ipLo.
  assert (U : forall z, 0 <= z < two64 -> u64 z = z) by (intros; unfold u64; apply Z.mod_small; assumption).
  assert (P32 : 2 ^ 32 = 4294967296) by reflexivity.
  assert (P16 : 2 ^ 16 = 65536) by reflexivity.
  rewrite !U by (unfold two64; lia).
  change (Z.shiftl 1 32 - 1) with (Z.ones 32). change (Z.shiftl 1 16 - 1) with (Z.ones 16).
  rewrite !(Z.land_ones node), !(Z.land_ones pc), !(Z.land_ones lc) by lia.
  rewrite !Z.mod_small by lia.
  split.
  - change two64 with (2 ^ 64). bound_calc.
  - field_calc. repeat split; reflexivity.
Qed.
