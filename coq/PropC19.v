(* PropC19.v — C19: runtime error reports point at the real failure.

   Proved here (about the VM model, whose report text is compared byte for
   byte — addresses of contexts masked — with the real report on every run):
   an error is always attributed to the instruction being executed, in the
   context executing it (every one of the error sites of [step], all opcodes);
   for the binary operators the operands listed are the two fetched operands
   and the class is what the operator says about exactly these; the report
   lists the code that ran, marks the failing instruction and no other line,
   with the operand values on the marked line; Run returns that report and a
   reset machine; the report starts with the name of the error class and class
   names are pairwise distinct.  NOT proved: that the frames section lists the
   active calls (decided by the check with programs whose call chain is known
   by construction). *)
Require Import Calc.Base Calc.Bytecode Calc.Value Calc.FloatText Calc.Ast Calc.Compile Calc.VM Calc.StepErr.
Open Scope Z_scope.

Lemma prefix_app a b : String.prefix a (a +++ b) = true.
Proof. induction a as [|c a IH]; cbn; [destruct b; reflexivity|]. rewrite IH. destruct (Ascii.ascii_dec c c); [reflexivity|congruence]. Qed.

Lemma append_assoc' a b c : (a +++ b) +++ c = a +++ (b +++ c).
Proof. induction a as [|x a IH]; cbn; [reflexivity|]. rewrite IH. reflexivity. Qed.

Theorem C19_report_names_the_class : forall v cid ip e vals,
  String.prefix ("RUNTIME ERROR : " +++ err_text e) (report_text v cid ip e vals) = true.
Proof.
  intros. unfold report_text. cbv zeta.
  rewrite <- append_assoc'. apply prefix_app.
Qed.
Print Assumptions C19_report_names_the_class.

Theorem C19_class_names_distinct : forall e f, err_text e = err_text f -> e = f.
Proof. intros [] []; cbn; intros H; try reflexivity; discriminate. Qed.
Print Assumptions C19_class_names_distinct.

(* ---- the failing instruction ---- *)
Theorem C19_error_attributed_to_executing_instruction : forall v r retResult v' cid ip e vals,
  step v r retResult = SErr v' cid ip e vals -> ip = r_ip r /\ cid = r_ctx r.
Proof. exact step_err_ip. Qed.
Print Assumptions C19_error_attributed_to_executing_instruction.

Theorem C19_binop_report_lists_the_operands : forall v r b v' cid ip e vals instr,
  znth (v_cs v) (r_ip r) = Some instr -> is_binop (OpCode instr) = true ->
  step v r b = SErr v' cid ip e vals ->
  exists x1 x0, vals = [x1; x0] /\ apply_binop (OpCode instr) x1 x0 = Fail e.
Proof. exact step_err_binop. Qed.
Print Assumptions C19_binop_report_lists_the_operands.

Theorem C19_report_marks_the_failing_instruction : forall v cid ip e vals w,
  0 <= ip < v_ncs v -> znth (v_cs v) ip = Some w ->
  exists before after,
    report_text v cid ip e vals =
      "RUNTIME ERROR : " +++ err_text e +++ sb [10] +++
      (String.concat "" (map (listing_line v ip (sconcat ", " (map (abbrev fmt_float) vals))) before) +++
       ("--> " +++ itoa ip +++ ": " +++ instr_string w +++ "; " +++ sconcat ", " (map (abbrev fmt_float) vals) +++ sb [10]) +++
       String.concat "" (map (listing_line v ip (sconcat ", " (map (abbrev fmt_float) vals))) after)) +++
      dump_ctx_chain ctx_fuel v cid /\
    ~ In ip before /\ ~ In ip after.
Proof. exact report_marks_the_failing_instruction. Qed.
Print Assumptions C19_report_marks_the_failing_instruction.

Theorem C19_run_reports_the_failing_step : forall fuel v r b v1 e rep,
  run_loop fuel v r b = (v1, RError e rep) ->
  exists vm0 r0 v' vals w before after,
    step vm0 r0 b = SErr v' (r_ctx r0) (r_ip r0) e vals /\
    znth (v_cs vm0) (r_ip r0) = Some w /\
    rep = "RUNTIME ERROR : " +++ err_text e +++ sb [10] +++
          (String.concat "" (map (listing_line v' (r_ip r0) (sconcat ", " (map (abbrev fmt_float) vals))) before) +++
           ("--> " +++ itoa (r_ip r0) +++ ": " +++ instr_string w +++ "; " +++ sconcat ", " (map (abbrev fmt_float) vals) +++ sb [10]) +++
           String.concat "" (map (listing_line v' (r_ip r0) (sconcat ", " (map (abbrev fmt_float) vals))) after)) +++
          dump_ctx_chain ctx_fuel v' (r_ctx r0) /\
    ~ In (r_ip r0) before /\ ~ In (r_ip r0) after /\ v1 = reset_after_error v'.
Proof. exact run_error_report_marks_failing_step. Qed.
Print Assumptions C19_run_reports_the_failing_step.
