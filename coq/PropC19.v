(* PropC19.v — C19: runtime error reports point at the real failure.

   Proved here (about the VM model, whose report text is compared byte for
   byte — addresses of contexts masked — with the real report on every run):
   the report starts with the name of the error class that Run returns, class
   names are pairwise distinct, and the report is a total function of the
   machine state (producing it cannot fail).  NOT proved: that the marked
   instruction and the listed frames are the failing instruction and the
   active calls ([C19_report_points_at_failure_statement], open); the check
   decides that with programs whose failing operator, operand values and call
   chain are known by construction. *)
Require Import Calc.Base Calc.Bytecode Calc.Value Calc.FloatText Calc.Ast Calc.Compile Calc.VM.
Open Scope Z_scope.

Definition C19_report_points_at_failure_statement : Prop :=
  forall v r retResult v' cid ip e vals,
    step v r retResult = SErr v' cid ip e vals -> ip = r_ip r /\ cid = r_ctx r.

Lemma prefix_app a b : String.prefix a (a +++ b) = true.
Proof. induction a as [|c a IH]; cbn; [destruct b; reflexivity|]. rewrite IH. destruct (Ascii.ascii_dec c c); [reflexivity|congruence]. Qed.

Lemma append_assoc' a b c : (a +++ b) +++ c = a +++ (b +++ c).
Proof. induction a as [|x a IH]; cbn; [reflexivity|]. rewrite IH. reflexivity. Qed.

Theorem C19_report_names_the_class : forall v cid ip e vals,
  String.prefix ("RUNTIME ERROR : " +++ err_text e) (report_text v cid ip e vals) = true.
Proof.
  intros. unfold report_text. cbv zeta.
  rewrite <- append_assoc'. apply prefix_app.
Qed.
Print Assumptions C19_report_names_the_class.

Theorem C19_class_names_distinct : forall e f, err_text e = err_text f -> e = f.
Proof. intros [] []; cbn; intros H; try reflexivity; discriminate. Qed.
Print Assumptions C19_class_names_distinct.
