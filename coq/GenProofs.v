(* GenProofs.v — C17: the generator built-ins (fromto, indices, elems), as the
   trees regenerated from builtin/builtin.go (GenBuiltins.v) and resolved by
   the STRewrite model, produce exactly the documented sequences under the
   definitional semantics — for every argument, every state, every sufficient
   fuel, and every consumer that leaves the generator's own frame alone. *)
Require Import Calc.Base Calc.Bytecode Calc.Value Calc.FloatText Calc.Ast Calc.Resolve Calc.Compile
        Calc.VM Calc.Sem Calc.GenBuiltins Calc.Session Calc.CorrSession Calc.SemSession.
Require Import Lia.
Open Scope Z_scope.

Definition frame_of (st : sstate) (fid : Z) : option (list value) := assoc_get (s_frames st) fid.

(* a generator producing val 0 .. val (n-1): at step i it hands out [val i] in
   exactly the state it was resumed in; resumed in any state whose frame [fid]
   still is [fr i], it goes on from that state with the frame set to
   [fr (i+1)] and nothing else changed; after n values it finishes normally,
   again without touching the state *)
Section Gen.
  Variable fid : Z.
  Variable fr : nat -> list value.
  Variable val : nat -> value.
  Variable n : nat.

  Inductive gen : nat -> sstate -> comp -> Prop :=
  | gen_done st v : gen n st (Done st (CVal v))
  | gen_yield i st k :
      (i < n)%nat ->
      (forall st', frame_of st' fid = Some (fr i) ->
                   gen (S i) (set_frame st' fid (fr (S i))) (k st')) ->
      gen i st (Yield st (val i) k).

  Lemma gen_catch_return i st m : gen i st m -> gen i st (catch_return m).
  Proof.
    induction 1 as [st v|i st k Hi Hk IH]; cbn [catch_return].
    - constructor.
    - constructor; [exact Hi|]. intros st' Hf. apply IH. exact Hf.
  Qed.
End Gen.

Lemma frame_of_set st fid vals : frame_of (set_frame st fid vals) fid = Some vals.
Proof.
  unfold frame_of, set_frame; cbn [s_frames].
  induction (s_frames st) as [|[k w] r IH]; cbn [assoc_set assoc_get].
  - rewrite Z.eqb_refl. reflexivity.
  - destruct (k =? fid) eqn:E; cbn [assoc_get].
    + rewrite Z.eqb_refl. reflexivity.
    + rewrite E. exact IH.
Qed.

(* ---- the while loop of the semantics, named ---- *)
Definition while_loop (f : nat) (c body : node) (e : env) :=
  fix loop (k : nat) (st : sstate) (last : value) : comp :=
    match k with
    | O => Done st CFuel
    | S k' =>
        bind (eval f c e st) (fun st1 cv =>
          as_cond st1 cv (fun st2 b =>
            if b then bind (eval f body e st2) (fun st3 v => loop k' st3 v)
            else Done st2 (CVal last)))
    end.

Lemma eval_while f c body e st :
  eval (S f) (NWhile c body) e st = while_loop f c body e f st VNil.
Proof. reflexivity. Qed.

Section WhileGen.
  Variables (f : nat) (c body : node) (e : env).
  Variable fid : Z.
  Variable fr : nat -> list value.
  Variable val : nat -> value.
  Variable n : nat.

  Hypothesis cond_ok : forall i st, (i <= n)%nat -> frame_of st fid = Some (fr i) ->
    eval f c e st = Done st (CVal (VBool (Nat.ltb i n))).
  Hypothesis body_ok : forall i st, (i < n)%nat -> frame_of st fid = Some (fr i) ->
    exists k, eval f body e st = Yield st (val i) k /\
      forall st', frame_of st' fid = Some (fr i) ->
        exists v, k st' = Done (set_frame st' fid (fr (S i))) (CVal v).

  Lemma while_gen : forall m i k st last,
    (n - i = m)%nat -> (i <= n)%nat -> (m < k)%nat -> frame_of st fid = Some (fr i) ->
    gen fid fr val n i st (while_loop f c body e k st last).
  Proof.
    induction m as [|m IH]; intros i k st last Hm Hi Hk Hf.
    - assert (i = n) by lia. subst i.
      destruct k as [|k']; [lia|]. cbn [while_loop].
      rewrite (cond_ok n st (le_n _) Hf). rewrite Nat.ltb_irrefl. cbn [bind as_cond].
      constructor.
    - assert (Hlt : (i < n)%nat) by lia.
      destruct k as [|k']; [lia|]. cbn [while_loop].
      rewrite (cond_ok i st Hi Hf).
      assert (E : Nat.ltb i n = true) by (apply Nat.ltb_lt; exact Hlt). rewrite E.
      cbn [bind as_cond].
      destruct (body_ok i st Hlt Hf) as [kk [Ey Hkk]]. rewrite Ey. cbn [bind].
      constructor; [exact Hlt|]. intros st' Hf'.
      destruct (Hkk st' Hf') as [v Ev]. rewrite Ev. cbn [bind].
      apply IH; [lia|lia|lia|apply frame_of_set].
  Qed.
End WhileGen.

(* ---- reading and writing a local of the frame ---- *)
Lemma lookup_local st fid cl ix nm vals v :
  frame_of st fid = Some vals -> znth vals ix = Some v ->
  lookup st {| e_frame := Some fid; e_closure := cl |} (NLocal ix nm) = Done st (CVal v).
Proof.
  intros Hf Hn. unfold lookup, read_slot; cbn [e_frame]. unfold frame_of in Hf. rewrite Hf, Hn. reflexivity.
Qed.

Lemma assign_local st fid cl ix nm vals v :
  frame_of st fid = Some vals -> is_nil v = false -> (0 <=? ix) && (ix <? zlen vals) = true ->
  assign st {| e_frame := Some fid; e_closure := cl |} (NLocal ix nm) v
  = Done (set_frame st fid (zset vals (Z.to_nat ix) v)) (CVal v).
Proof.
  intros Hf Hv Hi. unfold assign. rewrite Hv. cbn [e_frame]. unfold frame_of in Hf. rewrite Hf, Hi. reflexivity.
Qed.

(* ================= fromto ================= *)
Definition fromto_body : node :=
  NWhile (NBin "<" (NLocal 0 "a") (NLocal 1 "b"))
         (NBlock [NYield (NLocal 0 "a");
                  NAssign (NLocal 0 "a") (NBin "+" (NLocal 0 "a") (NInt 1))]).

Definition clos_of (st : sstate) (name : string) : option sclos :=
  match sassoc_get (s_globals st) name with
  | Some (VFun _ id) => assoc_get (s_clos st) id
  | _ => None
  end.

(* the tie to the regenerated trees: what sem_init binds to the names *)
Lemma fromto_is_generated :
  clos_of sem_init "fromto" = Some {| sc_params := 2; sc_locals := 2; sc_body := fromto_body; sc_env := None |}.
Proof. vm_compute. reflexivity. Qed.

Definition ft_frame (a b : Z) (i : nat) : list value := [VInt (a + Z.of_nat i); VInt b].
Definition ft_val (a : Z) (i : nat) : value := VInt (a + Z.of_nat i).

Lemma wrap64_id z : in_int64 z = true -> wrap64 z = z.
Proof.
  unfold in_int64, wrap64, min_int, max_int, two63, two64. intros H.
  apply andb_prop in H. destruct H as [H1 H2]. apply Z.leb_le in H1. apply Z.leb_le in H2.
  rewrite Z.mod_small; lia.
Qed.

Lemma fromto_body_gen a b fid cl st f :
  in_int64 a = true -> in_int64 b = true ->
  frame_of st fid = Some [VInt a; VInt b] ->
  (Z.to_nat (b - a) + 5 <= f)%nat ->
  gen fid (ft_frame a b) (ft_val a) (Z.to_nat (b - a)) 0 st
      (eval f fromto_body {| e_frame := Some fid; e_closure := cl |} st).
Proof.
  intros Ha Hb Hf Hfuel.
  destruct f as [|f]; [lia|]. unfold fromto_body. rewrite eval_while.
  apply while_gen with (m := Z.to_nat (b - a)); try lia.
  - (* the condition *)
    intros i s Hi Hs. destruct f as [|f]; [lia|]. destruct f as [|f]; [lia|].
    cbn [eval]. change (binop_opcode "<") with (Some LT).
    rewrite (lookup_local s fid cl 0 "a" _ (VInt (a + Z.of_nat i)) Hs eq_refl). cbn [bind].
    rewrite (lookup_local s fid cl 1 "b" _ (VInt b) Hs eq_refl). cbn [bind].
    change (apply_binop LT (VInt (a + Z.of_nat i)) (VInt b)) with (Ok (VBool (a + Z.of_nat i <? b))).
    cbn [lift_res]. do 3 f_equal.
    destruct (Nat.ltb_spec i (Z.to_nat (b - a))); [apply Z.ltb_lt|apply Z.ltb_ge]; lia.
  - (* the body *)
    intros i s Hi Hs. do 4 (destruct f as [|f]; [lia|]).
    cbn [eval].
    rewrite (lookup_local s fid cl 0 "a" _ (VInt (a + Z.of_nat i)) Hs eq_refl). cbn [bind].
    eexists. split; [reflexivity|].
    intros s' Hs'. cbn [bind eval].
    change (binop_opcode "+") with (Some ADD).
    rewrite (lookup_local s' fid cl 0 "a" _ (VInt (a + Z.of_nat i)) Hs' eq_refl). cbn [bind].
    change (apply_binop ADD (VInt (a + Z.of_nat i)) (VInt 1))
      with (Ok (VInt (wrap64 (a + Z.of_nat i + 1)))).
    cbn [lift_res bind].
    assert (Hw : wrap64 (a + Z.of_nat i + 1) = a + Z.of_nat (S i)).
    { rewrite wrap64_id; [lia|].
      unfold in_int64, min_int, max_int in *.
      apply andb_prop in Ha. destruct Ha as [Ha1 Ha2]. apply Z.leb_le in Ha1. apply Z.leb_le in Ha2.
      apply andb_prop in Hb. destruct Hb as [Hb1 Hb2]. apply Z.leb_le in Hb1. apply Z.leb_le in Hb2.
      apply andb_true_intro. split; apply Z.leb_le; lia. }
    rewrite Hw.
    rewrite (assign_local s' fid cl 0 "a" _ (VInt (a + Z.of_nat (S i))) Hs' eq_refl eq_refl).
    eexists. reflexivity.
  - unfold ft_frame. cbn [Z.of_nat]. rewrite Z.add_0_r. exact Hf.
Qed.

(* ================= indices and elems ================= *)
Definition loop_i (y : node) : node :=
  NBlock [NAssign (NLocal 1 "i") (NInt 0);
          NWhile (NBin "<" (NLocal 1 "i") (NUn "#" (NLocal 0 "a")))
                 (NBlock [NYield y;
                          NAssign (NLocal 1 "i") (NBin "+" (NLocal 1 "i") (NInt 1))])].

Definition indices_body : node := loop_i (NLocal 1 "i").
Definition elems_body : node := loop_i (NIndexAt (NLocal 0 "a") (NLocal 1 "i")).

Lemma indices_is_generated :
  clos_of sem_init "indices" = Some {| sc_params := 1; sc_locals := 2; sc_body := indices_body; sc_env := None |}.
Proof. vm_compute. reflexivity. Qed.

Lemma elems_is_generated :
  clos_of sem_init "elems" = Some {| sc_params := 1; sc_locals := 2; sc_body := elems_body; sc_env := None |}.
Proof. vm_compute. reflexivity. Qed.

(* arrays and strings: what # and [i] give *)
Definition is_seq (x : value) : bool := match x with VArr _ | VStr _ => true | _ => false end.
Definition seq_len (x : value) : nat :=
  match x with VArr l => List.length l | VStr s => String.length s | _ => O end.
Definition seq_at (x : value) (i : nat) : value :=
  match x with
  | VArr l => nth i l VNil
  | VStr s => VStr (utf8_of_byte (sget s (Z.of_nat i)))
  | _ => VNil
  end.

Lemma len_seq x : is_seq x = true -> Len x = Ok (VInt (Z.of_nat (seq_len x))).
Proof. destruct x; cbn; try discriminate; reflexivity. Qed.

Lemma index_seq x i : is_seq x = true -> (i < seq_len x)%nat ->
  Index1 x (VInt (Z.of_nat i)) = Ok (seq_at x i).
Proof.
  intros Hx Hi. unfold Index1; cbn [index_of].
  destruct x as [| | |s|l| |]; cbn in Hx; try discriminate; cbn [seq_len seq_at] in *.
  - unfold slen.
    assert (E1 : (Z.of_nat i <? 0) = false) by (apply Z.ltb_ge; lia).
    assert (E2 : (Z.of_nat i >=? Z.of_nat (String.length s)) = false) by (rewrite Z.geb_leb; apply Z.leb_gt; lia).
    rewrite E1, E2. reflexivity.
  - assert (E1 : (Z.of_nat i <? 0) = false) by (apply Z.ltb_ge; lia).
    assert (E2 : (Z.of_nat i >=? Z.of_nat (List.length l)) = false) by (rewrite Z.geb_leb; apply Z.leb_gt; lia).
    rewrite E1, E2, Nat2Z.id. reflexivity.
Qed.

Definition ix_frame (x : value) (i : nat) : list value := [x; VInt (Z.of_nat i)].

Lemma eval_block2 f x y e st :
  eval (S f) (NBlock [x; y]) e st = bind (eval f x e st) (fun st' _ => eval f y e st').
Proof. reflexivity. Qed.

Lemma eval_assign_int f t z e st :
  eval (S (S f)) (NAssign t (NInt z)) e st = assign st e t (VInt z).
Proof. reflexivity. Qed.

Lemma eval_yield f t e st :
  eval (S f) (NYield t) e st = bind (eval f t e st) (fun st1 v => Yield st1 v (fun st2 => Done st2 (CVal v))).
Proof. reflexivity. Qed.

Section LoopI.
  Variable y : node.
  Variable val : value -> nat -> value.
  (* the yielded expression: evaluated in a frame [x; i] it gives val x i and changes nothing *)
  Hypothesis y_ok : forall x i fid cl st f, is_seq x = true -> (i < seq_len x)%nat ->
    frame_of st fid = Some (ix_frame x i) ->
    eval (S (S f)) y {| e_frame := Some fid; e_closure := cl |} st = Done st (CVal (val x i)).

  Lemma loop_i_gen x v0 fid cl st f :
    is_seq x = true -> is_nil x = false -> Z.of_nat (seq_len x) <= max_int ->
    frame_of st fid = Some [x; v0] ->
    (seq_len x + 6 <= f)%nat ->
    gen fid (ix_frame x) (val x) (seq_len x) 0 (set_frame st fid (ix_frame x 0))
        (eval f (loop_i y) {| e_frame := Some fid; e_closure := cl |} st).
  Proof.
    intros Hx Hnn Hmax Hf Hfuel.
    do 3 (destruct f as [|f]; [lia|]). unfold loop_i.
    rewrite eval_block2, eval_assign_int.
    rewrite (assign_local st fid cl 1 "i" _ (VInt 0) Hf eq_refl eq_refl). cbn [bind].
    change (zset [x; v0] (Z.to_nat 1) (VInt 0)) with (ix_frame x 0).
    rewrite eval_while.
    apply while_gen with (m := seq_len x); try lia.
    - intros i s Hi Hs. do 3 (destruct f as [|f]; [lia|]).
      cbn [eval]. change (binop_opcode "<") with (Some LT).
      rewrite (lookup_local s fid cl 1 "i" _ (VInt (Z.of_nat i)) Hs eq_refl). cbn [bind].
      rewrite (lookup_local s fid cl 0 "a" _ x Hs eq_refl). cbn [bind].
      change (unop_sem "#" x) with (Some (Len x)). rewrite (len_seq x Hx). cbn [lift_res bind].
      change (apply_binop LT (VInt (Z.of_nat i)) (VInt (Z.of_nat (seq_len x))))
        with (Ok (VBool (Z.of_nat i <? Z.of_nat (seq_len x)))).
      cbn [lift_res]. do 3 f_equal.
      destruct (Nat.ltb_spec i (seq_len x)); [apply Z.ltb_lt|apply Z.ltb_ge]; lia.
    - intros i s Hi Hs. do 4 (destruct f as [|f]; [lia|]).
      rewrite eval_block2, eval_yield.
      rewrite (y_ok x i fid cl s _ Hx Hi Hs). cbn [bind].
      eexists. split; [reflexivity|].
      intros s' Hs'. cbn [bind eval].
      change (binop_opcode "+") with (Some ADD).
      rewrite (lookup_local s' fid cl 1 "i" _ (VInt (Z.of_nat i)) Hs' eq_refl). cbn [bind].
      change (apply_binop ADD (VInt (Z.of_nat i)) (VInt 1))
        with (Ok (VInt (wrap64 (Z.of_nat i + 1)))).
      cbn [lift_res bind].
      assert (Hw : wrap64 (Z.of_nat i + 1) = Z.of_nat (S i)).
      { rewrite wrap64_id; [lia|]. unfold in_int64, min_int, max_int in *.
        apply andb_true_intro. split; apply Z.leb_le; lia. }
      rewrite Hw.
      rewrite (assign_local s' fid cl 1 "i" _ (VInt (Z.of_nat (S i))) Hs' eq_refl eq_refl).
      eexists. reflexivity.
    - apply frame_of_set.
  Qed.
End LoopI.

Lemma indices_body_gen x v0 fid cl st f :
  is_seq x = true -> Z.of_nat (seq_len x) <= max_int ->
  frame_of st fid = Some [x; v0] -> (seq_len x + 6 <= f)%nat ->
  gen fid (ix_frame x) (fun i => VInt (Z.of_nat i)) (seq_len x) 0 (set_frame st fid (ix_frame x 0))
      (eval f indices_body {| e_frame := Some fid; e_closure := cl |} st).
Proof.
  intros Hx Hmax Hf Hfuel.
  apply (loop_i_gen (NLocal 1 "i") (fun _ i => VInt (Z.of_nat i))) with (v0 := v0); try assumption.
  - intros x' i fid' cl' s f' _ _ Hs. cbn [eval].
    apply (lookup_local s fid' cl' 1 "i" _ _ Hs). reflexivity.
  - destruct x; cbn in Hx; try discriminate; reflexivity.
Qed.

Lemma elems_body_gen x v0 fid cl st f :
  is_seq x = true -> Z.of_nat (seq_len x) <= max_int ->
  frame_of st fid = Some [x; v0] -> (seq_len x + 6 <= f)%nat ->
  gen fid (ix_frame x) (seq_at x) (seq_len x) 0 (set_frame st fid (ix_frame x 0))
      (eval f elems_body {| e_frame := Some fid; e_closure := cl |} st).
Proof.
  intros Hx Hmax Hf Hfuel.
  apply (loop_i_gen (NIndexAt (NLocal 0 "a") (NLocal 1 "i")) seq_at) with (v0 := v0); try assumption.
  - intros x' i fid' cl' s f' Hx' Hi Hs. cbn [eval].
    rewrite (lookup_local s fid' cl' 0 "a" _ x' Hs eq_refl). cbn [bind].
    rewrite (lookup_local s fid' cl' 1 "i" _ (VInt (Z.of_nat i)) Hs eq_refl). cbn [bind].
    rewrite (index_seq x' i Hx' Hi). reflexivity.
  - destruct x; cbn in Hx; try discriminate; reflexivity.
Qed.

(* ================= calling them ================= *)
(* a state in which the name still means the built-in *)
Definition has_builtin (st : sstate) (name : string) (c : sclos) : Prop := clos_of st name = Some c.

Lemma sem_init_has_builtins :
  has_builtin sem_init "fromto" {| sc_params := 2; sc_locals := 2; sc_body := fromto_body; sc_env := None |} /\
  has_builtin sem_init "indices" {| sc_params := 1; sc_locals := 2; sc_body := indices_body; sc_env := None |} /\
  has_builtin sem_init "elems" {| sc_params := 1; sc_locals := 2; sc_body := elems_body; sc_env := None |}.
Proof. repeat split; vm_compute; reflexivity. Qed.

Lemma frame_of_new st vals : frame_of (fst (new_frame st vals)) (s_next st) = Some vals.
Proof. unfold frame_of, new_frame; cbn [fst s_frames assoc_get]. rewrite Z.eqb_refl. reflexivity. Qed.

Lemma eval_call1 f name t e st x c :
  eval f t e st = Done st (CVal x) ->
  has_builtin st name c -> sc_params c = 1 ->
  eval (S f) (NCall (NName name) [t]) e st
  = catch_return (eval f (sc_body c) {| e_frame := Some (s_next st); e_closure := sc_env c |}
                       (fst (new_frame st ([x] ++ repeat VNil (Z.to_nat (sc_locals c - 1)))))).
Proof.
  intros Ht Hb Hp. cbn [eval]. rewrite Ht. cbn [bind rev app].
  destruct f as [|f]; [discriminate|]. cbn [eval lookup bind].
  unfold has_builtin, clos_of in Hb.
  destruct (sassoc_get (s_globals st) name) as [g|]; [|discriminate].
  destruct g; try discriminate. rewrite Hb, Hp. reflexivity.
Qed.

Lemma eval_call2 f name t1 t2 e st x1 x2 c :
  eval f t1 e st = Done st (CVal x1) -> eval f t2 e st = Done st (CVal x2) ->
  has_builtin st name c -> sc_params c = 2 ->
  eval (S f) (NCall (NName name) [t1; t2]) e st
  = catch_return (eval f (sc_body c) {| e_frame := Some (s_next st); e_closure := sc_env c |}
                       (fst (new_frame st ([x1; x2] ++ repeat VNil (Z.to_nat (sc_locals c - 2)))))).
Proof.
  intros Ht1 Ht2 Hb Hp. cbn [eval]. rewrite Ht1. cbn [bind]. rewrite Ht2. cbn [bind rev app].
  destruct f as [|f]; [discriminate|]. cbn [eval lookup bind].
  unfold has_builtin, clos_of in Hb.
  destruct (sassoc_get (s_globals st) name) as [g|]; [|discriminate].
  destruct g; try discriminate. rewrite Hb, Hp. reflexivity.
Qed.

Theorem fromto_call a b e st f :
  in_int64 a = true -> in_int64 b = true ->
  has_builtin st "fromto" {| sc_params := 2; sc_locals := 2; sc_body := fromto_body; sc_env := None |} ->
  (Z.to_nat (b - a) + 6 <= f)%nat ->
  gen (s_next st) (ft_frame a b) (ft_val a) (Z.to_nat (b - a)) 0
      (fst (new_frame st [VInt a; VInt b]))
      (eval f (NCall (NName "fromto") [NInt a; NInt b]) e st).
Proof.
  intros Ha Hb Hh Hf. do 2 (destruct f as [|f]; [lia|]).
  rewrite (eval_call2 (S f) "fromto" (NInt a) (NInt b) e st (VInt a) (VInt b) _ eq_refl eq_refl Hh eq_refl).
  cbn [sc_body sc_env sc_locals]. apply gen_catch_return.
  apply fromto_body_gen; [exact Ha|exact Hb|apply frame_of_new|lia].
Qed.

(* the argument of indices/elems: anything that evaluates, without side effect, to an array or string *)
Theorem indices_call t x e st f :
  eval f t e st = Done st (CVal x) ->
  is_seq x = true -> Z.of_nat (seq_len x) <= max_int ->
  has_builtin st "indices" {| sc_params := 1; sc_locals := 2; sc_body := indices_body; sc_env := None |} ->
  (seq_len x + 6 <= f)%nat ->
  gen (s_next st) (ix_frame x) (fun i => VInt (Z.of_nat i)) (seq_len x) 0
      (set_frame (fst (new_frame st [x; VNil])) (s_next st) (ix_frame x 0))
      (eval (S f) (NCall (NName "indices") [t]) e st).
Proof.
  intros Ht Hx Hmax Hh Hf.
  rewrite (eval_call1 f "indices" t e st x _ Ht Hh eq_refl).
  cbn [sc_body sc_env sc_locals]. apply gen_catch_return.
  apply indices_body_gen with (v0 := VNil); [exact Hx|exact Hmax|apply frame_of_new|lia].
Qed.

Theorem elems_call t x e st f :
  eval f t e st = Done st (CVal x) ->
  is_seq x = true -> Z.of_nat (seq_len x) <= max_int ->
  has_builtin st "elems" {| sc_params := 1; sc_locals := 2; sc_body := elems_body; sc_env := None |} ->
  (seq_len x + 6 <= f)%nat ->
  gen (s_next st) (ix_frame x) (seq_at x) (seq_len x) 0
      (set_frame (fst (new_frame st [x; VNil])) (s_next st) (ix_frame x 0))
      (eval (S f) (NCall (NName "elems") [t]) e st).
Proof.
  intros Ht Hx Hmax Hh Hf.
  rewrite (eval_call1 f "elems" t e st x _ Ht Hh eq_refl).
  cbn [sc_body sc_env sc_locals]. apply gen_catch_return.
  apply elems_body_gen with (v0 := VNil); [exact Hx|exact Hmax|apply frame_of_new|lia].
Qed.

(* wrong argument kinds: a runtime error, nothing yielded *)
Theorem elems_of_non_sequence t x e st f :
  eval (S (S (S (S (S f))))) t e st = Done st (CVal x) ->
  is_seq x = false ->
  has_builtin st "elems" {| sc_params := 1; sc_locals := 2; sc_body := elems_body; sc_env := None |} ->
  exists st', eval (S (S (S (S (S (S f)))))) (NCall (NName "elems") [t]) e st
              = Done st' (CErr (match x with VNil => ErrNil | _ => ErrType end)).
Proof.
  intros Ht Hx Hh.
  rewrite (eval_call1 _ "elems" t e st x _ Ht Hh eq_refl).
  cbn [sc_body sc_env sc_locals]. unfold elems_body, loop_i.
  change ([x] ++ repeat VNil (Z.to_nat (2 - 1))) with [x; VNil].
  rewrite eval_block2, eval_assign_int.
  rewrite (assign_local _ (s_next st) None 1 "i" [x; VNil] (VInt 0) (frame_of_new st _) eq_refl eq_refl).
  cbn [bind]. rewrite eval_while.
  change (zset [x; VNil] (Z.to_nat 1) (VInt 0)) with [x; VInt 0].
  pose proof (frame_of_set (fst (new_frame st [x; VNil])) (s_next st) [x; VInt 0]) as Hfs.
  cbn [while_loop eval].
  rewrite (lookup_local _ (s_next st) None 1 "i" _ (VInt 0) Hfs eq_refl). cbn [bind].
  rewrite (lookup_local _ (s_next st) None 0 "a" _ x Hfs eq_refl). cbn [bind].
  change (unop_sem "#" x) with (Some (Len x)).
  destruct x; cbn in Hx; try discriminate; cbn; eexists; reflexivity.
Qed.

(* ================= what a consumer sees ================= *)
(* resume the generator, each time in the state it yielded in, until it is done *)
Fixpoint drain (m : comp) : list value * (sstate * ctl) :=
  match m with
  | Done st c => ([], (st, c))
  | Yield st v kk => let (l, r) := drain (kk st) in (v :: l, r)
  end.

Lemma gen_drain fid fr val n i st m :
  gen fid fr val n i st m -> frame_of st fid = Some (fr i) ->
  fst (drain m) = map val (seq i (n - i)) /\ exists st' v, snd (drain m) = (st', CVal v).
Proof.
  induction 1 as [st v|i st kk Hi Hk IH]; intros Hf.
  - rewrite Nat.sub_diag. cbn. split; [reflexivity|]. eauto.
  - cbn [drain].
    specialize (IH st Hf (frame_of_set _ _ _)).
    destruct (drain (kk st)) as [l r]. cbn [fst snd] in *.
    destruct IH as [IH1 IH2]. split; [|exact IH2].
    replace (n - i)%nat with (S (n - S i)) by lia. cbn [seq map]. rewrite IH1. reflexivity.
Qed.

Theorem fromto_yields a b e st f :
  in_int64 a = true -> in_int64 b = true ->
  has_builtin st "fromto" {| sc_params := 2; sc_locals := 2; sc_body := fromto_body; sc_env := None |} ->
  (Z.to_nat (b - a) + 6 <= f)%nat ->
  fst (drain (eval f (NCall (NName "fromto") [NInt a; NInt b]) e st))
  = map (fun i => VInt (a + Z.of_nat i)) (seq 0 (Z.to_nat (b - a))).
Proof.
  intros Ha Hb Hh Hf.
  pose proof (fromto_call a b e st f Ha Hb Hh Hf) as G.
  apply gen_drain in G.
  - rewrite Nat.sub_0_r in G. exact (proj1 G).
  - unfold ft_frame. cbn [Z.of_nat]. rewrite Z.add_0_r. apply frame_of_new.
Qed.

Theorem indices_yields t x e st f :
  eval f t e st = Done st (CVal x) ->
  is_seq x = true -> Z.of_nat (seq_len x) <= max_int ->
  has_builtin st "indices" {| sc_params := 1; sc_locals := 2; sc_body := indices_body; sc_env := None |} ->
  (seq_len x + 6 <= f)%nat ->
  fst (drain (eval (S f) (NCall (NName "indices") [t]) e st))
  = map (fun i => VInt (Z.of_nat i)) (seq 0 (seq_len x)).
Proof.
  intros Ht Hx Hmax Hh Hf.
  pose proof (indices_call t x e st f Ht Hx Hmax Hh Hf) as G.
  apply gen_drain in G.
  - rewrite Nat.sub_0_r in G. exact (proj1 G).
  - apply frame_of_set.
Qed.

Theorem elems_yields t x e st f :
  eval f t e st = Done st (CVal x) ->
  is_seq x = true -> Z.of_nat (seq_len x) <= max_int ->
  has_builtin st "elems" {| sc_params := 1; sc_locals := 2; sc_body := elems_body; sc_env := None |} ->
  (seq_len x + 6 <= f)%nat ->
  fst (drain (eval (S f) (NCall (NName "elems") [t]) e st))
  = map (seq_at x) (seq 0 (seq_len x)).
Proof.
  intros Ht Hx Hmax Hh Hf.
  pose proof (elems_call t x e st f Ht Hx Hmax Hh Hf) as G.
  apply gen_drain in G.
  - rewrite Nat.sub_0_r in G. exact (proj1 G).
  - apply frame_of_set.
Qed.

(* elems of an array hands out the array itself, element by element *)
Lemma elems_of_array l : map (seq_at (VArr l)) (seq 0 (List.length l)) = l.
Proof.
  cbn [seq_at]. induction l as [|x l IH]; [reflexivity|].
  cbn [List.length seq map nth]. f_equal. rewrite <- seq_shift, map_map. exact IH.
Qed.

Theorem fromto_empty a b e st f :
  in_int64 a = true -> in_int64 b = true -> b <= a ->
  has_builtin st "fromto" {| sc_params := 2; sc_locals := 2; sc_body := fromto_body; sc_env := None |} ->
  (6 <= f)%nat ->
  exists v, eval f (NCall (NName "fromto") [NInt a; NInt b]) e st
            = Done (fst (new_frame st [VInt a; VInt b])) (CVal v).
Proof.
  intros Ha Hb Hle Hh Hf.
  assert (E : Z.to_nat (b - a) = 0%nat) by lia.
  pose proof (fromto_call a b e st f Ha Hb Hh ltac:(lia)) as G. rewrite E in G.
  inversion G; subst; [eauto|lia].
Qed.

(* ================= read ================= *)
Definition read_clos := {| sc_params := 0; sc_locals := 0; sc_body := NRead; sc_env := None |}.

Lemma read_is_generated : has_builtin sem_init "read" read_clos.
Proof. vm_compute. reflexivity. Qed.

Definition with_in (st : sstate) (l : list string) : sstate :=
  {| s_frames := s_frames st; s_clos := s_clos st; s_globals := s_globals st;
     s_next := s_next st; s_out := s_out st; s_in := l |}.

(* k calls of read(), one after the other *)
Fixpoint reads (f : nat) (k : nat) (st : sstate) : list ctl * sstate :=
  match k with
  | O => ([], st)
  | S k' =>
      match eval f (NCall (NName "read") []) env_top st with
      | Done st' c => let (cs, st'') := reads f k' st' in (c :: cs, st'')
      | Yield st' _ _ => ([CAbort "yield"], st')
      end
  end.

Lemma read_call st f l r :
  has_builtin st "read" read_clos -> s_in st = l :: r ->
  eval (S (S (S f))) (NCall (NName "read") []) env_top st
  = Done (with_in (fst (new_frame st [])) r) (CVal (VStr l)).
Proof.
  intros Hb Hin. cbn [eval lookup bind rev].
  unfold has_builtin, clos_of in Hb.
  destruct (sassoc_get (s_globals st) "read") as [g|]; [|discriminate].
  destruct g; try discriminate. rewrite Hb. cbn [read_clos sc_params zlen List.length Z.of_nat Z.eqb negb
    sc_locals Z.sub Z.to_nat repeat app sc_body sc_env].
  unfold take_in. cbn [new_frame s_in]. rewrite Hin. reflexivity.
Qed.

Lemma read_call_eof st f :
  has_builtin st "read" read_clos -> s_in st = [] ->
  eval (S (S (S f))) (NCall (NName "read") []) env_top st = Done (fst (new_frame st [])) (CErr ErrRead).
Proof.
  intros Hb Hin. destruct st as [fr cl gl nx ou inp]. cbn [s_in] in Hin. subst inp.
  cbn [eval lookup bind rev].
  unfold has_builtin, clos_of in Hb. cbn [s_globals s_clos] in *.
  destruct (sassoc_get gl "read") as [g|]; [|discriminate].
  destruct g; try discriminate. rewrite Hb. reflexivity.
Qed.

(* successive read() calls return successive lines, losing none; the rest stays *)
Theorem reads_successive_lines : forall l1 l2 st f,
  has_builtin st "read" read_clos -> s_in st = l1 ++ l2 ->
  fst (reads (S (S (S f))) (List.length l1) st) = map (fun l => CVal (VStr l)) l1 /\
  s_in (snd (reads (S (S (S f))) (List.length l1) st)) = l2.
Proof.
  induction l1 as [|l l1 IH]; intros l2 st f Hb Hin.
  - cbn. split; [reflexivity|exact Hin].
  - cbn [List.length reads]. rewrite (read_call st f l (l1 ++ l2) Hb Hin).
    specialize (IH l2 (with_in (fst (new_frame st [])) (l1 ++ l2)) f Hb eq_refl).
    destruct (reads (S (S (S f))) (List.length l1) _) as [cs st'']. cbn [fst snd] in *.
    destruct IH as [IH1 IH2]. split; [cbn [map]; rewrite IH1; reflexivity|exact IH2].
Qed.
