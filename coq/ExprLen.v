(* ExprLen.v — how much code the compiler emits for a pure expression: at
   most four instructions per operator.  Used to bound the steps a statement
   needs by the size of its text. *)
Require Import Calc.Sem.
Require Import Calc.Base Calc.Bytecode Calc.Value Calc.FloatText Calc.Ast Calc.Compile Calc.VM
        Calc.ExprSem Calc.ExprVM Calc.ExprCorrect.
Require Import Lia.
Open Scope Z_scope.

Definition grows {A} (k : Z) (m : CM A) : Prop :=
  forall s a s', m s = COk (a, s') -> ncs s <= ncs s' <= ncs s + k.

Lemma grows_ret {A} (a : A) : grows 0 (cret a).
Proof. intros s b s' H. apply cret_ok in H. destruct H as [_ ->]. lia. Qed.

Lemma grows_emit i : grows 1 (emit i).
Proof. intros s a s' H. apply emit_ok in H. subst. cbn [emitted ncs]. lia. Qed.

Lemma grows_enc sel k a : grows 0 (enc sel k a).
Proof. intros s w s' H. apply enc_ok in H. destruct H as [-> _]. lia. Qed.

Lemma grows_add_ds x : grows 0 (add_ds x).
Proof. intros s a s' H. apply add_ds_ok in H. destruct H as [_ ->]. cbn [with_data ncs]. lia. Qed.

Lemma grows_bind {A B} k1 k2 (m : CM A) (f : A -> CM B) :
  grows k1 m -> (forall a, grows k2 (f a)) -> grows (k1 + k2) (cbind m f).
Proof.
  intros H1 H2 s b s' H. apply cbind_ok in H. destruct H as [a [s1 [Ha Hb]]].
  specialize (H1 s a s1 Ha). specialize (H2 a s1 b s' Hb). lia.
Qed.

Lemma grows_le {A} k k' (m : CM A) : k <= k' -> grows k m -> grows k' m.
Proof. intros Hk H s a s' E. specialize (H s a s' E). lia. Qed.

Lemma grows_if {A} k (b : bool) (m1 m2 : CM A) : grows k m1 -> grows k m2 -> grows k (if b then m1 else m2).
Proof. destruct b; auto. Qed.

Lemma grows_abort {A} k w : grows k (@cabort A w).
Proof. intros s a s' H. discriminate H. Qed.

Lemma const_grows x sel : grows 0 (comp_const x sel).
Proof.
  unfold comp_const. apply (grows_bind 0 0 (add_ds x) (fun ix => enc sel AddrDS ix)).
  - apply grows_add_ds.
  - intros ix. apply grows_enc.
Qed.

Lemma name_grows g sel : grows 0 (comp_ref (NName g) sel).
Proof.
  cbn [comp_ref]. apply (grows_bind 0 0 (add_ds (VStr g)) (fun ix => enc sel AddrGbl ix)).
  - apply grows_add_ds.
  - intros ix. apply grows_enc.
Qed.

Fixpoint clen (e : node) : Z :=
  match e with
  | NBin _ l r => clen l + clen r + 4
  | NUn _ t => clen t + 4
  | _ => 0
  end.

Lemma clen_nonneg e : 0 <= clen e.
Proof. induction e; cbn [clen]; lia. Qed.

Lemma binop_grows opname compL compR a b c sel fl kl kr :
  0 <= kl -> 0 <= kr ->
  (forall sel fl, grows kl (compL sel fl)) -> (forall sel fl, grows kr (compR sel fl)) ->
  grows (kl + kr + 4) (comp_binop opname compL compR a b c sel fl).
Proof.
  intros Hkl Hkr HL HR. unfold comp_binop. destruct (binop_opcode opname); [|apply grows_abort].
  replace (kl + kr + 4) with (kl + (1 + ((kr + 1 + 1) + (1 + 0)))) by lia.
  apply grows_bind; [apply HL|]. intros left.
  apply grows_bind.
  - apply grows_if.
    + replace 1 with (0 + (0 + (1 + 0))) by lia.
      apply grows_bind; [apply grows_enc|]. intros w1. apply grows_bind; [apply grows_enc|]. intros w0.
      apply grows_bind; [apply grows_emit|]. intros _. apply grows_ret.
    + apply (grows_le 0); [lia|apply grows_ret].
  - intros temp1. apply grows_bind.
    + apply grows_if.
      * apply (grows_le (1 + (0 + 1))); [lia|].
        apply grows_bind; [apply grows_emit|]. intros _. apply grows_bind; [apply grows_enc|]. intros w. apply grows_emit.
      * apply (grows_le (kr + 1)); [lia|]. apply grows_bind; [apply HR|]. intros right. apply grows_emit.
    + intros _. apply grows_bind.
      * apply grows_if.
        -- replace 1 with (1 + 0) by lia. apply grows_bind; [apply grows_emit|]. intros _. apply grows_ret.
        -- apply (grows_le 0); [lia|apply grows_ret].
      * intros temp2. apply grows_enc.
Qed.

Lemma comp_grows : forall e, pure e = true -> forall sel fl, grows (clen e) (comp e sel fl).
Proof.
  induction e; intros Hp sel fl; try discriminate Hp; cbn [comp clen].
  - apply const_grows.
  - apply const_grows.
  - apply const_grows.
  - apply const_grows.
  - apply name_grows.
  - cbn [pure] in Hp. destruct (binop_opcode op); [|discriminate]. apply andb_prop in Hp. destruct Hp as [H1 H2].
    apply binop_grows; [apply clen_nonneg|apply clen_nonneg|exact (IHe1 H1)|exact (IHe2 H2)].
  - cbn [pure] in Hp. apply andb_prop in Hp. destruct Hp as [_ H1].
    destruct (String.eqb op "-").
    + replace (clen e + 4) with (0 + clen e + 4) by lia.
      apply binop_grows; [lia|apply clen_nonneg| |exact (IHe H1)].
      intros sel' fl'. apply const_grows.
    + destruct (if String.eqb op "#" then Some LEN else if String.eqb op "!" then Some NOT
                else if String.eqb op "~" then Some FLIP else None); [|apply grows_abort].
      apply (grows_le (clen e + (1 + (1 + (1 + 0))))); [lia|].
      apply grows_bind; [apply (IHe H1)|]. intros target.
      apply grows_bind.
      * apply grows_if.
        -- replace 1 with (0 + (1 + 0)) by lia. apply grows_bind; [apply grows_enc|]. intros w1.
           apply grows_bind; [apply grows_emit|]. intros _. apply grows_ret.
        -- apply (grows_le 0); [lia|apply grows_ret].
      * intros temp1. apply grows_bind; [apply grows_emit|]. intros _.
        apply grows_bind.
        -- apply grows_if.
           ++ replace 1 with (1 + 0) by lia. apply grows_bind; [apply grows_emit|]. intros _. apply grows_ret.
           ++ apply (grows_le 0); [lia|apply grows_ret].
        -- intros temp2. apply grows_enc.
Qed.

Fixpoint esize (e : node) : Z :=
  match e with
  | NBin _ l r => esize l + esize r + 1
  | NUn _ t => esize t + 1
  | NAssign _ t => esize t + 1
  | _ => 1
  end.

Lemma esize_pos e : 1 <= esize e.
Proof. induction e; cbn [esize]; lia. Qed.

Lemma clen_le_size e : clen e <= 4 * esize e - 4.
Proof. induction e; cbn [clen esize]; try lia. pose proof (esize_pos e2). lia. Qed.
