(* ExprLen.v — how much code the compiler emits for a pure expression: at
   most four instructions per operator.  Used to bound the steps a statement
   needs by the size of its text. *)
Require Import Calc.Sem.
Require Import Calc.Base Calc.Bytecode Calc.Value Calc.FloatText Calc.Ast Calc.Compile Calc.VM
        Calc.ExprSem Calc.ExprVM Calc.ExprCorrect.
Require Import Lia.
Open Scope Z_scope.

Definition grows {A} (k : Z) (m : CM A) : Prop :=
  forall s a s', m s = COk (a, s') -> ncs s <= ncs s' <= ncs s + k.

Lemma grows_ret {A} (a : A) : grows 0 (cret a).
Proof. intros s b s' H. apply cret_ok in H. destruct H as [_ ->]. lia. Qed.

Lemma grows_emit i : grows 1 (emit i).
Proof. intros s a s' H. apply emit_ok in H. subst. cbn [emitted ncs]. lia. Qed.

Lemma grows_enc sel k a : grows 0 (enc sel k a).
Proof. intros s w s' H. apply enc_ok in H. destruct H as [-> _]. lia. Qed.

Lemma grows_add_ds x : grows 0 (add_ds x).
Proof. intros s a s' H. apply add_ds_ok in H. destruct H as [_ ->]. cbn [with_data ncs]. lia. Qed.

Lemma grows_bind {A B} k1 k2 (m : CM A) (f : A -> CM B) :
  grows k1 m -> (forall a, grows k2 (f a)) -> grows (k1 + k2) (cbind m f).
Proof.
  intros H1 H2 s b s' H. apply cbind_ok in H. destruct H as [a [s1 [Ha Hb]]].
  specialize (H1 s a s1 Ha). specialize (H2 a s1 b s' Hb). lia.
Qed.

Lemma grows_le {A} k k' (m : CM A) : k <= k' -> grows k m -> grows k' m.
Proof. intros Hk H s a s' E. specialize (H s a s' E). lia. Qed.

Lemma grows_if {A} k (b : bool) (m1 m2 : CM A) : grows k m1 -> grows k m2 -> grows k (if b then m1 else m2).
Proof. destruct b; auto. Qed.

Lemma grows_abort {A} k w : grows k (@cabort A w).
Proof. intros s a s' H. discriminate H. Qed.

Lemma const_grows x sel : grows 0 (comp_const x sel).
Proof.
  unfold comp_const. apply (grows_bind 0 0 (add_ds x) (fun ix => enc sel AddrDS ix)).
  - apply grows_add_ds.
  - intros ix. apply grows_enc.
Qed.

Lemma name_grows g sel : grows 0 (comp_ref (NName g) sel).
Proof.
  cbn [comp_ref]. apply (grows_bind 0 0 (add_ds (VStr g)) (fun ix => enc sel AddrGbl ix)).
  - apply grows_add_ds.
  - intros ix. apply grows_enc.
Qed.

(* an upper bound on the instructions emitted *)
Fixpoint clen (e : node) : nat :=
  match e with
  | NBin _ l r => clen l + clen r + 4
  | NUn _ t => clen t + 4
  | NList l => fold_right (fun x acc => clen x + 1 + acc) 0 l
  | NIndexAt a i => clen a + clen i + 1
  | NIndexFromTo a f t => clen a + clen f + clen t + 1
  | _ => 0
  end%nat.

Lemma binop_grows opname compL compR a b c sel fl kl kr :
  0 <= kl -> 0 <= kr ->
  (forall sel fl, grows kl (compL sel fl)) -> (forall sel fl, grows kr (compR sel fl)) ->
  grows (kl + kr + 4) (comp_binop opname compL compR a b c sel fl).
Proof.
  intros Hkl Hkr HL HR. unfold comp_binop. destruct (binop_opcode opname); [|apply grows_abort].
  replace (kl + kr + 4) with (kl + (1 + ((kr + 1 + 1) + (1 + 0)))) by lia.
  apply grows_bind; [apply HL|]. intros left.
  apply grows_bind.
  - apply grows_if.
    + replace 1 with (0 + (0 + (1 + 0))) by lia.
      apply grows_bind; [apply grows_enc|]. intros w1. apply grows_bind; [apply grows_enc|]. intros w0.
      apply grows_bind; [apply grows_emit|]. intros _. apply grows_ret.
    + apply (grows_le 0); [lia|apply grows_ret].
  - intros temp1. apply grows_bind.
    + apply grows_if.
      * apply (grows_le (1 + (0 + 1))); [lia|].
        apply grows_bind; [apply grows_emit|]. intros _. apply grows_bind; [apply grows_enc|]. intros w. apply grows_emit.
      * apply (grows_le (kr + 1)); [lia|]. apply grows_bind; [apply HR|]. intros right. apply grows_emit.
    + intros _. apply grows_bind.
      * apply grows_if.
        -- replace 1 with (1 + 0) by lia. apply grows_bind; [apply grows_emit|]. intros _. apply grows_ret.
        -- apply (grows_le 0); [lia|apply grows_ret].
      * intros temp2. apply grows_enc.
Qed.

Lemma list_go_grows fl k ix : forall l,
  Forall (fun x => forall sel fl, grows (Z.of_nat (clen x)) (comp x sel fl)) l ->
  forall i, grows (Z.of_nat (fold_right (fun x acc => clen x + 1 + acc)%nat 0%nat l)) (list_go fl k ix l i).
Proof.
  induction l as [|x l IH]; intros HF i; cbn [list_go fold_right].
  - apply grows_ret.
  - inversion HF as [|x' l' Hx Hl]; subst. apply grows_if.
    + apply (grows_le (Z.of_nat (fold_right (fun x acc => clen x + 1 + acc)%nat 0%nat l))); [lia|apply IH; exact Hl].
    + replace (Z.of_nat (clen x + 1 + fold_right (fun x acc => clen x + 1 + acc)%nat 0%nat l))
        with (Z.of_nat (clen x) + (0 + (1 + Z.of_nat (fold_right (fun x acc => clen x + 1 + acc)%nat 0%nat l)))) by lia.
      apply grows_bind; [apply Hx|]. intros i0. apply grows_bind.
      * apply grows_if; apply grows_enc.
      * intros w. apply grows_bind; [apply grows_emit|]. intros _. apply IH. exact Hl.
Qed.

Lemma comp_grows : forall e, pure e = true -> forall sel fl, grows (Z.of_nat (clen e)) (comp e sel fl).
Proof.
  apply (pure_induction (fun e => forall sel fl, grows (Z.of_nat (clen e)) (comp e sel fl))).
  - intros i sel fl. apply const_grows.
  - intros f _ sel fl. apply const_grows.
  - intros s sel fl. apply const_grows.
  - intros b sel fl. apply const_grows.
  - intros g sel fl. apply name_grows.
  - intros op c l r _ _ _ IH1 IH2 sel fl. cbn [comp clen].
    replace (Z.of_nat (clen l + clen r + 4)) with (Z.of_nat (clen l) + Z.of_nat (clen r) + 4) by lia.
    apply binop_grows; [lia|lia|exact IH1|exact IH2].
  - intros op t _ _ IH sel fl. cbn [comp clen].
    replace (Z.of_nat (clen t + 4)) with (Z.of_nat (clen t) + 4) by lia.
    destruct (String.eqb op "-").
    + replace (Z.of_nat (clen t) + 4) with (0 + Z.of_nat (clen t) + 4) by lia.
      apply binop_grows; [lia|lia| |exact IH]. intros sel' fl'. apply const_grows.
    + destruct (if String.eqb op "#" then Some LEN else if String.eqb op "!" then Some NOT
                else if String.eqb op "~" then Some FLIP else None); [|apply grows_abort].
      apply (grows_le (Z.of_nat (clen t) + (1 + (1 + (1 + 0))))); [lia|].
      apply grows_bind; [apply IH|]. intros target.
      apply grows_bind.
      * apply grows_if.
        -- replace 1 with (0 + (1 + 0)) by lia. apply grows_bind; [apply grows_enc|]. intros w1.
           apply grows_bind; [apply grows_emit|]. intros _. apply grows_ret.
        -- apply (grows_le 0); [lia|apply grows_ret].
      * intros temp1. apply grows_bind; [apply grows_emit|]. intros _.
        apply grows_bind.
        -- apply grows_if.
           ++ replace 1 with (1 + 0) by lia. apply grows_bind; [apply grows_emit|]. intros _. apply grows_ret.
           ++ apply (grows_le 0); [lia|apply grows_ret].
        -- intros temp2. apply grows_enc.
  - intros l _ HF sel fl. rewrite comp_list_unfold. cbv zeta. cbn [clen].
    replace (Z.of_nat (fold_right (fun x acc => clen x + 1 + acc)%nat 0%nat l))
      with (0 + (Z.of_nat (fold_right (fun x acc => clen x + 1 + acc)%nat 0%nat l) + 0)) by lia.
    apply grows_bind; [apply grows_add_ds|]. intros ix. apply grows_if.
    + apply (grows_le 0); [lia|apply grows_enc].
    + apply grows_bind; [apply list_go_grows; exact HF|]. intros _. apply grows_enc.
  - intros a i _ _ IHa IHi sel fl. cbn [comp clen].
    replace (Z.of_nat (clen a + clen i + 1)) with (Z.of_nat (clen a) + (Z.of_nat (clen i) + (1 + 0))) by lia.
    apply grows_bind; [apply IHa|]. intros wa. apply grows_bind; [apply IHi|]. intros wi.
    apply grows_bind; [apply grows_emit|]. intros _. apply grows_enc.
  - intros a f t _ _ _ IHa IHf IHt sel fl. cbn [comp clen].
    replace (Z.of_nat (clen a + clen f + clen t + 1))
      with (Z.of_nat (clen a) + (Z.of_nat (clen f) + (Z.of_nat (clen t) + (1 + 0)))) by lia.
    apply grows_bind; [apply IHa|]. intros wa. apply grows_bind; [apply IHf|]. intros wf.
    apply grows_bind; [apply IHt|]. intros wt.
    apply grows_bind; [apply grows_emit|]. intros _. apply grows_enc.
Qed.

(* the size of the text of an expression *)
Fixpoint esize (e : node) : nat :=
  match e with
  | NBin _ l r => esize l + esize r + 1
  | NUn _ t => esize t + 1
  | NAssign _ t => esize t + 1
  | NList l => S (fold_right (fun x acc => esize x + acc) 0 l)
  | NIndexAt a i => esize a + esize i + 1
  | NIndexFromTo a f t => esize a + esize f + esize t + 1
  | _ => 1
  end%nat.

Lemma esize_pos e : (1 <= esize e)%nat.
Proof. destruct e; cbn [esize]; lia. Qed.

Lemma clen_le_size : forall e, pure e = true -> (clen e + 4 <= 4 * esize e)%nat.
Proof.
  apply (pure_induction (fun e => (clen e + 4 <= 4 * esize e)%nat)); try (intros; cbn [clen esize]; lia).
  intros l _ HF. cbn [clen esize].
  induction HF as [|x r Hx Hr IH]; cbn [fold_right]; lia.
Qed.
