(* Sem.v — the definitional semantics of calc: a direct evaluator of
   (name-resolved) syntax trees by the language rules.  It knows nothing of
   bytecode, flags, stacks, the temp register or contexts.

   - strict left-to-right evaluation; both operands are evaluated before an
     operator can fail; arguments before the callee is looked up;
   - every activation has a frame that is never freed; a closure holds the
     frame of the activation that created it, so it shares that activation's
     variables while it runs and sees their final values afterwards;
   - generators are resumptions: evaluating something that yields produces
     Yield v k; a for loop starts its iterator expressions in order (each on
     a snapshot of the enclosing activation's variables), binds, runs the
     body, then resumes them in order and stops at the first one that is
     exhausted; a yield nobody consumes continues with the yielded value;
   - evaluation is fuelled; Fuel is not a meaning. *)
Require Import Calc.Base Calc.Bytecode Calc.Value Calc.FloatText Calc.Ast Calc.Compile Calc.VM.
Open Scope Z_scope.

Record sclos := { sc_params : Z; sc_locals : Z; sc_body : node; sc_env : option Z }.

Record sstate := {
  s_frames : list (Z * list value);
  s_clos : list (Z * sclos);
  s_globals : list (string * value);
  s_next : Z;
  s_out : list string;
  s_in : list string
}.

Definition sstate0 : sstate :=
  {| s_frames := []; s_clos := []; s_globals := []; s_next := 0; s_out := []; s_in := [] |}.

Record env := { e_frame : option Z; e_closure : option Z }.
Definition env_top : env := {| e_frame := None; e_closure := None |}.

Inductive ctl :=
| CVal (v : value)
| CRet (v : value)
| CErr (e : err)
| CExit (c : Z)
| CFuel
| CAbort (w : string).

Inductive comp :=
| Done (st : sstate) (c : ctl)
| Yield (st : sstate) (v : value) (k : sstate -> comp).

(* sequencing: continue with the value; anything else propagates; yields bubble *)
Fixpoint bind (m : comp) (f : sstate -> value -> comp) : comp :=
  match m with
  | Done st (CVal v) => f st v
  | Done st c => Done st c
  | Yield st v k => Yield st v (fun st' => bind (k st') f)
  end.

(* a call consumes the return of its body *)
Fixpoint catch_return (m : comp) : comp :=
  match m with
  | Done st (CRet v) => Done st (CVal v)
  | Done st c => Done st c
  | Yield st v k => Yield st v (fun st' => catch_return (k st'))
  end.

Definition lift_res (st : sstate) (r : res value) : comp :=
  match r with Ok v => Done st (CVal v) | Fail e => Done st (CErr e) end.

(* ---- store ---- *)
Definition new_frame (st : sstate) (vals : list value) : sstate * Z :=
  ({| s_frames := (s_next st, vals) :: s_frames st; s_clos := s_clos st; s_globals := s_globals st;
      s_next := s_next st + 1; s_out := s_out st; s_in := s_in st |}, s_next st).

Definition new_clos (st : sstate) (c : sclos) : sstate * Z :=
  ({| s_frames := s_frames st; s_clos := (s_next st, c) :: s_clos st; s_globals := s_globals st;
      s_next := s_next st + 1; s_out := s_out st; s_in := s_in st |}, s_next st).

Definition set_frame (st : sstate) (id : Z) (vals : list value) : sstate :=
  {| s_frames := assoc_set (s_frames st) id vals; s_clos := s_clos st; s_globals := s_globals st;
     s_next := s_next st; s_out := s_out st; s_in := s_in st |}.

Definition set_global (st : sstate) (n : string) (v : value) : sstate :=
  {| s_frames := s_frames st; s_clos := s_clos st; s_globals := sassoc_set (s_globals st) n v;
     s_next := s_next st; s_out := s_out st; s_in := s_in st |}.

Definition emit_out (st : sstate) (s : string) : sstate :=
  {| s_frames := s_frames st; s_clos := s_clos st; s_globals := s_globals st;
     s_next := s_next st; s_out := s :: s_out st; s_in := s_in st |}.

Definition take_in (st : sstate) : option (string * sstate) :=
  match s_in st with
  | [] => None
  | l :: r => Some (l, {| s_frames := s_frames st; s_clos := s_clos st; s_globals := s_globals st;
                          s_next := s_next st; s_out := s_out st; s_in := r |})
  end.

Definition read_slot (st : sstate) (fr : option Z) (ix : Z) : option value :=
  match fr with
  | None => None
  | Some id => match assoc_get (s_frames st) id with
               | Some vals => znth vals ix
               | None => None
               end
  end.

(* reading a variable *)
Definition lookup (st : sstate) (e : env) (n : node) : comp :=
  match n with
  | NLocal ix _ =>
      match read_slot st (e_frame e) ix with
      | Some v => Done st (CVal v)
      | None => Done st (CAbort "no such local")
      end
  | NClosure ix _ =>
      match read_slot st (e_closure e) ix with
      | Some v => Done st (CVal v)
      | None => Done st (CAbort "no such captured variable")
      end
  | NName s => Done st (CVal (match sassoc_get (s_globals st) s with Some v => v | None => VNil end))
  | _ => Done st (CAbort "not a variable")
  end.

(* writing a variable: a function's own variable, or a global at top level.
   Assigning nil is an error. *)
Definition assign (st : sstate) (e : env) (target : node) (v : value) : comp :=
  if is_nil v then Done st (CErr ErrNil)
  else
    match target with
    | NLocal ix _ =>
        match e_frame e with
        | Some id =>
            match assoc_get (s_frames st) id with
            | Some vals =>
                if (0 <=? ix) && (ix <? zlen vals)
                then Done (set_frame st id (zset vals (Z.to_nat ix) v)) (CVal v)
                else Done st (CAbort "no such local")
            | None => Done st (CAbort "no such frame")
            end
        | None => Done st (CAbort "local outside a function")
        end
    | NName s => Done (set_global st s v) (CVal v)
    | _ => Done st (CAbort "cannot assign")
    end.

Definition unop_sem (op : string) (v : value) : option (res value) :=
  if String.eqb op "-" then Some (Arith MUL (VInt (-1)) v)
  else if String.eqb op "#" then Some (Len v)
  else if String.eqb op "!" then Some (Not v)
  else if String.eqb op "~" then Some (Flip v)
  else None.

(* a condition must be a boolean *)
Definition as_cond (st : sstate) (v : value) (k : sstate -> bool -> comp) : comp :=
  match v with
  | VBool b => k st b
  | VNil => Done st (CErr ErrNil)
  | _ => Done st (CErr ErrType)
  end.

Definition frame_copy (st : sstate) (e : env) : sstate * env :=
  match e_frame e with
  | None => (st, e)
  | Some id =>
      match assoc_get (s_frames st) id with
      | Some vals => let (st', id') := new_frame st vals in (st', {| e_frame := Some id'; e_closure := e_closure e |})
      | None => (st, e)
      end
  end.

Fixpoint eval (fuel : nat) (n : node) (e : env) (st : sstate) {struct fuel} : comp :=
  match fuel with
  | O => Done st CFuel
  | S fuel' =>
    let ev := eval fuel' in
    (* expressions left to right, collecting the values *)
    let ev_list :=
      (fix go (l : list node) (st : sstate) (acc : list value) (k : sstate -> list value -> comp) : comp :=
         match l with
         | [] => k st (rev acc)
         | x :: r => bind (ev x e st) (fun st' v => go r st' (v :: acc) k)
         end) in
    match n with
    | NInvalid => Done st (CAbort "invalid node")
    | NInt i => Done st (CVal (VInt i))
    | NFloat f => Done st (CVal (VFloat f))
    | NStr s => Done st (CVal (VStr s))
    | NBool b => Done st (CVal (VBool b))
    | NName _ | NLocal _ _ | NClosure _ _ => lookup st e n
    | NList l => ev_list l st [] (fun st' vs => Done st' (CVal (VArr vs)))
    | NBin op l r =>
        match binop_opcode op with
        | None => Done st (CAbort "unexpected op")
        | Some c =>
            bind (ev l e st) (fun st1 a =>
            bind (ev r e st1) (fun st2 b => lift_res st2 (apply_binop c a b)))
        end
    | NUn op t =>
        bind (ev t e st) (fun st1 a =>
          match unop_sem op a with
          | Some r => lift_res st1 r
          | None => Done st1 (CAbort "unexpected op")
          end)
    | NIndexAt a i =>
        bind (ev a e st) (fun st1 av =>
        bind (ev i e st1) (fun st2 iv => lift_res st2 (Index1 av iv)))
    | NIndexFromTo a f t =>
        bind (ev a e st) (fun st1 av =>
        bind (ev f e st1) (fun st2 fv =>
        bind (ev t e st2) (fun st3 tv => lift_res st3 (Index2 av fv tv))))
    | NAssign target rhs =>
        bind (ev rhs e st) (fun st1 v => assign st1 e target v)
    | NBlock body =>
        (fix go (l : list node) (st : sstate) (last : value) : comp :=
           match l with
           | [] => Done st (CVal last)
           | [x] => ev x e st
           | x :: r => bind (ev x e st) (fun st' _ => go r st' VNil)
           end) body st VNil
    | NIf c t =>
        bind (ev c e st) (fun st1 cv =>
          as_cond st1 cv (fun st2 b => if b then ev t e st2 else Done st2 (CVal VNil)))
    | NIfElse c t f =>
        bind (ev c e st) (fun st1 cv =>
          as_cond st1 cv (fun st2 b => if b then ev t e st2 else ev f e st2))
    | NWhile c body =>
        (fix loop (k : nat) (st : sstate) (last : value) : comp :=
           match k with
           | O => Done st CFuel
           | S k' =>
               bind (ev c e st) (fun st1 cv =>
                 as_cond st1 cv (fun st2 b =>
                   if b then bind (ev body e st2) (fun st3 v => loop k' st3 v)
                   else Done st2 (CVal last)))
           end) fuel' st VNil
    | NReturn t => bind (ev t e st) (fun st1 v => Done st1 (CRet v))
    | NYield t => bind (ev t e st) (fun st1 v => Yield st1 v (fun st2 => Done st2 (CVal v)))
    | NFunction params body localcnt =>
        let (st1, id) := new_clos st {| sc_params := zlen params; sc_locals := localcnt;
                                        sc_body := body; sc_env := e_frame e |} in
        Done st1 (CVal (VFun 0 id))
    | NCall name args =>
        ev_list args st [] (fun st1 argv =>
          bind (lookup st1 e name) (fun st2 f =>
            match f with
            | VFun _ id =>
                match assoc_get (s_clos st2) id with
                | None => Done st2 (CAbort "no such function")
                | Some c =>
                    if negb (sc_params c =? zlen argv) then Done st2 (CErr ErrArity)
                    else
                      let locals := repeat VNil (Z.to_nat (sc_locals c - sc_params c)) in
                      let (st3, fid) := new_frame st2 (argv ++ locals) in
                      catch_return (ev (sc_body c) {| e_frame := Some fid; e_closure := sc_env c |} st3)
                end
            | _ => Done st2 (CErr ErrType)
            end))
    | NFor vars iters body =>
        if negb (Nat.eqb (List.length vars) (List.length iters)) then Done st (CAbort "for: variables/iterators")
        else
          (* what a generator did when (re)started: bound a value, or finished *)
          let advance (g : comp) (v : node)
                      (on_yield : sstate -> (sstate -> comp) -> comp) (on_done : sstate -> comp) : comp :=
            match g with
            | Done st' (CVal _) => on_done st'
            | Done st' (CRet _) => Done st' (CAbort "return out of an iterator expression")
            | Done st' c => Done st' c
            | Yield st' x kk => bind (assign st' e v x) (fun st'' _ => on_yield st'' kk)
            end in
          (* start the iterator expressions in order, each on a snapshot of the
             enclosing activation's variables taken when it starts *)
          let start :=
            (fix start (vs its : list node) (st : sstate) (acc : list (sstate -> comp))
                       (cont : sstate -> list (sstate -> comp) -> comp) {struct vs} : comp :=
               match vs, its with
               | [], _ => cont st (rev acc)
               | v :: vs', it :: its' =>
                   let (st1, ei) := frame_copy st e in
                   advance (ev it ei st1) v
                           (fun st'' kk => start vs' its' st'' (kk :: acc) cont)
                           (fun st' => Done st' (CVal VNil))
               | _ :: _, [] => Done st (CAbort "for: iterators")
               end) in
          (* resume them in order; the loop ends at the first exhausted one *)
          let resume :=
            (fix resume (vs : list node) (ks : list (sstate -> comp)) (st : sstate)
                        (acc : list (sstate -> comp)) (last : value)
                        (cont : sstate -> list (sstate -> comp) -> comp) {struct vs} : comp :=
               match vs, ks with
               | [], _ => cont st (rev acc)
               | v :: vs', kk :: ks' =>
                   advance (kk st) v
                           (fun st'' kk' => resume vs' ks' st'' (kk' :: acc) last cont)
                           (fun st' => Done st' (CVal last))
               | _ :: _, [] => Done st (CAbort "for: generators")
               end) in
          let loop :=
            (fix loop (k : nat) (ks : list (sstate -> comp)) (st : sstate) : comp :=
               match k with
               | O => Done st CFuel
               | S k' =>
                   bind (ev body e st) (fun st1 v =>
                     resume vars ks st1 [] v (fun st2 ks' => loop k' ks' st2))
               end) in
          start vars iters st [] (fun st1 ks => loop fuel' ks st1)
    | NRead =>
        match take_in st with
        | Some (l, st') => Done st' (CVal (VStr l))
        | None => Done st (CErr ErrRead)
        end
    | NWrite v => bind (ev v e st) (fun st1 x => Done (emit_out st1 (to_string fmt_float x)) (CVal VNil))
    | NAton v =>
        bind (ev v e st) (fun st1 x =>
          match x with
          | VStr s =>
              match atoi s with
              | Some i => Done st1 (CVal (VInt i))
              | None => match parse_float s with
                        | PFOk f => Done st1 (CVal (VFloat f))
                        | _ => Done st1 (CErr ErrConversion)
                        end
              end
          | _ => Done st1 (CErr ErrType)
          end)
    | NToa v => bind (ev v e st) (fun st1 x => Done st1 (CVal (VStr (to_string fmt_float x))))
    | NExit v =>
        bind (ev v e st) (fun st1 x =>
          match x with
          | VInt i => Done st1 (CExit i)
          | _ => Done st1 (CErr ErrType)
          end)
    end
  end.
