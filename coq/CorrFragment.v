(* CorrFragment.v — how much of what a run exercises lies inside the fragment
   for which compiler correctness is proved (StmtTop.v): evaluated on the
   trees the Go parser produced, so the theorems' premises are checked on
   every sampled statement and not assumed. *)
Require Import Calc.Sem.
Require Import Calc.Base Calc.Bytecode Calc.Value Calc.FloatText Calc.Ast Calc.Resolve Calc.Compile Calc.VM
        Calc.Session Calc.CorrSession Calc.CompileWf
        Calc.ExprSem Calc.ExprAssign Calc.ExprLen Calc.ExprSession Calc.StmtSem.
Open Scope Z_scope.

(* the premises of C01_statement_sessions_partial for one parsed tree *)
Definition in_fragment (t : node) : bool :=
  match strewrite t with
  | Some t' => wstmt t' && wfb t'
  | None => false
  end.

(* does a top-level statement (re)bind one of write, toa, aton, read?  (assignments inside function bodies
   bind locals) *)
Fixpoint rebinds_builtin (t : node) : bool :=
  match t with
  | NAssign (NName g) e => (match bop_of_name g with Some _ => true | None => String.eqb g "read" end) || rebinds_builtin e
  | NAssign _ e => rebinds_builtin e
  | NBlock l => existsb rebinds_builtin l
  | NList l => existsb rebinds_builtin l
  | NIf c b => rebinds_builtin c || rebinds_builtin b
  | NIfElse c a b => rebinds_builtin c || rebinds_builtin a || rebinds_builtin b
  | NWhile c b => rebinds_builtin c || rebinds_builtin b
  | NFor vs its b =>
      existsb (fun v => match v with
                        | NName g => match bop_of_name g with Some _ => true | None => String.eqb g "read" end
                        | _ => false
                        end) vs || existsb rebinds_builtin its || rebinds_builtin b
  | NBin _ l r => rebinds_builtin l || rebinds_builtin r
  | NUn _ x => rebinds_builtin x
  | NIndexAt a i => rebinds_builtin a || rebinds_builtin i
  | NIndexFromTo a f x => rebinds_builtin a || rebinds_builtin f || rebinds_builtin x
  | NCall f args => rebinds_builtin f || existsb rebinds_builtin args
  | NReturn x | NYield x | NWrite x | NAton x | NToa x | NExit x => rebinds_builtin x
  | _ => false
  end.

(* the trees of one session that lie in the fragment while the built-in names still hold the built-ins
   (a for loop binding "write" as its variable counts as a rebinding too: its variables are scanned) *)
Fixpoint count_fragment (trees : list node) (intact : bool) : nat :=
  match trees with
  | [] => 0
  | t :: r =>
      ((if intact && in_fragment t then 1 else 0) + count_fragment r (intact && negb (rebinds_builtin t)))%nat
  end.

(* 100000 * (trees inside the fragment) + (all trees) *)
Definition chk_fragment (l : list ginput) : Z :=
  let trees := List.concat (map g_trees l) in
  100000 * Z.of_nat (count_fragment trees true) + Z.of_nat (List.length trees).
