(* CorrFragment.v — how much of what a run exercises lies inside the fragment
   for which compiler correctness is proved (StmtTop.v): evaluated on the
   trees the Go parser produced, so the theorems' premises are checked on
   every sampled statement and not assumed. *)
Require Import Calc.Sem.
Require Import Calc.Base Calc.Bytecode Calc.Value Calc.FloatText Calc.Ast Calc.Resolve Calc.Compile Calc.VM
        Calc.Session Calc.CorrSession Calc.SemSession Calc.CompileWf
        Calc.ExprSem Calc.ExprAssign Calc.ExprLen Calc.ExprSession Calc.LExprSem Calc.StmtSem Calc.StmtRel Calc.StmtDef Calc.StmtMixed Calc.StmtStart.
Open Scope Z_scope.

(* the premises of C01_statement_sessions_partial for one parsed tree *)
Definition in_fragment (t : node) : bool :=
  match strewrite t with
  | Some t' => wstmt t' && wfb t'
  | None => false
  end.

(* does a top-level statement (re)bind one of write, toa, aton, read?  (assignments inside function bodies
   bind locals) *)
Fixpoint rebinds_builtin (t : node) : bool :=
  match t with
  | NAssign (NName g) e => (match bop_of_name g with Some _ => true | None => String.eqb g "read" end) || rebinds_builtin e
  | NAssign _ e => rebinds_builtin e
  | NBlock l => existsb rebinds_builtin l
  | NList l => existsb rebinds_builtin l
  | NIf c b => rebinds_builtin c || rebinds_builtin b
  | NIfElse c a b => rebinds_builtin c || rebinds_builtin a || rebinds_builtin b
  | NWhile c b => rebinds_builtin c || rebinds_builtin b
  | NFor vs its b =>
      existsb (fun v => match v with
                        | NName g => match bop_of_name g with Some _ => true | None => String.eqb g "read" end
                        | _ => false
                        end) vs || existsb rebinds_builtin its || rebinds_builtin b
  | NBin _ l r => rebinds_builtin l || rebinds_builtin r
  | NUn _ x => rebinds_builtin x
  | NIndexAt a i => rebinds_builtin a || rebinds_builtin i
  | NIndexFromTo a f x => rebinds_builtin a || rebinds_builtin f || rebinds_builtin x
  | NCall f args => rebinds_builtin f || existsb rebinds_builtin args
  | NReturn x | NYield x | NWrite x | NAton x | NToa x | NExit x => rebinds_builtin x
  | _ => false
  end.

(* names bound at top level by this statement (assignments and for variables, at any nesting below the
   top-level statement but not inside function bodies) *)
Fixpoint binds (t : node) : list string :=
  match t with
  | NAssign (NName g) e => g :: binds e
  | NAssign _ e => binds e
  | NBlock l | NList l => List.concat (map binds l)
  | NIf c b => binds c ++ binds b
  | NIfElse c a b => binds c ++ binds a ++ binds b
  | NWhile c b => binds c ++ binds b
  | NFor vs its b =>
      List.concat (map (fun v => match v with NName g => [g] | _ => [] end) vs) ++ List.concat (map binds its) ++ binds b
  | NBin _ l r => binds l ++ binds r
  | NUn _ x => binds x
  | NIndexAt a i => binds a ++ binds i
  | NIndexFromTo a f x => binds a ++ binds f ++ binds x
  | NCall f args => binds f ++ List.concat (map binds args)
  | NReturn x | NYield x | NWrite x | NAton x | NToa x | NExit x => binds x
  | _ => []
  end.

(* the calls at statement level in a (resolved) statement of the fragment: callee and number of arguments *)
Fixpoint callees (t : node) : list (string * nat) :=
  match t with
  | NCall (NName nm) args => [(nm, List.length args)]
  | NAssign _ e => callees e
  | NBlock l => List.concat (map callees l)
  | NIf _ b => callees b
  | NIfElse _ a b => callees a ++ callees b
  | NWhile _ b => callees b
  | _ => []
  end.

Definition is_builtin_leaf (nm : string) : bool :=
  match bop_of_name nm with Some _ => true | None => String.eqb nm "read" end.

Definition builtin_call_ok (c : string * nat) : bool :=
  match bop_of_name (fst c) with
  | Some _ => Nat.eqb (snd c) 1
  | None => String.eqb (fst c) "read" && Nat.eqb (snd c) 0
  end.

(* f = (p1, .., pk) -> body with a body the theorem covers: no variable but the parameters, the body a pure
   expression of them and of the globals *)
Definition lambda_def (t : node) : option (string * nat) :=
  match strewrite t with
  | Some (NAssign (NName f) (NFunction ps body lc)) =>
      if (lc =? zlen ps) && lpure (repeat VNil (List.length ps)) body && negb (is_builtin_leaf f) &&
         wfb (NAssign (NName f) (NFunction ps body lc))
      then Some (f, List.length ps) else None
  | _ => None
  end.

(* the trees of one session that lie in the fragment: built-in names still hold the built-ins, and the tree
   is a qualifying definition (the premises of C01_definition_extends_the_table) or a statement in which every
   function called is a built-in or a user function defined earlier by a qualifying definition and not
   rebound since (funs) — with any number of arguments: too few or too many is the arity error the theorem covers *)
Fixpoint count_fragment (trees : list node) (intact : bool) (funs : list (string * nat)) : nat :=
  match trees with
  | [] => 0
  | t :: r =>
      let ok := intact &&
                (match lambda_def t with Some _ => true | None => false end ||
                 in_fragment t &&
                 match strewrite t with
                 | Some t' => forallb (fun c => builtin_call_ok c ||
                                                existsb (fun f => String.eqb (fst c) (fst f)) funs)
                                      (callees t')
                 | None => false
                 end) in
      let bound := binds t in
      let funs1 := filter (fun f => negb (existsb (String.eqb (fst f)) bound)) funs in
      let funs2 := match lambda_def t with Some f => f :: funs1 | None => funs1 end in
      ((if ok then 1 else 0) + count_fragment r (intact && negb (rebinds_builtin t)) funs2)%nat
  end.

(* ---- the premises of C01_sessions_sem_vs_vm_partial (agree_session) on one session ---- *)
(* FN: the built-ins that are not leaves, and every name the session gives a function by a qualifying definition *)
Definition session_names (trees : list node) : list string :=
  ["exit"; "fromto"; "indices"; "elems"]%string ++
  flat_map (fun t => match lambda_def t with Some f => [fst f] | None => [] end) trees.

(* item_ok2 FN for one tree (plus: every callee is known, so that the statement semantics gives the calls a meaning);
   sound: FragmentSound.v *)
Definition tree_ok2 (FN : list string) (funs : list (string * nat)) (t : node) : bool :=
  match lambda_def t with
  | Some _ => match strewrite t with
              | Some (NAssign _ (NFunction _ body _)) => nobe (BS FN) body
              | _ => false
              end
  | None =>
      wstmt t && wfb t &&
      forallb (fun c => builtin_call_ok c || existsb (fun f => String.eqb (fst c) (fst f)) funs) (callees t) &&
      nobs (BS FN) t
  end.

(* the length of the longest prefix of the session all of whose trees meet the premises: up to there the
   session theorem applies from the start of the session *)
Fixpoint prefix_ok (FN : list string) (trees : list node) (funs : list (string * nat)) : nat :=
  match trees with
  | [] => 0
  | t :: r =>
      if tree_ok2 FN funs t then
        let bound := binds t in
        let funs1 := filter (fun f => negb (existsb (String.eqb (fst f)) bound)) funs in
        let funs2 := match lambda_def t with Some f => f :: funs1 | None => funs1 end in
        S (prefix_ok FN r funs2)
      else 0
  end.

(* the session as the theorems see it: the first tree is run from the fresh machine (that run also executes the
   definitions of the built-ins and is not covered); if the machine it leaves passes the sound check of the
   machine premise (StmtStart.v: start_ok), the theorems apply from there to the longest prefix of the remaining
   trees that meet the premises on trees *)
Definition covered_prefix (trees : list node) : nat :=
  match machine_new, trees with
  | Some mc0, t1 :: r =>
      if start_ok (fst (run_tree false mc0 t1))
      then prefix_ok (session_names trees) r (match lambda_def t1 with Some f => [f] | None => [] end)
      else 0
  | _, _ => 0
  end.

(* the same for the Sem-vs-VM theorem: the two states after the first tree must pass start_ok2 *)
Definition covered_prefix2 (trees : list node) : nat :=
  match machine_new, trees with
  | Some mc0, t1 :: r =>
      if start_ok2 (fst (sem_tree sem_init t1)) (fst (run_tree false mc0 t1))
      then prefix_ok (session_names trees) r (match lambda_def t1 with Some f => [f] | None => [] end)
      else 0
  | _, _ => 0
  end.

(* 10^15 * (trees covered by the Sem-vs-VM session theorem) + 10^10 * (trees covered by the compiled-side session theorem)
   + 100000 * (trees that meet the premises on trees of the compiled-side theorem) + (all trees) *)
Definition chk_fragment (l : list ginput) : Z :=
  let trees := List.concat (map g_trees l) in
  1000000000000000 * Z.of_nat (covered_prefix2 trees) +
  10000000000 * Z.of_nat (covered_prefix trees) +
  100000 * Z.of_nat (count_fragment trees true []) + Z.of_nat (List.length trees).

(* ---- C16: the session in value mode and in file mode, each from the fresh machine ---- *)
(* the first tree is run in either mode from the fresh machine; if the two machines pass start_ok_modes, the
   two-machine session theorem applies to the counted prefix of the remaining trees, value mode on the one and
   file mode on the other *)
Definition covered_modes (trees : list node) : nat :=
  match machine_new, trees with
  | Some mc0, t1 :: r =>
      if start_ok_modes (fst (run_tree false mc0 t1)) (fst (run_tree true mc0 t1))
      then prefix_ok (session_names trees) r (match lambda_def t1 with Some f => [f] | None => [] end)
      else 0
  | _, _ => 0
  end.

(* 100000 * (trees covered) + (all trees) *)
Definition chk_modes (l : list ginput) : Z :=
  let trees := List.concat (map g_trees l) in
  100000 * Z.of_nat (covered_modes trees) + Z.of_nat (List.length trees).
