(* CorrFragment.v — how much of what a run exercises lies inside the fragment
   for which compiler correctness is proved (StmtTop.v): evaluated on the
   trees the Go parser produced, so the theorems' premises are checked on
   every sampled statement and not assumed. *)
Require Import Calc.Sem.
Require Import Calc.Base Calc.Bytecode Calc.Value Calc.FloatText Calc.Ast Calc.Resolve Calc.Compile Calc.VM
        Calc.Session Calc.CorrSession Calc.CompileWf
        Calc.ExprSem Calc.ExprAssign Calc.ExprLen Calc.ExprSession Calc.StmtSem.
Open Scope Z_scope.

(* the premises of C01_statement_sessions_partial for one parsed tree *)
Definition in_fragment (t : node) : bool :=
  match strewrite t with
  | Some t' => wstmt t' && wfb t'
  | None => false
  end.

(* 100000 * (trees inside the fragment) + (all trees) *)
Definition chk_fragment (l : list ginput) : Z :=
  let trees := List.concat (map g_trees l) in
  100000 * Z.of_nat (List.length (filter in_fragment trees)) + Z.of_nat (List.length trees).
