(* ForProofs.v — a for loop over one generator, under the definitional
   semantics: the body runs once per produced value, in order, with the loop
   variable bound to it; the loop ends when the generator does. *)
Require Import Calc.Base Calc.Bytecode Calc.Value Calc.FloatText Calc.Ast Calc.Resolve Calc.Compile
        Calc.VM Calc.Sem Calc.GenBuiltins Calc.Session Calc.CorrSession Calc.SemSession Calc.GenProofs.
Require Import Lia.
Open Scope Z_scope.

(* ---- the pieces of NFor in Sem.eval, named ---- *)
Definition advance (e : env) (g : comp) (v : node)
           (on_yield : sstate -> (sstate -> comp) -> comp) (on_done : sstate -> comp) : comp :=
  match g with
  | Done st' (CVal _) => on_done st'
  | Done st' (CRet _) => Done st' (CAbort "return out of an iterator expression")
  | Done st' c => Done st' c
  | Yield st' x kk => bind (assign st' e v x) (fun st'' _ => on_yield st'' kk)
  end.

Definition for_start (f : nat) (e : env) :=
  fix start (vs its : list node) (st : sstate) (acc : list (sstate -> comp))
         (cont : sstate -> list (sstate -> comp) -> comp) {struct vs} : comp :=
  match vs, its with
  | [], _ => cont st (rev acc)
  | v :: vs', it :: its' =>
      let (st1, ei) := frame_copy st e in
      advance e (eval f it ei st1) v
              (fun st'' kk => start vs' its' st'' (kk :: acc) cont)
              (fun st' => Done st' (CVal VNil))
  | _ :: _, [] => Done st (CAbort "for: iterators")
  end.

Definition for_resume (e : env) :=
  fix resume (vs : list node) (ks : list (sstate -> comp)) (st : sstate)
         (acc : list (sstate -> comp)) (last : value)
         (cont : sstate -> list (sstate -> comp) -> comp) {struct vs} : comp :=
  match vs, ks with
  | [], _ => cont st (rev acc)
  | v :: vs', kk :: ks' =>
      advance e (kk st) v
              (fun st'' kk' => resume vs' ks' st'' (kk' :: acc) last cont)
              (fun st' => Done st' (CVal last))
  | _ :: _, [] => Done st (CAbort "for: generators")
  end.

Definition for_loop (f : nat) (e : env) (vars : list node) (body : node) :=
  fix loop (k : nat) (ks : list (sstate -> comp)) (st : sstate) : comp :=
  match k with
  | O => Done st CFuel
  | S k' =>
      bind (eval f body e st) (fun st1 v =>
        for_resume e vars ks st1 [] v (fun st2 ks' => loop k' ks' st2))
  end.

Lemma eval_for f vars iters body e st :
  eval (S f) (NFor vars iters body) e st
  = if negb (Nat.eqb (List.length vars) (List.length iters)) then Done st (CAbort "for: variables/iterators")
    else for_start f e vars iters st [] (fun st1 ks => for_loop f e vars body f ks st1).
Proof. reflexivity. Qed.

(* ---- one variable, one generator, at top level ---- *)
Section ForGen.
  Variables (f : nat) (v : string) (body : node).
  Variable fid : Z.
  Variable fr : nat -> list value.
  Variable val : nat -> value.
  Variable n : nat.
  (* what holds when value i has just been produced (i = n: when the generator has finished) *)
  Variable J : nat -> sstate -> Prop.

  Hypothesis val_not_nil : forall i, (i < n)%nat -> is_nil (val i) = false.
  Hypothesis body_step : forall i st, (i < n)%nat -> J i st -> frame_of st fid = Some (fr i) ->
    exists st1 x, eval f body env_top (set_global st v (val i)) = Done st1 (CVal x) /\
                  frame_of st1 fid = Some (fr i) /\ J (S i) (set_frame st1 fid (fr (S i))).

  Lemma for_loop_gen : forall m i k kk st,
    (n - i = m)%nat -> (i < n)%nat -> (m <= k)%nat ->
    J i st -> frame_of st fid = Some (fr i) ->
    (forall st', frame_of st' fid = Some (fr i) -> gen fid fr val n (S i) (set_frame st' fid (fr (S i))) (kk st')) ->
    exists st' x, for_loop f env_top [NName v] body k [kk] (set_global st v (val i)) = Done st' (CVal x) /\ J n st'.
  Proof.
    induction m as [|m IH]; intros i k kk st Hm Hi Hk HJ Hf Hkk; [lia|].
    destruct k as [|k]; [lia|]. cbn [for_loop].
    destruct (body_step i st Hi HJ Hf) as [st1 [x [Eb [Hf1 HJ1]]]]. rewrite Eb. cbn [bind for_resume].
    specialize (Hkk st1 Hf1).
    inversion Hkk as [st2 x2 E1 E2 E3|i2 st2 kk2 Hi2 Hkk2 E1 E2 E3].
    - (* the generator is done *)
      cbn [advance]. exists (set_frame st1 fid (fr (S i))), x. split; [reflexivity|].
      first [exact HJ1 | rewrite E1; exact HJ1 | rewrite <- E1; exact HJ1].
    - cbn [advance]. unfold assign. rewrite (val_not_nil (S i) Hi2). cbn [bind for_resume rev app].
      apply (IH (S i) k kk2 (set_frame st1 fid (fr (S i)))); try lia; try assumption.
      apply frame_of_set.
  Qed.

  Lemma for_over_gen it st st0 :
    gen fid fr val n 0 st0 (eval f it env_top st) ->
    (n <= f)%nat -> J 0 st0 -> frame_of st0 fid = Some (fr 0) ->
    exists st' x, eval (S f) (NFor [NName v] [it] body) env_top st = Done st' (CVal x) /\ J n st'.
  Proof.
    intros G Hn HJ Hf. rewrite eval_for. cbn [List.length Nat.eqb negb for_start frame_copy env_top e_frame].
    inversion G as [st2 x2 E1 E2 E3|i2 st2 kk2 Hi2 Hkk2 E1 E2 E3].
    - cbn [advance]. exists st0, VNil. split; [reflexivity|].
      first [exact HJ | rewrite E1; exact HJ | rewrite <- E1; exact HJ].
    - cbn [advance]. unfold assign. rewrite (val_not_nil 0%nat Hi2). cbn [bind for_start rev app].
      apply (for_loop_gen n 0%nat f kk2 st0); try lia; assumption.
  Qed.
End ForGen.

(* ================= collecting what a generator produces ================= *)
Definition collect_body : node := NAssign (NName "acc") (NBin "+" (NName "acc") (NList [NName "e"])).
Definition collect_prog (it : node) : node :=
  NBlock [NAssign (NName "acc") (NList []); NFor [NName "e"] [it] collect_body; NName "acc"].

Lemma sassoc_get_set_same l k v : sassoc_get (sassoc_set l k v) k = Some v.
Proof.
  induction l as [|[k' w] r IH]; cbn [sassoc_set sassoc_get].
  - rewrite String.eqb_refl. reflexivity.
  - destruct (String.eqb k' k) eqn:E; cbn [sassoc_get]; [rewrite String.eqb_refl; reflexivity|].
    rewrite E. exact IH.
Qed.

Lemma sassoc_get_set_other l k k' v : String.eqb k k' = false -> sassoc_get (sassoc_set l k v) k' = sassoc_get l k'.
Proof.
  intros Hk. induction l as [|[k0 w] r IH]; cbn [sassoc_set sassoc_get].
  - rewrite Hk. reflexivity.
  - destruct (String.eqb k0 k) eqn:E; cbn [sassoc_get].
    + apply String.eqb_eq in E. subst k0. rewrite Hk. reflexivity.
    + destruct (String.eqb k0 k'); [reflexivity|exact IH].
Qed.

Definition acc_is (l : list value) (st : sstate) : Prop := sassoc_get (s_globals st) "acc" = Some (VArr l).

Lemma collect_body_step st x l f :
  acc_is l st ->
  eval (S (S (S (S f)))) collect_body env_top (set_global st "e" x)
  = Done (set_global (set_global st "e" x) "acc" (VArr (l ++ [x]))) (CVal (VArr (l ++ [x]))).
Proof.
  unfold acc_is. intros Hacc. unfold collect_body. cbn [eval lookup bind rev app].
  change (binop_opcode "+") with (Some ADD).
  cbn [set_global s_globals].
  rewrite (sassoc_get_set_other _ "e" "acc" x eq_refl), Hacc.
  rewrite sassoc_get_set_same. cbn [bind rev app].
  change (apply_binop ADD (VArr l) (VArr [x])) with (Ok (VArr (l ++ [x]))).
  cbn [lift_res bind]. reflexivity.
Qed.

Lemma eval_block3 f a b c e st :
  eval (S f) (NBlock [a; b; c]) e st
  = bind (eval f a e st) (fun st' _ => bind (eval f b e st') (fun st'' _ => eval f c e st'')).
Proof. reflexivity. Qed.

Lemma eval_assign_empty f e st :
  eval (S (S f)) (NAssign (NName "acc") (NList [])) e st = Done (set_global st "acc" (VArr [])) (CVal (VArr [])).
Proof. reflexivity. Qed.

Section Collect.
  Variable fid : Z.
  Variable fr : nat -> list value.
  Variable val : nat -> value.
  Variable n : nat.
  Hypothesis val_not_nil : forall i, (i < n)%nat -> is_nil (val i) = false.

  Theorem collect_over_gen it st st0 f :
    gen fid fr val n 0 st0 (eval (S (S (S (S f)))) it env_top (set_global st "acc" (VArr []))) ->
    (n <= f)%nat -> acc_is [] st0 -> frame_of st0 fid = Some (fr 0%nat) ->
    exists st', eval (S (S (S (S (S (S f)))))) (collect_prog it) env_top st
                = Done st' (CVal (VArr (map val (seq 0 n)))).
  Proof.
    intros G Hn Hacc Hf0. unfold collect_prog.
    rewrite eval_block3, eval_assign_empty.
    cbn [bind].
    destruct (for_over_gen (S (S (S (S f)))) "e" collect_body fid fr val n
                (fun i s => acc_is (map val (seq 0 i)) s) val_not_nil) with (it := it)
                (st := set_global st "acc" (VArr [])) (st0 := st0) as [st' [x [E HJ]]].
    - intros i s Hi HJ Hfs. rewrite (collect_body_step s (val i) _ f HJ).
      eexists. eexists. split; [reflexivity|]. split.
      + exact Hfs.
      + unfold acc_is. cbn [set_frame set_global s_globals]. rewrite sassoc_get_set_same.
        rewrite seq_S, map_app. reflexivity.
    - exact G.
    - lia.
    - exact Hacc.
    - exact Hf0.
    - rewrite E. cbn [bind eval lookup]. unfold acc_is in HJ. rewrite HJ. eauto.
  Qed.
End Collect.

Lemma has_builtin_set_global st name c g v :
  String.eqb g name = false -> has_builtin st name c -> has_builtin (set_global st g v) name c.
Proof.
  unfold has_builtin, clos_of. intros Hg H. cbn [set_global s_globals s_clos].
  rewrite (sassoc_get_set_other _ g name v Hg). exact H.
Qed.

(* for e <- fromto(a, b) acc = acc + [e]  collects  a, a+1, .., b-1 *)
Theorem fromto_collect a b st f :
  in_int64 a = true -> in_int64 b = true ->
  has_builtin st "fromto" {| sc_params := 2; sc_locals := 2; sc_body := fromto_body; sc_env := None |} ->
  (Z.to_nat (b - a) + 12 <= f)%nat ->
  exists st', eval f (collect_prog (NCall (NName "fromto") [NInt a; NInt b])) env_top st
              = Done st' (CVal (VArr (map (fun i => VInt (a + Z.of_nat i)) (seq 0 (Z.to_nat (b - a)))))).
Proof.
  intros Ha Hb Hh Hf. do 6 (destruct f as [|f]; [lia|]).
  apply (collect_over_gen (s_next st) (ft_frame a b) (ft_val a) (Z.to_nat (b - a)))
    with (st0 := fst (new_frame (set_global st "acc" (VArr [])) [VInt a; VInt b])).
  - intros i _. reflexivity.
  - apply (fromto_call a b env_top (set_global st "acc" (VArr [])) (S (S (S (S f)))) Ha Hb).
    + apply has_builtin_set_global; [reflexivity|exact Hh].
    + lia.
  - lia.
  - unfold acc_is. cbn [new_frame fst set_global s_globals]. apply sassoc_get_set_same.
  - unfold ft_frame. cbn [Z.of_nat]. rewrite Z.add_0_r.
    apply (frame_of_new (set_global st "acc" (VArr []))).
Qed.

(* the same through the front door: the session semantics started with the
   built-ins, the tree resolved by the STRewrite model *)
Theorem fromto_collect_session a b :
  in_int64 a = true -> in_int64 b = true -> b - a < 2900 ->
  snd (sem_tree sem_init (collect_prog (NCall (NName "fromto") [NInt a; NInt b])))
  = CVal (VArr (map (fun i => VInt (a + Z.of_nat i)) (seq 0 (Z.to_nat (b - a))))).
Proof.
  intros Ha Hb Hn. unfold sem_tree.
  change (strewrite (collect_prog (NCall (NName "fromto") [NInt a; NInt b])))
    with (Some (collect_prog (NCall (NName "fromto") [NInt a; NInt b]))).
  destruct (fromto_collect a b sem_init sem_fuel Ha Hb (proj1 sem_init_has_builtins)) as [st' E].
  - unfold sem_fuel. lia.
  - rewrite E. reflexivity.
Qed.

(* for e <- indices(t) acc = acc + [e]  collects 0 .. #x-1;  elems(t) collects x[0] .. x[#x-1] *)
Theorem indices_collect t x st f :
  eval (S (S (S f))) t env_top (set_global st "acc" (VArr [])) = Done (set_global st "acc" (VArr [])) (CVal x) ->
  is_seq x = true -> Z.of_nat (seq_len x) <= max_int ->
  has_builtin st "indices" {| sc_params := 1; sc_locals := 2; sc_body := indices_body; sc_env := None |} ->
  (seq_len x + 6 <= f)%nat ->
  exists st', eval (S (S (S (S (S (S f)))))) (collect_prog (NCall (NName "indices") [t])) env_top st
              = Done st' (CVal (VArr (map (fun i => VInt (Z.of_nat i)) (seq 0 (seq_len x))))).
Proof.
  intros Ht Hx Hmax Hh Hf.
  apply (collect_over_gen (s_next st) (ix_frame x) (fun i => VInt (Z.of_nat i)) (seq_len x))
    with (st0 := set_frame (fst (new_frame (set_global st "acc" (VArr [])) [x; VNil])) (s_next st) (ix_frame x 0)).
  - intros i _. reflexivity.
  - apply (indices_call t x env_top (set_global st "acc" (VArr [])) (S (S (S f))) Ht Hx Hmax).
    + apply has_builtin_set_global; [reflexivity|exact Hh].
    + lia.
  - lia.
  - unfold acc_is. cbn [new_frame fst set_frame set_global s_globals]. apply sassoc_get_set_same.
  - apply frame_of_set.
Qed.

Theorem elems_collect t x st f :
  eval (S (S (S f))) t env_top (set_global st "acc" (VArr [])) = Done (set_global st "acc" (VArr [])) (CVal x) ->
  is_seq x = true -> Z.of_nat (seq_len x) <= max_int ->
  (forall i, (i < seq_len x)%nat -> is_nil (seq_at x i) = false) ->
  has_builtin st "elems" {| sc_params := 1; sc_locals := 2; sc_body := elems_body; sc_env := None |} ->
  (seq_len x + 6 <= f)%nat ->
  exists st', eval (S (S (S (S (S (S f)))))) (collect_prog (NCall (NName "elems") [t])) env_top st
              = Done st' (CVal (VArr (map (seq_at x) (seq 0 (seq_len x))))).
Proof.
  intros Ht Hx Hmax Hnn Hh Hf.
  apply (collect_over_gen (s_next st) (ix_frame x) (seq_at x) (seq_len x))
    with (st0 := set_frame (fst (new_frame (set_global st "acc" (VArr [])) [x; VNil])) (s_next st) (ix_frame x 0)).
  - exact Hnn.
  - apply (elems_call t x env_top (set_global st "acc" (VArr [])) (S (S (S f))) Ht Hx Hmax).
    + apply has_builtin_set_global; [reflexivity|exact Hh].
    + lia.
  - lia.
  - unfold acc_is. cbn [new_frame fst set_frame set_global s_globals]. apply sassoc_get_set_same.
  - apply frame_of_set.
Qed.

(* collecting the elements of an array of non-nil values gives the array back *)
Corollary elems_collect_array t l st f :
  eval (S (S (S f))) t env_top (set_global st "acc" (VArr [])) = Done (set_global st "acc" (VArr [])) (CVal (VArr l)) ->
  Z.of_nat (List.length l) <= max_int -> forallb (fun v => negb (is_nil v)) l = true ->
  has_builtin st "elems" {| sc_params := 1; sc_locals := 2; sc_body := elems_body; sc_env := None |} ->
  (List.length l + 6 <= f)%nat ->
  exists st', eval (S (S (S (S (S (S f)))))) (collect_prog (NCall (NName "elems") [t])) env_top st
              = Done st' (CVal (VArr l)).
Proof.
  intros Ht Hmax Hnn Hh Hf.
  destruct (elems_collect t (VArr l) st f Ht eq_refl Hmax) as [st' E]; try assumption.
  - intros i Hi. cbn [seq_at seq_len] in *. rewrite forallb_forall in Hnn.
    specialize (Hnn (nth i l VNil) (nth_In l VNil Hi)). destruct (is_nil (nth i l VNil)); [discriminate|reflexivity].
  - exists st'. rewrite E. cbn [seq_len]. rewrite elems_of_array. reflexivity.
Qed.
