(* VM.v — model of memory/memory.go and vm/vm.go.

   Memory is modelled as the Go code lays it out: one value stack per
   memory with sp, the fp slice (two entries per call frame) and the closure
   stack.  The only abstraction is for Go slices that alias a stack: a closure
   frame is either an owned copy or an alias (memory id, activation serial,
   base, length) that is read through the memory it points into.  Two things
   real slices can do that this cannot are reported as events instead of being
   idealised silently: reading an alias whose activation is gone (dead_read)
   and reading a captured frame after the stack it lives in has grown
   (grew_captured: the Go append may have moved the array and left the alias
   behind).  A run without
   events is claimed to match the Go code exactly.

   Every Go panic is the Abort outcome. *)
Require Import Calc.Base Calc.Bytecode Calc.Value Calc.FloatText Calc.Compile.
Open Scope Z_scope.

Definition minStackSize := 128.

Inductive framed :=
| FNone                                   (* nil slice: Top() outside any call *)
| FAlias (mid serial base len gen : Z)    (* m.stack[fp:le] of a live activation, taken at stack generation gen *)
| FOwned (vals : list value).             (* slices.Clone of a frame *)

Record mem := {
  m_sp : Z;
  m_fp : list Z;          (* as the Go slice: appended at the end *)
  m_clos : list framed;   (* closure stack, appended at the end *)
  m_stack : list value;   (* the whole backing slice, length = len(m.stack) *)
  m_serials : list Z;     (* serial number of each active frame, innermost last *)
  m_cap : list Z;         (* serials of frames captured by FUNC and still active *)
  m_gen : Z               (* how many times the stack slice has grown *)
}.

Definition mem_new : mem :=
  {| m_sp := 0; m_fp := []; m_clos := []; m_stack := []; m_serials := []; m_cap := []; m_gen := 0 |}.

Record ctx := {
  c_ip : Z;
  c_mid : Z;
  c_parent : option Z;
  c_children : list (Z * Z);   (* hash -> context id *)
  c_tmp : value
}.

Record vm := {
  v_cs : list Z; v_ncs : Z;
  v_ds : list value;
  v_dbg : list (Z * (string * Z));
  v_globals : list (string * value);
  v_mems : list (Z * mem);
  v_ctxs : list (Z * ctx);
  v_frames : list (Z * framed);     (* frame table: function values point here *)
  v_next : Z;                       (* fresh ids for memories, contexts, frames, serials *)
  v_out : list string;              (* written output, last chunk first *)
  v_in : list string;               (* lines standard input still holds *)
  v_dead_read : bool;
  v_grew_captured : bool
}.

(* ---- small list utilities ---- *)
Definition zlen {A} (l : list A) : Z := Z.of_nat (List.length l).
Definition znth {A} (l : list A) (i : Z) : option A :=
  if i <? 0 then None else nth_error l (Z.to_nat i).
Fixpoint zset {A} (l : list A) (i : nat) (v : A) : list A :=
  match l, i with
  | [], _ => []
  | _ :: r, O => v :: r
  | x :: r, S k => x :: zset r k v
  end.
Definition drop_last {A} (n : nat) (l : list A) : list A := firstn (List.length l - n) l.
Definition last_opt {A} (l : list A) : option A := nth_error l (List.length l - 1).

Fixpoint assoc_get {A} (l : list (Z * A)) (k : Z) : option A :=
  match l with
  | [] => None
  | (k', v) :: r => if k' =? k then Some v else assoc_get r k
  end.
Fixpoint assoc_set {A} (l : list (Z * A)) (k : Z) (v : A) : list (Z * A) :=
  match l with
  | [] => [(k, v)]
  | (k', w) :: r => if k' =? k then (k, v) :: r else (k', w) :: assoc_set r k v
  end.
Definition assoc_del {A} (l : list (Z * A)) (k : Z) : list (Z * A) :=
  filter (fun e => negb (fst e =? k)) l.

Fixpoint sassoc_get (l : list (string * value)) (k : string) : option value :=
  match l with
  | [] => None
  | (k', v) :: r => if String.eqb k' k then Some v else sassoc_get r k
  end.
Fixpoint sassoc_set (l : list (string * value)) (k : string) (v : value) : list (string * value) :=
  match l with
  | [] => [(k, v)]
  | (k', w) :: r => if String.eqb k' k then (k, v) :: r else (k', w) :: sassoc_set r k v
  end.

(* ---- outcomes ---- *)
Inductive outcome (A : Type) :=
| Good (a : A)
| Abort (why : string).
Arguments Good {A} a. Arguments Abort {A} why.

Definition obind {A B} (m : outcome A) (f : A -> outcome B) : outcome B :=
  match m with Good a => f a | Abort w => Abort w end.
Notation "x <~ m ;; k" := (obind m (fun x => k)) (at level 61, m at next level, right associativity).

Definition req {A} (o : option A) (why : string) : outcome A :=
  match o with Some a => Good a | None => Abort why end.

(* ---- memory operations (memory.go) ---- *)

Definition fp_at (m : mem) (k : Z) : outcome Z :=   (* m.fp[len(m.fp)+k], k = -1 or -2 *)
  req (znth (m_fp m) (zlen (m_fp m) + k)) "fp index out of range".

(* growStack; reports whether the slice grew *)
Definition growStack (m : mem) (size : Z) : mem * bool :=
  if m_sp m + size >=? zlen (m_stack m) then
    ({| m_sp := m_sp m; m_fp := m_fp m; m_clos := m_clos m;
        m_stack := m_stack m ++ repeat VNil (Z.to_nat (Z.max minStackSize size));
        m_serials := m_serials m; m_cap := m_cap m; m_gen := m_gen m + 1 |}, true)
  else (m, false).

Definition with_stack (m : mem) (st : list value) (sp : Z) : mem :=
  {| m_sp := sp; m_fp := m_fp m; m_clos := m_clos m; m_stack := st; m_serials := m_serials m; m_cap := m_cap m; m_gen := m_gen m |}.

Definition stack_set (m : mem) (i : Z) (v : value) : outcome mem :=
  if (i <? 0) || (i >=? zlen (m_stack m)) then Abort "stack index out of range"
  else Good (with_stack m (zset (m_stack m) (Z.to_nat i) v) (m_sp m)).

Definition stack_get (m : mem) (i : Z) : outcome value :=
  req (znth (m_stack m) i) "stack index out of range".

Definition mPush (m : mem) (v : value) : outcome (mem * bool) :=
  let (m1, g) := growStack m 1 in
  m2 <~ stack_set m1 (m_sp m1) v ;;
  Good (with_stack m2 (m_stack m2) (m_sp m2 + 1), g).

Definition mPop (m : mem) : outcome (mem * value) :=
  let sp := m_sp m - 1 in
  v <~ stack_get m sp ;;
  Good (with_stack m (m_stack m) sp, v).

Fixpoint fill_nil (st : list value) (from : nat) (n : nat) : list value :=
  match n with
  | O => st
  | S k => fill_nil (zset st from VNil) (S from) k
  end.

Definition mPushFrame (m : mem) (argsCnt localCnt serial : Z) : outcome (mem * bool) :=
  let locals := localCnt - argsCnt in
  let (m1, g) := growStack m locals in
  if (locals >? 0) && (m_sp m1 + locals >? zlen (m_stack m1)) then Abort "PushFrame: index out of range"
  else
    let st := fill_nil (m_stack m1) (Z.to_nat (m_sp m1)) (Z.to_nat locals) in
    let sp := m_sp m1 + locals in
    Good ({| m_sp := sp; m_fp := m_fp m1 ++ [sp - localCnt; sp]; m_clos := m_clos m1; m_stack := st;
             m_serials := m_serials m1 ++ [serial]; m_cap := m_cap m1; m_gen := m_gen m1 |}, g).

Definition mPopFrame (m : mem) : outcome mem :=
  fp <~ fp_at m (-2) ;;
  let gone := last_opt (m_serials m) in
  Good {| m_sp := fp; m_fp := drop_last 2 (m_fp m); m_clos := m_clos m; m_stack := m_stack m;
          m_serials := drop_last 1 (m_serials m);
          m_cap := match gone with
                   | Some s => filter (fun x => negb (x =? s)) (m_cap m)
                   | None => m_cap m
                   end;
          m_gen := m_gen m |}.

Definition mSet (m : mem) (ix : Z) (v : value) : outcome mem :=
  fp <~ fp_at m (-2) ;; stack_set m (fp + ix) v.

Definition mLookUpLocal (m : mem) (ix : Z) : outcome value :=
  fp <~ fp_at m (-2) ;; stack_get m (fp + ix).

Definition mCallDepth (m : mem) : Z := zlen (m_fp m) / 2.

Definition mReset (m : mem) : mem :=
  {| m_sp := 0; m_fp := []; m_clos := []; m_stack := m_stack m; m_serials := []; m_cap := []; m_gen := 0 |}.

(* Clone(nil): a fresh memory holding a copy of the top frame (with its scratch area) *)
Definition mClone (m : mem) (serial : Z) : outcome mem :=
  let newClosure := match last_opt (m_clos m) with Some f => [f] | None => [] end in
  if zlen (m_fp m) <? 2 then
    Good {| m_sp := 0; m_fp := []; m_clos := newClosure; m_stack := repeat VNil (Z.to_nat minStackSize);
            m_serials := []; m_cap := []; m_gen := 0 |}
  else
    fp <~ fp_at m (-2) ;;
    le <~ fp_at m (-1) ;;
    if (fp <? 0) || (m_sp m <? fp) || (m_sp m >? zlen (m_stack m)) then Abort "Clone: slice bounds out of range"
    else
      let size := Z.max (m_sp m - fp) minStackSize in
      let part := firstn (Z.to_nat (m_sp m - fp)) (skipn (Z.to_nat fp) (m_stack m)) in
      Good {| m_sp := m_sp m - fp; m_fp := [0; le - fp]; m_clos := newClosure;
              m_stack := part ++ repeat VNil (Z.to_nat (size - (m_sp m - fp)));
              m_serials := [serial]; m_cap := []; m_gen := 0 |}.

(* ---- the machine ---- *)

Definition get_mem (v : vm) (mid : Z) : outcome mem := req (assoc_get (v_mems v) mid) "no such memory".
Definition get_ctx (v : vm) (cid : Z) : outcome ctx := req (assoc_get (v_ctxs v) cid) "no such context".

Definition set_mem (v : vm) (mid : Z) (m : mem) (grew : bool) : vm :=
  {| v_cs := v_cs v; v_ncs := v_ncs v; v_ds := v_ds v; v_dbg := v_dbg v; v_globals := v_globals v;
     v_mems := assoc_set (v_mems v) mid m; v_ctxs := v_ctxs v; v_frames := v_frames v; v_next := v_next v;
     v_out := v_out v; v_in := v_in v; v_dead_read := v_dead_read v;
     v_grew_captured := v_grew_captured v |}.

Definition set_ctx (v : vm) (cid : Z) (c : ctx) : vm :=
  {| v_cs := v_cs v; v_ncs := v_ncs v; v_ds := v_ds v; v_dbg := v_dbg v; v_globals := v_globals v;
     v_mems := v_mems v; v_ctxs := assoc_set (v_ctxs v) cid c; v_frames := v_frames v; v_next := v_next v;
     v_out := v_out v; v_in := v_in v; v_dead_read := v_dead_read v; v_grew_captured := v_grew_captured v |}.

Definition set_globals (v : vm) (g : list (string * value)) : vm :=
  {| v_cs := v_cs v; v_ncs := v_ncs v; v_ds := v_ds v; v_dbg := v_dbg v; v_globals := g;
     v_mems := v_mems v; v_ctxs := v_ctxs v; v_frames := v_frames v; v_next := v_next v;
     v_out := v_out v; v_in := v_in v; v_dead_read := v_dead_read v; v_grew_captured := v_grew_captured v |}.

Definition bump (v : vm) : vm * Z :=
  ({| v_cs := v_cs v; v_ncs := v_ncs v; v_ds := v_ds v; v_dbg := v_dbg v; v_globals := v_globals v;
      v_mems := v_mems v; v_ctxs := v_ctxs v; v_frames := v_frames v; v_next := v_next v + 1;
      v_out := v_out v; v_in := v_in v; v_dead_read := v_dead_read v; v_grew_captured := v_grew_captured v |},
   v_next v).

Definition add_frame (v : vm) (f : framed) : vm * Z :=
  let (v1, id) := bump v in
  ({| v_cs := v_cs v1; v_ncs := v_ncs v1; v_ds := v_ds v1; v_dbg := v_dbg v1; v_globals := v_globals v1;
      v_mems := v_mems v1; v_ctxs := v_ctxs v1; v_frames := (id, f) :: v_frames v1; v_next := v_next v1;
      v_out := v_out v1; v_in := v_in v1; v_dead_read := v_dead_read v1; v_grew_captured := v_grew_captured v1 |}, id).

Definition write_out (v : vm) (s : string) : vm :=
  {| v_cs := v_cs v; v_ncs := v_ncs v; v_ds := v_ds v; v_dbg := v_dbg v; v_globals := v_globals v;
     v_mems := v_mems v; v_ctxs := v_ctxs v; v_frames := v_frames v; v_next := v_next v;
     v_out := s :: v_out v; v_in := v_in v; v_dead_read := v_dead_read v; v_grew_captured := v_grew_captured v |}.

Definition set_in (v : vm) (l : list string) : vm :=
  {| v_cs := v_cs v; v_ncs := v_ncs v; v_ds := v_ds v; v_dbg := v_dbg v; v_globals := v_globals v;
     v_mems := v_mems v; v_ctxs := v_ctxs v; v_frames := v_frames v; v_next := v_next v;
     v_out := v_out v; v_in := l; v_dead_read := v_dead_read v; v_grew_captured := v_grew_captured v |}.

Definition flag_stale (v : vm) : vm :=
  {| v_cs := v_cs v; v_ncs := v_ncs v; v_ds := v_ds v; v_dbg := v_dbg v; v_globals := v_globals v;
     v_mems := v_mems v; v_ctxs := v_ctxs v; v_frames := v_frames v; v_next := v_next v;
     v_out := v_out v; v_in := v_in v; v_dead_read := v_dead_read v; v_grew_captured := true |}.

Definition flag_dead (v : vm) : vm :=
  {| v_cs := v_cs v; v_ncs := v_ncs v; v_ds := v_ds v; v_dbg := v_dbg v; v_globals := v_globals v;
     v_mems := v_mems v; v_ctxs := v_ctxs v; v_frames := v_frames v; v_next := v_next v;
     v_out := v_out v; v_in := v_in v; v_dead_read := true; v_grew_captured := v_grew_captured v |}.

(* push / pop on the memory of a context *)
Definition vPush (v : vm) (mid : Z) (x : value) : outcome vm :=
  m <~ get_mem v mid ;;
  r <~ mPush m x ;;
  let (m', g) := r in Good (set_mem v mid m' g).

Definition vPop (v : vm) (mid : Z) : outcome (vm * value) :=
  m <~ get_mem v mid ;;
  r <~ mPop m ;;
  let (m', x) := r in Good (set_mem v mid m' false, x).

(* reading through a frame descriptor *)
Definition read_frame (v : vm) (f : framed) (ix : Z) : outcome (vm * value) :=
  match f with
  | FNone => Abort "closure frame: index out of range"
  | FOwned vals => x <~ req (znth vals ix) "closure frame: index out of range" ;; Good (v, x)
  | FAlias mid serial base len gen =>
      if (ix <? 0) || (ix >=? len) then Abort "closure frame: index out of range"
      else
        match assoc_get (v_mems v) mid with
        | None => Good (flag_dead v, VNil)
        | Some m =>
            let live := existsb (fun s => s =? serial) (m_serials m) in
            let v0 := if live then v else flag_dead v in
            (* the stack slice has grown since the frame was captured: the Go
               alias may point into the array that was left behind *)
            let v' := if m_gen m =? gen then v0 else flag_stale v0 in
            match znth (m_stack m) (base + ix) with
            | Some x => Good (v', x)
            | None => Good (flag_dead v, VNil)
            end
        end
  end.

(* the whole content of a frame, as slices.Clone copies it *)
Definition frame_content (v : vm) (f : framed) : vm * framed :=
  match f with
  | FNone => (v, FNone)
  | FOwned vals => (v, FOwned vals)
  | FAlias mid serial base len gen =>
      match assoc_get (v_mems v) mid with
      | None => (flag_dead v, FOwned (repeat VNil (Z.to_nat len)))
      | Some m =>
          let live := existsb (fun s => s =? serial) (m_serials m) in
          let vals := firstn (Z.to_nat len) (skipn (Z.to_nat base) (m_stack m)) in
          let v0 := if live then v else flag_dead v in
          ((if (m_gen m =? gen) || (len =? 0) then v0 else flag_stale v0), FOwned vals)
      end
  end.

Definition fetch (v : vm) (mid : Z) (src addr : Z) : outcome (vm * value) :=
  if src =? AddrStck then vPop v mid
  else if src =? AddrDS then x <~ req (znth (v_ds v) addr) "DS index out of range" ;; Good (v, x)
  else if src =? AddrCls then
    m <~ get_mem v mid ;;
    f <~ req (last_opt (m_clos m)) "closure stack empty" ;;
    read_frame v f addr
  else if src =? AddrLcl then
    m <~ get_mem v mid ;; x <~ mLookUpLocal m addr ;; Good (v, x)
  else if src =? AddrGbl then
    n <~ req (znth (v_ds v) addr) "DS index out of range" ;;
    match n with
    | VStr name => Good (v, match sassoc_get (v_globals v) name with Some x => x | None => VNil end)
    | _ => Abort "unknown global"
    end
  else Abort "unknown source".

Definition hashContext (m : mem) (id : Z) : Z := Z.lxor (mCallDepth m * 32768) (u64 id).

(* deleteContext: the context, its descendants; their memories die *)
Fixpoint delete_ctx (fuel : nat) (v : vm) (cid : Z) : vm :=
  match fuel with
  | O => v
  | S k =>
      match assoc_get (v_ctxs v) cid with
      | None => v
      | Some c =>
          let v1 := fold_left (fun acc ch => delete_ctx k acc (snd ch)) (c_children c) v in
          let v2 := match assoc_get (v_mems v1) (c_mid c) with
                    | Some m => set_mem v1 (c_mid c) (mReset m) false
                    | None => v1
                    end in
          {| v_cs := v_cs v2; v_ncs := v_ncs v2; v_ds := v_ds v2; v_dbg := v_dbg v2; v_globals := v_globals v2;
             v_mems := v_mems v2; v_ctxs := assoc_del (v_ctxs v2) cid; v_frames := v_frames v2; v_next := v_next v2;
             v_out := v_out v2; v_in := v_in v2; v_dead_read := v_dead_read v2; v_grew_captured := v_grew_captured v2 |}
      end
  end.

Definition ctx_fuel : nat := Z.to_nat 1000.
Arguments delete_ctx : simpl never.

Definition delete_range (v : vm) (cid : Z) (lo hi : Z) : outcome vm :=
  c <~ get_ctx v cid ;;
  m <~ get_mem v (c_mid c) ;;
  let ids := map (fun i => lo + Z.of_nat i) (seq 0 (Z.to_nat (hi - lo + 1))) in
  Good (fold_left (fun acc i =>
                     let h := hashContext m i in
                     match assoc_get (v_ctxs acc) cid with
                     | None => acc
                     | Some c' =>
                         match assoc_get (c_children c') h with
                         | None => acc
                         | Some child =>
                             let acc1 := delete_ctx ctx_fuel acc child in
                             match assoc_get (v_ctxs acc1) cid with
                             | Some c'' => set_ctx acc1 cid {| c_ip := c_ip c''; c_mid := c_mid c''; c_parent := c_parent c'';
                                                               c_children := assoc_del (c_children c'') h; c_tmp := c_tmp c'' |}
                             | None => acc1
                             end
                         end
                     end) ids v).

(* ---- disassembly for reports ---- *)
Definition opcode_name (op : Z) : string :=
  let base := if op >=? TempFlag then op - TempFlag else op in
  match find (fun e => fst e =? base) opcode_names with
  | Some (_, n) =>
      if op >=? TempFlag then
        (* only the TMP forms the Go const block declares have names *)
        if existsb (fun x => x =? base) [PUSH; ADD; SUB; MUL; DIV; MOD; NOT; AND; OR; LT; GT; LE; GE; EQ; NE; LSH; RSH; FLIP; LEN]
        then n +++ "TMP" else "OpCode(" +++ itoa op +++ ")"
      else n
  | None => "OpCode(" +++ itoa op +++ ")"
  end.

Fixpoint hex_digits (n : nat) (z : Z) (acc : string) : string :=
  match n with
  | O => acc
  | S k => let d := z mod 16 in
           hex_digits k (z / 16) (sb [if d <? 10 then 48 + d else 55 + d] +++ acc)
  end.

Definition instr_string (b : Z) : string :=
  "0X" +++ hex_digits 16 b "" +++ " : " +++ opcode_name (OpCode b) +++ " "
       +++ srcString (Src2 b) (Src2Addr b) +++ srcString (Src1 b) (Src1Addr b) +++ srcString (Src0 b) (Src0Addr b).

Definition err_text (e : err) : string :=
  match e with
  | ErrNil => "nil error" | ErrType => "type error" | ErrZeroDiv => "division by zero"
  | ErrIndex => "index error" | ErrArity => "arity mismatch" | ErrConversion => "conversion error"
  | ErrRead => "read error EOF"
  end.

(* memory.DumpStack *)
Fixpoint dump_frames (fuel : nat) (m : mem) (dbg : list (Z * (string * Z))) (i : Z) : string :=
  match fuel with
  | O => ""
  | S k =>
      if i <? 0 then ""
      else
        match znth (m_fp m) i with
        | None => ""
        | Some ipAddr =>
            match znth (m_stack m) ipAddr with
            | Some (VInt ip) =>
                match assoc_get dbg ip with
                | None => "No debug info found for call. giving up" +++ sb [10]
                | Some (name, argCnt) =>
                    if i <? 1 then "corrupt frame pointer. giving up" +++ sb [10]
                    else
                      match znth (m_fp m) (i - 1) with
                      | None => ""
                      | Some fp =>
                          let argv := firstn (Z.to_nat argCnt) (skipn (Z.to_nat fp) (m_stack m)) in
                          let args := sconcat " " (map (fun p => "arg[" +++ itoa (fst p) +++ "]: " +++ abbrev fmt_float (snd p))
                                                       (combine (map Z.of_nat (seq 0 (List.length argv))) argv)) in
                          "IP: " +++ itoa ip +++ " " +++ name +++ "() args: " +++ args +++ sb [10]
                            +++ dump_frames k m dbg (i - 2)
                      end
                end
            | _ => "corrupt stack. giving up" +++ sb [10]
            end
        end
  end.

Definition dump_stack (m : mem) (dbg : list (Z * (string * Z))) : string :=
  "= stack =============================================" +++ sb [10]
    +++ dump_frames (List.length (m_fp m)) m dbg (zlen (m_fp m) - 1)
    +++ "=====================================================" +++ sb [10].

Fixpoint dump_ctx_chain (fuel : nat) (v : vm) (cid : Z) : string :=
  match fuel with
  | O => ""
  | S k =>
      match assoc_get (v_ctxs v) cid with
      | None => ""
      | Some c =>
          "memory context @" +++ sb [10] +++
          (match assoc_get (v_mems v) (c_mid c) with
           | Some m => dump_stack m (v_dbg v)
           | None => ""
           end) +++
          match c_parent c with
          | Some p => dump_ctx_chain k v p
          | None => ""
          end
      end
  end.

Definition report_text (v : vm) (cid ip : Z) (e : err) (vals : list value) : string :=
  let nl := sb [10] in
  let args := sconcat ", " (map (abbrev fmt_float) vals) in
  let start := Z.max 0 (ip - 3) in
  let stop := Z.min (v_ncs v) (ip + 3) in
  let idxs := map (fun i => start + Z.of_nat i) (seq 0 (Z.to_nat (stop - start))) in
  "RUNTIME ERROR : " +++ err_text e +++ nl +++
  String.concat "" (map (fun i =>
                           match znth (v_cs v) i with
                           | Some w =>
                               if i =? ip then "--> " +++ itoa i +++ ": " +++ instr_string w +++ "; " +++ args +++ nl
                               else "    " +++ itoa i +++ ": " +++ instr_string w +++ nl
                           | None => ""
                           end) idxs) +++
  dump_ctx_chain ctx_fuel v cid.

(* ---- results of Run ---- *)
Inductive run_result :=
| RValue (x : value)                   (* Run returned (value, nil) *)
| RError (e : err) (report : string)   (* Run returned an error after dumpStack *)
| RAbort (why : string)                (* a Go panic *)
| RExit (code : Z)                     (* os.Exit *)
| RFuel.                               (* the model ran out of steps *)

(* the reset at the end of dumpStack *)
Definition reset_after_error (v : vm) : vm :=
  (* children of main are dropped (not put on the free list); their memories die *)
  let v1 := match assoc_get (v_ctxs v) 0 with
            | Some c => fold_left (fun acc ch => delete_ctx ctx_fuel acc (snd ch)) (c_children c) v
            | None => v
            end in
  let v2 := match assoc_get (v_mems v1) 0 with
            | Some m => set_mem v1 0 (mReset m) false
            | None => v1
            end in
  match assoc_get (v_ctxs v2) 0 with
  | Some c => set_ctx v2 0 {| c_ip := v_ncs v2; c_mid := 0; c_parent := None; c_children := []; c_tmp := c_tmp c |}
  | None => v2
  end.

Record regs := { r_ctx : Z; r_ip : Z; r_tmp : value }.

Inductive stepres :=
| SNext (v : vm) (r : regs)          (* continue; ip is incremented afterwards *)
| SErr (v : vm) (cid ip : Z) (e : err) (vals : list value)
| SAbort (why : string)
| SExit (code : Z).

Definition lift (o : outcome stepres) : stepres :=
  match o with Good s => s | Abort w => SAbort w end.

Definition cur_mid (v : vm) (r : regs) : outcome Z := c <~ get_ctx v (r_ctx r) ;; Good (c_mid c).

Definition next (v : vm) (r : regs) : stepres := SNext v r.
Definition with_ip (r : regs) (ip : Z) : regs := {| r_ctx := r_ctx r; r_ip := ip; r_tmp := r_tmp r |}.
Definition with_tmp (r : regs) (t : value) : regs := {| r_ctx := r_ctx r; r_ip := r_ip r; r_tmp := t |}.

Definition unop_of (op : Z) : value -> res value :=
  if op =? NOT then Not else if op =? FLIP then Flip else Len.

Definition set_global_from_ds (v : vm) (addr : Z) (x : value) : outcome vm :=
  n <~ req (znth (v_ds v) addr) "DS index out of range" ;;
  match n with
  | VStr name => Good (set_globals v (sassoc_set (v_globals v) name x))
  | _ => Abort "unknown global"
  end.

Definition step (v : vm) (r : regs) (retResult : bool) : stepres :=
  lift (
  instr <~ req (znth (v_cs v) (r_ip r)) "ip out of range" ;;
  mid <~ cur_mid v r ;;
  let op := OpCode instr in
  let ip := r_ip r in
  let cid := r_ctx r in
  let s0 := Src0 instr in let a0 := Src0Addr instr in
  let s1 := Src1 instr in let a1 := Src1Addr instr in
  let s2 := Src2 instr in let a2 := Src2Addr instr in
  let is_bin := is_binop op in
  let is_bin_tmp := (op >=? TempFlag) && is_binop (op - TempFlag) in
  if is_bin then
    p0 <~ fetch v mid s0 a0 ;; let (v0, x0) := p0 in
    p1 <~ fetch v0 mid s1 a1 ;; let (v1, x1) := p1 in
    match apply_binop op x1 x0 with
    | Fail e => Good (SErr v1 cid ip e [x1; x0])
    | Ok y => v2 <~ vPush v1 mid y ;; Good (next v2 r)
    end
  else if is_bin_tmp then
    p0 <~ fetch v mid s0 a0 ;; let (v0, x0) := p0 in
    match apply_binop (op - TempFlag) (r_tmp r) x0 with
    | Fail e => Good (SErr v0 cid ip e [r_tmp r; x0])
    | Ok y => Good (next v0 (with_tmp r y))
    end
  else if op =? INC then
    p0 <~ fetch v mid s0 a0 ;; let (v0, x0) := p0 in
    match Arith ADD x0 (VInt 1) with
    | Fail e => Good (SErr v0 cid ip e [x0])
    | Ok y =>
        if s0 =? AddrLcl then
          m <~ get_mem v0 mid ;; m' <~ mSet m a0 y ;; Good (next (set_mem v0 mid m' false) r)
        else if s0 =? AddrGbl then
          v1 <~ set_global_from_ds v0 a0 y ;; Good (next v1 r)
        else Abort "unexpected dst in INC"
    end
  else if (op =? NOT) || (op =? FLIP) || (op =? LEN) then
    p0 <~ fetch v mid s0 a0 ;; let (v0, x0) := p0 in
    match unop_of op x0 with
    | Fail e => Good (SErr v0 cid ip e [x0])
    | Ok y => v1 <~ vPush v0 mid y ;; Good (next v1 r)
    end
  else if (op =? NOT + TempFlag) || (op =? FLIP + TempFlag) || (op =? LEN + TempFlag) then
    match unop_of (op - TempFlag) (r_tmp r) with
    | Fail e => Good (SErr v cid ip e [r_tmp r])
    | Ok y => Good (next v (with_tmp r y))
    end
  else if op =? IX1 then
    p0 <~ fetch v mid s0 a0 ;; let (v0, x0) := p0 in
    p1 <~ fetch v0 mid s1 a1 ;; let (v1, x1) := p1 in
    match Index1 x1 x0 with
    | Fail e => Good (SErr v1 cid ip e [x1; x0])
    | Ok y => v2 <~ vPush v1 mid y ;; Good (next v2 r)
    end
  else if op =? IX2 then
    p0 <~ fetch v mid s0 a0 ;; let (v0, x0) := p0 in
    p1 <~ fetch v0 mid s1 a1 ;; let (v1, x1) := p1 in
    p2 <~ fetch v1 mid s2 a2 ;; let (v2, x2) := p2 in
    match Index2 x2 x1 x0 with
    | Fail e => Good (SErr v2 cid ip e [x2; x1; x0])
    | Ok y => v3 <~ vPush v2 mid y ;; Good (next v3 r)
    end
  else if op =? JMP then Good (next v (with_ip r (ip + a0 - 1)))
  else if (op =? JMPF) || (op =? JMPT) then
    p0 <~ fetch v mid s0 a0 ;; let (v0, x0) := p0 in
    match x0 with
    | VBool b =>
        if ((op =? JMPF) && negb b) || ((op =? JMPT) && b) then Good (next v0 (with_ip r (ip + a1 - 1)))
        else Good (next v0 r)
    | VNil => Good (SErr v0 cid ip ErrNil [x0])
    | _ => Good (SErr v0 cid ip ErrType [x0])
    end
  else if op =? PUSH then
    p0 <~ fetch v mid s0 a0 ;; let (v0, x0) := p0 in
    v1 <~ vPush v0 mid x0 ;; Good (next v1 r)
  else if op =? PUSHTMP then v1 <~ vPush v mid (r_tmp r) ;; Good (next v1 r)
  else if op =? POP then p <~ vPop v mid ;; Good (next (fst p) r)
  else if op =? MOV then
    p0 <~ (if s0 =? AddrTmp then Good (v, r_tmp r) else fetch v mid s0 a0) ;;
    let (v0, x0) := p0 in
    if is_nil x0 && negb (s1 =? AddrTmp) then Good (SErr v0 cid ip ErrNil [x0])
    else if s1 =? AddrLcl then
      m <~ get_mem v0 mid ;; m' <~ mSet m a1 x0 ;; Good (next (set_mem v0 mid m' false) r)
    else if s1 =? AddrGbl then v1 <~ set_global_from_ds v0 a1 x0 ;; Good (next v1 r)
    else if s1 =? AddrTmp then Good (next v0 (with_tmp r x0))
    else Abort "unexpected dst in MOV"
  else if op =? ARR then
    p0 <~ fetch v mid s0 a0 ;; let (v0, x0) := p0 in
    p1 <~ fetch v0 mid s1 a1 ;; let (v1, x1) := p1 in
    match x1 with
    | VArr l => v2 <~ vPush v1 mid (VArr (l ++ [x0])) ;; Good (next v2 r)
    | _ => Abort "cannot convert value to array"
    end
  else if op =? FUNC then
    p0 <~ fetch v mid s0 a0 ;; let (v0, x0) := p0 in
    match x0 with
    | VFun morph _ =>
        m <~ get_mem v0 mid ;;
        let (frame, m') :=
          if zlen (m_fp m) <? 1 then (FNone, m)
          else match znth (m_fp m) (zlen (m_fp m) - 2), znth (m_fp m) (zlen (m_fp m) - 1), last_opt (m_serials m) with
               | Some fp, Some le, Some ser =>
                   (FAlias mid ser fp (le - fp) (m_gen m),
                    {| m_sp := m_sp m; m_fp := m_fp m; m_clos := m_clos m; m_stack := m_stack m;
                       m_serials := m_serials m; m_cap := ser :: filter (fun x => negb (x =? ser)) (m_cap m);
                       m_gen := m_gen m |})
               | _, _, _ => (FNone, m)
               end in
        let (v1, fid) := add_frame (set_mem v0 mid m' false) frame in
        v2 <~ vPush v1 mid (VFun morph fid) ;; Good (next v2 r)
    | _ => Abort "type is not a function"
    end
  else if op =? CALL then
    p0 <~ fetch v mid s0 a0 ;; let (v0, f) := p0 in
    match f with
    | VFun morph fid =>
        if negb (fn_params morph =? a1) then Good (SErr v0 cid ip ErrArity [f])
        else
          fr <~ req (assoc_get (v_frames v0) fid) "nil closure frame pointer" ;;
          let (v1, ser) := bump v0 in
          m <~ get_mem v1 mid ;;
          pm <~ mPushFrame m a1 (fn_locals morph) ser ;;
          let (m1, g1) := pm in
          let m2 := {| m_sp := m_sp m1; m_fp := m_fp m1; m_clos := m_clos m1 ++ [fr]; m_stack := m_stack m1;
                       m_serials := m_serials m1; m_cap := m_cap m1; m_gen := m_gen m1 |} in
          v2 <~ vPush (set_mem v1 mid m2 g1) mid (VInt ip) ;;
          Good (next v2 (with_ip r (fn_node morph - 1)))
    | _ => Good (SErr v0 cid ip ErrType [f])
    end
  else if op =? RET then
    p0 <~ fetch v mid s0 a0 ;; let (v0, x0) := p0 in
    (* a returned function takes a copy of its captured frame with it *)
    pv <~ (match x0 with
           | VFun morph fid =>
               match assoc_get (v_frames v0) fid with
               | Some fr =>
                   let (va, owned) := frame_content v0 fr in
                   let (vb, nfid) := add_frame va owned in
                   Good (vb, VFun morph nfid)
               | None => Good (v0, x0)
               end
           | _ => Good (v0, x0)
           end) ;;
    let (v1, val) := pv in
    m <~ get_mem v1 mid ;;
    if zlen (m_fp m) - 1 <? 0 then
      (* top level: unwind to the end of the code *)
      let m1 := with_stack m (m_stack m) 0 in
      v2 <~ (if retResult then vPush (set_mem v1 mid m1 false) mid val else Good (set_mem v1 mid m1 false)) ;;
      Good (next v2 (with_ip r (v_ncs v2 - 1)))
    else
      le <~ fp_at m (-1) ;;
      ipv <~ stack_get m le ;;
      match ipv with
      | VInt lip =>
          m1 <~ mPopFrame m ;;
          if zlen (m_clos m1) <? 1 then Abort "PopClosure: slice bounds out of range"
          else
            let m2 := {| m_sp := m_sp m1; m_fp := m_fp m1; m_clos := drop_last 1 (m_clos m1); m_stack := m_stack m1;
                         m_serials := m_serials m1; m_cap := m_cap m1; m_gen := m_gen m1 |} in
            v2 <~ vPush (set_mem v1 mid m2 false) mid val ;;
            Good (next v2 (with_ip r lip))
      | _ => Abort "can't pop instruction pointer"
      end
  else if op =? CCONT then
    c <~ get_ctx v cid ;;
    m <~ get_mem v mid ;;
    let h := hashContext m a1 in
    let (v1, ser) := bump v in
    let (v2, nmid) := bump v1 in
    let (v3, ncid) := bump v2 in
    cm <~ mClone m ser ;;
    let v4 := set_mem v3 nmid cm false in
    let v5 := set_ctx v4 cid {| c_ip := ip + a0 - 1; c_mid := c_mid c; c_parent := c_parent c;
                                c_children := assoc_set (c_children c) h ncid; c_tmp := c_tmp c |} in
    let v6 := set_ctx v5 ncid {| c_ip := 0; c_mid := nmid; c_parent := Some cid; c_children := []; c_tmp := VNil |} in
    Good (next v6 {| r_ctx := ncid; r_ip := ip; r_tmp := r_tmp r |})
  else if op =? RCONT then
    v1 <~ delete_range v cid a0 a1 ;; Good (next v1 r)
  else if op =? DCONT then
    c <~ get_ctx v cid ;;
    let cid' := match c_parent c with Some p => p | None => cid end in
    v1 <~ delete_range v cid' a0 a1 ;;
    Good (next v1 {| r_ctx := cid'; r_ip := ip; r_tmp := r_tmp r |})
  else if op =? SCONT then
    c <~ get_ctx v cid ;;
    m <~ get_mem v mid ;;
    let v1 := set_ctx v cid {| c_ip := ip; c_mid := c_mid c; c_parent := c_parent c; c_children := c_children c; c_tmp := c_tmp c |} in
    child <~ req (assoc_get (c_children c) (hashContext m a0)) "context not found" ;;
    cc <~ get_ctx v1 child ;;
    Good (next v1 {| r_ctx := child; r_ip := c_ip cc; r_tmp := c_tmp cc |})
  else if op =? YIELD then
    p0 <~ fetch v mid s0 a0 ;; let (v0, x0) := p0 in
    c <~ get_ctx v0 cid ;;
    match c_parent c with
    | None => Good (next v0 (with_tmp r x0))
    | Some p =>
        let v1 := set_ctx v0 cid {| c_ip := ip; c_mid := c_mid c; c_parent := c_parent c; c_children := c_children c; c_tmp := x0 |} in
        pc <~ get_ctx v1 p ;;
        v2 <~ vPush v1 (c_mid pc) x0 ;;
        Good (next v2 {| r_ctx := p; r_ip := c_ip pc; r_tmp := x0 |})
    end
  else if op =? READ then
    match v_in v with
    | [] => Good (SErr v cid ip ErrRead [])
    | line :: rest => v1 <~ vPush (set_in v rest) mid (VStr line) ;; Good (next v1 r)
    end
  else if op =? WRITE then
    p0 <~ fetch v mid s0 a0 ;; let (v0, x0) := p0 in
    v1 <~ vPush (write_out v0 (to_string fmt_float x0)) mid VNil ;; Good (next v1 r)
  else if op =? ATON then
    p0 <~ fetch v mid s0 a0 ;; let (v0, x0) := p0 in
    match x0 with
    | VStr s =>
        match atoi s with
        | Some i => v1 <~ vPush v0 mid (VInt i) ;; Good (next v1 r)
        | None =>
            match parse_float s with
            | PFOk f => v1 <~ vPush v0 mid (VFloat f) ;; Good (next v1 r)
            | _ => Good (SErr v0 cid ip ErrConversion [x0])
            end
        end
    | _ => Good (SErr v0 cid ip ErrType [x0])
    end
  else if op =? TOA then
    p0 <~ fetch v mid s0 a0 ;; let (v0, x0) := p0 in
    v1 <~ vPush v0 mid (VStr (to_string fmt_float x0)) ;; Good (next v1 r)
  else if op =? EXIT then
    p0 <~ fetch v mid s0 a0 ;; let (v0, x0) := p0 in
    match x0 with
    | VInt i => Good (SExit i)
    | _ => Good (SErr v0 cid ip ErrType [x0])
    end
  else Abort "unknown opcode").

(* the Run loop *)
Fixpoint run_loop (fuel : nat) (v : vm) (r : regs) (retResult : bool) : vm * run_result :=
  match fuel with
  | O => (v, RFuel)
  | S k =>
      if r_ip r <? v_ncs v then
        match step v r retResult with
        | SNext v' r' => run_loop k v' (with_ip r' (r_ip r' + 1)) retResult
        | SErr v' cid ip e vals =>
            let rep := report_text v' cid ip e vals in
            (reset_after_error v', RError e rep)
        | SAbort w => (v, RAbort w)
        | SExit c => (v, RExit c)
        end
      else
        (* ctxp.ip = ip; return m.Pop() *)
        match assoc_get (v_ctxs v) (r_ctx r) with
        | None => (v, RAbort "no such context")
        | Some c =>
            let v1 := set_ctx v (r_ctx r) {| c_ip := r_ip r; c_mid := c_mid c; c_parent := c_parent c;
                                             c_children := c_children c; c_tmp := c_tmp c |} in
            if retResult then
              match vPop v1 (c_mid c) with
              | Good (v2, x) => (v2, RValue x)
              | Abort w => (v1, RAbort w)
              end
            else (v1, RValue VNil)
        end
  end.

Definition Run (fuel : nat) (v : vm) (retResult : bool) : vm * run_result :=
  match assoc_get (v_ctxs v) 0 with
  | None => (v, RAbort "no main context")
  | Some c => run_loop fuel v {| r_ctx := 0; r_ip := c_ip c; r_tmp := VNil |} retResult
  end.

(* vm.New over a fresh memory *)
Definition vm_new : vm :=
  {| v_cs := []; v_ncs := 0; v_ds := []; v_dbg := []; v_globals := [];
     v_mems := [(0, mem_new)];
     v_ctxs := [(0, {| c_ip := 0; c_mid := 0; c_parent := None; c_children := []; c_tmp := VNil |})];
     v_frames := []; v_next := 1; v_out := []; v_in := [];
     v_dead_read := false; v_grew_captured := false |}.

(* the VM shares the compilation result: reload it after every compile *)
Definition load_code (v : vm) (s : cstate) : vm :=
  {| v_cs := rev (rcs s); v_ncs := ncs s; v_ds := rev (rds s); v_dbg := dbg s; v_globals := v_globals v;
     v_mems := v_mems v; v_ctxs := v_ctxs v; v_frames := v_frames v; v_next := v_next v;
     v_out := v_out v; v_in := v_in v; v_dead_read := v_dead_read v; v_grew_captured := v_grew_captured v |}.
