(* PropC07.v — C07: parsing follows the documented grammar. (theorems to come) *)
Require Import Calc.Base Calc.Ast Calc.Lexer Calc.Grammar Calc.Printer.
