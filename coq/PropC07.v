(* PropC07.v — C07: parsing follows the documented grammar; trees round-trip
   through source text.

   Proved here, for the grammar model (Grammar.v, compared with parser.Parse on
   every run) and the documented-rules printer (Printer.v): every expression
   tree without function literals — any nesting of the 15 binary operators on
   their 5 levels, the 4 unary operators, both index forms, array literals,
   calls, parenthesised subtrees, literals and names — written out by the
   printer is parsed back to the same tree, whatever follows it, provided what
   follows cannot continue an expression; and wrapping it in redundant
   parentheses changes nothing.  The statement is at the token level: that the
   lexer model gives back exactly the printed tokens for the rendered text is
   checked per tree on every run (code 5 of chk_roundtrip), as is the round
   trip of statements, blocks and function literals on the real parser.
   For floats the hypothesis [float_ok] (the literal text converts back to the
   same float) is decided per tree. *)
Require Import Calc.Base Calc.Bytecode Calc.Value Calc.FloatText Calc.Ast Calc.Lexer Calc.Grammar Calc.Printer
        Calc.GrammarProofs.
Open Scope nat_scope.

Theorem C07_expression_round_trip : forall x rest fuel,
  wfx x = true -> follow 0 rest -> 5 * hgt x + 5 <= fuel ->
  p_expr fuel (S_ (pp x) ++ rest) = Got x rest.
Proof. exact expr_roundtrip. Qed.
Print Assumptions C07_expression_round_trip.

Theorem C07_redundant_parentheses : forall x rest fuel,
  wfx x = true -> follow 0 rest -> 5 * hgt x + 10 <= fuel ->
  p_expr fuel (S_ ([tNs "("] ++ pp x ++ [tNs ")"]) ++ rest) = Got x rest.
Proof. exact expr_roundtrip_parenthesised. Qed.
Print Assumptions C07_redundant_parentheses.

(* every operand position: an expression printed for a position that demands
   binding strength m (parenthesised by the printer when it binds less) is
   parsed back by the parser of that position *)
Theorem C07_every_operand_position : forall x m j n rest,
  wfx x = true -> 1 <= m <= 8 -> 5 * hgt x + 5 <= j ->
  follow (fl m) rest -> List.length (S_ (pp_at m x) ++ rest) < n ->
  parser_at j n m (S_ (pp_at m x) ++ rest) = Got x rest.
Proof.
  intros x m j n rest W [H1 H8] Hj Hf Hn.
  destruct (expressions_parse_back (hgt x) x (le_n _) W j) as [_ F].
  destruct (F Hj) as (Fu & _). apply (Fu m H1 H8); assumption.
Qed.
Print Assumptions C07_every_operand_position.

(* string literals: quoting then unwrapping is the identity *)
Theorem C07_string_literal_round_trip : forall s, no_backslash s = true -> wrap_string (quote s) = s.
Proof. exact wrap_quote. Qed.
Print Assumptions C07_string_literal_round_trip.

(* the hypotheses are met: a tree with every level, both index forms, a call and a list *)
Example C07_nonvacuous :
  let x := NBin "||" (NBin "<" (NBin "|" (NBin "+" (NBin "*" (NUn "-" (NIndexAt (NName "a") (NInt 1))) (NInt 2)) (NInt 3))
                                          (NIndexFromTo (NName "s") (NInt 0) (NUn "#" (NName "s"))))
                               (NCall (NName "f") [NList [NInt 1; NStr "x"]; NBool true]))
                     (NBin "-" (NInt 1) (NBin "-" (NInt 2) (NInt 3))) in
  wfx x = true /\ follow 0 [Some tNl] /\
  p_expr (5 * hgt x + 5) (S_ (pp x) ++ [Some tNl]) = Got x [Some tNl].
Proof. cbv zeta. split; [vm_compute; reflexivity|]. split; [reflexivity|vm_compute; reflexivity]. Qed.
