(* PropC07.v — C07: parsing follows the documented grammar; trees round-trip
   through source text.

   Proved here, for the grammar model (Grammar.v, compared with parser.Parse on
   every run) and the documented-rules printer (Printer.v): every expression
   tree without function literals — any nesting of the 15 binary operators on
   their 5 levels, the 4 unary operators, both index forms, array literals,
   calls, parenthesised subtrees, literals and names — written out by the
   printer is parsed back to the same tree, whatever follows it, provided what
   follows cannot continue an expression; and wrapping it in redundant
   parentheses changes nothing.  The statement is at the token level: that the
   lexer model gives back exactly the printed tokens for the rendered text is
   checked per tree on every run (code 5 of chk_roundtrip).  StmtProofs.v
   extends the round trip to every statement form (if, if-else with the
   dangling-else rule, while, for with several iterators, return, yield,
   assignment, expression statements) in every body position — one-line,
   braced because it would otherwise be ambiguous, braced block — and to a
   whole input, for trees without function literals.  Function literals are
   the one construct left to the runs on the real parser.
   For floats the hypothesis [float_ok] (the literal text converts back to the
   same float) is decided per tree. *)
Require Import Calc.Base Calc.Bytecode Calc.Value Calc.FloatText Calc.Ast Calc.Lexer Calc.Grammar Calc.Printer
        Calc.GrammarProofs Calc.StmtProofs.
Open Scope nat_scope.

Theorem C07_expression_round_trip : forall x rest fuel,
  wfx x = true -> follow 0 rest -> 5 * hgt x + 5 <= fuel ->
  p_expr fuel (S_ (pp x) ++ rest) = Got x rest.
Proof. exact expr_roundtrip. Qed.
Print Assumptions C07_expression_round_trip.

Theorem C07_redundant_parentheses : forall x rest fuel,
  wfx x = true -> follow 0 rest -> 5 * hgt x + 10 <= fuel ->
  p_expr fuel (S_ ([tNs "("] ++ pp x ++ [tNs ")"]) ++ rest) = Got x rest.
Proof. exact expr_roundtrip_parenthesised. Qed.
Print Assumptions C07_redundant_parentheses.

(* every operand position: an expression printed for a position that demands
   binding strength m (parenthesised by the printer when it binds less) is
   parsed back by the parser of that position *)
Theorem C07_every_operand_position : forall x m j n rest,
  wfx x = true -> 1 <= m <= 8 -> 5 * hgt x + 5 <= j ->
  follow (fl m) rest -> List.length (S_ (pp_at m x) ++ rest) < n ->
  parser_at j n m (S_ (pp_at m x) ++ rest) = Got x rest.
Proof.
  intros x m j n rest W [H1 H8] Hj Hf Hn.
  destruct (expressions_parse_back (hgt x) x (le_n _) W j) as [_ F].
  destruct (F Hj) as (Fu & _). apply (Fu m H1 H8); assumption.
Qed.
Print Assumptions C07_every_operand_position.

(* string literals: quoting then unwrapping is the identity *)
Theorem C07_string_literal_round_trip : forall s, no_backslash s = true -> wrap_string (quote s) = s.
Proof. exact wrap_quote. Qed.
Print Assumptions C07_string_literal_round_trip.

(* statements: what follows must not continue the last expression, must not
   be "=" and, after a statement that ends in an else-less if, must not be "else" *)
Theorem C07_statement_round_trip : forall s rest f,
  wfst s = true -> followS s rest -> need s <= f -> p_stmt f (S_ (pp s) ++ rest) = Got s rest.
Proof. intros s rest f W Hf Hn. exact (statements_parse_back s W rest f Hf Hn). Qed.
Print Assumptions C07_statement_round_trip.

(* bodies, in every form the printer may give them: a braced block, a single
   statement braced because a one-line form would be ambiguous (it starts with
   "-", "(" or "[" after an expression, or would capture a following else), or
   the one-line form; redundant braces around one statement are unwrapped *)
Theorem C07_body_round_trip : forall b g mc rest f,
  wfbd b = true -> needb b <= f ->
  (match b with NBlock _ => True | _ => raw_body g mc b = true -> followS b rest end) ->
  p_block f (S_ (pbody g mc b) ++ rest) = Got b rest.
Proof. intros b g mc rest f W Hn Hf. exact (bodies_parse_back b W g mc rest f Hn Hf). Qed.
Print Assumptions C07_body_round_trip.

Theorem C07_program_round_trip : forall b fuel,
  wfbd b = true -> needb b <= fuel ->
  p_program fuel (S_ (pbody false false b) ++ [Some tNl; Some (T KEOF "")]) = Got [b] [].
Proof. exact program_roundtrip. Qed.
Print Assumptions C07_program_round_trip.

(* non-vacuity: dangling else, an ambiguous body, a block, a for over two iterators *)
Example C07_statements_nonvacuous :
  let s := NIfElse (NBin "<" (NName "a") (NInt 1))
             (NIf (NName "c") (NAssign (NName "x") (NUn "-" (NInt 2))))
             (NBlock [NFor [NName "i"; NName "j"] [NName "p"; NList [NInt 1]] (NYield (NBin "+" (NName "i") (NName "j")));
                      NWhile (NBool true) (NUn "-" (NName "x")); NReturn (NInt 0)]) in
  wfst s = true /\
  p_program (need s + 2) (S_ (pp s) ++ [Some tNl; Some (T KEOF "")]) = Got [s] [].
Proof. cbv zeta. split; vm_compute; reflexivity. Qed.

(* the hypotheses are met: a tree with every level, both index forms, a call and a list *)
Example C07_nonvacuous :
  let x := NBin "||" (NBin "<" (NBin "|" (NBin "+" (NBin "*" (NUn "-" (NIndexAt (NName "a") (NInt 1))) (NInt 2)) (NInt 3))
                                          (NIndexFromTo (NName "s") (NInt 0) (NUn "#" (NName "s"))))
                               (NCall (NName "f") [NList [NInt 1; NStr "x"]; NBool true]))
                     (NBin "-" (NInt 1) (NBin "-" (NInt 2) (NInt 3))) in
  wfx x = true /\ follow 0 [Some tNl] /\
  p_expr (5 * hgt x + 5) (S_ (pp x) ++ [Some tNl]) = Got x [Some tNl].
Proof. cbv zeta. split; [vm_compute; reflexivity|]. split; [reflexivity|vm_compute; reflexivity]. Qed.
