(* LexerProofs.v — the lexer always makes progress (C06). *)
Require Import Calc.Base Calc.Lexer.
Open Scope Z_scope.

Lemma decode_size_pos l : l <> [] -> 1 <= snd (decode_rune l).
Proof.
  destruct l as [|b r]; [congruence|]. intros _. unfold decode_rune.
  repeat match goal with
         | |- context [if ?c then _ else _] => destruct c
         | |- context [match ?l with [] => _ | _ :: _ => _ end] => destruct l
         end; cbn; lia.
Qed.

Lemma skipn_nonempty {A} (l : list A) n : (n < List.length l)%nat -> skipn n l <> [].
Proof.
  revert n. induction l as [|x l IH]; intros [|n] H; cbn in *; try lia; try congruence.
  apply IH. lia.
Qed.

Lemma decode_size_le l : snd (decode_rune l) <= Z.of_nat (List.length l).
Proof.
  unfold decode_rune.
  repeat match goal with
         | |- context [if ?c then _ else _] => destruct c
         | |- context [match ?l with [] => _ | _ :: _ => _ end] => destruct l
         end; cbn [snd List.length]; lia.
Qed.

(* table fact: at the end of the input every state emits, reports an error,
   or gives up its pending text (advance); none just waits (that was the
   unterminated-comment hang) *)
Lemma eof_step st r :
  state_fn st EOFr = Some r -> s_err r = None -> s_emit r = false -> s_adv r = true.
Proof.
  destruct st; cbn; intros H; inversion H; subst; clear H; cbn; intros; try reflexivity; try discriminate.
Qed.

Definition lexer_wf (l : lexer) : Prop :=
  l_len l = Z.of_nat (List.length (l_input l)) /\ 0 <= l_to l /\ l_to l <= l_rdr l /\ l_rdr l <= l_len l.

(* One call of Next never runs out of steps: every iteration that does not
   return moves the cursor forward, and at the end of the input the state
   table forces a return within two iterations. *)
Lemma next_loop_progress : forall fuel l st,
  lexer_wf l ->
  (l_len l - l_to l) + 2 < Z.of_nat fuel ->
  next_loop fuel l st <> NFuel.
Proof.
  induction fuel as [|k IH]; intros l st (Hlen & Hto & Htr & Hrl) Hf; [cbn in Hf; lia|].
  cbn [next_loop].
  destruct (finished l) eqn:Fin.
  { destruct (negb (l_eof l) && negb (kind_eqb (t_kind (l_token l)) KEOL)); [discriminate|].
    destruct (negb (l_eof l)); discriminate. }
  destruct ((l_to l <? l_len l) && (l_rdr l >=? l_len l)) eqn:Dry; [discriminate|].
  destruct (Z.geb_spec (l_to l) (l_len l)) as [Hend|Hmid].
  - (* at the end of the input: EOF is fed to the state function *)
    destruct (state_fn st EOFr) as [r|] eqn:SF; [|discriminate].
    destruct (s_err r) eqn:Er; [discriminate|]. destruct (s_emit r) eqn:Em; [discriminate|].
    rewrite (eof_step st r SF Er Em).
    (* the pending text is given up: from = to = len, the next iteration is the tail *)
    destruct k as [|k']; [lia|].
    cbn [next_loop].
    assert (Fin1 : finished (with_cursor l (l_rdr l) (l_to l) (l_to l + 0)) = true).
    { unfold finished. cbn. replace (l_to l + 0) with (l_len l) by lia. replace (l_to l) with (l_len l) by lia.
      rewrite Z.eqb_refl. reflexivity. }
    rewrite Fin1.
    match goal with |- (if ?c then _ else _) <> _ => destruct c; [discriminate|] end.
    match goal with |- (if ?c then _ else _) <> _ => destruct c; discriminate end.
  - (* inside the input: a rune of size >= 1 is consumed *)
    assert (Hr : l_rdr l < l_len l).
    { destruct (Z.ltb_spec (l_to l) (l_len l)); [|lia]. cbn in Dry. destruct (Z.geb_spec (l_rdr l) (l_len l)); [discriminate|lia]. }
    destruct (decode_rune (skipn (Z.to_nat (l_rdr l)) (l_input l))) as [rn sz] eqn:D.
    assert (Hsz : 1 <= sz).
    { pose proof (decode_size_pos (skipn (Z.to_nat (l_rdr l)) (l_input l))) as P. rewrite D in P. apply P.
      apply skipn_nonempty. lia. }
    assert (Hsz2 : l_rdr l + sz <= l_len l).
    { pose proof (decode_size_le (skipn (Z.to_nat (l_rdr l)) (l_input l))) as P. rewrite D in P. cbn in P.
      rewrite skipn_length in P. lia. }
    destruct (state_fn st (if rn =? EOFr then RuneError else rn)) as [r|]; [|discriminate].
    destruct (s_err r); [discriminate|]. destruct (s_emit r); [discriminate|].
    apply IH; [unfold lexer_wf; cbn; repeat split; try assumption; lia|cbn; lia].
Qed.

Theorem lexer_next_terminates : forall l, lexer_wf l -> lexer_next l <> NFuel.
Proof.
  intros l W. unfold lexer_next. apply next_loop_progress; [exact W|].
  destruct W as (Hlen & Hto & Htr & Hrl). rewrite Z2Nat.id by lia. lia.
Qed.

Lemma new_lexer_wf input : lexer_wf (new_lexer input).
Proof. unfold lexer_wf. cbn. repeat split; lia. Qed.

(* Next keeps the lexer well formed, so every later call terminates too *)
Lemma next_loop_wf : forall fuel l st l',
  lexer_wf l -> (next_loop fuel l st = NTrue l' \/ next_loop fuel l st = NFalse l') -> lexer_wf l'.
Proof.
  induction fuel as [|k IH]; intros l st l' (Hlen & Hto & Htr & Hrl) H; [destruct H; discriminate|].
  cbn [next_loop] in H.
  destruct (finished l) eqn:Fin.
  { destruct (negb (l_eof l) && negb (kind_eqb (t_kind (l_token l)) KEOL));
      [destruct H as [H|H]; inversion H; subst; unfold lexer_wf; cbn; repeat split; assumption|].
    destruct (negb (l_eof l)); destruct H as [H|H]; inversion H; subst; unfold lexer_wf; cbn; repeat split; assumption. }
  destruct ((l_to l <? l_len l) && (l_rdr l >=? l_len l)) eqn:Dry.
  { destruct H as [H|H]; inversion H; subst; unfold lexer_wf; cbn; repeat split; assumption. }
  destruct (Z.geb_spec (l_to l) (l_len l)) as [Hend|Hmid].
  - destruct (state_fn st EOFr) as [r|]; [|destruct H; discriminate].
    destruct (s_err r); [destruct H as [H|H]; inversion H; subst; unfold lexer_wf; cbn; repeat split; assumption|].
    destruct (s_emit r); [destruct H as [H|H]; inversion H; subst; unfold lexer_wf; cbn; repeat split; try assumption; lia|].
    eapply IH; [|exact H]. unfold lexer_wf; cbn; repeat split; try assumption; lia.
  - assert (Hr : l_rdr l < l_len l).
    { destruct (Z.ltb_spec (l_to l) (l_len l)); [|lia]. cbn in Dry. destruct (Z.geb_spec (l_rdr l) (l_len l)); [discriminate|lia]. }
    destruct (decode_rune (skipn (Z.to_nat (l_rdr l)) (l_input l))) as [rn sz] eqn:D.
    assert (Hsz : 1 <= sz).
    { pose proof (decode_size_pos (skipn (Z.to_nat (l_rdr l)) (l_input l))) as P. rewrite D in P. apply P.
      apply skipn_nonempty. lia. }
    assert (Hsz2 : l_rdr l + sz <= l_len l).
    { pose proof (decode_size_le (skipn (Z.to_nat (l_rdr l)) (l_input l))) as P. rewrite D in P. cbn in P.
      rewrite skipn_length in P. lia. }
    destruct (state_fn st (if rn =? EOFr then RuneError else rn)) as [r|]; [|destruct H; discriminate].
    destruct (s_err r); [destruct H as [H|H]; inversion H; subst; unfold lexer_wf; cbn; repeat split; try assumption; lia|].
    destruct (s_emit r); [destruct H as [H|H]; inversion H; subst; unfold lexer_wf; cbn; repeat split; try assumption; lia|].
    eapply IH; [|exact H]. unfold lexer_wf; cbn; repeat split; try assumption; lia.
Qed.
