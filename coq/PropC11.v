(* PropC11.v — C11: operators obey the documented value algebra on every operand pair.
   Statements only; proofs are in ValueProofs.v and ValueLaws.v. *)
Require Import Calc.Base Calc.Bytecode Calc.Value Calc.ValueProofs Calc.ValueLaws.
From Coq Require Import SpecFloat.
Open Scope Z_scope.

(* mixed int/float arithmetic promotes to float, int/int stays int *)
Theorem C11_arith_promotes : forall op x y f g,
  is_arith op ->
  Arith op (VInt x) (VFloat f) = Ok (VFloat (float_arith op (z2f x) f)) /\
  Arith op (VFloat f) (VInt x) = Ok (VFloat (float_arith op f (z2f x))) /\
  Arith op (VFloat f) (VFloat g) = Ok (VFloat (float_arith op f g)) /\
  (~ (op = DIV /\ y = 0) -> Arith op (VInt x) (VInt y) = Ok (VInt (int_arith op x y))).
Proof. exact arith_promotes. Qed.
Print Assumptions C11_arith_promotes.

(* integer division truncates toward zero (and only MinInt / -1 wraps) *)
Theorem C11_int_div_truncates : forall x y,
  y <> 0 ->
  Arith DIV (VInt x) (VInt y) = Ok (VInt (wrap64 (Z.quot x y))) /\
  (min_int <= x <= max_int -> ~ (x = min_int /\ y = -1) -> wrap64 (Z.quot x y) = Z.quot x y).
Proof. exact int_div_truncates. Qed.
Print Assumptions C11_int_div_truncates.

Theorem C11_int_div_mod_zero : forall x,
  Arith DIV (VInt x) (VInt 0) = Fail ErrZeroDiv /\ Mod (VInt x) (VInt 0) = Fail ErrZeroDiv.
Proof. exact int_div_mod_zero. Qed.
Print Assumptions C11_int_div_mod_zero.

(* == (and !=) is symmetric on every pair of values, errors included *)
Theorem C11_eq_symmetric : forall op a b, EqOp op a b = EqOp op b a.
Proof. exact eq_symmetric. Qed.
Print Assumptions C11_eq_symmetric.

Theorem C11_ne_is_negation : forall a b,
  EqOp NE a b = match EqOp EQ a b with
                | Ok (VBool r) => Ok (VBool (negb r))
                | Ok v => Ok v
                | Fail e => Fail e
                end.
Proof. exact ne_is_negation. Qed.
Print Assumptions C11_ne_is_negation.

(* < > <= >= are mutually consistent on numbers *)
Theorem C11_rel_consistent_int : forall x y,
  int_rel LT x y = int_rel GT y x /\ int_rel LE x y = int_rel GE y x /\
  int_rel LT x y = negb (int_rel GE x y) /\ int_rel GT x y = negb (int_rel LE x y).
Proof. exact rel_consistent_int. Qed.
Print Assumptions C11_rel_consistent_int.

Theorem C11_rel_mirror : forall a b,
  Relational LT a b = Relational GT b a /\ Relational LE a b = Relational GE b a.
Proof. exact rel_mirror. Qed.
Print Assumptions C11_rel_mirror.

Theorem C11_rel_float_consistent : forall f g,
  fnotnan f -> fnotnan g ->
  float_rel LT f g = negb (float_rel GE f g) /\ float_rel GT f g = negb (float_rel LE f g).
Proof. exact rel_float_consistent. Qed.
Print Assumptions C11_rel_float_consistent.

(* an int equals the float of the same value.  The hypothesis says that the
   conversion of n is not NaN; it holds for every n (conversion never yields
   NaN) but is not proved here: partial, the hypothesis is exercised by the
   correspondence run on boundary and random integers. *)
Theorem C11_int_eq_its_float_partial : forall n,
  feq (z2f n) (z2f n) = true ->
  EqOp EQ (VInt n) (VFloat (z2f n)) = Ok (VBool true) /\ EqOp EQ (VFloat (z2f n)) (VInt n) = Ok (VBool true).
Proof. exact int_eq_its_float. Qed.
Print Assumptions C11_int_eq_its_float_partial.

Theorem C11_functions_never_equal : forall m f b,
  b <> VNil -> EqOp EQ (VFun m f) b = Ok (VBool false) /\ EqOp EQ b (VFun m f) = Ok (VBool false).
Proof. exact functions_never_equal. Qed.
Print Assumptions C11_functions_never_equal.

(* an absent (nil) operand is always an error, for every operator *)
Theorem C11_nil_operand_is_error : forall c a i j,
  is_fail (apply_binop c VNil a) /\ is_fail (apply_binop c a VNil) /\
  Flip VNil = Fail ErrNil /\ Not VNil = Fail ErrNil /\ Len VNil = Fail ErrNil /\
  is_fail (Index1 VNil i) /\ Index1 a VNil = Fail ErrNil /\
  is_fail (Index2 VNil i j) /\ Index2 a VNil j = Fail ErrNil /\
  (j = VNil -> is_fail (Index2 a i j)).
Proof. exact nil_operand_is_error. Qed.
Print Assumptions C11_nil_operand_is_error.

(* every operator on every pair of values returns a value or a documented error *)
Theorem C11_op_total : forall c a b i j,
  res_documented (apply_binop c a b) /\ res_documented (Flip a) /\ res_documented (Not a) /\
  res_documented (Len a) /\ res_documented (Index1 a i) /\ res_documented (Index2 a i j).
Proof. exact op_total. Qed.
Print Assumptions C11_op_total.

Theorem C11_slice_len : forall s i j,
  sliceable s -> 0 <= i <= j -> j <= vlen s ->
  exists r, Index2 s (VInt i) (VInt j) = Ok r /\ Len r = Ok (VInt (j - i)).
Proof. exact slice_in_bounds. Qed.
Print Assumptions C11_slice_len.

Theorem C11_slice_split_concat : forall s i,
  sliceable s -> 0 <= i <= vlen s ->
  exists a b, Index2 s (VInt 0) (VInt i) = Ok a /\ Index2 s (VInt i) (VInt (vlen s)) = Ok b /\
              Arith ADD a b = Ok s.
Proof. exact slice_split_concat. Qed.
Print Assumptions C11_slice_split_concat.

Theorem C11_len_concat : forall a b c,
  sliceable a -> Arith ADD a b = Ok c -> sliceable b /\ vlen c = vlen a + vlen b.
Proof. exact len_concat. Qed.
Print Assumptions C11_len_concat.

Theorem C11_index_error_iff : forall s i j,
  sliceable s ->
  (Index1 s (VInt i) = Fail ErrIndex <-> ~ (0 <= i < vlen s)) /\
  (0 <= i < vlen s -> exists v, Index1 s (VInt i) = Ok v) /\
  (Index2 s (VInt i) (VInt j) = Fail ErrIndex <-> ~ (0 <= i <= j /\ j <= vlen s)) /\
  (0 <= i <= j /\ j <= vlen s -> exists v, Index2 s (VInt i) (VInt j) = Ok v).
Proof. exact index_error_iff. Qed.
Print Assumptions C11_index_error_iff.

(* ---- the operator families the statement does not spell out: & | ! ~ << >> ---- *)

(* & and | give the same value or the same error whichever way round the operands are written *)
Theorem C11_logic_commutes : forall op a b, Logic op a b = Logic op b a.
Proof. exact logic_comm. Qed.
Print Assumptions C11_logic_commutes.

Theorem C11_logic_associates_bool : forall op x y z r1 r2,
  Logic op (VBool x) (VBool y) = Ok r1 -> Logic op (VBool y) (VBool z) = Ok r2 ->
  Logic op r1 (VBool z) = Logic op (VBool x) r2.
Proof. exact logic_assoc_bool. Qed.
Print Assumptions C11_logic_associates_bool.

Theorem C11_logic_associates_int : forall op x y z r1 r2,
  Logic op (VInt x) (VInt y) = Ok r1 -> Logic op (VInt y) (VInt z) = Ok r2 ->
  Logic op r1 (VInt z) = Logic op (VInt x) r2.
Proof. exact logic_assoc_int. Qed.
Print Assumptions C11_logic_associates_int.

(* ! is defined on booleans only, ~ on integers only; each undoes itself; ~ is the bitwise complement; De Morgan *)
Theorem C11_not_flip_involutive : forall a,
  (forall r, Not a = Ok r -> Not r = Ok a) /\ (forall r, Flip a = Ok r -> Flip r = Ok a) /\
  ((exists r, Not a = Ok r) <-> (exists x, a = VBool x)) /\
  ((exists r, Flip a = Ok r) <-> (exists x, a = VInt x)).
Proof.
  intros a. split; [exact (not_involutive a)|]. split; [exact (flip_involutive a)|].
  split; [exact (not_defined_iff a)|exact (flip_defined_iff a)].
Qed.
Print Assumptions C11_not_flip_involutive.

Theorem C11_de_morgan : forall x y,
  Not (VBool (x && y)) = Logic OR (VBool (negb x)) (VBool (negb y)) /\
  Not (VBool (x || y)) = Logic AND (VBool (negb x)) (VBool (negb y)).
Proof. exact de_morgan_bool. Qed.
Print Assumptions C11_de_morgan.

Theorem C11_flip_is_complement : forall x, Flip (VInt x) = Ok (VInt (Z.lnot x)).
Proof. exact flip_is_complement. Qed.
Print Assumptions C11_flip_is_complement.

(* shifts: never an error on two integers and always a 64-bit result; a count outside 0..63, negative
   counts included, gives 0 (no error: the behaviour of the pinned code, taken as defined); a zero count
   is the identity *)
Theorem C11_shift_total : forall op x y, exists r, Shift op (VInt x) (VInt y) = Ok (VInt r) /\ in_int64 r = true.
Proof. exact shift_int_total. Qed.
Print Assumptions C11_shift_total.

Theorem C11_shift_count_out_of_range : forall op x y,
  in_int64 y = true -> ~ (0 <= y < 64) -> Shift op (VInt x) (VInt y) = Ok (VInt 0).
Proof. exact shift_count_out_of_range. Qed.
Print Assumptions C11_shift_count_out_of_range.

Theorem C11_shift_zero_is_identity : forall op x, in_int64 x = true -> Shift op (VInt x) (VInt 0) = Ok (VInt x).
Proof. exact shift_zero. Qed.
Print Assumptions C11_shift_zero_is_identity.

(* + on strings and arrays associates, with the empty value as unit *)
Theorem C11_concat_associates : forall a b c ab bc,
  sliceable a -> Arith ADD a b = Ok ab -> Arith ADD b c = Ok bc -> Arith ADD ab c = Arith ADD a bc.
Proof. exact concat_assoc. Qed.
Print Assumptions C11_concat_associates.

Theorem C11_concat_unit :
  (forall s, Arith ADD (VStr s) (VStr EmptyString) = Ok (VStr s) /\ Arith ADD (VStr EmptyString) (VStr s) = Ok (VStr s)) /\
  (forall l, Arith ADD (VArr l) (VArr nil) = Ok (VArr l) /\ Arith ADD (VArr nil) (VArr l) = Ok (VArr l)).
Proof. exact concat_unit. Qed.
Print Assumptions C11_concat_unit.

(* integer + and * commute, and associate through the 64-bit wrap-around; x - x = 0 and x + 0 = x *)
Theorem C11_int_add_mul_commute : forall x y,
  Arith ADD (VInt x) (VInt y) = Arith ADD (VInt y) (VInt x) /\ Arith MUL (VInt x) (VInt y) = Arith MUL (VInt y) (VInt x).
Proof. exact int_add_mul_comm. Qed.
Print Assumptions C11_int_add_mul_commute.

Theorem C11_int_add_mul_associate : forall x y z,
  int_arith ADD (int_arith ADD x y) z = int_arith ADD x (int_arith ADD y z) /\
  int_arith MUL (int_arith MUL x y) z = int_arith MUL x (int_arith MUL y z).
Proof. intros x y z. split; [exact (int_add_assoc x y z)|exact (int_mul_assoc x y z)]. Qed.
Print Assumptions C11_int_add_mul_associate.

Theorem C11_int_sub_self_add_zero : forall x, in_int64 x = true -> int_arith SUB x x = 0 /\ int_arith ADD x 0 = x.
Proof. exact int_sub_self_add_zero. Qed.
Print Assumptions C11_int_sub_self_add_zero.

(* %: the remainder has the sign of the dividend, is smaller than the divisor in magnitude, and completes the
   truncated quotient *)
Theorem C11_mod_sign_and_bound : forall x y,
  in_int64 x = true -> in_int64 y = true -> y <> 0 ->
  exists r, Mod (VInt x) (VInt y) = Ok (VInt r) /\ r = Z.rem x y /\ Z.abs r < Z.abs y /\ 0 <= r * x /\
            x = y * Z.quot x y + r.
Proof. exact mod_sign_bound. Qed.
Print Assumptions C11_mod_sign_and_bound.

(* < on integers is a strict total order and <= its reflexive, antisymmetric, transitive closure *)
Theorem C11_int_order : forall x y z,
  int_rel LT x x = false /\ int_rel LE x x = true /\
  (int_rel LT x y = true -> int_rel LT y z = true -> int_rel LT x z = true) /\
  (int_rel LE x y = true -> int_rel LE y z = true -> int_rel LE x z = true) /\
  (int_rel LE x y = true -> int_rel LE y x = true -> x = y) /\
  (int_rel LT x y = true \/ x = y \/ int_rel GT x y = true).
Proof. exact int_order. Qed.
Print Assumptions C11_int_order.

(* which operand pairs an operator family accepts, and which error it gives on the others: the nil error if either
   operand is absent, the type error otherwise; % can in addition fail with division by zero only *)
Theorem C11_relational_defined_iff_numeric : forall op a b,
  (is_num a && is_num b = true -> exists r, Relational op a b = Ok (VBool r)) /\
  (is_num a && is_num b = false -> Relational op a b = Fail (nil_or_type a b)).
Proof. exact relational_defined. Qed.
Print Assumptions C11_relational_defined_iff_numeric.

Theorem C11_logic_defined_iff_same_kind : forall op a b,
  ((is_int a && is_int b) || (is_boolv a && is_boolv b) = true -> exists r, Logic op a b = Ok r) /\
  ((is_int a && is_int b) || (is_boolv a && is_boolv b) = false -> Logic op a b = Fail (nil_or_type a b)).
Proof. exact logic_defined. Qed.
Print Assumptions C11_logic_defined_iff_same_kind.

Theorem C11_shift_mod_errors : forall op a b,
  (is_int a && is_int b = false -> Shift op a b = Fail (nil_or_type a b) /\ Mod a b = Fail (nil_or_type a b)) /\
  (forall e, Mod a b = Fail e -> e = ErrZeroDiv \/ e = nil_or_type a b).
Proof.
  intros op a b. split.
  - intros H. split; [exact (shift_defined op a b H)|exact (proj1 (mod_defined a b) H)].
  - exact (proj2 (mod_defined a b)).
Qed.
Print Assumptions C11_shift_mod_errors.

Theorem C11_nil_or_type_error : forall a b,
  (nil_or_type a b = ErrNil <-> (a = VNil \/ b = VNil)) /\ (nil_or_type a b = ErrNil \/ nil_or_type a b = ErrType).
Proof. exact nil_or_type_cases. Qed.
Print Assumptions C11_nil_or_type_error.

(* indexing the concatenation of two arrays: below #a the element of a, from #a on the element of b *)
Theorem C11_index_of_concat : forall (a b : list value) i,
  0 <= i < Z.of_nat (List.length a + List.length b) ->
  Index1 (VArr (a ++ b)) (VInt i) =
    if i <? Z.of_nat (List.length a) then Index1 (VArr a) (VInt i)
    else Index1 (VArr b) (VInt (i - Z.of_nat (List.length a))).
Proof. exact index_concat_arr. Qed.
Print Assumptions C11_index_of_concat.

(* # is defined exactly on strings and arrays, is never negative, and fails with nil / type error otherwise *)
Theorem C11_len_defined : forall a,
  (sliceable a -> exists n, Len a = Ok (VInt n) /\ 0 <= n /\ n = vlen a) /\
  (~ sliceable a -> Len a = Fail (if is_nil a then ErrNil else ErrType)).
Proof. exact len_defined. Qed.
Print Assumptions C11_len_defined.

(* non-vacuity *)
Example C11_examples :
  Arith DIV (VInt (-7)) (VInt 2) = Ok (VInt (-3)) /\
  Mod (VInt (-7)) (VInt 2) = Ok (VInt (-1)) /\
  EqOp EQ (VInt 3) (VFloat 3%float) = Ok (VBool true) /\
  EqOp EQ (VArr [VInt 1; VStr "a"]) (VArr [VFloat 1%float; VStr "a"]) = Ok (VBool true) /\
  Index2 (VStr "apple") (VInt 1) (VInt 3) = Ok (VStr "pp") /\
  Shift RSH (VInt (-8)) (VInt 1) = Ok (VInt 9223372036854775804) /\
  Shift LSH (VInt 1) (VInt (-1)) = Ok (VInt 0) /\ Shift LSH (VInt 1) (VInt 63) = Ok (VInt (-9223372036854775808)) /\
  Logic AND (VInt 6) (VInt 3) = Ok (VInt 2) /\ Logic OR (VInt 1) VNil = Fail ErrNil /\ Flip (VInt 5) = Ok (VInt (-6)) /\
  feq (z2f 9007199254740993) (z2f 9007199254740993) = true.
Proof. repeat split; vm_compute; reflexivity. Qed.
