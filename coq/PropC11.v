(* PropC11.v — C11: operators obey the documented value algebra on every operand pair.
   Statements only; proofs are in ValueProofs.v. *)
Require Import Calc.Base Calc.Bytecode Calc.Value Calc.ValueProofs.
From Coq Require Import SpecFloat.
Open Scope Z_scope.

(* mixed int/float arithmetic promotes to float, int/int stays int *)
Theorem C11_arith_promotes : forall op x y f g,
  is_arith op ->
  Arith op (VInt x) (VFloat f) = Ok (VFloat (float_arith op (z2f x) f)) /\
  Arith op (VFloat f) (VInt x) = Ok (VFloat (float_arith op f (z2f x))) /\
  Arith op (VFloat f) (VFloat g) = Ok (VFloat (float_arith op f g)) /\
  (~ (op = DIV /\ y = 0) -> Arith op (VInt x) (VInt y) = Ok (VInt (int_arith op x y))).
Proof. exact arith_promotes. Qed.
Print Assumptions C11_arith_promotes.

(* integer division truncates toward zero (and only MinInt / -1 wraps) *)
Theorem C11_int_div_truncates : forall x y,
  y <> 0 ->
  Arith DIV (VInt x) (VInt y) = Ok (VInt (wrap64 (Z.quot x y))) /\
  (min_int <= x <= max_int -> ~ (x = min_int /\ y = -1) -> wrap64 (Z.quot x y) = Z.quot x y).
Proof. exact int_div_truncates. Qed.
Print Assumptions C11_int_div_truncates.

Theorem C11_int_div_mod_zero : forall x,
  Arith DIV (VInt x) (VInt 0) = Fail ErrZeroDiv /\ Mod (VInt x) (VInt 0) = Fail ErrZeroDiv.
Proof. exact int_div_mod_zero. Qed.
Print Assumptions C11_int_div_mod_zero.

(* == (and !=) is symmetric on every pair of values, errors included *)
Theorem C11_eq_symmetric : forall op a b, EqOp op a b = EqOp op b a.
Proof. exact eq_symmetric. Qed.
Print Assumptions C11_eq_symmetric.

Theorem C11_ne_is_negation : forall a b,
  EqOp NE a b = match EqOp EQ a b with
                | Ok (VBool r) => Ok (VBool (negb r))
                | Ok v => Ok v
                | Fail e => Fail e
                end.
Proof. exact ne_is_negation. Qed.
Print Assumptions C11_ne_is_negation.

(* < > <= >= are mutually consistent on numbers *)
Theorem C11_rel_consistent_int : forall x y,
  int_rel LT x y = int_rel GT y x /\ int_rel LE x y = int_rel GE y x /\
  int_rel LT x y = negb (int_rel GE x y) /\ int_rel GT x y = negb (int_rel LE x y).
Proof. exact rel_consistent_int. Qed.
Print Assumptions C11_rel_consistent_int.

Theorem C11_rel_mirror : forall a b,
  Relational LT a b = Relational GT b a /\ Relational LE a b = Relational GE b a.
Proof. exact rel_mirror. Qed.
Print Assumptions C11_rel_mirror.

Theorem C11_rel_float_consistent : forall f g,
  fnotnan f -> fnotnan g ->
  float_rel LT f g = negb (float_rel GE f g) /\ float_rel GT f g = negb (float_rel LE f g).
Proof. exact rel_float_consistent. Qed.
Print Assumptions C11_rel_float_consistent.

(* an int equals the float of the same value.  The hypothesis says that the
   conversion of n is not NaN; it holds for every n (conversion never yields
   NaN) but is not proved here: partial, the hypothesis is exercised by the
   correspondence run on boundary and random integers. *)
Theorem C11_int_eq_its_float_partial : forall n,
  feq (z2f n) (z2f n) = true ->
  EqOp EQ (VInt n) (VFloat (z2f n)) = Ok (VBool true) /\ EqOp EQ (VFloat (z2f n)) (VInt n) = Ok (VBool true).
Proof. exact int_eq_its_float. Qed.
Print Assumptions C11_int_eq_its_float_partial.

Theorem C11_functions_never_equal : forall m f b,
  b <> VNil -> EqOp EQ (VFun m f) b = Ok (VBool false) /\ EqOp EQ b (VFun m f) = Ok (VBool false).
Proof. exact functions_never_equal. Qed.
Print Assumptions C11_functions_never_equal.

(* an absent (nil) operand is always an error, for every operator *)
Theorem C11_nil_operand_is_error : forall c a i j,
  is_fail (apply_binop c VNil a) /\ is_fail (apply_binop c a VNil) /\
  Flip VNil = Fail ErrNil /\ Not VNil = Fail ErrNil /\ Len VNil = Fail ErrNil /\
  is_fail (Index1 VNil i) /\ Index1 a VNil = Fail ErrNil /\
  is_fail (Index2 VNil i j) /\ Index2 a VNil j = Fail ErrNil /\
  (j = VNil -> is_fail (Index2 a i j)).
Proof. exact nil_operand_is_error. Qed.
Print Assumptions C11_nil_operand_is_error.

(* every operator on every pair of values returns a value or a documented error *)
Theorem C11_op_total : forall c a b i j,
  res_documented (apply_binop c a b) /\ res_documented (Flip a) /\ res_documented (Not a) /\
  res_documented (Len a) /\ res_documented (Index1 a i) /\ res_documented (Index2 a i j).
Proof. exact op_total. Qed.
Print Assumptions C11_op_total.

Theorem C11_slice_len : forall s i j,
  sliceable s -> 0 <= i <= j -> j <= vlen s ->
  exists r, Index2 s (VInt i) (VInt j) = Ok r /\ Len r = Ok (VInt (j - i)).
Proof. exact slice_in_bounds. Qed.
Print Assumptions C11_slice_len.

Theorem C11_slice_split_concat : forall s i,
  sliceable s -> 0 <= i <= vlen s ->
  exists a b, Index2 s (VInt 0) (VInt i) = Ok a /\ Index2 s (VInt i) (VInt (vlen s)) = Ok b /\
              Arith ADD a b = Ok s.
Proof. exact slice_split_concat. Qed.
Print Assumptions C11_slice_split_concat.

Theorem C11_len_concat : forall a b c,
  sliceable a -> Arith ADD a b = Ok c -> sliceable b /\ vlen c = vlen a + vlen b.
Proof. exact len_concat. Qed.
Print Assumptions C11_len_concat.

Theorem C11_index_error_iff : forall s i j,
  sliceable s ->
  (Index1 s (VInt i) = Fail ErrIndex <-> ~ (0 <= i < vlen s)) /\
  (0 <= i < vlen s -> exists v, Index1 s (VInt i) = Ok v) /\
  (Index2 s (VInt i) (VInt j) = Fail ErrIndex <-> ~ (0 <= i <= j /\ j <= vlen s)) /\
  (0 <= i <= j /\ j <= vlen s -> exists v, Index2 s (VInt i) (VInt j) = Ok v).
Proof. exact index_error_iff. Qed.
Print Assumptions C11_index_error_iff.

(* non-vacuity *)
Example C11_examples :
  Arith DIV (VInt (-7)) (VInt 2) = Ok (VInt (-3)) /\
  Mod (VInt (-7)) (VInt 2) = Ok (VInt (-1)) /\
  EqOp EQ (VInt 3) (VFloat 3%float) = Ok (VBool true) /\
  EqOp EQ (VArr [VInt 1; VStr "a"]) (VArr [VFloat 1%float; VStr "a"]) = Ok (VBool true) /\
  Index2 (VStr "apple") (VInt 1) (VInt 3) = Ok (VStr "pp") /\
  Shift RSH (VInt (-8)) (VInt 1) = Ok (VInt 9223372036854775804) /\
  feq (z2f 9007199254740993) (z2f 9007199254740993) = true.
Proof. repeat split; vm_compute; reflexivity. Qed.
