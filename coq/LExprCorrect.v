(* LExprCorrect.v — ExprCorrect.v once more, for the expressions of function bodies: pure expressions
   over global AND local variables, run inside an activation whose variables hold L.
   The compiler is correct on pure expressions: the code
   [comp] emits for a pure expression, run by the VM model from any state,
   leaves the expression's value (as the definitional semantics computes it)
   where the returned operand says — on the stack, in the temp register, in
   the data segment or in a global — keeps the stack below, and stops with the
   same runtime error when the expression has one.  All nesting depths, all
   flag combinations, both temp-register strategies. *)
Require Import Calc.Sem.
Require Import Calc.Base Calc.Bytecode Calc.BytecodeProofs Calc.Value Calc.FloatText Calc.Ast Calc.Compile Calc.VM
        Calc.MemProofs Calc.ExprSem Calc.ExprVM Calc.ExprCorrect Calc.LExprSem.
Require Import Lia.
Open Scope Z_scope.

(* ---- inversion of the compiler monad ---- *)
Lemma cbind_ok {A B} (m : CM A) (f : A -> CM B) s r :
  cbind m f s = COk r -> exists a s1, m s = COk (a, s1) /\ f a s1 = COk r.
Proof.
  unfold cbind. destruct (m s) as [[a s1]| |]; try discriminate. intros H. eauto.
Qed.

Lemma emit_ok i s u s' : emit i s = COk (u, s') -> s' = emitted s i.
Proof. unfold emit. intros H. inversion H. reflexivity. Qed.

Lemma enc_ok sel k a s w s' : enc sel k a s = COk (w, s') -> s' = s /\ EncodeSrc sel k a = Some w.
Proof.
  unfold enc. destruct (EncodeSrc sel k a); [|destruct ((0 <=? sel) && (sel <=? 2)); discriminate].
  intros H. inversion H. auto.
Qed.

Lemma cret_ok {A} (a : A) s b s' : cret a s = COk (b, s') -> b = a /\ s' = s.
Proof. unfold cret. intros H. inversion H. auto. Qed.

Lemma add_ds_ok x s ix s' : add_ds x s = COk (ix, s') -> ix = nds s /\ s' = with_data s x.
Proof. unfold add_ds. intros H. inversion H. auto. Qed.

(* ---- compilation results and the machine that runs them ---- *)
Lemma code_at_app v n a b : code_at v n (a ++ b) -> code_at v n a /\ code_at v (n + zlen a) b.
Proof.
  intros H. split; intros i x Hi.
  - apply H. rewrite nth_error_app1; [exact Hi|]. apply nth_error_Some. congruence.
  - unfold zlen. replace (n + Z.of_nat (List.length a) + Z.of_nat i) with (n + Z.of_nat (List.length a + i)) by lia.
    apply H. rewrite nth_error_app2 by lia. replace (List.length a + i - List.length a)%nat with i by lia. exact Hi.
Qed.

Lemma code_at_cons v n i t : code_at v n (i :: t) -> znth (v_cs v) n = Some i /\ code_at v (n + 1) t.
Proof.
  intros H. split.
  - specialize (H 0%nat i eq_refl). rewrite Z.add_0_r in H. exact H.
  - intros j x Hj. replace (n + 1 + Z.of_nat j) with (n + Z.of_nat (S j)) by lia. apply H. exact Hj.
Qed.

Lemma znth_app_l {A} (l r : list A) i x : znth l i = Some x -> znth (l ++ r) i = Some x.
Proof.
  unfold znth. destruct (i <? 0); [discriminate|]. intros H.
  rewrite nth_error_app1; [exact H|]. apply nth_error_Some. congruence.
Qed.

Lemma data_at_ext v s s' d : data_at v s' -> rds s' = d ++ rds s -> data_at v s.
Proof.
  intros H E i x Hi. apply H. rewrite E, rev_app_distr. apply znth_app_l. exact Hi.
Qed.

Lemma znth_rev_cons {A} (l : list A) x : znth (rev (x :: l)) (zlen l) = Some x.
Proof.
  unfold znth, zlen. destruct (Z.ltb_spec (Z.of_nat (List.length l)) 0); [lia|].
  rewrite Nat2Z.id. cbn [rev]. rewrite nth_error_app2 by (rewrite rev_length; lia).
  rewrite rev_length, Nat.sub_diag. reflexivity.
Qed.

Section Loc.
Variable LL : list value.

(* the running activation's variables hold LL: its frame starts at fp and lies below b *)
Definition lfrb (b : Z) (m : mem) : Prop :=
  LL = [] \/ exists fp, fp_at m (-2) = Good fp /\ 0 <= fp /\ fp + zlen LL <= b /\
                       forall i x, znth LL i = Some x -> znth (m_stack m) (fp + i) = Some x.

Definition lfr (m : mem) : Prop := lfrb (m_sp m) m.

Lemma lfrb_msame b m m1 : lfrb b m -> msame b m m1 -> 0 <= b -> lfrb b m1.
Proof.
  intros [E|(fp & F & H0 & Hle & Hx)] (Ef & _ & _ & _ & T & B) Hb; [left; exact E|]. right. exists fp.
  split; [unfold fp_at in *; rewrite Ef; exact F|]. split; [exact H0|]. split; [lia|].
  intros i x Hi. rewrite <- (Hx i x Hi).
  assert (Hbi : 0 <= i < zlen LL).
  { unfold znth, zlen in *. destruct (Z.ltb_spec i 0); [discriminate Hi|]. split; [lia|].
    assert (Z.to_nat i < List.length LL)%nat by (apply nth_error_Some; congruence). lia. }
  apply (znth_firstn _ _ (Z.to_nat b)); [exact T|lia|lia].
Qed.

Lemma lfrb_weaken b b' m : lfrb b m -> b <= b' -> lfrb b' m.
Proof. intros [E|(fp & F & H0 & Hle & Hx)] Hb; [left; exact E|]. right. exists fp. repeat split; try assumption. lia. Qed.

Lemma lfr_msame m m1 : lfr m -> msame (m_sp m) m m1 -> 0 <= m_sp m -> lfr m1.
Proof.
  intros H Hm H0. unfold lfr. apply (lfrb_weaken (m_sp m)); [apply (lfrb_msame _ m); assumption|].
  destruct Hm as (_&_&_&_&_&B). lia.
Qed.

(* where the value is *)
Definition opnd (v : vm) (b : Z) (K A : Z) (x : value) (m' : mem) (r' : regs) : Prop :=
  (K = AddrStck /\ m_sp m' = b + 1 /\ znth (m_stack m') b = Some x) \/
  (K = AddrTmp /\ m_sp m' = b /\ r_tmp r' = x) \/
  (K = AddrDS /\ m_sp m' = b /\ znth (v_ds v) A = Some x) \/
  (K = AddrGbl /\ m_sp m' = b /\ exists g, znth (v_ds v) A = Some (VStr g) /\ x = gval (v_globals v) g) \/
  (K = AddrLcl /\ m_sp m' = b /\ exists fp, fp_at m' (-2) = Good fp /\ 0 <= fp + A < b /\ znth (m_stack m') (fp + A) = Some x).

Definition okind (K : Z) : Prop := K = AddrStck \/ K = AddrTmp \/ K = AddrDS \/ K = AddrGbl \/ K = AddrLcl.

Lemma okind_range K : okind K -> 0 <= K < 8.
Proof. unfold okind, AddrStck, AddrTmp, AddrDS, AddrGbl, AddrLcl. lia. Qed.

Lemma fetch_lcl v mid m A fp x :
  fp_at m (-2) = Good fp -> znth (m_stack m) (fp + A) = Some x ->
  fetch (St v mid m) mid AddrLcl A = Good (St v mid m, x).
Proof.
  intros F X. unfold fetch.
  change (AddrLcl =? AddrStck) with false. change (AddrLcl =? AddrDS) with false.
  change (AddrLcl =? AddrCls) with false. change (AddrLcl =? AddrLcl) with true. cbv iota.
  rewrite St_get. cbn [obind]. unfold mLookUpLocal. rewrite F. cbn [obind]. unfold stack_get. rewrite X. reflexivity.
Qed.

(* consuming an operand that is not the temp register *)
Lemma fetch_opnd v mid b m0 K A x m' r' :
  opnd v b K A x m' r' -> K <> AddrTmp -> msame b m0 m' ->
  exists m'', fetch (St v mid m') mid K A = Good (St v mid m'', x) /\ msame b m0 m'' /\ m_sp m'' = b.
Proof.
  intros [[-> [Hsp Hx]]|[[-> _]|[[-> [Hsp Hx]]|[[-> [Hsp [g [Hg ->]]]]|[-> [Hsp [fp [F [Hb Hx]]]]]]]]] Hk Hm.
  - exists (mdrop m'). split; [|split].
    + apply fetch_stck. rewrite Hsp. replace (b + 1 - 1) with b by lia. exact Hx.
    + apply mdrop_msame; [exact Hm|lia].
    + unfold mdrop, with_stack; cbn [m_sp]. clear - Hsp. lia.
  - contradiction.
  - exists m'. split; [apply fetch_ds; exact Hx|]. split; assumption.
  - exists m'. split; [apply fetch_gbl; exact Hg|]. split; assumption.
  - exists m'. split; [apply (fetch_lcl v mid m' A fp x F Hx)|]. split; assumption.
Qed.

(* what compiling [e] achieved *)
Definition SpecD (D : list (string * value) -> res value) (sel : Z) (fl : flags) (s s' : cstate) (w : Z) : Prop :=
  exists code K A,
    rcs s' = rev code ++ rcs s /\ ncs s' = ncs s + zlen code /\ (exists d, rds s' = d ++ rds s) /\ wfcs s' /\
    EncodeSrc sel K A = Some w /\ okind K /\
    (K = AddrTmp -> ForbidTemp fl = false) /\
    (OpDepth fl = 0 -> Discard fl = false -> AcceptTemp fl = false -> K <> AddrTmp) /\
    forall rr v mid m r,
      code_at v (ncs s) code -> data_at v s' -> cur_mid v r = Good mid ->
      0 <= m_sp m <= zlen (m_stack m) -> lfr m -> r_ip r = ncs s ->
      match D (v_globals v) with
      | Ok x => exists m' r', steps rr (List.length code) (St v mid m) r = SNext (St v mid m') r' /\
                  msame (m_sp m) m m' /\ r_ctx r' = r_ctx r /\ r_ip r' = ncs s' /\
                  (ForbidTemp fl = true -> r_tmp r' = r_tmp r) /\ opnd v (m_sp m) K A x m' r'
      | Fail err => exists me ip vals, steps rr (List.length code) (St v mid m) r = SErr (St v mid me) (r_ctx r) ip err vals
      end.

Ltac conj := repeat match goal with |- _ /\ _ => split end.

Definition Spec (e : node) := SpecD (fun G => lden LL G e).

(* ---- leaves ---- *)
Lemma const_spec x sel fl s s' w :
  wfcs s -> comp_const x sel s = COk (w, s') -> SpecD (fun _ => Ok x) sel fl s s' w.
Proof.
  intros [Hn Hd] H. unfold SpecD. unfold comp_const in H.
  apply cbind_ok in H. destruct H as [ix [s1 [H1 H2]]].
  apply add_ds_ok in H1. destruct H1 as [-> ->]. apply enc_ok in H2. destruct H2 as [-> Hw].
  exists [], AddrDS, (nds s). cbn [rev app with_data rcs ncs rds nds].
  conj; try assumption; try (unfold zlen in *; cbn [with_data rds nds rcs ncs List.length] in *; lia).
  - reflexivity.
  - exists [x]. reflexivity.
  - split; unfold zlen in *; cbn [with_data rds nds rcs ncs List.length] in *; lia.
  - right. right. left. reflexivity.
  - discriminate.
  - discriminate.
  - intros rr v mid m r _ Hdat _ Hsp Hlf Hip. exists m, r. cbn [steps].
    conj; try reflexivity; try assumption.
    + apply msame_refl. exact Hsp.
    + right. right. left. conj; try reflexivity. apply Hdat. cbn [with_data rds]. rewrite Hd. apply znth_rev_cons.
Qed.

Lemma name_spec g sel fl s s' w :
  wfcs s -> comp_ref (NName g) sel s = COk (w, s') -> Spec (NName g) sel fl s s' w.
Proof.
  intros [Hn Hd] H. unfold Spec, SpecD. cbn [comp_ref] in H.
  apply cbind_ok in H. destruct H as [ix [s1 [H1 H2]]].
  apply add_ds_ok in H1. destruct H1 as [-> ->]. apply enc_ok in H2. destruct H2 as [-> Hw].
  exists [], AddrGbl, (nds s). cbn [rev app with_data rcs ncs rds nds].
  conj; try assumption; try (unfold zlen in *; cbn [with_data rds nds rcs ncs List.length] in *; lia).
  - reflexivity.
  - exists [VStr g]. reflexivity.
  - split; unfold zlen in *; cbn [with_data rds nds rcs ncs List.length] in *; lia.
  - right. right. right. left. reflexivity.
  - discriminate.
  - discriminate.
  - intros rr v mid m r _ Hdat _ Hsp Hlf Hip. cbn [lden]. exists m, r. cbn [steps].
    conj; try reflexivity; try assumption.
    + apply msame_refl. exact Hsp.
    + right. right. right. left. conj; try reflexivity. exists g. split; [|reflexivity].
      apply Hdat. cbn [with_data rds]. rewrite Hd. apply znth_rev_cons.
Qed.

(* a local variable is an operand, not code: it is read from the frame when the operator runs *)
Lemma local_spec ix n sel fl s s' w :
  0 <= ix < zlen LL -> wfcs s -> comp_ref (NLocal ix n) sel s = COk (w, s') -> Spec (NLocal ix n) sel fl s s' w.
Proof.
  intros Hix Hwf H. unfold Spec, SpecD. cbn [comp_ref] in H. apply enc_ok in H. destruct H as [-> Hw].
  exists [], AddrLcl, ix. cbn [rev app].
  conj; try assumption; try (unfold zlen; cbn [List.length]; lia).
  - reflexivity.
  - exists []. reflexivity.
  - right. right. right. right. reflexivity.
  - discriminate.
  - discriminate.
  - intros rr v mid m r _ Hdat _ Hsp Hlf Hip. cbn [lden]. exists m, r. cbn [steps].
    conj; try reflexivity; try assumption.
    + apply msame_refl. exact Hsp.
    + right. right. right. right. conj; try reflexivity.
      destruct Hlf as [E|(fp & F & H0 & Hle & Hx)]; [rewrite E in Hix; unfold zlen in Hix; cbn in Hix; lia|].
      exists fp. conj; [exact F|lia|lia|].
      apply Hx. unfold lval.
      destruct (znth LL ix) as [x|] eqn:E; [reflexivity|].
      exfalso. unfold znth, zlen in *. destruct (Z.ltb_spec ix 0); [lia|].
      apply nth_error_None in E. lia.
Qed.

(* ---- one instruction at a time ---- *)
Lemma steps_one rr v r :
  steps rr 1 v r = match step v r rr with
                   | SNext v' r' => SNext v' (with_ip r' (r_ip r' + 1))
                   | x => x
                   end.
Proof. cbn [steps]. destruct (step v r rr); reflexivity. Qed.

Lemma tmp_neq K : K <> AddrTmp -> (K =? AddrTmp) = false.
Proof. intros H. apply Z.eqb_neq. exact H. Qed.

(* an operand below survives what happens above it *)
Lemma opnd_transfer v b K A a m1 r m2 r' :
  opnd v b K A a m1 r -> K <> AddrTmp -> msame (m_sp m1) m1 m2 -> m_sp m2 = m_sp m1 -> 0 <= b ->
  opnd v b K A a m2 r'.
Proof.
  intros [[-> [Hsp Hx]]|[[-> _]|[[-> [Hsp Hx]]|[[-> [Hsp Hg]]|[-> [Hsp [fp [F [Hfb Hx]]]]]]]]] Hk Hm Hs Hb.
  - left. conj; [reflexivity|lia|].
    destruct Hm as (_ & _ & _ & _ & T & _). rewrite <- Hx. apply (znth_firstn _ _ (Z.to_nat (m_sp m1))); [exact T|lia|lia].
  - contradiction.
  - right. right. left. conj; [reflexivity|lia|exact Hx].
  - right. right. right. left. conj; [reflexivity|lia|exact Hg].
  - right. right. right. right. conj; [reflexivity|lia|]. exists fp.
    destruct Hm as (Ef & _ & _ & _ & T & _). conj; [unfold fp_at in *; rewrite Ef; exact F|lia|lia|].
    rewrite <- Hx. apply (znth_firstn _ _ (Z.to_nat (m_sp m1))); [exact T|lia|lia].
Qed.

Section Exec.
  Variables (rr : bool) (v : vm) (mid : Z).

  (* MOV tmp <- operand *)
  Lemma exec_mov_tmp instr K A k2 a1 a2 b m0 m1 r1 x :
    at_ip v r1 mid instr ->
    decode instr = {| f_op := MOV; f_k0 := K; f_k1 := AddrTmp; f_k2 := k2; f_a0 := A; f_a1 := a1; f_a2 := a2 |} ->
    opnd v b K A x m1 r1 -> K <> AddrTmp -> msame b m0 m1 ->
    exists m2, steps rr 1 (St v mid m1) r1 = SNext (St v mid m2) (with_ip (with_tmp r1 x) (r_ip r1 + 1)) /\
               msame b m0 m2 /\ m_sp m2 = b.
  Proof.
    intros Hat Hd Ho Hk Hm.
    destruct (fetch_opnd v mid b m0 K A x m1 r1 Ho Hk Hm) as [m2 [Hf [Hm2 Hs2]]].
    exists m2. rewrite steps_one.
    rewrite (step_mov_tmp v mid m1 r1 rr instr K A k2 a1 a2 _ _ Hat Hd (tmp_neq K Hk) Hf).
    conj; [reflexivity|exact Hm2|exact Hs2].
  Qed.

  (* PUSHTMP *)
  Lemma exec_pushtmp instr k0 k1 k2 a0 a1 a2 m1 r1 :
    at_ip v r1 mid instr ->
    decode instr = {| f_op := PUSHTMP; f_k0 := k0; f_k1 := k1; f_k2 := k2; f_a0 := a0; f_a1 := a1; f_a2 := a2 |} ->
    0 <= m_sp m1 <= zlen (m_stack m1) ->
    exists m2, steps rr 1 (St v mid m1) r1 = SNext (St v mid m2) (with_ip r1 (r_ip r1 + 1)) /\
               msame (m_sp m1) m1 m2 /\ m_sp m2 = m_sp m1 + 1 /\ znth (m_stack m2) (m_sp m1) = Some (r_tmp r1).
  Proof.
    intros Hat Hd Hsp.
    destruct (vPush_St v mid m1 (r_tmp r1) Hsp) as [m2 [Hp [Hm [Hs Hx]]]].
    exists m2. rewrite steps_one, (step_pushtmp v mid m1 r1 rr instr _ _ _ _ _ _ Hat Hd), Hp.
    cbn [obind lift next]. conj; [reflexivity|exact Hm|exact Hs|exact Hx].
  Qed.

  (* tmp <- tmp op operand *)
  Lemma exec_binop_tmp instr c K A k1 k2 a1 a2 b m0 m1 r1 x :
    at_ip v r1 mid instr -> is_binop c = true ->
    decode instr = {| f_op := c + TempFlag; f_k0 := K; f_k1 := k1; f_k2 := k2; f_a0 := A; f_a1 := a1; f_a2 := a2 |} ->
    opnd v b K A x m1 r1 -> K <> AddrTmp -> msame b m0 m1 ->
    match apply_binop c (r_tmp r1) x with
    | Ok y => exists m2, steps rr 1 (St v mid m1) r1 = SNext (St v mid m2) (with_ip (with_tmp r1 y) (r_ip r1 + 1)) /\
                         msame b m0 m2 /\ m_sp m2 = b
    | Fail e => exists me vals, steps rr 1 (St v mid m1) r1 = SErr (St v mid me) (r_ctx r1) (r_ip r1) e vals
    end.
  Proof.
    intros Hat Hb Hd Ho Hk Hm.
    destruct (fetch_opnd v mid b m0 K A x m1 r1 Ho Hk Hm) as [m2 [Hf [Hm2 Hs2]]].
    rewrite steps_one, (step_binop_tmp v mid m1 r1 rr instr c _ _ _ _ _ _ Hat Hb Hd), Hf. cbn [obind].
    destruct (apply_binop c (r_tmp r1) x) as [y|e]; cbn [lift next].
    - exists m2. conj; [reflexivity|exact Hm2|exact Hs2].
    - eauto.
  Qed.

  (* push (left op right), both operands fetched *)
  Lemma exec_binop instr c K0 A0 K1 A1 k2 a2 b m0 m1 r1 m2 r2 a x :
    at_ip v r2 mid instr -> is_binop c = true ->
    decode instr = {| f_op := c; f_k0 := K0; f_k1 := K1; f_k2 := k2; f_a0 := A0; f_a1 := A1; f_a2 := a2 |} ->
    0 <= b ->
    opnd v b K1 A1 a m1 r1 -> K1 <> AddrTmp -> msame b m0 m1 ->
    opnd v (m_sp m1) K0 A0 x m2 r2 -> K0 <> AddrTmp -> msame (m_sp m1) m1 m2 ->
    match apply_binop c a x with
    | Ok y => exists m3, steps rr 1 (St v mid m2) r2 = SNext (St v mid m3) (with_ip r2 (r_ip r2 + 1)) /\
                         msame b m0 m3 /\ m_sp m3 = b + 1 /\ znth (m_stack m3) b = Some y
    | Fail e => exists me vals, steps rr 1 (St v mid m2) r2 = SErr (St v mid me) (r_ctx r2) (r_ip r2) e vals
    end.
  Proof.
    intros Hat Hb Hd Hb0 Ho1 Hk1 Hm1 Ho0 Hk0 Hm2.
    destruct (fetch_opnd v mid (m_sp m1) m1 K0 A0 x m2 r2 Ho0 Hk0 Hm2) as [m2' [Hf0 [Hm2' Hs2']]].
    pose proof (opnd_transfer v b K1 A1 a m1 r1 m2' r2 Ho1 Hk1 Hm2' Hs2' Hb0) as Ho1'.
    assert (Hm02' : msame b m0 m2').
    { apply (msame_trans b (m_sp m1) m0 m1 m2'); [destruct Hm1 as (_&_&_&_&_&B); lia|exact Hm1|exact Hm2']. }
    destruct (fetch_opnd v mid b m0 K1 A1 a m2' r2 Ho1' Hk1 Hm02') as [m2'' [Hf1 [Hm2'' Hs2'']]].
    rewrite steps_one, (step_binop v mid m2 r2 rr instr c _ _ _ _ _ _ Hat Hb Hd), Hf0. cbn [obind].
    rewrite Hf1. cbn [obind].
    destruct (apply_binop c a x) as [y|e]; cbn [lift].
    - assert (Hsp : 0 <= m_sp m2'' <= zlen (m_stack m2'')) by (destruct Hm2'' as (_&_&_&_&_&B); lia).
      destruct (vPush_St v mid m2'' y Hsp) as [m3 [Hp [Hm3 [Hs3 Hx3]]]].
      rewrite Hp. cbn [obind lift next]. exists m3. conj; [reflexivity| |lia|rewrite <- Hs2''; exact Hx3].
      apply (msame_trans b (m_sp m2'') m0 m2'' m3); [lia|exact Hm2''|exact Hm3].
    - eauto.
  Qed.

  (* push (op operand) *)
  Lemma exec_unop instr c K A k1 k2 a1 a2 b m0 m1 r1 x :
    at_ip v r1 mid instr -> is_unop c = true ->
    decode instr = {| f_op := c; f_k0 := K; f_k1 := k1; f_k2 := k2; f_a0 := A; f_a1 := a1; f_a2 := a2 |} ->
    0 <= b -> opnd v b K A x m1 r1 -> K <> AddrTmp -> msame b m0 m1 ->
    match unop_of c x with
    | Ok y => exists m3, steps rr 1 (St v mid m1) r1 = SNext (St v mid m3) (with_ip r1 (r_ip r1 + 1)) /\
                         msame b m0 m3 /\ m_sp m3 = b + 1 /\ znth (m_stack m3) b = Some y
    | Fail e => exists me vals, steps rr 1 (St v mid m1) r1 = SErr (St v mid me) (r_ctx r1) (r_ip r1) e vals
    end.
  Proof.
    intros Hat Hu Hd Hb0 Ho Hk Hm.
    destruct (fetch_opnd v mid b m0 K A x m1 r1 Ho Hk Hm) as [m2 [Hf [Hm2 Hs2]]].
    rewrite steps_one, (step_unop v mid m1 r1 rr instr c _ _ _ _ _ _ Hat Hu Hd), Hf. cbn [obind].
    destruct (unop_of c x) as [y|e]; cbn [lift].
    - assert (Hsp : 0 <= m_sp m2 <= zlen (m_stack m2)) by (destruct Hm2 as (_&_&_&_&_&B); lia).
      destruct (vPush_St v mid m2 y Hsp) as [m3 [Hp [Hm3 [Hs3 Hx3]]]].
      rewrite Hp. cbn [obind lift next]. exists m3. conj; [reflexivity| |lia|rewrite <- Hs2; exact Hx3].
      apply (msame_trans b (m_sp m2) m0 m2 m3); [lia|exact Hm2|exact Hm3].
    - eauto.
  Qed.

  (* tmp <- op tmp *)
  Lemma exec_unop_tmp instr c k0 k1 k2 a0 a1 a2 m1 r1 :
    at_ip v r1 mid instr -> is_unop c = true ->
    decode instr = {| f_op := c + TempFlag; f_k0 := k0; f_k1 := k1; f_k2 := k2; f_a0 := a0; f_a1 := a1; f_a2 := a2 |} ->
    match unop_of c (r_tmp r1) with
    | Ok y => steps rr 1 (St v mid m1) r1 = SNext (St v mid m1) (with_ip (with_tmp r1 y) (r_ip r1 + 1))
    | Fail e => exists me vals, steps rr 1 (St v mid m1) r1 = SErr (St v mid me) (r_ctx r1) (r_ip r1) e vals
    end.
  Proof.
    intros Hat Hu Hd.
    rewrite steps_one, (step_unop_tmp v mid m1 r1 rr instr c _ _ _ _ _ _ Hat Hu Hd).
    destruct (unop_of c (r_tmp r1)) as [y|e]; [reflexivity|eauto].
  Qed.

  (* PUSH operand *)
  Lemma exec_push instr K A k1 k2 a1 a2 b m0 m1 r1 x :
    at_ip v r1 mid instr ->
    decode instr = {| f_op := PUSH; f_k0 := K; f_k1 := k1; f_k2 := k2; f_a0 := A; f_a1 := a1; f_a2 := a2 |} ->
    0 <= b -> opnd v b K A x m1 r1 -> K <> AddrTmp -> msame b m0 m1 ->
    exists m3, steps rr 1 (St v mid m1) r1 = SNext (St v mid m3) (with_ip r1 (r_ip r1 + 1)) /\
               msame b m0 m3 /\ m_sp m3 = b + 1 /\ znth (m_stack m3) b = Some x.
  Proof.
    intros Hat Hd Hb0 Ho Hk Hm.
    destruct (fetch_opnd v mid b m0 K A x m1 r1 Ho Hk Hm) as [m2 [Hf [Hm2 Hs2]]].
    rewrite steps_one, (step_push v mid m1 r1 rr instr _ _ _ _ _ _ Hat Hd), Hf. cbn [obind].
    assert (Hsp : 0 <= m_sp m2 <= zlen (m_stack m2)) by (destruct Hm2 as (_&_&_&_&_&B); lia).
    destruct (vPush_St v mid m2 x Hsp) as [m3 [Hp [Hm3 [Hs3 Hx3]]]].
    rewrite Hp. cbn [obind lift next]. exists m3. conj; [reflexivity| |lia|rewrite <- Hs2; exact Hx3].
    apply (msame_trans b (m_sp m2) m0 m2 m3); [lia|exact Hm2|exact Hm3].
  Qed.
End Exec.

(* ---- running a piece of code: the value ends in the temp register / in an operand ---- *)
Definition RunsT (D : GD) (s s2 sd : cstate) (P : list Z) : Prop :=
  forall rr v mid m r,
    code_at v (ncs s) P -> data_at v sd -> cur_mid v r = Good mid ->
    0 <= m_sp m <= zlen (m_stack m) -> lfr m -> r_ip r = ncs s ->
    match D (v_globals v) with
    | Ok a => exists m1 r1, steps rr (List.length P) (St v mid m) r = SNext (St v mid m1) r1 /\
                msame (m_sp m) m m1 /\ m_sp m1 = m_sp m /\ r_tmp r1 = a /\ r_ctx r1 = r_ctx r /\ r_ip r1 = ncs s2
    | Fail err => exists me ip vals, steps rr (List.length P) (St v mid m) r = SErr (St v mid me) (r_ctx r) ip err vals
    end.

Definition RunsK (D : GD) (keep : bool) (s s2 sd : cstate) (P : list Z) (K A : Z) : Prop :=
  forall rr v mid m r,
    code_at v (ncs s) P -> data_at v sd -> cur_mid v r = Good mid ->
    0 <= m_sp m <= zlen (m_stack m) -> lfr m -> r_ip r = ncs s ->
    match D (v_globals v) with
    | Ok x => exists m' r', steps rr (List.length P) (St v mid m) r = SNext (St v mid m') r' /\
                msame (m_sp m) m m' /\ r_ctx r' = r_ctx r /\ r_ip r' = ncs s2 /\
                (keep = true -> r_tmp r' = r_tmp r) /\ opnd v (m_sp m) K A x m' r'
    | Fail err => exists me ip vals, steps rr (List.length P) (St v mid m) r = SErr (St v mid me) (r_ctx r) ip err vals
    end.

Lemma SpecD_unfold D sel fl s s' w :
  SpecD D sel fl s s' w <->
  exists code K A,
    rcs s' = rev code ++ rcs s /\ ncs s' = ncs s + zlen code /\ (exists d, rds s' = d ++ rds s) /\ wfcs s' /\
    EncodeSrc sel K A = Some w /\ okind K /\
    (K = AddrTmp -> ForbidTemp fl = false) /\
    (OpDepth fl = 0 -> Discard fl = false -> AcceptTemp fl = false -> K <> AddrTmp) /\
    RunsK D (ForbidTemp fl) s s' s' code K A.
Proof. reflexivity. Qed.

Lemma RunsK_data D keep s s2 sd sd' P K A d :
  RunsK D keep s s2 sd P K A -> rds sd' = d ++ rds sd -> RunsK D keep s s2 sd' P K A.
Proof.
  intros H E rr v mid m r Hc Hd. apply H; [exact Hc|]. apply (data_at_ext v sd sd' d Hd E).
Qed.

Lemma cur_mid_ctx v r r' : r_ctx r' = r_ctx r -> cur_mid v r' = cur_mid v r.
Proof. intros H. unfold cur_mid. rewrite H. reflexivity. Qed.

Lemma code_at_nth v n P i t :
  code_at v n (P ++ i :: t) -> znth (v_cs v) (n + zlen P) = Some i.
Proof. intros H. apply code_at_app in H. destruct H as [_ H]. apply code_at_cons in H. exact (proj1 H). Qed.

Lemma length_app1 {A} (P : list A) i : List.length (P ++ [i]) = (List.length P + 1)%nat.
Proof. rewrite app_length. reflexivity. Qed.

(* the value already is in the temp register *)
Lemma RunsK_tmp_T D keep s s2 sd P A :
  RunsK D keep s s2 sd P AddrTmp A -> RunsT D s s2 sd P.
Proof.
  intros H rr v mid m r Hc Hd Hm Hsp Hlf Hip. specialize (H rr v mid m r Hc Hd Hm Hsp Hlf Hip).
  destruct (D (v_globals v)) as [a|err]; [|exact H].
  destruct H as [m1 [r1 [Hs [Hms [Hctx [Hip1 [_ Ho]]]]]]]. exists m1, r1.
  destruct Ho as [[E _]|[[_ [Hs1 Ht]]|[[E _]|[[E _]|[E _]]]]]; try discriminate E.
  conj; assumption.
Qed.

(* MOV into the temp register after the operand's code *)
Lemma RunsK_mov_T D keep s s1 sd P K A mov k2 a1 a2 :
  RunsK D keep s s1 sd P K A -> K <> AddrTmp -> ncs s1 = ncs s + zlen P ->
  decode mov = {| f_op := MOV; f_k0 := K; f_k1 := AddrTmp; f_k2 := k2; f_a0 := A; f_a1 := a1; f_a2 := a2 |} ->
  RunsT D s (emitted s1 mov) sd (P ++ [mov]).
Proof.
  intros H Hk Hn Hd rr v mid m r Hc Hdat Hm Hsp Hlf Hip.
  pose proof (code_at_nth v (ncs s) P mov [] Hc) as Hi.
  apply code_at_app in Hc. destruct Hc as [Hc _].
  specialize (H rr v mid m r Hc Hdat Hm Hsp Hlf Hip).
  rewrite length_app1, steps_app.
  destruct (D (v_globals v)) as [a|err].
  - destruct H as [m1 [r1 [Hs [Hms [Hctx [Hip1 [_ Ho]]]]]]]. rewrite Hs.
    assert (Hat : at_ip v r1 mid mov).
    { split; [rewrite Hip1, Hn; exact Hi|rewrite (cur_mid_ctx v r r1 Hctx); exact Hm]. }
    destruct (exec_mov_tmp rr v mid mov K A k2 a1 a2 (m_sp m) m m1 r1 a Hat Hd Ho Hk Hms) as [m2 [Hs2 [Hm2 Hsp2]]].
    exists m2, (with_ip (with_tmp r1 a) (r_ip r1 + 1)). rewrite Hs2.
    conj; try assumption; try reflexivity. cbn [with_ip with_tmp r_ip emitted ncs]. lia.
  - destruct H as [v' [ip [vals Hs]]]. rewrite Hs. eauto.
Qed.

Definition dbin (c : Z) (DL DR : GD) : GD :=
  fun G => match DL G with
           | Fail e => Fail e
           | Ok a => match DR G with Fail e => Fail e | Ok b => apply_binop c a b end
           end.

(* x op x : PUSHTMP, then tmp <- tmp op pop *)
Lemma RunsT_same D c s s2 sd P ptmp opi k0 k1 k2 a0 a1 a2 k1' k2' a1' a2' :
  RunsT D s s2 sd P -> ncs s2 = ncs s + zlen P -> is_binop c = true ->
  decode ptmp = {| f_op := PUSHTMP; f_k0 := k0; f_k1 := k1; f_k2 := k2; f_a0 := a0; f_a1 := a1; f_a2 := a2 |} ->
  decode opi = {| f_op := c + TempFlag; f_k0 := AddrStck; f_k1 := k1'; f_k2 := k2'; f_a0 := 0; f_a1 := a1'; f_a2 := a2' |} ->
  RunsT (dbin c D D) s (emitted (emitted s2 ptmp) opi) sd (P ++ [ptmp; opi]).
Proof.
  intros H Hn Hb Hd1 Hd2 rr v mid m r Hc Hdat Hm Hsp Hlf Hip.
  pose proof (code_at_nth v (ncs s) P ptmp [opi] Hc) as Hi1.
  assert (Hi2 : znth (v_cs v) (ncs s + zlen P + 1) = Some opi).
  { apply code_at_app in Hc. destruct Hc as [_ Hc]. apply code_at_cons in Hc. destruct Hc as [_ Hc].
    apply code_at_cons in Hc. exact (proj1 Hc). }
  apply code_at_app in Hc. destruct Hc as [Hc _].
  specialize (H rr v mid m r Hc Hdat Hm Hsp Hlf Hip).
  rewrite app_length. cbn [List.length]. rewrite steps_app. unfold dbin.
  destruct (D (v_globals v)) as [a|err].
  - destruct H as [m1 [r1 [Hs [Hms [Hsp1 [Ht [Hctx Hip1]]]]]]]. rewrite Hs.
    change 2%nat with (1 + 1)%nat. rewrite steps_app.
    assert (Hat1 : at_ip v r1 mid ptmp).
    { split; [rewrite Hip1, Hn; exact Hi1|rewrite (cur_mid_ctx v r r1 Hctx); exact Hm]. }
    assert (Hsp1' : 0 <= m_sp m1 <= zlen (m_stack m1)) by (destruct Hms as (_&_&_&_&_&B); lia).
    destruct (exec_pushtmp rr v mid ptmp _ _ _ _ _ _ m1 r1 Hat1 Hd1 Hsp1') as [m2 [Hs2 [Hm2 [Hsp2 Hx2]]]].
    rewrite Hs2.
    set (r2 := with_ip r1 (r_ip r1 + 1)).
    assert (Hat2 : at_ip v r2 mid opi).
    { split; [unfold r2; cbn [with_ip r_ip]; rewrite Hip1, Hn; exact Hi2|].
      rewrite (cur_mid_ctx v r r2); [exact Hm|unfold r2; cbn [with_ip r_ctx]; exact Hctx]. }
    assert (Ho : opnd v (m_sp m) AddrStck 0 a m2 r2).
    { left. conj; [reflexivity|lia|]. rewrite <- Hsp1, Hx2, Ht. reflexivity. }
    assert (Hm02 : msame (m_sp m) m m2).
    { apply (msame_trans (m_sp m) (m_sp m1) m m1 m2); [lia|exact Hms|exact Hm2]. }
    pose proof (exec_binop_tmp rr v mid opi c AddrStck 0 _ _ _ _ (m_sp m) m m2 r2 a Hat2 Hb Hd2 Ho ltac:(discriminate) Hm02) as E.
    replace (r_tmp r2) with a in E by (unfold r2; cbn [with_ip r_tmp]; symmetry; exact Ht).
    destruct (apply_binop c a a) as [y|e].
    + destruct E as [m3 [Hs3 [Hm3 Hsp3]]]. rewrite Hs3.
      exists m3, (with_ip (with_tmp r2 y) (r_ip r2 + 1)).
      conj; try assumption; try reflexivity.
      unfold r2. cbn [with_ip with_tmp r_ip emitted ncs]. lia.
    + destruct E as [v' [vals E]]. rewrite E. unfold r2. cbn [with_ip r_ctx]. rewrite Hctx. eauto.
  - destruct H as [v' [ip [vals Hs]]]. rewrite Hs. eauto.
Qed.

(* tmp holds the left value; the right operand's code keeps it; tmp <- tmp op right *)
Lemma RunsT_right DL DR c s s2 s3 sd P Q K A opi k1 k2 a1 a2 :
  RunsT DL s s2 sd P -> ncs s2 = ncs s + zlen P ->
  RunsK DR true s2 s3 sd Q K A -> K <> AddrTmp -> ncs s3 = ncs s2 + zlen Q -> is_binop c = true ->
  decode opi = {| f_op := c + TempFlag; f_k0 := K; f_k1 := k1; f_k2 := k2; f_a0 := A; f_a1 := a1; f_a2 := a2 |} ->
  RunsT (dbin c DL DR) s (emitted s3 opi) sd (P ++ Q ++ [opi]).
Proof.
  intros HL Hn2 HR Hk Hn3 Hb Hd rr v mid m r Hc Hdat Hm Hsp Hlf Hip.
  assert (Hi : znth (v_cs v) (ncs s + zlen P + zlen Q) = Some opi).
  { apply code_at_app in Hc. destruct Hc as [_ Hc]. exact (code_at_nth v _ Q opi [] Hc). }
  pose proof Hc as Hc0. apply code_at_app in Hc. destruct Hc as [HcP HcQ].
  apply code_at_app in HcQ. destruct HcQ as [HcQ _].
  specialize (HL rr v mid m r HcP Hdat Hm Hsp Hlf Hip).
  rewrite app_length, steps_app. unfold dbin.
  destruct (DL (v_globals v)) as [a|err].
  - destruct HL as [m1 [r1 [Hs [Hms [Hsp1 [Ht [Hctx Hip1]]]]]]]. rewrite Hs.
    assert (Hsp1' : 0 <= m_sp m1 <= zlen (m_stack m1)) by (destruct Hms as (_&_&_&_&_&B); lia).
    rewrite <- Hn2 in HcQ.
    specialize (HR rr v mid m1 r1 HcQ Hdat).
    rewrite (cur_mid_ctx v r r1 Hctx) in HR. specialize (HR Hm Hsp1' (lfr_msame m m1 Hlf Hms (proj1 Hsp)) Hip1).
    rewrite length_app1, steps_app.
    destruct (DR (v_globals v)) as [x|err].
    + destruct HR as [m2 [r2 [Hs2 [Hm2 [Hctx2 [Hip2 [Hkeep Ho]]]]]]]. rewrite Hs2.
      assert (Hat : at_ip v r2 mid opi).
      { split; [rewrite Hip2, Hn3, Hn2; exact Hi|].
        rewrite (cur_mid_ctx v r r2); [exact Hm|congruence]. }
      rewrite Hsp1 in Ho, Hm2.
      assert (Hm02 : msame (m_sp m) m m2).
      { apply (msame_trans (m_sp m) (m_sp m) m m1 m2); [lia|exact Hms|exact Hm2]. }
      pose proof (exec_binop_tmp rr v mid opi c K A _ _ _ _ (m_sp m) m m2 r2 x Hat Hb Hd Ho Hk Hm02) as E.
      rewrite (Hkeep eq_refl), Ht in E.
      destruct (apply_binop c a x) as [y|e].
      * destruct E as [m3 [Hs3 [Hm3 Hsp3]]]. rewrite Hs3.
        exists m3, (with_ip (with_tmp r2 y) (r_ip r2 + 1)).
        conj; cbn [with_ip with_tmp r_ip r_ctx r_tmp emitted ncs];
          try assumption; try reflexivity; try congruence; try lia.
      * destruct E as [v' [vals E]]. rewrite E. replace (r_ctx r2) with (r_ctx r) by congruence. eauto.
    + destruct HR as [v' [ip [vals HR]]]. rewrite HR. rewrite Hctx. eauto.
  - destruct HL as [v' [ip [vals Hs]]]. rewrite Hs. eauto.
Qed.

(* both operands fetched by the instruction: push (left op right) *)
Lemma RunsK_plain DL DR c keep s s1 s3 sd P Q K1 A1 K0 A0 opi k2 a2 :
  RunsK DL keep s s1 sd P K1 A1 -> K1 <> AddrTmp -> ncs s1 = ncs s + zlen P ->
  RunsK DR true s1 s3 sd Q K0 A0 -> K0 <> AddrTmp -> ncs s3 = ncs s1 + zlen Q -> is_binop c = true ->
  decode opi = {| f_op := c; f_k0 := K0; f_k1 := K1; f_k2 := k2; f_a0 := A0; f_a1 := A1; f_a2 := a2 |} ->
  RunsK (dbin c DL DR) keep s (emitted s3 opi) sd (P ++ Q ++ [opi]) AddrStck 0.
Proof.
  intros HL Hk1 Hn1 HR Hk0 Hn3 Hb Hd rr v mid m r Hc Hdat Hm Hsp Hlf Hip.
  assert (Hi : znth (v_cs v) (ncs s + zlen P + zlen Q) = Some opi).
  { apply code_at_app in Hc. destruct Hc as [_ Hc]. exact (code_at_nth v _ Q opi [] Hc). }
  apply code_at_app in Hc. destruct Hc as [HcP HcQ].
  apply code_at_app in HcQ. destruct HcQ as [HcQ _].
  specialize (HL rr v mid m r HcP Hdat Hm Hsp Hlf Hip).
  rewrite app_length, steps_app. unfold dbin.
  destruct (DL (v_globals v)) as [a|err].
  - destruct HL as [m1 [r1 [Hs [Hms [Hctx [Hip1 [Hkeep1 Ho1]]]]]]]. rewrite Hs.
    assert (Hsp1' : 0 <= m_sp m1 <= zlen (m_stack m1)) by (destruct Hms as (_&_&_&_&_&B); lia).
    rewrite <- Hn1 in HcQ.
    specialize (HR rr v mid m1 r1 HcQ Hdat).
    rewrite (cur_mid_ctx v r r1 Hctx) in HR. specialize (HR Hm Hsp1' (lfr_msame m m1 Hlf Hms (proj1 Hsp)) Hip1).
    rewrite length_app1, steps_app.
    destruct (DR (v_globals v)) as [x|err].
    + destruct HR as [m2 [r2 [Hs2 [Hm2 [Hctx2 [Hip2 [Hkeep2 Ho0]]]]]]]. rewrite Hs2.
      assert (Hat : at_ip v r2 mid opi).
      { split; [rewrite Hip2, Hn3, Hn1; exact Hi|].
        rewrite (cur_mid_ctx v r r2); [exact Hm|congruence]. }
      pose proof (exec_binop rr v mid opi c K0 A0 K1 A1 _ _ (m_sp m) m m1 r1 m2 r2 a x Hat Hb Hd
                    (proj1 Hsp) Ho1 Hk1 Hms Ho0 Hk0 Hm2) as E.
      destruct (apply_binop c a x) as [y|e].
      * destruct E as [m3 [Hs3 [Hm3 [Hsp3 Hx3]]]]. rewrite Hs3.
        exists m3, (with_ip r2 (r_ip r2 + 1)).
        conj; try assumption; try reflexivity.
        -- cbn [with_ip r_ctx]. congruence.
        -- cbn [with_ip r_ip emitted ncs]. lia.
        -- intros Hk. cbn [with_ip r_tmp]. rewrite (Hkeep2 eq_refl). apply Hkeep1. exact Hk.
        -- left. conj; [reflexivity|exact Hsp3|exact Hx3].
      * destruct E as [v' [vals E]]. rewrite E. replace (r_ctx r2) with (r_ctx r) by congruence. eauto.
    + destruct HR as [v' [ip [vals HR]]]. rewrite HR. rewrite Hctx. eauto.
  - destruct HL as [v' [ip [vals Hs]]]. rewrite Hs. eauto.
Qed.

(* the result in tmp is what the caller takes / is pushed for the caller *)
Lemma RunsT_K D s s2 sd P A : RunsT D s s2 sd P -> RunsK D false s s2 sd P AddrTmp A.
Proof.
  intros H rr v mid m r Hc Hd Hm Hsp Hlf Hip. specialize (H rr v mid m r Hc Hd Hm Hsp Hlf Hip).
  destruct (D (v_globals v)) as [a|err]; [|exact H].
  destruct H as [m1 [r1 [Hs [Hms [Hsp1 [Ht [Hctx Hip1]]]]]]]. exists m1, r1.
  conj; try assumption; [discriminate|]. right. left. conj; [reflexivity|exact Hsp1|exact Ht].
Qed.

Lemma RunsT_push D s s2 sd P ptmp k0 k1 k2 a0 a1 a2 :
  RunsT D s s2 sd P -> ncs s2 = ncs s + zlen P ->
  decode ptmp = {| f_op := PUSHTMP; f_k0 := k0; f_k1 := k1; f_k2 := k2; f_a0 := a0; f_a1 := a1; f_a2 := a2 |} ->
  RunsK D false s (emitted s2 ptmp) sd (P ++ [ptmp]) AddrStck 0.
Proof.
  intros H Hn Hd rr v mid m r Hc Hdat Hm Hsp Hlf Hip.
  pose proof (code_at_nth v (ncs s) P ptmp [] Hc) as Hi.
  apply code_at_app in Hc. destruct Hc as [Hc _].
  specialize (H rr v mid m r Hc Hdat Hm Hsp Hlf Hip).
  rewrite length_app1, steps_app.
  destruct (D (v_globals v)) as [a|err].
  - destruct H as [m1 [r1 [Hs [Hms [Hsp1 [Ht [Hctx Hip1]]]]]]]. rewrite Hs.
    assert (Hat : at_ip v r1 mid ptmp).
    { split; [rewrite Hip1, Hn; exact Hi|rewrite (cur_mid_ctx v r r1 Hctx); exact Hm]. }
    assert (Hsp1' : 0 <= m_sp m1 <= zlen (m_stack m1)) by (destruct Hms as (_&_&_&_&_&B); lia).
    destruct (exec_pushtmp rr v mid ptmp _ _ _ _ _ _ m1 r1 Hat Hd Hsp1') as [m2 [Hs2 [Hm2 [Hsp2 Hx2]]]].
    rewrite Hs2. exists m2, (with_ip r1 (r_ip r1 + 1)).
    conj; try reflexivity.
    + apply (msame_trans (m_sp m) (m_sp m1) m m1 m2); [lia|exact Hms|exact Hm2].
    + exact Hctx.
    + cbn [with_ip r_ip emitted ncs]. lia.
    + discriminate.
    + left. conj; [reflexivity|lia|]. rewrite <- Hsp1, Hx2, Ht. reflexivity.
  - destruct H as [v' [ip [vals Hs]]]. rewrite Hs. eauto.
Qed.

(* ---- layout of a compilation step ---- *)
Lemma lay_refl s : lay s s [].
Proof. unfold lay. conj; [reflexivity|unfold zlen; cbn; lia|exists []; reflexivity]. Qed.

Lemma lay_emit s s1 C i : lay s s1 C -> lay s (emitted s1 i) (C ++ [i]).
Proof.
  intros (R & N & [d D]). unfold lay, emitted; cbn [rcs ncs rds]. conj.
  - rewrite rev_app_distr, R. reflexivity.
  - unfold zlen in *. rewrite app_length. cbn [List.length]. lia.
  - exists d. exact D.
Qed.

Lemma lay_trans s s1 s2 C1 C2 : lay s s1 C1 -> lay s1 s2 C2 -> lay s s2 (C1 ++ C2).
Proof.
  intros (R1 & N1 & [d1 D1]) (R2 & N2 & [d2 D2]). unfold lay. conj.
  - rewrite rev_app_distr, R2, R1, app_assoc. reflexivity.
  - unfold zlen in *. rewrite app_length. lia.
  - exists (d2 ++ d1). rewrite D2, D1, app_assoc. reflexivity.
Qed.

Lemma wfcs_emitted s i : wfcs s -> wfcs (emitted s i).
Proof. intros [A B]. unfold wfcs, emitted, zlen in *; cbn [rcs ncs rds nds List.length]. split; lia. Qed.

Lemma SpecD_lay D sel fl s s' w :
  SpecD D sel fl s s' w <->
  exists code K A,
    lay s s' code /\ wfcs s' /\ EncodeSrc sel K A = Some w /\ okind K /\
    (K = AddrTmp -> ForbidTemp fl = false) /\
    (OpDepth fl = 0 -> Discard fl = false -> AcceptTemp fl = false -> K <> AddrTmp) /\
    RunsK D (ForbidTemp fl) s s' s' code K A.
Proof.
  rewrite SpecD_unfold. unfold lay. split.
  - intros [code [K [A (H1 & H2 & H3 & H4 & H5)]]]. exists code, K, A. tauto.
  - intros [code [K [A ((H1 & H2 & H3) & H4 & H5)]]]. exists code, K, A. tauto.
Qed.

Lemma RunsT_data D s s2 sd sd' P d :
  RunsT D s s2 sd P -> rds sd' = d ++ rds sd -> RunsT D s s2 sd' P.
Proof.
  intros H E rr v mid m r Hc Hd. apply H; [exact Hc|]. apply (data_at_ext v sd sd' d Hd E).
Qed.

Lemma RunsT_ext D D' s s2 sd P : (forall G, D G = D' G) -> RunsT D s s2 sd P -> RunsT D' s s2 sd P.
Proof. intros E H rr v mid m r. rewrite <- E. apply H. Qed.

Lemma binop_opcode_is_binop op c : binop_opcode op = Some c -> is_binop c = true.
Proof.
  unfold binop_opcode. intros H.
  repeat match type of H with
         | (if ?b then _ else _) = Some _ => destruct b; [inversion H; reflexivity|]
         end.
  discriminate.
Qed.

Lemma enc_stck0 : exists w, EncodeSrc 0 AddrStck 0 = Some w.
Proof. eexists. reflexivity. Qed.

Definition compiles (comp1 : Z -> flags -> CM Z) (D : GD) : Prop :=
  forall sel fl s w s', 0 <= sel <= 2 -> wfcs s -> comp1 sel fl s = COk (w, s') -> SpecD D sel fl s s' w.

Lemma pushtmp_range : 0 <= PUSHTMP < 128. Proof. unfold PUSHTMP, TempFlag, PUSH. cbn. lia. Qed.
Lemma mov_range : 0 <= MOV < 128. Proof. unfold MOV. lia. Qed.
Lemma tmp_range : 0 <= AddrTmp < 8. Proof. unfold AddrTmp. lia. Qed.
Lemma stck_range : 0 <= AddrStck < 8. Proof. unfold AddrStck. lia. Qed.

Lemma binop_spec opname c compL compR nc same DL DR sel fl s s' w :
  binop_opcode opname = Some c -> 0 <= sel <= 2 ->
  compiles compL DL -> compiles compR DR ->
  (nc = false -> same = true -> forall G, DR G = DL G) ->
  wfcs s ->
  comp_binop opname compL compR false nc same sel fl s = COk (w, s') ->
  SpecD (dbin c DL DR) sel fl s s' w.
Proof.
  intros Hc Hsel HL HR Hsame Hwf H.
  pose proof (binop_opcode_is_binop _ _ Hc) as Hb. pose proof (is_binop_range c Hb) as Hcr.
  assert (HcT : 0 <= c + TempFlag < 128) by (unfold TempFlag; cbn; lia).
  unfold comp_binop in H. rewrite Hc in H. rewrite orb_false_r in H.
  apply cbind_ok in H. destruct H as [wl [s1 [HcL H]]].
  apply HL in HcL; [|lia|exact Hwf]. apply SpecD_lay in HcL.
  destruct HcL as [P [Kl [Al (Ll & Wl & El & Okl & Tl & _ & Xl)]]].
  cbn [ForbidTemp withOpDepth withForbidTemp pass] in Tl, Xl.
  destruct (enc_src1 Kl Al wl (okind_range Kl Okl) El) as [S1 S1a]. rewrite S1, S1a in H.
  apply cbind_ok in H. destruct H as [temp1 [s2 [Htemp H]]].
  apply cbind_ok in H. destruct H as [u [s3 [Hmid H]]].
  apply cbind_ok in H. destruct H as [temp2 [s4 [Htemp2 H]]].
  apply enc_ok in H. destruct H as [-> Ew].
  (* stage 1: where the left value is *)
  assert (Stage1 : (temp1 = true /\ ForbidTemp fl = false /\
                    exists P1, lay s s2 P1 /\ wfcs s2 /\ rds s2 = rds s1 /\ RunsT DL s s2 s1 P1) \/
                   (temp1 = false /\ s2 = s1 /\ Kl <> AddrTmp)).
  { destruct (negb (ForbidTemp fl) && (OpDepth fl >? tempifyDepth) && negb (Kl =? AddrTmp)) eqn:CA.
    - apply andb_prop in CA. destruct CA as [CA C3]. apply andb_prop in CA. destruct CA as [C1 C2].
      apply negb_true_iff in C1. apply negb_true_iff in C3. apply Z.eqb_neq in C3.
      apply cbind_ok in Htemp. destruct Htemp as [w1 [sa [Ha Htemp]]]. apply enc_ok in Ha. destruct Ha as [-> Ew1].
      apply cbind_ok in Htemp. destruct Htemp as [w0 [sb [Hb0 Htemp]]]. apply enc_ok in Hb0. destruct Hb0 as [-> Ew0].
      apply cbind_ok in Htemp. destruct Htemp as [u0 [sc [Hem Htemp]]]. apply emit_ok in Hem. subst sc.
      apply cret_ok in Htemp. destruct Htemp as [-> ->].
      left. conj; [reflexivity|exact C1|].
      exists (P ++ [Z.lor (Z.lor (New MOV) w1) w0]). conj.
      + apply lay_emit. exact Ll.
      + apply wfcs_emitted. exact Wl.
      + reflexivity.
      + apply (RunsK_mov_T DL (ForbidTemp fl) s s1 s1 P Kl Al _ 0 0 0 Xl C3 (proj1 (proj2 Ll))).
        apply (decode_op01 MOV Kl Al AddrTmp 0 w0 w1 mov_range (okind_range Kl Okl) tmp_range Ew0 Ew1).
    - apply cret_ok in Htemp. destruct Htemp as [-> ->].
      destruct (Z.eqb_spec Kl AddrTmp) as [EK|NK].
      + left. conj; [reflexivity|exact (Tl EK)|]. exists P. conj; [exact Ll|exact Wl|reflexivity|].
        rewrite EK in Xl. exact (RunsK_tmp_T DL _ s s1 s1 P Al Xl).
      + right. conj; [reflexivity|reflexivity|exact NK]. }
  (* the right operand is compiled with the temp register forbidden *)
  assert (HRk : forall sa sb wr, wfcs sa -> compR 0 (withForbidTemp true (pass fl)) sa = COk (wr, sb) ->
            exists Q Kr Ar, lay sa sb Q /\ wfcs sb /\ EncodeSrc 0 Kr Ar = Some wr /\ okind Kr /\ Kr <> AddrTmp /\
                            RunsK DR true sa sb sb Q Kr Ar).
  { intros sa sb wr Wa Hr. apply HR in Hr; [|lia|exact Wa]. apply SpecD_lay in Hr.
    destruct Hr as [Q [Kr [Ar (Lr & Wr & Er & Okr & Tr & _ & Xr)]]].
    cbn [ForbidTemp withForbidTemp] in Tr, Xr.
    exists Q, Kr, Ar. conj; try assumption. intros E. specialize (Tr E). discriminate. }
  (* stage 2: the operator *)
  assert (Stage2 : (temp1 = true /\ ForbidTemp fl = false /\
                    exists C3, lay s s3 C3 /\ wfcs s3 /\ RunsT (dbin c DL DR) s s3 s3 C3) \/
                   (temp1 = false /\
                    exists C3, lay s s3 C3 /\ wfcs s3 /\ RunsK (dbin c DL DR) (ForbidTemp fl) s s3 s3 C3 AddrStck 0)).
  { destruct Stage1 as [(-> & Hfb & P1 & L1 & W2 & D21 & X1)|(-> & -> & NK)].
    - left. conj; [reflexivity|exact Hfb|]. cbn [andb] in Hmid.
      destruct (negb nc && same) eqn:Ens.
      + (* x op x *)
        apply andb_prop in Ens. destruct Ens as [En Es]. apply negb_true_iff in En.
        apply cbind_ok in Hmid. destruct Hmid as [u1 [sa [Hem Hmid]]]. apply emit_ok in Hem. subst sa.
        apply cbind_ok in Hmid. destruct Hmid as [wst [sb [Hen Hmid]]]. apply enc_ok in Hen. destruct Hen as [-> Ewst].
        apply emit_ok in Hmid. subst s3.
        exists (P1 ++ [New PUSHTMP; Z.lor (New (Z.lor c TempFlag)) wst]). conj.
        * replace (P1 ++ [New PUSHTMP; Z.lor (New (Z.lor c TempFlag)) wst])
            with ((P1 ++ [New PUSHTMP]) ++ [Z.lor (New (Z.lor c TempFlag)) wst]) by (rewrite <- app_assoc; reflexivity).
          apply lay_emit. apply lay_emit. exact L1.
        * apply wfcs_emitted. apply wfcs_emitted. exact W2.
        * apply (RunsT_ext (dbin c DL DL)).
          { intros G. unfold dbin. rewrite (Hsame En Es G). reflexivity. }
          apply (RunsT_data _ s _ s1 _ _ []); [|cbn [emitted rds app]; exact D21].
          apply (RunsT_same DL c s s2 s1 P1 _ _ 0 0 0 0 0 0 0 0 0 0 X1 (proj1 (proj2 L1)) Hb).
          -- apply decode_op. exact pushtmp_range.
          -- rewrite (lor_tempflag c Hcr).
             apply (decode_op0 (c + TempFlag) AddrStck 0 wst HcT stck_range Ewst).
      + apply cbind_ok in Hmid. destruct Hmid as [wr [sa [Hr Hmid]]]. apply emit_ok in Hmid. subst s3.
        destruct (HRk s2 sa wr W2 Hr) as [Q [Kr [Ar (Lr & Wr & Er & Okr & NKr & Xr)]]].
        exists (P1 ++ Q ++ [Z.lor (New (Z.lor c TempFlag)) wr]). conj.
        * rewrite app_assoc. apply lay_emit. apply (lay_trans s s2 sa); assumption.
        * apply wfcs_emitted. exact Wr.
        * destruct Lr as (Rr & Nr & [dr Dr]).
          apply (RunsT_data _ s _ sa _ _ []); [|reflexivity].
          apply (RunsT_right DL DR c s s2 sa sa P1 Q Kr Ar _ 0 0 0 0).
          -- apply (RunsT_data _ s s2 s1 sa P1 dr X1). rewrite Dr, D21. reflexivity.
          -- exact (proj1 (proj2 L1)).
          -- exact Xr.
          -- exact NKr.
          -- exact Nr.
          -- exact Hb.
          -- rewrite (lor_tempflag c Hcr).
             apply (decode_op0 (c + TempFlag) Kr Ar wr HcT (okind_range Kr Okr) Er).
    - right. conj; [reflexivity|]. cbn [andb] in Hmid.
      apply cbind_ok in Hmid. destruct Hmid as [wr [sa [Hr Hmid]]]. apply emit_ok in Hmid. subst s3.
      destruct (HRk s1 sa wr Wl Hr) as [Q [Kr [Ar (Lr & Wr & Er & Okr & NKr & Xr)]]].
      exists (P ++ Q ++ [Z.lor (Z.lor (New c) wl) wr]). conj.
      + rewrite app_assoc. apply lay_emit. apply (lay_trans s s1 sa); assumption.
      + apply wfcs_emitted. exact Wr.
      + destruct Lr as (Rr & Nr & [dr Dr]).
        apply (RunsK_data _ _ s _ sa _ _ _ _ []); [|reflexivity].
        apply (RunsK_plain DL DR c (ForbidTemp fl) s s1 sa sa P Q Kl Al Kr Ar _ 0 0).
        * apply (RunsK_data _ _ s s1 s1 sa P Kl Al dr Xl Dr).
        * exact NK.
        * exact (proj1 (proj2 Ll)).
        * exact Xr.
        * exact NKr.
        * exact Nr.
        * exact Hb.
        * apply (decode_op01 c Kr Ar Kl Al wr wl ltac:(lia) (okind_range Kr Okr) (okind_range Kl Okl) Er El). }
  (* stage 3: hand the result over *)
  apply SpecD_lay.
  destruct Stage2 as [(-> & Hfb & C3 & L3 & W3 & X3)|(-> & C3 & L3 & W3 & X3)].
  - cbn [andb] in Htemp2.
    destruct ((OpDepth fl =? 0) && negb (Discard fl) && negb (AcceptTemp fl)) eqn:CT.
    + apply cbind_ok in Htemp2. destruct Htemp2 as [u2 [sa [Hem Htemp2]]]. apply emit_ok in Hem. subst sa.
      apply cret_ok in Htemp2. destruct Htemp2 as [-> ->].
      exists (C3 ++ [New PUSHTMP]), AddrStck, 0. conj.
      * apply lay_emit. exact L3.
      * apply wfcs_emitted. exact W3.
      * exact Ew.
      * left. reflexivity.
      * discriminate.
      * discriminate.
      * rewrite Hfb. apply (RunsK_data _ _ s _ s3 _ _ _ _ []); [|reflexivity].
        apply (RunsT_push _ s s3 s3 C3 _ 0 0 0 0 0 0 X3 (proj1 (proj2 L3))).
        apply decode_op. exact pushtmp_range.
    + apply cret_ok in Htemp2. destruct Htemp2 as [-> ->].
      exists C3, AddrTmp, 0. conj.
      * exact L3.
      * exact W3.
      * exact Ew.
      * right. left. reflexivity.
      * intros _. exact Hfb.
      * intros H1 H2 H3. rewrite H1, H2, H3 in CT. discriminate CT.
      * rewrite Hfb. apply RunsT_K. exact X3.
  - cbn [andb] in Htemp2. apply cret_ok in Htemp2. destruct Htemp2 as [-> ->].
    exists C3, AddrStck, 0. conj.
    + exact L3.
    + exact W3.
    + exact Ew.
    + left. reflexivity.
    + discriminate.
    + discriminate.
    + exact X3.
Qed.

(* ================= unary operators ================= *)
Definition dun (c : Z) (D : GD) : GD :=
  fun G => match D G with Fail e => Fail e | Ok a => unop_of c a end.

Lemma RunsT_unop D c s s2 sd P opi k0 k1 k2 a0 a1 a2 :
  RunsT D s s2 sd P -> ncs s2 = ncs s + zlen P -> is_unop c = true ->
  decode opi = {| f_op := c + TempFlag; f_k0 := k0; f_k1 := k1; f_k2 := k2; f_a0 := a0; f_a1 := a1; f_a2 := a2 |} ->
  RunsT (dun c D) s (emitted s2 opi) sd (P ++ [opi]).
Proof.
  intros H Hn Hu Hd rr v mid m r Hc Hdat Hm Hsp Hlf Hip.
  pose proof (code_at_nth v (ncs s) P opi [] Hc) as Hi.
  apply code_at_app in Hc. destruct Hc as [Hc _].
  specialize (H rr v mid m r Hc Hdat Hm Hsp Hlf Hip).
  rewrite length_app1, steps_app. unfold dun.
  destruct (D (v_globals v)) as [a|err].
  - destruct H as [m1 [r1 [Hs [Hms [Hsp1 [Ht [Hctx Hip1]]]]]]]. rewrite Hs.
    assert (Hat : at_ip v r1 mid opi).
    { split; [rewrite Hip1, Hn; exact Hi|rewrite (cur_mid_ctx v r r1 Hctx); exact Hm]. }
    pose proof (exec_unop_tmp rr v mid opi c _ _ _ _ _ _ m1 r1 Hat Hu Hd) as E. rewrite Ht in E.
    destruct (unop_of c a) as [y|e].
    + rewrite E. exists m1, (with_ip (with_tmp r1 y) (r_ip r1 + 1)).
      conj; cbn [with_ip with_tmp r_ip r_ctx r_tmp emitted ncs]; try assumption; try reflexivity; try lia.
    + destruct E as [v' [vals E]]. rewrite E. rewrite Hctx. eauto.
  - destruct H as [v' [ip [vals Hs]]]. rewrite Hs. eauto.
Qed.

Lemma RunsK_unop D c keep s s1 sd P K A opi k1 k2 a1 a2 :
  RunsK D keep s s1 sd P K A -> K <> AddrTmp -> ncs s1 = ncs s + zlen P -> is_unop c = true ->
  decode opi = {| f_op := c; f_k0 := K; f_k1 := k1; f_k2 := k2; f_a0 := A; f_a1 := a1; f_a2 := a2 |} ->
  RunsK (dun c D) keep s (emitted s1 opi) sd (P ++ [opi]) AddrStck 0.
Proof.
  intros H Hk Hn Hu Hd rr v mid m r Hc Hdat Hm Hsp Hlf Hip.
  pose proof (code_at_nth v (ncs s) P opi [] Hc) as Hi.
  apply code_at_app in Hc. destruct Hc as [Hc _].
  specialize (H rr v mid m r Hc Hdat Hm Hsp Hlf Hip).
  rewrite length_app1, steps_app. unfold dun.
  destruct (D (v_globals v)) as [a|err].
  - destruct H as [m1 [r1 [Hs [Hms [Hctx [Hip1 [Hkeep Ho]]]]]]]. rewrite Hs.
    assert (Hat : at_ip v r1 mid opi).
    { split; [rewrite Hip1, Hn; exact Hi|rewrite (cur_mid_ctx v r r1 Hctx); exact Hm]. }
    pose proof (exec_unop rr v mid opi c K A _ _ _ _ (m_sp m) m m1 r1 a Hat Hu Hd (proj1 Hsp) Ho Hk Hms) as E.
    destruct (unop_of c a) as [y|e].
    + destruct E as [m3 [Hs3 [Hm3 [Hsp3 Hx3]]]]. rewrite Hs3.
      exists m3, (with_ip r1 (r_ip r1 + 1)).
      conj; cbn [with_ip r_ip r_ctx r_tmp emitted ncs]; try assumption; try reflexivity; try lia.
      left. conj; [reflexivity|exact Hsp3|exact Hx3].
    + destruct E as [v' [vals E]]. rewrite E. rewrite Hctx. eauto.
  - destruct H as [v' [ip [vals Hs]]]. rewrite Hs. eauto.
Qed.

(* the code comp emits for # ! ~ applied to something that compiles *)
Definition comp_unop (oc : Z) (compT : Z -> flags -> CM Z) (srcsel : Z) (fl : flags) : CM Z :=
  let forbidTemp := ForbidTemp fl in
  let opDepth := OpDepth fl in
  target <- compT 0 (withOpDepth (opDepth + 1) (pass fl)) ;;
  let temp0 := Src0 target =? AddrTmp in
  temp1 <- (if negb forbidTemp && (opDepth >? tempifyDepth) && negb temp0 then
              w1 <- enc 1 AddrTmp 0 ;;
              emit (Z.lor (Z.lor (New MOV) w1) target) ;;; cret true
            else cret temp0) ;;
  emit (if temp1 then New (Z.lor oc TempFlag) else Z.lor (New oc) target) ;;;
  temp2 <- (if temp1 && (opDepth =? 0) && negb (Discard fl) && negb (AcceptTemp fl) then
              emit (New PUSHTMP) ;;; cret false
            else cret temp1) ;;
  enc srcsel (if temp2 then AddrTmp else AddrStck) 0.

Lemma unop_spec oc compT DT sel fl s s' w :
  is_unop oc = true -> 0 <= sel <= 2 -> compiles compT DT -> wfcs s ->
  comp_unop oc compT sel fl s = COk (w, s') ->
  SpecD (dun oc DT) sel fl s s' w.
Proof.
  intros Hu Hsel HT Hwf H.
  pose proof (is_unop_range oc Hu) as Hcr.
  assert (HcT : 0 <= oc + TempFlag < 128) by (unfold TempFlag; cbn; lia).
  unfold comp_unop in H.
  apply cbind_ok in H. destruct H as [wt [s1 [HcT0 H]]].
  apply HT in HcT0; [|lia|exact Hwf]. apply SpecD_lay in HcT0.
  destruct HcT0 as [P [Kt [At (Lt & Wt & Et & Okt & Tt & _ & Xt)]]].
  cbn [ForbidTemp withOpDepth pass] in Tt, Xt.
  destruct (enc_src0 Kt At wt (okind_range Kt Okt) Et) as [S0 S0a]. rewrite S0 in H.
  apply cbind_ok in H. destruct H as [temp1 [s2 [Htemp H]]].
  apply cbind_ok in H. destruct H as [u [s3 [Hmid H]]]. apply emit_ok in Hmid. subst s3.
  apply cbind_ok in H. destruct H as [temp2 [s4 [Htemp2 H]]].
  apply enc_ok in H. destruct H as [-> Ew].
  assert (Stage2 : (temp1 = true /\ ForbidTemp fl = false /\
                    exists C3, lay s (emitted s2 (New (Z.lor oc TempFlag))) C3 /\ wfcs s2 /\
                               RunsT (dun oc DT) s (emitted s2 (New (Z.lor oc TempFlag))) s1 C3) \/
                   (temp1 = false /\ s2 = s1 /\ Kt <> AddrTmp)).
  { destruct (negb (ForbidTemp fl) && (OpDepth fl >? tempifyDepth) && negb (Kt =? AddrTmp)) eqn:CA.
    - apply andb_prop in CA. destruct CA as [CA C3]. apply andb_prop in CA. destruct CA as [C1 C2].
      apply negb_true_iff in C1. apply negb_true_iff in C3. apply Z.eqb_neq in C3.
      apply cbind_ok in Htemp. destruct Htemp as [w1 [sa [Ha Htemp]]]. apply enc_ok in Ha. destruct Ha as [-> Ew1].
      apply cbind_ok in Htemp. destruct Htemp as [u0 [sc [Hem Htemp]]]. apply emit_ok in Hem. subst sc.
      apply cret_ok in Htemp. destruct Htemp as [-> ->].
      left. conj; [reflexivity|exact C1|].
      exists ((P ++ [Z.lor (Z.lor (New MOV) w1) wt]) ++ [New (Z.lor oc TempFlag)]). conj.
      + apply lay_emit. apply lay_emit. exact Lt.
      + apply wfcs_emitted. exact Wt.
      + apply (RunsT_unop DT oc s (emitted s1 (Z.lor (Z.lor (New MOV) w1) wt)) s1 _ _ 0 0 0 0 0 0).
        * apply (RunsK_mov_T DT (ForbidTemp fl) s s1 s1 P Kt At _ 0 0 0 Xt C3 (proj1 (proj2 Lt))).
          apply (decode_op01 MOV Kt At AddrTmp 0 wt w1 mov_range (okind_range Kt Okt) tmp_range Et Ew1).
        * pose proof (lay_emit s s1 P (Z.lor (Z.lor (New MOV) w1) wt) Lt) as L. exact (proj1 (proj2 L)).
        * exact Hu.
        * rewrite (lor_tempflag oc Hcr). apply decode_op. exact HcT.
    - apply cret_ok in Htemp. destruct Htemp as [-> ->].
      destruct (Z.eqb_spec Kt AddrTmp) as [EK|NK].
      + left. conj; [reflexivity|exact (Tt EK)|].
        exists (P ++ [New (Z.lor oc TempFlag)]). conj.
        * apply lay_emit. exact Lt.
        * exact Wt.
        * apply (RunsT_unop DT oc s s1 s1 _ _ 0 0 0 0 0 0).
          -- rewrite EK in Xt. exact (RunsK_tmp_T DT _ s s1 s1 P At Xt).
          -- exact (proj1 (proj2 Lt)).
          -- exact Hu.
          -- rewrite (lor_tempflag oc Hcr). apply decode_op. exact HcT.
      + right. conj; [reflexivity|reflexivity|exact NK]. }
  apply SpecD_lay.
  destruct Stage2 as [(-> & Hfb & C3 & L3 & W2 & X3)|(-> & -> & NK)].
  - cbn [andb] in Htemp2.
    assert (Hd31 : exists d, rds (emitted s2 (New (Z.lor oc TempFlag))) = d ++ rds s1).
    { destruct (negb (ForbidTemp fl) && (OpDepth fl >? tempifyDepth) && negb (Kt =? AddrTmp)).
      - apply cbind_ok in Htemp. destruct Htemp as [w1 [sa [Ha Htemp]]]. apply enc_ok in Ha. destruct Ha as [-> _].
        apply cbind_ok in Htemp. destruct Htemp as [u0 [sc [Hem Htemp]]]. apply emit_ok in Hem. subst sc.
        apply cret_ok in Htemp. destruct Htemp as [_ ->]. exists []. reflexivity.
      - apply cret_ok in Htemp. destruct Htemp as [_ ->]. exists []. reflexivity. }
    destruct Hd31 as [d31 Hd31].
    destruct ((OpDepth fl =? 0) && negb (Discard fl) && negb (AcceptTemp fl)) eqn:CT.
    + apply cbind_ok in Htemp2. destruct Htemp2 as [u2 [sa [Hem Htemp2]]]. apply emit_ok in Hem. subst sa.
      apply cret_ok in Htemp2. destruct Htemp2 as [-> ->].
      exists (C3 ++ [New PUSHTMP]), AddrStck, 0. conj.
      * apply lay_emit. exact L3.
      * apply wfcs_emitted. apply wfcs_emitted. exact W2.
      * exact Ew.
      * left. reflexivity.
      * discriminate.
      * discriminate.
      * rewrite Hfb. apply (RunsK_data _ _ s _ s1 _ _ _ _ d31); [|exact Hd31].
        apply (RunsT_push _ s _ s1 C3 _ 0 0 0 0 0 0 X3 (proj1 (proj2 L3))).
        apply decode_op. exact pushtmp_range.
    + apply cret_ok in Htemp2. destruct Htemp2 as [-> ->].
      exists C3, AddrTmp, 0. conj.
      * exact L3.
      * apply wfcs_emitted. exact W2.
      * exact Ew.
      * right. left. reflexivity.
      * intros _. exact Hfb.
      * intros H1 H2 H3. rewrite H1, H2, H3 in CT. discriminate CT.
      * rewrite Hfb. apply (RunsK_data _ _ s _ s1 _ _ _ _ d31); [|exact Hd31]. apply RunsT_K. exact X3.
  - cbn [andb] in Htemp2. apply cret_ok in Htemp2. destruct Htemp2 as [-> ->].
    exists (P ++ [Z.lor (New oc) wt]), AddrStck, 0. conj.
    + apply lay_emit. exact Lt.
    + apply wfcs_emitted. exact Wt.
    + exact Ew.
    + left. reflexivity.
    + discriminate.
    + discriminate.
    + apply (RunsK_data _ _ s _ s1 _ _ _ _ []); [|reflexivity].
      apply (RunsK_unop DT oc (ForbidTemp fl) s s1 s1 P Kt At _ 0 0 0 0 Xt NK (proj1 (proj2 Lt)) Hu).
      apply (decode_op0 oc Kt At wt ltac:(lia) (okind_range Kt Okt) Et).
Qed.

(* ================= every pure expression over locals and globals ================= *)
Lemma SpecD_ext D D' sel fl s s' w : (forall G, D G = D' G) -> SpecD D sel fl s s' w -> SpecD D' sel fl s s' w.
Proof.
  intros E H. apply SpecD_unfold in H. apply SpecD_unfold.
  destruct H as [code [K [A (H1 & H2 & H3 & H4 & H5 & H6 & H7 & H8 & H9)]]].
  exists code, K, A. conj; try assumption.
  intros rr v mid m r. rewrite <- E. apply H9.
Qed.

Lemma SpecD_pass D sel fl s s' w : SpecD D sel (pass fl) s s' w -> SpecD D sel fl s s' w.
Proof.
  intros H. apply SpecD_unfold in H. apply SpecD_unfold.
  destruct H as [code [K [A (H1 & H2 & H3 & H4 & H5 & H6 & H7 & H8 & H9)]]].
  exists code, K, A. cbn [ForbidTemp OpDepth Discard AcceptTemp pass] in *. conj; try assumption.
  intros Hd _ _. apply H8; [exact Hd|reflexivity|reflexivity].
Qed.

Lemma const_compiles x : compiles (fun sel _ => comp_const x sel) (fun _ => Ok x).
Proof. intros sel fl s w s' _ Hwf H. exact (const_spec x sel fl s s' w Hwf H). Qed.

Lemma unop_sem_oc op a :
  unop_ok op = true -> String.eqb op "-" = false ->
  exists oc, (if String.eqb op "#" then Some LEN else if String.eqb op "!" then Some NOT
              else if String.eqb op "~" then Some FLIP else None) = Some oc /\
             is_unop oc = true /\ unop_sem op a = Some (unop_of oc a).
Proof.
  unfold unop_ok, unop_sem. intros H Hm. rewrite Hm in *. cbn [orb] in H.
  destruct (String.eqb op "#"); [exists LEN; conj; reflexivity|].
  destruct (String.eqb op "!"); [exists NOT; conj; reflexivity|].
  destruct (String.eqb op "~"); [exists FLIP; conj; reflexivity|]. discriminate.
Qed.

(* ================= two- and three-operand instructions: indexing ================= *)
Section ExecMore.
  Variables (rr : bool) (v : vm) (mid : Z).

  (* an instruction that fetches operand 0, then operand 1, and pushes F x1 x0 *)
  Lemma exec_two (F : value -> value -> res value) instr K0 A0 K1 A1 b m0 m1 r1 m2 r2 a x :
    (forall m r, at_ip v r mid instr ->
       step (St v mid m) r rr =
       lift (p0 <~ fetch (St v mid m) mid K0 A0 ;; let (v0, x0) := p0 in
             p1 <~ fetch v0 mid K1 A1 ;; let (v1, x1) := p1 in
             match F x1 x0 with
             | Fail e => Good (SErr v1 (r_ctx r) (r_ip r) e [x1; x0])
             | Ok y => v2 <~ vPush v1 mid y ;; Good (next v2 r)
             end)) ->
    at_ip v r2 mid instr -> 0 <= b ->
    opnd v b K1 A1 a m1 r1 -> K1 <> AddrTmp -> msame b m0 m1 ->
    opnd v (m_sp m1) K0 A0 x m2 r2 -> K0 <> AddrTmp -> msame (m_sp m1) m1 m2 ->
    match F a x with
    | Ok y => exists m3, steps rr 1 (St v mid m2) r2 = SNext (St v mid m3) (with_ip r2 (r_ip r2 + 1)) /\
                         msame b m0 m3 /\ m_sp m3 = b + 1 /\ znth (m_stack m3) b = Some y
    | Fail e => exists me vals, steps rr 1 (St v mid m2) r2 = SErr (St v mid me) (r_ctx r2) (r_ip r2) e vals
    end.
  Proof.
    intros Hstep Hat Hb0 Ho1 Hk1 Hm1 Ho0 Hk0 Hm2.
    destruct (fetch_opnd v mid (m_sp m1) m1 K0 A0 x m2 r2 Ho0 Hk0 Hm2) as [m2' [Hf0 [Hm2' Hs2']]].
    pose proof (opnd_transfer v b K1 A1 a m1 r1 m2' r2 Ho1 Hk1 Hm2' Hs2' Hb0) as Ho1'.
    assert (Hm02' : msame b m0 m2').
    { apply (msame_trans b (m_sp m1) m0 m1 m2'); [destruct Hm1 as (_&_&_&_&_&B); lia|exact Hm1|exact Hm2']. }
    destruct (fetch_opnd v mid b m0 K1 A1 a m2' r2 Ho1' Hk1 Hm02') as [m2'' [Hf1 [Hm2'' Hs2'']]].
    rewrite steps_one, (Hstep m2 r2 Hat), Hf0. cbn [obind]. rewrite Hf1. cbn [obind].
    destruct (F a x) as [y|e]; cbn [lift].
    - assert (Hsp : 0 <= m_sp m2'' <= zlen (m_stack m2'')) by (destruct Hm2'' as (_&_&_&_&_&B); lia).
      destruct (vPush_St v mid m2'' y Hsp) as [m3 [Hp [Hm3 [Hs3 Hx3]]]].
      rewrite Hp. cbn [obind lift next]. exists m3. conj; [reflexivity| |lia|rewrite <- Hs2''; exact Hx3].
      apply (msame_trans b (m_sp m2'') m0 m2'' m3); [lia|exact Hm2''|exact Hm3].
    - eauto.
  Qed.

  (* fetches operand 0, 1, 2 and pushes F x2 x1 x0 *)
  Lemma exec_three (F : value -> value -> value -> res value) instr K0 A0 K1 A1 K2 A2
        b m0 m1 r1 m2 r2 m3 r3 a f t :
    (forall m r, at_ip v r mid instr ->
       step (St v mid m) r rr =
       lift (p0 <~ fetch (St v mid m) mid K0 A0 ;; let (v0, x0) := p0 in
             p1 <~ fetch v0 mid K1 A1 ;; let (v1, x1) := p1 in
             p2 <~ fetch v1 mid K2 A2 ;; let (v2, x2) := p2 in
             match F x2 x1 x0 with
             | Fail e => Good (SErr v2 (r_ctx r) (r_ip r) e [x2; x1; x0])
             | Ok y => v3 <~ vPush v2 mid y ;; Good (next v3 r)
             end)) ->
    at_ip v r3 mid instr -> 0 <= b ->
    opnd v b K2 A2 a m1 r1 -> K2 <> AddrTmp -> msame b m0 m1 ->
    opnd v (m_sp m1) K1 A1 f m2 r2 -> K1 <> AddrTmp -> msame (m_sp m1) m1 m2 ->
    opnd v (m_sp m2) K0 A0 t m3 r3 -> K0 <> AddrTmp -> msame (m_sp m2) m2 m3 ->
    match F a f t with
    | Ok y => exists m4, steps rr 1 (St v mid m3) r3 = SNext (St v mid m4) (with_ip r3 (r_ip r3 + 1)) /\
                         msame b m0 m4 /\ m_sp m4 = b + 1 /\ znth (m_stack m4) b = Some y
    | Fail e => exists me vals, steps rr 1 (St v mid m3) r3 = SErr (St v mid me) (r_ctx r3) (r_ip r3) e vals
    end.
  Proof.
    intros Hstep Hat Hb0 Ho2 Hk2 Hm1 Ho1 Hk1 Hm2 Ho0 Hk0 Hm3.
    assert (B1 : b <= m_sp m1) by (destruct Hm1 as (_&_&_&_&_&B); lia).
    assert (B2 : m_sp m1 <= m_sp m2) by (destruct Hm2 as (_&_&_&_&_&B); lia).
    destruct (fetch_opnd v mid (m_sp m2) m2 K0 A0 t m3 r3 Ho0 Hk0 Hm3) as [ma [Hf0 [Hma Hsa]]].
    pose proof (opnd_transfer v (m_sp m1) K1 A1 f m2 r2 ma r3 Ho1 Hk1 Hma Hsa ltac:(lia)) as Ho1'.
    assert (Hm1a : msame (m_sp m1) m1 ma).
    { apply (msame_trans (m_sp m1) (m_sp m2) m1 m2 ma); [lia|exact Hm2|exact Hma]. }
    destruct (fetch_opnd v mid (m_sp m1) m1 K1 A1 f ma r3 Ho1' Hk1 Hm1a) as [mb [Hf1 [Hmb Hsb]]].
    pose proof (opnd_transfer v b K2 A2 a m1 r1 mb r3 Ho2 Hk2 Hmb Hsb Hb0) as Ho2'.
    assert (Hm0b : msame b m0 mb).
    { apply (msame_trans b (m_sp m1) m0 m1 mb); [lia|exact Hm1|exact Hmb]. }
    destruct (fetch_opnd v mid b m0 K2 A2 a mb r3 Ho2' Hk2 Hm0b) as [mc [Hf2 [Hmc Hsc]]].
    rewrite steps_one, (Hstep m3 r3 Hat), Hf0. cbn [obind]. rewrite Hf1. cbn [obind]. rewrite Hf2. cbn [obind].
    destruct (F a f t) as [y|e]; cbn [lift].
    - assert (Hsp : 0 <= m_sp mc <= zlen (m_stack mc)) by (destruct Hmc as (_&_&_&_&_&B); lia).
      destruct (vPush_St v mid mc y Hsp) as [m4 [Hp [Hm4 [Hs4 Hx4]]]].
      rewrite Hp. cbn [obind lift next]. exists m4. conj; [reflexivity| |lia|rewrite <- Hsc; exact Hx4].
      apply (msame_trans b (m_sp mc) m0 mc m4); [lia|exact Hmc|exact Hm4].
    - eauto.
  Qed.

  (* ARR: append the element to the array *)
  Lemma exec_arr instr K0 A0 K1 A1 k2 a2 b m0 m1 r1 m2 r2 acc x :
    at_ip v r2 mid instr ->
    decode instr = {| f_op := ARR; f_k0 := K0; f_k1 := K1; f_k2 := k2; f_a0 := A0; f_a1 := A1; f_a2 := a2 |} ->
    0 <= b ->
    opnd v b K1 A1 (VArr acc) m1 r1 -> K1 <> AddrTmp -> msame b m0 m1 ->
    opnd v (m_sp m1) K0 A0 x m2 r2 -> K0 <> AddrTmp -> msame (m_sp m1) m1 m2 ->
    exists m3, steps rr 1 (St v mid m2) r2 = SNext (St v mid m3) (with_ip r2 (r_ip r2 + 1)) /\
               msame b m0 m3 /\ m_sp m3 = b + 1 /\ znth (m_stack m3) b = Some (VArr (acc ++ [x])).
  Proof.
    intros Hat Hd Hb0 Ho1 Hk1 Hm1 Ho0 Hk0 Hm2.
    destruct (fetch_opnd v mid (m_sp m1) m1 K0 A0 x m2 r2 Ho0 Hk0 Hm2) as [m2' [Hf0 [Hm2' Hs2']]].
    pose proof (opnd_transfer v b K1 A1 (VArr acc) m1 r1 m2' r2 Ho1 Hk1 Hm2' Hs2' Hb0) as Ho1'.
    assert (Hm02' : msame b m0 m2').
    { apply (msame_trans b (m_sp m1) m0 m1 m2'); [destruct Hm1 as (_&_&_&_&_&B); lia|exact Hm1|exact Hm2']. }
    destruct (fetch_opnd v mid b m0 K1 A1 (VArr acc) m2' r2 Ho1' Hk1 Hm02') as [m2'' [Hf1 [Hm2'' Hs2'']]].
    rewrite steps_one, (step_arr v mid m2 r2 rr instr _ _ _ _ _ _ Hat Hd), Hf0. cbn [obind]. rewrite Hf1. cbn [obind].
    assert (Hsp : 0 <= m_sp m2'' <= zlen (m_stack m2'')) by (destruct Hm2'' as (_&_&_&_&_&B); lia).
    destruct (vPush_St v mid m2'' (VArr (acc ++ [x])) Hsp) as [m3 [Hp [Hm3 [Hs3 Hx3]]]].
    rewrite Hp. cbn [obind lift next]. exists m3. conj; [reflexivity| |lia|rewrite <- Hs2''; exact Hx3].
    apply (msame_trans b (m_sp m2'') m0 m2'' m3); [lia|exact Hm2''|exact Hm3].
  Qed.
End ExecMore.

Definition dtwo (F : value -> value -> res value) (DL DR : GD) : GD :=
  fun G => match DL G with
           | Fail e => Fail e
           | Ok a => match DR G with Fail e => Fail e | Ok b => F a b end
           end.

Definition dthree (F : value -> value -> value -> res value) (DA DF DT : GD) : GD :=
  fun G => match DA G with
           | Fail e => Fail e
           | Ok a => match DF G with
                     | Fail e => Fail e
                     | Ok f => match DT G with Fail e => Fail e | Ok t => F a f t end
                     end
           end.

(* code of the left operand, code of the right operand, then the instruction *)
Lemma RunsK_two (F : value -> value -> res value) DL DR keep s s1 s3 sd P Q K1 A1 K0 A0 opi :
  (forall rr v mid m r, at_ip v r mid opi ->
     step (St v mid m) r rr =
     lift (p0 <~ fetch (St v mid m) mid K0 A0 ;; let (v0, x0) := p0 in
           p1 <~ fetch v0 mid K1 A1 ;; let (v1, x1) := p1 in
           match F x1 x0 with
           | Fail e => Good (SErr v1 (r_ctx r) (r_ip r) e [x1; x0])
           | Ok y => v2 <~ vPush v1 mid y ;; Good (next v2 r)
           end)) ->
  RunsK DL keep s s1 sd P K1 A1 -> K1 <> AddrTmp -> ncs s1 = ncs s + zlen P ->
  RunsK DR keep s1 s3 sd Q K0 A0 -> K0 <> AddrTmp -> ncs s3 = ncs s1 + zlen Q ->
  RunsK (dtwo F DL DR) keep s (emitted s3 opi) sd (P ++ Q ++ [opi]) AddrStck 0.
Proof.
  intros Hstep HL Hk1 Hn1 HR Hk0 Hn3 rr v mid m r Hc Hdat Hm Hsp Hlf Hip.
  assert (Hi : znth (v_cs v) (ncs s + zlen P + zlen Q) = Some opi).
  { apply code_at_app in Hc. destruct Hc as [_ Hc]. exact (code_at_nth v _ Q opi [] Hc). }
  apply code_at_app in Hc. destruct Hc as [HcP HcQ].
  apply code_at_app in HcQ. destruct HcQ as [HcQ _].
  specialize (HL rr v mid m r HcP Hdat Hm Hsp Hlf Hip).
  rewrite app_length, steps_app. unfold dtwo.
  destruct (DL (v_globals v)) as [a|err].
  - destruct HL as [m1 [r1 [Hs [Hms [Hctx [Hip1 [Hkeep1 Ho1]]]]]]]. rewrite Hs.
    assert (Hsp1' : 0 <= m_sp m1 <= zlen (m_stack m1)) by (destruct Hms as (_&_&_&_&_&B); lia).
    rewrite <- Hn1 in HcQ.
    specialize (HR rr v mid m1 r1 HcQ Hdat).
    rewrite (cur_mid_ctx v r r1 Hctx) in HR. specialize (HR Hm Hsp1' (lfr_msame m m1 Hlf Hms (proj1 Hsp)) Hip1).
    rewrite length_app1, steps_app.
    destruct (DR (v_globals v)) as [x|err].
    + destruct HR as [m2 [r2 [Hs2 [Hm2 [Hctx2 [Hip2 [Hkeep2 Ho0]]]]]]]. rewrite Hs2.
      assert (Hat : at_ip v r2 mid opi).
      { split; [rewrite Hip2, Hn3, Hn1; exact Hi|].
        rewrite (cur_mid_ctx v r r2); [exact Hm|congruence]. }
      pose proof (exec_two rr v mid F opi K0 A0 K1 A1 (m_sp m) m m1 r1 m2 r2 a x (Hstep rr v mid) Hat
                    (proj1 Hsp) Ho1 Hk1 Hms Ho0 Hk0 Hm2) as E.
      destruct (F a x) as [y|e].
      * destruct E as [m3 [Hs3 [Hm3 [Hsp3 Hx3]]]]. rewrite Hs3.
        exists m3, (with_ip r2 (r_ip r2 + 1)).
        conj; try assumption; try reflexivity.
        -- cbn [with_ip r_ctx]. congruence.
        -- cbn [with_ip r_ip emitted ncs]. lia.
        -- intros Hk. cbn [with_ip r_tmp]. rewrite (Hkeep2 Hk). apply Hkeep1. exact Hk.
        -- left. conj; [reflexivity|exact Hsp3|exact Hx3].
      * destruct E as [me [vals E]]. rewrite E. replace (r_ctx r2) with (r_ctx r) by congruence. eauto.
    + destruct HR as [me [ip [vals HR]]]. rewrite HR. rewrite Hctx. eauto.
  - destruct HL as [me [ip [vals Hs]]]. rewrite Hs. eauto.
Qed.

Lemma RunsK_three (F : value -> value -> value -> res value) DA DF DT keep s s1 s2 s3 sd P Q R
      K2 A2 K1 A1 K0 A0 opi :
  (forall rr v mid m r, at_ip v r mid opi ->
     step (St v mid m) r rr =
     lift (p0 <~ fetch (St v mid m) mid K0 A0 ;; let (v0, x0) := p0 in
           p1 <~ fetch v0 mid K1 A1 ;; let (v1, x1) := p1 in
           p2 <~ fetch v1 mid K2 A2 ;; let (v2, x2) := p2 in
           match F x2 x1 x0 with
           | Fail e => Good (SErr v2 (r_ctx r) (r_ip r) e [x2; x1; x0])
           | Ok y => v3 <~ vPush v2 mid y ;; Good (next v3 r)
           end)) ->
  RunsK DA keep s s1 sd P K2 A2 -> K2 <> AddrTmp -> ncs s1 = ncs s + zlen P ->
  RunsK DF keep s1 s2 sd Q K1 A1 -> K1 <> AddrTmp -> ncs s2 = ncs s1 + zlen Q ->
  RunsK DT keep s2 s3 sd R K0 A0 -> K0 <> AddrTmp -> ncs s3 = ncs s2 + zlen R ->
  RunsK (dthree F DA DF DT) keep s (emitted s3 opi) sd (P ++ Q ++ R ++ [opi]) AddrStck 0.
Proof.
  intros Hstep HA Hk2 Hn1 HF Hk1 Hn2 HT Hk0 Hn3 rr v mid m r Hc Hdat Hm Hsp Hlf Hip.
  assert (Hi : znth (v_cs v) (ncs s + zlen P + zlen Q + zlen R) = Some opi).
  { apply code_at_app in Hc. destruct Hc as [_ Hc]. apply code_at_app in Hc. destruct Hc as [_ Hc].
    exact (code_at_nth v _ R opi [] Hc). }
  apply code_at_app in Hc. destruct Hc as [HcP HcQ].
  apply code_at_app in HcQ. destruct HcQ as [HcQ HcR].
  apply code_at_app in HcR. destruct HcR as [HcR _].
  specialize (HA rr v mid m r HcP Hdat Hm Hsp Hlf Hip).
  rewrite app_length, steps_app. unfold dthree.
  destruct (DA (v_globals v)) as [a|err].
  - destruct HA as [m1 [r1 [Hs1 [Hms1 [Hctx1 [Hip1 [Hkeep1 Ho2]]]]]]]. rewrite Hs1.
    assert (Hsp1 : 0 <= m_sp m1 <= zlen (m_stack m1)) by (destruct Hms1 as (_&_&_&_&_&B); lia).
    rewrite <- Hn1 in HcQ.
    specialize (HF rr v mid m1 r1 HcQ Hdat).
    rewrite (cur_mid_ctx v r r1 Hctx1) in HF. specialize (HF Hm Hsp1 (lfr_msame m m1 Hlf Hms1 (proj1 Hsp)) Hip1).
    rewrite app_length, steps_app.
    destruct (DF (v_globals v)) as [f|err].
    + destruct HF as [m2 [r2 [Hs2 [Hms2 [Hctx2 [Hip2 [Hkeep2 Ho1]]]]]]]. rewrite Hs2.
      assert (Hsp2 : 0 <= m_sp m2 <= zlen (m_stack m2)) by (destruct Hms2 as (_&_&_&_&_&B); lia).
      rewrite <- Hn1, <- Hn2 in HcR.
      specialize (HT rr v mid m2 r2 HcR Hdat).
      rewrite (cur_mid_ctx v r r2) in HT by congruence. specialize (HT Hm Hsp2 (lfr_msame m1 m2 (lfr_msame m m1 Hlf Hms1 (proj1 Hsp)) Hms2 (proj1 Hsp1)) Hip2).
      rewrite length_app1, steps_app.
      destruct (DT (v_globals v)) as [t|err].
      * destruct HT as [m3 [r3 [Hs3 [Hms3 [Hctx3 [Hip3 [Hkeep3 Ho0]]]]]]]. rewrite Hs3.
        assert (Hat : at_ip v r3 mid opi).
        { split; [rewrite Hip3, Hn3, Hn2, Hn1; exact Hi|].
          rewrite (cur_mid_ctx v r r3); [exact Hm|congruence]. }
        pose proof (exec_three rr v mid F opi K0 A0 K1 A1 K2 A2 (m_sp m) m m1 r1 m2 r2 m3 r3 a f t (Hstep rr v mid) Hat
                      (proj1 Hsp) Ho2 Hk2 Hms1 Ho1 Hk1 Hms2 Ho0 Hk0 Hms3) as E.
        destruct (F a f t) as [y|e].
        -- destruct E as [m4 [Hs4 [Hm4 [Hsp4 Hx4]]]]. rewrite Hs4.
           exists m4, (with_ip r3 (r_ip r3 + 1)).
           conj; try assumption; try reflexivity.
           ++ cbn [with_ip r_ctx]. congruence.
           ++ cbn [with_ip r_ip emitted ncs]. lia.
           ++ intros Hk. cbn [with_ip r_tmp]. rewrite (Hkeep3 Hk), (Hkeep2 Hk). apply Hkeep1. exact Hk.
           ++ left. conj; [reflexivity|exact Hsp4|exact Hx4].
        -- destruct E as [me [vals E]]. rewrite E. replace (r_ctx r3) with (r_ctx r) by congruence. eauto.
      * destruct HT as [me [ip [vals HT]]]. rewrite HT. replace (r_ctx r2) with (r_ctx r) by congruence. eauto.
    + destruct HF as [me [ip [vals HF]]]. rewrite HF. rewrite Hctx1. eauto.
  - destruct HA as [me [ip [vals Hs]]]. rewrite Hs. eauto.
Qed.

(* ---- a[i] and a[f:t] ---- *)
Lemma ix1_range : 0 <= IX1 < 128. Proof. unfold IX1. lia. Qed.
Lemma ix2_range : 0 <= IX2 < 128. Proof. unfold IX2. lia. Qed.
Lemma arr_range : 0 <= ARR < 128. Proof. unfold ARR. lia. Qed.
Lemma ds_range : 0 <= AddrDS < 8. Proof. unfold AddrDS. lia. Qed.

(* a sub-expression compiled at operator depth 0 for a consumer that neither discards nor accepts
   the temp register: its operand is never the temp register *)
Lemma spec_depth0 D sel fl s s' w :
  SpecD D sel (withOpDepth 0 (pass fl)) s s' w ->
  exists code K A, lay s s' code /\ wfcs s' /\ EncodeSrc sel K A = Some w /\ okind K /\ K <> AddrTmp /\
                   RunsK D (ForbidTemp fl) s s' s' code K A.
Proof.
  intros H. apply SpecD_lay in H. destruct H as [code [K [A (L & W & E & Ok & _ & NT & X)]]].
  exists code, K, A. cbn [ForbidTemp OpDepth Discard AcceptTemp withOpDepth pass] in *.
  conj; try assumption. apply NT; reflexivity.
Qed.

Lemma ix1_spec compA compI DA DI sel fl s s' w :
  0 <= sel <= 2 -> compiles compA DA -> compiles compI DI -> wfcs s ->
  (ary <- compA 1 (withOpDepth 0 (pass fl)) ;;
   at_ <- compI 0 (withOpDepth 0 (pass fl)) ;;
   emit (Z.lor (Z.lor (New IX1) ary) at_) ;;;
   enc sel AddrStck 0) s = COk (w, s') ->
  SpecD (dtwo Index1 DA DI) sel fl s s' w.
Proof.
  intros Hsel HA HI Hwf H.
  apply cbind_ok in H. destruct H as [wa [s1 [Ha H]]].
  apply HA in Ha; [|lia|exact Hwf]. apply spec_depth0 in Ha.
  destruct Ha as [P [Ka [Aa (La & Wa & Ea & Oka & NTa & Xa)]]].
  apply cbind_ok in H. destruct H as [wi [s2 [Hi H]]].
  apply HI in Hi; [|lia|exact Wa]. apply spec_depth0 in Hi.
  destruct Hi as [Q [Ki [Ai (Li & Wi & Ei & Oki & NTi & Xi)]]].
  apply cbind_ok in H. destruct H as [u [s3 [Hem H]]]. apply emit_ok in Hem. subst s3.
  apply enc_ok in H. destruct H as [-> Ew].
  apply SpecD_lay. exists (P ++ Q ++ [Z.lor (Z.lor (New IX1) wa) wi]), AddrStck, 0. conj.
  - rewrite app_assoc. apply lay_emit. apply (lay_trans s s1 s2); assumption.
  - apply wfcs_emitted. exact Wi.
  - exact Ew.
  - left. reflexivity.
  - discriminate.
  - discriminate.
  - destruct Li as (Ri & Ni & [di Di]).
    apply (RunsK_data _ _ s _ s2 _ _ _ _ []); [|reflexivity].
    apply (RunsK_two Index1 DA DI (ForbidTemp fl) s s1 s2 s2 P Q Ka Aa Ki Ai).
    + intros rr v mid m r Hat. apply (step_ix1 v mid m r rr _ Ki Ai Ka Aa 0 0 Hat).
      apply (decode_op01 IX1 Ki Ai Ka Aa wi wa ix1_range (okind_range Ki Oki) (okind_range Ka Oka) Ei Ea).
    + apply (RunsK_data _ _ s s1 s1 s2 P Ka Aa di Xa Di).
    + exact NTa.
    + exact (proj1 (proj2 La)).
    + exact Xi.
    + exact NTi.
    + exact Ni.
Qed.

Lemma ix2_spec compA compF compT DA DF DT sel fl s s' w :
  0 <= sel <= 2 -> compiles compA DA -> compiles compF DF -> compiles compT DT -> wfcs s ->
  (ary <- compA 2 (withOpDepth 0 (pass fl)) ;;
   from <- compF 1 (withOpDepth 0 (pass fl)) ;;
   to <- compT 0 (withOpDepth 0 (pass fl)) ;;
   emit (Z.lor (Z.lor (Z.lor (New IX2) ary) from) to) ;;;
   enc sel AddrStck 0) s = COk (w, s') ->
  SpecD (dthree Index2 DA DF DT) sel fl s s' w.
Proof.
  intros Hsel HA HF HT Hwf H.
  apply cbind_ok in H. destruct H as [wa [s1 [Ha H]]].
  apply HA in Ha; [|lia|exact Hwf]. apply spec_depth0 in Ha.
  destruct Ha as [P [Ka [Aa (La & Wa & Ea & Oka & NTa & Xa)]]].
  apply cbind_ok in H. destruct H as [wf [s2 [Hf H]]].
  apply HF in Hf; [|lia|exact Wa]. apply spec_depth0 in Hf.
  destruct Hf as [Q [Kf [Af (Lf & Wf & Ef & Okf & NTf & Xf)]]].
  apply cbind_ok in H. destruct H as [wt [s3 [Ht H]]].
  apply HT in Ht; [|lia|exact Wf]. apply spec_depth0 in Ht.
  destruct Ht as [R [Kt [At (Lt & Wt & Et & Okt & NTt & Xt)]]].
  apply cbind_ok in H. destruct H as [u [s4 [Hem H]]]. apply emit_ok in Hem. subst s4.
  apply enc_ok in H. destruct H as [-> Ew].
  apply SpecD_lay. exists (P ++ Q ++ R ++ [Z.lor (Z.lor (Z.lor (New IX2) wa) wf) wt]), AddrStck, 0. conj.
  - replace (P ++ Q ++ R ++ [Z.lor (Z.lor (Z.lor (New IX2) wa) wf) wt])
      with (((P ++ Q) ++ R) ++ [Z.lor (Z.lor (Z.lor (New IX2) wa) wf) wt]) by (rewrite <- !app_assoc; reflexivity).
    apply lay_emit. apply (lay_trans s s2 s3); [apply (lay_trans s s1 s2); assumption|assumption].
  - apply wfcs_emitted. exact Wt.
  - exact Ew.
  - left. reflexivity.
  - discriminate.
  - discriminate.
  - destruct Lf as (Rf & Nf & [df Df]). destruct Lt as (Rt & Nt & [dt Dt]).
    apply (RunsK_data _ _ s _ s3 _ _ _ _ []); [|reflexivity].
    apply (RunsK_three Index2 DA DF DT (ForbidTemp fl) s s1 s2 s3 s3 P Q R Ka Aa Kf Af Kt At).
    + intros rr v mid m r Hat. apply (step_ix2 v mid m r rr _ Kt At Kf Af Ka Aa Hat).
      apply (decode_op012 IX2 Kt At Kf Af Ka Aa wt wf wa ix2_range (okind_range Kt Okt) (okind_range Kf Okf)
               (okind_range Ka Oka) Et Ef Ea).
    + apply (RunsK_data _ _ s s1 s1 s3 P Ka Aa (dt ++ df) Xa). rewrite Dt, Df, app_assoc. reflexivity.
    + exact NTa.
    + exact (proj1 (proj2 La)).
    + apply (RunsK_data _ _ s1 s2 s2 s3 Q Kf Af dt Xf Dt).
    + exact NTf.
    + exact Nf.
    + exact Xt.
    + exact NTt.
    + exact Nt.
Qed.

(* ================= array literals ================= *)
Definition list_go (fl : flags) (k : nat) (ix : Z) :=
  fix go (l : list node) (i : nat) : CM unit :=
    match l with
    | [] => cret tt
    | x :: l' =>
        if Nat.ltb i k then go l' (S i)
        else
          i0 <- comp x 0 (withOpDepth 0 (pass fl)) ;;
          w <- (if Nat.eqb i k then enc 1 AddrDS ix else enc 1 AddrStck 0) ;;
          emit (Z.lor (Z.lor i0 (New ARR)) w) ;;; go l' (S i)
    end.

Lemma comp_list_unfold elems sel fl :
  comp (NList elems) sel fl =
  (let ary := const_prefix elems in
   let k := List.length ary in
   ix <- add_ds (VArr ary) ;;
   if Nat.leb (List.length elems) k then enc sel AddrDS ix
   else list_go fl k ix elems O ;;; enc sel AddrStck 0).
Proof. reflexivity. Qed.

Lemma list_go_skip fl k ix : forall l i, (i <= k)%nat -> (k - i <= List.length l)%nat ->
  list_go fl k ix l i = list_go fl k ix (skipn (k - i) l) k.
Proof.
  induction l as [|x l IH]; intros i Hi Hl.
  - cbn [List.length] in Hl. replace (k - i)%nat with 0%nat by lia. reflexivity.
  - cbn [list_go]. destruct (Nat.ltb_spec i k) as [Hlt|Hge].
    + rewrite (IH (S i)) by (cbn [List.length] in Hl; lia).
      replace (k - i)%nat with (S (k - S i)) by lia. reflexivity.
    + replace (k - i)%nat with 0%nat by lia. cbn [skipn list_go].
      assert (i = k) by lia. subst i. rewrite Nat.ltb_irrefl. reflexivity.
Qed.

(* constants mean their value *)
Definition const_list := fix go (l : list node) : option (list value) :=
  match l with
  | [] => Some []
  | x :: r => match constant x, go r with
              | Some v, Some vs => Some (v :: vs)
              | _, _ => None
              end
  end.

Lemma constant_list l : constant (NList l) = option_map VArr (const_list l).
Proof. reflexivity. Qed.

Lemma constant_den : forall x, lpure LL x = true -> forall G v, constant x = Some v -> lden LL G x = Ok v.
Proof.
  apply (lpure_induction LL (fun x => forall G v, constant x = Some v -> lden LL G x = Ok v));
    try (intros; cbn [constant] in *; discriminate);
    try (intros; cbn [constant lden] in *; congruence).
  - intros l _ HF G v H. rewrite constant_list in H. cbn [lden].
    assert (E : forall vs, const_list l = Some vs -> seq_res (lden LL G) l = Ok vs).
    { clear H. induction HF as [|x r Hx Hr IH]; intros vs H; cbn [const_list seq_res] in *; [congruence|].
      destruct (constant x) as [vx|] eqn:Ex; [|discriminate].
      destruct (const_list r) as [vr|] eqn:Er; [|discriminate].
      rewrite (Hx G vx eq_refl), (IH vr eq_refl). congruence. }
    destruct (const_list l) as [vs|]; [|discriminate]. cbn [option_map] in H. rewrite (E vs eq_refl). congruence.
Qed.

Lemma const_prefix_split : forall elems, forallb (lpure LL) elems = true ->
  (List.length (const_prefix elems) <= List.length elems)%nat /\
  forall G, seq_res (lden LL G) elems =
            match seq_res (lden LL G) (skipn (List.length (const_prefix elems)) elems) with
            | Ok vs => Ok (const_prefix elems ++ vs)
            | Fail e => Fail e
            end.
Proof.
  induction elems as [|x r IH]; intros Hp.
  - split; [cbn; lia|]. intros G. reflexivity.
  - cbn [forallb] in Hp. apply andb_prop in Hp. destruct Hp as [Hx Hr]. destruct (IH Hr) as [IH1 IH2].
    cbn [const_prefix]. destruct (constant x) as [v|] eqn:Ec.
    + cbn [List.length skipn]. split; [lia|]. intros G. cbn [seq_res].
      rewrite (constant_den x Hx G v Ec), (IH2 G).
      destruct (seq_res (lden LL G) (skipn (List.length (const_prefix r)) r)); reflexivity.
    + cbn [List.length skipn app]. split; [lia|]. intros G.
      destruct (seq_res (lden LL G) (x :: r)); reflexivity.
Qed.

Lemma msame_self b m : b <= m_sp m <= zlen (m_stack m) -> msame b m m.
Proof. intros H. unfold msame. conj; try reflexivity; try apply incl_refl; lia. Qed.

(* the array under construction is on top of the stack and grows by the values of the elements *)
Definition RunsArr (Dl : list (string * value) -> res (list value)) (keep : bool) (s s2 sd : cstate) (P : list Z) : Prop :=
  forall rr v mid m r acc,
    code_at v (ncs s) P -> data_at v sd -> cur_mid v r = Good mid ->
    1 <= m_sp m <= zlen (m_stack m) -> lfrb (m_sp m - 1) m ->
    znth (m_stack m) (m_sp m - 1) = Some (VArr acc) -> r_ip r = ncs s ->
    match Dl (v_globals v) with
    | Ok vs => exists m' r', steps rr (List.length P) (St v mid m) r = SNext (St v mid m') r' /\
                 msame (m_sp m - 1) m m' /\ m_sp m' = m_sp m /\
                 znth (m_stack m') (m_sp m - 1) = Some (VArr (acc ++ vs)) /\
                 r_ctx r' = r_ctx r /\ r_ip r' = ncs s2 /\ (keep = true -> r_tmp r' = r_tmp r)
    | Fail err => exists me ip vals, steps rr (List.length P) (St v mid m) r = SErr (St v mid me) (r_ctx r) ip err vals
    end.

Lemma RunsArr_data Dl keep s s2 sd sd' P d :
  RunsArr Dl keep s s2 sd P -> rds sd' = d ++ rds sd -> RunsArr Dl keep s s2 sd' P.
Proof.
  intros H E rr v mid m r acc Hc Hd. apply H; [exact Hc|]. apply (data_at_ext v sd sd' d Hd E).
Qed.

Lemma arr_decode i0 w Kx Ax K1 A1 :
  0 <= Kx < 8 -> 0 <= K1 < 8 -> EncodeSrc 0 Kx Ax = Some i0 -> EncodeSrc 1 K1 A1 = Some w ->
  decode (Z.lor (Z.lor i0 (New ARR)) w) =
  {| f_op := ARR; f_k0 := Kx; f_k1 := K1; f_k2 := 0; f_a0 := Ax; f_a1 := A1; f_a2 := 0 |}.
Proof.
  intros H0 H1 E0 E1.
  replace (Z.lor (Z.lor i0 (New ARR)) w) with (Z.lor (Z.lor (New ARR) w) i0).
  - apply (decode_op01 ARR Kx Ax K1 A1 i0 w arr_range H0 H1 E0 E1).
  - rewrite (Z.lor_comm i0 (New ARR)), <- !Z.lor_assoc. f_equal. apply Z.lor_comm.
Qed.

Lemma list_rest fl k ix : forall l,
  Forall (fun x => compiles (comp x) (fun G => lden LL G x)) l ->
  forall i s u s', (k < i)%nat -> wfcs s -> list_go fl k ix l i s = COk (u, s') ->
  exists code, lay s s' code /\ wfcs s' /\
               RunsArr (fun G => seq_res (lden LL G) l) (ForbidTemp fl) s s' s' code.
Proof.
  induction l as [|x l IH]; intros HF i s u s' Hi Hwf H.
  - cbn [list_go] in H. apply cret_ok in H. destruct H as [_ ->].
    exists []. conj; [apply lay_refl|exact Hwf|].
    intros rr v mid m r acc _ _ _ Hsp Hlf Htop Hip. cbn [seq_res steps List.length].
    exists m, r. rewrite app_nil_r. conj; try reflexivity; try assumption.
    apply msame_self. lia.
  - inversion HF as [|x' l' Hx Hl]; subst.
    cbn [list_go] in H.
    assert (E1 : Nat.ltb i k = false) by (apply Nat.ltb_ge; lia).
    assert (E2 : Nat.eqb i k = false) by (apply Nat.eqb_neq; lia).
    rewrite E1, E2 in H.
    apply cbind_ok in H. destruct H as [i0 [s1 [Hcx H]]].
    apply Hx in Hcx; [|lia|exact Hwf]. apply spec_depth0 in Hcx.
    destruct Hcx as [P [Kx [Ax (Lx & Wx & Ex & Okx & NTx & Xx)]]].
    apply cbind_ok in H. destruct H as [w [s1' [Hen H]]]. apply enc_ok in Hen. destruct Hen as [-> Ew].
    apply cbind_ok in H. destruct H as [u0 [s2 [Hem H]]]. apply emit_ok in Hem. subst s2.
    set (instr := Z.lor (Z.lor i0 (New ARR)) w) in *.
    destruct (IH Hl (S i) (emitted s1 instr) u s' ltac:(lia) (wfcs_emitted _ _ Wx) H) as [C [Lc [Wc Xc]]].
    exists ((P ++ [instr]) ++ C). conj.
    + apply (lay_trans s (emitted s1 instr) s'); [apply lay_emit; exact Lx|exact Lc].
    + exact Wc.
    + assert (Hdi : decode instr = {| f_op := ARR; f_k0 := Kx; f_k1 := AddrStck; f_k2 := 0; f_a0 := Ax; f_a1 := 0; f_a2 := 0 |})
        by (apply (arr_decode i0 w Kx Ax AddrStck 0 (okind_range Kx Okx) stck_range Ex Ew)).
      destruct Lc as (Rc & Nc & [dc Dc]). cbn [emitted rds] in Dc.
      intros rr v mid m r acc Hc Hdat Hm Hsp Hlf Htop Hip.
      assert (Hi_arr : znth (v_cs v) (ncs s + zlen P) = Some instr).
      { apply code_at_app in Hc. destruct Hc as [Hc _]. exact (code_at_nth v (ncs s) P instr [] Hc). }
      apply code_at_app in Hc. destruct Hc as [HcPi HcC]. apply code_at_app in HcPi. destruct HcPi as [HcP _].
      assert (Hd1 : data_at v s1) by (apply (data_at_ext v s1 s' dc Hdat Dc)).
      pose proof (Xx rr v mid m r HcP Hd1 Hm ltac:(lia) (lfrb_weaken (m_sp m - 1) (m_sp m) m Hlf ltac:(lia)) Hip) as E.
      rewrite app_length, steps_app, length_app1, steps_app. cbn [seq_res].
      destruct (lden LL (v_globals v) x) as [xv|err].
      * destruct E as [m1 [r1 [Hs1 [Hm1 [Hctx1 [Hip1 [Hkeep1 Ho]]]]]]]. rewrite Hs1.
        assert (Hat : at_ip v r1 mid instr).
        { split; [rewrite Hip1; destruct Lx as (_ & N & _); rewrite N; exact Hi_arr|].
          rewrite (cur_mid_ctx v r r1 Hctx1). exact Hm. }
        assert (Hoa : opnd v (m_sp m - 1) AddrStck 0 (VArr acc) m r).
        { left. conj; [reflexivity|lia|exact Htop]. }
        destruct (exec_arr rr v mid instr Kx Ax AddrStck 0 0 0 (m_sp m - 1) m m r m1 r1 acc xv Hat Hdi ltac:(lia)
                           Hoa ltac:(discriminate) (msame_self (m_sp m - 1) m ltac:(lia)) Ho NTx Hm1)
          as [m3 [Hs3 [Hm3 [Hsp3 Hx3]]]].
        rewrite Hs3.
        set (r3 := with_ip r1 (r_ip r1 + 1)).
        assert (HcC' : code_at v (ncs (emitted s1 instr)) C).
        { cbn [emitted ncs]. destruct Lx as (_ & N & _). rewrite N.
          unfold zlen in *. rewrite app_length in HcC. cbn [List.length] in HcC.
          replace (ncs s + Z.of_nat (List.length P) + 1) with (ncs s + Z.of_nat (List.length P + 1)) by lia. exact HcC. }
        assert (Hm3' : cur_mid v r3 = Good mid).
        { rewrite (cur_mid_ctx v r r3); [exact Hm|unfold r3; cbn [with_ip r_ctx]; exact Hctx1]. }
        assert (Hip3 : r_ip r3 = ncs (emitted s1 instr)).
        { unfold r3. cbn [with_ip r_ip emitted ncs]. lia. }
        assert (Hsp3' : 1 <= m_sp m3 <= zlen (m_stack m3)) by (destruct Hm3 as (_&_&_&_&_&B); lia).
        assert (Htop3 : znth (m_stack m3) (m_sp m3 - 1) = Some (VArr (acc ++ [xv]))).
        { rewrite Hsp3. replace (m_sp m - 1 + 1 - 1) with (m_sp m - 1) by lia. exact Hx3. }
        assert (Hlf3 : lfrb (m_sp m3 - 1) m3).
        { rewrite Hsp3. replace (m_sp m - 1 + 1 - 1) with (m_sp m - 1) by lia. apply (lfrb_msame _ m m3 Hlf Hm3). lia. }
        pose proof (Xc rr v mid m3 r3 (acc ++ [xv]) HcC' Hdat Hm3' Hsp3' Hlf3 Htop3 Hip3) as E3.
        destruct (seq_res (lden LL (v_globals v)) l) as [vs|err].
        -- destruct E3 as [m' [r' [Hs' [Hm' [Hsp' [Hx' [Hctx' [Hip' Hkeep']]]]]]]]. rewrite Hs'.
           exists m', r'. rewrite Hsp3 in *.
           replace (m_sp m - 1 + 1) with (m_sp m) in * by lia.
           conj; try assumption; try reflexivity.
           ++ apply (msame_trans (m_sp m - 1) (m_sp m - 1) m m3 m'); [lia|exact Hm3|exact Hm'].
           ++ rewrite <- app_assoc in Hx'. exact Hx'.
           ++ rewrite Hctx'. unfold r3. cbn [with_ip r_ctx]. exact Hctx1.
           ++ intros Hk. rewrite (Hkeep' Hk). unfold r3. cbn [with_ip r_tmp]. apply Hkeep1. exact Hk.
        -- destruct E3 as [me [ip [vals E3]]]. rewrite E3.
           replace (r_ctx r3) with (r_ctx r) by (unfold r3; cbn [with_ip r_ctx]; congruence). eauto.
      * destruct E as [me [ip [vals E]]]. rewrite E. eauto.
Qed.

Lemma skipn_cons_exists {A} (l : list A) k : (k < List.length l)%nat -> exists x r, skipn k l = x :: r.
Proof.
  revert k. induction l as [|y l IH]; intros k H; [cbn in H; lia|].
  destruct k as [|k]; [exists y, l; reflexivity|]. cbn [skipn]. apply IH. cbn in H. lia.
Qed.

Lemma Forall_skipn {A} (P : A -> Prop) k : forall l, Forall P l -> Forall P (skipn k l).
Proof.
  induction k as [|k IH]; intros l H; [exact H|]. destruct l as [|x l]; [constructor|].
  cbn [skipn]. apply IH. inversion H; assumption.
Qed.

Lemma list_spec elems sel fl s s' w :
  0 <= sel <= 2 -> forallb (lpure LL) elems = true ->
  Forall (fun x => compiles (comp x) (fun G => lden LL G x)) elems -> wfcs s ->
  comp (NList elems) sel fl s = COk (w, s') ->
  SpecD (fun G => lden LL G (NList elems)) sel fl s s' w.
Proof.
  intros Hsel Hp HF Hwf H. rewrite comp_list_unfold in H. cbv zeta in H.
  destruct (const_prefix_split elems Hp) as [Hk Hden].
  set (ary := const_prefix elems) in *. set (k := List.length ary) in *.
  apply cbind_ok in H. destruct H as [ix [s0 [Hds H]]].
  apply add_ds_ok in Hds. destruct Hds as [-> ->].
  assert (W0 : wfcs (with_data s (VArr ary))).
  { destruct Hwf as [A1 B1]. unfold wfcs, with_data, zlen in *; cbn [rcs ncs rds nds List.length]. split; lia. }
  assert (L0 : lay s (with_data s (VArr ary)) []).
  { unfold lay, with_data; cbn [rcs ncs rds rev app]. conj; [reflexivity|unfold zlen; cbn; lia|exists [VArr ary]; reflexivity]. }
  destruct (Nat.leb_spec (List.length elems) k) as [Hall|Hsome].
  - (* every element is a constant: the literal is a data segment entry *)
    apply enc_ok in H. destruct H as [-> Ew].
    apply SpecD_lay. exists [], AddrDS, (nds s). conj; try assumption.
    + right. right. left. reflexivity.
    + discriminate.
    + discriminate.
    + intros rr v mid m r _ Hdat _ Hsp Hlf Hip. cbn [lden]. rewrite (Hden (v_globals v)).
      rewrite skipn_all2 by lia. cbn [seq_res]. rewrite app_nil_r.
      exists m, r. cbn [steps List.length]. conj; try reflexivity; try assumption.
      * apply msame_refl. exact Hsp.
      * right. right. left. conj; try reflexivity. apply Hdat. cbn [with_data rds]. rewrite (proj2 Hwf). apply znth_rev_cons.
  - (* the constant prefix is in the data segment, the other elements are appended one by one *)
    apply cbind_ok in H. destruct H as [u [s1 [Hgo H]]]. apply enc_ok in H. destruct H as [-> Ew].
    rewrite (list_go_skip fl k (nds s) elems 0 ltac:(lia) ltac:(lia)) in Hgo. rewrite Nat.sub_0_r in Hgo.
    destruct (skipn_cons_exists elems k Hsome) as [x [rest Esk]].
    pose proof (Forall_skipn _ k elems HF) as HFs. rewrite Esk in HFs, Hgo.
    inversion HFs as [|x' l' Hx Hrest]; subst.
    cbn [list_go] in Hgo. rewrite Nat.ltb_irrefl, Nat.eqb_refl in Hgo.
    apply cbind_ok in Hgo. destruct Hgo as [i0 [sa [Hcx Hgo]]].
    apply Hx in Hcx; [|lia|exact W0]. apply spec_depth0 in Hcx.
    destruct Hcx as [P [Kx [Ax (Lx & Wx & Ex & Okx & NTx & Xx)]]].
    apply cbind_ok in Hgo. destruct Hgo as [wd [sa' [Hen Hgo]]]. apply enc_ok in Hen. destruct Hen as [-> Ewd].
    apply cbind_ok in Hgo. destruct Hgo as [u0 [sb [Hem Hgo]]]. apply emit_ok in Hem. subst sb.
    set (instr := Z.lor (Z.lor i0 (New ARR)) wd) in *.
    destruct (list_rest fl k (nds s) rest Hrest (S k) (emitted sa instr) u s1 ltac:(lia) (wfcs_emitted _ _ Wx) Hgo)
      as [C [Lc [Wc Xc]]].
    assert (Hdi : decode instr = {| f_op := ARR; f_k0 := Kx; f_k1 := AddrDS; f_k2 := 0; f_a0 := Ax; f_a1 := nds s; f_a2 := 0 |})
      by (apply (arr_decode i0 wd Kx Ax AddrDS (nds s) (okind_range Kx Okx) ds_range Ex Ewd)).
    apply SpecD_lay. exists ((P ++ [instr]) ++ C), AddrStck, 0. conj.
    + apply (lay_trans s (emitted sa instr) s1); [|exact Lc].
      apply lay_emit. apply (lay_trans s (with_data s (VArr ary)) sa [] P L0 Lx).
    + exact Wc.
    + exact Ew.
    + left. reflexivity.
    + discriminate.
    + discriminate.
    + destruct Lc as (Rc & Nc & [dc Dc]). cbn [emitted rds] in Dc.
      destruct Lx as (Rx & Nx & [dx Dx]). cbn [with_data ncs] in Nx.
      intros rr v mid m r Hc Hdat Hm Hsp Hlf Hip.
      assert (Hi_arr : znth (v_cs v) (ncs s + zlen P) = Some instr).
      { apply code_at_app in Hc. destruct Hc as [Hc _]. exact (code_at_nth v (ncs s) P instr [] Hc). }
      apply code_at_app in Hc. destruct Hc as [HcPi HcC]. apply code_at_app in HcPi. destruct HcPi as [HcP _].
      assert (Hda : data_at v sa) by (apply (data_at_ext v sa s1 dc Hdat Dc)).
      assert (Hary : znth (v_ds v) (nds s) = Some (VArr ary)).
      { apply Hda. rewrite Dx. cbn [with_data rds]. rewrite rev_app_distr. apply znth_app_l.
        rewrite (proj2 Hwf). apply znth_rev_cons. }
      pose proof (Xx rr v mid m r HcP Hda Hm Hsp Hlf Hip) as E. cbn [with_data ncs] in E.
      rewrite app_length, steps_app, length_app1, steps_app. cbn [lden]. rewrite (Hden (v_globals v)), Esk. cbn [seq_res].
      destruct (lden LL (v_globals v) x) as [xv|err].
      * destruct E as [m1 [r1 [Hs1 [Hm1 [Hctx1 [Hip1 [Hkeep1 Ho]]]]]]]. rewrite Hs1.
        assert (Hat : at_ip v r1 mid instr).
        { split; [rewrite Hip1, Nx; exact Hi_arr|]. rewrite (cur_mid_ctx v r r1 Hctx1). exact Hm. }
        assert (Hoa : opnd v (m_sp m) AddrDS (nds s) (VArr ary) m r).
        { right. right. left. conj; [reflexivity|reflexivity|exact Hary]. }
        destruct (exec_arr rr v mid instr Kx Ax AddrDS (nds s) 0 0 (m_sp m) m m r m1 r1 ary xv Hat Hdi (proj1 Hsp)
                           Hoa ltac:(discriminate) (msame_refl m Hsp) Ho NTx Hm1)
          as [m3 [Hs3 [Hm3 [Hsp3 Hx3]]]].
        rewrite Hs3.
        set (r3 := with_ip r1 (r_ip r1 + 1)).
        assert (HcC' : code_at v (ncs (emitted sa instr)) C).
        { cbn [emitted ncs]. rewrite Nx.
          unfold zlen in *. rewrite app_length in HcC. cbn [List.length] in HcC.
          replace (ncs s + Z.of_nat (List.length P) + 1) with (ncs s + Z.of_nat (List.length P + 1)) by lia. exact HcC. }
        assert (Hm3' : cur_mid v r3 = Good mid).
        { rewrite (cur_mid_ctx v r r3); [exact Hm|unfold r3; cbn [with_ip r_ctx]; exact Hctx1]. }
        assert (Hip3 : r_ip r3 = ncs (emitted sa instr)).
        { unfold r3. cbn [with_ip r_ip emitted ncs]. lia. }
        assert (Hsp3' : 1 <= m_sp m3 <= zlen (m_stack m3)) by (destruct Hm3 as (_&_&_&_&_&B); lia).
        assert (Htop3 : znth (m_stack m3) (m_sp m3 - 1) = Some (VArr (ary ++ [xv]))).
        { rewrite Hsp3. replace (m_sp m + 1 - 1) with (m_sp m) by lia. exact Hx3. }
        assert (Hlf3 : lfrb (m_sp m3 - 1) m3).
        { rewrite Hsp3. replace (m_sp m + 1 - 1) with (m_sp m) by lia. apply (lfrb_msame _ m m3 Hlf Hm3). lia. }
        pose proof (Xc rr v mid m3 r3 (ary ++ [xv]) HcC' Hdat Hm3' Hsp3' Hlf3 Htop3 Hip3) as E3.
        destruct (seq_res (lden LL (v_globals v)) rest) as [vs|err].
        -- destruct E3 as [m' [r' [Hs' [Hm' [Hsp' [Hx' [Hctx' [Hip' Hkeep']]]]]]]]. rewrite Hs'.
           exists m', r'. rewrite Hsp3 in *.
           replace (m_sp m + 1 - 1) with (m_sp m) in * by lia.
           conj; try assumption; try reflexivity.
           ++ apply (msame_trans (m_sp m) (m_sp m) m m3 m'); [lia|exact Hm3|exact Hm'].
           ++ rewrite Hctx'. unfold r3. cbn [with_ip r_ctx]. exact Hctx1.
           ++ intros Hkp. rewrite (Hkeep' Hkp). unfold r3. cbn [with_ip r_tmp]. apply Hkeep1. exact Hkp.
           ++ left. conj; [reflexivity|exact Hsp'|]. rewrite <- app_assoc in Hx'. exact Hx'.
        -- destruct E3 as [me [ip [vals E3]]]. rewrite E3.
           replace (r_ctx r3) with (r_ctx r) by (unfold r3; cbn [with_ip r_ctx]; congruence). eauto.
      * destruct E as [me [ip [vals E]]]. rewrite E. eauto.
Qed.

(* ================= every pure expression over locals and globals ================= *)
Theorem comp_lpure_spec : forall e, lpure LL e = true -> compiles (comp e) (fun G => lden LL G e).
Proof.
  apply (lpure_induction LL (fun e => compiles (comp e) (fun G => lden LL G e))).
  - intros i sel fl cs w cs' Hsel Hwf H. exact (const_spec _ sel fl cs cs' w Hwf H).
  - intros f _ sel fl cs w cs' Hsel Hwf H. exact (const_spec _ sel fl cs cs' w Hwf H).
  - intros s sel fl cs w cs' Hsel Hwf H. exact (const_spec _ sel fl cs cs' w Hwf H).
  - intros b sel fl cs w cs' Hsel Hwf H. exact (const_spec _ sel fl cs cs' w Hwf H).
  - intros g sel fl cs w cs' Hsel Hwf H. exact (name_spec _ sel fl cs cs' w Hwf H).
  - intros ix n Hix sel fl cs w cs' Hsel Hwf H. exact (local_spec ix n sel fl cs cs' w Hix Hwf H).
  - (* NBin *)
    intros op c e1 e2 Hc Hp1 Hp2 IH1 IH2 sel fl cs w cs' Hsel Hwf H.
    cbn [comp] in H. rewrite (has_call_lpure LL e2 Hp2) in H.
    apply (SpecD_ext (dbin c (fun G => lden LL G e1) (fun G => lden LL G e2))).
    { intros G. unfold dbin. cbn [lden]. rewrite Hc. reflexivity. }
    apply (binop_spec op c (comp e1) (comp e2) (is_list_node e1 || is_list_node e2) (node_eqb e1 e2)); try assumption.
    intros _ Hs G. rewrite (node_eqb_lpure LL e1 Hp1 e2 Hp2 Hs). reflexivity.
  - (* NUn *)
    intros op e Ho Hpt IHe sel fl cs w cs' Hsel Hwf H.
    cbn [comp] in H. destruct (String.eqb op "-") eqn:Hm.
    + rewrite (has_call_lpure LL e Hpt) in H.
      apply SpecD_pass.
      apply (SpecD_ext (dbin MUL (fun _ => Ok (VInt (-1))) (fun G => lden LL G e))).
      { intros G. unfold dbin. cbn [lden]. destruct (lden LL G e) as [a|err]; [|reflexivity].
        unfold unop_sem. rewrite Hm. reflexivity. }
      apply (binop_spec "*" MUL (fun sel _ => comp_const (VInt (-1)) sel) (comp e) (is_list_node e)
                        (node_eqb (NInt (-1)) e)); try assumption.
      * reflexivity.
      * apply const_compiles.
      * intros _ Hs G. rewrite <- (node_eqb_lpure LL (NInt (-1)) eq_refl e Hpt Hs). reflexivity.
    + destruct (unop_sem_oc op VNil Ho Hm) as [oc [Eoc [Hu _]]]. rewrite Eoc in H.
      apply (SpecD_ext (dun oc (fun G => lden LL G e))).
      { intros G. unfold dun. cbn [lden]. destruct (lden LL G e) as [a|err]; [|reflexivity].
        destruct (unop_sem_oc op a Ho Hm) as [oc' [Eoc' [_ Es]]]. rewrite Eoc in Eoc'. injection Eoc' as <-.
        rewrite Es. reflexivity. }
      apply (unop_spec oc (comp e)); try assumption.
  - (* NList *)
    intros l Hp HF sel fl cs w cs' Hsel Hwf H. apply (list_spec l sel fl cs cs' w Hsel Hp HF Hwf H).
  - (* NIndexAt *)
    intros a i Ha Hi IHa IHi sel fl cs w cs' Hsel Hwf H. cbn [comp] in H.
    apply (SpecD_ext (dtwo Index1 (fun G => lden LL G a) (fun G => lden LL G i))).
    { intros G. reflexivity. }
    apply (ix1_spec (comp a) (comp i)); assumption.
  - (* NIndexFromTo *)
    intros a f t Ha Hf Ht IHa IHf IHt sel fl cs w cs' Hsel Hwf H. cbn [comp] in H.
    apply (SpecD_ext (dthree Index2 (fun G => lden LL G a) (fun G => lden LL G f) (fun G => lden LL G t))).
    { intros G. reflexivity. }
    apply (ix2_spec (comp a) (comp f) (comp t)); assumption.
Qed.
End Loc.
