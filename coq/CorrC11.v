(* CorrC11.v — executable comparison of the value-operator model with what
   the Go methods returned (correspondence run of C11, C17). *)
Require Import Calc.Base Calc.Bytecode Calc.Value Calc.FloatText.
Open Scope Z_scope.

Definition binop_code (op : string) : option Z :=
  if String.eqb op "+" then Some ADD else if String.eqb op "-" then Some SUB
  else if String.eqb op "*" then Some MUL else if String.eqb op "/" then Some DIV
  else if String.eqb op "%" then Some MOD
  else if String.eqb op "&" then Some AND else if String.eqb op "|" then Some OR
  else if String.eqb op "<" then Some LT else if String.eqb op ">" then Some GT
  else if String.eqb op "<=" then Some LE else if String.eqb op ">=" then Some GE
  else if String.eqb op "==" then Some EQ else if String.eqb op "!=" then Some NE
  else if String.eqb op "<<" then Some LSH else if String.eqb op ">>" then Some RSH
  else None.

Definition model_op (op : string) (args : list value) : option (res value) :=
  match binop_code op, args with
  | Some c, [a; b] => Some (apply_binop c a b)
  | _, _ =>
      match args with
      | [a] =>
          if String.eqb op "flip" then Some (Flip a)
          else if String.eqb op "not" then Some (Not a)
          else if String.eqb op "len" then Some (Len a)
          else None
      | [a; b] =>
          if String.eqb op "ix1" then Some (Index1 a b)
          else if String.eqb op "stricteq" then Some (Ok (VBool (StrictEq a b)))
          else None
      | [a; b; c] => if String.eqb op "ix2" then Some (Index2 a b c) else None
      | _ => None
      end
  end.

(* (op, args, what Go returned) *)
Definition chk_valop (c : string * list value * res value) : bool :=
  let '(op, args, r) := c in
  match model_op op args with
  | Some m => res_same m r
  | None => false
  end.

Definition model_text (op : string) (v : value) : string :=
  if String.eqb op "string" then to_string fmt_float v
  else if String.eqb op "display" then display fmt_float v
  else abbrev fmt_float v.

Definition chk_text (c : string * value * string) : bool :=
  let '(op, v, s) := c in String.eqb (model_text op v) s.
