(* MemRefine.v — C18: the Go memory algorithm refines the activation
   specification, for every history of frame, operand, variable, global and
   clone operations (the operations through which closures alias frames are
   left to the run: that is where finding K1 lives).

   Simulation: the first sp cells of the Go stack slice are the flattening of
   the specification's activations (base operands, then for each activation
   its locals and its operands), the frame pointer list holds each
   activation's bounds, and whatever lies beyond sp is junk that no read sees. *)
Require Import Calc.Base Calc.Bytecode Calc.Value Calc.FloatText Calc.Compile Calc.VM Calc.MemProofs Calc.Mem18.
Require Import Lia.
Open Scope Z_scope.

(* ---------- lists ---------- *)
Lemma zlen_app {A} (a b : list A) : zlen (a ++ b) = zlen a + zlen b.
Proof. unfold zlen. rewrite app_length. lia. Qed.

Lemma zlen_nonneg {A} (a : list A) : 0 <= zlen a.
Proof. unfold zlen. lia. Qed.

Lemma zset_app_l {A} (a b : list A) i v : (i < List.length a)%nat -> zset (a ++ b) i v = zset a i v ++ b.
Proof.
  revert i. induction a as [|x a IH]; intros i H; cbn in *; [lia|].
  destruct i as [|i]; cbn; [reflexivity|]. rewrite IH by lia. reflexivity.
Qed.

Lemma zset_app_r {A} (a b : list A) i v : zset (a ++ b) (List.length a + i) v = a ++ zset b i v.
Proof. induction a as [|x a IH]; cbn; [reflexivity|]. rewrite IH. reflexivity. Qed.

Lemma znth_app_l {A} (a b : list A) i : 0 <= i < zlen a -> znth (a ++ b) i = znth a i.
Proof.
  intros H. unfold znth, zlen in *. destruct (Z.ltb_spec i 0); [lia|]. apply nth_error_app1. lia.
Qed.

Lemma znth_app_r {A} (a b : list A) i : zlen a <= i -> znth (a ++ b) i = znth b (i - zlen a).
Proof.
  intros H. unfold znth, zlen in *. pose proof (Nat2Z.is_nonneg (List.length a)).
  destruct (Z.ltb_spec i 0); [lia|]. destruct (Z.ltb_spec (i - Z.of_nat (List.length a)) 0); [lia|].
  rewrite nth_error_app2 by lia. f_equal. lia.
Qed.

Lemma znth_last {A} (a : list A) x : znth (a ++ [x]) (zlen a) = Some x.
Proof. rewrite znth_app_r by lia. replace (zlen a - zlen a) with 0 by lia. reflexivity. Qed.

Lemma fill_nil_app (a b : list value) k :
  (k <= List.length b)%nat -> fill_nil (a ++ b) (List.length a) k = a ++ repeat VNil k ++ skipn k b.
Proof.
  revert a b. induction k as [|k IH]; intros a b H; cbn [fill_nil repeat skipn app]; [reflexivity|].
  destruct b as [|y b]; [cbn in H; lia|].
  replace (List.length a) with (List.length a + 0)%nat at 1 by lia. rewrite zset_app_r. cbn [zset].
  replace (a ++ VNil :: b) with ((a ++ [VNil]) ++ b) by (rewrite <- app_assoc; reflexivity).
  replace (S (List.length a)) with (List.length (a ++ [VNil])) by (rewrite app_length; cbn; lia).
  rewrite IH by (cbn in H; lia). rewrite <- app_assoc. reflexivity.
Qed.

Lemma last_opt_snoc {A} (l : list A) x : last_opt (l ++ [x]) = Some x.
Proof. unfold last_opt. rewrite app_length. cbn. rewrite nth_error_app2 by lia. replace (_ - _)%nat with 0%nat by lia. reflexivity. Qed.

Lemma drop_last_snoc {A} (l : list A) x : drop_last 1 (l ++ [x]) = l.
Proof. unfold drop_last. rewrite app_length. cbn. replace (_ - 1)%nat with (List.length l) by lia. rewrite firstn_app, Nat.sub_diag, firstn_all. cbn. apply app_nil_r. Qed.

Lemma last_opt_inv {A} (l : list A) x : last_opt l = Some x -> exists l', l = l' ++ [x].
Proof.
  intros H. destruct l as [|y l] using rev_ind; [discriminate|]. rewrite last_opt_snoc in H. inversion H; subst. eauto.
Qed.

Lemma last_opt_none {A} (l : list A) : last_opt l = None -> l = [].
Proof. destruct l as [|y l] using rev_ind; [reflexivity|]. rewrite last_opt_snoc. discriminate. Qed.

(* ---------- the simulation relation for one memory ---------- *)
Definition act_cells (a : aact) : list value := aa_locals a ++ aa_ops a.
Definition flat_acts (acts : list aact) : list value := List.concat (map act_cells acts).
Definition flat (am : amem) : list value := am_base am ++ flat_acts (am_acts am).

Fixpoint fps (start : Z) (acts : list aact) : list Z :=
  match acts with
  | [] => []
  | a :: r => start :: (start + zlen (aa_locals a)) :: fps (start + zlen (act_cells a)) r
  end.

Lemma flat_acts_snoc acts a : flat_acts (acts ++ [a]) = flat_acts acts ++ act_cells a.
Proof. unfold flat_acts. rewrite map_app, concat_app. cbn. rewrite app_nil_r. reflexivity. Qed.

Lemma flat_acts_nil : flat_acts [] = [].
Proof. reflexivity. Qed.
Lemma flat_acts_cons b acts : flat_acts (b :: acts) = act_cells b ++ flat_acts acts.
Proof. reflexivity. Qed.

Lemma fps_snoc acts : forall start a,
  fps start (acts ++ [a]) = fps start acts ++ [start + zlen (flat_acts acts); start + zlen (flat_acts acts) + zlen (aa_locals a)].
Proof.
  induction acts as [|b acts IH]; intros start a; cbn [app fps].
  - rewrite flat_acts_nil. change (zlen (@nil value)) with 0. rewrite !Z.add_0_r. reflexivity.
  - rewrite IH. cbn [app]. rewrite flat_acts_cons, zlen_app. rewrite !Z.add_assoc. reflexivity.
Qed.

Definition Rm (gm : mem) (am : amem) : Prop :=
  exists junk,
    m_stack gm = flat am ++ junk /\ m_sp gm = zlen (flat am) /\
    m_fp gm = fps (zlen (am_base am)) (am_acts am) /\
    m_serials gm = map aa_serial (am_acts am) /\ m_clos gm = [] /\ am_clos am = [].

Lemma fp_at_snoc2 m l x y : m_fp m = l ++ [x; y] -> fp_at m (-2) = Good x /\ fp_at m (-1) = Good y.
Proof.
  intros H. unfold fp_at, znth, zlen. rewrite H, app_length. cbn [List.length].
  split.
  - destruct (Z.ltb_spec (Z.of_nat (List.length l + 2) + -2) 0); [lia|].
    replace (Z.to_nat (Z.of_nat (List.length l + 2) + -2)) with (List.length l + 0)%nat by lia.
    rewrite nth_error_app2 by lia. replace (_ - _)%nat with 0%nat by lia. reflexivity.
  - destruct (Z.ltb_spec (Z.of_nat (List.length l + 2) + -1) 0); [lia|].
    replace (Z.to_nat (Z.of_nat (List.length l + 2) + -1)) with (List.length l + 1)%nat by lia.
    rewrite nth_error_app2 by lia. replace (_ - _)%nat with 1%nat by lia. reflexivity.
Qed.

Lemma fp_at_nil m k : m_fp m = [] -> k < 0 -> exists w, fp_at m k = Abort w.
Proof.
  intros H Hk. unfold fp_at, znth, zlen. rewrite H. cbn. destruct (Z.ltb_spec k 0); [|lia]. eexists. reflexivity.
Qed.

(* the top activation, when there is one *)
Lemma top_act am a : last_opt (am_acts am) = Some a ->
  exists acts, am_acts am = acts ++ [a] /\
    flat am = (am_base am ++ flat_acts acts) ++ aa_locals a ++ aa_ops a.
Proof.
  intros H. destruct (last_opt_inv _ _ H) as [acts E]. exists acts. split; [exact E|].
  unfold flat. rewrite E, flat_acts_snoc. unfold act_cells. rewrite <- app_assoc. reflexivity.
Qed.

(* ---------- the current operand stack ---------- *)
Definition prefix (am : amem) : list value :=
  match last_opt (am_acts am) with
  | Some a => (am_base am ++ flat_acts (drop_last 1 (am_acts am))) ++ aa_locals a
  | None => []
  end.

Lemma flat_prefix am : flat am = prefix am ++ a_ops am.
Proof.
  unfold prefix, a_ops. destruct (last_opt (am_acts am)) as [a|] eqn:L.
  - destruct (last_opt_inv _ _ L) as [acts E]. unfold flat. rewrite E, drop_last_snoc, flat_acts_snoc.
    unfold act_cells. rewrite <- !app_assoc. reflexivity.
  - apply last_opt_none in L. unfold flat. rewrite L. cbn. rewrite app_nil_r. reflexivity.
Qed.

Lemma with_ops_facts am o' :
  flat (a_with_ops am o') = prefix am ++ o' /\
  fps (zlen (am_base (a_with_ops am o'))) (am_acts (a_with_ops am o')) = fps (zlen (am_base am)) (am_acts am) /\
  map aa_serial (am_acts (a_with_ops am o')) = map aa_serial (am_acts am) /\
  am_clos (a_with_ops am o') = am_clos am.
Proof.
  unfold a_with_ops, prefix. destruct (last_opt (am_acts am)) as [a|] eqn:L.
  - destruct (last_opt_inv _ _ L) as [acts E]. cbn [am_base am_acts am_clos]. rewrite E, drop_last_snoc.
    repeat split.
    + unfold flat. cbn [am_base am_acts]. rewrite flat_acts_snoc. unfold act_cells. cbn [aa_locals aa_ops].
      rewrite <- !app_assoc. reflexivity.
    + rewrite !fps_snoc. reflexivity.
    + rewrite !map_app. reflexivity.
  - apply last_opt_none in L. cbn [am_base am_acts am_clos]. rewrite L. repeat split. unfold flat. cbn. rewrite app_nil_r. reflexivity.
Qed.

Lemma growStack_app m n :
  exists extra, m_stack (fst (growStack m n)) = m_stack m ++ extra /\
    m_sp (fst (growStack m n)) = m_sp m /\ m_fp (fst (growStack m n)) = m_fp m /\
    m_clos (fst (growStack m n)) = m_clos m /\ m_serials (fst (growStack m n)) = m_serials m.
Proof.
  unfold growStack. destruct (m_sp m + n >=? zlen (m_stack m)); cbn.
  - eexists. repeat split; reflexivity.
  - exists []. rewrite app_nil_r. repeat split; reflexivity.
Qed.

Lemma rm_sp_bounds gm am : Rm gm am -> 0 <= m_sp gm <= zlen (m_stack gm).
Proof.
  intros (junk & Es & Esp & _). rewrite Esp, Es, zlen_app. pose proof (zlen_nonneg (flat am)). pose proof (zlen_nonneg junk). lia.
Qed.

(* ---------- Push and Pop ---------- *)
Lemma rm_push gm am v :
  Rm gm am -> exists gm' g, mPush gm v = Good (gm', g) /\ Rm gm' (a_with_ops am (a_ops am ++ [v])).
Proof.
  intros R. pose proof (rm_sp_bounds gm am R) as B. destruct R as (junk & Es & Esp & Efp & Eser & Ecl & Eacl).
  unfold mPush. destruct (growStack gm 1) as [m1 g] eqn:G.
  destruct (growStack_app gm 1) as (extra & S1 & SP1 & FP1 & CL1 & SER1). rewrite G in *. cbn [fst] in *.
  pose proof (growStack_room gm 1 B ltac:(lia)) as Room. rewrite G in Room. cbn [fst] in Room.
  rewrite Es, <- app_assoc in S1. set (junk' := junk ++ extra) in *.
  assert (J : exists y tl, junk' = y :: tl).
  { destruct junk' as [|y tl]; [|eauto]. rewrite S1, app_nil_r in Room. lia. }
  destruct J as (y & tl & EJ). rewrite EJ in S1.
  unfold stack_set. rewrite SP1, Esp, S1.
  assert (Lt : (zlen (flat am) <? 0) || (zlen (flat am) >=? zlen (flat am ++ y :: tl)) = false).
  { apply Bool.orb_false_iff. unfold zlen. rewrite app_length. cbn [List.length].
    split; [apply Z.ltb_ge; lia|]. rewrite Z.geb_leb. apply Z.leb_gt. lia. }
  rewrite Lt. cbn [obind with_stack m_stack m_sp].
  eexists. eexists. split; [reflexivity|].
  destruct (with_ops_facts am (a_ops am ++ [v])) as (F1 & F2 & F3 & F4).
  exists tl. cbn [m_stack m_sp m_fp m_serials m_clos with_stack].
  unfold zlen at 1. rewrite Nat2Z.id.
  replace (List.length (flat am)) with (List.length (flat am) + 0)%nat by lia. rewrite zset_app_r. cbn [zset].
  rewrite F1, F2, F3, F4, (flat_prefix am), <- !app_assoc. cbn [app].
  repeat split; try assumption; try congruence.
  unfold zlen. rewrite !app_length. cbn [List.length]. lia.
Qed.

Lemma rm_pop gm am x :
  Rm gm am -> last_opt (a_ops am) = Some x ->
  exists gm', mPop gm = Good (gm', x) /\ Rm gm' (a_with_ops am (drop_last 1 (a_ops am))).
Proof.
  intros (junk & Es & Esp & Efp & Eser & Ecl & Eacl) L.
  destruct (last_opt_inv _ _ L) as [o' Eo].
  destruct (with_ops_facts am (drop_last 1 (a_ops am))) as (F1 & F2 & F3 & F4).
  rewrite Eo, drop_last_snoc in *.
  assert (Ef : flat am = (prefix am ++ o') ++ [x]) by (rewrite flat_prefix, Eo, app_assoc; reflexivity).
  unfold mPop, stack_get. rewrite Esp, Es, Ef.
  replace (zlen ((prefix am ++ o') ++ [x]) - 1) with (zlen (prefix am ++ o')) by (unfold zlen; rewrite !app_length; cbn [List.length]; lia).
  rewrite <- app_assoc. rewrite znth_app_r by lia. replace (zlen (prefix am ++ o') - zlen (prefix am ++ o')) with 0 by lia.
  cbn [app znth]. cbn. eexists. split; [reflexivity|].
  exists (x :: junk). cbn [m_stack m_sp m_fp m_serials m_clos with_stack].
  rewrite F1, F2, F3, F4. repeat split; try assumption; try congruence.
Qed.

(* ---------- the top activation ---------- *)
Lemma znth_some_bounds {A} (l : list A) i x : znth l i = Some x -> 0 <= i < zlen l.
Proof.
  unfold znth, zlen. destruct (Z.ltb_spec i 0) as [Hi|Hi]; [discriminate|]. intros Hx.
  assert (Z.to_nat i < List.length l)%nat by (apply nth_error_Some; congruence). lia.
Qed.

Lemma top_layout gm am a :
  Rm gm am -> last_opt (am_acts am) = Some a ->
  exists acts junk,
    am_acts am = acts ++ [a] /\
    m_stack gm = (am_base am ++ flat_acts acts) ++ aa_locals a ++ aa_ops a ++ junk /\
    m_sp gm = zlen (am_base am ++ flat_acts acts) + zlen (aa_locals a) + zlen (aa_ops a) /\
    fp_at gm (-2) = Good (zlen (am_base am ++ flat_acts acts)) /\
    fp_at gm (-1) = Good (zlen (am_base am ++ flat_acts acts) + zlen (aa_locals a)).
Proof.
  intros (junk & Es & Esp & Efp & Eser & Ecl & Eacl) L.
  destruct (top_act am a L) as (acts & E & Ef). exists acts, junk.
  rewrite E, fps_snoc in Efp. destruct (fp_at_snoc2 gm _ _ _ Efp) as [F2 F1].
  rewrite Es, Esp, Ef. repeat split.
  - exact E.
  - rewrite <- !app_assoc. reflexivity.
  - rewrite !zlen_app. lia.
  - rewrite F2. rewrite zlen_app. reflexivity.
  - rewrite F1. rewrite zlen_app. reflexivity.
Qed.

Lemma rm_local gm am a i x :
  Rm gm am -> last_opt (am_acts am) = Some a -> znth (aa_locals a) i = Some x -> mLookUpLocal gm i = Good x.
Proof.
  intros R L Hx. destruct (top_layout gm am a R L) as (acts & junk & E & Es & Esp & F2 & F1).
  pose proof (znth_some_bounds _ _ _ Hx) as B.
  unfold mLookUpLocal. rewrite F2. cbn [obind]. unfold stack_get. rewrite Es.
  rewrite znth_app_r by lia. replace (zlen (am_base am ++ flat_acts acts) + i - zlen (am_base am ++ flat_acts acts)) with i by lia.
  rewrite znth_app_l by lia. rewrite Hx. reflexivity.
Qed.

Lemma rm_ipget gm am a x r :
  Rm gm am -> last_opt (am_acts am) = Some a -> aa_ops a = x :: r ->
  exists le, fp_at gm (-1) = Good le /\ stack_get gm le = Good x.
Proof.
  intros R L Ho. destruct (top_layout gm am a R L) as (acts & junk & E & Es & Esp & F2 & F1).
  eexists. split; [exact F1|]. unfold stack_get. rewrite Es, Ho.
  rewrite znth_app_r by (pose proof (zlen_nonneg (aa_locals a)); lia).
  replace (zlen (am_base am ++ flat_acts acts) + zlen (aa_locals a) - zlen (am_base am ++ flat_acts acts)) with (zlen (aa_locals a)) by lia.
  rewrite znth_app_r by lia. replace (zlen (aa_locals a) - zlen (aa_locals a)) with 0 by lia. reflexivity.
Qed.

Lemma zlen_zset {A} (l : list A) i v : zlen (zset l i v) = zlen l.
Proof. unfold zlen. rewrite zset_length. reflexivity. Qed.

Lemma stack_set_ok m i v :
  0 <= i < zlen (m_stack m) -> stack_set m i v = Good (with_stack m (zset (m_stack m) (Z.to_nat i) v) (m_sp m)).
Proof.
  intros H. unfold stack_set.
  assert (E : (i <? 0) || (i >=? zlen (m_stack m)) = false).
  { apply Bool.orb_false_iff. split; [apply Z.ltb_ge; lia|]. rewrite Z.geb_leb. apply Z.leb_gt. lia. }
  rewrite E. reflexivity.
Qed.

Lemma rm_set gm am a i v :
  Rm gm am -> last_opt (am_acts am) = Some a -> 0 <= i < zlen (aa_locals a) ->
  exists gm', mSet gm i v = Good gm' /\ Rm gm' (a_with_locals am a (zset (aa_locals a) (Z.to_nat i) v)).
Proof.
  intros R L Hi. destruct (top_layout gm am a R L) as (acts & junk & E & Es & Esp & F2 & F1).
  destruct R as (junk0 & _ & _ & Efp & Eser & Ecl & Eacl).
  set (P := am_base am ++ flat_acts acts) in *.
  unfold mSet. rewrite F2. cbn [obind].
  rewrite stack_set_ok by (rewrite Es, !zlen_app; pose proof (zlen_nonneg P); pose proof (zlen_nonneg (aa_ops a)); pose proof (zlen_nonneg junk); lia).
  eexists. split; [reflexivity|].
  exists junk. cbn [with_stack m_stack m_sp m_fp m_serials m_clos].
  unfold a_with_locals. cbn [am_base am_acts am_clos]. rewrite E, drop_last_snoc.
  repeat split.
  - rewrite Es. replace (Z.to_nat (zlen P + i)) with (List.length P + Z.to_nat i)%nat by (unfold zlen; lia).
    rewrite zset_app_r. rewrite zset_app_l by (unfold zlen in Hi; lia).
    unfold flat. cbn [am_base am_acts]. rewrite flat_acts_snoc. unfold act_cells. cbn [aa_locals aa_ops]. unfold P.
    rewrite <- !app_assoc. reflexivity.
  - rewrite Esp. unfold flat. cbn [am_base am_acts]. rewrite flat_acts_snoc. unfold act_cells. cbn [aa_locals aa_ops]. fold P.
    rewrite !zlen_app, zlen_zset. unfold P. rewrite zlen_app. lia.
  - rewrite Efp, E, !fps_snoc. cbn [aa_locals]. rewrite zlen_zset. reflexivity.
  - rewrite Eser, E, !map_app. reflexivity.
  - exact Ecl.
  - exact Eacl.
Qed.

Lemma rm_ipset gm am a x r v :
  Rm gm am -> last_opt (am_acts am) = Some a -> aa_ops a = x :: r ->
  exists le gm', fp_at gm (-1) = Good le /\ stack_set gm le v = Good gm' /\ Rm gm' (a_with_ops am (v :: r)).
Proof.
  intros R L Ho. destruct (top_layout gm am a R L) as (acts & junk & E & Es & Esp & F2 & F1).
  destruct R as (junk0 & _ & _ & Efp & Eser & Ecl & Eacl).
  set (P := am_base am ++ flat_acts acts) in *.
  eexists. eexists. split; [exact F1|].
  rewrite stack_set_ok by (rewrite Es, Ho; unfold zlen; rewrite !app_length; cbn [List.length]; lia).
  split; [reflexivity|].
  destruct (with_ops_facts am (v :: r)) as (G1 & G2 & G3 & G4).
  exists junk. cbn [with_stack m_stack m_sp m_fp m_serials m_clos].
  rewrite G1, G2, G3, G4.
  assert (Pre : prefix am = P ++ aa_locals a).
  { unfold prefix. rewrite L, E, drop_last_snoc. reflexivity. }
  repeat split; try assumption.
  - rewrite Es, Ho, Pre.
    replace (Z.to_nat (zlen P + zlen (aa_locals a))) with (List.length (P ++ aa_locals a) + 0)%nat by (unfold zlen; rewrite app_length; lia).
    rewrite !app_assoc. rewrite <- (app_assoc (P ++ aa_locals a)). rewrite zset_app_r. cbn [app zset].
    rewrite <- !app_assoc. reflexivity.
  - rewrite Esp, Ho, Pre. unfold zlen. rewrite !app_length. cbn [List.length]. lia.
Qed.

(* ---------- PushFrame and PopFrame ---------- *)
Lemma zlen_repeat {A} (x : A) n : zlen (repeat x n) = Z.of_nat n.
Proof. unfold zlen. rewrite repeat_length. reflexivity. Qed.

Lemma rm_pushframe gm am a l ser :
  Rm gm am -> 0 <= a -> a <= l -> a <= zlen (a_ops am) ->
  let ops := a_ops am in
  let k := (List.length ops - Z.to_nat a)%nat in
  let m1 := a_with_ops am (firstn k ops) in
  let act := {| aa_serial := ser; aa_locals := skipn k ops ++ repeat VNil (Z.to_nat (l - a)); aa_ops := [] |} in
  exists gm' g, mPushFrame gm a l ser = Good (gm', g) /\
    Rm gm' {| am_base := am_base m1; am_acts := am_acts m1 ++ [act]; am_clos := am_clos m1 |}.
Proof.
  intros R Ha Hal Hops ops k m1 act. pose proof (rm_sp_bounds gm am R) as B.
  destruct R as (junk & Es & Esp & Efp & Eser & Ecl & Eacl).
  unfold mPushFrame. destruct (growStack gm (l - a)) as [g1 g] eqn:G.
  destruct (growStack_app gm (l - a)) as (extra & S1 & SP1 & FP1 & CL1 & SER1). rewrite G in *. cbn [fst] in *.
  pose proof (growStack_room gm (l - a) B ltac:(lia)) as Room. rewrite G in Room. cbn [fst] in Room.
  rewrite Es, <- app_assoc in S1. set (junk' := junk ++ extra) in *.
  assert (RoomJ : l - a <= zlen junk').
  { rewrite S1, zlen_app, Esp in Room. lia. }
  assert (Chk : (l - a >? 0) && (m_sp g1 + (l - a) >? zlen (m_stack g1)) = false).
  { apply Bool.andb_false_iff. right. rewrite SP1, Z.gtb_ltb. apply Z.ltb_ge. exact Room. }
  rewrite Chk. eexists. eexists. split; [reflexivity|].
  destruct (with_ops_facts am (firstn k ops)) as (F1 & F2 & F3 & F4). fold m1 in F1, F2, F3, F4.
  assert (Eops : firstn k ops ++ skipn k ops = ops) by apply firstn_skipn.
  assert (Lsk : zlen (skipn k ops) = a).
  { unfold zlen. rewrite skipn_length. unfold k. unfold zlen in Hops. fold ops in Hops. lia. }
  assert (Ef1 : flat m1 ++ skipn k ops = flat am).
  { rewrite F1, (flat_prefix am), <- app_assoc. fold ops. rewrite Eops. reflexivity. }
  exists (skipn (Z.to_nat (l - a)) junk').
  cbn [m_stack m_sp m_fp m_serials m_clos am_base am_acts am_clos].
  assert (Efl : flat {| am_base := am_base m1; am_acts := am_acts m1 ++ [act]; am_clos := am_clos m1 |}
                = flat am ++ repeat VNil (Z.to_nat (l - a))).
  { unfold flat at 1. cbn [am_base am_acts]. rewrite flat_acts_snoc. unfold act_cells, act. cbn [aa_locals aa_ops].
    rewrite app_nil_r, !app_assoc. fold (flat m1). rewrite Ef1. reflexivity. }
  rewrite Efl. repeat split.
  - rewrite SP1, Esp, S1. unfold zlen at 1. rewrite Nat2Z.id.
    rewrite fill_nil_app by (unfold zlen in RoomJ; lia). rewrite <- app_assoc. reflexivity.
  - rewrite SP1, Esp, zlen_app, zlen_repeat. lia.
  - rewrite FP1, Efp, fps_snoc, F2. f_equal. unfold act. cbn [aa_locals].
    assert (Z1 : zlen (am_base m1) + zlen (flat_acts (am_acts m1)) = zlen (flat am) - a).
    { rewrite <- zlen_app. fold (flat m1). rewrite <- Ef1, zlen_app, Lsk. lia. }
    rewrite Z1, SP1, Esp, zlen_app, Lsk, zlen_repeat. f_equal; [lia|f_equal; lia].
  - rewrite SER1, Eser, map_app, F3. reflexivity.
  - rewrite CL1. exact Ecl.
  - rewrite F4. exact Eacl.
Qed.

Lemma drop_last_app2 {A} (l : list A) x y : drop_last 2 (l ++ [x; y]) = l.
Proof.
  unfold drop_last. rewrite app_length. cbn [List.length]. replace (_ - 2)%nat with (List.length l) by lia.
  rewrite firstn_app, Nat.sub_diag, firstn_all. cbn. apply app_nil_r.
Qed.

Lemma rm_popframe gm am :
  Rm gm am -> am_acts am <> [] ->
  exists gm', mPopFrame gm = Good gm' /\
    Rm gm' {| am_base := am_base am; am_acts := drop_last 1 (am_acts am); am_clos := am_clos am |}.
Proof.
  intros R Hne.
  destruct (last_opt (am_acts am)) as [a|] eqn:L; [|apply last_opt_none in L; contradiction].
  destruct (top_layout gm am a R L) as (acts & junk & E & Es & Esp & F2 & F1).
  destruct R as (junk0 & _ & _ & Efp & Eser & Ecl & Eacl).
  unfold mPopFrame. rewrite F2. cbn [obind]. eexists. split; [reflexivity|].
  exists (aa_locals a ++ aa_ops a ++ junk).
  cbn [m_stack m_sp m_fp m_serials m_clos am_base am_acts am_clos]. rewrite E, drop_last_snoc.
  unfold flat. cbn [am_base am_acts]. repeat split.
  - exact Es.
  - rewrite Efp, E, fps_snoc, drop_last_app2. reflexivity.
  - rewrite Eser, E, map_app. cbn [map]. rewrite drop_last_snoc. reflexivity.
  - exact Ecl.
  - exact Eacl.
Qed.

(* ---------- Clone ---------- *)
Definition clone_of (am : amem) (ser : Z) : amem :=
  {| am_base := [];
     am_acts := match last_opt (am_acts am) with
                | Some a => [{| aa_serial := ser; aa_locals := aa_locals a; aa_ops := aa_ops a |}]
                | None => []
                end;
     am_clos := match last_opt (am_clos am) with Some f => [f] | None => [] end |}.

Lemma fps_len start acts : zlen (fps start acts) = 2 * zlen acts.
Proof.
  revert start. induction acts as [|a acts IH]; intros start; [reflexivity|].
  cbn [fps]. unfold zlen in *. cbn [List.length]. rewrite !Nat2Z.inj_succ, IH. lia.
Qed.

Lemma firstn_skipn_mid {A} (p x y : list A) : firstn (List.length x) (skipn (List.length p) (p ++ x ++ y)) = x.
Proof.
  rewrite skipn_app, skipn_all, Nat.sub_diag. cbn [app skipn].
  rewrite firstn_app, Nat.sub_diag, firstn_all. cbn. apply app_nil_r.
Qed.

Lemma rm_clone gm am ser :
  Rm gm am -> exists c, mClone gm ser = Good c /\ Rm c (clone_of am ser).
Proof.
  intros R. pose proof R as (junk & Es & Esp & Efp & Eser & Ecl & Eacl).
  unfold mClone, clone_of. rewrite Ecl, Eacl. cbn [last_opt List.length nth_error Nat.sub].
  destruct (last_opt (am_acts am)) as [a|] eqn:L.
  - destruct (top_layout gm am a R L) as (acts & junk1 & E & Es1 & Esp1 & F2 & F1).
    set (P := am_base am ++ flat_acts acts) in *.
    assert (Hfp : zlen (m_fp gm) <? 2 = false).
    { rewrite Efp, fps_len, E. unfold zlen. rewrite app_length. cbn [List.length]. apply Z.ltb_ge. lia. }
    rewrite Hfp, F2, F1. cbn [obind].
    pose proof (zlen_nonneg P). pose proof (zlen_nonneg (aa_locals a)). pose proof (zlen_nonneg (aa_ops a)). pose proof (zlen_nonneg junk1).
    assert (Chk : (zlen P <? 0) || (m_sp gm <? zlen P) || (m_sp gm >? zlen (m_stack gm)) = false).
    { rewrite Esp1, Es1, !zlen_app. apply Bool.orb_false_iff. split; [apply Bool.orb_false_iff; split; apply Z.ltb_ge; lia|].
      rewrite Z.gtb_ltb. apply Z.ltb_ge. lia. }
    rewrite Chk. eexists. split; [reflexivity|].
    assert (Part : firstn (Z.to_nat (m_sp gm - zlen P)) (skipn (Z.to_nat (zlen P)) (m_stack gm)) = aa_locals a ++ aa_ops a).
    { rewrite Esp1, Es1. replace (Z.to_nat (zlen P + zlen (aa_locals a) + zlen (aa_ops a) - zlen P)) with (List.length (aa_locals a ++ aa_ops a))
        by (rewrite app_length; unfold zlen; lia).
      replace (Z.to_nat (zlen P)) with (List.length P) by (unfold zlen; lia).
      rewrite (app_assoc (aa_locals a)). apply firstn_skipn_mid. }
    rewrite Part.
    assert (Efl : forall cl, flat {| am_base := []; am_acts := [{| aa_serial := ser; aa_locals := aa_locals a; aa_ops := aa_ops a |}];
                                     am_clos := cl |} = aa_locals a ++ aa_ops a).
    { intros cl. unfold flat, flat_acts, act_cells. cbn. rewrite app_nil_r. reflexivity. }
    eexists. cbn [m_stack m_sp m_fp m_serials m_clos am_base am_acts am_clos]. rewrite Efl.
    split; [reflexivity|]. repeat split.
    + rewrite Esp1, zlen_app. lia.
    + cbn [fps aa_locals]. change (zlen (@nil value)) with 0. f_equal. f_equal. lia.
  - apply last_opt_none in L.
    assert (Hfp : zlen (m_fp gm) <? 2 = true) by (rewrite Efp, L; reflexivity).
    rewrite Hfp. eexists. split; [reflexivity|]. eexists.
    cbn [m_stack m_sp m_fp m_serials m_clos am_base am_acts am_clos]. repeat split.
Qed.

Lemma rm_clone_reuse gm am r ser :
  Rm gm am -> exists c, mCloneReuse gm r ser = Good c /\ Rm c (clone_of am ser).
Proof.
  intros R. pose proof R as (junk & Es & Esp & Efp & Eser & Ecl & Eacl).
  unfold mCloneReuse, clone_of. rewrite Ecl, Eacl. cbn [last_opt List.length nth_error Nat.sub].
  destruct (last_opt (am_acts am)) as [a|] eqn:L.
  - destruct (top_layout gm am a R L) as (acts & junk1 & E & Es1 & Esp1 & F2 & F1).
    set (P := am_base am ++ flat_acts acts) in *.
    assert (Hfp : zlen (m_fp gm) <? 2 = false).
    { rewrite Efp, fps_len, E. unfold zlen. rewrite app_length. cbn [List.length]. apply Z.ltb_ge. lia. }
    rewrite Hfp, F2, F1. cbn [obind].
    pose proof (zlen_nonneg P). pose proof (zlen_nonneg (aa_locals a)). pose proof (zlen_nonneg (aa_ops a)). pose proof (zlen_nonneg junk1).
    assert (Chk : (zlen P <? 0) || (m_sp gm <? zlen P) || (m_sp gm >? zlen (m_stack gm)) = false).
    { rewrite Esp1, Es1, !zlen_app. apply Bool.orb_false_iff. split; [apply Bool.orb_false_iff; split; apply Z.ltb_ge; lia|].
      rewrite Z.gtb_ltb. apply Z.ltb_ge. lia. }
    rewrite Chk. eexists. split; [reflexivity|].
    assert (Part : firstn (Z.to_nat (m_sp gm - zlen P)) (skipn (Z.to_nat (zlen P)) (m_stack gm)) = aa_locals a ++ aa_ops a).
    { rewrite Esp1, Es1. replace (Z.to_nat (zlen P + zlen (aa_locals a) + zlen (aa_ops a) - zlen P)) with (List.length (aa_locals a ++ aa_ops a))
        by (rewrite app_length; unfold zlen; lia).
      replace (Z.to_nat (zlen P)) with (List.length P) by (unfold zlen; lia).
      rewrite (app_assoc (aa_locals a)). apply firstn_skipn_mid. }
    rewrite Part.
    assert (Efl : forall cl, flat {| am_base := []; am_acts := [{| aa_serial := ser; aa_locals := aa_locals a; aa_ops := aa_ops a |}];
                                     am_clos := cl |} = aa_locals a ++ aa_ops a).
    { intros cl. unfold flat, flat_acts, act_cells. cbn. rewrite app_nil_r. reflexivity. }
    eexists. cbn [m_stack m_sp m_fp m_serials m_clos am_base am_acts am_clos]. rewrite Efl.
    split; [reflexivity|]. repeat split.
    + rewrite Esp1, zlen_app. lia.
    + cbn [fps aa_locals]. change (zlen (@nil value)) with 0. f_equal. f_equal. lia.
  - apply last_opt_none in L.
    assert (Hfp : zlen (m_fp gm) <? 2 = true) by (rewrite Efp, L; reflexivity).
    rewrite Hfp. eexists. split; [reflexivity|]. eexists.
    cbn [m_stack m_sp m_fp m_serials m_clos am_base am_acts am_clos]. repeat split.
Qed.

(* ---------- the worlds ---------- *)
Definition Rpair (p : Z * mem) (q : Z * amem) : Prop := fst p = fst q /\ Rm (snd p) (snd q).

Definition Rw (gw : gworld) (aw : aworld) : Prop :=
  Forall2 Rpair (gw_mems gw) (aw_mems aw) /\ gw_globals gw = aw_globals aw /\
  gw_next_mem gw = aw_next_mem aw /\ gw_serial gw = aw_serial aw /\
  gw_handles gw = [] /\ aw_handles aw = [].

Lemma assoc_get_rel gl al k :
  Forall2 Rpair gl al ->
  match assoc_get gl k, assoc_get al k with
  | Some gm, Some am => Rm gm am
  | None, None => True
  | _, _ => False
  end.
Proof.
  intros H. induction H as [|[k1 gm] [k2 am] gl al [Hk HR] _ IH]; cbn; [exact I|].
  cbn in Hk. subst k2. destruct (k1 =? k); [exact HR|exact IH].
Qed.

Lemma assoc_set_rel gl al k gm am :
  Forall2 Rpair gl al -> Rm gm am -> Forall2 Rpair (assoc_set gl k gm) (assoc_set al k am).
Proof.
  intros H HR. induction H as [|[k1 gm1] [k2 am1] gl al [Hk HR1] HF IH]; cbn.
  - constructor; [split; [reflexivity|exact HR]|constructor].
  - cbn in Hk. subst k2. destruct (k1 =? k).
    + constructor; [split; [reflexivity|exact HR]|assumption].
    + constructor; [split; [reflexivity|exact HR1]|exact IH].
Qed.

Lemma rw_init : Rw gw_init aw_init.
Proof.
  unfold Rw, gw_init, aw_init. cbn. repeat split; try reflexivity.
  constructor; [|constructor]. split; [reflexivity|]. exists []. repeat split.
Qed.

Definition core_op (o : mop) : bool :=
  match o with
  | MCapture _ | MOwn _ | MPushClosure _ _ | MPopClosure _ | MClosure _ _ => false
  | _ => true
  end.

Ltac get_mems Hm mid gm am :=
  match goal with
  | HF : Forall2 Rpair (gw_mems ?gw) (aw_mems ?aw) |- _ =>
      pose proof (assoc_get_rel _ _ mid HF) as Hm;
      destruct (assoc_get (gw_mems gw) mid) as [gm|] eqn:?; destruct (assoc_get (aw_mems aw) mid) as [am|] eqn:?;
      try contradiction
  end.

Lemma rw_set gw aw mid gm am :
  Rw gw aw -> Rm gm am -> Rw (gset gw mid gm) (aset aw mid am).
Proof.
  intros (HF & Hg & Hn & Hs & Hh & Hah) HR. unfold Rw, gset, aset. cbn. repeat split; try assumption.
  apply assoc_set_rel; assumption.
Qed.

Ltac start_op m gm am Hm :=
  get_mems Hm m gm am; unfold a_step, g_step in *; cbn [opt_obs snd fst] in *;
  repeat match goal with H : assoc_get _ _ = _ |- _ => rewrite H in * end;
  cbn [req obind opt_obs snd fst] in *; try congruence.

Theorem core_step gw aw o :
  Rw gw aw -> core_op o = true -> snd (a_step aw o) <> OIllegal ->
  snd (g_step gw o) = snd (a_step aw o) /\ Rw (fst (g_step gw o)) (fst (a_step aw o)).
Proof.
  intros RW Hc Hleg. pose proof RW as (HF & Hg & Hn & Hs & Hh & Hah).
  destruct o; cbn [core_op] in Hc; try discriminate.
  - (* push *)
    start_op m gm am Hm.
    destruct (rm_push gm am v Hm) as (gm' & g & E & R'). rewrite E. cbn [obind fst snd].
    split; [reflexivity|apply rw_set; assumption].
  - (* pop *)
    start_op m gm am Hm.
    destruct (last_opt (a_ops am)) as [x|] eqn:L; cbn [opt_obs snd fst] in *; [|congruence].
    destruct (rm_pop gm am x Hm L) as (gm' & E & R'). rewrite E. cbn [obind fst snd].
    split; [reflexivity|apply rw_set; assumption].
  - (* push frame *)
    start_op m gm am Hm.
    destruct ((a <? 0) || (l <? a) || (zlen (a_ops am) <? a)) eqn:C; cbn [opt_obs snd fst] in *; [congruence|].
    apply Bool.orb_false_iff in C. destruct C as [C C3]. apply Bool.orb_false_iff in C. destruct C as [C1 C2].
    apply Z.ltb_ge in C1, C2, C3.
    destruct (rm_pushframe gm am a l (gw_serial gw) Hm C1 C2 C3) as (gm' & g & E & R'). rewrite E. cbn [obind fst snd].
    split; [reflexivity|]. rewrite <- Hs in *.
    destruct (rw_set gw aw m gm' _ RW R') as (HF' & Hg' & Hn' & Hs' & Hh' & Hah').
    unfold Rw. cbn. repeat split; try assumption. rewrite Hs. reflexivity.
  - (* pop frame *)
    start_op m gm am Hm.
    destruct (am_acts am) as [|a0 acts0] eqn:EA; cbn [opt_obs snd fst] in *; [congruence|].
    destruct (rm_popframe gm am Hm ltac:(rewrite EA; discriminate)) as (gm' & E & R'). rewrite E. cbn [obind fst snd].
    split; [reflexivity|]. rewrite EA in R'. apply rw_set; assumption.
  - (* set *)
    start_op m gm am Hm.
    destruct (last_opt (am_acts am)) as [a|] eqn:L; cbn [opt_obs snd fst] in *; [|congruence].
    destruct ((0 <=? i) && (i <? zlen (aa_locals a))) eqn:C; cbn [opt_obs snd fst] in *; [|congruence].
    apply andb_prop in C. destruct C as [C1 C2]. apply Z.leb_le in C1. apply Z.ltb_lt in C2.
    destruct (rm_set gm am a i v Hm L (conj C1 C2)) as (gm' & E & R'). rewrite E. cbn [obind fst snd].
    split; [reflexivity|apply rw_set; assumption].
  - (* local *)
    start_op m gm am Hm.
    destruct (last_opt (am_acts am)) as [a|] eqn:L; cbn [opt_obs snd fst] in *; [|congruence].
    destruct (znth (aa_locals a) i) as [x|] eqn:Z; cbn [opt_obs snd fst] in *; [|congruence].
    rewrite (rm_local gm am a i x Hm L Z). cbn [obind fst snd]. split; [reflexivity|exact RW].
  - (* set global *)
    unfold a_step, g_step. cbn [opt_obs snd fst]. split; [reflexivity|].
    unfold Rw. cbn. rewrite Hg. repeat split; assumption.
  - (* global *)
    unfold a_step, g_step. cbn [opt_obs snd fst]. rewrite Hg. split; [reflexivity|exact RW].
  - (* clone *)
    start_op m gm am Hm.
    destruct reuse as [rid|].
    + destruct (assoc_get (aw_mems aw) rid) as [ar|] eqn:ER; cbn [opt_obs snd fst] in *; [|congruence].
      destruct (rid =? m) eqn:Erm; cbn [opt_obs snd fst] in *; [congruence|].
      pose proof (assoc_get_rel _ _ rid HF) as Hr. rewrite ER in Hr.
      destruct (assoc_get (gw_mems gw) rid) as [gr|] eqn:EG; [|contradiction]. cbn [req obind].
      destruct (rm_clone_reuse gm am gr (gw_serial gw) Hm) as (c & E & R'). rewrite E. cbn [obind fst snd].
      split; [reflexivity|]. unfold Rw. cbn. rewrite <- Hs. repeat split; try assumption; try congruence.
      apply assoc_set_rel; [exact HF|]. exact R'.
    + destruct (rm_clone gm am (gw_serial gw) Hm) as (c & E & R'). rewrite E. cbn [obind fst snd].
      split; [reflexivity|]. unfold Rw. cbn. rewrite <- Hs, <- Hn. repeat split; try assumption; try congruence.
      apply assoc_set_rel; [exact HF|]. exact R'.
  - (* ip get *)
    start_op m gm am Hm.
    destruct (last_opt (am_acts am)) as [a|] eqn:L; cbn [opt_obs snd fst] in *; [|congruence].
    destruct (aa_ops a) as [|x r] eqn:Eo; cbn [opt_obs snd fst] in *; [congruence|].
    destruct (rm_ipget gm am a x r Hm L Eo) as (le & F1 & SG). rewrite F1. cbn [obind]. rewrite SG. cbn [obind fst snd].
    split; [reflexivity|exact RW].
  - (* ip set *)
    start_op m gm am Hm.
    destruct (last_opt (am_acts am)) as [a|] eqn:L; cbn [opt_obs snd fst] in *; [|congruence].
    destruct (aa_ops a) as [|x r] eqn:Eo; cbn [opt_obs snd fst] in *; [congruence|].
    destruct (rm_ipset gm am a x r v Hm L Eo) as (le & gm' & F1 & SS & R'). rewrite F1. cbn [obind]. rewrite SS. cbn [obind fst snd].
    split; [reflexivity|apply rw_set; assumption].
Qed.

(* ---------- histories ---------- *)
Theorem core_histories : forall ops gw aw,
  Rw gw aw -> forallb core_op ops = true -> Forall (fun ob => ob <> OIllegal) (a_run aw ops) ->
  map (fun x => fst (fst x)) (g_run gw ops) = a_run aw ops.
Proof.
  induction ops as [|o ops IH]; intros gw aw RW Hc Hleg; [reflexivity|].
  cbn [forallb] in Hc. apply andb_prop in Hc. destruct Hc as [Ho Hops].
  cbn [g_run a_run] in *.
  destruct (g_step gw o) as [gw' og] eqn:G. destruct (a_step aw o) as [aw' oa] eqn:A.
  inversion Hleg as [|? ? Hoa Hrest]; subst.
  pose proof (core_step gw aw o RW Ho) as CS. rewrite G, A in CS. cbn [fst snd] in CS.
  destruct (CS Hoa) as [Eo RW']. cbn [map fst]. rewrite Eo. f_equal. apply IH; assumption.
Qed.

(* from the initial memories: every legal history of frame, operand, variable,
   global and clone operations shows the same values on the Go algorithm and on
   the specification, and the Go algorithm never aborts on it *)
Theorem go_memory_refines_activations : forall ops,
  forallb core_op ops = true -> Forall (fun ob => ob <> OIllegal) (a_run aw_init ops) ->
  map (fun x => fst (fst x)) (g_run gw_init ops) = a_run aw_init ops.
Proof. intros ops Hc Hl. apply core_histories; [apply rw_init|exact Hc|exact Hl]. Qed.
