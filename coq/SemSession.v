(* SemSession.v — sessions under the definitional semantics, and their
   comparison with what the Go implementation did. *)
Require Import Calc.Base Calc.Bytecode Calc.Value Calc.FloatText Calc.Ast Calc.Resolve Calc.Compile
        Calc.VM Calc.Sem Calc.GenBuiltins Calc.Session Calc.CorrSession.
Open Scope Z_scope.

(* a yield nobody consumes evaluates to its operand: just continue *)
Fixpoint run_top (m : comp) : sstate * ctl :=
  match m with
  | Done st c => (st, c)
  | Yield st _ k => run_top (k st)
  end.

Definition sem_fuel : nat := Z.to_nat 3000.

Definition sem_tree (st : sstate) (ast : node) : sstate * ctl :=
  match strewrite ast with
  | None => (st, CAbort "STRewrite panicked")
  | Some t => run_top (eval sem_fuel t env_top st)
  end.

(* the built-in functions are ordinary definitions evaluated at start-up *)
Definition sem_init : sstate :=
  fold_left (fun st d => fst (sem_tree st d)) builtin_defs sstate0.

Definition sem_clear_out (st : sstate) : sstate :=
  {| s_frames := s_frames st; s_clos := s_clos st; s_globals := s_globals st;
     s_next := s_next st; s_out := []; s_in := s_in st |}.

Definition sem_out (st : sstate) : string := String.concat "" (rev (s_out st)).

Definition ctl_agrees (c : ctl) (g : gres) : bool :=
  match c, g with
  | CVal x, GValue y => vsame x y
  | CRet x, GValue y => vsame x y          (* a top-level return ends the statement with that value *)
  | CErr e, GError f => err_eqb e f
  | _, _ => false
  end.

(* codes: 0 agree, 1 disagree, 4 semantics out of fuel, 6 outside the
   semantics (the implementation refused or aborted; not for this oracle) *)
Fixpoint sem_trees (st : sstate) (ts : list node) (gs : list gres) : sstate * Z :=
  match ts, gs with
  | [], [] => (st, 0)
  | t :: ts', g :: gs' =>
      match g with
      | GRefused | GPanic | GHang => (st, 6)
      | _ =>
          let (st', c) := sem_tree st t in
          match c with
          | CFuel => (st', 4)
          | _ => if ctl_agrees c g then sem_trees st' ts' gs' else (st', 1)
          end
      end
  | _, _ => (st, 1)
  end.

Fixpoint sem_inputs (st : sstate) (l : list ginput) : Z :=
  match l with
  | [] => 0
  | g :: r =>
      let (st', code) := sem_trees (sem_clear_out st) (g_trees g) (g_results g) in
      if negb (code =? 0) then code
      else if negb (String.eqb (sem_out st') (g_out g)) then 1
      else sem_inputs st' r
  end.

Definition chk_session_sem (l : list ginput) : Z := sem_inputs sem_init l.

(* both oracles at once: 10*sem code + vm code *)
Definition chk_session_both (l : list ginput) : Z := 10 * chk_session_sem l + chk_session l.

Fixpoint sem_trace_inputs (st : sstate) (l : list (list node)) : list (list ctl * string) :=
  match l with
  | [] => []
  | ts :: r =>
      let '(st', cs) := fold_left (fun acc t => let '(s, cs) := acc in
                                                let (s', c) := sem_tree s t in (s', cs ++ [c]))
                                  ts (sem_clear_out st, []) in
      (cs, sem_out st') :: sem_trace_inputs st' r
  end.
Definition sem_trace_session (l : list (list node)) := sem_trace_inputs sem_init l.
