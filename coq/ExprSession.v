(* ExprSession.v — C01/C08 over histories: a session made of pure-expression
   statements and assignments of pure expressions to global variables, in any
   number and order, failing ones included.  Statement by statement the
   compiled run (run_tree: resolve, ByteCode, load, Run on the VM model) gives
   the value or error class the definitional semantics gives, binds the same
   globals, writes nothing, and leaves the machine ready for the next
   statement — after an error too. *)
Require Import Calc.Sem.
Require Import Calc.Base Calc.Bytecode Calc.BytecodeProofs Calc.Value Calc.FloatText Calc.Ast Calc.Resolve Calc.Compile Calc.VM
        Calc.MemProofs Calc.StepErr Calc.StepCode Calc.GenBuiltins Calc.Session
        Calc.CompileWf Calc.CompileProofs Calc.CompileLoops
        Calc.ExprSem Calc.ExprVM Calc.ExprCorrect Calc.ExprTop Calc.ExprAssign Calc.ExprLen.
Require Import Lia.
Open Scope Z_scope.

(* ---- the statements ---- *)
Definition simple (t : node) : bool :=
  match t with
  | NAssign (NName g) e =>
      pure e
  | _ => pure t
  end.

Definition globals := list (string * value).

Definition sem_simple (G : globals) (t : node) : globals * res value :=
  match t with
  | NAssign (NName g) e =>
      match den G e with
      | Ok x => if is_nil x then (G, Fail ErrNil) else (sassoc_set G g x, Ok x)
      | Fail err => (G, Fail err)
      end
  | _ => (G, den G t)
  end.

Definition with_globals (st : sstate) (G : globals) : sstate :=
  {| s_frames := s_frames st; s_clos := s_clos st; s_globals := G; s_next := s_next st;
     s_out := s_out st; s_in := s_in st |}.

Lemma with_globals_same st : with_globals st (s_globals st) = st.
Proof. destruct st; reflexivity. Qed.

Definition theight (t : node) : nat := match t with NAssign _ e => S (height e) | _ => height t end.

(* the definitional semantics of a simple statement *)
Theorem eval_simple t : simple t = true -> forall fuel env st, (theight t <= fuel)%nat ->
  eval fuel t env st =
  Done (with_globals st (fst (sem_simple (s_globals st) t))) (ctl_of (snd (sem_simple (s_globals st) t))).
Proof.
  intros Hs fuel env st Hf.
  assert (Pure : pure t = true -> eval fuel t env st =
            Done (with_globals st (s_globals st)) (ctl_of (den (s_globals st) t))).
  { intros Hp. rewrite with_globals_same. apply eval_pure; [exact Hp|].
    destruct t; cbn [theight] in Hf; try exact Hf. discriminate Hp. }
  destruct t; try (apply Pure; exact Hs).
  match goal with H : simple (NAssign ?a ?b) = true |- _ => destruct a; try discriminate H; rename b into rhs end.
  cbn [simple] in Hs. pose proof Hs as Hp.
  cbn [theight] in Hf. destruct fuel as [|fuel]; [lia|]. cbn [eval sem_simple].
  rewrite (eval_pure rhs Hp fuel env st ltac:(lia)).
  destruct (den (s_globals st) rhs) as [x|err]; cbn [ctl_of bind fst snd].
  - unfold assign. destruct (is_nil x); cbn [fst snd ctl_of]; [rewrite with_globals_same; reflexivity|reflexivity].
  - rewrite with_globals_same. reflexivity.
Qed.

(* ---- the machine between statements ---- *)
Definition ready (mc : machine) (c : ctx) (m : mem) : Prop :=
  machine_idle mc c m /\ c_mid c = 0 /\ c_children c = [].

Lemma reset_ready v s c me :
  wfcs s -> v_ncs v = ncs s ->
  assoc_get (v_ctxs v) 0 = Some c -> c_mid c = 0 -> c_children c = [] ->
  exists c' m', ready {| mc_cs := s; mc_vm := reset_after_error (St v 0 me) |} c' m' /\
    v_globals (reset_after_error (St v 0 me)) = v_globals v /\
    v_out (reset_after_error (St v 0 me)) = v_out v.
Proof.
  intros Hwf Hn Hc Hmid Hch. unfold reset_after_error.
  change (v_ctxs (St v 0 me)) with (v_ctxs v). rewrite Hc, Hch. cbn [fold_left].
  pose proof (St_get v 0 me) as G. unfold get_mem in G.
  destruct (assoc_get (v_mems (St v 0 me)) 0) as [m0|] eqn:E; [|discriminate G].
  cbn [req] in G. injection G as ->.
  rewrite St_St. change (v_ctxs (St v 0 (mReset me))) with (v_ctxs v). rewrite Hc.
  exists {| c_ip := v_ncs v; c_mid := 0; c_parent := None; c_children := []; c_tmp := c_tmp c |}, (mReset me).
  split; [|split; reflexivity].
  split; [|split; reflexivity].
  split; [exact Hwf|]. cbn [mc_vm mc_cs]. constructor.
  - cbn [set_ctx v_ctxs]. apply assoc_get_set_same.
  - cbn [c_ip set_mem St v_ncs]. exact Hn.
  - cbn [c_mid set_ctx v_mems St set_mem]. apply assoc_get_set_same.
  - unfold mReset; cbn [m_sp m_stack]. unfold zlen. lia.
Qed.

(* ---- size ---- *)
Lemma pure_wfc : forall e, pure e = true -> wfc e = true.
Proof.
  apply (pure_induction (fun e => wfc e = true)); try reflexivity.
  - intros op c l r Hc _ _ H1 H2. cbn [wfc]. rewrite Hc, H1, H2. reflexivity.
  - intros op t Ho _ H. cbn [wfc]. unfold unop_ok in Ho. rewrite Ho, H. reflexivity.
  - intros l _ HF. cbn [wfc]. induction HF as [|x r Hx Hr IH]; [reflexivity|]. cbn [forallb]. rewrite Hx, IH. reflexivity.
  - intros a i _ _ H1 H2. cbn [wfc]. rewrite H1, H2. reflexivity.
  - intros a f t _ _ _ H1 H2 H3. cbn [wfc]. rewrite H1, H2, H3. reflexivity.
Qed.

Lemma simple_wfb t : simple t = true -> wfb t = true.
Proof.
  intros H. destruct t; try (apply pure_wfc in H; exact H); try discriminate H.
  destruct t1; try discriminate H.
  cbn [simple] in H. pose proof H as Hp.
  cbn [wfb wfc is_var andb]. apply pure_wfc. exact Hp.
Qed.

Lemma bytecode_len t s s' : simple t = true -> ByteCode t s = CompOk s' -> ncs s' - ncs s <= 4 * Z.of_nat (esize t).
Proof.
  intros Hs HB. unfold ByteCode in HB.
  destruct ((instr <- comp t 0 (pass fl0);; (if negb (Src0 instr =? AddrStck) then emit (Z.lor instr (New PUSH)) else cret tt)) s)
    as [[u sfin]| |] eqn:HC; try discriminate HB. injection HB as <-.
  assert (G : grows ((4 * Z.of_nat (esize t) - 1) + 1) (instr <- comp t 0 (pass fl0);;
               (if negb (Src0 instr =? AddrStck) then emit (Z.lor instr (New PUSH)) else cret tt))).
  { apply grows_bind.
    - destruct t; try (match goal with |- grows _ (comp ?e _ _) =>
                         apply (grows_le (Z.of_nat (clen e))); [pose proof (clen_le_size e Hs); lia|apply comp_grows; exact Hs] end);
        try discriminate Hs.
      match goal with H : simple (NAssign ?a ?b) = true |- _ => destruct a; try discriminate H; rename b into rhs end.
      cbn [simple] in Hs. pose proof Hs as Hp.
      rewrite comp_assign_unfold. cbn [esize].
      pose proof (clen_le_size rhs Hp) as B. pose proof (esize_pos rhs) as P.
      apply grows_if.
      + apply (grows_le (0 + (1 + 0))); [lia|]. apply grows_bind; [apply name_grows|]. intros w.
        cbv zeta. apply grows_bind; [apply grows_emit|]. intros _. apply grows_enc.
      + apply (grows_le (Z.of_nat (clen rhs) + (0 + (1 + 0)))); [lia|].
        apply grows_bind; [apply comp_grows; exact Hp|]. intros si.
        apply grows_bind; [apply name_grows|]. intros w. cbv zeta.
        apply grows_bind; [apply grows_emit|]. intros _. apply grows_enc.
    - intros instr. apply grows_if; [apply grows_emit|apply (grows_le 0); [lia|apply grows_ret]]. }
  specialize (G s u sfin HC). lia.
Qed.

(* ---- one statement ---- *)
Definition tree_agrees (tr : tree_result) (r : res value) : Prop :=
  match r, tr with
  | Ok x, TValue y => x = y
  | Fail e, TError e' _ => e = e'
  | _, _ => False
  end.

Definition small (t : node) : Prop := 4 * Z.of_nat (esize t) < 400000.

Lemma strewrite_simple t : simple t = true -> strewrite t = Some t.
Proof.
  intros H. unfold strewrite.
  destruct t; try (rewrite (resolve_pure _ H); reflexivity); try discriminate H.
  match goal with H : simple (NAssign ?a ?b) = true |- _ => destruct a; try discriminate H; rename b into rhs end.
  cbn [simple] in H. pose proof H as Hp.
  cbn [resolve]. unfold rbind. rewrite (resolve_pure rhs Hp). reflexivity.
Qed.

Lemma arith_ok_not_nil op a b y : Arith op a b = Ok y -> is_nil y = false.
Proof.
  unfold Arith. destruct a, b; try discriminate;
    repeat match goal with |- context [if ?c then _ else _] => destruct c end;
    intros H; inversion H; reflexivity.
Qed.

Lemma simple_run t s s' v c m :
  simple t = true -> small t -> wfcs s -> idle v s c m ->
  ByteCode t s = CompOk s' ->
  wfcs s' /\
  match snd (sem_simple (v_globals v) t) with
  | Ok x => ran_to_value v c m s' (fst (sem_simple (v_globals v) t)) x (Run session_fuel (load_code v s') true)
  | Fail err => exists me rep, Run session_fuel (load_code v s') true
                               = (reset_after_error (St (load_code v s') (c_mid c) me), RError err rep)
  end.
Proof.
  intros Hs Hsm Hwf Hid HB.
  pose proof (bytecode_len t s s' Hs HB) as Hlen. unfold small in Hsm.
  assert (Hfuel : (Z.to_nat (ncs s' - ncs s) < session_fuel)%nat) by (unfold session_fuel; lia).
  assert (Pure : pure t = true ->
            wfcs s' /\
            match den (v_globals v) t with
            | Ok x => ran_to_value v c m s' (v_globals v) x (Run session_fuel (load_code v s') true)
            | Fail err => exists me rep, Run session_fuel (load_code v s') true
                                         = (reset_after_error (St (load_code v s') (c_mid c) me), RError err rep)
            end).
  { intros Hp. destruct (bytecode_run_pure t s s' v c m session_fuel Hp Hwf Hid HB Hfuel) as [W R].
    split; [exact W|]. destruct (den (v_globals v) t); exact R. }
  destruct t; try (apply Pure; exact Hs).
  match goal with H : simple (NAssign ?a ?b) = true |- _ => destruct a; try discriminate H; rename b into rhs end.
  cbn [simple] in Hs. pose proof Hs as Hp. cbn [sem_simple].
  destruct (is_inc n rhs) eqn:Hinc.
  - (* the increment, in either form *)
    destruct (bytecode_run_inc n _ s s' v c m session_fuel Hinc Hwf Hid HB ltac:(unfold session_fuel; lia)) as [W R].
    split; [exact W|]. rewrite (den_inc n rhs (v_globals v) Hinc).
    destruct (Arith ADD (gval (v_globals v) n) (VInt 1)) as [y|err] eqn:EA; cbn [fst snd].
    + rewrite (arith_ok_not_nil _ _ _ _ EA). cbn [fst snd]. exact R.
    + exact R.
  - destruct (bytecode_run_assign n rhs s s' v c m session_fuel Hp Hinc Hwf Hid HB Hfuel) as [W R].
    split; [exact W|].
    destruct (den (v_globals v) rhs) as [x|err]; cbn [fst snd]; [|exact R].
    destruct (is_nil x); cbn [fst snd]; exact R.
Qed.

Lemma sem_simple_fail G t err : snd (sem_simple G t) = Fail err -> fst (sem_simple G t) = G.
Proof.
  destruct t; try reflexivity. destruct t1; try reflexivity. cbn [sem_simple].
  destruct (den G t2) as [x|e]; [|reflexivity]. destruct (is_nil x); [reflexivity|discriminate].
Qed.

Theorem simple_step t mc c m :
  ready mc c m -> simple t = true -> small t ->
  (snd (run_tree false mc t) = TRefused /\ ready (fst (run_tree false mc t)) c m /\
   mc_vm (fst (run_tree false mc t)) = mc_vm mc) \/
  (tree_agrees (snd (run_tree false mc t)) (snd (sem_simple (v_globals (mc_vm mc)) t)) /\
   v_globals (mc_vm (fst (run_tree false mc t))) = fst (sem_simple (v_globals (mc_vm mc)) t) /\
   v_out (mc_vm (fst (run_tree false mc t))) = v_out (mc_vm mc) /\
   exists c' m', ready (fst (run_tree false mc t)) c' m').
Proof.
  intros [[Hwf Hid] [Hmid Hch]] Hs Hsm.
  unfold run_tree. rewrite (strewrite_simple t Hs). cbn [negb].
  destruct (ByteCode t (mc_cs mc)) as [s'|s0|w] eqn:HB.
  - right.
    destruct (simple_run t (mc_cs mc) s' (mc_vm mc) c m Hs Hsm Hwf Hid HB) as [W R].
    destruct (snd (sem_simple (v_globals (mc_vm mc)) t)) as [x|err] eqn:ES.
    + destruct R as [v' [m' (R & Hm' & Hsp' & Hms & Hg & Ho & [c' [Hc' [Hip' [Hmid' Hch']]]])]]. rewrite R.
      cbn [fst snd mc_vm tree_agrees]. conj; try reflexivity; try assumption.
      exists c', m'. split; [|split; congruence]. split; [exact W|]. cbn [mc_vm mc_cs].
      constructor; try assumption.
      * rewrite Hmid'. exact Hm'.
      * destruct Hms as (_&_&_&_&_&B). pose proof (id_sp _ _ _ _ Hid). lia.
    + destruct R as [me [rep R]]. rewrite R. cbn [fst snd mc_vm tree_agrees]. rewrite Hmid.
      destruct (reset_ready (load_code (mc_vm mc) s') s' c me W eq_refl (id_ctx _ _ _ _ Hid) Hmid Hch)
        as [c' [m' [Hr [Hg Ho]]]].
      conj; [reflexivity|rewrite (sem_simple_fail _ _ _ ES); exact Hg|exact Ho|]. exists c', m'. exact Hr.
  - left. cbn [fst snd mc_vm mc_cs].
    assert (s0 = mc_cs mc).
    { unfold ByteCode in HB.
      destruct ((instr <- comp t 0 (pass fl0);; (if negb (Src0 instr =? AddrStck) then emit (Z.lor instr (New PUSH)) else cret tt)) (mc_cs mc))
        as [[u sf]| |]; try discriminate HB. injection HB as <-. reflexivity. }
    subst s0. conj; [reflexivity| |reflexivity].
    split; [split; [exact Hwf|exact Hid]|split; assumption].
  - exfalso. destruct (bytecode_never_aborts t (mc_cs mc) (simple_wfb t Hs)) as [NA _].
    + destruct Hwf as [Hn _]. rewrite Hn. unfold zlen. lia.
    + exact (NA w HB).
Qed.

(* ---- sessions ---- *)
Fixpoint agree_run (mc : machine) (G : globals) (ts : list node) : Prop :=
  match ts with
  | [] => True
  | t :: r =>
      let mc' := fst (run_tree false mc t) in
      let res := snd (run_tree false mc t) in
      res = TRefused \/
      (tree_agrees res (snd (sem_simple G t)) /\
       v_globals (mc_vm mc') = fst (sem_simple G t) /\
       v_out (mc_vm mc') = v_out (mc_vm mc) /\
       agree_run mc' (fst (sem_simple G t)) r)
  end.

(* every statement of the session gives what the semantics gives and binds what it binds, and the
   next one starts from there — until a statement is refused for size, after which nothing is claimed *)
Theorem simple_session : forall ts mc c m,
  ready mc c m -> Forall (fun t => simple t = true /\ small t) ts ->
  agree_run mc (v_globals (mc_vm mc)) ts.
Proof.
  induction ts as [|t r IH]; intros mc c m Hr Hall; [exact I|].
  inversion Hall as [|t' r' [Hs Hsm] Hrest]; subst. cbn [agree_run].
  destruct (simple_step t mc c m Hr Hs Hsm) as [[Href _]|[Ha [Hg [Ho [c' [m' Hr']]]]]].
  - left. exact Href.
  - right. conj; try assumption. rewrite <- Hg. apply (IH _ c' m' Hr' Hrest).
Qed.

(* relocation: where the code and data of a statement land, and what the stack holds above sp,
   do not matter — two machines with the same global bindings give the same result *)
Definition same_outcome (a b : tree_result) : Prop :=
  match a, b with
  | TValue x, TValue y => x = y
  | TError e _, TError f _ => e = f
  | _, _ => False
  end.

Theorem simple_relocation t mc1 c1 m1 mc2 c2 m2 :
  ready mc1 c1 m1 -> ready mc2 c2 m2 ->
  v_globals (mc_vm mc1) = v_globals (mc_vm mc2) ->
  simple t = true -> small t ->
  snd (run_tree false mc1 t) <> TRefused -> snd (run_tree false mc2 t) <> TRefused ->
  same_outcome (snd (run_tree false mc1 t)) (snd (run_tree false mc2 t)) /\
  v_globals (mc_vm (fst (run_tree false mc1 t))) = v_globals (mc_vm (fst (run_tree false mc2 t))).
Proof.
  intros R1 R2 HG Hs Hsm N1 N2.
  destruct (simple_step t mc1 c1 m1 R1 Hs Hsm) as [[E1 _]|[A1 [G1 _]]]; [contradiction|].
  destruct (simple_step t mc2 c2 m2 R2 Hs Hsm) as [[E2 _]|[A2 [G2 _]]]; [contradiction|].
  rewrite <- HG in A2, G2. split; [|congruence].
  unfold tree_agrees, same_outcome in *.
  destruct (snd (sem_simple (v_globals (mc_vm mc1)) t)) as [x|e];
    destruct (snd (run_tree false mc1 t)); try contradiction;
    destruct (snd (run_tree false mc2 t)); try contradiction; congruence.
Qed.

(* a failing statement changes nothing the next statement can see *)
Theorem simple_failure_is_invisible t mc c m err rep :
  ready mc c m -> simple t = true -> small t ->
  snd (run_tree false mc t) = TError err rep ->
  v_globals (mc_vm (fst (run_tree false mc t))) = v_globals (mc_vm mc) /\
  v_out (mc_vm (fst (run_tree false mc t))) = v_out (mc_vm mc) /\
  exists c' m', ready (fst (run_tree false mc t)) c' m'.
Proof.
  intros R Hs Hsm HE.
  destruct (simple_step t mc c m R Hs Hsm) as [[E1 _]|[A1 [G1 [O1 R1]]]]; [rewrite HE in E1; discriminate|].
  rewrite HE in A1. unfold tree_agrees in A1.
  destruct (snd (sem_simple (v_globals (mc_vm mc)) t)) as [x|e] eqn:ES; [contradiction|].
  rewrite (sem_simple_fail _ _ _ ES) in G1. conj; assumption.
Qed.
