(* PropC17.v — C17: built-in functions keep their contracts.

   Proved here: aton(toa(n)) = n for every integer (decimal text round trip of
   the strconv.Itoa / Atoi models, sign and range included); toa renders
   exactly what write prints; aton of a non-string is a type error.  The
   generator built-ins are stated over the trees REGENERATED from
   builtin/builtin.go on every run (GenBuiltins.v) and evaluated by the
   definitional semantics on examples; their general specifications
   ([C17_fromto_statement] etc.) are open and decided by the check against
   Python-computed expectations on the real code.  Float text round trip
   aton(toa(f)) = f is decided by testing (the float text model is FloatText.v). *)
Require Import Calc.Base Calc.Bytecode Calc.Value Calc.FloatText Calc.Ast Calc.Resolve Calc.Compile
        Calc.VM Calc.Sem Calc.GenBuiltins Calc.Session Calc.CorrSession Calc.SemSession Calc.BuiltinProofs.
Open Scope Z_scope.

Theorem C17_aton_toa_int : forall z, in_int64 z = true -> atoi (itoa z) = Some z.
Proof. exact atoi_itoa. Qed.
Print Assumptions C17_aton_toa_int.

Theorem C17_toa_is_write_rendering : forall n v e st st1 x,
  eval n v e st = Done st1 (CVal x) ->
  eval (S n) (NToa v) e st = Done st1 (CVal (VStr (to_string fmt_float x))) /\
  eval (S n) (NWrite v) e st = Done (emit_out st1 (to_string fmt_float x)) (CVal VNil).
Proof. exact sem_toa_is_write_rendering. Qed.
Print Assumptions C17_toa_is_write_rendering.

Theorem C17_aton_non_string_is_type_error : forall n v e st st1 x,
  eval n v e st = Done st1 (CVal x) ->
  (forall s, x <> VStr s) -> eval (S n) (NAton v) e st = Done st1 (CErr ErrType).
Proof. exact sem_aton_errors. Qed.
Print Assumptions C17_aton_non_string_is_type_error.

(* open: the general contracts of the generator built-ins *)
Definition collect_prog (it : node) : node :=
  NBlock [NAssign (NName "acc") (NList []);
          NFor [NName "e"] [it] (NAssign (NName "acc") (NBin "+" (NName "acc") (NList [NName "e"])));
          NName "acc"].

Definition C17_fromto_statement : Prop :=
  forall a b, in_int64 a = true -> in_int64 b = true -> b - a < 1000 ->
    snd (sem_tree sem_init (collect_prog (NCall (NName "fromto") [NInt a; NInt b])))
    = CVal (VArr (map (fun i => VInt (a + Z.of_nat i)) (seq 0 (Z.to_nat (b - a))))).

(* the regenerated built-in trees, evaluated by the semantics *)
Example C17_generators_on_examples :
  map (fun t => snd (sem_tree sem_init (collect_prog t)))
      [NCall (NName "fromto") [NInt 3; NInt 7];
       NCall (NName "fromto") [NInt 5; NInt 5];
       NCall (NName "fromto") [NInt 9223372036854775805; NInt 9223372036854775807];
       NCall (NName "elems") [NList [NInt 4; NStr "x"; NBool true]];
       NCall (NName "elems") [NStr "ab"];
       NCall (NName "indices") [NStr "abc"];
       NCall (NName "indices") [NList []]]
  = [CVal (VArr [VInt 3; VInt 4; VInt 5; VInt 6]);
     CVal (VArr []);
     CVal (VArr [VInt 9223372036854775805; VInt 9223372036854775806]);
     CVal (VArr [VInt 4; VStr "x"; VBool true]);
     CVal (VArr [VStr "a"; VStr "b"]);
     CVal (VArr [VInt 0; VInt 1; VInt 2]);
     CVal (VArr [])].
Proof. vm_compute. reflexivity. Qed.

Example C17_wrong_arguments_are_errors :
  map (fun t => snd (sem_tree sem_init t))
      [NCall (NName "fromto") [NInt 1]; NCall (NName "toa") []; NCall (NName "aton") [NInt 5];
       NCall (NName "aton") [NStr "zz"]; NCall (NName "exit") [NStr "x"];
       collect_prog (NCall (NName "elems") [NInt 5])]
  = [CErr ErrArity; CErr ErrArity; CErr ErrType; CErr ErrConversion; CErr ErrType; CErr ErrType].
Proof. vm_compute. reflexivity. Qed.
