(* PropC17.v — C17: built-in functions keep their contracts.

   Proved here: aton(toa(n)) = n for every integer (decimal text round trip of
   the strconv.Itoa / Atoi models, sign and range included); toa renders
   exactly what write prints; aton of a non-string is a type error.  The
   generator built-ins are the trees REGENERATED from builtin/builtin.go on
   every run (GenBuiltins.v), resolved by the STRewrite model and bound at
   start-up of the session semantics; under the definitional semantics
   fromto(a,b) hands out a, a+1, .., b-1 (nothing when a >= b), indices(x)
   hands out 0 .. #x-1 and elems(x) hands out x[0] .. x[#x-1], for every
   argument, every state in which the names still mean the built-ins and
   every sufficient fuel — both to a consumer that resumes them directly
   ([drain]) and to a for loop collecting the values (GenProofs.v,
   ForProofs.v).  That the compiled code does the same is C01's
   correspondence, sampled by this check on the real code.  Float text round trip
   aton(toa(f)) = f is decided by testing (the float text model is FloatText.v). *)
Require Import Calc.Base Calc.Bytecode Calc.Value Calc.FloatText Calc.Ast Calc.Resolve Calc.Compile
        Calc.VM Calc.Sem Calc.GenBuiltins Calc.Session Calc.CorrSession Calc.SemSession Calc.BuiltinProofs
        Calc.GenProofs Calc.ForProofs.
Open Scope Z_scope.

Theorem C17_aton_toa_int : forall z, in_int64 z = true -> atoi (itoa z) = Some z.
Proof. exact atoi_itoa. Qed.
Print Assumptions C17_aton_toa_int.

Theorem C17_toa_is_write_rendering : forall n v e st st1 x,
  eval n v e st = Done st1 (CVal x) ->
  eval (S n) (NToa v) e st = Done st1 (CVal (VStr (to_string fmt_float x))) /\
  eval (S n) (NWrite v) e st = Done (emit_out st1 (to_string fmt_float x)) (CVal VNil).
Proof. exact sem_toa_is_write_rendering. Qed.
Print Assumptions C17_toa_is_write_rendering.

Theorem C17_aton_non_string_is_type_error : forall n v e st st1 x,
  eval n v e st = Done st1 (CVal x) ->
  (forall s, x <> VStr s) -> eval (S n) (NAton v) e st = Done st1 (CErr ErrType).
Proof. exact sem_aton_errors. Qed.
Print Assumptions C17_aton_non_string_is_type_error.

(* ---- the generator built-ins ---- *)
Definition fromto_clos := {| sc_params := 2; sc_locals := 2; sc_body := fromto_body; sc_env := None |}.
Definition indices_clos := {| sc_params := 1; sc_locals := 2; sc_body := indices_body; sc_env := None |}.
Definition elems_clos := {| sc_params := 1; sc_locals := 2; sc_body := elems_body; sc_env := None |}.

(* what the proofs are about is what builtin.go says today: the closures the
   session semantics binds at start-up from the regenerated trees *)
Theorem C17_generators_are_the_generated_trees :
  has_builtin sem_init "fromto" fromto_clos /\ has_builtin sem_init "indices" indices_clos /\
  has_builtin sem_init "elems" elems_clos.
Proof. exact sem_init_has_builtins. Qed.
Print Assumptions C17_generators_are_the_generated_trees.

(* a consumer that resumes fromto(a,b) until it is done receives a, a+1, .., b-1 *)
Theorem C17_fromto_yields : forall a b e st f,
  in_int64 a = true -> in_int64 b = true -> has_builtin st "fromto" fromto_clos ->
  (Z.to_nat (b - a) + 6 <= f)%nat ->
  fst (drain (eval f (NCall (NName "fromto") [NInt a; NInt b]) e st))
  = map (fun i => VInt (a + Z.of_nat i)) (seq 0 (Z.to_nat (b - a))).
Proof. exact fromto_yields. Qed.
Print Assumptions C17_fromto_yields.

(* nothing when a >= b: the call returns at once, having only made its frame *)
Theorem C17_fromto_empty : forall a b e st f,
  in_int64 a = true -> in_int64 b = true -> b <= a -> has_builtin st "fromto" fromto_clos -> (6 <= f)%nat ->
  exists v, eval f (NCall (NName "fromto") [NInt a; NInt b]) e st
            = Done (fst (new_frame st [VInt a; VInt b])) (CVal v).
Proof. exact fromto_empty. Qed.
Print Assumptions C17_fromto_empty.

(* step by step: each value is handed out in exactly the state the generator
   was resumed in, and a resumption changes its own frame only *)
Theorem C17_fromto_steps : forall a b e st f,
  in_int64 a = true -> in_int64 b = true -> has_builtin st "fromto" fromto_clos ->
  (Z.to_nat (b - a) + 6 <= f)%nat ->
  gen (s_next st) (ft_frame a b) (ft_val a) (Z.to_nat (b - a)) 0 (fst (new_frame st [VInt a; VInt b]))
      (eval f (NCall (NName "fromto") [NInt a; NInt b]) e st).
Proof. exact fromto_call. Qed.
Print Assumptions C17_fromto_steps.

Theorem C17_indices_yields : forall t x e st f,
  eval f t e st = Done st (CVal x) -> is_seq x = true -> Z.of_nat (seq_len x) <= max_int ->
  has_builtin st "indices" indices_clos -> (seq_len x + 6 <= f)%nat ->
  fst (drain (eval (S f) (NCall (NName "indices") [t]) e st))
  = map (fun i => VInt (Z.of_nat i)) (seq 0 (seq_len x)).
Proof. exact indices_yields. Qed.
Print Assumptions C17_indices_yields.

(* seq_at x i is x[i]: for an array its i-th element, for a string its i-th byte as a string *)
Theorem C17_elems_yields : forall t x e st f,
  eval f t e st = Done st (CVal x) -> is_seq x = true -> Z.of_nat (seq_len x) <= max_int ->
  has_builtin st "elems" elems_clos -> (seq_len x + 6 <= f)%nat ->
  fst (drain (eval (S f) (NCall (NName "elems") [t]) e st)) = map (seq_at x) (seq 0 (seq_len x)).
Proof. exact elems_yields. Qed.
Print Assumptions C17_elems_yields.

Theorem C17_seq_at_is_indexing : forall x i, is_seq x = true -> (i < seq_len x)%nat ->
  Index1 x (VInt (Z.of_nat i)) = Ok (seq_at x i).
Proof. exact index_seq. Qed.
Print Assumptions C17_seq_at_is_indexing.

(* an argument that is neither array nor string: a runtime error, nothing handed out *)
Theorem C17_elems_of_non_sequence : forall t x e st f,
  eval (S (S (S (S (S f))))) t e st = Done st (CVal x) -> is_seq x = false ->
  has_builtin st "elems" elems_clos ->
  exists st', eval (S (S (S (S (S (S f)))))) (NCall (NName "elems") [t]) e st
              = Done st' (CErr (match x with VNil => ErrNil | _ => ErrType end)).
Proof. exact elems_of_non_sequence. Qed.
Print Assumptions C17_elems_of_non_sequence.

(* in a for loop: the body runs once per value, in order *)
Theorem C17_for_over_fromto_collects : forall a b st f,
  in_int64 a = true -> in_int64 b = true -> has_builtin st "fromto" fromto_clos ->
  (Z.to_nat (b - a) + 12 <= f)%nat ->
  exists st', eval f (collect_prog (NCall (NName "fromto") [NInt a; NInt b])) env_top st
              = Done st' (CVal (VArr (map (fun i => VInt (a + Z.of_nat i)) (seq 0 (Z.to_nat (b - a)))))).
Proof. exact fromto_collect. Qed.
Print Assumptions C17_for_over_fromto_collects.

(* ... and through the front door of the session semantics (its fuel is 3000) *)
Theorem C17_fromto_session : forall a b,
  in_int64 a = true -> in_int64 b = true -> b - a < 2900 ->
  snd (sem_tree sem_init (collect_prog (NCall (NName "fromto") [NInt a; NInt b])))
  = CVal (VArr (map (fun i => VInt (a + Z.of_nat i)) (seq 0 (Z.to_nat (b - a))))).
Proof. exact fromto_collect_session. Qed.
Print Assumptions C17_fromto_session.

Theorem C17_for_over_elems_returns_the_array : forall t l st f,
  eval (S (S (S f))) t env_top (set_global st "acc" (VArr [])) = Done (set_global st "acc" (VArr [])) (CVal (VArr l)) ->
  Z.of_nat (List.length l) <= max_int -> forallb (fun v => negb (is_nil v)) l = true ->
  has_builtin st "elems" elems_clos -> (List.length l + 6 <= f)%nat ->
  exists st', eval (S (S (S (S (S (S f)))))) (collect_prog (NCall (NName "elems") [t])) env_top st
              = Done st' (CVal (VArr l)).
Proof. exact elems_collect_array. Qed.
Print Assumptions C17_for_over_elems_returns_the_array.

Theorem C17_for_over_indices_collects : forall t x st f,
  eval (S (S (S f))) t env_top (set_global st "acc" (VArr [])) = Done (set_global st "acc" (VArr [])) (CVal x) ->
  is_seq x = true -> Z.of_nat (seq_len x) <= max_int -> has_builtin st "indices" indices_clos ->
  (seq_len x + 6 <= f)%nat ->
  exists st', eval (S (S (S (S (S (S f)))))) (collect_prog (NCall (NName "indices") [t])) env_top st
              = Done st' (CVal (VArr (map (fun i => VInt (Z.of_nat i)) (seq 0 (seq_len x))))).
Proof. exact indices_collect. Qed.
Print Assumptions C17_for_over_indices_collects.

(* successive read() calls return successive lines of the input and lose none *)
Theorem C17_reads_successive_lines : forall l1 l2 st f,
  has_builtin st "read" read_clos -> s_in st = l1 ++ l2 ->
  fst (reads (S (S (S f))) (List.length l1) st) = map (fun l => CVal (VStr l)) l1 /\
  s_in (snd (reads (S (S (S f))) (List.length l1) st)) = l2.
Proof. exact reads_successive_lines. Qed.
Print Assumptions C17_reads_successive_lines.

Theorem C17_read_at_end_of_input : forall st f,
  has_builtin st "read" read_clos -> s_in st = [] ->
  eval (S (S (S f))) (NCall (NName "read") []) env_top st = Done (fst (new_frame st [])) (CErr ErrRead).
Proof. exact read_call_eof. Qed.
Print Assumptions C17_read_at_end_of_input.

(* the hypotheses are met: a literal argument in the start-up state *)
Example C17_hypotheses_hold :
  eval 3 (NList [NInt 4; NStr "x"]) env_top (set_global sem_init "acc" (VArr []))
  = Done (set_global sem_init "acc" (VArr [])) (CVal (VArr [VInt 4; VStr "x"])) /\
  has_builtin sem_init "elems" elems_clos /\ has_builtin sem_init "read" read_clos /\ in_int64 (-3) = true.
Proof. repeat split. Qed.

(* the regenerated built-in trees, evaluated by the semantics *)
Example C17_generators_on_examples :
  map (fun t => snd (sem_tree sem_init (collect_prog t)))
      [NCall (NName "fromto") [NInt 3; NInt 7];
       NCall (NName "fromto") [NInt 5; NInt 5];
       NCall (NName "fromto") [NInt 9223372036854775805; NInt 9223372036854775807];
       NCall (NName "elems") [NList [NInt 4; NStr "x"; NBool true]];
       NCall (NName "elems") [NStr "ab"];
       NCall (NName "indices") [NStr "abc"];
       NCall (NName "indices") [NList []]]
  = [CVal (VArr [VInt 3; VInt 4; VInt 5; VInt 6]);
     CVal (VArr []);
     CVal (VArr [VInt 9223372036854775805; VInt 9223372036854775806]);
     CVal (VArr [VInt 4; VStr "x"; VBool true]);
     CVal (VArr [VStr "a"; VStr "b"]);
     CVal (VArr [VInt 0; VInt 1; VInt 2]);
     CVal (VArr [])].
Proof. vm_compute. reflexivity. Qed.

Example C17_wrong_arguments_are_errors :
  map (fun t => snd (sem_tree sem_init t))
      [NCall (NName "fromto") [NInt 1]; NCall (NName "toa") []; NCall (NName "aton") [NInt 5];
       NCall (NName "aton") [NStr "zz"]; NCall (NName "exit") [NStr "x"];
       collect_prog (NCall (NName "elems") [NInt 5])]
  = [CErr ErrArity; CErr ErrArity; CErr ErrType; CErr ErrConversion; CErr ErrType; CErr ErrType].
Proof. vm_compute. reflexivity. Qed.

(* ---- the leaf built-ins as the COMPILED code runs them (C01_statement_compiled: the code of nm(e) and
        g = nm(e) realises bop_sem / read_sem in every position) ---- *)
Require Import Calc.ExprSem Calc.ExprSession Calc.StmtSem.

(* toa returns exactly the text write appends to the output *)
Theorem C17_compiled_toa_is_what_write_prints : forall W x,
  exists s, snd (bop_sem BToa W x) = Ok (VStr s) /\ w_out (fst (bop_sem BWrite W x)) = s :: w_out W /\
            fst (bop_sem BToa W x) = W /\ snd (bop_sem BWrite W x) = Ok VNil.
Proof. intros W x. exists (to_string fmt_float x). repeat split. Qed.
Print Assumptions C17_compiled_toa_is_what_write_prints.

(* aton(toa(n)) = n for every 64-bit integer *)
Theorem C17_compiled_aton_toa_int : forall W W' z s,
  in_int64 z = true -> snd (bop_sem BToa W (VInt z)) = Ok (VStr s) -> snd (bop_sem BAton W' (VStr s)) = Ok (VInt z).
Proof.
  intros W W' z s Hz H. cbn [bop_sem snd] in *. injection H as <-.
  cbn [aton_res to_string]. rewrite (atoi_itoa z Hz). reflexivity.
Qed.
Print Assumptions C17_compiled_aton_toa_int.

(* aton of a non-string is a type error; of a string that is neither an integer nor a float, a conversion error *)
Theorem C17_compiled_aton_errors : forall W x,
  match x with
  | VStr s => match atoi s, parse_float s with
              | Some i, _ => snd (bop_sem BAton W x) = Ok (VInt i)
              | None, PFOk f => snd (bop_sem BAton W x) = Ok (VFloat f)
              | None, _ => snd (bop_sem BAton W x) = Fail ErrConversion
              end
  | _ => snd (bop_sem BAton W x) = Fail ErrType
  end.
Proof.
  intros W x. destruct x; try reflexivity. cbn [bop_sem snd aton_res].
  destruct (atoi s); [reflexivity|]. destruct (parse_float s); reflexivity.
Qed.
Print Assumptions C17_compiled_aton_errors.

(* successive read() calls return successive lines of the input, none lost, and a read error at its end *)
Fixpoint read_times (k : nat) (W : world) : list (res value) * world :=
  match k with
  | O => ([], W)
  | S k' => let (W1, r) := read_sem W in let (rs, W2) := read_times k' W1 in (r :: rs, W2)
  end.

Theorem C17_compiled_reads_successive_lines : forall ls W,
  w_in W = ls ->
  fst (read_times (List.length ls) W) = map (fun l => Ok (VStr l)) ls /\
  w_in (snd (read_times (List.length ls) W)) = [] /\
  snd (read_sem (snd (read_times (List.length ls) W))) = Fail ErrRead.
Proof.
  induction ls as [|l ls IH]; intros W Hin.
  - cbn [List.length read_times fst snd map]. unfold read_sem. rewrite Hin. cbn [snd]. repeat split; try exact Hin.
  - set (W1 := {| w_glob := w_glob W; w_out := w_out W; w_in := ls; w_next := w_next W |}).
    assert (E : read_sem W = (W1, Ok (VStr l))) by (unfold read_sem; rewrite Hin; reflexivity).
    cbn [List.length read_times]. rewrite E.
    specialize (IH W1 eq_refl).
    destruct (read_times (List.length ls) W1) as [rs W2]. cbn [fst snd] in IH |- *.
    destruct IH as (E1 & E2 & E3). cbn [map]. rewrite E1. split; [reflexivity|]. split; [exact E2|exact E3].
Qed.
Print Assumptions C17_compiled_reads_successive_lines.
