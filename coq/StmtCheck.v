(* StmtCheck.v — boolean checkers, proved sound, for the premises of the session theorems: a machine is
   ready; the code of a user function lies at its entry point.  With them the premises are established
   for a concrete machine by ONE computation — in the examples of PropC01.v and, on every run of the C01
   check, on the machine of each generated session. *)
Require Import Calc.Sem.
Require Import Calc.Base Calc.Bytecode Calc.BytecodeProofs Calc.Value Calc.FloatText Calc.Ast Calc.Resolve Calc.Compile Calc.VM
        Calc.MemProofs Calc.Session Calc.CompileWf
        Calc.ExprSem Calc.ExprVM Calc.ExprCorrect Calc.ExprTop Calc.ExprAssign Calc.ExprLen Calc.ExprSession
        Calc.LExprSem Calc.StmtSem Calc.StmtVM Calc.StmtCorrect Calc.StmtTop.
Require Import Lia.
Open Scope Z_scope.

Definition ready_b (mc : machine) : bool :=
  match assoc_get (v_ctxs (mc_vm mc)) 0 with
  | Some c =>
      match assoc_get (v_mems (mc_vm mc)) (c_mid c) with
      | Some m =>
          (c_ip c =? ncs (mc_cs mc)) && (0 <=? m_sp m) && (m_sp m <=? zlen (m_stack m)) && (c_mid c =? 0) &&
          (match c_children c with [] => true | _ => false end) &&
          (ncs (mc_cs mc) =? zlen (rcs (mc_cs mc))) && (nds (mc_cs mc) =? zlen (rds (mc_cs mc)))
      | None => false
      end
  | None => false
  end.

Lemma ready_b_sound mc : ready_b mc = true -> exists c m, ready mc c m.
Proof.
  unfold ready_b. destruct (assoc_get (v_ctxs (mc_vm mc)) 0) as [c|] eqn:Ec; [|discriminate].
  destruct (assoc_get (v_mems (mc_vm mc)) (c_mid c)) as [m|] eqn:Em; [|discriminate].
  intros H. repeat (apply andb_prop in H; destruct H as [H ?]).
  repeat match goal with E : (_ =? _) = true |- _ => apply Z.eqb_eq in E end.
  repeat match goal with E : (_ <=? _) = true |- _ => apply Z.leb_le in E end.
  exists c, m. split; [split; [split; assumption|constructor; try assumption; lia]|].
  split; [assumption|]. destruct (c_children c); [reflexivity|discriminate].
Qed.

(* ---- code and data at their places ---- *)
Fixpoint code_at_b (v : vm) (n : Z) (code : list Z) : bool :=
  match code with
  | [] => true
  | i :: r => (match znth (v_cs v) n with Some j => j =? i | None => false end) && code_at_b v (n + 1) r
  end.

Lemma code_at_b_sound v : forall code n, code_at_b v n code = true -> code_at v n code.
Proof.
  induction code as [|i r IH]; intros n H k x Hk; [destruct k; discriminate Hk|].
  cbn [code_at_b] in H. apply andb_prop in H. destruct H as [H1 H2].
  destruct k as [|k]; cbn [nth_error] in Hk.
  - injection Hk as <-. destruct (znth (v_cs v) n) as [j|] eqn:E; [|discriminate H1]. apply Z.eqb_eq in H1. subst j.
    rewrite Z.add_0_r. exact E.
  - replace (n + Z.of_nat (S k)) with (n + 1 + Z.of_nat k) by lia. exact (IH (n + 1) H2 k x Hk).
Qed.

Lemma data_at_prefix v s : firstn (List.length (rds s)) (v_ds v) = rev (rds s) -> data_at v s.
Proof.
  intros H i x Hi. rewrite <- H in Hi. unfold znth in *. destruct (i <? 0); [discriminate Hi|].
  assert (Hlt : (Z.to_nat i < List.length (rds s))%nat).
  { destruct (Nat.lt_ge_cases (Z.to_nat i) (List.length (rds s))) as [L|G]; [exact L|].
    rewrite (proj2 (nth_error_None _ _)) in Hi; [discriminate Hi|]. rewrite firstn_length. lia. }
  rewrite nth_error_firstn' in Hi by exact Hlt. exact Hi.
Qed.

(* the facts, each closed and computable, that put a user function's code at its entry point: s0 is the
   compile state in which its body was compiled, flb the flags *)
Definition ufun_facts (a : Z) (v : vm) (body : node) (f : value) (s0 : cstate) (flb : flags) : Prop :=
  exists morph fid fr wb s1,
    f = VFun morph fid /\ fn_params morph = a /\ fn_locals morph = a /\ assoc_get (v_frames v) fid = Some fr /\
    ncs s0 = zlen (rcs s0) /\ nds s0 = zlen (rds s0) /\ ncs s0 = fn_node morph /\
    comp body 0 flb s0 = COk (wb, s1) /\ OpDepth flb = 0 /\ Discard flb = false /\ AcceptTemp flb = false /\
    code_at_b v (ncs s0) (rev (firstn (List.length (rcs s1) - List.length (rcs s0)) (rcs s1)) ++ [Z.lor (New RET) wb]) = true /\
    firstn (List.length (rds s1)) (v_ds v) = rev (rds s1).

Lemma ufun_facts_sound a v body f s0 flb : ufun_facts a v body f s0 flb -> is_ufun a v body f.
Proof.
  intros (morph & fid & fr & wb & s1 & F1 & F2 & F3 & F4 & F5 & F6 & F7 & F8 & F9 & F10 & F11 & F12 & F13).
  exists morph, fid, fr, s0, s1, wb, flb.
  split; [exact F1|]. split; [exact F2|]. split; [exact F3|]. split; [exact F4|]. split; [split; assumption|].
  split; [exact F7|]. split; [exact F8|]. split; [exact F9|]. split; [exact F10|]. split; [exact F11|]. split.
  - intros code Hcode.
    assert (E : code = rev (firstn (List.length (rcs s1) - List.length (rcs s0)) (rcs s1))).
    { rewrite Hcode, app_length, rev_length. replace (List.length code + List.length (rcs s0) - List.length (rcs s0))%nat
        with (List.length (rev code) + 0)%nat by (rewrite rev_length; lia).
      rewrite firstn_app_2. cbn [firstn]. rewrite app_nil_r, rev_involutive. reflexivity. }
    rewrite E. apply code_at_b_sound. exact F12.
  - apply data_at_prefix. exact F13.
Qed.
