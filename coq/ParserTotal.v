(* ParserTotal.v — C06: the grammar model is total.  For every token list,
   with the fuel parse_model gives it, no parsing function runs out of fuel:
   it returns trees or rejects.  Two mutual inductions over the fuel: every
   successful parse consumes at least one token (so the repetition counters
   suffice), and fuel 8 * |tokens| + c suffices for every nonterminal. *)
Require Import Calc.Base Calc.Bytecode Calc.Value Calc.FloatText Calc.Ast Calc.Lexer Calc.Grammar.
Require Import Lia.
Open Scope nat_scope.

Notation len := (@List.length tok).

Definition shrinks {A} (f : list tok -> pr A) : Prop := forall ts a r, f ts = Got a r -> len r < len ts.
Definition nonincr {A} (f : list tok -> pr A) : Prop := forall ts a r, f ts = Got a r -> len r <= len ts.
Definition safe_upto {A} (N : nat) (f : list tok -> pr A) : Prop := forall ts, len ts <= N -> f ts <> Out.

Lemma accept_inv p ts t r : accept p ts = Got t r -> ts = Some t :: r.
Proof.
  destruct ts as [|[x|] ts']; cbn; intros H; try discriminate.
  destruct (p x); inversion H; subst; reflexivity.
Qed.

Lemma accept_not_out p ts : accept p ts <> Out.
Proof. destruct ts as [|[x|] ts']; cbn; try discriminate. destruct (p x); discriminate. Qed.

Lemma peek_val_inv v ts : peek_val v ts = true -> exists t r, ts = Some t :: r.
Proof. destruct ts as [|[x|] ts']; cbn; intros H; try discriminate. eauto. Qed.

Lemma skip_eols_len ts : len (skip_eols ts) <= len ts.
Proof.
  induction ts as [|[t|] r IH]; cbn; try lia. destruct (is_kind KEOL t); cbn; lia.
Qed.

Lemma eols1_len ts u r : eols1 ts = Got u r -> len r < len ts.
Proof.
  destruct ts as [|[t|] ts']; cbn; intros H; try discriminate.
  destruct (is_kind KEOL t); inversion H; subst. pose proof (skip_eols_len ts'). lia.
Qed.

Lemma eols1_not_out ts : eols1 ts <> Out.
Proof. destruct ts as [|[t|] ts']; cbn; try discriminate. destruct (is_kind KEOL t); discriminate. Qed.

Lemma names_tail_len n ts acc : len (snd (names_tail n ts acc)) <= len ts.
Proof.
  revert ts acc. induction n as [|n IH]; intros ts acc; cbn; [lia|].
  destruct ts as [|[c|] [|[t|] r]]; cbn; try lia.
  destruct (is_val "," c && is_varname t); cbn; [|lia]. specialize (IH r (acc ++ [NName (g_value t)])). lia.
Qed.

Lemma names_sep_len ts : len (snd (names_sep ts)) <= len ts.
Proof.
  unfold names_sep. destruct ts as [|[t|] r]; cbn; try lia.
  destruct (is_varname t); cbn; [|lia]. pose proof (names_tail_len (List.length r) r [NName (g_value t)]). lia.
Qed.

Lemma parameters_len ts ps r : parameters ts = Got ps r -> len r + 2 <= len ts.
Proof.
  unfold parameters. destruct (accept (is_val "(") ts) as [t r0| |] eqn:A; try discriminate.
  apply accept_inv in A. subst ts.
  pose proof (names_sep_len r0) as L. destruct (names_sep r0) as [ns r1]. cbn [snd] in L.
  destruct (accept (is_val ")") r1) as [t2 r2| |] eqn:B; try discriminate.
  apply accept_inv in B. subst r1. intros H. inversion H; subst. cbn in *. lia.
Qed.

Lemma for_names_tail_len n ts acc l r : for_names_tail n ts acc = Got l r -> len r <= len ts.
Proof.
  revert ts acc. induction n as [|n IH]; intros ts acc H; cbn in H; [discriminate|].
  destruct ts as [|[c|] r0]; try (inversion H; subst; lia).
  destruct (is_val "," c); [|inversion H; subst; cbn; lia].
  destruct (accept is_varname r0) as [t r1| |] eqn:A; try discriminate.
  apply accept_inv in A. subst r0. apply IH in H. cbn in *. lia.
Qed.

Lemma for_names_tail_not_out n ts acc : len ts < n -> for_names_tail n ts acc <> Out.
Proof.
  revert ts acc. induction n as [|n IH]; intros ts acc Hn; [lia|]. cbn.
  destruct ts as [|[c|] r0]; try discriminate.
  destruct (is_val "," c); [|discriminate].
  destruct (accept is_varname r0) as [t r1| |] eqn:A; try discriminate.
  - apply accept_inv in A. subst r0. apply IH. cbn in *. lia.
  - exfalso. exact (accept_not_out _ _ A).
Qed.

Section Chains.
  Variable sub : list tok -> pr node.
  Hypothesis Hsub : shrinks sub.

  Lemma chain_loop_len n ops acc ts a r : chain_loop sub n ops acc ts = Got a r -> len r <= len ts.
  Proof.
    revert acc ts. induction n as [|n IH]; intros acc ts H; cbn in H; [discriminate|].
    destruct (accept (tok_in ops) ts) as [t r0| |] eqn:A; try (inversion H; subst; lia).
    apply accept_inv in A. subst ts.
    destruct (sub r0) as [e r1| |] eqn:Hs; try discriminate.
    apply Hsub in Hs. apply IH in H. cbn. lia.
  Qed.

  Lemma chain_len n ops : shrinks (chain sub n ops).
  Proof.
    intros ts a r H. unfold chain in H. destruct (sub ts) as [e r0| |] eqn:Hs; try discriminate.
    apply Hsub in Hs. apply chain_loop_len in H. lia.
  Qed.

  Lemma chain_loop_safe N n ops acc ts :
    safe_upto N sub -> len ts <= N -> len ts < n -> chain_loop sub n ops acc ts <> Out.
  Proof.
    intros HS. revert acc ts. induction n as [|n IH]; intros acc ts HN Hn; [lia|]. cbn.
    destruct (accept (tok_in ops) ts) as [t r0| |] eqn:A; try discriminate.
    apply accept_inv in A. subst ts. cbn in HN, Hn.
    destruct (sub r0) as [e r1| |] eqn:Hs; try discriminate.
    - apply Hsub in Hs. apply IH; lia.
    - exfalso. apply (HS r0); [lia|exact Hs].
  Qed.

  Lemma chain_safe N n ops : safe_upto N sub -> forall ts, len ts <= N -> len ts < n -> chain sub n ops ts <> Out.
  Proof.
    intros HS ts HN Hn. unfold chain. destruct (sub ts) as [e r0| |] eqn:Hs; try discriminate.
    - apply Hsub in Hs. apply (chain_loop_safe N); [exact HS|lia|lia].
    - exfalso. apply (HS ts HN Hs).
  Qed.
End Chains.

Section Lists.
  Variable expr : list tok -> pr node.
  Hypothesis Hexpr : shrinks expr.

  Lemma exprs_tail_len n eac ts acc l r : exprs_tail expr n eac ts acc = Got l r -> len r <= len ts.
  Proof.
    revert ts acc. induction n as [|n IH]; intros ts acc H; cbn in H; [discriminate|].
    destruct (accept (is_val ",") ts) as [t r0| |] eqn:A; try (inversion H; subst; lia).
    apply accept_inv in A. subst ts.
    destruct (expr (if eac then skip_eols r0 else r0)) as [e r1| |] eqn:Hs; try (inversion H; subst; lia); try discriminate.
    apply Hexpr in Hs. apply IH in H.
    assert (len (if eac then skip_eols r0 else r0) <= len r0) by (destruct eac; [apply skip_eols_len|lia]).
    cbn. lia.
  Qed.

  Lemma exprs_sep_len n eac ts l r : exprs_sep expr n eac ts = Got l r -> len r <= len ts.
  Proof.
    unfold exprs_sep. destruct (expr ts) as [e r0| |] eqn:Hs; intros H; try (inversion H; subst; lia); try discriminate.
    apply Hexpr in Hs. apply exprs_tail_len in H. lia.
  Qed.

  Lemma exprs_tail_safe N n eac ts acc :
    safe_upto N expr -> len ts <= N -> len ts < n -> exprs_tail expr n eac ts acc <> Out.
  Proof.
    intros HS. revert ts acc. induction n as [|n IH]; intros ts acc HN Hn; [lia|]. cbn.
    destruct (accept (is_val ",") ts) as [t r0| |] eqn:A; try discriminate.
    apply accept_inv in A. subst ts. cbn in HN, Hn.
    set (r0' := if eac then skip_eols r0 else r0).
    assert (L : len r0' <= len r0) by (unfold r0'; destruct eac; [apply skip_eols_len|lia]).
    destruct (expr r0') as [e r1| |] eqn:Hs; try discriminate.
    - apply Hexpr in Hs. apply IH; lia.
    - exfalso. apply (HS r0' ltac:(lia) Hs).
  Qed.

  Lemma exprs_sep_safe N n eac ts :
    safe_upto N expr -> len ts <= N -> len ts < n -> exprs_sep expr n eac ts <> Out.
  Proof.
    intros HS HN Hn. unfold exprs_sep. destruct (expr ts) as [e r0| |] eqn:Hs; try discriminate.
    - apply Hexpr in Hs. apply (exprs_tail_safe N); [exact HS|lia|lia].
    - exfalso. apply (HS ts HN Hs).
  Qed.

  Lemma for_exprs_tail_len n ts acc l r : for_exprs_tail expr n ts acc = Got l r -> len r <= len ts.
  Proof.
    revert ts acc. induction n as [|n IH]; intros ts acc H; cbn in H; [discriminate|].
    destruct (accept (is_val ",") ts) as [t r0| |] eqn:A; try (inversion H; subst; lia).
    apply accept_inv in A. subst ts.
    destruct (expr r0) as [e r1| |] eqn:Hs; try discriminate.
    apply Hexpr in Hs. apply IH in H. cbn. lia.
  Qed.

  Lemma for_exprs_tail_safe N n ts acc :
    safe_upto N expr -> len ts <= N -> len ts < n -> for_exprs_tail expr n ts acc <> Out.
  Proof.
    intros HS. revert ts acc. induction n as [|n IH]; intros ts acc HN Hn; [lia|]. cbn.
    destruct (accept (is_val ",") ts) as [t r0| |] eqn:A; try discriminate.
    apply accept_inv in A. subst ts. cbn in HN, Hn.
    destruct (expr r0) as [e r1| |] eqn:Hs; try discriminate.
    - apply Hexpr in Hs. apply IH; lia.
    - exfalso. apply (HS r0 ltac:(lia) Hs).
  Qed.

  Lemma index_loop_len n acc ts a r : index_loop expr n acc ts = Got a r -> len r <= len ts.
  Proof.
    revert acc ts. induction n as [|n IH]; intros acc ts H; cbn in H; [discriminate|].
    destruct (peek_val "[" ts) eqn:P; [|inversion H; subst; lia].
    destruct ts as [|t0 r1]; [discriminate|].
    destruct (expr r1) as [e1 r2| |] eqn:S1; try discriminate. apply Hexpr in S1.
    destruct (accept (is_val ":") r2) as [c r3| |] eqn:A.
    - apply accept_inv in A. subst r2.
      destruct (expr r3) as [e2 r4| |] eqn:S2; try discriminate. apply Hexpr in S2.
      destruct (accept (is_val "]") r4) as [c2 r5| |] eqn:B; try discriminate.
      apply accept_inv in B. subst r4. apply IH in H. cbn in *. lia.
    - destruct (accept (is_val "]") r2) as [c2 r5| |] eqn:B; try discriminate.
      apply accept_inv in B. subst r2. apply IH in H. cbn in *. lia.
    - exfalso. exact (accept_not_out _ _ A).
  Qed.

  Lemma index_loop_safe N n acc ts :
    safe_upto N expr -> len ts <= N -> len ts < n -> index_loop expr n acc ts <> Out.
  Proof.
    intros HS. revert acc ts. induction n as [|n IH]; intros acc ts HN Hn; [lia|]. cbn.
    destruct (peek_val "[" ts) eqn:P; [|discriminate].
    destruct ts as [|t0 r1]; [discriminate|]. cbn in HN, Hn.
    destruct (expr r1) as [e1 r2| |] eqn:S1; try discriminate.
    2: { exfalso. apply (HS r1 ltac:(lia) S1). }
    apply Hexpr in S1.
    destruct (accept (is_val ":") r2) as [c r3| |] eqn:A.
    - apply accept_inv in A. subst r2. cbn in S1.
      destruct (expr r3) as [e2 r4| |] eqn:S2; try discriminate.
      2: { exfalso. apply (HS r3 ltac:(lia) S2). }
      apply Hexpr in S2.
      destruct (accept (is_val "]") r4) as [c2 r5| |] eqn:B; try discriminate.
      + apply accept_inv in B. subst r4. cbn in S2. apply IH; lia.
      + exfalso. exact (accept_not_out _ _ B).
    - destruct (accept (is_val "]") r2) as [c2 r5| |] eqn:B; try discriminate.
      + apply accept_inv in B. subst r2. cbn in S1. apply IH; lia.
      + exfalso. exact (accept_not_out _ _ B).
    - exfalso. exact (accept_not_out _ _ A).
  Qed.
End Lists.

Section Stmts.
  Variable stmt : list tok -> pr node.
  Hypothesis Hstmt : shrinks stmt.

  Lemma stmts_loop_len n acc ts a r : stmts_loop stmt n acc ts = Got a r -> len r < len ts.
  Proof.
    revert acc ts. induction n as [|n IH]; intros acc ts H; cbn in H; [discriminate|].
    destruct (eols1 ts) as [u ra| |] eqn:E; try discriminate. apply eols1_len in E.
    destruct (peek_val "}" ra) eqn:P.
    - destruct ra as [|t0 rb]; [discriminate|]. inversion H; subst. cbn in *. lia.
    - destruct (stmt ra) as [s rb| |] eqn:Hs; try discriminate. apply Hstmt in Hs. apply IH in H. lia.
  Qed.

  Lemma stmts_loop_safe N n acc ts :
    safe_upto N stmt -> len ts <= N -> len ts < n -> stmts_loop stmt n acc ts <> Out.
  Proof.
    intros HS. revert acc ts. induction n as [|n IH]; intros acc ts HN Hn; [lia|]. cbn.
    destruct (eols1 ts) as [u ra| |] eqn:E; try discriminate.
    apply eols1_len in E.
    destruct (peek_val "}" ra) eqn:P.
    - destruct ra as [|t0 rb]; discriminate.
    - destruct (stmt ra) as [s rb| |] eqn:Hs; try discriminate.
      + apply Hstmt in Hs. apply IH; lia.
      + exfalso. apply (HS ra ltac:(lia) Hs).
  Qed.
End Stmts.

(* ---------- every successful parse consumes a token ---------- *)
Definition LenAll (fuel : nat) : Prop :=
  shrinks (p_expr fuel) /\ shrinks (p_unary fuel) /\ shrinks (p_index fuel) /\ shrinks (p_atom fuel) /\
  shrinks (p_atom_simple fuel) /\ shrinks (p_stmt fuel) /\ shrinks (p_block fuel).

Ltac acc_inv H := apply accept_inv in H; subst.

Lemma len_all : forall fuel, LenAll fuel.
Proof.
  induction fuel as [|k IH].
  - repeat split; intros ts a r H; discriminate.
  - destruct IH as (Le & Lu & Li & La & Ls & Lst & Lb).
    assert (Le' : shrinks (p_expr (S k))).
    { change (p_expr (S k)) with (fun ts => chain (chain (chain (chain (chain (p_unary k) (S (List.length ts)) (level_ops 4))
              (S (List.length ts)) (level_ops 3)) (S (List.length ts)) (level_ops 2)) (S (List.length ts)) (level_ops 1))
              (S (List.length ts)) (level_ops 0) ts).
      intros ts a r H. revert H. apply chain_len. apply chain_len. apply chain_len. apply chain_len. apply chain_len. exact Lu. }
    assert (Lu' : shrinks (p_unary (S k))).
    { intros ts a r H. cbn [p_unary] in H.
      destruct (accept (tok_in unary_ops) ts) as [t r0| |] eqn:A.
      - acc_inv A. destruct (p_index k r0) as [e r1| |] eqn:I; try discriminate.
        + inversion H; subst. apply Li in I. cbn. lia.
        + apply Li in H. exact H.
      - apply Li in H. exact H.
      - apply Li in H. exact H. }
    assert (Li' : shrinks (p_index (S k))).
    { intros ts a r H. cbn [p_index] in H. destruct (p_atom k ts) as [b r0| |] eqn:A; try discriminate.
      apply La in A. apply (index_loop_len _ Le) in H. lia. }
    assert (La' : shrinks (p_atom (S k))).
    { intros ts a r H. cbn [p_atom] in H.
      destruct (match parameters ts with Got ps r => if peek_val "->" r then Some (ps, r) else None | _ => None end) as [[ps r0]|] eqn:G.
      - destruct (parameters ts) as [ps' r'| |] eqn:Pa; try discriminate.
        destruct (peek_val "->" r'); inversion G; subst. apply parameters_len in Pa.
        destruct r0 as [|t0 r1]; [discriminate|].
        destruct (p_block k r1) as [b r2| |] eqn:B; try discriminate. inversion H; subst. apply Lb in B. cbn in *. lia.
      - destruct ts as [|[t|] [|[o|] r0]]; try (apply Ls in H; exact H).
        destruct (is_varname t && is_val "(" o); [|apply Ls in H; exact H].
        destruct (exprs_sep (p_expr k) (S (List.length r0)) false r0) as [args r1| |] eqn:E; try discriminate.
        apply (exprs_sep_len _ Le) in E.
        destruct (accept (is_val ")") r1) as [c r2| |] eqn:A; try discriminate. acc_inv A. inversion H; subst. cbn in *. lia. }
    assert (Ls' : shrinks (p_atom_simple (S k))).
    { intros ts a r H. cbn [p_atom_simple] in H. destruct ts as [|[t|] r0]; try discriminate.
      destruct (is_floatlit t). { destruct (parse_float (g_value t)); inversion H; subst; cbn; lia. }
      destruct (is_intlit t). { destruct (atoi (g_value t)); inversion H; subst; cbn; lia. }
      destruct (is_val "true" t). { inversion H; subst; cbn; lia. }
      destruct (is_val "false" t). { inversion H; subst; cbn; lia. }
      destruct (is_kind KStringLit t). { inversion H; subst; cbn; lia. }
      destruct (is_val "[" t).
      { destruct (exprs_sep (p_expr k) (S (List.length r0)) true (skip_eols r0)) as [es r1| |] eqn:E; try discriminate.
        apply (exprs_sep_len _ Le) in E. pose proof (skip_eols_len r0).
        destruct (accept (is_val "]") r1) as [c r2| |] eqn:A; try discriminate. acc_inv A. inversion H; subst. cbn in *. lia. }
      destruct (is_val "(" t).
      { destruct (p_expr k r0) as [e r1| |] eqn:E; try discriminate. apply Le in E.
        destruct (accept (is_val ")") r1) as [c r2| |] eqn:A; try discriminate. acc_inv A. inversion H; subst. cbn in *. lia. }
      destruct (is_varname t); inversion H; subst; cbn; lia. }
    assert (Lst' : shrinks (p_stmt (S k))).
    { intros ts a r H. cbn [p_stmt] in H.
      destruct (peek_val "if" ts) eqn:P1.
      { destruct ts as [|t0 r0]; [discriminate|].
        destruct (p_expr k r0) as [c r1| |] eqn:E; try discriminate. apply Le in E.
        destruct (p_block k r1) as [b r2| |] eqn:B; try discriminate. apply Lb in B.
        destruct (peek_val "else" r2).
        - destruct r2 as [|t1 r3]; [discriminate|].
          destruct (p_block k r3) as [f r4| |] eqn:B2; try discriminate. apply Lb in B2. inversion H; subst. cbn in *. lia.
        - inversion H; subst. cbn in *. lia. }
      destruct (peek_val "while" ts) eqn:P2.
      { destruct ts as [|t0 r0]; [discriminate|].
        destruct (p_expr k r0) as [c r1| |] eqn:E; try discriminate. apply Le in E.
        destruct (p_block k r1) as [b r2| |] eqn:B; try discriminate. apply Lb in B. inversion H; subst. cbn in *. lia. }
      destruct (peek_val "for" ts) eqn:P3.
      { destruct ts as [|t0 r0]; [discriminate|].
        destruct (accept is_varname r0) as [v r1| |] eqn:A; try discriminate. acc_inv A.
        destruct (for_names_tail (S (List.length r1)) r1 [NName (g_value v)]) as [vars r2| |] eqn:F; try discriminate.
        apply for_names_tail_len in F.
        destruct (accept (is_val "<-") r2) as [c r3| |] eqn:A2; try discriminate. acc_inv A2.
        destruct (p_expr k r3) as [e r4| |] eqn:E; try discriminate. apply Le in E.
        destruct (for_exprs_tail (p_expr k) (S (List.length r4)) r4 [e]) as [its r5| |] eqn:F2; try discriminate.
        apply (for_exprs_tail_len _ Le) in F2.
        destruct (p_block k r5) as [b r6| |] eqn:B; try discriminate. apply Lb in B.
        destruct (Nat.eqb (List.length vars) (List.length its)); inversion H; subst. cbn in *. lia. }
      destruct (peek_val "return" ts) eqn:P4.
      { destruct ts as [|t0 r0]; [discriminate|].
        destruct (p_expr k r0) as [e r1| |] eqn:E; try discriminate. apply Le in E. inversion H; subst. cbn in *. lia. }
      destruct (peek_val "yield" ts) eqn:P5.
      { destruct ts as [|t0 r0]; [discriminate|].
        destruct (p_expr k r0) as [e r1| |] eqn:E; try discriminate. apply Le in E. inversion H; subst. cbn in *. lia. }
      destruct ts as [|[t|] [|[o|] r0]]; try (apply Le in H; exact H).
      destruct (is_varname t && is_val "=" o); [|apply Le in H; exact H].
      destruct (p_expr k r0) as [e r1| |] eqn:E; try discriminate. apply Le in E. inversion H; subst. cbn in *. lia. }
    assert (Lb' : shrinks (p_block (S k))).
    { intros ts a r H. cbn [p_block] in H.
      destruct (peek_val "{" ts) eqn:P; [|apply Lst in H; exact H].
      destruct ts as [|t0 r0]; [discriminate|].
      destruct (eols1 r0) as [u r1| |] eqn:E; try discriminate. apply eols1_len in E.
      destruct (p_stmt k r1) as [s r2| |] eqn:St; try discriminate. apply Lst in St.
      apply (stmts_loop_len _ Lst) in H. cbn in *. lia. }
    repeat split; assumption.
Qed.

(* ---------- fuel 8 * |tokens| + c suffices ---------- *)
Definition SafeAll (fuel : nat) : Prop :=
  forall ts,
    (8 * len ts + 6 < fuel -> p_block fuel ts <> Out) /\
    (8 * len ts + 5 < fuel -> p_stmt fuel ts <> Out) /\
    (8 * len ts + 4 < fuel -> p_expr fuel ts <> Out) /\
    (8 * len ts + 3 < fuel -> p_unary fuel ts <> Out) /\
    (8 * len ts + 2 < fuel -> p_index fuel ts <> Out) /\
    (8 * len ts + 1 < fuel -> p_atom fuel ts <> Out) /\
    (8 * len ts + 0 < fuel -> p_atom_simple fuel ts <> Out).

Lemma safe_all : forall fuel, SafeAll fuel.
Proof.
  induction fuel as [|k IH]; [intros ts; repeat split; intros H; lia|].
  destruct (len_all k) as (Le & Lu & Li & La & Ls & Lst & Lb).
  assert (Sb : forall N, 8 * N + 6 < k -> safe_upto N (p_block k)) by (intros N HN ts Hts; apply (IH ts); lia).
  assert (Sst : forall N, 8 * N + 5 < k -> safe_upto N (p_stmt k)) by (intros N HN ts Hts; apply (IH ts); lia).
  assert (Se : forall N, 8 * N + 4 < k -> safe_upto N (p_expr k)) by (intros N HN ts Hts; apply (IH ts); lia).
  assert (Su : forall N, 8 * N + 3 < k -> safe_upto N (p_unary k)) by (intros N HN ts Hts; apply (IH ts); lia).
  assert (Si : forall N, 8 * N + 2 < k -> safe_upto N (p_index k)) by (intros N HN ts Hts; apply (IH ts); lia).
  assert (Sa : forall N, 8 * N + 1 < k -> safe_upto N (p_atom k)) by (intros N HN ts Hts; apply (IH ts); lia).
  assert (Ss : forall N, 8 * N + 0 < k -> safe_upto N (p_atom_simple k)) by (intros N HN ts Hts; apply (IH ts); lia).
  intros ts. repeat split; intros Hf.
  - (* block *)
    cbn [p_block]. destruct (peek_val "{" ts) eqn:P; [|apply (Sst (len ts)); lia].
    destruct ts as [|t0 r0]; [discriminate|]. cbn in Hf.
    destruct (eols1 r0) as [u r1| |] eqn:E; try discriminate; [|exfalso; exact (eols1_not_out _ E)].
    apply eols1_len in E.
    destruct (p_stmt k r1) as [s r2| |] eqn:St; try discriminate.
    + apply Lst in St. apply (stmts_loop_safe _ Lst (len r2)); [apply Sst; lia|lia|lia].
    + exfalso. apply (Sst (len r1) ltac:(lia) r1 (le_n _) St).
  - (* statement *)
    cbn [p_stmt].
    destruct (peek_val "if" ts) eqn:P1.
    { destruct ts as [|t0 r0]; [discriminate|]. cbn in Hf.
      destruct (p_expr k r0) as [c r1| |] eqn:E; try discriminate; [|exfalso; apply (Se (len r0) ltac:(lia) r0 (le_n _) E)].
      apply Le in E.
      destruct (p_block k r1) as [b r2| |] eqn:B; try discriminate; [|exfalso; apply (Sb (len r1) ltac:(lia) r1 (le_n _) B)].
      apply Lb in B. destruct (peek_val "else" r2); [|discriminate].
      destruct r2 as [|t1 r3]; [discriminate|]. cbn in B.
      destruct (p_block k r3) as [f r4| |] eqn:B2; try discriminate. exfalso. apply (Sb (len r3) ltac:(lia) r3 (le_n _) B2). }
    destruct (peek_val "while" ts) eqn:P2.
    { destruct ts as [|t0 r0]; [discriminate|]. cbn in Hf.
      destruct (p_expr k r0) as [c r1| |] eqn:E; try discriminate; [|exfalso; apply (Se (len r0) ltac:(lia) r0 (le_n _) E)].
      apply Le in E.
      destruct (p_block k r1) as [b r2| |] eqn:B; try discriminate. exfalso. apply (Sb (len r1) ltac:(lia) r1 (le_n _) B). }
    destruct (peek_val "for" ts) eqn:P3.
    { destruct ts as [|t0 r0]; [discriminate|]. cbn in Hf.
      destruct (accept is_varname r0) as [v r1| |] eqn:A; try discriminate; [|exfalso; exact (accept_not_out _ _ A)].
      acc_inv A. cbn in Hf.
      destruct (for_names_tail (S (List.length r1)) r1 [NName (g_value v)]) as [vars r2| |] eqn:F; try discriminate;
        [|exfalso; apply (for_names_tail_not_out (S (List.length r1)) r1 _ ltac:(lia) F)].
      apply for_names_tail_len in F.
      destruct (accept (is_val "<-") r2) as [c r3| |] eqn:A2; try discriminate; [|exfalso; exact (accept_not_out _ _ A2)].
      acc_inv A2. cbn in F.
      destruct (p_expr k r3) as [e r4| |] eqn:E; try discriminate; [|exfalso; apply (Se (len r3) ltac:(lia) r3 (le_n _) E)].
      apply Le in E.
      destruct (for_exprs_tail (p_expr k) (S (List.length r4)) r4 [e]) as [its r5| |] eqn:F2; try discriminate;
        [|exfalso; apply (for_exprs_tail_safe _ Le (len r4) (S (List.length r4)) r4 [e] ltac:(apply Se; lia) (le_n _) ltac:(lia) F2)].
      apply (for_exprs_tail_len _ Le) in F2.
      destruct (p_block k r5) as [b r6| |] eqn:B; try discriminate.
      - destruct (Nat.eqb (List.length vars) (List.length its)); discriminate.
      - exfalso. apply (Sb (len r5) ltac:(lia) r5 (le_n _) B). }
    destruct (peek_val "return" ts) eqn:P4.
    { destruct ts as [|t0 r0]; [discriminate|]. cbn in Hf.
      destruct (p_expr k r0) as [e r1| |] eqn:E; try discriminate. exfalso. apply (Se (len r0) ltac:(lia) r0 (le_n _) E). }
    destruct (peek_val "yield" ts) eqn:P5.
    { destruct ts as [|t0 r0]; [discriminate|]. cbn in Hf.
      destruct (p_expr k r0) as [e r1| |] eqn:E; try discriminate. exfalso. apply (Se (len r0) ltac:(lia) r0 (le_n _) E). }
    assert (Dflt : p_expr k ts <> Out) by (apply (Se (len ts) ltac:(lia) ts (le_n _))).
    destruct ts as [|[t|] [|[o|] r0]]; try exact Dflt.
    destruct (is_varname t && is_val "=" o); [|exact Dflt].
    cbn in Hf. destruct (p_expr k r0) as [e r1| |] eqn:E; try discriminate. exfalso. apply (Se (len r0) ltac:(lia) r0 (le_n _) E).
  - (* expression *)
    change (p_expr (S k) ts) with (chain (chain (chain (chain (chain (p_unary k) (S (List.length ts)) (level_ops 4))
              (S (List.length ts)) (level_ops 3)) (S (List.length ts)) (level_ops 2)) (S (List.length ts)) (level_ops 1))
              (S (List.length ts)) (level_ops 0) ts).
    set (n := S (List.length ts)).
    assert (S4 : safe_upto (len ts) (chain (p_unary k) n (level_ops 4))).
    { intros ts' H'. apply (chain_safe _ Lu (len ts)); [apply Su; lia|exact H'|unfold n; lia]. }
    assert (L4 := chain_len _ Lu n (level_ops 4)).
    assert (S3 : safe_upto (len ts) (chain (chain (p_unary k) n (level_ops 4)) n (level_ops 3))).
    { intros ts' H'. apply (chain_safe _ L4 (len ts)); [exact S4|exact H'|unfold n; lia]. }
    assert (L3 := chain_len _ L4 n (level_ops 3)).
    assert (S2 : safe_upto (len ts) (chain (chain (chain (p_unary k) n (level_ops 4)) n (level_ops 3)) n (level_ops 2))).
    { intros ts' H'. apply (chain_safe _ L3 (len ts)); [exact S3|exact H'|unfold n; lia]. }
    assert (L2 := chain_len _ L3 n (level_ops 2)).
    assert (S1 : safe_upto (len ts) (chain (chain (chain (chain (p_unary k) n (level_ops 4)) n (level_ops 3)) n (level_ops 2)) n (level_ops 1))).
    { intros ts' H'. apply (chain_safe _ L2 (len ts)); [exact S2|exact H'|unfold n; lia]. }
    assert (L1 := chain_len _ L2 n (level_ops 1)).
    apply (chain_safe _ L1 (len ts)); [exact S1|lia|unfold n; lia].
  - (* unary *)
    cbn [p_unary]. destruct (accept (tok_in unary_ops) ts) as [t r0| |] eqn:A.
    + acc_inv A. cbn in Hf. destruct (p_index k r0) as [e r1| |] eqn:I; try discriminate.
      * apply (Si (len (Some t :: r0)) ltac:(cbn in *; lia) (Some t :: r0) (le_n _)).
      * exfalso. apply (Si (len r0) ltac:(lia) r0 (le_n _) I).
    + apply (Si (len ts) ltac:(lia) ts (le_n _)).
    + apply (Si (len ts) ltac:(lia) ts (le_n _)).
  - (* index *)
    cbn [p_index]. destruct (p_atom k ts) as [b r0| |] eqn:A; try discriminate.
    + apply La in A. apply (index_loop_safe _ Le (len r0)); [apply Se; lia|lia|lia].
    + exfalso. apply (Sa (len ts) ltac:(lia) ts (le_n _) A).
  - (* atom *)
    cbn [p_atom].
    destruct (match parameters ts with Got ps r => if peek_val "->" r then Some (ps, r) else None | _ => None end) as [[ps r0]|] eqn:G.
    + destruct (parameters ts) as [ps' r'| |] eqn:Pa; try discriminate.
      destruct (peek_val "->" r'); inversion G; subst. apply parameters_len in Pa.
      destruct r0 as [|t0 r1]; [discriminate|]. cbn in Pa.
      destruct (p_block k r1) as [b r2| |] eqn:B; try discriminate. exfalso. apply (Sb (len r1) ltac:(lia) r1 (le_n _) B).
    + assert (Dflt : p_atom_simple k ts <> Out) by (apply (Ss (len ts) ltac:(lia) ts (le_n _))).
      destruct ts as [|[t|] [|[o|] r0]]; try exact Dflt.
      destruct (is_varname t && is_val "(" o); [|exact Dflt].
      cbn in Hf.
      destruct (exprs_sep (p_expr k) (S (List.length r0)) false r0) as [args r1| |] eqn:E; try discriminate.
      * destruct (accept (is_val ")") r1) as [c r2| |] eqn:A; try discriminate. exfalso. exact (accept_not_out _ _ A).
      * exfalso. apply (exprs_sep_safe _ Le (len r0) (S (List.length r0)) false r0 ltac:(apply Se; lia) (le_n _) ltac:(lia) E).
  - (* simple atom *)
    cbn [p_atom_simple]. destruct ts as [|[t|] r0]; try discriminate. cbn in Hf.
    destruct (is_floatlit t). { destruct (parse_float (g_value t)); discriminate. }
    destruct (is_intlit t). { destruct (atoi (g_value t)); discriminate. }
    destruct (is_val "true" t); [discriminate|]. destruct (is_val "false" t); [discriminate|].
    destruct (is_kind KStringLit t); [discriminate|].
    destruct (is_val "[" t).
    { pose proof (skip_eols_len r0) as SL.
      destruct (exprs_sep (p_expr k) (S (List.length r0)) true (skip_eols r0)) as [es r1| |] eqn:E; try discriminate.
      - destruct (accept (is_val "]") r1) as [c r2| |] eqn:A; try discriminate. exfalso. exact (accept_not_out _ _ A).
      - exfalso. apply (exprs_sep_safe _ Le (len r0) (S (List.length r0)) true (skip_eols r0) ltac:(apply Se; lia) SL ltac:(lia) E). }
    destruct (is_val "(" t).
    { destruct (p_expr k r0) as [e r1| |] eqn:E; try discriminate.
      - destruct (accept (is_val ")") r1) as [c r2| |] eqn:A; try discriminate. exfalso. exact (accept_not_out _ _ A).
      - exfalso. apply (Se (len r0) ltac:(lia) r0 (le_n _) E). }
    destruct (is_varname t); discriminate.
Qed.

(* ---------- the whole program ---------- *)
Lemma program_loop_len fuel n acc ts l r : p_program_loop fuel n acc ts = Got l r -> len r <= len ts.
Proof.
  destruct (len_all fuel) as (_ & _ & _ & _ & _ & _ & Lb).
  revert acc ts. induction n as [|n IH]; intros acc ts H; cbn in H; [discriminate|].
  destruct (accept (is_kind KEOL) ts) as [t r0| |] eqn:A; [inversion H; subst; lia| |].
  - destruct (p_block fuel ts) as [b r1| |] eqn:B; try discriminate. apply Lb in B. apply IH in H. lia.
  - destruct (p_block fuel ts) as [b r1| |] eqn:B; try discriminate. apply Lb in B. apply IH in H. lia.
Qed.

Lemma program_loop_safe fuel N n acc ts :
  8 * N + 6 < fuel -> len ts <= N -> len ts < n -> p_program_loop fuel n acc ts <> Out.
Proof.
  intros Hf. destruct (len_all fuel) as (_ & _ & _ & _ & _ & _ & Lb).
  revert acc ts. induction n as [|n IH]; intros acc ts HN Hn; [lia|]. cbn.
  assert (B0 : p_block fuel ts <> Out) by (apply (safe_all fuel ts); lia).
  destruct (accept (is_kind KEOL) ts) as [t r0| |] eqn:A; [discriminate| |].
  - destruct (p_block fuel ts) as [b r1| |] eqn:B; try discriminate; [|contradiction].
    apply Lb in B. apply IH; lia.
  - destruct (p_block fuel ts) as [b r1| |] eqn:B; try discriminate; [|contradiction].
    apply Lb in B. apply IH; lia.
Qed.

Theorem program_never_out_of_fuel : forall ts, p_program (parse_fuel ts) ts <> Out.
Proof.
  intros ts. unfold p_program, parse_fuel.
  destruct (p_program_loop (8 * List.length ts + 16) (S (List.length ts)) [] ts) as [l r| |] eqn:L; try discriminate.
  - destruct (eols1 r) as [u r1| |] eqn:E; try discriminate; [|exfalso; exact (eols1_not_out _ E)].
    destruct (accept (is_kind KEOF) r1) as [t r2| |] eqn:A; try discriminate. exfalso. exact (accept_not_out _ _ A).
  - exfalso. apply (program_loop_safe (8 * List.length ts + 16) (len ts) (S (List.length ts)) [] ts ltac:(lia) (le_n _) ltac:(lia) L).
Qed.

(* parser.Parse on any input: trees or an error, never an exhausted model *)
Theorem parse_model_total : forall input, parse_model input <> PFuel.
Proof.
  intros input. unfold parse_model.
  pose proof (program_never_out_of_fuel (toks_of_lexres (tokens_of input))) as H.
  destruct (p_program (parse_fuel (toks_of_lexres (tokens_of input))) (toks_of_lexres (tokens_of input))); try discriminate.
  contradiction.
Qed.

(* every successful parse of an expression, statement or block consumes at least one token *)
Theorem consumed_tokens_shrink : forall fuel,
  shrinks (p_expr fuel) /\ shrinks (p_stmt fuel) /\ shrinks (p_block fuel).
Proof. intros fuel. destruct (len_all fuel) as (A & _ & _ & _ & _ & B & C). auto. Qed.
