(* StmtProofs.v — C07: statements and blocks round-trip (trees without function literals). *)
Require Import Calc.Base Calc.Bytecode Calc.Value Calc.FloatText Calc.Ast Calc.Lexer Calc.Grammar Calc.Printer
        Calc.GrammarProofs.
Require Import Lia.
Open Scope nat_scope.

(* the body printer of Printer.pp, named *)
Definition pbody (guarded must_close : bool) (b : node) : list gtok :=
  match b with
  | NBlock l => braces (map pp l)
  | _ => let p := pp b in
         if (guarded && starts_ambiguous p) || (must_close && ends_open_if b) then braces [p] else p
  end.

Lemma pp_if c t : pp (NIf c t) = [tNm "if"] ++ pp_at 1 c ++ pbody true false t.
Proof. reflexivity. Qed.
Lemma pp_ifelse c t f : pp (NIfElse c t f) = [tNm "if"] ++ pp_at 1 c ++ pbody true true t ++ [tNm "else"] ++ pbody false false f.
Proof. reflexivity. Qed.
Lemma pp_while c b : pp (NWhile c b) = [tNm "while"] ++ pp_at 1 c ++ pbody true false b.
Proof. reflexivity. Qed.
Lemma pp_for vars its b :
  pp (NFor vars its b) = [tNm "for"] ++ sep_by [tNs ","] (map name_tok vars) ++ [tOp "<-"] ++
                         sep_by [tNs ","] (map (pp_at 1) its) ++ pbody true false b.
Proof. reflexivity. Qed.
Lemma pp_return e : pp (NReturn e) = tNm "return" :: pp e.
Proof. reflexivity. Qed.
Lemma pp_yield e : pp (NYield e) = tNm "yield" :: pp e.
Proof. reflexivity. Qed.
Lemma pp_assign v e : pp (NAssign v e) = name_tok v ++ [tOp "="] ++ pp e.
Proof. reflexivity. Qed.

(* statements over function-free expressions *)
Fixpoint wfst (n : node) : bool :=
  let wfbd (b : node) := match b with NBlock l => Nat.leb 2 (List.length l) && forallb wfst l | _ => wfst b end in
  match n with
  | NIf c t => wfx c && wfbd t
  | NIfElse c t f => wfx c && wfbd t && wfbd f
  | NWhile c b => wfx c && wfbd b
  | NFor vars its b =>
      Nat.leb 1 (List.length vars) && Nat.eqb (List.length vars) (List.length its) &&
      forallb is_name_node vars && forallb wfx its && wfbd b
  | NReturn e => wfx e
  | NYield e => wfx e
  | NAssign v e => is_name_node v && wfx e
  | NBlock _ => false
  | _ => wfx n
  end.

Definition wfbd (b : node) : bool :=
  match b with NBlock l => Nat.leb 2 (List.length l) && forallb wfst l | _ => wfst b end.

(* ---------- first tokens ---------- *)
Inductive head_class (t : gtok) : Prop :=
| HPlain : str_in (g_value t) specials = false -> is_kind KEOL t = false -> head_class t
| HTrue : t = tNm "true" -> head_class t
| HFalse : t = tNm "false" -> head_class t
| HBrack : t = tNs "[" -> head_class t
| HParen : t = tNs "(" -> head_class t
| HUnary : forall op, t = tOp op -> str_in op unary_ops = true -> head_class t.

Lemma expr_head x : wfx x = true -> exists t tl, pp x = t :: tl /\ head_class t.
Proof.
  induction x; intros W; cbn [wfx] in W; try discriminate.
  - eexists; eexists; split; [reflexivity|]. apply HPlain; [apply int_not_special, W|reflexivity].
  - eexists; eexists; split; [reflexivity|]. apply HPlain; [apply float_not_special, W|reflexivity].
  - eexists; eexists; split; [reflexivity|]. apply HPlain; [apply quote_not_special|reflexivity].
  - match goal with b : bool |- _ => destruct b end; eexists; eexists; (split; [reflexivity|]); [apply HTrue|apply HFalse]; reflexivity.
  - eexists; eexists; split; [reflexivity|]. apply HPlain; [apply name_not_special, W|reflexivity].
  - destruct (op_level op) eqn:E; [|discriminate]. apply andb_prop in W. destruct W as [W1 _].
    rewrite pp_bin. unfold pp_at. destruct (Nat.ltb (level x1) (lvl_of op)).
    + eexists; eexists; split; [reflexivity|apply HParen; reflexivity].
    + destruct (IHx1 W1) as (t & tl & E1 & K). rewrite E1. eexists; eexists; split; [reflexivity|exact K].
  - apply andb_prop in W. destruct W as [W1 _]. rewrite pp_un. eexists; eexists; split; [reflexivity|].
    apply (HUnary _ op); [reflexivity|exact W1].
  - apply andb_prop in W. destruct W as [W1 _]. rewrite pp_ixat. unfold pp_at. destruct (Nat.ltb (level x1) 7).
    + eexists; eexists; split; [reflexivity|apply HParen; reflexivity].
    + destruct (IHx1 W1) as (t & tl & E1 & K). rewrite E1. eexists; eexists; split; [reflexivity|exact K].
  - apply andb_prop in W. destruct W as [W1 _]. apply andb_prop in W1. destruct W1 as [W1 _].
    rewrite pp_ixft. unfold pp_at. destruct (Nat.ltb (level x1) 7).
    + eexists; eexists; split; [reflexivity|apply HParen; reflexivity].
    + destruct (IHx1 W1) as (t & tl & E1 & K). rewrite E1. eexists; eexists; split; [reflexivity|exact K].
  - rewrite pp_list. eexists; eexists; split; [reflexivity|apply HBrack; reflexivity].
  - apply andb_prop in W. destruct W as [W1 _]. destruct x; try discriminate. rewrite pp_call. cbn [name_tok app].
    eexists; eexists; split; [reflexivity|]. apply HPlain; [apply name_not_special, W1|reflexivity].
Qed.

(* what follows from the class of the first token *)
Lemma head_not_word t v : head_class t -> In v ["if"; "while"; "for"; "return"; "yield"; "else"; "}"; "{"; ","; "="; ")"; "]"; ":"; "<-"] ->
  is_val v t = false.
Proof.
  intros H Hv. destruct H as [Hs _| -> | -> | -> | -> |op -> Hop].
  - unfold is_val. destruct (String.eqb_spec (g_value t) v) as [E|]; [|reflexivity].
    exfalso. rewrite E in Hs.
    assert (A : forallb (fun s => str_in s specials) ["if"; "while"; "for"; "return"; "yield"; "else"; "}"; "{"; ","; "="; ")"; "]"; ":"; "<-"] = true)
      by (vm_compute; reflexivity).
    rewrite forallb_forall in A. rewrite (A v Hv) in Hs. discriminate.
  - cbn in Hv. repeat (destruct Hv as [<-|Hv]; [reflexivity|]). contradiction.
  - cbn in Hv. repeat (destruct Hv as [<-|Hv]; [reflexivity|]). contradiction.
  - cbn in Hv. repeat (destruct Hv as [<-|Hv]; [reflexivity|]). contradiction.
  - cbn in Hv. repeat (destruct Hv as [<-|Hv]; [reflexivity|]). contradiction.
  - apply str_in_true in Hop. cbn in Hop, Hv.
    destruct Hop as [<-|[<-|[<-|[<-|[]]]]]; repeat (destruct Hv as [<-|Hv]; [reflexivity|]); contradiction.
Qed.

Lemma head_not_eol t : head_class t -> is_kind KEOL t = false.
Proof. intros H. destruct H as [_ K| -> | -> | -> | -> |op -> _]; try reflexivity. exact K. Qed.

Lemma head_follow t r : head_class t -> str_in (g_value t) ["-"; "("; "["] = false -> follow 0 (Some t :: r).
Proof.
  intros H Ha. cbn [follow]. destruct H as [Hs _| -> | -> | -> | -> |op -> Hop]; try reflexivity; try discriminate.
  - unfold forb. rewrite (str_in_sub _ (binops_from 0)), (str_in_sub _ brackets); try reflexivity; try exact Hs; vm_compute; reflexivity.
  - apply str_in_true in Hop. cbn in Hop. destruct Hop as [<-|[<-|[<-|[<-|[]]]]]; try reflexivity. discriminate.
Qed.

Definition stmt_kw : list gtok := [tNm "if"; tNm "while"; tNm "for"; tNm "return"; tNm "yield"].

Definition shead (t : gtok) : Prop := head_class t \/ In t stmt_kw.

Lemma stmt_head s : wfst s = true -> exists t tl, pp s = t :: tl /\ shead t.
Proof.
  destruct s; intros W; cbn [wfst] in W; try discriminate;
    try (destruct (expr_head _ W) as (t & tl & E & K); exists t, tl; split; [exact E|left; exact K]).
  - eexists; eexists; split; [reflexivity|right; cbn; auto].
  - eexists; eexists; split; [reflexivity|right; cbn; auto].
  - eexists; eexists; split; [reflexivity|right; cbn; auto].
  - eexists; eexists; split; [reflexivity|right; cbn; auto].
  - eexists; eexists; split; [reflexivity|right; cbn; auto 10].
  - eexists; eexists; split; [reflexivity|right; cbn; auto 10].
  - apply andb_prop in W. destruct W as [W1 _]. destruct s1; try discriminate. cbn [is_name_node] in W1.
    eexists; eexists; split; [reflexivity|]. left. apply HPlain; [apply name_not_special, W1|reflexivity].
Qed.

Lemma shead_not_eol t : shead t -> is_kind KEOL t = false.
Proof. intros [H|H]; [apply head_not_eol, H|]. cbn in H. repeat (destruct H as [<-|H]; [reflexivity|]). contradiction. Qed.

Lemma shead_not_word t v : shead t -> In v ["else"; "}"; "{"; ","; "="; ")"; "]"] -> is_val v t = false.
Proof.
  intros [H|H] Hv.
  - apply head_not_word; [exact H|]. cbn in Hv |- *. tauto.
  - cbn in H, Hv. repeat (destruct H as [<-|H]; [repeat (destruct Hv as [<-|Hv]; [reflexivity|]); contradiction|]). contradiction.
Qed.

Lemma shead_follow t r : shead t -> str_in (g_value t) ["-"; "("; "["] = false -> follow 0 (Some t :: r).
Proof.
  intros [H|H] Ha; [apply head_follow; assumption|].
  cbn in H. repeat (destruct H as [<-|H]; [reflexivity|]). contradiction.
Qed.

(* ---------- the assignment gate of statement does not fire on an expression ---------- *)
Definition agate (ts : list tok) : bool :=
  match ts with Some t :: Some o :: _ => is_varname t && is_val "=" o | _ => false end.

Definition sec_ok (l : list gtok) : bool :=
  match l with
  | [] => false
  | [t] => true
  | t1 :: t2 :: _ => negb (is_varname t1 && is_val "=" t2)
  end.

Lemma sec_ok_extend l t m : sec_ok l = true -> is_val "=" t = false -> sec_ok (l ++ t :: m) = true.
Proof.
  intros H Ht. destruct l as [|t1 [|t2 tl]]; cbn in *; try discriminate.
  - rewrite Ht, Bool.andb_false_r. reflexivity.
  - exact H.
Qed.

Lemma sec_ok_pp_at m x : sec_ok (pp x) = true -> sec_ok (pp_at m x) = true.
Proof.
  intros H. unfold pp_at. destruct (Nat.ltb (level x) m); [|exact H].
  cbn [app]. destruct (pp x ++ [tNs ")"]); reflexivity.
Qed.

Lemma binop_not_assign op n : op_level op = Some n -> is_val "=" (tOp op) = false.
Proof.
  intros H. destruct (op_level_spec op n H) as [_ E].
  assert (A : forallb (fun v => negb (is_val "=" (tOp v))) (level_ops (n - 1)) = true).
  { destruct (n - 1) as [|[|[|[|[|L]]]]]; vm_compute; reflexivity. }
  rewrite forallb_forall in A. apply str_in_true in E. apply A in E. apply Bool.negb_true_iff in E. exact E.
Qed.

Lemma pp_sec_ok x : wfx x = true -> sec_ok (pp x) = true.
Proof.
  induction x; intros W; cbn [wfx] in W; try discriminate; try reflexivity.
  - destruct (op_level op) as [lv|] eqn:E; [|discriminate]. apply andb_prop in W. destruct W as [W1 W2].
    rewrite pp_bin. apply sec_ok_extend; [apply sec_ok_pp_at, IHx1, W1|exact (binop_not_assign op lv E)].
  - apply andb_prop in W. destruct W as [W1 W2]. rewrite pp_un. cbn [sec_ok].
    destruct (pp_at 7 x); reflexivity.
  - apply andb_prop in W. destruct W as [W1 W2]. rewrite pp_ixat.
    apply sec_ok_extend; [apply sec_ok_pp_at, IHx1, W1|reflexivity].
  - apply andb_prop in W. destruct W as [W1 W3]. apply andb_prop in W1. destruct W1 as [W1 W2]. rewrite pp_ixft.
    apply sec_ok_extend; [apply sec_ok_pp_at, IHx1, W1|reflexivity].
  - rewrite pp_list. cbn [app sec_ok]. destruct (sep_by [tNs ","] (map (pp_at 1) l) ++ [tNs "]"]); reflexivity.
  - apply andb_prop in W. destruct W as [W1 W2]. destruct x; try discriminate. rewrite pp_call. cbn [name_tok app sec_ok].
    rewrite Bool.andb_false_r. reflexivity.
Qed.

Lemma agate_pp x rest : wfx x = true -> peek_val "=" rest = false -> agate (S_ (pp x) ++ rest) = false.
Proof.
  intros W Hr. pose proof (pp_sec_ok x W) as H.
  destruct (pp x) as [|t1 [|t2 tl]]; [discriminate| |].
  - cbn [S_ map app agate]. destruct rest as [|[o|] r]; try reflexivity. cbn [peek_val] in Hr. rewrite Hr, Bool.andb_false_r. reflexivity.
  - cbn [S_ map app agate]. cbn [sec_ok] in H. apply Bool.negb_true_iff in H. exact H.
Qed.

(* ---------- fuel a statement needs ---------- *)
Fixpoint need (s : node) : nat :=
  let needs := fix needs (l : list node) : nat := match l with [] => 0 | x :: r => Nat.max (need x) (needs r) end in
  let needb (b : node) := match b with NBlock l => S (needs l) | _ => S (need b) end in
  match s with
  | NIf c t => S (Nat.max (5 * hgt c + 5) (needb t))
  | NIfElse c t f => S (Nat.max (5 * hgt c + 5) (Nat.max (needb t) (needb f)))
  | NWhile c b => S (Nat.max (5 * hgt c + 5) (needb b))
  | NFor _ its b => S (Nat.max (5 * hgts its + 5) (needb b))
  | NReturn e => S (5 * hgt e + 5)
  | NYield e => S (5 * hgt e + 5)
  | NAssign _ e => S (5 * hgt e + 5)
  | NBlock _ => 0
  | e => S (5 * hgt e + 5)
  end.

Fixpoint needs (l : list node) : nat := match l with [] => 0 | x :: r => Nat.max (need x) (needs r) end.
Definition needb (b : node) : nat := match b with NBlock l => S (needs l) | _ => S (need b) end.

Lemma need_if c t : need (NIf c t) = S (Nat.max (5 * hgt c + 5) (needb t)).
Proof. reflexivity. Qed.
Lemma need_ifelse c t f : need (NIfElse c t f) = S (Nat.max (5 * hgt c + 5) (Nat.max (needb t) (needb f))).
Proof. reflexivity. Qed.
Lemma need_while c b : need (NWhile c b) = S (Nat.max (5 * hgt c + 5) (needb b)).
Proof. reflexivity. Qed.
Lemma need_for vs its b : need (NFor vs its b) = S (Nat.max (5 * hgts its + 5) (needb b)).
Proof. reflexivity. Qed.

Lemma needs_in x l : In x l -> need x <= needs l.
Proof. induction l as [|y l IH]; intros H; [contradiction|]. cbn [needs]. destruct H as [->|H]; [lia|]. specialize (IH H). lia. Qed.

Lemma need_expr e : wfx e = true -> need e = S (5 * hgt e + 5).
Proof. destruct e; cbn [wfx]; intros W; try discriminate; reflexivity. Qed.

(* what may follow a statement *)
Definition followS (s : node) (rest : list tok) : Prop :=
  follow 0 rest /\ peek_val "=" rest = false /\ (ends_open_if s = true -> peek_val "else" rest = false).

Definition ST (s : node) : Prop :=
  forall rest f, followS s rest -> need s <= f -> p_stmt f (S_ (pp s) ++ rest) = Got s rest.

(* ---------- expression statements, return, yield, assignment ---------- *)
Lemma peek_head v t r : peek_val v (Some t :: r) = is_val v t.
Proof. reflexivity. Qed.

Lemma st_expr e : wfx e = true -> ST e.
Proof.
  intros W rest f (Hf & He & _) Hn. rewrite (need_expr e W) in Hn.
  destruct f as [|k]; [lia|].
  destruct (expr_head e W) as (t & tl & E & K).
  assert (KW : forall v, In v ["if"; "while"; "for"; "return"; "yield"] -> peek_val v (S_ (pp e) ++ rest) = false).
  { intros v Hv. rewrite E. cbn [S_ map app peek_val]. apply head_not_word; [exact K|]. cbn in Hv |- *. tauto. }
  cbn [p_stmt].
  rewrite (KW "if"), (KW "while"), (KW "for"), (KW "return"), (KW "yield") by (cbn; tauto).
  pose proof (agate_pp e rest W He) as AG.
  assert (R : p_expr k (S_ (pp e) ++ rest) = Got e rest) by (apply expr_roundtrip; [exact W|exact Hf|lia]).
  destruct (S_ (pp e) ++ rest) as [|[t1|] [|[o|] r]] eqn:TS; try exact R.
  cbn [agate] in AG. rewrite AG. exact R.
Qed.

Lemma st_return e : wfx e = true -> ST (NReturn e).
Proof.
  intros W rest f (Hf & _ & _) Hn. cbn [need] in Hn. destruct f as [|k]; [lia|].
  rewrite pp_return. cbn [S_ map app p_stmt peek_val].
  change (is_val "if" (tNm "return")) with false. change (is_val "while" (tNm "return")) with false.
  change (is_val "for" (tNm "return")) with false. change (is_val "return" (tNm "return")) with true. cbn iota.
  fold (S_ (pp e)). rewrite expr_roundtrip; [reflexivity|exact W|exact Hf|lia].
Qed.

Lemma st_yield e : wfx e = true -> ST (NYield e).
Proof.
  intros W rest f (Hf & _ & _) Hn. cbn [need] in Hn. destruct f as [|k]; [lia|].
  rewrite pp_yield. cbn [S_ map app p_stmt peek_val].
  change (is_val "if" (tNm "yield")) with false. change (is_val "while" (tNm "yield")) with false.
  change (is_val "for" (tNm "yield")) with false. change (is_val "return" (tNm "yield")) with false.
  change (is_val "yield" (tNm "yield")) with true. cbn iota.
  fold (S_ (pp e)). rewrite expr_roundtrip; [reflexivity|exact W|exact Hf|lia].
Qed.

Lemma st_assign v e : is_name v = true -> wfx e = true -> ST (NAssign (NName v) e).
Proof.
  intros Hv W rest f (Hf & _ & _) Hn. cbn [need] in Hn. destruct f as [|k]; [lia|].
  rewrite pp_assign. cbn [name_tok]. rewrite !S_app, <- !app_assoc. cbn [S_ map app p_stmt peek_val].
  pose proof (name_not_special v Hv) as NS.
  assert (F : forall s, str_in s specials = true -> is_val s (tNm v) = false).
  { intros s Hs. exact (not_special_is_val v s KName NS Hs). }
  rewrite (F "if"), (F "while"), (F "for"), (F "return"), (F "yield") by reflexivity.
  rewrite (name_is_varname v Hv). change (is_val "=" (tOp "=")) with true. cbn [andb].
  fold (S_ (pp e)). rewrite expr_roundtrip; [reflexivity|exact W|exact Hf|lia].
Qed.

(* ---------- braced blocks ---------- *)
Section BlockLoop.
  Variable stmt : list tok -> pr node.

  Lemma stmts_loop_ok l : forall acc n rest,
    (forall s, In s l -> (exists t tl, pp s = t :: tl /\ shead t) /\
                         forall r', stmt (S_ (pp s) ++ Some tNl :: r') = Got s (Some tNl :: r')) ->
    List.length l < n ->
    stmts_loop stmt n acc (S_ (List.concat (map (fun s => tNl :: pp s) l)) ++ Some tNl :: Some (tNs "}") :: rest)
    = Got (mk_block (acc ++ l)) rest.
  Proof.
    induction l as [|s l IH]; intros acc n rest Hs Hn.
    - destruct n as [|n']; [cbn in Hn; lia|]. cbn [map List.concat S_ app stmts_loop eols1].
      change (is_kind KEOL tNl) with true. cbn iota. cbn [skip_eols].
      change (is_kind KEOL (tNs "}")) with false. cbn iota. cbn [peek_val].
      change (is_val "}" (tNs "}")) with true. cbn iota. rewrite app_nil_r. reflexivity.
    - destruct n as [|n']; [cbn in Hn; lia|].
      destruct (Hs s (or_introl eq_refl)) as [(t & tl & E & K) Hst].
      cbn [map List.concat]. rewrite S_app, <- app_assoc.
      set (R := S_ (List.concat (map (fun s0 => tNl :: pp s0) l)) ++ Some tNl :: Some (tNs "}") :: rest).
      cbn [S_ map app stmts_loop eols1]. change (is_kind KEOL tNl) with true. cbn iota.
      fold (S_ (pp s)). rewrite E. cbn [S_ map app skip_eols]. rewrite (shead_not_eol t K).
      cbn [peek_val]. rewrite (shead_not_word t "}" K) by (cbn; tauto).
      change (Some t :: map (@Some gtok) tl ++ R) with (S_ (t :: tl) ++ R). rewrite <- E.
      assert (ER : exists r', R = Some tNl :: r').
      { unfold R. destruct l as [|s2 l']; cbn; eauto. }
      destruct ER as [r' ER]. rewrite ER, Hst, <- ER. unfold R.
      rewrite IH; [rewrite <- app_assoc; reflexivity| |cbn in Hn; lia].
      intros s0 H0. apply Hs. right. exact H0.
  Qed.
End BlockLoop.

Lemma concat_len_ge (l : list node) : List.length l <= List.length (List.concat (map (fun s => tNl :: pp s) l)).
Proof.
  induction l as [|s l IH]; [cbn; lia|].
  change (map (fun s0 => tNl :: pp s0) (s :: l)) with ((tNl :: pp s) :: map (fun s0 => tNl :: pp s0) l).
  change (List.concat ((tNl :: pp s) :: map (fun s0 => tNl :: pp s0) l))
    with ((tNl :: pp s) ++ List.concat (map (fun s0 => tNl :: pp s0) l)).
  rewrite app_length. change (List.length (tNl :: pp s)) with (S (List.length (pp s))).
  change (List.length (s :: l)) with (S (List.length l)). lia.
Qed.

Lemma block_braces k l rest :
  l <> [] ->
  (forall s, In s l -> (exists t tl, pp s = t :: tl /\ shead t) /\
                       forall r', p_stmt k (S_ (pp s) ++ Some tNl :: r') = Got s (Some tNl :: r')) ->
  p_block (S k) (S_ (braces (map pp l)) ++ rest) = Got (mk_block l) rest.
Proof.
  intros Hne Hs. destruct l as [|s1 l']; [contradiction|].
  unfold braces. cbn [map]. rewrite sep_by_cons, map_map.
  replace (S_ ([tNs "{"; tNl] ++ (pp s1 ++ List.concat (map (fun x => [tNl] ++ pp x) l')) ++ [tNl; tNs "}"]) ++ rest)
    with (Some (tNs "{") :: Some tNl :: S_ (pp s1) ++
          (S_ (List.concat (map (fun s => tNl :: pp s) l')) ++ Some tNl :: Some (tNs "}") :: rest))
    by (rewrite !S_app, <- !app_assoc; reflexivity).
  set (R := S_ (List.concat (map (fun s => tNl :: pp s) l')) ++ Some tNl :: Some (tNs "}") :: rest).
  destruct (Hs s1 (or_introl eq_refl)) as [(t & tl & E & K) Hst].
  cbn [p_block peek_val]. change (is_val "{" (tNs "{")) with true. cbn iota.
  cbn [eols1]. change (is_kind KEOL tNl) with true. cbn iota.
  rewrite E. cbn [S_ map app skip_eols]. rewrite (shead_not_eol t K).
  change (Some t :: map (@Some gtok) tl ++ R) with (S_ (t :: tl) ++ R). rewrite <- E.
  assert (ER : exists r', R = Some tNl :: r').
  { unfold R. destruct l' as [|s2 l'']; cbn; eauto. }
  destruct ER as [r' ER]. rewrite ER, Hst, <- ER. unfold R.
  rewrite (stmts_loop_ok (p_stmt k) l' [s1]); [reflexivity| |].
  - intros s0 H0. apply Hs. right. exact H0.
  - rewrite app_length, S_length. pose proof (concat_len_ge l'). cbn [List.length]. lia.
Qed.

(* ---------- bodies ---------- *)
Lemma followS_eol s r : followS s (Some tNl :: r).
Proof. split; [reflexivity|]. split; [reflexivity|]. intros _. reflexivity. Qed.

Lemma st_in_block s k : wfst s = true -> ST s -> need s <= k ->
  (exists t tl, pp s = t :: tl /\ shead t) /\
  forall r', p_stmt k (S_ (pp s) ++ Some tNl :: r') = Got s (Some tNl :: r').
Proof.
  intros W H Hn. split; [apply stmt_head, W|]. intros r'. apply H; [apply followS_eol|exact Hn].
Qed.

Definition raw_body (g mc : bool) (b : node) : bool :=
  negb ((g && starts_ambiguous (pp b)) || (mc && ends_open_if b)).

Lemma bd_block l g mc rest f :
  Nat.leb 2 (List.length l) = true -> forallb wfst l = true -> (forall s, In s l -> ST s) ->
  needb (NBlock l) <= f ->
  p_block f (S_ (pbody g mc (NBlock l)) ++ rest) = Got (NBlock l) rest.
Proof.
  intros H2 W HS Hn. cbn [needb] in Hn. destruct f as [|k]; [lia|].
  cbn [pbody]. rewrite forallb_forall in W.
  rewrite block_braces.
  - destruct l as [|a [|b l']]; try discriminate. reflexivity.
  - destruct l; discriminate.
  - intros s Hs. apply st_in_block; [apply W, Hs|apply HS, Hs|]. pose proof (needs_in s l Hs). lia.
Qed.

Lemma bd_stmt b g mc rest f :
  wfst b = true -> ST b -> needb b <= f -> (match b with NBlock _ => False | _ => True end) ->
  (raw_body g mc b = true -> followS b rest) ->
  p_block f (S_ (pbody g mc b) ++ rest) = Got b rest.
Proof.
  intros W HS Hn Hnb Hf.
  assert (Hn' : S (need b) <= f) by (destruct b; try contradiction; exact Hn).
  destruct f as [|k]; [lia|].
  assert (E : pbody g mc b = if (g && starts_ambiguous (pp b)) || (mc && ends_open_if b) then braces [pp b] else pp b).
  { destruct b; try contradiction; reflexivity. }
  rewrite E. unfold raw_body in Hf.
  destruct ((g && starts_ambiguous (pp b)) || (mc && ends_open_if b)).
  - change [pp b] with (map pp [b]). rewrite block_braces; [reflexivity|discriminate|].
    intros s [<-|[]]. apply st_in_block; [exact W|exact HS|lia].
  - destruct (stmt_head b W) as (t & tl & Et & K).
    cbn [p_block]. rewrite Et. cbn [S_ map app peek_val]. rewrite (shead_not_word t "{" K) by (cbn; tauto).
    change (Some t :: map (@Some gtok) tl ++ rest) with (S_ (t :: tl) ++ rest). rewrite <- Et.
    apply HS; [apply Hf; reflexivity|lia].
Qed.

Definition BD (b : node) : Prop :=
  forall g mc rest f, needb b <= f ->
    (match b with NBlock _ => True | _ => raw_body g mc b = true -> followS b rest end) ->
    p_block f (S_ (pbody g mc b) ++ rest) = Got b rest.

Lemma bd_of_st b : wfbd b = true -> (forall s, (s = b \/ exists l, b = NBlock l /\ In s l) -> wfst s = true -> ST s) -> BD b.
Proof.
  intros W HS g mc rest f Hn Hf.
  destruct b; try (apply bd_stmt; [exact W|apply HS; [left; reflexivity|exact W]|exact Hn|exact I|exact Hf]).
  cbn [wfbd] in W. apply andb_prop in W. destruct W as [W2 Wl].
  apply bd_block; [exact W2|exact Wl| |exact Hn].
  intros s Hs. apply HS; [right; eexists; split; [reflexivity|exact Hs]|].
  rewrite forallb_forall in Wl. apply Wl, Hs.
Qed.

(* the first token of a printed body *)
Lemma body_head g mc b : wfbd b = true ->
  exists t tl, pbody g mc b = t :: tl /\
    (t = tNs "{" \/ (shead t /\ (g = true -> str_in (g_value t) ["-"; "("; "["] = false))).
Proof.
  intros W. destruct b; try (
    cbn [wfbd] in W; destruct (stmt_head _ W) as (t & tl & E & K);
    cbn [pbody]; rewrite E;
    destruct g; cbn [andb starts_ambiguous];
    [destruct (str_in (g_value t) ["-"; "("; "["]) eqn:A; cbn [orb];
       [eexists; eexists; split; [reflexivity|left; reflexivity]|
        destruct (mc && _); [eexists; eexists; split; [reflexivity|left; reflexivity]|
                             exists t, tl; split; [reflexivity|right; split; [exact K|intros _; exact A]]]]
    |destruct (mc && _); cbn [orb];
       [eexists; eexists; split; [reflexivity|left; reflexivity]|
        exists t, tl; split; [reflexivity|right; split; [exact K|intros; discriminate]]]]).
  cbn [pbody]. eexists; eexists; split; [reflexivity|left; reflexivity].
Qed.

Lemma body_follow mc b rest : wfbd b = true -> follow 0 (S_ (pbody true mc b) ++ rest).
Proof.
  intros W. destruct (body_head true mc b W) as (t & tl & E & [->|[K A]]); rewrite E; cbn [S_ map app].
  - reflexivity.
  - apply shead_follow; [exact K|apply A; reflexivity].
Qed.

Lemma body_not_comma g mc b rest : wfbd b = true -> accept (is_val ",") (S_ (pbody g mc b) ++ rest) = Bad.
Proof.
  intros W. destruct (body_head g mc b W) as (t & tl & E & [->|[K _]]); rewrite E; cbn [S_ map app accept].
  - reflexivity.
  - rewrite (shead_not_word t "," K) by (cbn; tauto). reflexivity.
Qed.

(* ---------- if, if-else, while ---------- *)
Lemma wfx_pp_at1 c : wfx c = true -> pp_at 1 c = pp c.
Proof. intros W. apply pp_at_raw. destruct (level_bounds c W). lia. Qed.

Lemma st_if c t : wfx c = true -> wfbd t = true -> BD t -> ST (NIf c t).
Proof.
  intros Wc Wt Bt rest f (Hf & He & Hel) Hn. rewrite need_if in Hn. destruct f as [|k]; [lia|].
  rewrite pp_if, (wfx_pp_at1 c Wc). rewrite !S_app, <- !app_assoc. cbn [S_ map app p_stmt peek_val].
  change (is_val "if" (tNm "if")) with true. cbn iota.
  fold (S_ (pp c)). fold (S_ (pbody true false t)).
  rewrite expr_roundtrip; [|exact Wc|apply body_follow, Wt|lia].
  rewrite (Bt true false rest k); [|lia|].
  - rewrite (Hel eq_refl). reflexivity.
  - destruct t; try exact I; intros _; (split; [exact Hf|split; [exact He|intros _; apply Hel; reflexivity]]).
Qed.

Lemma st_while c b : wfx c = true -> wfbd b = true -> BD b -> ST (NWhile c b).
Proof.
  intros Wc Wb Bb rest f (Hf & He & Hel) Hn. rewrite need_while in Hn. destruct f as [|k]; [lia|].
  rewrite pp_while, (wfx_pp_at1 c Wc). rewrite !S_app, <- !app_assoc. cbn [S_ map app p_stmt peek_val].
  change (is_val "if" (tNm "while")) with false. change (is_val "while" (tNm "while")) with true. cbn iota.
  fold (S_ (pp c)). fold (S_ (pbody true false b)).
  rewrite expr_roundtrip; [|exact Wc|apply body_follow, Wb|lia].
  rewrite (Bb true false rest k); [reflexivity|lia|].
  destruct b; try exact I; intros _; (split; [exact Hf|split; [exact He|exact Hel]]).
Qed.

Lemma st_ifelse c t f0 : wfx c = true -> wfbd t = true -> wfbd f0 = true -> BD t -> BD f0 -> ST (NIfElse c t f0).
Proof.
  intros Wc Wt Wf Bt Bf rest f (Hf & He & Hel) Hn. rewrite need_ifelse in Hn. destruct f as [|k]; [lia|].
  rewrite pp_ifelse, (wfx_pp_at1 c Wc).
  replace (S_ ([tNm "if"] ++ pp c ++ pbody true true t ++ [tNm "else"] ++ pbody false false f0) ++ rest)
    with (Some (tNm "if") :: S_ (pp c) ++ (S_ (pbody true true t) ++ (Some (tNm "else") :: S_ (pbody false false f0) ++ rest)))
    by (rewrite !S_app, <- !app_assoc; reflexivity).
  cbn [p_stmt peek_val]. change (is_val "if" (tNm "if")) with true. cbn iota.
  rewrite expr_roundtrip; [|exact Wc|apply body_follow, Wt|lia].
  rewrite (Bt true true _ k); [|lia|].
  - cbn [peek_val]. change (is_val "else" (tNm "else")) with true. cbn iota.
    rewrite (Bf false false rest k); [reflexivity|lia|].
    destruct f0; try exact I; intros _; (split; [exact Hf|split; [exact He|exact Hel]]).
  - destruct t; try exact I; intros Hraw; unfold raw_body in Hraw; apply Bool.negb_true_iff in Hraw;
      apply Bool.orb_false_iff in Hraw; destruct Hraw as [_ Hraw]; cbn [andb] in Hraw;
      (split; [reflexivity|split; [reflexivity|intros Ho; rewrite Ho in Hraw; discriminate]]).
Qed.

(* ---------- for ---------- *)
Lemma for_names_ok vs : forall acc n r,
  forallb is_name_node vs = true -> List.length vs < n ->
  for_names_tail n (S_ (List.concat (map (fun v => [tNs ","] ++ name_tok v) vs)) ++ Some (tOp "<-") :: r) acc
  = Got (acc ++ vs) (Some (tOp "<-") :: r).
Proof.
  induction vs as [|v vs IH]; intros acc n r W Hn.
  - destruct n as [|n']; [cbn in Hn; lia|]. cbn [map List.concat S_ app for_names_tail].
    change (is_val "," (tOp "<-")) with false. cbn iota. rewrite app_nil_r. reflexivity.
  - destruct n as [|n']; [cbn in Hn; lia|]. cbn [forallb] in W. apply andb_prop in W. destruct W as [Wv Wvs].
    destruct v; try discriminate. cbn [is_name_node] in Wv.
    cbn [map List.concat name_tok]. rewrite S_app, <- app_assoc. cbn [S_ map app for_names_tail].
    change (is_val "," (tNs ",")) with true. cbn iota. cbn [accept]. rewrite (name_is_varname n Wv).
    fold (S_ (List.concat (map (fun v => [tNs ","] ++ name_tok v) vs))).
    rewrite IH; [rewrite <- app_assoc; reflexivity|exact Wvs|cbn in Hn; lia].
Qed.

Section ForExprs.
  Variable expr : list tok -> pr node.

  Lemma for_exprs_ok es : forall acc n R,
    (forall e, In e es -> wfx e = true /\ forall rest', follow 0 rest' -> expr (S_ (pp_at 1 e) ++ rest') = Got e rest') ->
    accept (is_val ",") R = Bad -> follow 0 R -> List.length es < n ->
    for_exprs_tail expr n (S_ (List.concat (map (fun e => [tNs ","] ++ pp_at 1 e) es)) ++ R) acc = Got (acc ++ es) R.
  Proof.
    induction es as [|e es IH]; intros acc n R He Hstop HfR Hn.
    - destruct n as [|n']; [cbn in Hn; lia|]. cbn [map List.concat S_ app for_exprs_tail]. rewrite Hstop, app_nil_r. reflexivity.
    - destruct n as [|n']; [cbn in Hn; lia|].
      cbn [map List.concat].
      set (C := List.concat (map (fun e0 => [tNs ","] ++ pp_at 1 e0) es)).
      replace (S_ (([tNs ","] ++ pp_at 1 e) ++ C) ++ R) with (Some (tNs ",") :: S_ (pp_at 1 e) ++ (S_ C ++ R))
        by (rewrite !S_app, <- !app_assoc; reflexivity).
      cbn [for_exprs_tail accept]. change (is_val "," (tNs ",")) with true. cbn iota.
      destruct (He e (or_introl eq_refl)) as [We Pe]. rewrite Pe.
      + unfold C. rewrite IH; [rewrite <- app_assoc; reflexivity| |exact Hstop|exact HfR|cbn in Hn; lia].
        intros e0 H0. apply He. right. exact H0.
      + unfold C. destruct es as [|e2 es']; [exact HfR|reflexivity].
  Qed.
End ForExprs.

Lemma concat_sep_len (c : gtok) (g : node -> list gtok) (l : list node) :
  List.length l <= List.length (List.concat (map (fun x => [c] ++ g x) l)).
Proof.
  induction l as [|x l IH]; [cbn; lia|].
  change (map (fun x0 => [c] ++ g x0) (x :: l)) with (([c] ++ g x) :: map (fun x0 => [c] ++ g x0) l).
  change (List.concat (([c] ++ g x) :: map (fun x0 => [c] ++ g x0) l))
    with (([c] ++ g x) ++ List.concat (map (fun x0 => [c] ++ g x0) l)).
  rewrite !app_length. change (List.length [c]) with 1. change (List.length (x :: l)) with (S (List.length l)). lia.
Qed.

Lemma st_for vars its b :
  Nat.leb 1 (List.length vars) = true -> Nat.eqb (List.length vars) (List.length its) = true ->
  forallb is_name_node vars = true -> forallb wfx its = true -> wfbd b = true -> BD b -> ST (NFor vars its b).
Proof.
  intros H1 Hlen Wv Wi Wb Bb rest f (Hf & He & Hel) Hn. rewrite need_for in Hn. destruct f as [|k]; [lia|].
  destruct vars as [|v vs]; [discriminate|]. destruct its as [|e es]; [discriminate|].
  cbn [forallb] in Wv, Wi. apply andb_prop in Wv. destruct Wv as [Wv Wvs]. apply andb_prop in Wi. destruct Wi as [We Wes].
  destruct v; try discriminate. cbn [is_name_node] in Wv.
  rewrite pp_for. cbn [map]. rewrite !sep_by_cons, !map_map. cbn [name_tok].
  set (VS := List.concat (map (fun x => [tNs ","] ++ name_tok x) vs)).
  set (ES := List.concat (map (fun x => [tNs ","] ++ pp_at 1 x) es)).
  set (B := pbody true false b).
  replace (S_ ([tNm "for"] ++ ([tNm n] ++ VS) ++ [tOp "<-"] ++ (pp_at 1 e ++ ES) ++ B) ++ rest)
    with (Some (tNm "for") :: Some (tNm n) :: S_ VS ++ (Some (tOp "<-") :: S_ (pp_at 1 e) ++ (S_ ES ++ (S_ B ++ rest))))
    by (rewrite !S_app, <- !app_assoc; reflexivity).
  cbn [p_stmt peek_val]. change (is_val "if" (tNm "for")) with false. change (is_val "while" (tNm "for")) with false.
  change (is_val "for" (tNm "for")) with true. cbn iota.
  cbn [accept]. rewrite (name_is_varname n Wv). cbn [tNm T g_value].
  unfold VS. rewrite (for_names_ok vs [NName n]);
    [|exact Wvs|rewrite app_length, S_length; pose proof (concat_sep_len (tNs ",") name_tok vs); lia].
  cbn [accept]. change (is_val "<-" (tOp "<-")) with true. cbn iota.
  assert (HE : forall x, In x (e :: es) -> forall rest', follow 0 rest' -> p_expr k (S_ (pp_at 1 x) ++ rest') = Got x rest').
  { intros x Hx rest' Hf'. assert (Wx : wfx x = true).
    { destruct Hx as [<-|Hx]; [exact We|]. rewrite forallb_forall in Wes. apply Wes, Hx. }
    rewrite (wfx_pp_at1 x Wx). apply expr_roundtrip; [exact Wx|exact Hf'|].
    assert (hgt x <= hgts (e :: es)) by (apply hgts_in, Hx). lia. }
  rewrite (HE e (or_introl eq_refl)).
  2: { unfold ES. destruct es as [|e2 es']; [unfold B; apply body_follow, Wb|reflexivity]. }
  unfold ES. rewrite (for_exprs_ok (p_expr k) es [e] _ (S_ B ++ rest)).
  - unfold B. rewrite (Bb true false rest k); [|lia|].
    + cbn [app List.length] in Hlen |- *. rewrite Hlen. reflexivity.
    + destruct b; try exact I; intros _; (split; [exact Hf|split; [exact He|exact Hel]]).
  - intros x Hx. split; [rewrite forallb_forall in Wes; apply Wes, Hx|]. apply HE. right. exact Hx.
  - unfold B. apply body_not_comma, Wb.
  - unfold B. apply body_follow, Wb.
  - rewrite !app_length, S_length. pose proof (concat_sep_len (tNs ",") (pp_at 1) es). lia.
Qed.

(* ---------- every statement ---------- *)
Lemma bd_from_ih b bound :
  wfbd b = true -> needb b <= bound ->
  (forall s', need s' < bound -> wfst s' = true -> ST s') -> BD b.
Proof.
  intros W Hb IH. apply bd_of_st; [exact W|].
  intros s' [->|(l & -> & Hin)] Ws'; apply IH; try exact Ws'.
  - destruct b; cbn [needb] in Hb; try lia. cbn [wfst] in Ws'. discriminate.
  - cbn [needb] in Hb. pose proof (needs_in s' l Hin). lia.
Qed.

Lemma st_step s : (forall s', need s' < need s -> wfst s' = true -> ST s') -> wfst s = true -> ST s.
Proof.
  intros IH W.
  destruct s; cbn [wfst] in W; try discriminate; try (apply st_expr; exact W).
  - (* if *)
    apply andb_prop in W. destruct W as [Wc Wt]. change (wfbd s2 = true) in Wt.
    apply st_if; [exact Wc|exact Wt|]. apply (bd_from_ih s2 (need (NIf s1 s2))); [exact Wt|rewrite need_if; lia|exact IH].
  - (* if else *)
    apply andb_prop in W. destruct W as [W Wf]. apply andb_prop in W. destruct W as [Wc Wt].
    change (wfbd s2 = true) in Wt. change (wfbd s3 = true) in Wf.
    apply st_ifelse; [exact Wc|exact Wt|exact Wf| |].
    + apply (bd_from_ih s2 (need (NIfElse s1 s2 s3))); [exact Wt|rewrite need_ifelse; lia|exact IH].
    + apply (bd_from_ih s3 (need (NIfElse s1 s2 s3))); [exact Wf|rewrite need_ifelse; lia|exact IH].
  - (* while *)
    apply andb_prop in W. destruct W as [Wc Wb]. change (wfbd s2 = true) in Wb.
    apply st_while; [exact Wc|exact Wb|]. apply (bd_from_ih s2 (need (NWhile s1 s2))); [exact Wb|rewrite need_while; lia|exact IH].
  - (* for *)
    apply andb_prop in W. destruct W as [W Wb]. apply andb_prop in W. destruct W as [W Wi].
    apply andb_prop in W. destruct W as [W Wv]. apply andb_prop in W. destruct W as [H1 Hlen].
    change (wfbd s = true) in Wb.
    apply st_for; try assumption. apply (bd_from_ih s (need (NFor vars iters s))); [exact Wb|rewrite need_for; lia|exact IH].
  - apply st_return, W.
  - apply st_yield, W.
  - apply andb_prop in W. destruct W as [Wv We]. destruct s1; try discriminate. apply st_assign; [exact Wv|exact We].
Qed.

Theorem statements_parse_back : forall s, wfst s = true -> ST s.
Proof.
  intros s. remember (need s) as n eqn:E. revert s E.
  induction n as [n IH] using lt_wf_ind. intros s E W. apply st_step; [|exact W].
  intros s' Hlt Ws'. apply (IH (need s')); [lia|reflexivity|exact Ws'].
Qed.

(* a body in every printing the printer may choose for it *)
Theorem bodies_parse_back : forall b, wfbd b = true -> BD b.
Proof.
  intros b W. apply bd_of_st; [exact W|]. intros s' _ Ws'. apply statements_parse_back, Ws'.
Qed.

(* ---------- a whole input: one top-level statement or block, then end of line, end of file ---------- *)
Theorem program_roundtrip : forall b fuel,
  wfbd b = true -> needb b <= fuel ->
  p_program fuel (S_ (pbody false false b) ++ [Some tNl; Some (T KEOF "")]) = Got [b] [].
Proof.
  intros b fuel W Hn. unfold p_program.
  set (ts := S_ (pbody false false b) ++ [Some tNl; Some (T KEOF "")]).
  assert (L : p_program_loop fuel (S (List.length ts)) [] ts = Got [b] [Some tNl; Some (T KEOF "")]).
  { destruct (body_head false false b W) as (t & tl & E & Ht).
    assert (NE : accept (is_kind KEOL) ts = Bad).
    { unfold ts. rewrite E. cbn [S_ map app accept]. destruct Ht as [->|[K _]]; [reflexivity|]. rewrite (shead_not_eol t K). reflexivity. }
    assert (LT : 2 <= List.length ts) by (unfold ts; rewrite app_length; cbn; lia).
    destruct (List.length ts) as [|[|n]] eqn:EL; try lia.
    cbn [p_program_loop]. rewrite NE.
    unfold ts. rewrite (bodies_parse_back b W false false [Some tNl; Some (T KEOF "")] fuel Hn).
    - cbn [p_program_loop accept]. change (is_kind KEOL tNl) with true. reflexivity.
    - destruct b; try exact I; intros _; apply followS_eol. }
  rewrite L. reflexivity.
Qed.
