(* GrammarProofs.v — C07: the grammar model parses back what the printer writes.
   Expression fragment (everything but function literals) in this file. *)
Require Import Calc.Base Calc.Bytecode Calc.Value Calc.FloatText Calc.Ast Calc.Lexer Calc.Grammar Calc.Printer.
Require Calc.BuiltinProofs.
Require Import Lia.
Open Scope nat_scope.

Definition S_ (l : list gtok) : list tok := map (@Some gtok) l.

Lemma S_app a b : S_ (a ++ b) = S_ a ++ S_ b.
Proof. apply map_app. Qed.

Lemma S_length a : List.length (S_ a) = List.length a.
Proof. apply map_length. Qed.

(* operators of parser level L and above *)
Definition binops_from (L : nat) : list string :=
  match L with
  | 0 => level_ops 0 ++ level_ops 1 ++ level_ops 2 ++ level_ops 3 ++ level_ops 4
  | 1 => level_ops 1 ++ level_ops 2 ++ level_ops 3 ++ level_ops 4
  | 2 => level_ops 2 ++ level_ops 3 ++ level_ops 4
  | 3 => level_ops 3 ++ level_ops 4
  | 4 => level_ops 4
  | _ => []
  end.

Definition brackets : list string := ["["; "("; "->"].

(* a token that must not follow an expression parsed at level L: it would continue it *)
Definition forb (L : nat) (t : gtok) : bool := str_in (g_value t) (binops_from L) || str_in (g_value t) brackets.

Definition follow (L : nat) (rest : list tok) : Prop :=
  match rest with
  | Some t :: _ => forb L t = false
  | _ => True
  end.

Lemma str_in_app s a b : str_in s (a ++ b) = str_in s a || str_in s b.
Proof. unfold str_in. apply existsb_app. Qed.

Lemma binops_from_S L : L <= 4 -> binops_from L = level_ops L ++ binops_from (S L).
Proof.
  intros H. destruct L as [|[|[|[|[|L]]]]]; try lia; reflexivity.
Qed.

Lemma forb_split L t : L <= 4 -> forb L t = tok_in (level_ops L) t || forb (S L) t.
Proof.
  intros H. unfold forb, tok_in. rewrite (binops_from_S L H), str_in_app, Bool.orb_assoc. reflexivity.
Qed.

Lemma follow_weaken L rest : L <= 4 -> follow L rest -> follow (S L) rest.
Proof.
  intros HL H. destruct rest as [|[t|] r]; cbn in *; auto.
  rewrite (forb_split L t HL) in H. apply Bool.orb_false_iff in H. tauto.
Qed.

Lemma follow_stops L rest : L <= 4 -> follow L rest -> accept (tok_in (level_ops L)) rest = Bad.
Proof.
  intros HL H. destruct rest as [|[t|] r]; cbn in *; auto.
  rewrite (forb_split L t HL) in H. apply Bool.orb_false_iff in H. destruct H as [H _]. rewrite H. reflexivity.
Qed.

Lemma follow_no_tok L rest v : In v brackets -> follow L rest -> peek_val v rest = false.
Proof.
  intros Hv H. destruct rest as [|[t|] r]; cbn in *; auto.
  unfold forb in H. apply Bool.orb_false_iff in H. destruct H as [_ H].
  unfold is_val. unfold str_in in H.
  rewrite <- Bool.not_true_iff_false in *. intros E. apply H. apply existsb_exists. exists v. split; [exact Hv|].
  exact E.
Qed.

(* after an atom only a call parenthesis or an arrow would change its meaning *)
Definition followA (rest : list tok) : Prop :=
  match rest with
  | Some t :: _ => str_in (g_value t) ["("; "->"] = false
  | _ => True
  end.

Lemma followA_of_follow L rest : follow L rest -> followA rest.
Proof.
  intros H. destruct rest as [|[t|] r]; cbn in *; auto.
  unfold forb in H. apply Bool.orb_false_iff in H. destruct H as [_ H].
  unfold brackets, str_in in *. cbn [existsb] in *.
  apply Bool.orb_false_iff in H. destruct H as [_ H]. exact H.
Qed.

Lemma followA_no_tok rest v : In v ["("; "->"] -> followA rest -> peek_val v rest = false.
Proof.
  intros Hv H. destruct rest as [|[t|] r]; cbn [followA peek_val] in *; auto.
  unfold is_val. unfold str_in in H.
  rewrite <- Bool.not_true_iff_false in *. intros E. apply H. apply existsb_exists. exists v. split; [exact Hv|exact E].
Qed.

Lemma followA_bracket r : followA (Some (tNs "[") :: r).
Proof. reflexivity. Qed.

(* ---------- what literal and name tokens are not ---------- *)
Definition specials : list string :=
  binops_from 0 ++ unary_ops ++ ["["; "("; "->"; ")"; "]"; ","; ":"; "{"; "}"; "="; "<-"] ++ keywords.

Lemma str_in_true s l : str_in s l = true -> In s l.
Proof.
  unfold str_in. intros H. apply existsb_exists in H. destruct H as [v [Hv E]].
  apply String.eqb_eq in E. subst. exact Hv.
Qed.

Lemma not_special_by (P : string -> bool) x :
  forallb (fun v => negb (P v)) specials = true -> P x = true -> str_in x specials = false.
Proof.
  intros HP Hx. destruct (str_in x specials) eqn:E; [|reflexivity].
  apply str_in_true in E. rewrite forallb_forall in HP. specialize (HP x E). rewrite Hx in HP. discriminate.
Qed.

Lemma str_in_sub x (X : list string) :
  forallb (fun v => str_in v specials) X = true -> str_in x specials = false -> str_in x X = false.
Proof.
  intros HX H. destruct (str_in x X) eqn:E; [|reflexivity].
  apply str_in_true in E. rewrite forallb_forall in HX. specialize (HX x E). congruence.
Qed.

Lemma in_range_int64 i : (0 <=? i)%Z && (i <=? max_int)%Z = true -> in_int64 i = true.
Proof.
  intros H. apply andb_prop in H. destruct H as [A B]. unfold in_int64. apply andb_true_intro. split; [|exact B].
  apply Z.leb_le in A. apply Z.leb_le. unfold min_int, two63. lia.
Qed.

Lemma int_not_special i : (0 <=? i)%Z && (i <=? max_int)%Z = true -> str_in (itoa i) specials = false.
Proof.
  intros H. apply (not_special_by (fun v => match atoi v with Some _ => true | None => false end)).
  - vm_compute. reflexivity.
  - rewrite (Calc.BuiltinProofs.atoi_itoa i (in_range_int64 i H)). reflexivity.
Qed.

Lemma float_not_special f : float_ok f = true -> str_in (fmt_pos f) specials = false.
Proof.
  intros H. apply (not_special_by (fun v => match parse_float v with PFOk _ => true | _ => false end)).
  - vm_compute. reflexivity.
  - unfold float_ok in H. destruct (parse_float (fmt_pos f)); try discriminate. reflexivity.
Qed.

Lemma name_not_special x : is_name x = true -> str_in x specials = false.
Proof.
  intros H. apply (not_special_by is_name); [vm_compute; reflexivity|exact H].
Qed.

Lemma quote_not_special s : str_in (quote s) specials = false.
Proof. unfold quote. vm_compute. reflexivity. Qed.

(* ---------- string literals: wrap (quote s) = s ---------- *)
Lemma unescape_other c r :
  c <> "\"%char -> unescape_quotes (String c r) = String c (unescape_quotes r).
Proof.
  intros H. destruct c as [[] [] [] [] [] [] [] []]; try reflexivity. contradiction H. reflexivity.
Qed.

Lemma unescape_escape s t :
  no_backslash s = true -> unescape_quotes (escape_quotes s +++ String """" t) = s +++ unescape_quotes (String """" t).
Proof.
  induction s as [|c s IH]; intros H; [reflexivity|].
  cbn [no_backslash] in H. apply andb_prop in H. destruct H as [Hc Hs].
  assert (NB : c <> "\"%char).
  { intros ->. vm_compute in Hc. discriminate. }
  destruct (Ascii.eqb_spec c """"%char) as [->|NQ].
  - cbn [escape_quotes String.append]. change (unescape_quotes (String "\" (String """" (escape_quotes s +++ String """" t))))
      with (String """" (unescape_quotes (escape_quotes s +++ String """" t))).
    rewrite IH by exact Hs. reflexivity.
  - assert (E : escape_quotes (String c s) = String c (escape_quotes s)).
    { destruct c as [[] [] [] [] [] [] [] []]; try reflexivity. contradiction NQ. reflexivity. }
    rewrite E. cbn [String.append]. rewrite unescape_other by exact NB. rewrite IH by exact Hs. reflexivity.
Qed.

Lemma substring_prefix s t : String.substring 0 (String.length s) (s +++ t) = s.
Proof. induction s as [|c s IH]; cbn; [destruct t; reflexivity|]. rewrite IH. reflexivity. Qed.

Lemma length_append s t : String.length (s +++ t) = String.length s + String.length t.
Proof. induction s as [|c s IH]; cbn; [reflexivity|]. rewrite IH. reflexivity. Qed.

Lemma wrap_quote s : no_backslash s = true -> wrap_string (quote s) = s.
Proof.
  intros H. unfold wrap_string, quote.
  rewrite unescape_other by discriminate.
  rewrite (unescape_escape s "" H).
  change (unescape_quotes (String """" "")) with (String """" "").
  unfold ssub, slen. cbn [String.length].
  rewrite length_append. cbn [String.length].
  replace (Z.to_nat (Z.of_nat (S (String.length s + 1)) - 1 - 1)) with (String.length s) by lia.
  change (Z.to_nat 1) with 1. cbn [String.substring].
  apply substring_prefix.
Qed.

(* ---------- the printer, unfolded ---------- *)
Definition pp_at (m : nat) (e : node) : list gtok :=
  if Nat.ltb (level e) m then [tNs "("] ++ pp e ++ [tNs ")"] else pp e.

Definition lvl_of (op : string) : nat := match op_level op with Some l => l | None => 0 end.

Lemma pp_bin op l r : pp (NBin op l r) = pp_at (lvl_of op) l ++ [tOp op] ++ pp_at (S (lvl_of op)) r.
Proof. reflexivity. Qed.
Lemma pp_un op e : pp (NUn op e) = tOp op :: pp_at 7 e.
Proof. reflexivity. Qed.
Lemma pp_ixat a i : pp (NIndexAt a i) = pp_at 7 a ++ [tNs "["] ++ pp_at 1 i ++ [tNs "]"].
Proof. reflexivity. Qed.
Lemma pp_ixft a f t : pp (NIndexFromTo a f t) = pp_at 7 a ++ [tNs "["] ++ pp_at 1 f ++ [tNs ":"] ++ pp_at 1 t ++ [tNs "]"].
Proof. reflexivity. Qed.
Lemma pp_list l : pp (NList l) = [tNs "["] ++ sep_by [tNs ","] (map (pp_at 1) l) ++ [tNs "]"].
Proof. reflexivity. Qed.
Lemma pp_call f args : pp (NCall f args) = name_tok f ++ [tNs "("] ++ sep_by [tNs ","] (map (pp_at 1) args) ++ [tNs ")"].
Proof. reflexivity. Qed.

(* height: every nesting costs the parser at most five units of fuel *)
Fixpoint hgt (e : node) : nat :=
  let hl := fix hl (l : list node) : nat := match l with [] => 0 | x :: r => Nat.max (hgt x) (hl r) end in
  match e with
  | NBin _ l r => S (Nat.max (hgt l) (hgt r))
  | NUn _ x => S (hgt x)
  | NIndexAt a i => S (Nat.max (hgt a) (hgt i))
  | NIndexFromTo a f t => S (Nat.max (hgt a) (Nat.max (hgt f) (hgt t)))
  | NList l => S (hl l)
  | NCall _ args => S (hl args)
  | _ => 0
  end.

Fixpoint hgts (l : list node) : nat := match l with [] => 0 | x :: r => Nat.max (hgt x) (hgts r) end.
Lemma hgt_list l : hgt (NList l) = S (hgts l).
Proof. reflexivity. Qed.
Lemma hgt_call f l : hgt (NCall f l) = S (hgts l).
Proof. reflexivity. Qed.

(* expressions without function literals *)
Fixpoint wfx (e : node) : bool :=
  match e with
  | NInt i => (0 <=? i)%Z && (i <=? max_int)%Z
  | NFloat f => float_ok f
  | NStr s => no_backslash s
  | NBool _ => true
  | NName x => is_name x
  | NBin op l r => match op_level op with Some _ => wfx l && wfx r | None => false end
  | NUn op x => str_in op unary_ops && wfx x
  | NIndexAt a i => wfx a && wfx i
  | NIndexFromTo a f t => wfx a && wfx f && wfx t
  | NList l => forallb wfx l
  | NCall f args => is_name_node f && forallb wfx args
  | _ => false
  end.

(* ---------- the five chain levels ---------- *)
Definition P (k n : nat) (L : nat) : list tok -> pr node :=
  match L with
  | 0 => chain (chain (chain (chain (chain (p_unary k) n (level_ops 4)) n (level_ops 3)) n (level_ops 2)) n (level_ops 1)) n (level_ops 0)
  | 1 => chain (chain (chain (chain (p_unary k) n (level_ops 4)) n (level_ops 3)) n (level_ops 2)) n (level_ops 1)
  | 2 => chain (chain (chain (p_unary k) n (level_ops 4)) n (level_ops 3)) n (level_ops 2)
  | 3 => chain (chain (p_unary k) n (level_ops 4)) n (level_ops 3)
  | 4 => chain (p_unary k) n (level_ops 4)
  | _ => p_unary k
  end.

Lemma P_step k n L : L <= 4 -> P k n L = chain (P k n (S L)) n (level_ops L).
Proof. intros H. destruct L as [|[|[|[|[|L]]]]]; try lia; reflexivity. Qed.

Lemma p_expr_P k ts : p_expr (S k) ts = P k (S (List.length ts)) 0 ts.
Proof. reflexivity. Qed.

Section ChainFacts.
  Variable sub : list tok -> pr node.
  Variable ops : list string.

  Lemma chain_loop_stop n acc ts :
    accept (tok_in ops) ts = Bad -> chain_loop sub (S n) ops acc ts = Got acc ts.
  Proof. intros H. cbn [chain_loop]. rewrite H. reflexivity. Qed.

  Lemma chain_loop_step n acc t r e r' :
    tok_in ops t = true -> sub r = Got e r' ->
    chain_loop sub (S n) ops acc (Some t :: r) = chain_loop sub n ops (NBin (g_value t) acc e) r'.
  Proof. intros Ht Hs. cbn [chain_loop accept]. rewrite Ht, Hs. reflexivity. Qed.
End ChainFacts.

(* a result obtained at a tighter level stands at a looser one when nothing continues it *)
Lemma lift_level k n L ts x rest :
  L <= 4 -> 1 <= n -> P k n (S L) ts = Got x rest -> follow L rest -> P k n L ts = Got x rest.
Proof.
  intros HL Hn H Hf. rewrite (P_step k n L HL). unfold chain. rewrite H.
  destruct n as [|n']; [lia|]. apply chain_loop_stop. apply follow_stops; assumption.
Qed.

Lemma lift_levels k n L ts x rest :
  L <= 5 -> 1 <= n -> p_unary k ts = Got x rest -> follow L rest -> P k n L ts = Got x rest.
Proof.
  intros HL Hn H Hf.
  assert (F : forall d L', L' + d = 5 -> follow L' rest -> P k n L' ts = Got x rest).
  { induction d as [|d IH]; intros L' E Hf'.
    - replace L' with 5 by lia. exact H.
    - apply lift_level; [lia|exact Hn| |exact Hf'].
      apply IH; [lia|]. apply follow_weaken; [lia|exact Hf']. }
  apply (F (5 - L) L); [lia|exact Hf].
Qed.

Lemma lift_index_unary k ts x rest :
  accept (tok_in unary_ops) ts = Bad -> p_index k ts = Got x rest -> p_unary (S k) ts = Got x rest.
Proof. intros Ha H. cbn [p_unary]. rewrite Ha. exact H. Qed.

Lemma lift_atom_index k ts x rest :
  p_atom k ts = Got x rest -> follow 5 rest -> p_index (S k) ts = Got x rest.
Proof.
  intros H Hf. cbn [p_index]. rewrite H. cbn [index_loop].
  rewrite (follow_no_tok 5 rest "["); [reflexivity|left; reflexivity|exact Hf].
Qed.

(* ---------- the two gates of atom ---------- *)
Definition fgate (ts : list tok) : option (list node * list tok) :=
  match parameters ts with Got ps r => if peek_val "->" r then Some (ps, r) else None | _ => None end.

Definition cgate (ts : list tok) : bool :=
  match ts with Some t :: Some o :: _ => is_varname t && is_val "(" o | _ => false end.

Lemma p_atom_plain k ts : fgate ts = None -> cgate ts = false -> p_atom (S k) ts = p_atom_simple k ts.
Proof.
  intros Hf Hc. cbn [p_atom]. change (match parameters ts with Got ps r => if peek_val "->" r then Some (ps, r) else None | _ => None end)
    with (fgate ts). rewrite Hf.
  destruct ts as [|[t|] [|[o|] r]]; try reflexivity. cbn [cgate] in Hc. rewrite Hc. reflexivity.
Qed.

Lemma fgate_not_paren t r : is_val "(" t = false -> fgate (Some t :: r) = None.
Proof. intros H. unfold fgate, parameters. cbn [accept]. rewrite H. reflexivity. Qed.

(* which first tokens keep the parameter-list gate from misfiring on "( e )" *)
Definition gate_safe (l : list gtok) : bool :=
  match l with
  | [] => false
  | t1 :: tl =>
      if is_varname t1 then match tl with [] => true | t2 :: _ => negb (str_in (g_value t2) [","; ")"]) end
      else negb (is_val ")" t1)
  end.

Lemma gate_safe_extend l t m :
  gate_safe l = true -> str_in (g_value t) [","; ")"] = false -> gate_safe (l ++ t :: m) = true.
Proof.
  intros H Ht. destruct l as [|t1 [|t2 tl]]; cbn in *; try discriminate.
  - destruct (is_varname t1); [rewrite Ht; reflexivity|exact H].
  - exact H.
Qed.

Lemma names_tail_stop n c r acc :
  is_val "," c = false -> names_tail (S n) (Some c :: r) acc = (acc, Some c :: r).
Proof. intros H. cbn [names_tail]. destruct r as [|[t|] r']; try reflexivity. rewrite H. reflexivity. Qed.

Lemma fgate_paren l rest :
  gate_safe l = true -> peek_val "->" rest = false ->
  fgate (Some (tNs "(") :: S_ l ++ Some (tNs ")") :: rest) = None.
Proof.
  intros Hs Hr. unfold fgate, parameters. cbn [accept]. change (is_val "(" (tNs "(")) with true. cbn iota.
  destruct l as [|t1 tl]; [discriminate|]. cbn [gate_safe] in Hs. cbn [S_ map app names_sep].
  destruct (is_varname t1) eqn:V.
  - destruct tl as [|t2 tl'].
    + cbn [map app List.length]. rewrite names_tail_stop by reflexivity.
      cbn [accept]. change (is_val ")" (tNs ")")) with true. cbn iota. rewrite Hr. reflexivity.
    + cbn [map app List.length].
      apply Bool.negb_true_iff in Hs. unfold str_in in Hs. cbn [existsb] in Hs.
      apply Bool.orb_false_iff in Hs. destruct Hs as [H1 H2]. apply Bool.orb_false_iff in H2. destruct H2 as [H2 _].
      rewrite names_tail_stop by (unfold is_val; exact H1).
      cbn [accept]. unfold is_val. rewrite H2. reflexivity.
  - cbn [accept]. apply Bool.negb_true_iff in Hs. rewrite Hs. reflexivity.
Qed.

(* ---------- operators ---------- *)
Lemma op_level_spec op n :
  op_level op = Some n -> 1 <= n <= 5 /\ str_in op (level_ops (n - 1)) = true.
Proof.
  unfold op_level. intros H.
  destruct (str_in op (level_ops 0)) eqn:E0; [inversion H; subst; split; [lia|exact E0]|].
  destruct (str_in op (level_ops 1)) eqn:E1; [inversion H; subst; split; [lia|exact E1]|].
  destruct (str_in op (level_ops 2)) eqn:E2; [inversion H; subst; split; [lia|exact E2]|].
  destruct (str_in op (level_ops 3)) eqn:E3; [inversion H; subst; split; [lia|exact E3]|].
  destruct (str_in op (level_ops 4)) eqn:E4; [inversion H; subst; split; [lia|exact E4]|].
  discriminate.
Qed.

Lemma level_ops_special L op : str_in op (level_ops L) = true -> str_in op specials = true.
Proof.
  intros H. apply str_in_true in H.
  assert (A : forallb (fun v => str_in v specials) (level_ops L) = true).
  { destruct L as [|[|[|[|[|L]]]]]; vm_compute; reflexivity. }
  rewrite forallb_forall in A. apply A, H.
Qed.

(* a token whose text is one of the special strings: decided by looking it up *)
Lemma special_facts (P : string -> bool) v :
  forallb (fun s => P s) specials = true -> str_in v specials = true -> P v = true.
Proof. intros A H. apply str_in_true in H. rewrite forallb_forall in A. apply A, H. Qed.

Lemma binop_not_sep op n : op_level op = Some n -> str_in op [","; ")"] = false.
Proof.
  intros H. destruct (op_level_spec op n H) as [_ E].
  assert (A : forallb (fun v => negb (str_in v [","; ")"])) (level_ops (n - 1)) = true).
  { destruct (n - 1) as [|[|[|[|[|L]]]]]; vm_compute; reflexivity. }
  rewrite forallb_forall in A. apply str_in_true in E. apply A in E. apply Bool.negb_true_iff in E. exact E.
Qed.

Lemma not_special_is_val v s k :
  str_in v specials = false -> str_in s specials = true -> is_val s (T k v) = false.
Proof.
  intros Hv Hs. unfold is_val, T. cbn [g_value]. destruct (String.eqb_spec v s) as [->|NE]; [congruence|reflexivity].
Qed.

Lemma literal_gate_safe k v : k <> KName -> str_in v specials = false -> gate_safe [T k v] = true.
Proof.
  intros Hk Hv. cbn [gate_safe]. unfold is_varname, is_kind. cbn [T g_kind].
  destruct k; try contradiction; cbn [kind_eqb andb]; rewrite (not_special_is_val v ")" _ Hv); reflexivity.
Qed.

Lemma name_is_varname n : is_name n = true -> is_varname (tNm n) = true.
Proof.
  intros H. unfold is_name in H. apply andb_prop in H. destruct H as [_ H].
  unfold is_varname, is_kind, tNm, T. cbn [g_kind g_value kind_eqb andb]. exact H.
Qed.

Lemma pp_at_gate_safe m x : gate_safe (pp x) = true -> gate_safe (pp_at m x) = true.
Proof. intros H. unfold pp_at. destruct (Nat.ltb (level x) m); [reflexivity|exact H]. Qed.

Lemma pp_gate_safe x : wfx x = true -> gate_safe (pp x) = true.
Proof.
  induction x; intros W; cbn [wfx] in W; try discriminate.
  - (* int *) cbn [pp]. apply literal_gate_safe; [discriminate|apply int_not_special, W].
  - cbn [pp]. apply literal_gate_safe; [discriminate|apply float_not_special, W].
  - cbn [pp]. apply literal_gate_safe; [discriminate|apply quote_not_special].
  - cbn [pp gate_safe]. destruct b; reflexivity.
  - (* name *) cbn [pp gate_safe]. destruct (is_varname (tNm n)); [reflexivity|].
    unfold tNm. rewrite (not_special_is_val n ")" _ (name_not_special n W)); reflexivity.
  - (* bin *)
    destruct (op_level op) as [lv|] eqn:E; [|discriminate]. apply andb_prop in W. destruct W as [W1 W2].
    rewrite pp_bin. apply gate_safe_extend; [apply pp_at_gate_safe, IHx1, W1|].
    cbn [tOp T g_value]. exact (binop_not_sep op lv E).
  - (* un *)
    apply andb_prop in W. destruct W as [W1 W2]. rewrite pp_un. cbn [gate_safe].
    change (is_varname (tOp op)) with false. cbn iota. unfold is_val, tOp, T. cbn [g_value].
    apply Bool.negb_true_iff. apply str_in_true in W1.
    destruct W1 as [<-|[<-|[<-|[<-|[]]]]]; reflexivity.
  - (* index *)
    apply andb_prop in W. destruct W as [W1 W2]. rewrite pp_ixat.
    apply gate_safe_extend; [apply pp_at_gate_safe, IHx1, W1|reflexivity].
  - apply andb_prop in W. destruct W as [W1 W3]. apply andb_prop in W1. destruct W1 as [W1 W2]. rewrite pp_ixft.
    apply gate_safe_extend; [apply pp_at_gate_safe, IHx1, W1|reflexivity].
  - (* list *) rewrite pp_list. reflexivity.
  - (* call *)
    apply andb_prop in W. destruct W as [W1 W2]. rewrite pp_call.
    destruct x; try discriminate. cbn [name_tok app gate_safe]. cbn [is_name_node] in W1.
    rewrite (name_is_varname n W1). reflexivity.
Qed.

(* ---------- literal and name atoms ---------- *)
Lemma simple_int k i r :
  (0 <=? i)%Z && (i <=? max_int)%Z = true ->
  p_atom_simple (S k) (Some (T KIntLit (itoa i)) :: r) = Got (NInt i) r.
Proof.
  intros H. cbn [p_atom_simple]. unfold is_floatlit, is_intlit, is_kind. cbn [T g_kind g_value kind_eqb andb].
  rewrite (Calc.BuiltinProofs.atoi_itoa i (in_range_int64 i H)). reflexivity.
Qed.

Lemma simple_float k f r :
  float_ok f = true -> p_atom_simple (S k) (Some (T KFloatLit (fmt_pos f)) :: r) = Got (NFloat f) r.
Proof.
  intros H. cbn [p_atom_simple]. unfold is_floatlit, is_kind. cbn [T g_kind g_value kind_eqb andb].
  unfold float_ok in H. destruct (parse_float (fmt_pos f)) as [| |g]; try discriminate.
  unfold fsame in H. apply FloatAxioms.Leibniz.eqb_spec in H. subst g. reflexivity.
Qed.

Lemma simple_str k s r :
  no_backslash s = true -> p_atom_simple (S k) (Some (T KStringLit (quote s)) :: r) = Got (NStr s) r.
Proof.
  intros H. cbn [p_atom_simple]. unfold is_floatlit, is_intlit, is_kind. cbn [T g_kind g_value kind_eqb andb].
  rewrite (not_special_is_val (quote s) "true" KStringLit (quote_not_special s)) by reflexivity.
  rewrite (not_special_is_val (quote s) "false" KStringLit (quote_not_special s)) by reflexivity.
  rewrite (wrap_quote s H). reflexivity.
Qed.

Lemma simple_bool k (b : bool) r :
  p_atom_simple (S k) (Some (tNm (if b then "true" else "false")) :: r) = Got (NBool b) r.
Proof. destruct b; reflexivity. Qed.

Lemma simple_name k x r :
  is_name x = true -> p_atom_simple (S k) (Some (tNm x) :: r) = Got (NName x) r.
Proof.
  intros H. pose proof (name_not_special x H) as NS.
  assert (F : forall s, str_in s specials = true -> is_val s (tNm x) = false).
  { intros s Hs. exact (not_special_is_val x s KName NS Hs). }
  cbn [p_atom_simple].
  assert (E1 : is_floatlit (tNm x) = false) by reflexivity.
  assert (E2 : is_intlit (tNm x) = false) by reflexivity.
  assert (E3 : is_kind KStringLit (tNm x) = false) by reflexivity.
  rewrite E1, E2, E3, (F "true"), (F "false"), (F "["), (F "("), (name_is_varname x H) by reflexivity. reflexivity.
Qed.

(* ---------- comma separated expression lists ---------- *)
Lemma sep_by_cons (sep x : list gtok) (l : list (list gtok)) :
  sep_by sep (x :: l) = x ++ List.concat (map (fun y => sep ++ y) l).
Proof.
  revert x. induction l as [|y l IH]; intros x.
  - cbn. rewrite app_nil_r. reflexivity.
  - change (sep_by sep (x :: y :: l)) with (x ++ sep ++ sep_by sep (y :: l)).
    rewrite IH. cbn [map List.concat]. rewrite <- !app_assoc. reflexivity.
Qed.

Definition closer (c : gtok) : Prop := c = tNs ")" \/ c = tNs "]".

Lemma closer_follow c r : closer c -> follow 0 (Some c :: r).
Proof. intros [->| ->]; reflexivity. Qed.

Lemma closer_not_comma c : closer c -> is_val "," c = false.
Proof. intros [->| ->]; reflexivity. Qed.

Lemma head_kind x : wfx x = true -> exists t tl, pp x = t :: tl /\ is_kind KEOL t = false.
Proof.
  induction x; intros W; cbn [wfx] in W; try discriminate; try (eexists; eexists; split; [reflexivity|reflexivity]).
  - destruct (op_level op) eqn:E; [|discriminate]. apply andb_prop in W. destruct W as [W1 _].
    rewrite pp_bin. unfold pp_at. destruct (Nat.ltb (level x1) (lvl_of op)).
    + eexists; eexists; split; reflexivity.
    + destruct (IHx1 W1) as (t & tl & E1 & K). rewrite E1. eexists; eexists; split; [reflexivity|exact K].
  - apply andb_prop in W. destruct W as [W1 _]. rewrite pp_ixat. unfold pp_at. destruct (Nat.ltb (level x1) 7).
    + eexists; eexists; split; reflexivity.
    + destruct (IHx1 W1) as (t & tl & E1 & K). rewrite E1. eexists; eexists; split; [reflexivity|exact K].
  - apply andb_prop in W. destruct W as [W1 _]. apply andb_prop in W1. destruct W1 as [W1 _].
    rewrite pp_ixft. unfold pp_at. destruct (Nat.ltb (level x1) 7).
    + eexists; eexists; split; reflexivity.
    + destruct (IHx1 W1) as (t & tl & E1 & K). rewrite E1. eexists; eexists; split; [reflexivity|exact K].
  - apply andb_prop in W. destruct W as [W1 _]. destruct x; try discriminate. rewrite pp_call. cbn [name_tok app].
    eexists; eexists; split; reflexivity.
Qed.

Lemma skip_eols_pp_at m x r : wfx x = true -> skip_eols (S_ (pp_at m x) ++ r) = S_ (pp_at m x) ++ r.
Proof.
  intros W. unfold pp_at. destruct (Nat.ltb (level x) m); [reflexivity|].
  destruct (head_kind x W) as (t & tl & E & K). rewrite E. cbn [S_ map app skip_eols]. rewrite K. reflexivity.
Qed.

Section ExprLists.
  Variable expr : list tok -> pr node.
  Variable eac : bool.

  Lemma exprs_tail_ok l : forall acc n c rest,
    closer c ->
    (forall x, In x l -> wfx x = true /\ forall rest', follow 0 rest' -> expr (S_ (pp_at 1 x) ++ rest') = Got x rest') ->
    List.length l < n ->
    exprs_tail expr n eac (S_ (List.concat (map (fun y => [tNs ","] ++ pp_at 1 y) l)) ++ Some c :: rest) acc
    = Got (acc ++ l) (Some c :: rest).
  Proof.
    induction l as [|x l IH]; intros acc n c rest Hc Hx Hn.
    - destruct n as [|n']; [cbn in Hn; lia|]. cbn [map List.concat S_ app exprs_tail accept].
      rewrite (closer_not_comma c Hc). rewrite app_nil_r. reflexivity.
    - destruct n as [|n']; [cbn in Hn; lia|].
      cbn [map List.concat].
      set (C := List.concat (map (fun y => [tNs ","] ++ pp_at 1 y) l)).
      replace (S_ (([tNs ","] ++ pp_at 1 x) ++ C) ++ Some c :: rest)
        with (Some (tNs ",") :: S_ (pp_at 1 x) ++ (S_ C ++ Some c :: rest))
        by (rewrite !S_app, <- !app_assoc; reflexivity).
      set (R := S_ C ++ Some c :: rest).
      cbn [exprs_tail accept]. change (is_val "," (tNs ",")) with true. cbn iota.
      destruct (Hx x (or_introl eq_refl)) as [Wx Px].
      assert (E : (if eac then skip_eols (S_ (pp_at 1 x) ++ R) else S_ (pp_at 1 x) ++ R) = S_ (pp_at 1 x) ++ R).
      { destruct eac; [apply skip_eols_pp_at, Wx|reflexivity]. }
      rewrite E, Px.
      + unfold R, C. rewrite IH; [rewrite <- app_assoc; reflexivity|exact Hc| |cbn in Hn; lia].
        intros y Hy. apply Hx. right. exact Hy.
      + unfold R, C. destruct l as [|y l']; [exact (closer_follow c rest Hc)|reflexivity].
  Qed.

  Lemma exprs_sep_ok l c rest n :
    closer c ->
    (forall x, In x l -> wfx x = true /\ forall rest', follow 0 rest' -> expr (S_ (pp_at 1 x) ++ rest') = Got x rest') ->
    expr (Some c :: rest) = Bad ->
    List.length l < n ->
    exprs_sep expr n eac (S_ (sep_by [tNs ","] (map (pp_at 1) l)) ++ Some c :: rest) = Got l (Some c :: rest).
  Proof.
    intros Hc Hx Hbad Hn. destruct l as [|x l].
    - cbn [map sep_by S_ app]. unfold exprs_sep. rewrite Hbad. reflexivity.
    - cbn [map]. rewrite sep_by_cons, map_map, S_app, <- app_assoc.
      unfold exprs_sep. destruct (Hx x (or_introl eq_refl)) as [Wx Px].
      rewrite Px.
      + rewrite (exprs_tail_ok l [x] n c rest Hc); [reflexivity| |cbn in Hn; lia].
        intros y Hy. apply Hx. right. exact Hy.
      + destruct l as [|y l']; [exact (closer_follow c rest Hc)|reflexivity].
  Qed.
End ExprLists.

(* an expression cannot start with a closing bracket *)
Lemma cgate_not_name t r : is_varname t = false -> cgate (Some t :: r) = false.
Proof. intros H. destruct r as [|[o|] r']; cbn [cgate]; try reflexivity. rewrite H. reflexivity. Qed.

Lemma p_unary_closer j c rest : closer c -> p_unary (4 + j) (Some c :: rest) = Bad.
Proof.
  intros Hc.
  assert (A : p_atom (2 + j) (Some c :: rest) = Bad).
  { change (2 + j) with (S (S j)). rewrite p_atom_plain.
    - destruct Hc as [-> | ->]; reflexivity.
    - apply fgate_not_paren. destruct Hc as [-> | ->]; reflexivity.
    - apply cgate_not_name. destruct Hc as [-> | ->]; reflexivity. }
  change (4 + j) with (S (S (S (S j)))). cbn [p_unary].
  assert (U : accept (tok_in unary_ops) (Some c :: rest) = Bad) by (destruct Hc as [-> | ->]; reflexivity).
  rewrite U. cbn [p_index]. change (S (S j)) with (2 + j). rewrite A. reflexivity.
Qed.

Lemma P_bad k n L ts : L <= 5 -> p_unary k ts = Bad -> P k n L ts = Bad.
Proof.
  intros HL H.
  assert (F : forall d L', L' + d = 5 -> P k n L' ts = Bad).
  { induction d as [|d IH]; intros L' E.
    - replace L' with 5 by lia. exact H.
    - rewrite P_step by lia. unfold chain. rewrite IH by lia. reflexivity. }
  apply (F (5 - L) L). lia.
Qed.

Lemma p_expr_closer j c rest : closer c -> p_expr (5 + j) (Some c :: rest) = Bad.
Proof.
  intros Hc. change (5 + j) with (S (4 + j)). rewrite p_expr_P. apply P_bad; [lia|]. apply p_unary_closer, Hc.
Qed.

(* ---------- the parser for each printing threshold ---------- *)
Definition parser_at (j n m : nat) : list tok -> pr node :=
  match m with
  | 8 => p_atom (2 + j)
  | 7 => p_index (3 + j)
  | 6 => p_unary (4 + j)
  | _ => P (4 + j) n (m - 1)
  end.

Definition fl (m : nat) : nat := Nat.min (m - 1) 5.

Lemma follow_mono L L' rest : L <= L' -> L' <= 5 -> follow L rest -> follow L' rest.
Proof.
  intros H1 H2 Hf. induction H1 as [|L'' H IH]; [exact Hf|].
  apply follow_weaken; [lia|]. apply IH. lia.
Qed.

Definition no_unary_head (ts : list tok) : Prop := accept (tok_in unary_ops) ts = Bad.

Lemma lift_parser j n m m' ts x rest :
  1 <= m -> m <= m' -> m' <= 8 -> 1 <= n ->
  parser_at j n m' ts = Got x rest -> follow (fl m) rest ->
  (m <= 6 -> 7 <= m' -> no_unary_head ts) ->
  parser_at j n m ts = Got x rest.
Proof.
  intros Hm Hmm Hm' Hn H Hf Hu.
  assert (F5 : follow 5 rest) by (apply (follow_mono (fl m)); [unfold fl; lia|lia|exact Hf]).
  (* first bring the result down to the index level, then unary, then the chains *)
  assert (I : 7 <= m' -> p_index (3 + j) ts = Got x rest).
  { intros H7. destruct (Nat.eq_dec m' 8) as [->|NE].
    - apply (lift_atom_index (2 + j)); assumption.
    - replace m' with 7 in H by lia. exact H. }
  assert (U : 6 <= m' -> m <= 6 -> p_unary (4 + j) ts = Got x rest).
  { intros H6 Hm6. destruct (Nat.eq_dec m' 6) as [->|NE]; [exact H|].
    apply (lift_index_unary (3 + j)); [apply Hu; [exact Hm6|lia]|apply I; lia]. }
  destruct (Nat.eq_dec m 8) as [->|N8]; [replace m' with 8 in H by lia; exact H|].
  destruct (Nat.eq_dec m 7) as [->|N7]; [apply I; lia|].
  destruct (Nat.eq_dec m 6) as [->|N6]; [apply U; lia|].
  assert (Hm5 : m <= 5) by lia.
  replace (parser_at j n m) with (P (4 + j) n (m - 1)) by (destruct m as [|[|[|[|[|[|m]]]]]]; try lia; reflexivity).
  destruct (Nat.le_gt_cases 6 m') as [H6|H6].
  - apply lift_levels; [lia|exact Hn|apply U; lia|].
    replace (m - 1) with (fl m) by (unfold fl; lia). exact Hf.
  - (* both are chain levels *)
    replace (parser_at j n m') with (P (4 + j) n (m' - 1)) in H by (destruct m' as [|[|[|[|[|[|m']]]]]]; try lia; reflexivity).
    assert (G : forall d L, L + d = m' - 1 -> follow L rest -> P (4 + j) n L ts = Got x rest).
    { induction d as [|d IH]; intros L E Hf'.
      - replace L with (m' - 1) by lia. exact H.
      - apply lift_level; [lia|exact Hn| |exact Hf']. apply IH; [lia|]. apply follow_weaken; [lia|exact Hf']. }
    apply (G (m' - m) (m - 1)); [lia|]. replace (m - 1) with (fl m) by (unfold fl; lia). exact Hf.
Qed.

Lemma no_unary_tok k v r : str_in v specials = false -> no_unary_head (Some (T k v) :: r).
Proof.
  intros H. unfold no_unary_head. cbn [accept]. unfold tok_in, T. cbn [g_value].
  rewrite (str_in_sub v unary_ops); [reflexivity|vm_compute; reflexivity|exact H].
Qed.

Lemma no_unary_head_pp x : wfx x = true -> 7 <= level x -> forall rest, no_unary_head (S_ (pp x) ++ rest).
Proof.
  induction x; intros W HL rest; cbn [wfx] in W; try discriminate; cbn [level] in HL; try lia.
  - apply no_unary_tok, int_not_special, W.
  - apply no_unary_tok, float_not_special, W.
  - apply no_unary_tok, quote_not_special.
  - match goal with b : bool |- _ => destruct b end; reflexivity.
  - apply no_unary_tok, name_not_special, W.
  - destruct (op_level op) eqn:E; [|discriminate]. destruct (op_level_spec op n E) as [? _]. lia.
  - apply andb_prop in W. destruct W as [W1 _]. rewrite pp_ixat, S_app, <- app_assoc. unfold pp_at.
    destruct (Nat.ltb_spec (level x1) 7); [reflexivity|apply IHx1; [exact W1|lia]].
  - apply andb_prop in W. destruct W as [W1 _]. apply andb_prop in W1. destruct W1 as [W1 _].
    rewrite pp_ixft, S_app, <- app_assoc. unfold pp_at.
    destruct (Nat.ltb_spec (level x1) 7); [reflexivity|apply IHx1; [exact W1|lia]].
  - reflexivity.
  - apply andb_prop in W. destruct W as [W1 _]. destruct x; try discriminate. rewrite pp_call. cbn [name_tok app S_ map].
    apply no_unary_tok, name_not_special, W1.
Qed.

Lemma no_unary_head_pp_at m x rest : wfx x = true -> 7 <= m -> no_unary_head (S_ (pp_at m x) ++ rest).
Proof.
  intros W Hm. unfold pp_at. destruct (Nat.ltb_spec (level x) m); [reflexivity|].
  apply no_unary_head_pp; [exact W|lia].
Qed.

(* ---------- statements of the induction ---------- *)
Definition PAm (j m : nat) (x : node) : Prop :=
  forall n rest, follow (fl m) rest -> List.length (S_ (pp_at m x) ++ rest) < n ->
    parser_at j n m (S_ (pp_at m x) ++ rest) = Got x rest.

Definition Raw (j : nat) (x : node) : Prop := forall m, 1 <= m -> m <= level x -> m <= 8 -> PAm j m x.
Definition Full (j : nat) (x : node) : Prop := forall m, 1 <= m -> m <= 8 -> PAm j m x.

Lemma level_bounds x : wfx x = true -> 1 <= level x <= 8.
Proof.
  destruct x; cbn [wfx level]; intros W; try discriminate; try lia.
  destruct (op_level op) eqn:E; [|discriminate]. destruct (op_level_spec op n E). lia.
Qed.

Lemma pp_at_raw m x : m <= level x -> pp_at m x = pp x.
Proof. intros H. unfold pp_at. destruct (Nat.ltb_spec (level x) m); [lia|reflexivity]. Qed.

Lemma pp_at_paren m x : level x < m -> pp_at m x = [tNs "("] ++ pp x ++ [tNs ")"].
Proof. intros H. unfold pp_at. destruct (Nat.ltb_spec (level x) m); [reflexivity|lia]. Qed.

Lemma raw_of_own j x : wfx x = true -> PAm j (level x) x -> Raw j x.
Proof.
  intros W Hown m Hm1 Hml Hm8 n rest Hf Hlen.
  rewrite (pp_at_raw m x Hml) in *.
  pose proof (level_bounds x W) as [Hl1 Hl8].
  apply (lift_parser j n m (level x)); try assumption; try lia.
  - rewrite <- (pp_at_raw (level x) x (le_n _)). apply Hown.
    + apply (follow_mono (fl m)); [unfold fl; lia|unfold fl; lia|exact Hf].
    + rewrite (pp_at_raw (level x) x (le_n _)). exact Hlen.
  - intros _ H7. apply no_unary_head_pp; assumption.
Qed.

Lemma paren_atom j x rest :
  wfx x = true -> 5 <= j -> PAm (j - 5) 1 x -> followA rest ->
  p_atom (2 + j) (Some (tNs "(") :: S_ (pp x) ++ Some (tNs ")") :: rest) = Got x rest.
Proof.
  intros W Hj H1 Hf.
  change (2 + j) with (S (S j)). rewrite p_atom_plain.
  - cbn [p_atom_simple].
    change (is_floatlit (tNs "(")) with false. change (is_intlit (tNs "(")) with false.
    change (is_val "true" (tNs "(")) with false. change (is_val "false" (tNs "(")) with false.
    change (is_kind KStringLit (tNs "(")) with false. change (is_val "[" (tNs "(")) with false.
    change (is_val "(" (tNs "(")) with true. cbn iota.
    replace j with (5 + (j - 5)) by lia. change (5 + (j - 5)) with (S (4 + (j - 5))). rewrite p_expr_P.
    pose proof (level_bounds x W) as [Hl1 _].
    specialize (H1 (S (List.length (S_ (pp x) ++ Some (tNs ")") :: rest))) (Some (tNs ")") :: rest)).
    rewrite (pp_at_raw 1 x Hl1) in H1. unfold parser_at in H1. cbn [Nat.sub] in H1.
    rewrite H1; [reflexivity|reflexivity|lia].
  - apply fgate_paren; [apply pp_gate_safe, W|]. apply (followA_no_tok rest "->"); [right; left; reflexivity|exact Hf].
  - apply cgate_not_name. reflexivity.
Qed.

Lemma full_of_raw j x :
  wfx x = true -> 5 <= j -> Raw j x -> PAm (j - 5) 1 x -> Full j x.
Proof.
  intros W Hj Hraw H1 m Hm1 Hm8.
  destruct (Nat.le_gt_cases m (level x)) as [Hle|Hgt]; [apply Hraw; assumption|].
  intros n rest Hf Hlen. rewrite (pp_at_paren m x Hgt) in *.
  assert (F5 : follow 5 rest) by (apply (follow_mono (fl m)); [unfold fl; lia|lia|exact Hf]).
  apply (lift_parser j n m 8); try lia; try assumption.
  - unfold parser_at.
    replace (S_ ([tNs "("] ++ pp x ++ [tNs ")"]) ++ rest) with (Some (tNs "(") :: S_ (pp x) ++ Some (tNs ")") :: rest)
      by (rewrite !S_app, <- !app_assoc; reflexivity).
    apply paren_atom; try assumption. apply (followA_of_follow 5), F5.
  - intros _ _. reflexivity.
Qed.

(* ---------- own-level parses: atoms ---------- *)
Lemma expr_of_raw j y rest :
  wfx y = true -> Raw j y -> follow 0 rest -> p_expr (5 + j) (S_ (pp_at 1 y) ++ rest) = Got y rest.
Proof.
  intros W HR Hf. change (5 + j) with (S (4 + j)). rewrite p_expr_P.
  pose proof (level_bounds y W) as [H1 H8].
  apply (HR 1 (le_n _) H1 ltac:(lia)); [exact Hf|lia].
Qed.

Lemma atom_literal j t x rest :
  is_val "(" t = false -> is_varname t = false ->
  (forall k r, p_atom_simple (S k) (Some t :: r) = Got x r) ->
  p_atom (2 + j) (Some t :: rest) = Got x rest.
Proof.
  intros H1 H2 H3. change (2 + j) with (S (S j)). rewrite p_atom_plain; [apply H3|apply fgate_not_paren, H1|apply cgate_not_name, H2].
Qed.

Lemma atom_name j x rest :
  is_name x = true -> followA rest -> p_atom (2 + j) (Some (tNm x) :: rest) = Got (NName x) rest.
Proof.
  intros H Hf. change (2 + j) with (S (S j)). rewrite p_atom_plain; [apply simple_name, H| |].
  - apply fgate_not_paren. exact (not_special_is_val x "(" KName (name_not_special x H) eq_refl).
  - destruct rest as [|[o|] r]; try reflexivity. cbn [cgate].
    pose proof (followA_no_tok (Some o :: r) "(" ltac:(left; reflexivity) Hf) as E. cbn [peek_val] in E.
    rewrite E, Bool.andb_false_r. reflexivity.
Qed.

Lemma sep_by_length (l : list node) :
  (forall y, In y l -> wfx y = true) -> List.length l <= List.length (sep_by [tNs ","] (map (pp_at 1) l)).
Proof.
  intros H. destruct l as [|x l]; [cbn; lia|]. cbn [map]. rewrite sep_by_cons, map_map, app_length.
  assert (A : forall z, wfx z = true -> 1 <= List.length (pp_at 1 z)).
  { intros z Wz. unfold pp_at. destruct (Nat.ltb (level z) 1); [cbn; lia|].
    destruct (head_kind z Wz) as (t & tl & E & _). rewrite E. cbn. lia. }
  assert (B : forall l', (forall y, In y l' -> wfx y = true) ->
                         List.length l' <= List.length (List.concat (map (fun y => [tNs ","] ++ pp_at 1 y) l'))).
  { induction l' as [|y l' IH]; intros Hy; [cbn; lia|].
    specialize (IH (fun z Hz => Hy z (or_intror Hz))).
    change (map (fun y0 => [tNs ","] ++ pp_at 1 y0) (y :: l')) with (([tNs ","] ++ pp_at 1 y) :: map (fun y0 => [tNs ","] ++ pp_at 1 y0) l').
    change (List.concat ((([tNs ","] ++ pp_at 1 y) :: map (fun y0 => [tNs ","] ++ pp_at 1 y0) l')))
      with (([tNs ","] ++ pp_at 1 y) ++ List.concat (map (fun y0 => [tNs ","] ++ pp_at 1 y0) l')).
    rewrite !app_length. change (List.length [tNs ","]) with 1. change (List.length (y :: l')) with (S (List.length l')). lia. }
  specialize (A x (H x (or_introl eq_refl))). specialize (B l (fun z Hz => H z (or_intror Hz))). cbn [List.length]. lia.
Qed.

Lemma hgts_in y l : In y l -> hgt y <= hgts l.
Proof. induction l as [|x l IH]; intros H; [contradiction|]. cbn [hgts]. destruct H as [->|H]; [lia|]. specialize (IH H). lia. Qed.

Lemma atom_list j l rest :
  forallb wfx l = true -> 5 * S (hgts l) <= j ->
  (forall y, In y l -> forall j', 5 * hgt y <= j' -> Raw j' y) ->
  p_atom (2 + j) (S_ (pp (NList l)) ++ rest) = Got (NList l) rest.
Proof.
  intros W Hj IH. rewrite forallb_forall in W.
  rewrite pp_list. rewrite !S_app, <- !app_assoc. cbn [S_ map app].
  change (2 + j) with (S (S j)). rewrite p_atom_plain; [|apply fgate_not_paren; reflexivity|apply cgate_not_name; reflexivity].
  cbn [p_atom_simple].
  change (is_floatlit (tNs "[")) with false. change (is_intlit (tNs "[")) with false.
  change (is_val "true" (tNs "[")) with false. change (is_val "false" (tNs "[")) with false.
  change (is_kind KStringLit (tNs "[")) with false. change (is_val "[" (tNs "[")) with true. cbn iota.
  set (body := S_ (sep_by [tNs ","] (map (pp_at 1) l))).
  assert (Sk : skip_eols (body ++ @cons tok (Some (tNs "]")) rest) = body ++ @cons tok (Some (tNs "]")) rest).
  { unfold body. destruct l as [|x l']; [reflexivity|]. cbn [map]. rewrite sep_by_cons.
    rewrite S_app, <- app_assoc. apply skip_eols_pp_at. apply W. left. reflexivity. }
  rewrite Sk. unfold body.
  replace j with (5 + (j - 5)) by lia.
  rewrite (exprs_sep_ok (p_expr (5 + (j - 5))) true l (tNs "]") rest).
  - cbn [accept]. change (is_val "]" (tNs "]")) with true. reflexivity.
  - right. reflexivity.
  - intros y Hy. split; [apply W, Hy|]. intros rest' Hf. apply expr_of_raw; [apply W, Hy| |exact Hf].
    apply IH; [exact Hy|]. pose proof (hgts_in y l Hy). lia.
  - apply p_expr_closer. right. reflexivity.
  - rewrite app_length, S_length. cbn [List.length]. pose proof (sep_by_length l (fun y Hy => W y Hy)). lia.
Qed.

Lemma p_atom_call k t o r :
  fgate (Some t :: Some o :: r) = None -> is_varname t = true -> is_val "(" o = true ->
  p_atom (S k) (Some t :: Some o :: r) =
  match exprs_sep (p_expr k) (S (List.length r)) false r with
  | Got args r1 =>
      match accept (is_val ")") r1 with
      | Got _ r2 => Got (NCall (NName (g_value t)) args) r2
      | Bad => Bad | Out => Out
      end
  | Bad => Bad | Out => Out
  end.
Proof.
  intros Hf Hv Ho. set (ts := Some t :: Some o :: r) in *. cbn [p_atom].
  change (match parameters ts with Got ps r => if peek_val "->" r then Some (ps, r) else None | _ => None end)
    with (fgate ts). rewrite Hf. unfold ts. rewrite Hv, Ho. reflexivity.
Qed.

Lemma atom_call j f l rest :
  is_name f = true -> forallb wfx l = true -> 5 * S (hgts l) <= j ->
  (forall y, In y l -> forall j', 5 * hgt y <= j' -> Raw j' y) ->
  p_atom (2 + j) (S_ (pp (NCall (NName f) l)) ++ rest) = Got (NCall (NName f) l) rest.
Proof.
  intros Hf W Hj IH. rewrite forallb_forall in W.
  rewrite pp_call. cbn [name_tok].
  replace (S_ ([tNm f] ++ [tNs "("] ++ sep_by [tNs ","] (map (pp_at 1) l) ++ [tNs ")"]) ++ rest)
    with (Some (tNm f) :: Some (tNs "(") :: S_ (sep_by [tNs ","] (map (pp_at 1) l)) ++ Some (tNs ")") :: rest)
    by (rewrite !S_app, <- !app_assoc; reflexivity).
  change (2 + j) with (S (S j)). rewrite p_atom_call.
  - replace (S j) with (5 + (j - 4)) by lia.
    rewrite (exprs_sep_ok (p_expr (5 + (j - 4))) false l (tNs ")") rest).
    + cbn [accept]. change (is_val ")" (tNs ")")) with true. reflexivity.
    + left. reflexivity.
    + intros y Hy. split; [apply W, Hy|]. intros rest' Hf'. apply expr_of_raw; [apply W, Hy| |exact Hf'].
      apply IH; [exact Hy|]. pose proof (hgts_in y l Hy). lia.
    + apply p_expr_closer. left. reflexivity.
    + rewrite app_length, S_length. cbn [List.length]. pose proof (sep_by_length l (fun y Hy => W y Hy)). lia.
  - apply fgate_not_paren. exact (not_special_is_val f "(" KName (name_not_special f Hf) eq_refl).
  - apply name_is_varname, Hf.
  - reflexivity.
Qed.

(* ---------- spines ---------- *)
Definition AtomA (j : nat) (x : node) : Prop :=
  forall rest, followA rest -> p_atom (2 + j) (S_ (pp_at 8 x) ++ rest) = Got x rest.

Definition IS (j : nat) (x : node) : Prop :=
  forall rest R, followA rest ->
    (forall n2, List.length rest < n2 -> index_loop (p_expr (2 + j)) n2 x rest = R) ->
    p_index (3 + j) (S_ (pp_at 7 x) ++ rest) = R.

Definition BS (j L : nat) (x : node) : Prop :=
  forall n rest R, follow (S L) rest -> List.length (S_ (pp_at (S L) x) ++ rest) < n ->
    (forall n2, List.length rest < n2 -> n2 <= n -> chain_loop (P (4 + j) n (S L)) n2 (level_ops L) x rest = R) ->
    P (4 + j) n L (S_ (pp_at (S L) x) ++ rest) = R.

Definition Good (c : node) : Prop :=
  forall j, (5 * hgt c <= j -> Raw j c) /\
            (5 * hgt c + 5 <= j -> Full j c /\ AtomA j c /\ IS j c /\ forall L, L <= 4 -> BS j L c).

Lemma P_parser_at j n L : L <= 4 -> P (4 + j) n (S L) = parser_at j n (L + 2).
Proof. intros H. destruct L as [|[|[|[|[|L]]]]]; try lia; reflexivity. Qed.

Lemma parser_at_P j n L : L <= 4 -> parser_at j n (S L) = P (4 + j) n L.
Proof. intros H. destruct L as [|[|[|[|[|L]]]]]; try lia; reflexivity. Qed.

Lemma fl_small m : 1 <= m -> m <= 6 -> fl m = m - 1.
Proof. unfold fl. lia. Qed.

(* a spine statement for a node that is not itself at the spine's level *)
Lemma IS_of_atom j x : level x <> 7 -> AtomA j x -> IS j x.
Proof.
  intros HL HA rest R Hf HR.
  assert (E : pp_at 7 x = pp_at 8 x).
  { unfold pp_at. destruct (Nat.ltb_spec (level x) 7); destruct (Nat.ltb_spec (level x) 8); try reflexivity; lia. }
  rewrite E. change (3 + j) with (S (2 + j)). cbn [p_index]. rewrite (HA rest Hf). apply HR. lia.
Qed.

Lemma BS_of_full j L x : L <= 4 -> level x <> S L -> Full j x -> BS j L x.
Proof.
  intros HL Hlv HF n rest R Hf Hlen HR.
  assert (E : pp_at (S L) x = pp_at (L + 2) x).
  { unfold pp_at. destruct (Nat.ltb_spec (level x) (S L)); destruct (Nat.ltb_spec (level x) (L + 2)); try reflexivity; lia. }
  rewrite E in *. rewrite (P_step (4 + j) n L HL). unfold chain. rewrite (P_parser_at j n L HL).
  rewrite (HF (L + 2) ltac:(lia) ltac:(lia) n rest); [rewrite <- (P_parser_at j n L HL); apply HR; [|lia]| |exact Hlen].
  { rewrite app_length in Hlen. lia. }
  unfold fl. replace (Nat.min (L + 2 - 1) 5) with (S L) by lia. exact Hf.
Qed.

(* ---------- own-level parses: unary, index, binary ---------- *)
Lemma own_un j op e :
  str_in op unary_ops = true -> wfx e = true -> Good e -> 5 * S (hgt e) <= j -> PAm j 6 (NUn op e).
Proof.
  intros Hop We Ge Hj n rest Hf _.
  rewrite (pp_at_raw 6 (NUn op e)) by (cbn; lia). rewrite pp_un. cbn [S_ map app].
  unfold parser_at. change (4 + j) with (S (3 + j)). cbn [p_unary accept].
  unfold tok_in, tOp, T. cbn [g_value]. rewrite Hop.
  destruct (Ge j) as [_ F]. destruct (F ltac:(lia)) as (Fe & _).
  fold (S_ (pp_at 7 e)).
  pose proof (Fe 7 ltac:(lia) ltac:(lia) (S (List.length (S_ (pp_at 7 e) ++ rest))) rest) as H7. unfold parser_at in H7.
  rewrite H7; [reflexivity|exact Hf|lia].
Qed.

Lemma is_index_at j a i :
  wfx a = true -> wfx i = true -> Good a -> Good i -> 5 * S (Nat.max (hgt a) (hgt i)) <= j -> IS j (NIndexAt a i).
Proof.
  intros Wa Wi Ga Gi Hj rest R Hf HR.
  rewrite (pp_at_raw 7 (NIndexAt a i)) by (cbn; lia). rewrite pp_ixat.
  replace (S_ (pp_at 7 a ++ [tNs "["] ++ pp_at 1 i ++ [tNs "]"]) ++ rest)
    with (S_ (pp_at 7 a) ++ (Some (tNs "[") :: S_ (pp_at 1 i) ++ Some (tNs "]") :: rest))
    by (rewrite !S_app, <- !app_assoc; reflexivity).
  destruct (Ga j) as [_ F]. destruct (F ltac:(lia)) as (_ & _ & ISa & _).
  apply ISa; [apply followA_bracket|].
  intros n2 Hn2. destruct n2 as [|n2']; [cbn in Hn2; lia|].
  cbn [index_loop peek_val]. change (is_val "[" (tNs "[")) with true. cbn iota.
  destruct (Gi (j - 3)) as [Ri _].
  replace (2 + j) with (5 + (j - 3)) by lia.
  rewrite (expr_of_raw (j - 3) i (Some (tNs "]") :: rest) Wi (Ri ltac:(lia)) eq_refl).
  cbn [accept]. change (is_val ":" (tNs "]")) with false. change (is_val "]" (tNs "]")) with true. cbn iota.
  replace (5 + (j - 3)) with (2 + j) by lia. apply HR.
  cbn [List.length] in Hn2. rewrite app_length in Hn2. cbn [List.length] in Hn2. lia.
Qed.

Lemma is_index_ft j a f t :
  wfx a = true -> wfx f = true -> wfx t = true -> Good a -> Good f -> Good t ->
  5 * S (Nat.max (hgt a) (Nat.max (hgt f) (hgt t))) <= j -> IS j (NIndexFromTo a f t).
Proof.
  intros Wa Wf Wt Ga Gf Gt Hj rest R Hfo HR.
  rewrite (pp_at_raw 7 (NIndexFromTo a f t)) by (cbn; lia). rewrite pp_ixft.
  replace (S_ (pp_at 7 a ++ [tNs "["] ++ pp_at 1 f ++ [tNs ":"] ++ pp_at 1 t ++ [tNs "]"]) ++ rest)
    with (S_ (pp_at 7 a) ++ (Some (tNs "[") :: S_ (pp_at 1 f) ++ Some (tNs ":") :: S_ (pp_at 1 t) ++ Some (tNs "]") :: rest))
    by (rewrite !S_app, <- !app_assoc; reflexivity).
  destruct (Ga j) as [_ F]. destruct (F ltac:(lia)) as (_ & _ & ISa & _).
  apply ISa; [apply followA_bracket|].
  intros n2 Hn2. destruct n2 as [|n2']; [cbn in Hn2; lia|].
  cbn [index_loop peek_val]. change (is_val "[" (tNs "[")) with true. cbn iota.
  destruct (Gf (j - 3)) as [Rf _]. destruct (Gt (j - 3)) as [Rt _].
  replace (2 + j) with (5 + (j - 3)) by lia.
  rewrite (expr_of_raw (j - 3) f (Some (tNs ":") :: S_ (pp_at 1 t) ++ Some (tNs "]") :: rest) Wf (Rf ltac:(lia)) eq_refl).
  cbn [accept]. change (is_val ":" (tNs ":")) with true. cbn iota.
  rewrite (expr_of_raw (j - 3) t (Some (tNs "]") :: rest) Wt (Rt ltac:(lia)) eq_refl).
  cbn [accept]. change (is_val "]" (tNs "]")) with true. cbn iota.
  replace (5 + (j - 3)) with (2 + j) by lia. apply HR.
  cbn [List.length] in Hn2. rewrite !app_length in Hn2. cbn [List.length] in Hn2. rewrite app_length in Hn2. cbn [List.length] in Hn2. lia.
Qed.

Lemma op_not_tighter L op : L <= 4 -> str_in op (level_ops L) = true -> forb (S L) (tOp op) = false.
Proof.
  intros HL H. apply str_in_true in H.
  assert (A : forallb (fun v => negb (forb (S L) (tOp v))) (level_ops L) = true).
  { destruct L as [|[|[|[|[|L]]]]]; try lia; vm_compute; reflexivity. }
  rewrite forallb_forall in A. apply A in H. apply Bool.negb_true_iff in H. exact H.
Qed.

Lemma bs_bin j L op l r :
  op_level op = Some (S L) -> L <= 4 -> wfx l = true -> wfx r = true -> Good l -> Good r ->
  5 * S (Nat.max (hgt l) (hgt r)) <= j -> BS j L (NBin op l r).
Proof.
  intros Hop HL Wl Wr Gl Gr Hj n rest R Hf Hlen HR.
  assert (Hlv : lvl_of op = S L) by (unfold lvl_of; rewrite Hop; reflexivity).
  destruct (op_level_spec op (S L) Hop) as [_ Hin]. replace (S L - 1) with L in Hin by lia.
  rewrite (pp_at_raw (S L) (NBin op l r)) in * by (cbn [level]; rewrite Hop; lia).
  rewrite pp_bin, Hlv in *.
  replace (S_ (pp_at (S L) l ++ [tOp op] ++ pp_at (S (S L)) r) ++ rest)
    with (S_ (pp_at (S L) l) ++ (Some (tOp op) :: S_ (pp_at (S (S L)) r) ++ rest)) in *
    by (rewrite !S_app, <- !app_assoc; reflexivity).
  destruct (Gl j) as [_ Fl]. destruct (Fl ltac:(lia)) as (_ & _ & _ & BSl).
  apply (BSl L HL n); [cbn [follow]; apply op_not_tighter; assumption|exact Hlen|].
  intros n2 Hn2 Hn2n. destruct n2 as [|n2']; [cbn in Hn2; lia|].
  destruct (Gr j) as [_ Fr]. destruct (Fr ltac:(lia)) as (FRr & _).
  rewrite (chain_loop_step _ _ n2' l (tOp op) _ r rest).
  - cbn [tOp T g_value]. apply HR; [|lia].
    cbn [List.length] in Hn2. rewrite app_length in Hn2. lia.
  - unfold tok_in, tOp, T. cbn [g_value]. exact Hin.
  - rewrite (P_parser_at j n L HL). replace (S (S L)) with (L + 2) in * by lia.
    apply (FRr (L + 2) ltac:(lia) ltac:(lia)).
    + unfold fl. replace (Nat.min (L + 2 - 1) 5) with (S L) by lia. exact Hf.
    + rewrite !app_length in *. cbn [List.length] in Hlen. rewrite app_length in Hlen. lia.
Qed.

(* ---------- assembling ---------- *)
Definition OwnSp (j : nat) (x : node) : Prop :=
  (level x = 8 -> AtomA j x) /\ (level x = 7 -> IS j x) /\ (forall L, L <= 4 -> level x = S L -> BS j L x).

Lemma good_intro x : wfx x = true -> (forall j, 5 * hgt x <= j -> Raw j x /\ OwnSp j x) -> Good x.
Proof.
  intros W H j. split; [intros Hj; apply H, Hj|]. intros Hj.
  destruct (H j ltac:(lia)) as (Rj & OA & OI & OB).
  destruct (H (j - 5) ltac:(lia)) as (Rj5 & _).
  pose proof (level_bounds x W) as [Hl1 Hl8].
  assert (FJ : Full j x) by (apply full_of_raw; [exact W|lia|exact Rj|apply Rj5; lia]).
  assert (AJ : AtomA j x).
  { destruct (Nat.eq_dec (level x) 8) as [E|NE]; [apply OA, E|].
    intros rest Hf. rewrite (pp_at_paren 8 x) by lia.
    replace (S_ ([tNs "("] ++ pp x ++ [tNs ")"]) ++ rest) with (Some (tNs "(") :: S_ (pp x) ++ Some (tNs ")") :: rest)
      by (rewrite !S_app, <- !app_assoc; reflexivity).
    apply paren_atom; [exact W|lia|apply Rj5; lia|exact Hf]. }
  split; [exact FJ|]. split; [exact AJ|]. split.
  - destruct (Nat.eq_dec (level x) 7) as [E|NE]; [apply OI, E|apply IS_of_atom; assumption].
  - intros L HL. destruct (Nat.eq_dec (level x) (S L)) as [E|NE]; [apply OB; assumption|apply BS_of_full; assumption].
Qed.

Lemma ownsp_atom j x : level x = 8 -> AtomA j x -> OwnSp j x.
Proof. intros E H. split; [intros _; exact H|]. split; [intros E'; lia|intros L HL E'; lia]. Qed.

Lemma raw_atom j x : wfx x = true -> level x = 8 -> AtomA j x -> Raw j x.
Proof.
  intros W E H. apply raw_of_own; [exact W|]. rewrite E. intros n rest Hf _. unfold parser_at.
  apply H. apply (followA_of_follow (fl 8)), Hf.
Qed.

Lemma raw_index j x : wfx x = true -> level x = 7 -> IS j x -> Raw j x.
Proof.
  intros W E H. apply raw_of_own; [exact W|]. rewrite E. intros n rest Hf _. unfold parser_at.
  apply H; [apply (followA_of_follow (fl 7)), Hf|].
  intros n2 Hn2. destruct n2 as [|n2']; [lia|]. cbn [index_loop].
  rewrite (follow_no_tok (fl 7) rest "["); [reflexivity|left; reflexivity|exact Hf].
Qed.

Lemma raw_bin j L x : wfx x = true -> L <= 4 -> level x = S L -> BS j L x -> Raw j x.
Proof.
  intros W HL E H. apply raw_of_own; [exact W|]. rewrite E. intros n rest Hf Hlen.
  rewrite (parser_at_P j n L HL). rewrite (fl_small (S L)) in Hf by lia. replace (S L - 1) with L in Hf by lia.
  apply H; [apply follow_weaken; assumption|exact Hlen|].
  intros n2 Hn2 _. destruct n2 as [|n2']; [lia|]. apply chain_loop_stop. apply follow_stops; assumption.
Qed.

Theorem expressions_parse_back : forall N x, hgt x <= N -> wfx x = true -> Good x.
Proof.
  induction N as [|N IH]; intros x HN W.
  - (* height 0: literals and names *)
    apply good_intro; [exact W|]. intros j Hj.
    destruct x; cbn [wfx] in W; try discriminate; cbn [hgt] in HN; try lia.
    + assert (A : AtomA j (NInt i)).
      { intros rest _. rewrite (pp_at_raw 8) by (cbn; lia). cbn [pp S_ map app].
        apply atom_literal; [exact (not_special_is_val _ "(" KIntLit (int_not_special i W) eq_refl)|reflexivity|].
        intros k r. apply simple_int, W. }
      split; [apply raw_atom; [exact W|reflexivity|exact A]|apply ownsp_atom; [reflexivity|exact A]].
    + assert (A : AtomA j (NFloat f)).
      { intros rest _. rewrite (pp_at_raw 8) by (cbn; lia). cbn [pp S_ map app].
        apply atom_literal; [exact (not_special_is_val _ "(" KFloatLit (float_not_special f W) eq_refl)|reflexivity|].
        intros k r. apply simple_float, W. }
      split; [apply raw_atom; [exact W|reflexivity|exact A]|apply ownsp_atom; [reflexivity|exact A]].
    + assert (A : AtomA j (NStr s)).
      { intros rest _. rewrite (pp_at_raw 8) by (cbn; lia). cbn [pp S_ map app].
        apply atom_literal; [exact (not_special_is_val _ "(" KStringLit (quote_not_special s) eq_refl)|reflexivity|].
        intros k r. apply simple_str, W. }
      split; [apply raw_atom; [exact W|reflexivity|exact A]|apply ownsp_atom; [reflexivity|exact A]].
    + assert (A : AtomA j (NBool b)).
      { intros rest _. rewrite (pp_at_raw 8) by (cbn; lia). cbn [pp S_ map app].
        apply atom_literal; [destruct b; reflexivity|destruct b; reflexivity|]. intros k r. apply simple_bool. }
      split; [apply raw_atom; [exact W|reflexivity|exact A]|apply ownsp_atom; [reflexivity|exact A]].
    + assert (A : AtomA j (NName n)).
      { intros rest Hf. rewrite (pp_at_raw 8) by (cbn; lia). cbn [pp S_ map app]. apply atom_name; assumption. }
      split; [apply raw_atom; [exact W|reflexivity|exact A]|apply ownsp_atom; [reflexivity|exact A]].
  - destruct (Nat.le_gt_cases (hgt x) N) as [Hle|Hgt]; [apply IH; assumption|].
    apply good_intro; [exact W|]. intros j Hj.
    destruct x; cbn [wfx] in W; try discriminate; rewrite ?hgt_list, ?hgt_call in HN, Hgt, Hj; cbn [hgt] in HN, Hgt, Hj; try lia.
    + (* binary *)
      destruct (op_level op) as [lv|] eqn:Eop; [|discriminate]. apply andb_prop in W. destruct W as [W1 W2].
      destruct (op_level_spec op lv Eop) as [Hlv _].
      destruct lv as [|L]; [lia|].
      assert (B : BS j L (NBin op x1 x2)).
      { apply bs_bin; try assumption; try lia; apply IH; try assumption; lia. }
      assert (Wx : wfx (NBin op x1 x2) = true) by (cbn [wfx]; rewrite Eop, W1, W2; reflexivity).
      assert (Lx : level (NBin op x1 x2) = S L) by (cbn [level]; rewrite Eop; reflexivity).
      split; [apply (raw_bin j L); [exact Wx|lia|exact Lx|exact B]|].
      split; [rewrite Lx; lia|]. split; [rewrite Lx; lia|].
      intros L' HL' E'. rewrite Lx in E'. inversion E'; subst. exact B.
    + (* unary *)
      apply andb_prop in W. destruct W as [W1 W2].
      assert (Wx : wfx (NUn op x) = true) by (cbn [wfx]; rewrite W1, W2; reflexivity).
      split.
      * apply raw_of_own; [exact Wx|]. cbn [level]. apply own_un; [exact W1|exact W2|apply IH; [lia|exact W2]|lia].
      * split; [cbn [level]; lia|]. split; [cbn [level]; lia|]. intros L HL E. cbn [level] in E. lia.
    + (* index *)
      apply andb_prop in W. destruct W as [W1 W2].
      assert (Wx : wfx (NIndexAt x1 x2) = true) by (cbn [wfx]; rewrite W1, W2; reflexivity).
      assert (I : IS j (NIndexAt x1 x2)) by (apply is_index_at; try assumption; try lia; apply IH; try assumption; lia).
      split; [apply raw_index; [exact Wx|reflexivity|exact I]|].
      split; [cbn [level]; lia|]. split; [intros _; exact I|]. intros L HL E. cbn [level] in E. lia.
    + apply andb_prop in W. destruct W as [W1 W3]. apply andb_prop in W1. destruct W1 as [W1 W2].
      assert (Wx : wfx (NIndexFromTo x1 x2 x3) = true) by (cbn [wfx]; rewrite W1, W2, W3; reflexivity).
      assert (I : IS j (NIndexFromTo x1 x2 x3)) by (apply is_index_ft; try assumption; try lia; apply IH; try assumption; lia).
      split; [apply raw_index; [exact Wx|reflexivity|exact I]|].
      split; [cbn [level]; lia|]. split; [intros _; exact I|]. intros L HL E. cbn [level] in E. lia.
    + (* list *)
      assert (A : AtomA j (NList l)).
      { intros rest _. rewrite (pp_at_raw 8) by (cbn; lia). apply atom_list; [exact W|exact Hj|].
        intros y Hy j' Hj'. rewrite forallb_forall in W.
        destruct (IH y ltac:(pose proof (hgts_in y l Hy); lia) (W y Hy) j') as [R _]. apply R, Hj'. }
      split; [apply raw_atom; [exact W|reflexivity|exact A]|apply ownsp_atom; [reflexivity|exact A]].
    + (* call *)
      apply andb_prop in W. destruct W as [W1 W2]. destruct x; try discriminate. cbn [is_name_node] in W1.
      assert (A : AtomA j (NCall (NName n) args)).
      { intros rest _. rewrite (pp_at_raw 8) by (cbn; lia). apply atom_call; [exact W1|exact W2|exact Hj|].
        intros y Hy j' Hj'. rewrite forallb_forall in W2.
        destruct (IH y ltac:(pose proof (hgts_in y args Hy); lia) (W2 y Hy) j') as [R _]. apply R, Hj'. }
      assert (Wx : wfx (NCall (NName n) args) = true) by (cbn [wfx is_name_node]; rewrite W1, W2; reflexivity).
      split; [apply raw_atom; [exact Wx|reflexivity|exact A]|apply ownsp_atom; [reflexivity|exact A]].
Qed.

(* ---------- the round trip for expressions ---------- *)
Theorem expr_roundtrip : forall x rest fuel,
  wfx x = true -> follow 0 rest -> 5 * hgt x + 5 <= fuel ->
  p_expr fuel (S_ (pp x) ++ rest) = Got x rest.
Proof.
  intros x rest fuel W Hf Hfu.
  replace fuel with (5 + (fuel - 5)) by lia.
  pose proof (level_bounds x W) as [H1 _].
  rewrite <- (pp_at_raw 1 x H1).
  apply expr_of_raw; [exact W| |exact Hf].
  destruct (expressions_parse_back (hgt x) x (le_n _) W (fuel - 5)) as [R _]. apply R. lia.
Qed.

(* redundant parentheses do not matter: an expression printed with parentheses
   it does not need parses to the same tree, at every operand position *)
Theorem expr_roundtrip_parenthesised : forall x rest fuel,
  wfx x = true -> follow 0 rest -> 5 * hgt x + 10 <= fuel ->
  p_expr fuel (S_ ([tNs "("] ++ pp x ++ [tNs ")"]) ++ rest) = Got x rest.
Proof.
  intros x rest fuel W Hf Hfu.
  destruct (expressions_parse_back (hgt x) x (le_n _) W (fuel - 5)) as [_ F].
  destruct (F ltac:(lia)) as (_ & A & _).
  pose proof (level_bounds x W) as [H1 H8].
  replace fuel with (S (4 + (fuel - 5))) by lia. rewrite p_expr_P.
  set (ts := S_ ([tNs "("] ++ pp x ++ [tNs ")"]) ++ rest).
  change (P (4 + (fuel - 5)) (S (List.length ts)) 0 ts) with (parser_at (fuel - 5) (S (List.length ts)) 1 ts).
  apply (lift_parser (fuel - 5) (S (List.length ts)) 1 8); try lia.
  - unfold parser_at, ts.
    destruct (Nat.eq_dec (level x) 8) as [E|NE].
    + (* an atom in parentheses: parse the parenthesised form directly *)
      replace (S_ ([tNs "("] ++ pp x ++ [tNs ")"]) ++ rest) with (Some (tNs "(") :: S_ (pp x) ++ Some (tNs ")") :: rest)
        by (rewrite !S_app, <- !app_assoc; reflexivity).
      apply paren_atom; [exact W|lia| |apply (followA_of_follow 0), Hf].
      destruct (expressions_parse_back (hgt x) x (le_n _) W (fuel - 5 - 5)) as [R _].
      apply R; lia.
    + rewrite <- (pp_at_paren 8 x) by lia. apply A. apply (followA_of_follow 0), Hf.
  - exact Hf.
  - intros _ _. reflexivity.
Qed.
