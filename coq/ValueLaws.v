(* ValueLaws.v — further laws of the operator model (Value.v): logic, flip, not, shift counts.
   Proofs only; the statements a reader relies on are restated in PropC11.v. *)
Require Import Calc.Base Calc.Bytecode Calc.Value Calc.ValueProofs.
From Coq Require Import ZArith Bool Lia.
Open Scope Z_scope.

Lemma nil_or_type_comm a b : nil_or_type a b = nil_or_type b a.
Proof. unfold nil_or_type. rewrite orb_comm. reflexivity. Qed.

(* & and | are commutative on every operand pair, errors included *)
Lemma logic_comm op a b : Logic op a b = Logic op b a.
Proof.
  destruct a as [| x | x | x | x | x | x]; destruct b as [| y | y | y | y | y | y];
    try reflexivity; cbn [Logic].
  all: try (rewrite Z.land_comm, Z.lor_comm; reflexivity).
  all: try (rewrite andb_comm, orb_comm; reflexivity).
Qed.

Lemma logic_assoc_bool op x y z r1 r2 :
  Logic op (VBool x) (VBool y) = Ok r1 -> Logic op (VBool y) (VBool z) = Ok r2 ->
  Logic op r1 (VBool z) = Logic op (VBool x) r2.
Proof.
  cbn [Logic]. intros H1 H2. inversion H1; subst. inversion H2; subst. cbn [Logic].
  destruct (op =? AND); [rewrite andb_assoc|rewrite orb_assoc]; reflexivity.
Qed.

Lemma logic_assoc_int op x y z r1 r2 :
  Logic op (VInt x) (VInt y) = Ok r1 -> Logic op (VInt y) (VInt z) = Ok r2 ->
  Logic op r1 (VInt z) = Logic op (VInt x) r2.
Proof.
  cbn [Logic]. intros H1 H2. inversion H1; subst. inversion H2; subst. cbn [Logic].
  destruct (op =? AND); [rewrite Z.land_assoc|rewrite Z.lor_assoc]; reflexivity.
Qed.

(* ! and ~ are involutions wherever they are defined, and defined on exactly one type each *)
Lemma not_involutive a r : Not a = Ok r -> Not r = Ok a.
Proof. destruct a; cbn [Not]; intros H; inversion H; subst. cbn [Not]. rewrite negb_involutive. reflexivity. Qed.

Lemma flip_involutive a r : Flip a = Ok r -> Flip r = Ok a.
Proof. destruct a; cbn [Flip]; intros H; inversion H; subst. cbn [Flip]. f_equal. f_equal. lia. Qed.

Lemma not_defined_iff a : (exists r, Not a = Ok r) <-> (exists x, a = VBool x).
Proof.
  split; intros [r H].
  - destruct a; cbn [Not] in H; try discriminate H. eexists; reflexivity.
  - subst. eexists; reflexivity.
Qed.

Lemma flip_defined_iff a : (exists r, Flip a = Ok r) <-> (exists x, a = VInt x).
Proof.
  split; intros [r H].
  - destruct a; cbn [Flip] in H; try discriminate H. eexists; reflexivity.
  - subst. eexists; reflexivity.
Qed.

(* De Morgan, through the operators themselves *)
Lemma de_morgan_bool x y :
  Not (VBool (x && y)) = Logic OR (VBool (negb x)) (VBool (negb y)) /\
  Not (VBool (x || y)) = Logic AND (VBool (negb x)) (VBool (negb y)).
Proof. split; destruct x, y; reflexivity. Qed.

Lemma flip_is_complement x : Flip (VInt x) = Ok (VInt (Z.lnot x)).
Proof. cbn [Flip]. replace (Z.lnot x) with (- x - 1) by (unfold Z.lnot; lia). reflexivity. Qed.

(* a shift count outside 0..63 (a negative count included: it is read as uint64) gives 0, never an error *)
Lemma shift_count_out_of_range op x y :
  in_int64 y = true -> ~ (0 <= y < 64) -> Shift op (VInt x) (VInt y) = Ok (VInt 0).
Proof.
  intros Hr Hy. unfold in_int64, min_int, max_int in Hr. apply andb_prop in Hr. destruct Hr as [H1 H2].
  apply Z.leb_le in H1. apply Z.leb_le in H2. cbn [Shift].
  assert (E : u64 y >=? 64 = true).
  { unfold u64, two63, two64 in *. apply Z.geb_le.
    destruct (Z_lt_le_dec y 0) as [Hn|Hp].
    - replace (y mod 18446744073709551616) with (y + 18446744073709551616).
      + lia.
      + apply Z.mod_unique with (q := -1); lia.
    - rewrite Z.mod_small; lia. }
  rewrite E. reflexivity.
Qed.

(* shifting by zero is the identity on every 64-bit integer *)
Lemma shift_zero op x : in_int64 x = true -> Shift op (VInt x) (VInt 0) = Ok (VInt x).
Proof.
  intros Hr. unfold in_int64, min_int, max_int in Hr. apply andb_prop in Hr. destruct Hr as [H1 H2].
  apply Z.leb_le in H1. apply Z.leb_le in H2. cbn [Shift].
  change (u64 0) with 0. change (0 >=? 64) with false. cbv iota. change (2 ^ 0) with 1.
  rewrite Z.mul_1_r, Z.div_1_r.
  assert (Hu : 0 <= u64 x < two64) by (unfold u64, two64; apply Z.mod_pos_bound; lia).
  assert (Hw : wrap64 (u64 x) = x).
  { unfold wrap64, u64, two63, two64 in *.
    destruct (Z_lt_le_dec x 0) as [Hn|Hp].
    - replace (x mod 18446744073709551616) with (x + 18446744073709551616)
        by (apply Z.mod_unique with (q := -1); lia).
      replace ((x + 18446744073709551616 + 9223372036854775808) mod 18446744073709551616)
        with (x + 9223372036854775808)
        by (apply Z.mod_unique with (q := 1); lia).
      lia.
    - rewrite (Z.mod_small x) by lia.
      rewrite Z.mod_small by lia. lia. }
  destruct (op =? LSH).
  - rewrite Z.mod_small by exact Hu. rewrite Hw. reflexivity.
  - rewrite Hw. reflexivity.
Qed.

(* a shift never fails on two integers and its result is a 64-bit integer *)
Lemma shift_int_total op x y : exists r, Shift op (VInt x) (VInt y) = Ok (VInt r) /\ in_int64 r = true.
Proof.
  cbn [Shift]. eexists; split; [reflexivity|].
  unfold in_int64, min_int, max_int, wrap64.
  match goal with |- context [(?a + two63) mod two64] =>
    pose proof (Z.mod_pos_bound (a + two63) two64 ltac:(unfold two64; lia)) as Hb end.
  apply andb_true_intro; split; apply Z.leb_le; unfold two63, two64 in *; lia.
Qed.

(* ---- + on strings and arrays is associative with the empty value as unit; + and * on integers commute ---- *)
From Coq Require Import String List.

Lemma sappend_assoc (a b c : string) : ((a +++ b) +++ c) = (a +++ (b +++ c)).
Proof. induction a as [|ch a IH]; cbn [String.append]; [reflexivity|rewrite IH; reflexivity]. Qed.

Lemma sappend_empty_r (a : string) : (a +++ EmptyString) = a.
Proof. induction a as [|ch a IH]; cbn [String.append]; [reflexivity|rewrite IH; reflexivity]. Qed.

Lemma concat_assoc a b c ab bc :
  sliceable a -> Arith ADD a b = Ok ab -> Arith ADD b c = Ok bc -> Arith ADD ab c = Arith ADD a bc.
Proof.
  intros Hs H1 H2. destruct a; try (exfalso; exact Hs); destruct b; cbn [Arith] in H1; try discriminate H1;
    destruct c; cbn [Arith] in H2; try discriminate H2.
  all: change (ADD =? ADD) with true in *; cbv iota in *; inversion H1; subst; inversion H2; subst; cbn [Arith];
       change (ADD =? ADD) with true; cbv iota.
  - rewrite sappend_assoc. reflexivity.
  - rewrite <- app_assoc. reflexivity.
Qed.

Lemma concat_unit :
  (forall s, Arith ADD (VStr s) (VStr EmptyString) = Ok (VStr s) /\ Arith ADD (VStr EmptyString) (VStr s) = Ok (VStr s)) /\
  (forall l, Arith ADD (VArr l) (VArr nil) = Ok (VArr l) /\ Arith ADD (VArr nil) (VArr l) = Ok (VArr l)).
Proof.
  split; intros x; cbn [Arith]; change (ADD =? ADD) with true; cbv iota.
  - rewrite sappend_empty_r. split; reflexivity.
  - rewrite app_nil_r. split; reflexivity.
Qed.

Lemma int_add_mul_comm x y :
  Arith ADD (VInt x) (VInt y) = Arith ADD (VInt y) (VInt x) /\ Arith MUL (VInt x) (VInt y) = Arith MUL (VInt y) (VInt x).
Proof.
  cbn [Arith]. change (ADD =? DIV) with false. change (MUL =? DIV) with false. cbn [andb].
  unfold int_arith. change (ADD =? ADD) with true. change (MUL =? ADD) with false. change (MUL =? SUB) with false.
  change (MUL =? MUL) with true. cbv iota. rewrite (Z.add_comm x y), (Z.mul_comm x y). split; reflexivity.
Qed.

(* integer + is associative through the 64-bit wrap-around, so is * *)
Lemma wrap64_mod a b : a mod two64 = b mod two64 -> wrap64 a = wrap64 b.
Proof.
  intros H. unfold wrap64. f_equal.
  rewrite (Z.add_mod a two63 two64), (Z.add_mod b two63 two64), H by (unfold two64; lia). reflexivity.
Qed.

Lemma wrap64_mod_id a : (wrap64 a) mod two64 = a mod two64.
Proof.
  unfold wrap64.
  rewrite Zminus_mod, Zmod_mod, <- Zminus_mod. f_equal. lia.
Qed.

Lemma int_add_assoc x y z :
  int_arith ADD (int_arith ADD x y) z = int_arith ADD x (int_arith ADD y z).
Proof.
  unfold int_arith. change (ADD =? ADD) with true. cbv iota. apply wrap64_mod.
  rewrite (Z.add_mod (wrap64 (x + y)) z), wrap64_mod_id, <- Z.add_mod by (unfold two64; lia).
  rewrite (Z.add_mod x (wrap64 (y + z))), wrap64_mod_id, <- Z.add_mod by (unfold two64; lia).
  f_equal. lia.
Qed.

Lemma int_mul_assoc x y z :
  int_arith MUL (int_arith MUL x y) z = int_arith MUL x (int_arith MUL y z).
Proof.
  unfold int_arith. change (MUL =? ADD) with false. change (MUL =? SUB) with false. change (MUL =? MUL) with true.
  cbv iota. apply wrap64_mod.
  rewrite (Z.mul_mod (wrap64 (x * y)) z), wrap64_mod_id, <- Z.mul_mod by (unfold two64; lia).
  rewrite (Z.mul_mod x (wrap64 (y * z))), wrap64_mod_id, <- Z.mul_mod by (unfold two64; lia).
  f_equal. lia.
Qed.

Lemma int_sub_self_add_zero x : in_int64 x = true -> int_arith SUB x x = 0 /\ int_arith ADD x 0 = x.
Proof.
  intros Hr. unfold in_int64, min_int, max_int in Hr. apply andb_prop in Hr. destruct Hr as [H1 H2].
  apply Z.leb_le in H1. apply Z.leb_le in H2.
  unfold int_arith. change (SUB =? ADD) with false. change (SUB =? SUB) with true. change (ADD =? ADD) with true. cbv iota.
  rewrite Z.sub_diag, Z.add_0_r. unfold wrap64, two63, two64 in *. split.
  - reflexivity.
  - rewrite Z.mod_small; lia.
Qed.

(* ---- % : the remainder has the sign of the dividend and is smaller than the divisor in magnitude ---- *)
Lemma mod_sign_bound x y :
  in_int64 x = true -> in_int64 y = true -> y <> 0 ->
  exists r, Mod (VInt x) (VInt y) = Ok (VInt r) /\ r = Z.rem x y /\ Z.abs r < Z.abs y /\ 0 <= r * x /\
            x = y * Z.quot x y + r.
Proof.
  intros Hx Hy Hn. unfold in_int64, min_int, max_int in Hx, Hy.
  apply andb_prop in Hx. destruct Hx as [X1 X2]. apply Z.leb_le in X1. apply Z.leb_le in X2.
  apply andb_prop in Hy. destruct Hy as [Y1 Y2]. apply Z.leb_le in Y1. apply Z.leb_le in Y2.
  cbn [Mod]. destruct (y =? 0) eqn:E; [apply Z.eqb_eq in E; contradiction|].
  pose proof (Z.rem_bound_abs x y Hn) as Hb.
  pose proof (Z.rem_sign_mul x y Hn) as Hs.
  pose proof (Z.quot_rem' x y) as Hq.
  assert (Hw : wrap64 (Z.rem x y) = Z.rem x y).
  { unfold wrap64, two63, two64 in *. rewrite Z.mod_small; lia. }
  exists (Z.rem x y). rewrite Hw. split; [reflexivity|]. split; [reflexivity|]. split; [exact Hb|]. split; [exact Hs|exact Hq].
Qed.

(* ---- < on integers is a strict total order, <= its reflexive closure ---- *)
Lemma int_order x y z :
  int_rel LT x x = false /\ int_rel LE x x = true /\
  (int_rel LT x y = true -> int_rel LT y z = true -> int_rel LT x z = true) /\
  (int_rel LE x y = true -> int_rel LE y z = true -> int_rel LE x z = true) /\
  (int_rel LE x y = true -> int_rel LE y x = true -> x = y) /\
  (int_rel LT x y = true \/ x = y \/ int_rel GT x y = true).
Proof.
  unfold int_rel. change (LT =? LT) with true. change (LE =? LT) with false. change (LE =? GT) with false.
  change (LE =? LE) with true. change (GT =? LT) with false. change (GT =? GT) with true. cbv iota.
  rewrite Z.ltb_irrefl, Z.leb_refl. split; [reflexivity|]. split; [reflexivity|].
  split; [intros A B; apply Z.ltb_lt in A; apply Z.ltb_lt in B; apply Z.ltb_lt; lia|].
  split; [intros A B; apply Z.leb_le in A; apply Z.leb_le in B; apply Z.leb_le; lia|].
  split; [intros A B; apply Z.leb_le in A; apply Z.leb_le in B; lia|].
  destruct (Z.lt_trichotomy x y) as [H|[H|H]]; [left; apply Z.ltb_lt; exact H|right; left; exact H|right; right; apply Z.ltb_lt; exact H].
Qed.

(* ---- which error: an operator of these families fails only with the nil/type error of its operand pair
   (nil if either operand is absent, type otherwise), % in addition with division by zero ---- *)
Definition is_num (v : value) : bool := match v with VInt _ | VFloat _ => true | _ => false end.
Definition is_int (v : value) : bool := match v with VInt _ => true | _ => false end.
Definition is_boolv (v : value) : bool := match v with VBool _ => true | _ => false end.

Lemma relational_defined op a b :
  (is_num a && is_num b = true -> exists r, Relational op a b = Ok (VBool r)) /\
  (is_num a && is_num b = false -> Relational op a b = Fail (nil_or_type a b)).
Proof.
  split; intros H; destruct a, b; cbn in H; try discriminate H; cbn [Relational]; try reflexivity; eexists; reflexivity.
Qed.

Lemma logic_defined op a b :
  ((is_int a && is_int b) || (is_boolv a && is_boolv b) = true -> exists r, Logic op a b = Ok r) /\
  ((is_int a && is_int b) || (is_boolv a && is_boolv b) = false -> Logic op a b = Fail (nil_or_type a b)).
Proof.
  split; intros H; destruct a, b; cbn in H; try discriminate H; cbn [Logic]; try reflexivity; eexists; reflexivity.
Qed.

Lemma shift_defined op a b :
  (is_int a && is_int b = false -> Shift op a b = Fail (nil_or_type a b)).
Proof.
  intros H; destruct a, b; cbn in H; try discriminate H; cbn [Shift]; reflexivity.
Qed.

Lemma mod_defined a b :
  (is_int a && is_int b = false -> Mod a b = Fail (nil_or_type a b)) /\
  (forall e, Mod a b = Fail e -> e = ErrZeroDiv \/ e = nil_or_type a b).
Proof.
  split.
  - intros H; destruct a, b; cbn in H; try discriminate H; cbn [Mod]; reflexivity.
  - intros e H. destruct a, b; cbn [Mod] in H; try (right; inversion H; reflexivity).
    destruct (_ =? 0) in H; inversion H. left; reflexivity.
Qed.

Lemma nil_or_type_cases a b :
  (nil_or_type a b = ErrNil <-> (a = VNil \/ b = VNil)) /\ (nil_or_type a b = ErrNil \/ nil_or_type a b = ErrType).
Proof.
  unfold nil_or_type. split.
  - split.
    + intros H. destruct a; cbn in H; try (left; reflexivity); destruct b; cbn in H; try discriminate H; right; reflexivity.
    + intros [H|H]; subst; cbn; [reflexivity|]. rewrite Bool.orb_true_r. reflexivity.
  - destruct (is_nil a || is_nil b); [left|right]; reflexivity.
Qed.

Lemma geb_false a b : a < b -> (a >=? b) = false.
Proof. intros H. destruct (a >=? b) eqn:E; [apply Z.geb_le in E; lia|reflexivity]. Qed.

(* ---- indexing a concatenation of arrays: the left part below #a, the right part from #a on ---- *)
Lemma index_concat_arr (a b : list value) i :
  0 <= i < Z.of_nat (List.length a + List.length b) ->
  Index1 (VArr (a ++ b)) (VInt i) =
    if i <? Z.of_nat (List.length a) then Index1 (VArr a) (VInt i)
    else Index1 (VArr b) (VInt (i - Z.of_nat (List.length a))).
Proof.
  intros Hi. cbn [Index1 index_of]. rewrite app_length.
  assert (E0 : (i <? 0) = false) by (apply Z.ltb_ge; lia).
  assert (E1 : (i >=? Z.of_nat (List.length a + List.length b)) = false).
  { apply geb_false; lia. }
  rewrite E0, E1. cbn [orb].
  destruct (i <? Z.of_nat (List.length a)) eqn:El.
  - apply Z.ltb_lt in El.
    assert (E2 : (i >=? Z.of_nat (List.length a)) = false).
    { apply geb_false; lia. }
    rewrite E2. cbn [orb]. f_equal. apply app_nth1. lia.
  - apply Z.ltb_ge in El.
    assert (E3 : (i - Z.of_nat (List.length a) <? 0) = false) by (apply Z.ltb_ge; lia).
    assert (E4 : (i - Z.of_nat (List.length a) >=? Z.of_nat (List.length b)) = false).
    { apply geb_false; lia. }
    rewrite E3, E4. cbn [orb]. f_equal. rewrite app_nth2 by lia. f_equal. lia.
Qed.

(* the length of an array literal's value is the number of elements; Len never fails on strings and arrays *)
Lemma len_defined a :
  (sliceable a -> exists n, Len a = Ok (VInt n) /\ 0 <= n /\ n = vlen a) /\
  (~ sliceable a -> Len a = Fail (if is_nil a then ErrNil else ErrType)).
Proof.
  split.
  - intros Hs. destruct a; try (exfalso; exact Hs); cbn [Len vlen]; eexists; (split; [reflexivity|]); (split; [|reflexivity]).
    + unfold slen. lia.
    + lia.
  - intros Hs. destruct a; cbn [Len is_nil]; try reflexivity; exfalso; apply Hs; exact I.
Qed.
