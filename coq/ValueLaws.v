(* ValueLaws.v — further laws of the operator model (Value.v): logic, flip, not, shift counts.
   Proofs only; the statements a reader relies on are restated in PropC11.v. *)
Require Import Calc.Base Calc.Bytecode Calc.Value.
From Coq Require Import ZArith Bool Lia.
Open Scope Z_scope.

Lemma nil_or_type_comm a b : nil_or_type a b = nil_or_type b a.
Proof. unfold nil_or_type. rewrite orb_comm. reflexivity. Qed.

(* & and | are commutative on every operand pair, errors included *)
Lemma logic_comm op a b : Logic op a b = Logic op b a.
Proof.
  destruct a as [| x | x | x | x | x | x]; destruct b as [| y | y | y | y | y | y];
    try reflexivity; cbn [Logic].
  all: try (rewrite Z.land_comm, Z.lor_comm; reflexivity).
  all: try (rewrite andb_comm, orb_comm; reflexivity).
Qed.

Lemma logic_assoc_bool op x y z r1 r2 :
  Logic op (VBool x) (VBool y) = Ok r1 -> Logic op (VBool y) (VBool z) = Ok r2 ->
  Logic op r1 (VBool z) = Logic op (VBool x) r2.
Proof.
  cbn [Logic]. intros H1 H2. inversion H1; subst. inversion H2; subst. cbn [Logic].
  destruct (op =? AND); [rewrite andb_assoc|rewrite orb_assoc]; reflexivity.
Qed.

Lemma logic_assoc_int op x y z r1 r2 :
  Logic op (VInt x) (VInt y) = Ok r1 -> Logic op (VInt y) (VInt z) = Ok r2 ->
  Logic op r1 (VInt z) = Logic op (VInt x) r2.
Proof.
  cbn [Logic]. intros H1 H2. inversion H1; subst. inversion H2; subst. cbn [Logic].
  destruct (op =? AND); [rewrite Z.land_assoc|rewrite Z.lor_assoc]; reflexivity.
Qed.

(* ! and ~ are involutions wherever they are defined, and defined on exactly one type each *)
Lemma not_involutive a r : Not a = Ok r -> Not r = Ok a.
Proof. destruct a; cbn [Not]; intros H; inversion H; subst. cbn [Not]. rewrite negb_involutive. reflexivity. Qed.

Lemma flip_involutive a r : Flip a = Ok r -> Flip r = Ok a.
Proof. destruct a; cbn [Flip]; intros H; inversion H; subst. cbn [Flip]. f_equal. f_equal. lia. Qed.

Lemma not_defined_iff a : (exists r, Not a = Ok r) <-> (exists x, a = VBool x).
Proof.
  split; intros [r H].
  - destruct a; cbn [Not] in H; try discriminate H. eexists; reflexivity.
  - subst. eexists; reflexivity.
Qed.

Lemma flip_defined_iff a : (exists r, Flip a = Ok r) <-> (exists x, a = VInt x).
Proof.
  split; intros [r H].
  - destruct a; cbn [Flip] in H; try discriminate H. eexists; reflexivity.
  - subst. eexists; reflexivity.
Qed.

(* De Morgan, through the operators themselves *)
Lemma de_morgan_bool x y :
  Not (VBool (x && y)) = Logic OR (VBool (negb x)) (VBool (negb y)) /\
  Not (VBool (x || y)) = Logic AND (VBool (negb x)) (VBool (negb y)).
Proof. split; destruct x, y; reflexivity. Qed.

Lemma flip_is_complement x : Flip (VInt x) = Ok (VInt (Z.lnot x)).
Proof. cbn [Flip]. replace (Z.lnot x) with (- x - 1) by (unfold Z.lnot; lia). reflexivity. Qed.

(* a shift count outside 0..63 (a negative count included: it is read as uint64) gives 0, never an error *)
Lemma shift_count_out_of_range op x y :
  in_int64 y = true -> ~ (0 <= y < 64) -> Shift op (VInt x) (VInt y) = Ok (VInt 0).
Proof.
  intros Hr Hy. unfold in_int64, min_int, max_int in Hr. apply andb_prop in Hr. destruct Hr as [H1 H2].
  apply Z.leb_le in H1. apply Z.leb_le in H2. cbn [Shift].
  assert (E : u64 y >=? 64 = true).
  { unfold u64, two63, two64 in *. apply Z.geb_le.
    destruct (Z_lt_le_dec y 0) as [Hn|Hp].
    - replace (y mod 18446744073709551616) with (y + 18446744073709551616).
      + lia.
      + apply Z.mod_unique with (q := -1); lia.
    - rewrite Z.mod_small; lia. }
  rewrite E. reflexivity.
Qed.

(* shifting by zero is the identity on every 64-bit integer *)
Lemma shift_zero op x : in_int64 x = true -> Shift op (VInt x) (VInt 0) = Ok (VInt x).
Proof.
  intros Hr. unfold in_int64, min_int, max_int in Hr. apply andb_prop in Hr. destruct Hr as [H1 H2].
  apply Z.leb_le in H1. apply Z.leb_le in H2. cbn [Shift].
  change (u64 0) with 0. change (0 >=? 64) with false. cbv iota. change (2 ^ 0) with 1.
  rewrite Z.mul_1_r, Z.div_1_r.
  assert (Hu : 0 <= u64 x < two64) by (unfold u64, two64; apply Z.mod_pos_bound; lia).
  assert (Hw : wrap64 (u64 x) = x).
  { unfold wrap64, u64, two63, two64 in *.
    destruct (Z_lt_le_dec x 0) as [Hn|Hp].
    - replace (x mod 18446744073709551616) with (x + 18446744073709551616)
        by (apply Z.mod_unique with (q := -1); lia).
      replace ((x + 18446744073709551616 + 9223372036854775808) mod 18446744073709551616)
        with (x + 9223372036854775808)
        by (apply Z.mod_unique with (q := 1); lia).
      lia.
    - rewrite (Z.mod_small x) by lia.
      rewrite Z.mod_small by lia. lia. }
  destruct (op =? LSH).
  - rewrite Z.mod_small by exact Hu. rewrite Hw. reflexivity.
  - rewrite Hw. reflexivity.
Qed.

(* a shift never fails on two integers and its result is a 64-bit integer *)
Lemma shift_int_total op x y : exists r, Shift op (VInt x) (VInt y) = Ok (VInt r) /\ in_int64 r = true.
Proof.
  cbn [Shift]. eexists; split; [reflexivity|].
  unfold in_int64, min_int, max_int, wrap64.
  match goal with |- context [(?a + two63) mod two64] =>
    pose proof (Z.mod_pos_bound (a + two63) two64 ltac:(unfold two64; lia)) as Hb end.
  apply andb_true_intro; split; apply Z.leb_le; unfold two63, two64 in *; lia.
Qed.
