(* ResolveProofs.v — the static scoping rule the resolver implements (C04). *)
Require Import Calc.Base Calc.Bytecode Calc.Value Calc.Ast Calc.Resolve.
Open Scope Z_scope.

(* split_last of a table built by pushing a scope *)
Lemma split_last_app (t : symtbl) (s : scope) : split_last (t ++ [s]) = Some (t, s).
Proof.
  induction t as [|x t IH]; [reflexivity|].
  cbn [app split_last]. rewrite IH. destruct (t ++ [s]) eqn:E; [destruct t; discriminate|reflexivity].
Qed.

(* Reading a name: the function's own variable, else the variable of the
   immediately enclosing function, else the global.  Scopes further out are
   never consulted. *)
Theorem resolve_name_rule (outer2 : symtbl) (encl top : scope) (n : string) :
  resolve_name n ((outer2 ++ [encl]) ++ [top]) =
    Some (match scope_get top n with
          | Some ix => NLocal ix n
          | None => match scope_get encl n with
                    | Some ix => NClosure ix n
                    | None => NName n
                    end
          end, (outer2 ++ [encl]) ++ [top]).
Proof.
  unfold resolve_name. rewrite split_last_app.
  destruct (scope_get top n); [reflexivity|].
  rewrite split_last_app. destruct (scope_get encl n); reflexivity.
Qed.

Theorem resolve_name_one_scope (top : scope) (n : string) :
  resolve_name n [top] =
    Some (match scope_get top n with Some ix => NLocal ix n | None => NName n end, [top]).
Proof. unfold resolve_name. cbn. destruct (scope_get top n); reflexivity. Qed.

Theorem resolve_name_top_level (n : string) : resolve_name n [] = Some (NName n, []).
Proof. reflexivity. Qed.

(* scope_put / scope_get *)
Lemma scope_get_put_same s n v : scope_get (scope_put s n v) n = Some v.
Proof.
  induction s as [|[k w] s IH]; cbn.
  - rewrite String.eqb_refl. reflexivity.
  - destruct (String.eqb_spec k n) as [->|NE]; cbn.
    + rewrite String.eqb_refl. reflexivity.
    + destruct (String.eqb_spec k n); [contradiction|exact IH].
Qed.

Lemma scope_get_put_other s n m v : n <> m -> scope_get (scope_put s n v) m = scope_get s m.
Proof.
  intros NE. induction s as [|[k w] s IH]; cbn.
  - destruct (String.eqb_spec n m); [contradiction|reflexivity].
  - destruct (String.eqb_spec k n) as [->|NE0]; cbn.
    + destruct (String.eqb_spec n m); [contradiction|reflexivity].
    + destruct (String.eqb_spec k m); [reflexivity|exact IH].
Qed.

(* Writing a name inside a function always targets the function's own scope:
   an existing slot is reused, otherwise a fresh slot is appended; the
   enclosing scopes are left untouched. *)
Theorem slot_for_write_rule (outer : symtbl) (top : scope) (n : string) :
  slot_for_write n (outer ++ [top]) =
    Some (match scope_get top n with
          | Some ix => (ix, outer ++ [top])
          | None => (scope_len top, outer ++ [scope_put top n (scope_len top)])
          end).
Proof.
  unfold slot_for_write. rewrite split_last_app. destruct (scope_get top n); reflexivity.
Qed.

Lemma split_last_nonempty (s : scope) (t : symtbl) : exists o l, split_last (s :: t) = Some (o, l).
Proof.
  revert s. induction t as [|y t IH]; intros s; [exists [], s; reflexivity|].
  destruct (IH y) as (o & l & E). exists (s :: o), l.
  change (split_last (s :: y :: t)) with (match split_last (y :: t) with Some (o, l) => Some (s :: o, l) | None => None end).
  rewrite E. reflexivity.
Qed.

Lemma slot_for_write_total (s : scope) (t : symtbl) (n : string) :
  exists ix t', slot_for_write n (s :: t) = Some (ix, t').
Proof.
  unfold slot_for_write. destruct (split_last_nonempty s t) as (o & l & E). rewrite E.
  destruct (scope_get l n); eexists; eexists; reflexivity.
Qed.

(* an assignment inside a function (non-empty table) is rewritten to a local
   of that function; it never becomes a closure or global write *)
Theorem assign_in_function_is_local (t : symtbl) (n : string) (e e' : node) (s : scope) (t' : symtbl) :
  resolve e t = Some (e', s :: t') ->
  exists ix t'', slot_for_write n (s :: t') = Some (ix, t'') /\
                 resolve (NAssign (NName n) e) t = Some (NAssign (NLocal ix n) e', t'').
Proof.
  intros H. destruct (slot_for_write_total s t' n) as (ix & t'' & E).
  exists ix, t''. split; [exact E|].
  cbn [resolve]. unfold rbind. rewrite H. unfold rret. rewrite E. reflexivity.
Qed.

(* at top level names stay global, for reads and for writes *)
Theorem top_level_assign_is_global (n : string) (e e' : node) :
  resolve e [] = Some (e', []) ->
  resolve (NAssign (NName n) e) [] = Some (NAssign (NName n) e', []).
Proof. intros H. cbn [resolve]. unfold rbind. rewrite H. reflexivity. Qed.

(* parameters occupy the first slots in order *)
Example params_first_slots :
  strewrite (NFunction [NName "a"; NName "b"] (NBlock [NAssign (NName "c") (NName "a"); NBin "+" (NName "b") (NName "c")]) 0)
  = Some (NFunction [NLocal 0 "a"; NLocal 1 "b"]
            (NBlock [NAssign (NLocal 2 "c") (NLocal 0 "a"); NBin "+" (NLocal 1 "b") (NLocal 2 "c")]) 3).
Proof. reflexivity. Qed.

(* the Readme's three-level example: only the immediately enclosing scope is captured *)
Example only_one_level_is_captured :
  strewrite (NFunction [NName "x"] (NFunction [NName "y"] (NFunction [NName "z"]
              (NBin "+" (NBin "+" (NName "x") (NName "y")) (NName "z")) 0) 0) 0)
  = Some (NFunction [NLocal 0 "x"] (NFunction [NLocal 0 "y"] (NFunction [NLocal 0 "z"]
              (NBin "+" (NBin "+" (NName "x") (NClosure 0 "y")) (NLocal 0 "z")) 1) 1) 1).
Proof. reflexivity. Qed.
