(* StmtTwin.v — C08 on the proven fragment: what a statement does depends on the world only.  Two
   machines whose worlds agree — same global data, same unread input, the built-in names still bound to the
   built-ins — give every statement of every history the same value or error and write the same output,
   wherever their code and data lie, whatever their allocation counters are, whatever either wrote before
   (o1, o2) and whatever the dead part of their stacks holds.  A session that saw a failing statement and
   its twin that never did are such a pair. *)
Require Import Calc.Sem.
Require Import Calc.Base Calc.Bytecode Calc.BytecodeProofs Calc.Value Calc.FloatText Calc.Ast Calc.Resolve Calc.Compile Calc.VM
        Calc.MemProofs Calc.Session Calc.CompileWf
        Calc.ExprSem Calc.ExprVM Calc.ExprCorrect Calc.ExprTop Calc.ExprAssign Calc.ExprLen Calc.ExprSession
        Calc.StmtSem Calc.StmtRel Calc.StmtVM Calc.StmtCorrect Calc.StmtTop.
Require Import Lia.
Open Scope Z_scope.

Section Twin.
Variable Bf : ftab.
(* the bodies of the user functions read no function name as data *)
Hypothesis Hnob : forall nm body, ft_body Bf nm = Some body -> nobe Bf body = true.

Definition stuck (r : tree_result) : Prop := r = TRefused \/ r = TFuel.

Theorem stmt_relocation t mc1 c1 m1 mc2 c2 m2 o1 o2 n W1' res :
  bready Bf mc1 c1 m1 -> bready Bf mc2 c2 m2 ->
  wstmt t = true -> wfb t = true -> nobs Bf t = true ->
  wrel Bf Bf o1 o2 (wof (mc_vm mc1)) (wof (mc_vm mc2)) ->
  ssem Bf n (wof (mc_vm mc1)) t = Some (W1', res) ->
  stuck (snd (run_tree false mc1 t)) \/ stuck (snd (run_tree false mc2 t)) \/
  (tree_agrees (snd (run_tree false mc1 t)) res /\ tree_agrees (snd (run_tree false mc2 t)) res /\
   wrel Bf Bf o1 o2 (wof (mc_vm (fst (run_tree false mc1 t)))) (wof (mc_vm (fst (run_tree false mc2 t)))) /\
   (exists c m, bready Bf (fst (run_tree false mc1 t)) c m) /\
   (exists c m, bready Bf (fst (run_tree false mc2 t)) c m)).
Proof.
  intros R1 R2 Hw Hb Hn HR HM.
  destruct (ssem_related Bf Bf (fun _ => eq_refl) (fun _ => eq_refl) Hnob o1 o2 n t _ _ W1' res Hw Hn HR HM) as (W2' & HM2 & HR').
  pose proof (stmt_step Bf t mc1 c1 m1 n W1' res R1 Hw Hb HM) as S1.
  pose proof (stmt_step Bf t mc2 c2 m2 n W2' res R2 Hw Hb HM2) as S2.
  unfold stmt_outcome, stuck in *.
  destruct S1 as [S1|[S1|[A1 [G1 B1]]]]; [left; left; exact S1|left; right; exact S1|].
  destruct S2 as [S2|[S2|[A2 [G2 B2]]]]; [right; left; left; exact S2|right; left; right; exact S2|].
  right. right. split; [exact A1|]. split; [exact A2|]. split; [rewrite G1, G2; exact HR'|]. split; assumption.
Qed.

Fixpoint twins (o1 o2 : list string) (mc1 mc2 : machine) (ts : list node) : Prop :=
  match ts with
  | [] => True
  | t :: r =>
      forall n W1' res, ssem Bf n (wof (mc_vm mc1)) t = Some (W1', res) ->
        stuck (snd (run_tree false mc1 t)) \/ stuck (snd (run_tree false mc2 t)) \/
        (tree_agrees (snd (run_tree false mc1 t)) res /\ tree_agrees (snd (run_tree false mc2 t)) res /\
         wrel Bf Bf o1 o2 (wof (mc_vm (fst (run_tree false mc1 t)))) (wof (mc_vm (fst (run_tree false mc2 t)))) /\
         twins o1 o2 (fst (run_tree false mc1 t)) (fst (run_tree false mc2 t)) r)
  end.

Theorem twin_sessions : forall ts mc1 c1 m1 mc2 c2 m2 o1 o2,
  bready Bf mc1 c1 m1 -> bready Bf mc2 c2 m2 ->
  wrel Bf Bf o1 o2 (wof (mc_vm mc1)) (wof (mc_vm mc2)) ->
  Forall (fun t => wstmt t = true /\ wfb t = true /\ nobs Bf t = true) ts ->
  twins o1 o2 mc1 mc2 ts.
Proof.
  induction ts as [|t r IH]; intros mc1 c1 m1 mc2 c2 m2 o1 o2 R1 R2 HR Hall; [exact I|].
  inversion Hall as [|t' r' [Hw [Hb Hn]] Hrest]; subst. cbn [twins]. intros n W1' res HM.
  destruct (stmt_relocation t mc1 c1 m1 mc2 c2 m2 o1 o2 n W1' res R1 R2 Hw Hb Hn HR HM)
    as [S|[S|(A1 & A2 & HR' & [c1' [m1' R1']] & [c2' [m2' R2']])]]; [left; exact S|right; left; exact S|].
  right. right. split; [exact A1|]. split; [exact A2|]. split; [exact HR'|].
  exact (IH _ c1' m1' _ c2' m2' o1 o2 R1' R2' HR' Hrest).
Qed.

(* a failing statement leaves a machine ready for the next statement, its world the one the semantics
   says: the bindings and output completed before the failure, nothing else *)
Theorem stmt_failure_leaves_ready t mc c m n W' err :
  bready Bf mc c m -> wstmt t = true -> wfb t = true ->
  ssem Bf n (wof (mc_vm mc)) t = Some (W', Fail err) ->
  stuck (snd (run_tree false mc t)) \/
  (tree_agrees (snd (run_tree false mc t)) (Fail err) /\ wof (mc_vm (fst (run_tree false mc t))) = W' /\
   exists c' m', bready Bf (fst (run_tree false mc t)) c' m').
Proof.
  intros R Hw Hb HM. pose proof (stmt_step Bf t mc c m n W' (Fail err) R Hw Hb HM) as S.
  unfold stmt_outcome, stuck in *. destruct S as [S|[S|S]]; [left; left; exact S|left; right; exact S|right; exact S].
Qed.
End Twin.
