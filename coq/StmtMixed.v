(* StmtMixed.v — sessions of definitions and statements, the definitional semantics (Sem, through
   sem_tree) against the compiled code on the VM (run_tree): the two executable functions the
   correspondence check evaluates next to the real interpreter. *)
Require Import Calc.Sem.
Require Import Calc.Base Calc.Bytecode Calc.BytecodeProofs Calc.Value Calc.FloatText Calc.Ast Calc.Resolve Calc.Compile Calc.VM
        Calc.MemProofs Calc.Session Calc.CorrSession Calc.SemSession Calc.CompileWf
        Calc.ExprSem Calc.ExprVM Calc.ExprCorrect Calc.ExprTop Calc.ExprAssign Calc.ExprLen Calc.ExprSession
        Calc.LExprSem Calc.StmtSem Calc.StmtRel Calc.StmtVM Calc.CallVM Calc.StmtCorrect Calc.StmtTop Calc.StmtDef.
Require Import Lia.
Open Scope Z_scope.

(* ---- the allocation counter never goes back ---- *)
Lemma ucall_next_le B n W nm args W' r : ucall_sem B n W nm args = Some (W', r) -> w_next W <= w_next W'.
Proof.
  unfold ucall_sem. destruct (ft_body B nm) as [body|]; [|discriminate].
  destruct (Nat.leb (heights args) n && fun_eqb (gval (w_glob W) nm) (ft_val B nm)); [|discriminate].
  destruct (seq_res (den (w_glob W)) args) as [xs|err]; [|intros H; injection H as <- <-; lia].
  destruct (ft_arity B nm =? zlen args); [|intros H; injection H as <- <-; lia].
  destruct (lpure (repeat VNil (List.length args)) body && Nat.leb (height body) n); [|discriminate].
  destruct (lden xs (w_glob W) body) as [y|err].
  - destruct (is_fun y); [discriminate|]. intros H; injection H as <- <-. cbn [wbump w_next]. lia.
  - intros H; injection H as <- <-. cbn [wbump w_next]. lia.
Qed.

Theorem ssem_next_le B : forall n t W W' r, wstmt t = true -> ssem B n W t = Some (W', r) -> w_next W <= w_next W'.
Proof.
  induction n as [|n IH]; intros t W W' r Hw Hs; [discriminate Hs|].
  assert (Pure : (if Nat.leb (height t) (S n) then Some (W, den (w_glob W) t) else None) = Some (W', r) -> w_next W <= w_next W').
  { intros H. destruct (Nat.leb (height t) (S n)); [|discriminate H]. injection H as <- <-. lia. }
  destruct t; try (apply Pure; exact Hs); try discriminate Hw.
  - (* NIf *)
    cbn [wstmt] in Hw. apply andb_prop in Hw. destruct Hw as [Hc Hb'].
    cbn [ssem] in Hs. destruct (Nat.leb (height t1) n); [|discriminate Hs].
    destruct (cond_res (den (w_glob W) t1)) as [[|]|e].
    + exact (IH t2 W W' r Hb' Hs).
    + injection Hs as <- <-. lia.
    + injection Hs as <- <-. lia.
  - (* NIfElse *)
    cbn [wstmt] in Hw. apply andb_prop in Hw. destruct Hw as [Hw Hb2]. apply andb_prop in Hw. destruct Hw as [Hc Hb1].
    cbn [ssem] in Hs. destruct (Nat.leb (height t1) n); [|discriminate Hs].
    destruct (cond_res (den (w_glob W) t1)) as [[|]|e].
    + exact (IH t2 W W' r Hb1 Hs).
    + exact (IH t3 W W' r Hb2 Hs).
    + injection Hs as <- <-. lia.
  - (* NWhile *)
    cbn [wstmt] in Hw. apply andb_prop in Hw. destruct Hw as [Hc Hb'].
    rewrite ssem_while in Hs. destruct (Nat.leb (height t1) n); [|discriminate Hs].
    clear Pure. revert Hs. generalize VNil. generalize n at 2. intros k. revert W.
    induction k as [|k IHk]; intros W last Hs; [discriminate Hs|]. cbn [swhile_of] in *.
    destruct (cond_res (den (w_glob W) t1)) as [[|]|e].
    + destruct (ssem B n W t2) as [[Wa [v|e]]|] eqn:Eb; try discriminate Hs.
      * pose proof (IH t2 W Wa (Ok v) Hb' Eb). pose proof (IHk Wa v Hs). lia.
      * injection Hs as <- <-. exact (IH t2 W Wa (Fail e) Hb' Eb).
    + injection Hs as <- <-. lia.
    + injection Hs as <- <-. lia.
  - (* NAssign *)
    destruct t1; try discriminate Hw. cbn [wstmt] in Hw. unfold assign_ok in Hw.
    cbn [ssem] in Hs. destruct (pure t2) eqn:Hp2.
    + destruct (Nat.leb (height t2) n); [|discriminate Hs]. injection Hs as <- <-. cbn [wglob w_next]. lia.
    + cbn [orb] in Hw. assert (Hw2 : wstmt t2 = true) by (destruct t2; try discriminate Hw; exact Hw).
      destruct (ssem B n W t2) as [[Wa [y|err]]|] eqn:E2; try discriminate Hs.
      * pose proof (IH t2 W Wa (Ok y) Hw2 E2). destruct (is_nil y); injection Hs as <- <-; cbn [wglob w_next]; lia.
      * injection Hs as <- <-. exact (IH t2 W Wa (Fail err) Hw2 E2).
  - (* NBlock *)
    cbn [wstmt] in Hw. rewrite ssem_block in Hs.
    assert (Hall : forallb wstmt l = true) by (destruct l; [discriminate Hw|exact Hw]).
    clear Hw Pure. revert W Hs Hall.
    induction l as [|x l IHl]; intros W Hs Hall.
    + cbn [sblock_of] in *. injection Hs as <- <-. lia.
    + cbn [forallb] in Hall. apply andb_prop in Hall. destruct Hall as [Hx Hl].
      destruct l as [|y l'].
      * cbn [sblock_of] in *. exact (IH x W W' r Hx Hs).
      * rewrite sblock_cons2 in Hs.
        destruct (ssem B n W x) as [[Wa [v|e]]|] eqn:Ex; try discriminate Hs.
        -- pose proof (IH x W Wa (Ok v) Hx Ex). pose proof (IHl Wa Hs Hl). lia.
        -- injection Hs as <- <-. exact (IH x W Wa (Fail e) Hx Ex).
  - (* NCall *)
    destruct t; try discriminate Hw. destruct args as [|a [|a2 l]].
    + cbn [ssem] in Hs. destruct (String.eqb n0 "read") eqn:Er.
      2:{ destruct (bop_of_name n0) eqn:Eb; [discriminate Hs|]. exact (ucall_next_le B n W n0 [] W' r Hs). }
      destruct (Nat.leb 1 n && fun_eqb (gval (w_glob W) n0) (ft_val B n0)); [|discriminate Hs].
      injection Hs as <- <-. unfold read_sem. destruct (w_in W); cbn [fst wbump w_next]; lia.
    + cbn [ssem] in Hs. destruct (bop_of_name n0) as [b|] eqn:Eb.
      2:{ exact (ucall_next_le B n W n0 [a] W' r Hs). }
      destruct (Nat.leb (height a) n && Nat.leb 2 n && fun_eqb (gval (w_glob W) n0) (ft_val B n0)); [|discriminate Hs].
      destruct (den (w_glob W) a) as [x|err]; injection Hs as <- <-; [|lia].
      destruct b; cbn [bop_sem fst wbump wwrite w_next]; lia.
    + cbn [ssem] in Hs. destruct (bop_of_name n0) eqn:Eb; [discriminate Hs|].
      destruct (String.eqb n0 "read"); [discriminate Hs|].
      exact (ucall_next_le B n W n0 _ W' r Hs).
  - (* NWrite *)
    cbn [ssem] in Hs. destruct (Nat.leb (height t) n); [|discriminate Hs].
    destruct (den (w_glob W) t) as [x|err]; injection Hs as <- <-; cbn [wwrite w_next]; lia.
Qed.

(* ---- fewer function names: fewer expressions are excluded ---- *)
Definition names_le (B B' : ftab) : Prop := forall g, is_bname B g = true -> is_bname B' g = true.

Lemma nobe_mono_l B B' L : names_le B B' -> forall e, lpure L e = true -> nobe B' e = true -> nobe B e = true.
Proof.
  intros Hle. apply (lpure_induction L (fun e => nobe B' e = true -> nobe B e = true)); try reflexivity.
  - intros g H. cbn [nobe] in *. destruct (is_bname B g) eqn:E; [|reflexivity]. rewrite (Hle g E) in H. exact H.
  - intros op c l r _ _ _ IHl IHr H. cbn [nobe] in *. apply andb_prop in H. destruct H as [H1 H2].
    rewrite (IHl H1), (IHr H2). reflexivity.
  - intros op t _ _ IHt H. cbn [nobe] in *. exact (IHt H).
  - intros l _ HF H. cbn [nobe] in *. induction HF as [|x r Hx Hr IHr]; [reflexivity|].
    cbn [forallb] in *. apply andb_prop in H. destruct H as [H1 H2]. rewrite (Hx H1), (IHr H2). reflexivity.
  - intros a i _ _ IHa IHi H. cbn [nobe] in *. apply andb_prop in H. destruct H as [H1 H2].
    rewrite (IHa H1), (IHi H2). reflexivity.
  - intros a f t _ _ _ IHa IHf IHt H. cbn [nobe] in *. apply andb_prop in H. destruct H as [H H3].
    apply andb_prop in H. destruct H as [H1 H2]. rewrite (IHa H1), (IHf H2), (IHt H3). reflexivity.
Qed.

Lemma nobe_mono B B' : names_le B B' -> forall e, pure e = true -> nobe B' e = true -> nobe B e = true.
Proof. intros Hle e Hp. exact (nobe_mono_l B B' [] Hle e (lpure_nil e Hp)). Qed.

Lemma forallb_nobe_mono B B' : names_le B B' -> forall l, forallb pure l = true -> forallb (nobe B') l = true -> forallb (nobe B) l = true.
Proof.
  intros Hle. induction l as [|x r IH]; intros Hp H; [reflexivity|]. cbn [forallb] in *.
  apply andb_prop in Hp. destruct Hp as [P1 P2]. apply andb_prop in H. destruct H as [H1 H2].
  rewrite (nobe_mono B B' Hle x P1 H1), (IH P2 H2). reflexivity.
Qed.

Lemma nobs_mono B B' : names_le B B' -> forall t, wstmt t = true -> nobs B' t = true -> nobs B t = true.
Proof.
  intros Hle. apply (wstmt_induction (fun t => nobs B' t = true -> nobs B t = true)).
  - intros t Hp H. destruct t; try exact (nobe_mono B B' Hle _ Hp H); try discriminate Hp.
  - intros g e Hp H. cbn [nobs] in *. rewrite Hp in *. apply andb_prop in H. destruct H as [H1 H2].
    rewrite (nobe_mono B B' Hle e Hp H2), andb_true_r. apply negb_true_iff. apply negb_true_iff in H1.
    destruct (is_bname B g) eqn:E; [|reflexivity]. rewrite (Hle g E) in H1. discriminate H1.
  - intros g e Hp Hbc IHe H. cbn [nobs] in *. rewrite Hp in *. apply andb_prop in H. destruct H as [H1 H2].
    rewrite (IHe H2), andb_true_r. apply negb_true_iff. apply negb_true_iff in H1.
    destruct (is_bname B g) eqn:E; [|reflexivity]. rewrite (Hle g E) in H1. discriminate H1.
  - intros l _ Hall HF H. cbn [nobs] in *. clear Hall. induction HF as [|x r Hx Hr IHr]; [reflexivity|].
    cbn [forallb] in *. apply andb_prop in H. destruct H as [H1 H2]. rewrite (Hx H1), (IHr H2). reflexivity.
  - intros c b Hc _ IHb H. cbn [nobs] in *. apply andb_prop in H. destruct H as [H1 H2].
    rewrite (nobe_mono B B' Hle c Hc H1), (IHb H2). reflexivity.
  - intros c a b Hc _ _ IHa IHb H. cbn [nobs] in *. apply andb_prop in H. destruct H as [H H3].
    apply andb_prop in H. destruct H as [H1 H2]. rewrite (nobe_mono B B' Hle c Hc H1), (IHa H2), (IHb H3). reflexivity.
  - intros c b Hc _ IHb H. cbn [nobs] in *. apply andb_prop in H. destruct H as [H1 H2].
    rewrite (nobe_mono B B' Hle c Hc H1), (IHb H2). reflexivity.
  - intros e Hp H. cbn [nobs] in *. exact (nobe_mono B B' Hle e Hp H).
  - intros nm args Hp H. cbn [nobs] in *. exact (forallb_nobe_mono B B' Hle args Hp H).
Qed.

(* ---- the names of the session's functions, fixed in advance ---- *)
Definition BS (FN : list string) : ftab :=
  {| ft_val := fun _ => VNil; ft_body := fun nm => if existsb (String.eqb nm) FN then Some (NInt 0) else None;
     ft_arity := fun _ => 0 |}.

Lemma is_bname_add B f fv body k g :
  bop_of_name f = None -> is_bname (ft_add B f fv body k) g = (String.eqb g f || is_bname B g).
Proof.
  intros Hb. unfold is_bname. cbn [ft_add ft_body]. destruct (String.eqb_spec g f) as [->|N].
  - rewrite Hb. rewrite orb_true_r. reflexivity.
  - reflexivity.
Qed.

Lemma is_bname_BS FN g : In g FN -> is_bname (BS FN) g = true.
Proof.
  intros Hin. unfold is_bname. destruct (bop_of_name g); [reflexivity|]. cbn [BS ft_body].
  assert (E : existsb (String.eqb g) FN = true) by (apply existsb_exists; exists g; split; [exact Hin|apply String.eqb_refl]).
  rewrite E. apply orb_true_r.
Qed.

(* the two tables along a session: the same user functions on both sides, their names among FN, their
   bodies expressions that mention none of FN *)
Record tabs_ok (FN : list string) (B1 B2 : ftab) : Prop := {
  to_body : forall nm, ft_body B1 nm = ft_body B2 nm;
  to_arity : forall nm, ft_arity B1 nm = ft_arity B2 nm;
  to_names : names_le B1 (BS FN);
  to_nob : forall nm body, ft_body B1 nm = Some body -> nobe (BS FN) body = true /\ exists L, lpure L body = true }.

Lemma tabs_nob FN B1 B2 : tabs_ok FN B1 B2 -> forall nm body, ft_body B1 nm = Some body -> nobe B1 body = true.
Proof.
  intros [_ _ Hn Hb] nm body H. destruct (Hb nm body H) as [H1 [L H2]]. exact (nobe_mono_l B1 (BS FN) L Hn body H2 H1).
Qed.

Lemma tabs_add FN B1 B2 f fv1 fv2 body k L :
  tabs_ok FN B1 B2 -> bop_of_name f = None -> In f FN -> lpure L body = true -> nobe (BS FN) body = true ->
  tabs_ok FN (ft_add B1 f fv1 body k) (ft_add B2 f fv2 body k).
Proof.
  intros [Hbd Har Hn Hb] Hbop Hin Hl Hnb. constructor.
  - intros nm. cbn [ft_add ft_body]. destruct (String.eqb nm f); [reflexivity|apply Hbd].
  - intros nm. cbn [ft_add ft_arity]. destruct (String.eqb nm f); [reflexivity|apply Har].
  - intros g Hg. rewrite (is_bname_add B1 f fv1 body k g Hbop) in Hg. apply orb_prop in Hg. destruct Hg as [E|Hg].
    + apply String.eqb_eq in E. subst g. apply is_bname_BS. exact Hin.
    + exact (Hn g Hg).
  - intros nm body' H. cbn [ft_add ft_body] in H. destruct (String.eqb nm f).
    + injection H as <-. split; [exact Hnb|exists L; exact Hl].
    + exact (Hb nm body' H).
Qed.

Lemma fun_eqb_refl mo id : fun_eqb (VFun mo id) (VFun mo id) = true.
Proof. cbn [fun_eqb]. rewrite !Z.eqb_refl. reflexivity. Qed.

(* a definition on both sides keeps the worlds related, under the tables with one more entry each *)
Lemma wrel_def B1 B2 o1 o2 W1 W2 f mo1 id1 mo2 id2 body k :
  wrel B1 B2 o1 o2 W1 W2 -> bop_of_name f = None ->
  wrel (ft_add B1 f (VFun mo1 id1) body k) (ft_add B2 f (VFun mo2 id2) body k) o1 o2
       (wbump (wglob W1 (sassoc_set (w_glob W1) f (VFun mo1 id1))))
       (wbump (wglob W2 (sassoc_set (w_glob W2) f (VFun mo2 id2)))).
Proof.
  intros [Hg Ho Hi Hb] Hbop. constructor; cbn [wbump wglob w_glob w_out w_in]; try assumption.
  - intros g Hgn. rewrite (is_bname_add B1 f _ body k g Hbop) in Hgn. apply orb_false_iff in Hgn. destruct Hgn as [E Hgn].
    apply String.eqb_neq in E. rewrite !gval_set_other by (intros X; apply E; symmetry; exact X). exact (Hg g Hgn).
  - intros nm Hnm. rewrite (is_bname_add B1 f _ body k nm Hbop) in Hnm. cbn [ft_add ft_val].
    destruct (String.eqb_spec nm f) as [E|N].
    + rewrite E, !gval_set_same, !fun_eqb_refl. reflexivity.
    + cbn [orb] in Hnm. rewrite !gval_set_other by (intros X; apply N; symmetry; exact X). exact (Hb nm Hnm).
Qed.

(* ---- the state of the definitional semantics between the trees of a session ---- *)
Definition closfresh (st : sstate) : Prop := forall id, s_next st <= id -> assoc_get (s_clos st) id = None.
Definition sem_ok (B : ftab) (st : sstate) : Prop := sem_bf B st /\ closfresh st.

Lemma sem_bf_clos B st st' : s_clos st' = s_clos st -> sem_bf B st -> sem_bf B st'.
Proof. intros E [H1 [H2 H3]]. unfold sem_bf. rewrite E. split; [exact H1|split; [exact H2|exact H3]]. Qed.

Lemma sem_tree_stmt B t st W1' res :
  wstmt t = true -> sem_ok B st -> ssem B sem_fuel (wof_s st) t = Some (W1', res) ->
  snd (sem_tree st t) = ctl_of res /\ wof_s (fst (sem_tree st t)) = W1' /\ sem_ok B (fst (sem_tree st t)).
Proof.
  intros Hw [Hsb Hfr] HM. unfold sem_tree, strewrite. rewrite (resolve_wstmt t Hw).
  destruct (eval_stmt B sem_fuel t Hw env_top st W1' res Hsb HM) as (st' & E & HW & Hcl).
  rewrite E. cbn [run_top fst snd]. split; [reflexivity|]. split; [exact HW|]. split.
  - exact (sem_bf_clos B st st' Hcl Hsb).
  - intros id Hid. rewrite Hcl. apply Hfr.
    pose proof (ssem_next_le B sem_fuel t (wof_s st) W1' res Hw HM) as Hle. rewrite <- HW in Hle. cbn [wof_s w_next] in Hle. lia.
Qed.

Lemma sem_tree_def B d st :
  fdef_ok d -> sem_ok B st ->
  let fv := VFun 0 (s_next st) in
  let st' := fst (sem_tree st (fd_tree d)) in
  snd (sem_tree st (fd_tree d)) = CVal fv /\
  wof_s st' = wbump (wglob (wof_s st) (sassoc_set (s_globals st) (fd_name d) fv)) /\
  sem_ok (ft_add B (fd_name d) fv (fd_body d) (fd_lc d)) st'.
Proof.
  intros (H1 & H2 & H3 & H4 & H5) [Hsb Hfr]. cbv zeta. unfold sem_tree. rewrite H1. unfold fd_resolved.
  assert (Ef : exists n, sem_fuel = S (S n)) by (exists (Z.to_nat 2998); unfold sem_fuel; lia).
  destruct Ef as [n Ef]. rewrite Ef.
  destruct (eval_def B n (fd_name d) (fd_params d) (fd_body d) (fd_lc d) env_top st Hsb (Hfr _ (Z.le_refl _)) H4 H5 eq_refl)
    as (st' & E & HW & Hsb').
  cbv zeta in E, HW, Hsb'. rewrite E. cbn [run_top fst snd]. split; [reflexivity|]. split; [exact HW|]. split.
  - exact Hsb'.
  - (* the explicit state *)
    cbn [eval bind new_clos e_frame env_top assign is_nil] in E. injection E as <-.
    intros id Hid. cbn [set_global s_clos s_next] in *. unfold assoc_get. cbn [find fst].
    destruct (Z.eqb_spec (s_next st) id) as [X|X]; [lia|]. apply Hfr. lia.
Qed.

(* ================= the session theorem: Sem against the compiled code ================= *)
Definition item_ok2 (FN : list string) (i : item) : Prop :=
  item_ok i /\
  match i with
  | IStmt t => nobs (BS FN) t = true
  | IDef d => In (fd_name d) FN /\ nobe (BS FN) (fd_body d) = true
  end.

(* what is claimed of a list of trees, run by sem_tree on one side and by run_tree (compile, load, run,
   reset after an error) on the other — the two functions the correspondence check evaluates:
   - a statement to which the statement semantics gives a meaning (W1', res) with sem_tree's fuel: sem_tree
     ends with exactly that result and world; the compiled run ends with the same value or the same class of
     error and leaves a world related to W1' (same global data, same output, same input left), unless the
     tree is refused for size or the VM model's own step budget runs out;
   - a definition: sem_tree yields the closure under the fresh id; the compiled run yields the function
     value; the worlds stay related under the tables with one more entry each. *)
Fixpoint agree (o1 o2 : list string) (B1 B2 : ftab) (st : sstate) (mc : machine) (items : list item) : Prop :=
  match items with
  | [] => True
  | IStmt t :: r =>
      forall W1' res, ssem B1 sem_fuel (wof_s st) t = Some (W1', res) ->
        let st' := fst (sem_tree st t) in
        let mc' := fst (run_tree false mc t) in
        let tr := snd (run_tree false mc t) in
        snd (sem_tree st t) = ctl_of res /\ wof_s st' = W1' /\
        (tr = TRefused \/ tr = TFuel \/
         (tree_agrees tr res /\ wrel B1 B2 o1 o2 W1' (wof (mc_vm mc')) /\ agree o1 o2 B1 B2 st' mc' r))
  | IDef d :: r =>
      let st' := fst (sem_tree st (fd_tree d)) in
      let mc' := fst (run_tree false mc (fd_tree d)) in
      let tr := snd (run_tree false mc (fd_tree d)) in
      let fv1 := VFun 0 (s_next st) in
      let fv2 := fd_value mc d in
      let B1' := ft_add B1 (fd_name d) fv1 (fd_body d) (fd_lc d) in
      let B2' := ft_add B2 (fd_name d) fv2 (fd_body d) (fd_lc d) in
      snd (sem_tree st (fd_tree d)) = CVal fv1 /\
      (4294967296 <= ncs (mc_cs mc) + 1 \/ tr = TRefused \/
       (tr = TValue fv2 /\ wrel B1' B2' o1 o2 (wof_s st') (wof (mc_vm mc')) /\ agree o1 o2 B1' B2' st' mc' r))
  end.

Theorem agree_session FN o1 o2 : forall items B1 B2 st mc c m,
  tabs_ok FN B1 B2 -> sem_ok B1 st -> tready B2 mc c m ->
  wrel B1 B2 o1 o2 (wof_s st) (wof (mc_vm mc)) ->
  Forall (item_ok2 FN) items ->
  agree o1 o2 B1 B2 st mc items.
Proof.
  induction items as [|i r IH]; intros B1 B2 st mc c m HT Hs Hr HR Hall; [exact I|].
  inversion Hall as [|i' r' [Hi Hi2] Hrest]; subst. destruct i as [d|t]; cbn [agree].
  - (* a definition *)
    destruct Hi2 as [Hin Hnb]. pose proof Hi as (H1 & H2 & H3 & H4 & H5).
    destruct (sem_tree_def B1 d st Hi Hs) as (S1 & S2 & S3). cbv zeta in S1, S2, S3. cbv zeta.
    split; [exact S1|].
    destruct Hr as [Hr Hfp].
    destruct (Z.lt_ge_cases (ncs (mc_cs mc) + 1) 4294967296) as [Hbig|Hbig]; [|left; exact Hbig].
    right.
    destruct (def_step B2 (fd_tree d) (fd_name d) (fd_params d) (fd_body d) (fd_lc d) mc c m Hr Hfp Hbig H1 H2 H3 eq_refl H4 H5)
      as [Ref|[c' [m' (Hv & Hw & Hr' & Hfp')]]]; [left; exact Ref|].
    right. cbv zeta in Hv, Hw, Hr'. split; [exact Hv|].
    assert (HR' : wrel (ft_add B1 (fd_name d) (VFun 0 (s_next st)) (fd_body d) (fd_lc d))
                       (ft_add B2 (fd_name d) (fd_value mc d) (fd_body d) (fd_lc d)) o1 o2
                       (wof_s (fst (sem_tree st (fd_tree d)))) (wof (mc_vm (fst (run_tree false mc (fd_tree d)))))).
    { rewrite S2, Hw. exact (wrel_def B1 B2 o1 o2 _ _ (fd_name d) 0 (s_next st) _ _ (fd_body d) (fd_lc d) HR H4). }
    split; [exact HR'|].
    apply (IH _ _ _ _ c' m').
    + exact (tabs_add FN B1 B2 (fd_name d) _ _ (fd_body d) (fd_lc d) _ HT H4 Hin H3 Hnb).
    + exact S3.
    + split; [exact Hr'|exact Hfp'].
    + exact HR'.
    + exact Hrest.
  - (* a statement *)
    destruct Hi as [Hw Hb]. intros W1' res HM1. cbv zeta.
    destruct (sem_tree_stmt B1 t st W1' res Hw Hs HM1) as (S1 & S2 & S3).
    split; [exact S1|]. split; [exact S2|].
    assert (Hn : nobs B1 t = true) by exact (nobs_mono B1 (BS FN) (to_names _ _ _ HT) t Hw Hi2).
    destruct (ssem_related B1 B2 (to_body _ _ _ HT) (to_arity _ _ _ HT) (tabs_nob FN B1 B2 HT) o1 o2 sem_fuel t _ _ W1' res Hw Hn HR HM1)
      as (W2' & HM2 & HR').
    pose proof (stmt_step_fp B2 t mc c m sem_fuel W2' res Hr Hw Hb HM2) as S. unfold stmt_outcome in S.
    destruct S as [S|[S|[Ha [Hg [c' [m' Hr']]]]]]; [left; exact S|right; left; exact S|].
    right. right. split; [exact Ha|]. rewrite Hg. split; [exact HR'|].
    apply (IH _ _ _ _ c' m' HT S3 Hr'); [|exact Hrest]. rewrite S2, Hg. exact HR'.
Qed.

(* ---- helpers to discharge the premises on concrete states ---- *)
Lemma bop_name_cases nm b : bop_of_name nm = Some b ->
  (nm = "write"%string /\ b = BWrite) \/ (nm = "toa"%string /\ b = BToa) \/ (nm = "aton"%string /\ b = BAton).
Proof.
  unfold bop_of_name. destruct (String.eqb_spec nm "write") as [->|_]; [intros H; injection H as <-; auto|].
  destruct (String.eqb_spec nm "toa") as [->|_]; [intros H; injection H as <-; auto|].
  destruct (String.eqb_spec nm "aton") as [->|_]; [intros H; injection H as <-; auto|discriminate].
Qed.

Lemma closfresh_b st : forallb (fun p => fst p <? s_next st) (s_clos st) = true -> closfresh st.
Proof.
  intros H id Hid. induction (s_clos st) as [|[k c] r IH]; [reflexivity|].
  cbn [forallb fst] in H. apply andb_prop in H. destruct H as [H1 H2]. apply Z.ltb_lt in H1.
  cbn [assoc_get]. destruct (Z.eqb_spec k id) as [E|_]; [lia|]. exact (IH H2).
Qed.

Lemma gval_no_key G g : forallb (fun kv => negb (String.eqb (fst kv) g)) G = true -> gval G g = VNil.
Proof.
  unfold gval. induction G as [|[k x] r IH]; intros H; [reflexivity|]. cbn [forallb fst] in H. apply andb_prop in H.
  destruct H as [H1 H2]. cbn [sassoc_get]. apply negb_true_iff in H1. rewrite H1. exact (IH H2).
Qed.

(* two global tables all of whose keys are function names agree off the function names *)
Lemma gsame_keys B G1 G2 :
  forallb (fun kv => is_bname B (fst kv)) G1 = true -> forallb (fun kv => is_bname B (fst kv)) G2 = true -> gsame B G1 G2.
Proof.
  intros H1 H2 g Hg.
  assert (K : forall G, forallb (fun kv => is_bname B (fst kv)) G = true -> gval G g = VNil).
  { intros G H. apply gval_no_key. rewrite forallb_forall in *. intros kv Hin. specialize (H kv Hin).
    apply negb_true_iff. destruct (String.eqb_spec (fst kv) g) as [E|_]; [|reflexivity]. rewrite E, Hg in H. discriminate H. }
  rewrite (K G1 H1), (K G2 H2). reflexivity.
Qed.

(* ---- the function table of a machine or of a Sem state at top level: the four leaf built-ins with the values the
   globals bind them to; the other built-ins (exit and the generators) as function names without a value, so
   that no statement of the fragment may mention them and a call of them has no meaning in ssem ---- *)
Definition other_builtins : list string := ["exit"; "fromto"; "indices"; "elems"]%string.
Definition is_leaf (nm : string) : bool := match bop_of_name nm with Some _ => true | None => String.eqb nm "read" end.
Definition tab_of (G : list (string * value)) : ftab :=
  {| ft_val := fun nm => if is_leaf nm then gval G nm else VNil;
     ft_body := fun nm => if existsb (String.eqb nm) other_builtins then Some (NInt 0) else None;
     ft_arity := fun _ => 0 |}.

Lemma other_cases nm : existsb (String.eqb nm) other_builtins = true ->
  nm = "exit"%string \/ nm = "fromto"%string \/ nm = "indices"%string \/ nm = "elems"%string.
Proof.
  unfold other_builtins. cbn [existsb].
  destruct (String.eqb_spec nm "exit"); [auto|]. destruct (String.eqb_spec nm "fromto"); [auto|].
  destruct (String.eqb_spec nm "indices"); [auto|]. destruct (String.eqb_spec nm "elems"); [auto|]. discriminate.
Qed.

Lemma tab_names G nm : is_bname (tab_of G) nm = true ->
  nm = "write"%string \/ nm = "toa"%string \/ nm = "aton"%string \/ nm = "read"%string \/
  nm = "exit"%string \/ nm = "fromto"%string \/ nm = "indices"%string \/ nm = "elems"%string.
Proof.
  unfold is_bname. destruct (bop_of_name nm) as [b|] eqn:Eb.
  - intros _. destruct (bop_name_cases nm b Eb) as [[E _]|[[E _]|[E _]]]; subst nm; auto.
  - destruct (String.eqb_spec nm "read") as [->|_]; [auto 10|]. cbn [orb tab_of ft_body].
    destruct (existsb (String.eqb nm) other_builtins) eqn:E; [|discriminate]. intros _.
    destruct (other_cases nm E) as [->|[->|[->| ->]]]; auto 10.
Qed.

