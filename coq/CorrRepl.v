(* CorrRepl.v — C16: the inputs the real Loop hands to processInput against Repl.v. *)
Require Import Calc.Base Calc.Repl Calc.ReplProofs.
Open Scope Z_scope.

Fixpoint strs_eqb (a b : list string) : bool :=
  match a, b with
  | [], [] => true
  | x :: a', y :: b' => String.eqb x y && strs_eqb a' b'
  | _, _ => false
  end.

(* lines given one by one (REPL) *)
Definition chk_split (c : list string * list string) : bool := strs_eqb (loop_model (fst c)) (snd c).

(* a file's content through FReader *)
Definition chk_file (c : string * list string) : bool := strs_eqb (file_inputs (fst c)) (snd c).

(* a script built from statements: 0 fine; 2 a statement is not complete in the
   sense of the theorem (generator error); 1 the real Loop did not hand over
   exactly the statements; 3 the model did not (the theorem's instance fails) *)
Definition chk_script (c : list (list string) * bool * list string) : Z :=
  let '(stmts, final_nl, observed) := c in
  if negb (forallb (completes oc0 "") stmts) then 2
  else
    let want := map (joined "" "") stmts in
    let content := sconcat (sb [10]) want +++ (if final_nl then sb [10] else "") in
    if negb (strs_eqb observed want) then 1
    else if negb (strs_eqb (file_inputs content) want) then 3
    else 0.
