(* FloatComm.v — IEEE addition is commutative (binary64, Coq's primitive floats).
   From the specification axiom add_spec of the standard library and the
   definition of SFadd. *)
Require Import Floats ZArith Bool Lia.

Lemma SFadd_comm prec emax x y : SFadd prec emax x y = SFadd prec emax y x.
Proof.
  destruct x as [sx|sx| |sx mx ex]; destruct y as [sy|sy| |sy my ey]; cbn [SFadd]; try reflexivity.
  - destruct sx, sy; reflexivity.
  - destruct sx, sy; reflexivity.
  - rewrite Z.min_comm, Z.add_comm. reflexivity.
Qed.

Lemma float_add_comm x y : (x + y)%float = (y + x)%float.
Proof.
  apply Prim2SF_inj. rewrite !add_spec. unfold SF64add. apply SFadd_comm.
Qed.
