(* BuiltinProofs.v — contracts of the conversion built-ins (C17). *)
Require Import Calc.Base Calc.Bytecode Calc.Value Calc.FloatText Calc.Ast Calc.Compile Calc.VM Calc.Sem.
From Coq Require Import DecimalString DecimalZ DecimalPos DecimalN Decimal DecimalFacts.
Open Scope Z_scope.

Lemma udigits_of_nonnil (d : Decimal.uint) :
  d <> Decimal.Nil -> udigits (NilZero.string_of_uint d) = Some (Z.of_uint d).
Proof. intros H. unfold udigits. rewrite NilZero.usu by exact H. reflexivity. Qed.

(* the text of a non-empty digit sequence starts with a digit, never with a sign *)
Lemma atoi_unsigned_text (d : Decimal.uint) :
  d <> Decimal.Nil ->
  (match NilZero.string_of_uint d with
   | String "+" t => udigits t
   | String "-" t => option_map Z.opp (udigits t)
   | _ => udigits (NilZero.string_of_uint d)
   end) = udigits (NilZero.string_of_uint d).
Proof. intros H. destruct d; try congruence; reflexivity. Qed.

Lemma pos_to_uint_nonnil p : Pos.to_uint p <> Decimal.Nil.
Proof.
  intros H. pose proof (DecimalPos.Unsigned.of_to p) as E. rewrite H in E. cbn in E. discriminate.
Qed.

Lemma Z_of_uint_pos p : Z.of_uint (Pos.to_uint p) = Zpos p.
Proof. unfold Z.of_uint. rewrite DecimalPos.Unsigned.of_to. reflexivity. Qed.

(* aton(toa(n)) = n for every integer of the language *)
Theorem atoi_itoa (z : Z) : in_int64 z = true -> atoi (itoa z) = Some z.
Proof.
  intros Hr. unfold atoi, itoa. destruct z as [|p|p]; cbn [Z.to_int NilZero.string_of_int].
  - reflexivity.
  - rewrite (atoi_unsigned_text _ (pos_to_uint_nonnil p)).
    rewrite (udigits_of_nonnil _ (pos_to_uint_nonnil p)), Z_of_uint_pos, Hr. reflexivity.
  - rewrite (udigits_of_nonnil _ (pos_to_uint_nonnil p)), Z_of_uint_pos. cbn [option_map Z.opp].
    rewrite Hr. reflexivity.
Qed.

(* toa renders exactly what write prints (both instructions of the VM model,
   and both constructs of the semantics, use the one rendering function) *)
Theorem sem_toa_is_write_rendering n v e st st1 x :
  eval n v e st = Done st1 (CVal x) ->
  eval (S n) (NToa v) e st = Done st1 (CVal (VStr (to_string fmt_float x))) /\
  eval (S n) (NWrite v) e st = Done (emit_out st1 (to_string fmt_float x)) (CVal VNil).
Proof. intros H. cbn [eval]. rewrite H. split; reflexivity. Qed.

(* aton of a non-string is a type error, of text that is no number a conversion error *)
Theorem sem_aton_errors n v e st st1 x :
  eval n v e st = Done st1 (CVal x) ->
  (forall s, x <> VStr s) -> eval (S n) (NAton v) e st = Done st1 (CErr ErrType).
Proof.
  intros H Hx. cbn [eval]. rewrite H. cbn [bind]. destruct x; try reflexivity. exfalso. eapply Hx. reflexivity.
Qed.
