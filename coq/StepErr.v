(* StepErr.v — C19: where a runtime error report comes from. *)
Require Import Calc.Base Calc.Bytecode Calc.Value Calc.FloatText Calc.Compile Calc.VM.
Open Scope Z_scope.

Ltac brk :=
  match goal with
  | |- context [match ?x with _ => _ end] =>
      match x with
      | context [match _ with _ => _ end] => fail 1
      | _ => destruct x eqn:?
      end
  end.

(* an error is always attributed to the instruction being executed, in the context executing it *)
Lemma step_err_ip v r b v' cid ip e vals :
  step v r b = SErr v' cid ip e vals -> ip = r_ip r /\ cid = r_ctx r.
Proof.
  unfold step, lift, obind, req.
  repeat brk; intros H; try discriminate; try (inversion H; subst; auto).
Qed.

(* for the binary operators: the operands listed are the two fetched operands,
   and the class is what the operator says about exactly these *)
Lemma step_err_binop v r b v' cid ip e vals instr :
  znth (v_cs v) (r_ip r) = Some instr -> is_binop (OpCode instr) = true ->
  step v r b = SErr v' cid ip e vals ->
  exists x1 x0, vals = [x1; x0] /\ apply_binop (OpCode instr) x1 x0 = Fail e.
Proof.
  intros Hi Hb. unfold step, lift, obind, req. rewrite Hi. cbn iota. rewrite Hb.
  repeat brk; intros H; try discriminate; inversion H; subst; eauto.
Qed.

(* Run: an error result carries the report of the failing step and the machine is reset *)
Lemma run_loop_error fuel : forall v r b v1 e rep,
  run_loop fuel v r b = (v1, RError e rep) ->
  exists vm0 r0 v' vals,
    step vm0 r0 b = SErr v' (r_ctx r0) (r_ip r0) e vals /\
    rep = report_text v' (r_ctx r0) (r_ip r0) e vals /\ v1 = reset_after_error v'.
Proof.
  induction fuel as [|k IH]; intros v r b v1 e rep H; cbn [run_loop] in H; [discriminate|].
  destruct (r_ip r <? v_ncs v).
  - destruct (step v r b) as [v' r'|v' cid ip e' vals|w|c] eqn:S; try discriminate.
    + apply IH in H. exact H.
    + inversion H; subst. destruct (step_err_ip _ _ _ _ _ _ _ _ S) as [-> ->].
      exists v, r, v', vals. repeat split. exact S.
  - destruct (assoc_get (v_ctxs v) (r_ctx r)); [|discriminate].
    destruct b; [|discriminate]. destruct (vPop _ _) as [[v2 x]|]; discriminate.
Qed.

(* ---------- the report marks exactly the failing instruction ---------- *)
Lemma append_nil_r s : s +++ "" = s.
Proof. induction s as [|c s IH]; cbn; [reflexivity|]. rewrite IH. reflexivity. Qed.

Lemma append_assoc a b c : (a +++ b) +++ c = a +++ (b +++ c).
Proof. induction a as [|x a IH]; cbn; [reflexivity|]. rewrite IH. reflexivity. Qed.

Lemma concat_cons x l : String.concat "" (x :: l) = x +++ String.concat "" l.
Proof. destruct l as [|y l]; cbn; [rewrite append_nil_r; reflexivity|reflexivity]. Qed.

Lemma concat_app a b : String.concat "" (a ++ b) = String.concat "" a +++ String.concat "" b.
Proof.
  induction a as [|x a IH]; [reflexivity|]. cbn [app]. rewrite !concat_cons, IH, append_assoc. reflexivity.
Qed.

Definition listing_line (v : vm) (ip : Z) (args : string) (i : Z) : string :=
  match znth (v_cs v) i with
  | Some w =>
      if i =? ip then "--> " +++ itoa i +++ ": " +++ instr_string w +++ "; " +++ args +++ sb [10]
      else "    " +++ itoa i +++ ": " +++ instr_string w +++ sb [10]
  | None => ""
  end.

Lemma report_text_shape v cid ip e vals :
  report_text v cid ip e vals =
  "RUNTIME ERROR : " +++ err_text e +++ sb [10] +++
  String.concat "" (map (listing_line v ip (sconcat ", " (map (abbrev fmt_float) vals)))
                        (map (fun i => Z.max 0 (ip - 3) + Z.of_nat i) (seq 0 (Z.to_nat (Z.min (v_ncs v) (ip + 3) - Z.max 0 (ip - 3)))))) +++
  dump_ctx_chain ctx_fuel v cid.
Proof. reflexivity. Qed.

Lemma seq_split k n : (k < n)%nat -> seq 0 n = seq 0 k ++ k :: seq (S k) (n - S k).
Proof.
  intros H. replace n with (k + (1 + (n - S k)))%nat at 1 by lia.
  rewrite seq_app. cbn [Nat.add]. f_equal.
Qed.

(* the listing: lines before, the marked line of the failing instruction with
   the operand values, lines after; no other line is marked *)
Theorem report_marks_the_failing_instruction v cid ip e vals w :
  0 <= ip < v_ncs v -> znth (v_cs v) ip = Some w ->
  exists before after,
    report_text v cid ip e vals =
      "RUNTIME ERROR : " +++ err_text e +++ sb [10] +++
      (String.concat "" (map (listing_line v ip (sconcat ", " (map (abbrev fmt_float) vals))) before) +++
       ("--> " +++ itoa ip +++ ": " +++ instr_string w +++ "; " +++ sconcat ", " (map (abbrev fmt_float) vals) +++ sb [10]) +++
       String.concat "" (map (listing_line v ip (sconcat ", " (map (abbrev fmt_float) vals))) after)) +++
      dump_ctx_chain ctx_fuel v cid /\
    ~ In ip before /\ ~ In ip after.
Proof.
  intros Hip Hw. rewrite report_text_shape.
  set (start := Z.max 0 (ip - 3)). set (stop := Z.min (v_ncs v) (ip + 3)).
  set (n := Z.to_nat (stop - start)). set (k := Z.to_nat (ip - start)).
  assert (Hk : (k < n)%nat) by (unfold k, n, start, stop; lia).
  set (f := fun i : nat => start + Z.of_nat i).
  exists (map f (seq 0 k)), (map f (seq (S k) (n - S k))).
  split.
  - rewrite (seq_split k n Hk), !map_app. cbn [map]. rewrite concat_app, concat_cons.
    assert (Ek : f k = ip) by (unfold f, k, start; lia). rewrite Ek.
    unfold listing_line at 2. rewrite Hw, Z.eqb_refl. reflexivity.
  - split; intros Hin; apply in_map_iff in Hin; destruct Hin as (i & Ei & Hi); apply in_seq in Hi; unfold f, k, start in *; lia.
Qed.

(* ---------- the code the report lists is the code that ran ---------- *)
Lemma fetch_code v mid s a v0 x :
  fetch v mid s a = Good (v0, x) -> v_cs v0 = v_cs v /\ v_ncs v0 = v_ncs v.
Proof.
  unfold fetch, vPop, read_frame, get_mem, obind, req.
  repeat brk; intros H; try discriminate; inversion H; subst; cbn; auto;
    repeat match goal with |- context [if ?b then _ else _] => destruct b end; cbn; auto.
Qed.

Lemma step_err_code v r b v' cid ip e vals :
  step v r b = SErr v' cid ip e vals -> v_cs v' = v_cs v /\ v_ncs v' = v_ncs v.
Proof.
  unfold step, lift, obind, req.
  repeat brk; intros H; try discriminate; inversion H; subst;
    repeat match goal with Hf : fetch _ _ _ _ = Good (_, _) |- _ => apply fetch_code in Hf; destruct Hf end;
    split; congruence.
Qed.

(* Run: the report of an error marks the instruction whose execution failed *)
Theorem run_error_report_marks_failing_step fuel v r b v1 e rep :
  run_loop fuel v r b = (v1, RError e rep) ->
  exists vm0 r0 v' vals w before after,
    step vm0 r0 b = SErr v' (r_ctx r0) (r_ip r0) e vals /\
    znth (v_cs vm0) (r_ip r0) = Some w /\
    rep = "RUNTIME ERROR : " +++ err_text e +++ sb [10] +++
          (String.concat "" (map (listing_line v' (r_ip r0) (sconcat ", " (map (abbrev fmt_float) vals))) before) +++
           ("--> " +++ itoa (r_ip r0) +++ ": " +++ instr_string w +++ "; " +++ sconcat ", " (map (abbrev fmt_float) vals) +++ sb [10]) +++
           String.concat "" (map (listing_line v' (r_ip r0) (sconcat ", " (map (abbrev fmt_float) vals))) after)) +++
          dump_ctx_chain ctx_fuel v' (r_ctx r0) /\
    ~ In (r_ip r0) before /\ ~ In (r_ip r0) after /\ v1 = reset_after_error v'.
Proof.
  revert v r b v1 e rep. induction fuel as [|k IH]; intros v r b v1 e rep H; cbn [run_loop] in H; [discriminate|].
  destruct (r_ip r <? v_ncs v) eqn:Hlt.
  - destruct (step v r b) as [v' r'|v' cid ip e' vals|w|c] eqn:S; try discriminate.
    + apply IH in H. exact H.
    + inversion H; subst. destruct (step_err_ip _ _ _ _ _ _ _ _ S) as [-> ->].
      destruct (step_err_code _ _ _ _ _ _ _ _ S) as [Ecs Encs].
      assert (Hw : exists w, znth (v_cs v) (r_ip r) = Some w).
      { unfold step, lift, obind, req in S. destruct (znth (v_cs v) (r_ip r)) as [w|]; [eauto|discriminate]. }
      destruct Hw as [w Hw].
      assert (Hnn : 0 <= r_ip r) by (unfold znth in Hw; destruct (Z.ltb_spec (r_ip r) 0); [discriminate|lia]).
      apply Z.ltb_lt in Hlt.
      destruct (report_marks_the_failing_instruction v' (r_ctx r) (r_ip r) e vals w) as (before & after & Erep & Nb & Na).
      { rewrite Encs. lia. }
      { rewrite Ecs. exact Hw. }
      exists v, r, v', vals, w, before, after. repeat split; assumption.
  - destruct (assoc_get (v_ctxs v) (r_ctx r)); [|discriminate].
    destruct b; [|discriminate]. destruct (vPop _ _) as [[v2 x]|]; discriminate.
Qed.
