(* CompileWf.v — the shape of the trees the parser and the resolver hand to the
   compiler (what CompileProofs.v assumes; evaluated on every tree of C05's run). *)
Require Import Calc.Base Calc.Bytecode Calc.Value Calc.FloatText Calc.Ast Calc.Compile.
Open Scope Z_scope.

Definition is_var (n : node) : bool := match n with NName _ | NLocal _ _ | NClosure _ _ => true | _ => false end.


(* ---------- the trees the parser and the resolver produce ---------- *)
Fixpoint wfc (n : node) : bool :=
  let wfb (b : node) := match b with NBlock l => forallb wfc l | _ => wfc b end in
  match n with
  | NInvalid => false
  | NInt _ | NFloat _ | NStr _ | NBool _ | NName _ | NLocal _ _ | NClosure _ _ => true
  | NList l => forallb wfc l
  | NFunction _ b _ => wfb b
  | NCall name args => is_var name && forallb wfc args
  | NReturn t => wfc t
  | NYield t => wfc t
  | NAssign v e => is_var v && wfc e
  | NBin op l r => (match binop_opcode op with Some _ => true | None => false end) && wfc l && wfc r
  | NUn op t => (String.eqb op "-" || String.eqb op "#" || String.eqb op "!" || String.eqb op "~") && wfc t
  | NBlock _ => false
  | NIf c t => wfc c && wfb t
  | NIfElse c t f => wfc c && wfb t && wfb f
  | NWhile c b => wfc c && wfb b
  | NFor vars iters b =>
      Nat.eqb (List.length vars) (List.length iters) && forallb is_var vars && forallb wfc iters && wfb b
  | NIndexAt a i => wfc a && wfc i
  | NIndexFromTo a f t => wfc a && wfc f && wfc t
  | NRead => true
  | NWrite v => wfc v
  | NAton v => wfc v
  | NToa v => wfc v
  | NExit v => wfc v
  end.

Definition wfb (b : node) : bool := match b with NBlock l => forallb wfc l | _ => wfc b end.

