(* Grammar.v — model of parser/parser.go + transformer.go + token_wrapper.go:
   the calc grammar as ordered-choice recursive descent on the token list the
   lexer model produces, building Ast.node trees.

   Each function mirrors the combinator expression of the same name in
   parser.go under the specification semantics of the combinators (run_spec in
   Comb.v: ordered choice, gates with lookahead, Any = greedy repetition whose
   body must succeed once its gate did).  C13 ties the combinators to that
   semantics; the correspondence run of C07 ties this file to parser.Parse. *)
Require Import Calc.Base Calc.Bytecode Calc.Value Calc.FloatText Calc.Ast Calc.Lexer.
Open Scope Z_scope.

(* a token as the parser sees it: kind and text (the grammar never looks at
   positions); None stands for a lexer error entry *)
Record gtok := { g_kind : kind; g_value : string }.
Definition tok := option gtok.

Definition toks_of_lexres (rs : list lexres) : list tok :=
  map (fun r => match r_err r with
                | Some _ => None
                | None => Some {| g_kind := t_kind (r_token r); g_value := t_value (r_token r) |}
                end) rs.

Inductive pr (A : Type) :=
| Got (a : A) (rest : list tok)
| Bad
| Out.                                  (* fuel exhausted: never on the fuel the checks give *)
Arguments Got {A}. Arguments Bad {A}. Arguments Out {A}.

Definition keywords : list string := ["if"; "else"; "while"; "for"; "return"; "yield"; "true"; "false"].

Definition str_in (s : string) (l : list string) : bool := existsb (String.eqb s) l.

(* c.Accept with a predicate *)
Definition accept (p : gtok -> bool) (ts : list tok) : pr gtok :=
  match ts with
  | Some t :: r => if p t then Got t r else Bad
  | _ => Bad
  end.

Definition is_val (v : string) (t : gtok) : bool := String.eqb (g_value t) v.
Definition is_kind (k : kind) (t : gtok) : bool := kind_eqb (g_kind t) k.
Definition is_varname (t : gtok) : bool := is_kind KName t && negb (str_in (g_value t) keywords).
Definition is_intlit (t : gtok) : bool :=
  is_kind KIntLit t && match atoi (g_value t) with Some _ => true | None => false end.
Definition is_floatlit (t : gtok) : bool :=
  is_kind KFloatLit t && match parse_float (g_value t) with PFOk _ => true | _ => false end.

(* does the input start with a token of this text (Assert(acceptToken v)) *)
Definition peek_val (v : string) (ts : list tok) : bool :=
  match ts with Some t :: _ => is_val v t | _ => false end.

(* eols = Any(eol); eols1 = And(eol, eols) *)
Fixpoint skip_eols (ts : list tok) : list tok :=
  match ts with
  | Some t :: r => if is_kind KEOL t then skip_eols r else ts
  | _ => ts
  end.
Definition eols1 (ts : list tok) : pr unit :=
  match ts with
  | Some t :: r => if is_kind KEOL t then Got tt (skip_eols r) else Bad
  | _ => Bad
  end.

(* strings.ReplaceAll(s, "\\\"", "\"") *)
Fixpoint unescape_quotes (s : string) : string :=
  match s with
  | String "\" (String """" r) => String """" (unescape_quotes r)
  | String c r => String c (unescape_quotes r)
  | EmptyString => EmptyString
  end.

Definition wrap_string (v : string) : string :=
  let s := unescape_quotes v in
  ssub s 1 (slen s - 1).

(* SeparatedBy(varName, ","): zero or more names; a separator not followed by a name is given back *)
Fixpoint names_tail (n : nat) (ts : list tok) (acc : list node) : list node * list tok :=
  match n with
  | O => (acc, ts)
  | S n' =>
      match ts with
      | Some c :: Some t :: r =>
          if is_val "," c && is_varname t then names_tail n' r (acc ++ [NName (g_value t)]) else (acc, ts)
      | _ => (acc, ts)
      end
  end.

Definition names_sep (ts : list tok) : list node * list tok :=
  match ts with
  | Some t :: r => if is_varname t then names_tail (List.length r) r [NName (g_value t)] else ([], ts)
  | _ => ([], ts)
  end.

(* parameters = mkList(SurroundedBy("(", SeparatedBy(varName, ","), ")")) *)
Definition parameters (ts : list tok) : pr (list node) :=
  match accept (is_val "(") ts with
  | Got _ r =>
      let (ns, r1) := names_sep r in
      match accept (is_val ")") r1 with
      | Got _ r2 => Got ns r2
      | Bad => Bad | Out => Out
      end
  | Bad => Bad | Out => Out
  end.

(* And(varName, Any(Drop(","), varName)) of forLoop: once a comma is taken a name must follow *)
Fixpoint for_names_tail (n : nat) (ts : list tok) (acc : list node) : pr (list node) :=
  match n with
  | O => Out
  | S n' =>
      match ts with
      | Some c :: r =>
          if is_val "," c then
            match accept is_varname r with
            | Got t r1 => for_names_tail n' r1 (acc ++ [NName (g_value t)])
            | Bad => Bad | Out => Out
            end
          else Got acc ts
      | _ => Got acc ts
      end
  end.

Definition level_ops (lvl : nat) : list string :=
  match lvl with
  | 0%nat => ["&&"; "||"]
  | 1%nat => ["=="; "!="; "<="; ">="; "<"; ">"]
  | 2%nat => ["&"; "|"]
  | 3%nat => ["+"; "-"]
  | _ => ["*"; "/"; "%"; "<<"; ">>"]
  end.
Definition unary_ops : list string := ["-"; "#"; "!"; "~"].

Definition tok_in (ops : list string) (t : gtok) : bool := str_in (g_value t) ops.

Section Chains.
  Variable sub : list tok -> pr node.
  (* Any(Conditional{Gate: OneOf(ops), OnSuccess: sub}) folded by mkLeftChain *)
  Fixpoint chain_loop (n : nat) (ops : list string) (acc : node) (ts : list tok) : pr node :=
    match n with
    | O => Out
    | S n' =>
        match accept (tok_in ops) ts with
        | Got t r =>
            match sub r with
            | Got e r' => chain_loop n' ops (NBin (g_value t) acc e) r'
            | Bad => Bad | Out => Out
            end
        | _ => Got acc ts
        end
    end.
  Definition chain (n : nat) (ops : list string) (ts : list tok) : pr node :=
    match sub ts with
    | Got e r => chain_loop n ops e r
    | Bad => Bad | Out => Out
    end.
End Chains.

Section Lists.
  Variable expr : list tok -> pr node.
  (* SeparatedBy(expression, sep) where sep = "," optionally followed by eols *)
  Fixpoint exprs_tail (n : nat) (eols_after_comma : bool) (ts : list tok) (acc : list node) : pr (list node) :=
    match n with
    | O => Out
    | S n' =>
        match accept (is_val ",") ts with
        | Got _ r =>
            match expr (if eols_after_comma then skip_eols r else r) with
            | Got e r' => exprs_tail n' eols_after_comma r' (acc ++ [e])
            | Bad => Got acc ts            (* separator and failed element are rolled back *)
            | Out => Out
            end
        | _ => Got acc ts
        end
    end.
  Definition exprs_sep (n : nat) (eols_after_comma : bool) (ts : list tok) : pr (list node) :=
    match expr ts with
    | Got e r => exprs_tail n eols_after_comma r [e]
    | Bad => Got [] ts
    | Out => Out
    end.
  (* And(expression, Any(Drop(","), expression)) of forLoop *)
  Fixpoint for_exprs_tail (n : nat) (ts : list tok) (acc : list node) : pr (list node) :=
    match n with
    | O => Out
    | S n' =>
        match accept (is_val ",") ts with
        | Got _ r =>
            match expr r with
            | Got e r' => for_exprs_tail n' r' (acc ++ [e])
            | Bad => Bad | Out => Out
            end
        | _ => Got acc ts
        end
    end.
End Lists.

Section IndexLoop.
  Variable expr : list tok -> pr node.
  (* Any(Gate: Assert("["), OnSuccess: indexInner) folded by mkIndex *)
  Fixpoint index_loop (n : nat) (acc : node) (ts : list tok) : pr node :=
    match n with
    | O => Out
    | S n' =>
        if peek_val "[" ts then
          match ts with
          | _ :: r1 =>
              match expr r1 with
              | Got e1 r2 =>
                  match accept (is_val ":") r2 with
                  | Got _ r3 =>
                      match expr r3 with
                      | Got e2 r4 =>
                          match accept (is_val "]") r4 with
                          | Got _ r5 => index_loop n' (NIndexFromTo acc e1 e2) r5
                          | Bad => Bad | Out => Out
                          end
                      | Bad => Bad | Out => Out
                      end
                  | _ =>
                      match accept (is_val "]") r2 with
                      | Got _ r5 => index_loop n' (NIndexAt acc e1) r5
                      | Bad => Bad | Out => Out
                      end
                  end
              | Bad => Bad | Out => Out
              end
          | [] => Bad
          end
        else Got acc ts
    end.
End IndexLoop.

Definition mk_block (l : list node) : node :=
  match l with
  | [x] => x
  | _ => NBlock l
  end.

Section StmtsLoop.
  Variable stmt : list tok -> pr node.
  (* Any(Gate: Assert(And(eols1, Not("}"))), OnSuccess: And(eols1, statement)), then And(eols1, "}") *)
  Fixpoint stmts_loop (n : nat) (acc : list node) (ts : list tok) : pr node :=
    match n with
    | O => Out
    | S n' =>
        match eols1 ts with
        | Got _ ra =>
            if peek_val "}" ra then
              match ra with _ :: rb => Got (mk_block acc) rb | [] => Bad end
            else
              match stmt ra with
              | Got s' rb => stmts_loop n' (acc ++ [s']) rb
              | Bad => Bad | Out => Out
              end
        | _ => Bad      (* And(eols1, "}") needs a line end here *)
        end
    end.
End StmtsLoop.

(* the mutually recursive part: every call to another nonterminal spends one unit of fuel *)
Fixpoint p_expr (fuel : nat) (ts : list tok) {struct fuel} : pr node :=
  match fuel with
  | O => Out
  | S k =>
      let n := S (List.length ts) in
      chain (chain (chain (chain (chain (p_unary k) n (level_ops 4)) n (level_ops 3)) n (level_ops 2)) n (level_ops 1))
            n (level_ops 0) ts
  end
with p_unary (fuel : nat) (ts : list tok) {struct fuel} : pr node :=
  match fuel with
  | O => Out
  | S k =>
      match accept (tok_in unary_ops) ts with
      | Got t r =>
          match p_index k r with
          | Got e r' => Got (NUn (g_value t) e) r'
          | Bad => p_index k ts
          | Out => Out
          end
      | _ => p_index k ts
      end
  end
with p_index (fuel : nat) (ts : list tok) {struct fuel} : pr node :=
  match fuel with
  | O => Out
  | S k =>
      match p_atom k ts with
      | Got a r =>
          index_loop (p_expr k) (S (List.length r)) a r
      | Bad => Bad | Out => Out
      end
  end
with p_atom (fuel : nat) (ts : list tok) {struct fuel} : pr node :=
  match fuel with
  | O => Out
  | S k =>
      (* Gate: Assert(And(parameters, "->")) *)
      match (match parameters ts with Got ps r => if peek_val "->" r then Some (ps, r) else None | _ => None end) with
      | Some (ps, r) =>
          match r with
          | _ :: r1 =>
              match p_block k r1 with
              | Got b r2 => Got (NFunction ps b 0) r2
              | Bad => Bad | Out => Out
              end
          | [] => Bad
          end
      | None =>
      (* Gate: Assert(And(varName, "(")) *)
      match ts with
      | Some t :: Some o :: r =>
          if is_varname t && is_val "(" o then
            match exprs_sep (p_expr k) (S (List.length r)) false r with
            | Got args r1 =>
                match accept (is_val ")") r1 with
                | Got _ r2 => Got (NCall (NName (g_value t)) args) r2
                | Bad => Bad | Out => Out
                end
            | Bad => Bad | Out => Out
            end
          else p_atom_simple k ts
      | _ => p_atom_simple k ts
      end
      end
  end
with p_atom_simple (fuel : nat) (ts : list tok) {struct fuel} : pr node :=
  match fuel with
  | O => Out
  | S k =>
      match ts with
      | Some t :: r =>
          if is_floatlit t then
            match parse_float (g_value t) with PFOk f => Got (NFloat f) r | _ => Bad end
          else if is_intlit t then
            match atoi (g_value t) with Some i => Got (NInt i) r | None => Bad end
          else if is_val "true" t then Got (NBool true) r
          else if is_val "false" t then Got (NBool false) r
          else if is_kind KStringLit t then Got (NStr (wrap_string (g_value t))) r
          else if is_val "[" t then
            (* arrayLit *)
            match exprs_sep (p_expr k) (S (List.length r)) true (skip_eols r) with
            | Got es r1 =>
                match accept (is_val "]") r1 with
                | Got _ r2 => Got (NList es) r2
                | Bad => Bad | Out => Out
                end
            | Bad => Bad | Out => Out
            end
          else if is_val "(" t then
            match p_expr k r with
            | Got e r1 =>
                match accept (is_val ")") r1 with
                | Got _ r2 => Got e r2
                | Bad => Bad | Out => Out
                end
            | Bad => Bad | Out => Out
            end
          else if is_varname t then Got (NName (g_value t)) r
          else Bad
      | _ => Bad
      end
  end
with p_stmt (fuel : nat) (ts : list tok) {struct fuel} : pr node :=
  match fuel with
  | O => Out
  | S k =>
      if peek_val "if" ts then
        match ts with
        | _ :: r =>
            match p_expr k r with
            | Got c r1 =>
                match p_block k r1 with
                | Got b r2 =>
                    if peek_val "else" r2 then
                      match r2 with
                      | _ :: r3 =>
                          match p_block k r3 with
                          | Got f r4 => Got (NIfElse c b f) r4
                          | Bad => Bad | Out => Out
                          end
                      | [] => Bad
                      end
                    else Got (NIf c b) r2
                | Bad => Bad | Out => Out
                end
            | Bad => Bad | Out => Out
            end
        | [] => Bad
        end
      else if peek_val "while" ts then
        match ts with
        | _ :: r =>
            match p_expr k r with
            | Got c r1 =>
                match p_block k r1 with
                | Got b r2 => Got (NWhile c b) r2
                | Bad => Bad | Out => Out
                end
            | Bad => Bad | Out => Out
            end
        | [] => Bad
        end
      else if peek_val "for" ts then
        match ts with
        | _ :: r =>
            match accept is_varname r with
            | Got v r1 =>
                match for_names_tail (S (List.length r1)) r1 [NName (g_value v)] with
                | Got vars r2 =>
                    match accept (is_val "<-") r2 with
                    | Got _ r3 =>
                        match p_expr k r3 with
                        | Got e r4 =>
                            match for_exprs_tail (p_expr k) (S (List.length r4)) r4 [e] with
                            | Got its r5 =>
                                match p_block k r5 with
                                | Got b r6 =>
                                    if Nat.eqb (List.length vars) (List.length its) then Got (NFor vars its b) r6 else Bad
                                | Bad => Bad | Out => Out
                                end
                            | Bad => Bad | Out => Out
                            end
                        | Bad => Bad | Out => Out
                        end
                    | Bad => Bad | Out => Out
                    end
                | Bad => Bad | Out => Out
                end
            | Bad => Bad | Out => Out
            end
        | [] => Bad
        end
      else if peek_val "return" ts then
        match ts with
        | _ :: r => match p_expr k r with Got e r1 => Got (NReturn e) r1 | Bad => Bad | Out => Out end
        | [] => Bad
        end
      else if peek_val "yield" ts then
        match ts with
        | _ :: r => match p_expr k r with Got e r1 => Got (NYield e) r1 | Bad => Bad | Out => Out end
        | [] => Bad
        end
      else
        match ts with
        | Some t :: Some o :: r =>
            if is_varname t && is_val "=" o then
              match p_expr k r with
              | Got e r1 => Got (NAssign (NName (g_value t)) e) r1
              | Bad => Bad | Out => Out
              end
            else p_expr k ts
        | _ => p_expr k ts
        end
  end
with p_block (fuel : nat) (ts : list tok) {struct fuel} : pr node :=
  match fuel with
  | O => Out
  | S k =>
      if peek_val "{" ts then
        match ts with
        | _ :: r =>
            match eols1 r with
            | Got _ r1 =>
                match p_stmt k r1 with
                | Got s r2 =>
                    stmts_loop (p_stmt k) (S (List.length r2)) [s] r2
                | Bad => Bad | Out => Out
                end
            | Bad => Bad | Out => Out
            end
        | [] => Bad
        end
      else p_stmt k ts
  end.

(* program = Seq(Any(Gate: Assert(Not(eol)), OnSuccess: block), eols1, eof) *)
Fixpoint p_program_loop (fuel : nat) (n : nat) (acc : list node) (ts : list tok) : pr (list node) :=
  match n with
  | O => Out
  | S n' =>
      match accept (is_kind KEOL) ts with
      | Got _ _ => Got acc ts
      | _ =>
          match p_block fuel ts with
          | Got b r => p_program_loop fuel n' (acc ++ [b]) r
          | Bad => Bad | Out => Out
          end
      end
  end.

Definition p_program (fuel : nat) (ts : list tok) : pr (list node) :=
  match p_program_loop fuel (S (List.length ts)) [] ts with
  | Got l r =>
      match eols1 r with
      | Got _ r1 =>
          match accept (is_kind KEOF) r1 with
          | Got _ r2 => Got l r2
          | Bad => Bad | Out => Out
          end
      | Bad => Bad | Out => Out
      end
  | Bad => Bad | Out => Out
  end.

Definition parse_fuel (ts : list tok) : nat := (8 * List.length ts + 16)%nat.

Inductive parsed := PTrees (l : list node) | PError | PFuel.

(* parser.Parse *)
Definition parse_model (input : string) : parsed :=
  let ts := toks_of_lexres (tokens_of input) in
  match p_program (parse_fuel ts) ts with
  | Got l _ => PTrees l
  | Bad => PError
  | Out => PFuel
  end.
