(* ExprAssign.v — C01 on top-level assignments of pure expressions to global
   variables: g = e, including the increment forms g = g + 1 and g = 1 + g
   that compile to the INC instruction.  ByteCode, load, Run give the value
   the definitional semantics gives and bind the global to it; assigning nil
   is the nil error on both sides. *)
Require Import Calc.Sem.
Require Import Calc.Base Calc.Bytecode Calc.BytecodeProofs Calc.Value Calc.FloatText Calc.Ast Calc.Compile Calc.VM
        Calc.MemProofs Calc.StepErr Calc.StepCode Calc.FloatComm Calc.ExprSem Calc.ExprVM Calc.ExprCorrect Calc.ExprTop.
Require Import Lia.
Open Scope Z_scope.

(* ---- the two instructions that write a global ---- *)
Lemma step_mov_gbl v mid m r rr instr k0 a0 a1 k2 a2 v0 x0 g :
  at_ip v r mid instr ->
  decode instr = {| f_op := MOV; f_k0 := k0; f_k1 := AddrGbl; f_k2 := k2; f_a0 := a0; f_a1 := a1; f_a2 := a2 |} ->
  (if k0 =? AddrTmp then Good (St v mid m, r_tmp r) else fetch (St v mid m) mid k0 a0) = Good (v0, x0) ->
  znth (v_ds v0) a1 = Some (VStr g) ->
  step (St v mid m) r rr =
  if is_nil x0 then SErr v0 (r_ctx r) (r_ip r) ErrNil [x0]
  else SNext (set_globals v0 (sassoc_set (v_globals v0) g x0)) r.
Proof.
  intros [Hi Hc] Hd Hf Hg. unfold decode in Hd. injection Hd as Eop E0 E1 E2 Ea0 Ea1 Ea2.
  unfold step. change (v_cs (St v mid m)) with (v_cs v). rewrite Hi. cbn [req obind].
  rewrite cur_mid_St, Hc. cbn [obind]. rewrite Eop, E0, E1, Ea0, Ea1.
  change (is_binop MOV) with false. cbv iota.
  change ((MOV >=? TempFlag) && is_binop (MOV - TempFlag)) with false. cbv iota.
  change (MOV =? INC) with false. cbv iota.
  change ((MOV =? NOT) || (MOV =? FLIP) || (MOV =? LEN)) with false. cbv iota.
  change ((MOV =? NOT + TempFlag) || (MOV =? FLIP + TempFlag) || (MOV =? LEN + TempFlag)) with false. cbv iota.
  change (MOV =? IX1) with false. change (MOV =? IX2) with false. change (MOV =? JMP) with false.
  change ((MOV =? JMPF) || (MOV =? JMPT)) with false. change (MOV =? PUSH) with false.
  change (MOV =? PUSHTMP) with false. change (MOV =? POP) with false. change (MOV =? MOV) with true.
  cbv iota. rewrite Hf. cbn [obind].
  change (AddrGbl =? AddrTmp) with false. cbn [negb]. rewrite andb_true_r.
  destruct (is_nil x0); [reflexivity|].
  change (AddrGbl =? AddrLcl) with false. change (AddrGbl =? AddrGbl) with true. cbv iota.
  unfold set_global_from_ds. rewrite Hg. reflexivity.
Qed.

Lemma step_inc_gbl v mid m r rr instr a0 k1 k2 a1 a2 g :
  at_ip v r mid instr ->
  decode instr = {| f_op := INC; f_k0 := AddrGbl; f_k1 := k1; f_k2 := k2; f_a0 := a0; f_a1 := a1; f_a2 := a2 |} ->
  znth (v_ds v) a0 = Some (VStr g) ->
  step (St v mid m) r rr =
  match Arith ADD (gval (v_globals v) g) (VInt 1) with
  | Fail e => SErr (St v mid m) (r_ctx r) (r_ip r) e [gval (v_globals v) g]
  | Ok y => SNext (set_globals (St v mid m) (sassoc_set (v_globals v) g y)) r
  end.
Proof.
  intros [Hi Hc] Hd Hg. unfold decode in Hd. injection Hd as Eop E0 E1 E2 Ea0 Ea1 Ea2.
  unfold step. change (v_cs (St v mid m)) with (v_cs v). rewrite Hi. cbn [req obind].
  rewrite cur_mid_St, Hc. cbn [obind]. rewrite Eop, E0, Ea0.
  change (is_binop INC) with false. cbv iota.
  change ((INC >=? TempFlag) && is_binop (INC - TempFlag)) with false. cbv iota.
  change (INC =? INC) with true. cbv iota.
  rewrite (fetch_gbl v mid m a0 g Hg). cbn [obind].
  destruct (Arith ADD (gval (v_globals v) g) (VInt 1)) as [y|e]; [|reflexivity].
  change (AddrGbl =? AddrLcl) with false. change (AddrGbl =? AddrGbl) with true. cbv iota.
  unfold set_global_from_ds. change (v_ds (St v mid m)) with (v_ds v). rewrite Hg. reflexivity.
Qed.

(* ---- the end of Run: the value is popped, the context remembers where it stopped ---- *)
Lemma run_finish v1 r0 n vf r3 fuel c m3 x :
  v_ncs v1 = zlen (v_cs v1) ->
  steps true n v1 r0 = SNext vf r3 -> (n < fuel)%nat ->
  r_ip r3 = v_ncs v1 -> r_ctx r3 = 0 ->
  assoc_get (v_ctxs vf) 0 = Some c -> assoc_get (v_mems vf) (c_mid c) = Some m3 ->
  znth (m_stack m3) (m_sp m3 - 1) = Some x ->
  run_loop fuel v1 r0 true =
  (set_mem (set_ctx vf 0 {| c_ip := r_ip r3; c_mid := c_mid c; c_parent := c_parent c;
                            c_children := c_children c; c_tmp := c_tmp c |}) (c_mid c) (mdrop m3) false, RValue x).
Proof.
  intros Hn Hs Hf Hip Hctx Hc Hm Hx.
  replace fuel with (n + (fuel - n))%nat by lia.
  destruct (run_loop_steps_ok true n v1 r0 (fuel - n) _ _ Hn Hs) as [Hr [Hn3 Hcode]]. rewrite Hr.
  destruct (fuel - n)%nat as [|f'] eqn:Ef; [lia|]. cbn [run_loop].
  assert (Hncs : v_ncs vf = v_ncs v1) by (unfold code_of in Hcode; congruence).
  assert (B : (r_ip r3 <? v_ncs vf) = false) by (apply Z.ltb_ge; lia).
  rewrite B, Hctx, Hc.
  unfold vPop, get_mem. cbn [set_ctx v_mems]. rewrite Hm. cbn [req obind].
  unfold mPop, stack_get. rewrite Hx. cbn [req obind]. reflexivity.
Qed.

(* ---- g = e ---- *)
Definition is_inc (g : string) (e : node) : bool :=
  match e with
  | NBin op l r =>
      String.eqb op "+" &&
      ((match r with NInt 1 => node_eqb l (NName g) | _ => false end) ||
       (match l with NInt 1 => node_eqb r (NName g) | _ => false end))
  | _ => false
  end.

Lemma comp_assign_unfold g e sel fl :
  comp (NAssign (NName g) e) sel fl =
  if is_inc g e then
    (w <- comp_ref (NName g) 0 ;;
     let instr := Z.lor (New INC) w in
     emit instr ;;; enc sel (Src0 instr) (Src0Addr instr))
  else
    (srcInstr <- comp e 0 (withAcceptTemp true (pass fl)) ;;
     w <- comp_ref (NName g) 1 ;;
     let instr := Z.lor (Z.lor srcInstr w) (New MOV) in
     emit instr ;;; enc sel (Src1 instr) (Src1Addr instr)).
Proof. reflexivity. Qed.

Lemma gval_set_same G g x : gval (sassoc_set G g x) g = x.
Proof.
  unfold gval. induction G as [|[k w] r IH]; cbn [sassoc_set sassoc_get].
  - rewrite String.eqb_refl. reflexivity.
  - destruct (String.eqb k g) eqn:E; cbn [sassoc_get]; [rewrite String.eqb_refl; reflexivity|].
    rewrite E. exact IH.
Qed.

Lemma gbl_range : 0 <= AddrGbl < 8. Proof. unfold AddrGbl. lia. Qed.

Lemma St_set_globals v mid m G : set_globals (St v mid m) G = St (set_globals v G) mid m.
Proof. reflexivity. Qed.

(* the common tail: the machine holds x on top of the stack at the end of the code *)
Definition ran_to_value (v : vm) (c : ctx) (m : mem) (s' : cstate) (G' : list (string * value)) (x : value)
           (res : vm * run_result) : Prop :=
  exists v' m', res = (v', RValue x) /\
    assoc_get (v_mems v') (c_mid c) = Some m' /\ m_sp m' = m_sp m /\ msame (m_sp m) m m' /\
    v_globals v' = G' /\ v_out v' = v_out v /\
    (exists c', assoc_get (v_ctxs v') 0 = Some c' /\ c_ip c' = ncs s' /\ c_mid c' = c_mid c /\
                c_children c' = c_children c).

Theorem bytecode_run_assign g e s s' v c m fuel :
  pure e = true -> is_inc g e = false -> wfcs s -> idle v s c m ->
  ByteCode (NAssign (NName g) e) s = CompOk s' ->
  (Z.to_nat (ncs s' - ncs s) < fuel)%nat ->
  wfcs s' /\
  match den (v_globals v) e with
  | Ok x =>
      if is_nil x then exists me rep, Run fuel (load_code v s') true
                                      = (reset_after_error (St (load_code v s') (c_mid c) me), RError ErrNil rep)
      else ran_to_value v c m s' (sassoc_set (v_globals v) g x) x (Run fuel (load_code v s') true)
  | Fail err => exists me rep, Run fuel (load_code v s') true
                               = (reset_after_error (St (load_code v s') (c_mid c) me), RError err rep)
  end.
Proof.
  intros Hp Hinc Hwf [Hctx Hip Hmem Hsp] HB Hfuel.
  unfold ByteCode in HB.
  destruct ((instr <- comp (NAssign (NName g) e) 0 (pass fl0);;
             (if negb (Src0 instr =? AddrStck) then emit (Z.lor instr (New PUSH)) else cret tt)) s)
    as [[u sfin]| |] eqn:HC; try discriminate HB. injection HB as <-.
  apply cbind_ok in HC. destruct HC as [wres [s3 [Hcomp Hfin]]].
  rewrite comp_assign_unfold, Hinc in Hcomp.
  apply cbind_ok in Hcomp. destruct Hcomp as [we [s1 [He Hcomp]]].
  apply cbind_ok in Hcomp. destruct Hcomp as [w [s2 [Href Hcomp]]].
  cbn [comp_ref] in Href. apply cbind_ok in Href. destruct Href as [ix [s2' [Hds Href]]].
  apply add_ds_ok in Hds. destruct Hds as [-> ->]. apply enc_ok in Href. destruct Href as [-> Ew].
  cbv zeta in Hcomp. apply cbind_ok in Hcomp. destruct Hcomp as [u0 [s3' [Hem Hres]]].
  apply emit_ok in Hem. subst s3'. apply enc_ok in Hres. destruct Hres as [-> Ewres].
  set (flA := withAcceptTemp true (pass (pass fl0))) in *.
  apply (comp_pure_spec e Hp 0 flA s we s1 ltac:(lia) Hwf) in He. apply SpecD_lay in He.
  destruct He as [code [K [A (L1 & W1 & Ee & Ok1 & _ & _ & X)]]].
  cbn [ForbidTemp flA withAcceptTemp pass fl0] in X.
  set (instr := Z.lor (Z.lor we w) (New MOV)) in *.
  assert (Hdi : decode instr = {| f_op := MOV; f_k0 := K; f_k1 := AddrGbl; f_k2 := 0; f_a0 := A; f_a1 := nds s1; f_a2 := 0 |}).
  { unfold instr. replace (Z.lor (Z.lor we w) (New MOV)) with (Z.lor (Z.lor (New MOV) w) we).
    - apply (decode_op01 MOV K A AddrGbl (nds s1) we w mov_range (okind_range K Ok1) gbl_range Ee Ew).
    - rewrite (Z.lor_comm (Z.lor we w)), (Z.lor_comm we w), Z.lor_assoc. reflexivity. }
  assert (HS1 : Src1 instr = AddrGbl /\ Src1Addr instr = nds s1).
  { unfold decode in Hdi. injection Hdi as _ _ H1 _ _ H2 _. auto. }
  destruct HS1 as [HS1 HS1a]. rewrite HS1, HS1a in Ewres.
  destruct (enc_src0 AddrGbl (nds s1) wres gbl_range Ewres) as [S0 S0a]. rewrite S0 in Hfin.
  change (negb (AddrGbl =? AddrStck)) with true in Hfin. cbv iota in Hfin.
  apply emit_ok in Hfin. subst sfin.
  set (push := Z.lor wres (New PUSH)) in *.
  assert (Hdp : decode push = {| f_op := PUSH; f_k0 := AddrGbl; f_k1 := 0; f_k2 := 0; f_a0 := nds s1; f_a1 := 0; f_a2 := 0 |}).
  { unfold push. rewrite Z.lor_comm. apply (decode_op0 PUSH AddrGbl (nds s1) wres ltac:(unfold PUSH; lia) gbl_range Ewres). }
  set (s2 := with_data s1 (VStr g)) in *.
  set (sfin := emitted (emitted s2 instr) push) in *.
  assert (W2 : wfcs s2).
  { destruct W1 as [A1 B1]. unfold wfcs, s2, with_data, zlen in *; cbn [rcs ncs rds nds List.length]. split; lia. }
  assert (Wfin : wfcs sfin) by (unfold sfin; apply wfcs_emitted; apply wfcs_emitted; exact W2).
  split; [exact Wfin|].
  assert (Lfin : lay s sfin ((code ++ [instr]) ++ [push])).
  { unfold sfin. apply lay_emit. apply lay_emit.
    destruct L1 as (R1 & N1 & [d1 D1]). unfold lay, s2, with_data; cbn [rcs ncs rds]. conj; try assumption.
    exists (VStr g :: d1). rewrite D1. reflexivity. }
  set (v1 := load_code v sfin).
  set (r0 := {| r_ctx := 0; r_ip := c_ip c; r_tmp := VNil |}).
  assert (Hrun : Run fuel v1 true = run_loop fuel v1 r0 true).
  { unfold Run. change (v_ctxs v1) with (v_ctxs v). rewrite Hctx. reflexivity. }
  assert (Hmid : cur_mid v1 r0 = Good (c_mid c)).
  { unfold cur_mid, get_ctx. change (v_ctxs v1) with (v_ctxs v). cbn [r0 r_ctx]. rewrite Hctx. reflexivity. }
  assert (Hself : St v1 (c_mid c) m = v1) by (apply St_self; exact Hmem).
  assert (Hncs : v_ncs v1 = zlen (v_cs v1)).
  { cbn [v1 load_code v_ncs v_cs]. unfold zlen. rewrite rev_length. exact (proj1 Wfin). }
  rewrite Hrun.
  pose proof (code_at_loaded v s sfin _ Hwf (proj1 Lfin)) as Hc. fold v1 in Hc.
  assert (Hi_push : znth (v_cs v1) (ncs s + zlen code + 1) = Some push).
  { pose proof (code_at_nth v1 (ncs s) (code ++ [instr]) push [] Hc) as H.
    unfold zlen in *. rewrite app_length in H. cbn [List.length] in H.
    replace (ncs s + Z.of_nat (List.length code) + 1) with (ncs s + Z.of_nat (List.length code + 1)) by lia. exact H. }
  apply code_at_app in Hc. destruct Hc as [Hc _].
  pose proof (code_at_nth v1 (ncs s) code instr [] Hc) as Hi_mov.
  apply code_at_app in Hc. destruct Hc as [Hc _].
  assert (Hd1 : data_at v1 s1).
  { intros i y H. cbn [v1 load_code v_ds sfin emitted rds s2 with_data]. cbn [rev]. apply znth_app_l. exact H. }
  assert (Hname : znth (v_ds v1) (nds s1) = Some (VStr g)).
  { cbn [v1 load_code v_ds sfin emitted rds s2 with_data]. rewrite (proj2 W1). apply znth_rev_cons. }
  pose proof (X true v1 (c_mid c) m r0 Hc Hd1 Hmid Hsp Hip) as E.
  change (v_globals v1) with (v_globals v) in E.
  assert (Hlen : Z.to_nat (ncs sfin - ncs s) = (List.length code + 2)%nat).
  { destruct Lfin as (_ & N & _). rewrite N. unfold zlen. rewrite !app_length. cbn [List.length]. lia. }
  rewrite Hlen in Hfuel.
  destruct (den (v_globals v) e) as [x|err].
  - destruct E as [m1 [r1 [Hs [Hm1 [Hc1 [Hi1 [_ Ho]]]]]]]. rewrite Hself in Hs.
    assert (Hat : at_ip v1 r1 (c_mid c) instr).
    { split; [rewrite Hi1; destruct L1 as (_ & N & _); rewrite N; exact Hi_mov|].
      rewrite (cur_mid_ctx v1 r0 r1 Hc1). exact Hmid. }
    (* the source of the MOV *)
    assert (Hsrc : exists m2, (if K =? AddrTmp then Good (St v1 (c_mid c) m1, r_tmp r1)
                               else fetch (St v1 (c_mid c) m1) (c_mid c) K A) = Good (St v1 (c_mid c) m2, x) /\
                              msame (m_sp m) m m2 /\ m_sp m2 = m_sp m).
    { destruct (Z.eqb_spec K AddrTmp) as [EK|NK].
      - exists m1. destruct Ho as [[E1 _]|[[_ [H1 H2]]|[[E1 _]|[E1 _]]]];
          try (rewrite EK in E1; discriminate E1). conj; [rewrite H2; reflexivity|exact Hm1|exact H1].
      - destruct (fetch_opnd v1 (c_mid c) (m_sp m) m K A x m1 r1 Ho NK Hm1) as [m2 [Hf [Hm2 Hs2]]].
        exists m2. conj; assumption. }
    destruct Hsrc as [m2 [Hsrc [Hm2 Hsp2]]].
    pose proof (step_mov_gbl v1 (c_mid c) m1 r1 true instr K A (nds s1) 0 0 _ x g Hat Hdi Hsrc Hname) as Hstep.
    destruct (is_nil x) eqn:Hnil.
    + (* nil: the MOV refuses *)
      assert (Hs2 : steps true (List.length code + 1) v1 r0 = SErr (St v1 (c_mid c) m2) (r_ctx r1) (r_ip r1) ErrNil [x]).
      { rewrite steps_app, Hs, steps_one, Hstep. reflexivity. }
      replace fuel with ((List.length code + 1) + (fuel - (List.length code + 1)))%nat by lia.
      rewrite (run_loop_steps_error true _ v1 r0 _ _ _ _ _ _ Hncs Hs2). eauto.
    + set (G' := sassoc_set (v_globals v) g x).
      set (v1' := set_globals v1 G').
      set (r2 := with_ip r1 (r_ip r1 + 1)).
      assert (Hs2 : steps true (List.length code + 1) v1 r0 = SNext (St v1' (c_mid c) m2) r2).
      { rewrite steps_app, Hs, steps_one, Hstep. reflexivity. }
      assert (Hat2 : at_ip v1' r2 (c_mid c) push).
      { split.
        - change (v_cs v1') with (v_cs v1). unfold r2. cbn [with_ip r_ip]. rewrite Hi1.
          destruct L1 as (_ & N & _). rewrite N. exact Hi_push.
        - unfold cur_mid, get_ctx. change (v_ctxs v1') with (v_ctxs v). unfold r2. cbn [with_ip r_ctx].
          rewrite Hc1. cbn [r0 r_ctx]. rewrite Hctx. reflexivity. }
      assert (Ho2 : opnd v1' (m_sp m) AddrGbl (nds s1) x m2 r2).
      { right. right. right. conj; [reflexivity|exact Hsp2|]. exists g. split; [exact Hname|].
        change (v_globals v1') with G'. unfold G'. symmetry. apply gval_set_same. }
      destruct (exec_push true v1' (c_mid c) push AddrGbl (nds s1) _ _ _ _ (m_sp m) m m2 r2 x Hat2 Hdp (proj1 Hsp) Ho2
                          ltac:(discriminate) Hm2) as [m3 [Hs3 [Hm3 [Hsp3 Hx3]]]].
      assert (Hs4 : steps true (List.length code + 2) v1 r0 = SNext (St v1' (c_mid c) m3) (with_ip r2 (r_ip r2 + 1))).
      { replace (List.length code + 2)%nat with ((List.length code + 1) + 1)%nat by lia.
        rewrite steps_app, Hs2. exact Hs3. }
      unfold ran_to_value.
      rewrite (run_finish v1 r0 _ _ _ fuel c m3 x Hncs Hs4 Hfuel).
      * eexists. exists (mdrop m3). conj.
        -- reflexivity.
        -- cbn [set_mem v_mems set_ctx St]. apply assoc_get_set_same.
        -- unfold mdrop, with_stack; cbn [m_sp]. lia.
        -- apply mdrop_msame; [exact Hm3|lia].
        -- reflexivity.
        -- reflexivity.
        -- eexists. conj; [cbn [set_mem v_ctxs set_ctx St]; apply assoc_get_set_same| |reflexivity|reflexivity].
           cbn [c_ip with_ip r_ip r2]. rewrite Hi1. destruct Lfin as (_ & N & _). rewrite N.
           destruct L1 as (_ & N1 & _). rewrite N1. unfold zlen. rewrite !app_length. cbn [List.length]. lia.
      * cbn [with_ip r_ip r2]. rewrite Hi1. cbn [v1 load_code v_ncs]. destruct Lfin as (_ & N & _). rewrite N.
        destruct L1 as (_ & N1 & _). rewrite N1. unfold zlen. rewrite !app_length. cbn [List.length]. lia.
      * cbn [with_ip r_ctx r2]. rewrite Hc1. reflexivity.
      * change (v_ctxs (St v1' (c_mid c) m3)) with (v_ctxs v). exact Hctx.
      * apply (St_get v1' (c_mid c) m3) || idtac. unfold St, set_mem; cbn [v_mems]. apply assoc_get_set_same.
      * rewrite Hsp3. replace (m_sp m + 1 - 1) with (m_sp m) by lia. exact Hx3.
  - destruct E as [v' [ip [vals Hs]]]. rewrite Hself in Hs.
    replace fuel with (List.length code + (fuel - List.length code))%nat by lia.
    rewrite (run_loop_steps_error true _ v1 r0 _ _ _ _ _ _ Hncs Hs). eauto.
Qed.

(* ---- g = g + 1 and g = 1 + g : the INC instruction ---- *)
Lemma inc_range : 0 <= INC < 128. Proof. unfold INC. lia. Qed.

Theorem bytecode_run_inc g e s s' v c m fuel :
  is_inc g e = true -> wfcs s -> idle v s c m ->
  ByteCode (NAssign (NName g) e) s = CompOk s' ->
  (2 < fuel)%nat ->
  wfcs s' /\
  match Arith ADD (gval (v_globals v) g) (VInt 1) with
  | Ok y => ran_to_value v c m s' (sassoc_set (v_globals v) g y) y (Run fuel (load_code v s') true)
  | Fail err => exists me rep, Run fuel (load_code v s') true
                               = (reset_after_error (St (load_code v s') (c_mid c) me), RError err rep)
  end.
Proof.
  intros Hinc Hwf [Hctx Hip Hmem Hsp] HB Hfuel.
  unfold ByteCode in HB.
  destruct ((instr <- comp (NAssign (NName g) e) 0 (pass fl0);;
             (if negb (Src0 instr =? AddrStck) then emit (Z.lor instr (New PUSH)) else cret tt)) s)
    as [[u sfin]| |] eqn:HC; try discriminate HB. injection HB as <-.
  apply cbind_ok in HC. destruct HC as [wres [s3 [Hcomp Hfin]]].
  rewrite comp_assign_unfold, Hinc in Hcomp.
  apply cbind_ok in Hcomp. destruct Hcomp as [w [s2 [Href Hcomp]]].
  cbn [comp_ref] in Href. apply cbind_ok in Href. destruct Href as [ix [s2' [Hds Href]]].
  apply add_ds_ok in Hds. destruct Hds as [-> ->]. apply enc_ok in Href. destruct Href as [-> Ew].
  cbv zeta in Hcomp. apply cbind_ok in Hcomp. destruct Hcomp as [u0 [s3' [Hem Hres]]].
  apply emit_ok in Hem. subst s3'. apply enc_ok in Hres. destruct Hres as [-> Ewres].
  set (instr := Z.lor (New INC) w) in *.
  assert (Hdi : decode instr = {| f_op := INC; f_k0 := AddrGbl; f_k1 := 0; f_k2 := 0; f_a0 := nds s; f_a1 := 0; f_a2 := 0 |}).
  { unfold instr. apply (decode_op0 INC AddrGbl (nds s) w inc_range gbl_range Ew). }
  assert (HS0 : Src0 instr = AddrGbl /\ Src0Addr instr = nds s).
  { unfold decode in Hdi. injection Hdi as _ H1 _ _ H2 _ _. auto. }
  destruct HS0 as [HS0 HS0a]. rewrite HS0, HS0a in Ewres.
  destruct (enc_src0 AddrGbl (nds s) wres gbl_range Ewres) as [S0 S0a]. rewrite S0 in Hfin.
  change (negb (AddrGbl =? AddrStck)) with true in Hfin. cbv iota in Hfin.
  apply emit_ok in Hfin. subst sfin.
  set (push := Z.lor wres (New PUSH)) in *.
  assert (Hdp : decode push = {| f_op := PUSH; f_k0 := AddrGbl; f_k1 := 0; f_k2 := 0; f_a0 := nds s; f_a1 := 0; f_a2 := 0 |}).
  { unfold push. rewrite Z.lor_comm. apply (decode_op0 PUSH AddrGbl (nds s) wres ltac:(unfold PUSH; lia) gbl_range Ewres). }
  set (s2 := with_data s (VStr g)) in *.
  set (sfin := emitted (emitted s2 instr) push) in *.
  assert (W2 : wfcs s2).
  { destruct Hwf as [A1 B1]. unfold wfcs, s2, with_data, zlen in *; cbn [rcs ncs rds nds List.length]. split; lia. }
  assert (Wfin : wfcs sfin) by (unfold sfin; apply wfcs_emitted; apply wfcs_emitted; exact W2).
  split; [exact Wfin|].
  assert (Lfin : lay s sfin (([] ++ [instr]) ++ [push])).
  { unfold sfin. apply lay_emit. apply lay_emit. unfold lay, s2, with_data; cbn [rcs ncs rds rev app].
    conj; [reflexivity|unfold zlen; cbn; lia|exists [VStr g]; reflexivity]. }
  cbn [app] in Lfin.
  set (v1 := load_code v sfin).
  set (r0 := {| r_ctx := 0; r_ip := c_ip c; r_tmp := VNil |}).
  assert (Hrun : Run fuel v1 true = run_loop fuel v1 r0 true).
  { unfold Run. change (v_ctxs v1) with (v_ctxs v). rewrite Hctx. reflexivity. }
  assert (Hmid : cur_mid v1 r0 = Good (c_mid c)).
  { unfold cur_mid, get_ctx. change (v_ctxs v1) with (v_ctxs v). cbn [r0 r_ctx]. rewrite Hctx. reflexivity. }
  assert (Hself : St v1 (c_mid c) m = v1) by (apply St_self; exact Hmem).
  assert (Hncs : v_ncs v1 = zlen (v_cs v1)).
  { cbn [v1 load_code v_ncs v_cs]. unfold zlen. rewrite rev_length. exact (proj1 Wfin). }
  rewrite Hrun.
  pose proof (code_at_loaded v s sfin _ Hwf (proj1 Lfin)) as Hc. fold v1 in Hc.
  apply code_at_cons in Hc. destruct Hc as [Hi_inc Hc]. apply code_at_cons in Hc. destruct Hc as [Hi_push _].
  assert (Hname : znth (v_ds v1) (nds s) = Some (VStr g)).
  { cbn [v1 load_code v_ds sfin emitted rds s2 with_data]. rewrite (proj2 Hwf). apply znth_rev_cons. }
  assert (Hat : at_ip v1 r0 (c_mid c) instr).
  { split; [cbn [r0 r_ip]; rewrite Hip; exact Hi_inc|exact Hmid]. }
  pose proof (step_inc_gbl v1 (c_mid c) m r0 true instr (nds s) 0 0 0 0 g Hat Hdi Hname) as Hstep.
  rewrite Hself in Hstep. change (v_globals v1) with (v_globals v) in Hstep.
  destruct (Arith ADD (gval (v_globals v) g) (VInt 1)) as [y|err].
  - set (G' := sassoc_set (v_globals v) g y) in *.
    set (v1' := set_globals v1 G').
    set (r2 := with_ip r0 (r_ip r0 + 1)).
    assert (Hs1 : steps true 1 v1 r0 = SNext (St v1' (c_mid c) m) r2).
    { rewrite steps_one, Hstep. unfold v1'. rewrite <- St_set_globals, Hself. reflexivity. }
    assert (Hat2 : at_ip v1' r2 (c_mid c) push).
    { split.
      - change (v_cs v1') with (v_cs v1). unfold r2. cbn [with_ip r_ip r0]. rewrite Hip. exact Hi_push.
      - unfold cur_mid, get_ctx. change (v_ctxs v1') with (v_ctxs v). unfold r2. cbn [with_ip r_ctx r0].
        rewrite Hctx. reflexivity. }
    assert (Ho2 : opnd v1' (m_sp m) AddrGbl (nds s) y m r2).
    { right. right. right. conj; [reflexivity|reflexivity|]. exists g. split; [exact Hname|].
      change (v_globals v1') with G'. unfold G'. symmetry. apply gval_set_same. }
    destruct (exec_push true v1' (c_mid c) push AddrGbl (nds s) _ _ _ _ (m_sp m) m m r2 y Hat2 Hdp (proj1 Hsp) Ho2
                        ltac:(discriminate) (msame_refl m Hsp)) as [m3 [Hs3 [Hm3 [Hsp3 Hx3]]]].
    assert (Hs4 : steps true 2 v1 r0 = SNext (St v1' (c_mid c) m3) (with_ip r2 (r_ip r2 + 1))).
    { change 2%nat with (1 + 1)%nat. rewrite steps_app, Hs1. exact Hs3. }
    unfold ran_to_value.
    rewrite (run_finish v1 r0 _ _ _ fuel c m3 y Hncs Hs4 Hfuel).
    + eexists. exists (mdrop m3). conj.
      * reflexivity.
      * cbn [set_mem v_mems set_ctx St]. apply assoc_get_set_same.
      * unfold mdrop, with_stack; cbn [m_sp]. lia.
      * apply mdrop_msame; [exact Hm3|lia].
      * reflexivity.
      * reflexivity.
      * eexists. conj; [cbn [set_mem v_ctxs set_ctx St]; apply assoc_get_set_same| |reflexivity|reflexivity].
        cbn [c_ip with_ip r_ip r2 r0]. rewrite Hip. destruct Lfin as (_ & N & _). rewrite N.
        unfold zlen. cbn [List.length]. lia.
    + cbn [with_ip r_ip r2 r0]. rewrite Hip. cbn [v1 load_code v_ncs]. destruct Lfin as (_ & N & _). rewrite N.
      unfold zlen. cbn [List.length]. lia.
    + reflexivity.
    + change (v_ctxs (St v1' (c_mid c) m3)) with (v_ctxs v). exact Hctx.
    + unfold St, set_mem; cbn [v_mems]. apply assoc_get_set_same.
    + rewrite Hsp3. replace (m_sp m + 1 - 1) with (m_sp m) by lia. exact Hx3.
  - assert (Hs1 : steps true 1 v1 r0 = SErr v1 (r_ctx r0) (r_ip r0) err [gval (v_globals v) g]).
    { rewrite steps_one, Hstep. reflexivity. }
    replace fuel with (1 + (fuel - 1))%nat by lia.
    rewrite (run_loop_steps_error true _ v1 r0 _ _ _ _ _ _ Hncs Hs1). exists m. rewrite Hself. eauto.
Qed.

(* which expressions are increments of g, and what they mean *)
Lemma is_inc_forms g e : is_inc g e = true ->
  e = NBin "+" (NName g) (NInt 1) \/ e = NBin "+" (NInt 1) (NName g).
Proof.
  unfold is_inc. destruct e; try discriminate. intros H.
  apply andb_prop in H. destruct H as [Hop H]. apply String.eqb_eq in Hop. subst op.
  apply orb_prop in H. destruct H as [H|H].
  - left. destruct e2; try discriminate H. destruct i as [|[p|p|]|]; try discriminate H.
    destruct e1; try discriminate H. cbn [node_eqb] in H. apply String.eqb_eq in H. subst. reflexivity.
  - right. destruct e1; try discriminate H. destruct i as [|[p|p|]|]; try discriminate H.
    destruct e2; try discriminate H. cbn [node_eqb] in H. apply String.eqb_eq in H. subst. reflexivity.
Qed.

Lemma den_inc_left G g : den G (NBin "+" (NName g) (NInt 1)) = Arith ADD (gval G g) (VInt 1).
Proof. reflexivity. Qed.

Lemma den_inc_right G g : den G (NBin "+" (NInt 1) (NName g)) = Arith ADD (VInt 1) (gval G g).
Proof. reflexivity. Qed.

(* 1 + x and x + 1 are the same computation (for floats: IEEE addition is commutative, FloatComm.v) *)
Lemma arith_add_1_comm x : Arith ADD (VInt 1) x = Arith ADD x (VInt 1).
Proof.
  destruct x; try reflexivity.
  - cbn. unfold int_arith. cbn. rewrite Z.add_comm. reflexivity.
  - cbn. unfold float_arith. cbn. rewrite float_add_comm. reflexivity.
Qed.

(* what an increment of g means, in either form *)
Lemma den_inc g e G : is_inc g e = true -> den G e = Arith ADD (gval G g) (VInt 1).
Proof.
  intros H. destruct (is_inc_forms g e H) as [->| ->].
  - apply den_inc_left.
  - rewrite den_inc_right. apply arith_add_1_comm.
Qed.
