(* PropC12.v — C12: an expression means the same wherever it is written.

   Proved here, on the definitional semantics (which has no notion of code
   generation strategy, so position independence is a matter of a few
   equations): the value of an expression does not depend on the statement
   frame around it; the increment forms are the same computation; negated
   conditions swap the branches; a condition must be boolean everywhere.
   The compiled side is proved for PURE expressions (literals, globals, binary
   and unary operators at any depth; ExprCorrect.v): whatever the context —
   operand selector, result used or discarded, temp register allowed,
   forbidden or accepted, operator depth, in or out of a function or loop —
   the code the compiler model emits leaves the one value the semantics
   defines where its operand says, and raises the same error
   ([C12_pure_expression_any_context]).  For the statement language over
   globals (assignments, blocks, if, if/else, while; StmtCorrect.v) the same:
   compiled in value position or in discarded position — the two strategies
   every construct has — the code has the one meaning [ssem] gives
   ([C12_statement_used_or_discarded]); a condition must be boolean in both
   ([ssem] goes through [cond_res]); if !c A else B means if c B else A
   ([C12_negated_if_swap_compiled]).  For calls, generators and locals the
   compiled side is NOT proved (C01's open statement); the check decides it
   by metamorphic pairs on the real code. *)
Require Import Calc.Base Calc.Bytecode Calc.Value Calc.FloatText Calc.Ast Calc.Compile Calc.VM Calc.Sem Calc.SemProofs.
Require Import Calc.ExprSem Calc.ExprVM Calc.ExprCorrect Calc.ExprTop Calc.ExprAssign Calc.ExprLen Calc.ExprSession
        Calc.StmtSem Calc.StmtRel Calc.StmtVM Calc.StmtCorrect Calc.StmtTop.
Open Scope Z_scope.

(* x = x + 1  and  x = 1 + x  are the same computation on ints and floats *)
Theorem C12_inc_forms_int : forall x, Arith ADD (VInt x) (VInt 1) = Arith ADD (VInt 1) (VInt x).
Proof. intros. cbn. rewrite Z.add_comm. reflexivity. Qed.
Print Assumptions C12_inc_forms_int.

(* a block of one statement, an if with a true condition and the statement
   itself are the same computation *)
Theorem C12_block_of_one : forall n x e st, eval (S n) (NBlock [x]) e st = eval n x e st.
Proof. exact sem_block_single. Qed.
Print Assumptions C12_block_of_one.

Theorem C12_if_true_is_body : forall n c t e st st1,
  eval n c e st = Done st1 (CVal (VBool true)) -> eval (S n) (NIf c t) e st = eval n t e st1.
Proof. exact sem_if_true. Qed.
Print Assumptions C12_if_true_is_body.

(* if !c A else B  is  if c B else A  (for a condition that evaluates to a boolean) *)
Theorem C12_negated_if_swap : forall n c a b e st st1 v,
  eval n c e st = Done st1 (CVal (VBool v)) ->
  eval (S (S n)) (NIfElse (NUn "!" c) a b) e st = eval (S (S n)) (NIfElse c b a) e st \/
  (eval (S (S n)) (NIfElse (NUn "!" c) a b) e st = (if negb v then eval (S n) a e st1 else eval (S n) b e st1)).
Proof.
  intros n c a b e st st1 v H. right.
  change (eval (S (S n)) (NIfElse (NUn "!" c) a b) e st) with
    (bind (eval (S n) (NUn "!" c) e st) (fun st1 cv =>
       as_cond st1 cv (fun st2 bb => if bb then eval (S n) a e st2 else eval (S n) b e st2))).
  change (eval (S n) (NUn "!" c) e st) with
    (bind (eval n c e st) (fun st1 a0 =>
       match unop_sem "!" a0 with Some r => lift_res st1 r | None => Done st1 (CAbort "unexpected op") end)).
  rewrite H. cbn. destruct v; reflexivity.
Qed.
Print Assumptions C12_negated_if_swap.

(* a condition must be a boolean in if, if-else and while alike *)
Theorem C12_condition_must_be_boolean : forall n c t f e st st1 v x,
  eval n c e st = Done st1 (CVal v) -> cond_error v = Some x ->
  eval (S n) (NIf c t) e st = Done st1 (CErr x) /\
  eval (S n) (NIfElse c t f) e st = Done st1 (CErr x).
Proof. exact sem_condition_must_be_bool. Qed.
Print Assumptions C12_condition_must_be_boolean.

Theorem C12_while_condition_must_be_boolean : forall n c b e st st1 v x,
  eval (S n) c e st = Done st1 (CVal v) -> cond_error v = Some x ->
  eval (S (S n)) (NWhile c b) e st = Done st1 (CErr x).
Proof. exact sem_while_condition_must_be_bool. Qed.
Print Assumptions C12_while_condition_must_be_boolean.

(* every compilation context gives a pure expression the same meaning.  Unfolded:
   comp e sel fl s = COk (w, s') implies there are code, K, A with
   - s' is s extended by exactly that code (and data);
   - w encodes operand (K, A) for selector sel, K one of stack/temp/data/global;
   - the temp register is only used when the context allows it, never handed
     to a context that is at depth 0 and neither discards nor accepts it;
   - run from any machine state whose program holds that code at its place,
     the code ends at its end with the value den e in (K, A), the stack below
     unchanged (and the temp register unchanged when forbidden) — or stops
     with the error den e has. *)
Theorem C12_pure_expression_any_context : forall e, pure e = true ->
  forall sel fl s w s', 0 <= sel <= 2 -> wfcs s -> Compile.comp e sel fl s = COk (w, s') ->
  exists code K A,
    rcs s' = rev code ++ rcs s /\ ncs s' = ncs s + zlen code /\ (exists d, rds s' = d ++ rds s) /\ wfcs s' /\
    EncodeSrc sel K A = Some w /\ okind K /\
    (K = AddrTmp -> ForbidTemp fl = false) /\
    (OpDepth fl = 0 -> Discard fl = false -> AcceptTemp fl = false -> K <> AddrTmp) /\
    forall rr v mid m r,
      code_at v (ncs s) code -> data_at v s' -> cur_mid v r = Good mid ->
      0 <= m_sp m <= zlen (m_stack m) -> r_ip r = ncs s ->
      match den (v_globals v) e with
      | Ok x => exists m' r', steps rr (List.length code) (St v mid m) r = SNext (St v mid m') r' /\
                  msame (m_sp m) m m' /\ r_ctx r' = r_ctx r /\ r_ip r' = ncs s' /\
                  (ForbidTemp fl = true -> r_tmp r' = r_tmp r) /\ opnd v (m_sp m) K A x m' r'
      | Fail err => exists me ip vals, steps rr (List.length code) (St v mid m) r = SErr (St v mid me) (r_ctx r) ip err vals
      end.
Proof. exact comp_pure_spec. Qed.
Print Assumptions C12_pure_expression_any_context.

(* e op e  and  t = e; t op t : the shortcut for equal operands computes the same *)
Theorem C12_same_operands : forall G op c e, binop_opcode op = Some c ->
  den G (NBin op e e) = match den G e with Fail err => Fail err | Ok a => apply_binop c a a end.
Proof. intros G op c e H. cbn [den]. rewrite H. destruct (den G e); reflexivity. Qed.
Print Assumptions C12_same_operands.

(* a statement means the same whether its value is used or discarded: in both compilation modes
   the emitted code realises ssem (the flag d is the Discard flag) *)
Theorem C12_statement_used_or_discarded : forall Bf t, wstmt t = true ->
  forall d sel s w s', sel = 0 -> wfcs s -> Compile.comp t sel (tfl d) s = COk (w, s') -> SpecS Bf t d sel s s' w.
Proof. exact comp_stmt. Qed.
Print Assumptions C12_statement_used_or_discarded.

(* the condition of if and while must be a boolean wherever the statement stands: the meaning
   the compiled code has goes through cond_res *)
Theorem C12_condition_class : forall r,
  cond_res r = match r with
               | Fail e => Fail e
               | Ok (VBool b) => Ok b
               | Ok VNil => Fail ErrNil
               | Ok _ => Fail ErrType
               end.
Proof. intros r. reflexivity. Qed.
Print Assumptions C12_condition_class.

Theorem C12_negated_if_swap_compiled : forall Bf n G c a b r,
  pure c = true ->
  ssem Bf (S n) G (NIfElse (NUn "!" c) a b) = Some r -> ssem Bf (S n) G (NIfElse c b a) = Some r.
Proof. exact negated_if_swap. Qed.
Print Assumptions C12_negated_if_swap_compiled.

(* x = x + 1  and  x = 1 + x  mean the same for every value of x (ints, floats, and the same error otherwise);
   both compile to INC, whose meaning is the first form *)
Theorem C12_inc_forms : forall G g,
  den G (NBin "+" (NName g) (NInt 1)) = den G (NBin "+" (NInt 1) (NName g)).
Proof. intros G g. rewrite den_inc_left, den_inc_right. symmetry. apply arith_add_1_comm. Qed.
Print Assumptions C12_inc_forms.

(* ---- through a temporary variable ---- *)
(* `e op e`  versus  `t = e` then `t op t`: the second statement, run where t holds e's value, gives what
   `e op e` gives (sem_simple is what the compiled statements realise: C01_simple_statement) *)
Theorem C12_same_operands_via_temp : forall G op c e t a,
  binop_opcode op = Some c -> den G e = Ok a -> is_nil a = false ->
  fst (sem_simple G (NAssign (NName t) e)) = sassoc_set G t a /\
  den (sassoc_set G t a) (NBin op (NName t) (NName t)) = den G (NBin op e e).
Proof.
  intros G op c e t a Hc He Hn. split.
  - cbn [sem_simple]. rewrite He, Hn. reflexivity.
  - cbn [den]. rewrite Hc, He, gval_set_same. reflexivity.
Qed.
Print Assumptions C12_same_operands_via_temp.

(* when e fails, `t = e` fails with the same error as `e op e` and binds nothing *)
Theorem C12_same_operands_via_temp_error : forall G op c e t err,
  binop_opcode op = Some c -> den G e = Fail err ->
  sem_simple G (NAssign (NName t) e) = (G, Fail err) /\ den G (NBin op e e) = Fail err.
Proof.
  intros G op c e t err Hc He. split.
  - cbn [sem_simple]. rewrite He. reflexivity.
  - cbn [den]. rewrite Hc, He. reflexivity.
Qed.
Print Assumptions C12_same_operands_via_temp_error.

(* `x = x + 1`  versus  `t = x` then `x = t + 1`  (t another variable): same value, same binding of x *)
Theorem C12_increment_via_temp : forall G x t,
  t <> x -> is_nil (gval G x) = false ->
  let G1 := fst (sem_simple G (NAssign (NName t) (NName x))) in
  snd (sem_simple G1 (NAssign (NName x) (NBin "+" (NName t) (NInt 1)))) =
  snd (sem_simple G (NAssign (NName x) (NBin "+" (NName x) (NInt 1)))) /\
  gval (fst (sem_simple G1 (NAssign (NName x) (NBin "+" (NName t) (NInt 1))))) x =
  gval (fst (sem_simple G (NAssign (NName x) (NBin "+" (NName x) (NInt 1))))) x.
Proof.
  intros G x t Hne Hn. cbv zeta. cbn [sem_simple den]. rewrite Hn. cbn [fst snd].
  change (binop_opcode "+") with (Some ADD). cbn [den]. rewrite gval_set_same.
  destruct (apply_binop ADD (gval G x) (VInt 1)) as [y|err]; cbn [fst snd].
  - destruct (is_nil y); cbn [fst snd]; [split; [reflexivity|apply gval_set_other; exact Hne]|]. split; [reflexivity|]. rewrite !gval_set_same. reflexivity.
  - split; [reflexivity|]. apply gval_set_other. exact Hne.
Qed.
Print Assumptions C12_increment_via_temp.

(* ---- inside function bodies ---- *)
Require Calc.LExprCorrect.
Require Import Calc.LExprSem.
(* an expression over the function's variables and the globals means the same — lden — under every
   selector and every flag combination, the flags a function body is compiled with (Returning, InFunc)
   included: the last expression of a function or not *)
Theorem C12_body_expression_any_context : forall L e, lpure L e = true ->
  forall sel fl s w s', 0 <= sel <= 2 -> wfcs s -> Compile.comp e sel fl s = COk (w, s') ->
  LExprCorrect.SpecD L (fun G => lden L G e) sel fl s s' w.
Proof. intros L e Hp. exact (LExprCorrect.comp_lpure_spec L e Hp). Qed.
Print Assumptions C12_body_expression_any_context.

(* the argument of a call is compiled as the same expression anywhere else, and the call's value does not
   depend on whether it is used or discarded (d) *)
Theorem C12_call_used_or_discarded : forall Bf nm e d s s' w,
  pure e = true -> wfcs s ->
  Compile.comp (NCall (NName nm) [e]) 0 (tfl d) s = COk (w, s') ->
  SpecS Bf (NCall (NName nm) [e]) d 0 s s' w.
Proof.
  intros Bf nm e d s s' w Hp Hwf H.
  apply (comp_stmt Bf (NCall (NName nm) [e])); [cbn [wstmt is_bcall forallb]; rewrite Hp; reflexivity|reflexivity|exact Hwf|exact H].
Qed.
Print Assumptions C12_call_used_or_discarded.
