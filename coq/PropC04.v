(* PropC04.v — C04: lexical scoping and isolation.

   Proved here, about the resolver model (coq/Resolve.v, compared with
   STRewrite's output on every generated program): a read resolves to the
   function's own variable, else to the immediately enclosing function's,
   else to the global, and never further out; a write inside a function always
   targets that function's own scope.  NOT proved: that the VM keeps caller
   variables and globals untouched across calls and that escaped closures see
   the right frame ([C04_call_preserves_caller_statement], open; K2 is an
   open finding).  The check decides that part by fingerprinting globals and
   caller variables around calls on the real code and by Sem as oracle. *)
Require Import Calc.Base Calc.Bytecode Calc.Value Calc.FloatText Calc.Ast Calc.Resolve Calc.ResolveProofs
        Calc.Compile Calc.VM Calc.Sem.
Open Scope Z_scope.

(* open statement, on the definitional semantics: a call of a resolved
   function changes no global (all its writes are to its own frame) *)
Definition C04_call_preserves_caller_statement : Prop :=
  forall fuel name args e st st' c,
    eval fuel (NCall name args) e st = Done st' c ->
    (forall a, In a args -> forall st0 st1 c0, eval fuel a e st0 = Done st1 c0 -> s_globals st1 = s_globals st0) ->
    s_globals st' = s_globals st.

Theorem C04_read_resolution_rule : forall outer2 encl top n,
  resolve_name n ((outer2 ++ [encl]) ++ [top]) =
    Some (match scope_get top n with
          | Some ix => NLocal ix n
          | None => match scope_get encl n with
                    | Some ix => NClosure ix n
                    | None => NName n
                    end
          end, (outer2 ++ [encl]) ++ [top]).
Proof. exact resolve_name_rule. Qed.
Print Assumptions C04_read_resolution_rule.

Theorem C04_read_resolution_one_scope : forall top n,
  resolve_name n [top] =
    Some (match scope_get top n with Some ix => NLocal ix n | None => NName n end, [top]).
Proof. exact resolve_name_one_scope. Qed.
Print Assumptions C04_read_resolution_one_scope.

Theorem C04_write_targets_own_scope : forall outer top n,
  slot_for_write n (outer ++ [top]) =
    Some (match scope_get top n with
          | Some ix => (ix, outer ++ [top])
          | None => (scope_len top, outer ++ [scope_put top n (scope_len top)])
          end).
Proof. exact slot_for_write_rule. Qed.
Print Assumptions C04_write_targets_own_scope.

Theorem C04_assignment_in_function_is_local : forall t n e e' s t',
  resolve e t = Some (e', s :: t') ->
  exists ix t'', slot_for_write n (s :: t') = Some (ix, t'') /\
                 resolve (NAssign (NName n) e) t = Some (NAssign (NLocal ix n) e', t'').
Proof. exact assign_in_function_is_local. Qed.
Print Assumptions C04_assignment_in_function_is_local.

Theorem C04_fresh_slot_is_distinct : forall s n m v,
  n <> m -> scope_get (scope_put s n v) m = scope_get s m.
Proof. exact scope_get_put_other. Qed.
Print Assumptions C04_fresh_slot_is_distinct.

Theorem C04_top_level_assign_is_global : forall n e e',
  resolve e [] = Some (e', []) ->
  resolve (NAssign (NName n) e) [] = Some (NAssign (NName n) e', []).
Proof. exact top_level_assign_is_global. Qed.
Print Assumptions C04_top_level_assign_is_global.

(* ---- a call cannot disturb its caller: the built-in calls, as compiled and run ---- *)
Require Import Calc.ExprSem Calc.ExprVM Calc.ExprCorrect Calc.ExprSession Calc.StmtSem Calc.StmtRel Calc.StmtCorrect.

(* the meaning the compiled call nm(e) has (C01_statement_compiled) changes no global binding *)
Theorem C04_builtin_call_changes_no_global : forall Bf n W nm e W' res,
  ssem Bf n W (NCall (NName nm) [e]) = Some (W', res) -> w_glob W' = w_glob W.
Proof.
  intros Bf n W nm e W' res H. destruct (bop_of_name nm) as [b|] eqn:Eb.
  - apply (ssem_call Bf _ _ _ b _ _ _ Eb) in H. destruct H as (mo & fid & _ & _ & H).
    destruct (den (w_glob W) e) as [x|err]; destruct H as [-> _]; [|reflexivity].
    destruct b; reflexivity.
  - apply (ssem_ucall Bf _ _ _ _ _ _ Eb) in H. destruct H as (n' & _ & H).
    destruct (ucall_sem_facts Bf n' W nm [e] W' res H) as (body & _ & Hg & _). exact Hg.
Qed.
Print Assumptions C04_builtin_call_changes_no_global.

(* g = nm(e) binds g and nothing else *)
Theorem C04_assignment_from_call_binds_only_its_target : forall Bf n W g nm e W' res g',
  pure e = true -> g' <> g ->
  ssem Bf n W (NAssign (NName g) (NCall (NName nm) [e])) = Some (W', res) ->
  gval (w_glob W') g' = gval (w_glob W) g'.
Proof.
  intros Bf n W g nm e W' res g' Hp Hne H.
  apply (ssem_assign_call Bf n W g (NCall (NName nm) [e]) W' res eq_refl) in H. destruct H as [n' [-> H]].
  destruct (ssem Bf n' W (NCall (NName nm) [e])) as [[W1 [y|err]]|] eqn:E; [| |contradiction].
  - pose proof (C04_builtin_call_changes_no_global Bf n' W nm e W1 (Ok y) E) as EG.
    destruct (is_nil y); destruct H as [-> _].
    + rewrite EG. reflexivity.
    + cbn [wglob w_glob]. rewrite EG. apply gval_set_other. congruence.
  - destruct H as [-> _]. rewrite (C04_builtin_call_changes_no_global Bf n' W nm e W1 (Fail err) E). reflexivity.
Qed.
Print Assumptions C04_assignment_from_call_binds_only_its_target.

(* and, run by the VM from any state, the call leaves every frame, the closure stack and every stack cell
   below it as they were (msame in RunsS): the callee's frame is gone when it returns *)
Theorem C04_compiled_call_restores_the_caller : forall Bf nm b e d s s' w,
  bop_of_name nm = Some b -> pure e = true -> wfcs s ->
  Compile.comp (NCall (NName nm) [e]) 0 (tfl d) s = COk (w, s') ->
  SpecS Bf (NCall (NName nm) [e]) d 0 s s' w.
Proof.
  intros Bf nm b e d s s' w Hb Hp Hwf H.
  apply (comp_stmt Bf (NCall (NName nm) [e])); [cbn [wstmt is_bcall forallb]; rewrite Hp; reflexivity|reflexivity|exact Hwf|exact H].
Qed.
Print Assumptions C04_compiled_call_restores_the_caller.

(* ---- user functions ---- *)
(* a call of a user function, as the compiled code runs it, changes no global, writes nothing, reads no
   input (C04_builtin_call_changes_no_global covers the globals for every callee) *)
Theorem C04_user_call_changes_nothing : forall Bf n W nm args W' res,
  ucall_sem Bf n W nm args = Some (W', res) ->
  w_glob W' = w_glob W /\ w_out W' = w_out W /\ w_in W' = w_in W.
Proof.
  intros Bf n W nm args W' res H.
  destruct (ucall_sem_facts Bf n W nm args W' res H) as (body & _ & Hg & Ho & Hi & _). auto.
Qed.
Print Assumptions C04_user_call_changes_nothing.

(* inside the body, the parameter resolves to the function's own variable: reading local 0 gives the
   argument of THIS activation (lval), whatever the caller's variables or the globals of that name hold *)
Theorem C04_parameter_is_the_argument : forall x G n, LExprSem.lden [x] G (NLocal 0 n) = Ok x.
Proof. intros x G n. reflexivity. Qed.
Print Assumptions C04_parameter_is_the_argument.

(* ---- definitions ---- *)
Require Import Calc.Session Calc.ExprTop Calc.StmtTop Calc.StmtDef.

(* a top-level definition f = (ps) -> body, as the compiled code runs it in a session, binds f and nothing else:
   every other global keeps its value, nothing is written, no input is read *)
Theorem C04_definition_binds_only_its_name : forall B t f ps body lc mc c m,
  bready B mc c m -> m_fp m = [] -> ncs (mc_cs mc) + 1 < 4294967296 ->
  strewrite t = Some (NAssign (NName f) (NFunction ps body lc)) ->
  CompileWf.wfb (NAssign (NName f) (NFunction ps body lc)) = true ->
  LExprSem.lpure (repeat VNil (List.length ps)) body = true -> lc = Z.of_nat (List.length ps) ->
  bop_of_name f = None -> f <> "read"%string ->
  snd (run_tree false mc t) = TRefused \/
  let v' := mc_vm (fst (run_tree false mc t)) in
  (forall g, g <> f -> gval (v_globals v') g = gval (v_globals (mc_vm mc)) g) /\
  v_out v' = v_out (mc_vm mc) /\ v_in v' = v_in (mc_vm mc).
Proof.
  intros B t f ps body lc mc c m Hr Hfp Hbig Hst Hwb Hp Hlc Hb Hrd.
  destruct (def_step B t f ps body lc mc c m Hr Hfp Hbig Hst Hwb Hp Hlc Hb Hrd) as [Ref|[c' [m' (_ & Hw & _)]]];
    [left; exact Ref|right].
  cbv zeta in Hw |- *. unfold wof, wbump, wglob in Hw. cbn [w_glob w_out w_in w_next] in Hw. injection Hw as Hg Ho Hi _.
  split; [|split; assumption]. intros g Hne. rewrite Hg. apply gval_set_other. intros E. apply Hne. symmetry. exact E.
Qed.
Print Assumptions C04_definition_binds_only_its_name.

(* ---- calls as statements of a session ---- *)
Require Import Calc.ExprVM Calc.ExprAssign Calc.ExprLen Calc.CompileWf Calc.StmtVM Calc.StmtMixed Calc.StmtModes.

(* whatever the callee — a leaf built-in, read, a user function of any arity, the wrong number of arguments —
   the meaning of the call statement leaves every global as it was; and so does the compiled run at any point
   of a session *)
Theorem C04_any_call_changes_no_global : forall B n W nm args W' res,
  ssem B n W (NCall (NName nm) args) = Some (W', res) -> w_glob W' = w_glob W.
Proof.
  intros B n W nm args W' res H. destruct n as [|n]; [discriminate H|].
  assert (U : forall l, ucall_sem B n W nm l = Some (W', res) -> w_glob W' = w_glob W).
  { intros l Hu. destruct (ucall_sem_facts B n W nm l W' res Hu) as (body & _ & Hg & _). exact Hg. }
  destruct args as [|a [|a2 l]]; cbn [ssem] in H.
  - destruct (String.eqb nm "read").
    + destruct (Nat.leb 1 n && fun_eqb (gval (w_glob W) nm) (ft_val B nm)); [|discriminate H].
      injection H as <- _. unfold read_sem. destruct (w_in W); reflexivity.
    + destruct (bop_of_name nm); [discriminate H|]. exact (U [] H).
  - destruct (bop_of_name nm) as [b|]; [|exact (U [a] H)].
    destruct (Nat.leb (height a) n && Nat.leb 2 n && fun_eqb (gval (w_glob W) nm) (ft_val B nm)); [|discriminate H].
    destruct (den (w_glob W) a) as [x|err]; injection H as <- _; [|reflexivity]. destruct b; reflexivity.
  - destruct (bop_of_name nm); [discriminate H|]. destruct (String.eqb nm "read"); [discriminate H|]. exact (U _ H).
Qed.
Print Assumptions C04_any_call_changes_no_global.

Theorem C04_call_in_a_session_changes_no_global : forall B mc c m nm args n W' res,
  tready B mc c m -> forallb pure args = true -> wfb (NCall (NName nm) args) = true ->
  ssem B n (wof (mc_vm mc)) (NCall (NName nm) args) = Some (W', res) ->
  let t := NCall (NName nm) args in
  stuck_m (snd (run_tree false mc t)) \/
  (tree_agrees (snd (run_tree false mc t)) res /\ v_globals (mc_vm (fst (run_tree false mc t))) = v_globals (mc_vm mc)).
Proof.
  intros B mc c m nm args n W' res Hr Hp Hwb HM. cbv zeta.
  pose proof (stmt_step_m false B (NCall (NName nm) args) mc c m n W' res Hr Hp Hwb HM) as S. unfold outcome_m in S.
  destruct S as [S|[S|[Ha [Hg _]]]]; [left; left; exact S|left; right; exact S|right].
  split; [exact Ha|]. pose proof (C04_any_call_changes_no_global B n _ nm args W' res HM) as E.
  rewrite <- Hg in E. exact E.
Qed.
Print Assumptions C04_call_in_a_session_changes_no_global.
