(* PropC04.v — C04: lexical scoping and isolation.

   Proved here, about the resolver model (coq/Resolve.v, compared with
   STRewrite's output on every generated program): a read resolves to the
   function's own variable, else to the immediately enclosing function's,
   else to the global, and never further out; a write inside a function always
   targets that function's own scope.  NOT proved: that the VM keeps caller
   variables and globals untouched across calls and that escaped closures see
   the right frame ([C04_call_preserves_caller_statement], open; K2 is an
   open finding).  The check decides that part by fingerprinting globals and
   caller variables around calls on the real code and by Sem as oracle. *)
Require Import Calc.Base Calc.Bytecode Calc.Value Calc.FloatText Calc.Ast Calc.Resolve Calc.ResolveProofs
        Calc.Compile Calc.VM Calc.Sem.
Open Scope Z_scope.

(* open statement, on the definitional semantics: a call of a resolved
   function changes no global (all its writes are to its own frame) *)
Definition C04_call_preserves_caller_statement : Prop :=
  forall fuel name args e st st' c,
    eval fuel (NCall name args) e st = Done st' c ->
    (forall a, In a args -> forall st0 st1 c0, eval fuel a e st0 = Done st1 c0 -> s_globals st1 = s_globals st0) ->
    s_globals st' = s_globals st.

Theorem C04_read_resolution_rule : forall outer2 encl top n,
  resolve_name n ((outer2 ++ [encl]) ++ [top]) =
    Some (match scope_get top n with
          | Some ix => NLocal ix n
          | None => match scope_get encl n with
                    | Some ix => NClosure ix n
                    | None => NName n
                    end
          end, (outer2 ++ [encl]) ++ [top]).
Proof. exact resolve_name_rule. Qed.
Print Assumptions C04_read_resolution_rule.

Theorem C04_read_resolution_one_scope : forall top n,
  resolve_name n [top] =
    Some (match scope_get top n with Some ix => NLocal ix n | None => NName n end, [top]).
Proof. exact resolve_name_one_scope. Qed.
Print Assumptions C04_read_resolution_one_scope.

Theorem C04_write_targets_own_scope : forall outer top n,
  slot_for_write n (outer ++ [top]) =
    Some (match scope_get top n with
          | Some ix => (ix, outer ++ [top])
          | None => (scope_len top, outer ++ [scope_put top n (scope_len top)])
          end).
Proof. exact slot_for_write_rule. Qed.
Print Assumptions C04_write_targets_own_scope.

Theorem C04_assignment_in_function_is_local : forall t n e e' s t',
  resolve e t = Some (e', s :: t') ->
  exists ix t'', slot_for_write n (s :: t') = Some (ix, t'') /\
                 resolve (NAssign (NName n) e) t = Some (NAssign (NLocal ix n) e', t'').
Proof. exact assign_in_function_is_local. Qed.
Print Assumptions C04_assignment_in_function_is_local.

Theorem C04_fresh_slot_is_distinct : forall s n m v,
  n <> m -> scope_get (scope_put s n v) m = scope_get s m.
Proof. exact scope_get_put_other. Qed.
Print Assumptions C04_fresh_slot_is_distinct.

Theorem C04_top_level_assign_is_global : forall n e e',
  resolve e [] = Some (e', []) ->
  resolve (NAssign (NName n) e) [] = Some (NAssign (NName n) e', []).
Proof. exact top_level_assign_is_global. Qed.
Print Assumptions C04_top_level_assign_is_global.
