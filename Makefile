# setup: build the Coq development and the Go harness from files on disk only.
.PHONY: setup coq harness clean
setup: coq harness

coq:
	cd coq && coq_makefile -f _CoqProject -o Makefile
	$(MAKE) -C coq -f Makefile -j16

harness:
	mkdir -p build
	cp /repo/go.sum harness/go.sum
	cd harness && GOFLAGS=-mod=mod GOPROXY=off GOSUMDB=off GOTOOLCHAIN=local go build -tags verif -o ../build/harness .

clean:
	-$(MAKE) -C coq -f Makefile clean
	rm -rf build coq/Makefile coq/Makefile.conf
