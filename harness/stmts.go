package main

import (
	"bufio"
	"encoding/json"
	"fmt"
	"time"

	"github.com/paulsonkoly/calc/parser"
	"github.com/paulsonkoly/calc/types/node"
)

type stmtsCase struct {
	Stmts   [][]int `json:"stmts"`
	DoOut   bool    `json:"doout"`
	Timeout int     `json:"timeout_ms"`
}

// cmdStmts enters each statement on its own (processInput) on one machine and
// returns what each one printed: the reference for "as if entered on its own" (C16).
func cmdStmts(in *bufio.Reader) {
	readLines(in, func(line []byte) {
		var c stmtsCase
		if err := json.Unmarshal(line, &c); err != nil {
			panic(err)
		}
		if c.Timeout == 0 {
			c.Timeout = 10000
		}
		type result struct {
			outs  [][]int
			panic string
		}
		done := make(chan result)
		go func() {
			var r result
			mc := newMachine()
			for _, s := range c.Stmts {
				stopped := false
				o := captureStdout(func() {
					defer func() {
						if e := recover(); e != nil {
							r.panic = fmt.Sprint(e)
							stopped = true
						}
					}()
					node.VerifProcessInput(bytesOf(s), parser.Type{}, mc.vm, c.DoOut)
				})
				r.outs = append(r.outs, bytesToInts([]byte(maskReport(string(o)))))
				if stopped {
					break
				}
			}
			done <- r
		}()
		select {
		case r := <-done:
			emit(map[string]any{"outs": r.outs, "panic": r.panic})
		case <-time.After(time.Duration(c.Timeout) * time.Millisecond):
			emit(map[string]any{"hang": true})
			out.Flush()
			os_exit(3)
		}
	})
}
