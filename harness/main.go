// Command verifharness drives the real calc packages (built from /repo's
// working tree with -tags verif) on cases read from stdin, one JSON document
// per line, and writes one JSON document per line with what the real code did.
package main

import (
	"bufio"
	"encoding/json"
	"errors"
	"fmt"
	"os"

	"github.com/paulsonkoly/calc/types/value"
	"github.com/paulsonkoly/calc/vm"
)

var out *bufio.Writer

func emit(v any) {
	b, err := json.Marshal(v)
	if err != nil {
		panic(err)
	}
	out.Write(b)
	out.WriteByte('\n')
}

func errClass(err error) string {
	switch {
	case err == nil:
		return "none"
	case errors.Is(err, value.ErrNil):
		return "nil"
	case errors.Is(err, value.ErrType):
		return "type"
	case errors.Is(err, value.ErrZeroDiv):
		return "zerodiv"
	case errors.Is(err, value.ErrIndex):
		return "index"
	case errors.Is(err, vm.ErrArity):
		return "arity"
	case errors.Is(err, vm.ErrConversion):
		return "conversion"
	}
	if len(err.Error()) >= 10 && err.Error()[:10] == "read error" {
		return "read"
	}
	return "other:" + err.Error()
}

var realStdout = os.Stdout

func os_exit(code int) { os.Exit(code) }

func main() {
	out = bufio.NewWriterSize(realStdout, 1<<20)
	defer out.Flush()
	if len(os.Args) < 2 {
		fmt.Fprintln(os.Stderr, "usage: verifharness <command>")
		os.Exit(2)
	}
	// cases come from a file (second argument): standard input is left alone
	// because the VM's READ instruction reads it
	var in *bufio.Reader
	if len(os.Args) > 2 && os.Args[1] != "encsrc" && os.Args[1] != "builtins" {
		f, err := os.Open(os.Args[2])
		if err != nil {
			fmt.Fprintln(os.Stderr, err)
			os.Exit(2)
		}
		defer f.Close()
		in = bufio.NewReaderSize(f, 1<<20)
	} else {
		in = bufio.NewReaderSize(os.Stdin, 1<<20)
	}
	switch os.Args[1] {
	case "encsrc":
		cmdEncSrc()
	case "builtins":
		cmdBuiltins()
	case "valop":
		cmdValOp(in)
	case "lex":
		cmdLex(in)
	case "tlex":
		cmdTLex(in)
	case "comb":
		cmdComb(in)
	case "parse":
		cmdParse(in)
	case "session":
		cmdSession(in)
	case "loop":
		cmdLoop(in)
	case "memops":
		cmdMemOps(in)
	case "valseq":
		cmdValSeq(in)
	case "loopsplit":
		cmdLoopSplit(in)
	case "stmts":
		cmdStmts(in)
	case "consts":
		cmdConsts(in)
	default:
		fmt.Fprintln(os.Stderr, "unknown command", os.Args[1])
		os.Exit(2)
	}
}

// readLines calls f for each input line.
func readLines(in *bufio.Reader, f func(line []byte)) {
	for {
		line, err := in.ReadBytes('\n')
		if len(line) > 0 {
			f(line)
		}
		if err != nil {
			return
		}
	}
}
