package main

import (
	"bufio"
	"encoding/json"
	"fmt"
	"time"

	"github.com/paulsonkoly/calc/lexer"
	"github.com/paulsonkoly/calc/types/token"
)

type lexCase struct {
	Input []int  `json:"input"` // bytes
	Ops   string `json:"ops"`   // for tlex: N S R C
}

func bytesOf(ints []int) string {
	b := make([]byte, len(ints))
	for i, v := range ints {
		b[i] = byte(v)
	}
	return string(b)
}

type tokOut struct {
	Ok   bool   `json:"ok"`
	Kind int    `json:"kind"`
	Val  []int  `json:"val"`
	From int    `json:"from"`
	To   int    `json:"to"`
	Err  string `json:"err,omitempty"`
}

func tokOf(t token.Type, err error) tokOut {
	o := tokOut{Ok: true, Kind: int(t.Type), Val: bytesToInts([]byte(t.Value)), From: t.From(), To: t.To()}
	if err != nil {
		o.Err = err.Error()
	}
	return o
}

// cmdLex runs lexer.Lexer over each input until Next returns false, the first
// error, or a step bound (a lexer that keeps returning tokens forever).
func cmdLex(in *bufio.Reader) {
	readLines(in, func(line []byte) {
		var c lexCase
		if err := json.Unmarshal(line, &c); err != nil {
			panic(err)
		}
		input := bytesOf(c.Input)
		type res struct {
			toks  []tokOut
			panic string
			over  bool
		}
		done := make(chan res)
		go func() {
			var r res
			defer func() {
				if e := recover(); e != nil {
					r.panic = fmt.Sprint(e)
				}
				done <- r
			}()
			l := lexer.NewLexer(input)
			limit := 2*len(input) + 8
			for i := 0; ; i++ {
				if i > limit {
					r.over = true
					break
				}
				if !l.Next() {
					break
				}
				r.toks = append(r.toks, tokOf(l.Token, l.Err))
				if l.Err != nil {
					break
				}
			}
		}()
		select {
		case r := <-done:
			emit(map[string]any{"toks": r.toks, "panic": r.panic, "over": r.over})
		case <-time.After(3 * time.Second):
			emit(map[string]any{"hang": true})
			out.Flush()
			os_exit(3)
		}
	})
}

// cmdTLex applies an operation sequence to lexer.TLexer and reports what each
// Next made visible.  Illegal pops (no snapshot) are skipped and marked.
func cmdTLex(in *bufio.Reader) {
	readLines(in, func(line []byte) {
		var c lexCase
		if err := json.Unmarshal(line, &c); err != nil {
			panic(err)
		}
		type step struct {
			Op   string  `json:"op"`
			Ret  bool    `json:"ret"`
			Tok  *tokOut `json:"tok,omitempty"`
			From int     `json:"from"`
			To   int     `json:"to"`
			Skip bool    `json:"skip,omitempty"`
		}
		steps := []step{}
		pan := ""
		func() {
			defer func() {
				if e := recover(); e != nil {
					pan = fmt.Sprint(e)
				}
			}()
			tl := lexer.NewTLexer(bytesOf(c.Input))
			depth := 0
			seen := false
			for _, op := range c.Ops {
				s := step{Op: string(op)}
				switch op {
				case 'N':
					s.Ret = tl.Next()
					if s.Ret {
						seen = true
					}
					if seen {
						t := tokOf(tl.Token().(token.Type), tl.Err())
						s.Tok = &t
						s.From, s.To = tl.From(), tl.To()
					}
				case 'S':
					tl.Snapshot()
					depth++
				case 'R':
					if depth == 0 {
						s.Skip = true
					} else {
						tl.Rollback()
						depth--
					}
				case 'C':
					if depth == 0 {
						s.Skip = true
					} else {
						tl.Commit()
						depth--
					}
				}
				steps = append(steps, s)
			}
		}()
		emit(map[string]any{"steps": steps, "panic": pan})
	})
}
