package main

import (
	"bufio"
	"encoding/json"
	"fmt"
	"slices"

	"github.com/paulsonkoly/calc/memory"
	"github.com/paulsonkoly/calc/types/value"
)

type memOp struct {
	Op    string `json:"op"`
	M     int    `json:"m"`
	A     int    `json:"a"`
	L     int    `json:"l"`
	I     int    `json:"i"`
	H     int    `json:"h"`
	V     *int   `json:"v"`
	N     string `json:"n"`
	Reuse *int   `json:"reuse"`
}

type memCase struct {
	Ops []memOp `json:"ops"`
}

func memVal(p *int) value.Type {
	if p == nil {
		return value.Nil
	}
	return value.NewInt(*p)
}

func memObs(v value.Type) any {
	if i, ok := v.ToInt(); ok {
		return i
	}
	if v.VerifKind() == 0 {
		return nil
	}
	return "other:" + fmt.Sprint(v.VerifKind())
}

// cmdMemOps replays a history of memory operations on real memory.Type values
// (C18).  One result per operation: the value a read returned, the stack
// pointer, frame depth, slice length and capacity of the memory it touched.
func cmdMemOps(in *bufio.Reader) {
	readLines(in, func(line []byte) {
		var c memCase
		if err := json.Unmarshal(line, &c); err != nil {
			panic(err)
		}
		mems := []*memory.Type{memory.New()}
		handles := []memory.Frame{}
		results := make([]map[string]any, 0, len(c.Ops))
		dead := false
		for _, o := range c.Ops {
			r := map[string]any{}
			if dead {
				r["skipped"] = true
				results = append(results, r)
				continue
			}
			func() {
				defer func() {
					if e := recover(); e != nil {
						r["panic"] = fmt.Sprint(e)
						dead = true
					}
				}()
				var m *memory.Type
				if o.Op != "own" && o.Op != "setglobal" && o.Op != "global" {
					m = mems[o.M]
				}
				switch o.Op {
				case "push":
					m.Push(memVal(o.V))
				case "pop":
					r["val"] = memObs(m.Pop())
					r["read"] = true
				case "pushframe":
					m.PushFrame(o.A, o.L)
				case "popframe":
					m.PopFrame()
				case "set":
					m.Set(o.I, memVal(o.V))
				case "local":
					r["val"] = memObs(m.LookUpLocal(o.I))
					r["read"] = true
				case "capture":
					handles = append(handles, m.Top())
				case "own":
					handles = append(handles, slices.Clone(handles[o.H]))
				case "pushclosure":
					m.PushClosure(handles[o.H])
				case "popclosure":
					m.PopClosure()
				case "closure":
					r["val"] = memObs(m.LookUpClosure(o.I))
					r["read"] = true
				case "setglobal":
					mems[0].SetGlobal(o.N, memVal(o.V))
				case "global":
					r["val"] = memObs(mems[o.M].LookUpGlobal(o.N))
					r["read"] = true
				case "clone":
					if o.Reuse != nil {
						mems[*o.Reuse] = m.Clone(mems[*o.Reuse])
					} else {
						mems = append(mems, m.Clone(nil))
					}
				case "ipget":
					r["val"] = memObs(*m.IP())
					r["read"] = true
				case "ipset":
					*m.IP() = memVal(o.V)
				default:
					panic("unknown memory op " + o.Op)
				}
				if m != nil {
					r["sp"] = m.VerifSP()
					r["depth"] = m.VerifFrameDepth()
					r["len"] = m.VerifStackLen()
					r["cap"] = m.VerifStackCap()
				}
			}()
			results = append(results, r)
		}
		emit(map[string]any{"results": results})
	})
}
