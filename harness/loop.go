package main

import (
	"bufio"
	"encoding/json"
	"fmt"
	"io"
	"time"

	"github.com/paulsonkoly/calc/parser"
	"github.com/paulsonkoly/calc/types/node"
)

type loopCase struct {
	Lines   []string `json:"lines"`
	DoOut   bool     `json:"doout"`
	Timeout int      `json:"timeout_ms"`
}

// cmdLoop feeds lines to the real read-eval loop (node.Loop) on a fresh
// machine, the way the REPL (doout=true) or a script file (doout=false) does,
// and returns everything written to stdout.
func cmdLoop(in *bufio.Reader) {
	readLines(in, func(line []byte) {
		var c loopCase
		if err := json.Unmarshal(line, &c); err != nil {
			panic(err)
		}
		if c.Timeout == 0 {
			c.Timeout = 10000
		}
		type result struct {
			out   []byte
			panic string
		}
		done := make(chan result)
		go func() {
			var r result
			mc := newMachine()
			i := 0
			rd := node.VerifLineReader{Next: func() (string, error) {
				if i >= len(c.Lines) {
					return "", io.EOF
				}
				i++
				return c.Lines[i-1], nil
			}}
			r.out = captureStdout(func() {
				defer func() {
					if e := recover(); e != nil {
						r.panic = fmt.Sprint(e)
					}
				}()
				node.VerifLoop(rd, parser.Type{}, mc.vm, c.DoOut)
			})
			done <- r
		}()
		select {
		case r := <-done:
			emit(map[string]any{"out": bytesToInts([]byte(maskReport(string(r.out)))), "panic": r.panic})
		case <-time.After(time.Duration(c.Timeout) * time.Millisecond):
			emit(map[string]any{"hang": true})
			out.Flush()
			os_exit(3)
		}
	})
}
