package main

import (
	"bufio"
	"encoding/json"
	"fmt"

	"github.com/paulsonkoly/calc/types/bytecode"
	"github.com/paulsonkoly/calc/types/value"
)

type seqOp struct {
	Op   string `json:"op"`
	Vals []int  `json:"vals"`
	A    int    `json:"a"`
	B    int    `json:"b"`
	I    int    `json:"i"`
	J    int    `json:"j"`
	Xs   []int  `json:"xs"`
}

type seqCase struct {
	Ops []seqOp `json:"ops"`
}

// cmdValSeq runs a sequence of array operations on real value.Type values that
// accumulate in a pool (C10).  After every operation every pool value is
// rendered again and compared with its rendering when it was created.
func cmdValSeq(in *bufio.Reader) {
	readLines(in, func(line []byte) {
		var c seqCase
		if err := json.Unmarshal(line, &c); err != nil {
			panic(err)
		}
		pool := []value.Type{}
		first := []string{}
		results := []map[string]any{}
		res := map[string]any{}
		func() {
			defer func() {
				if e := recover(); e != nil {
					res["panic"] = fmt.Sprint(e)
				}
			}()
			for k, o := range c.Ops {
				var v value.Type
				var err error
				switch o.Op {
				case "lit":
					vs := make([]value.Type, len(o.Vals))
					for i, x := range o.Vals {
						vs[i] = value.NewInt(x)
					}
					v = value.NewArray(vs)
				case "concat":
					v, err = pool[o.A].Arith(bytecode.ADD, pool[o.B])
				case "sub":
					v, err = pool[o.A].Index(value.NewInt(o.I), value.NewInt(o.J))
				case "index":
					v, err = pool[o.A].Index(value.NewInt(o.I))
				case "pack":
					vs := make([]value.Type, len(o.Xs))
					for i, x := range o.Xs {
						vs[i] = pool[x]
					}
					v = value.NewArray(vs)
				default:
					panic("unknown op " + o.Op)
				}
				if err != nil {
					v = value.Nil
				}
				pool = append(pool, v)
				first = append(first, v.Display())
				r := map[string]any{"val": coqValue(v), "err": errClass(err)}
				if l, cp, ok := v.VerifArrayCap(); ok {
					r["len"], r["cap"] = l, cp
				}
				changed := []int{}
				for i, p := range pool {
					if p.Display() != first[i] {
						changed = append(changed, i)
					}
				}
				if len(changed) > 0 {
					r["changed"] = changed
					r["now"] = pool[changed[0]].Display()
					r["was"] = first[changed[0]]
				}
				_ = k
				results = append(results, r)
			}
			final := make([]string, len(pool))
			for i, p := range pool {
				final[i] = coqValue(p)
			}
			res["final"] = final
		}()
		res["results"] = results
		emit(res)
	})
}
