package main

import (
	"bufio"
	"bytes"
	"regexp"
	"encoding/json"
	"fmt"
	"io"
	"os"
	"strconv"
	"time"

	"github.com/paulsonkoly/calc/builtin"
	"github.com/paulsonkoly/calc/memory"
	"github.com/paulsonkoly/calc/parser"
	"github.com/paulsonkoly/calc/types/bytecode"
	"github.com/paulsonkoly/calc/types/compresult"
	"github.com/paulsonkoly/calc/types/dbginfo"
	"github.com/paulsonkoly/calc/types/node"
	"github.com/paulsonkoly/calc/types/value"
	"github.com/paulsonkoly/calc/vm"
)

// captureStdout runs f with os.Stdout redirected and returns what was written.
func captureStdout(f func()) []byte {
	r, w, err := os.Pipe()
	if err != nil {
		panic(err)
	}
	old := os.Stdout
	os.Stdout = w
	done := make(chan []byte)
	go func() {
		b, _ := io.ReadAll(r)
		done <- b
	}()
	func() {
		defer func() {
			w.Close()
			os.Stdout = old
		}()
		f()
	}()
	out := <-done
	r.Close()
	return out
}

type sessionCase struct {
	Stmts   []string `json:"stmts"`
	WantCS  bool     `json:"want_cs"`
	NoStck  bool     `json:"nostck"` // compile with ByteCodeNoStck and Run(false), as file mode does
	Timeout int      `json:"timeout_ms"`
}

type stmtResult struct {
	ParseErr   string   `json:"parse_err,omitempty"`
	ErrFrom    int      `json:"err_from"`
	ErrTo      int      `json:"err_to"`
	Asts       []string `json:"asts,omitempty"`     // parsed trees (before resolution), Coq terms
	Resolved   []string `json:"resolved,omitempty"` // after STRewrite
	CompileErr string   `json:"compile_err,omitempty"`
	CS         []string `json:"cs,omitempty"` // instructions this statement appended
	DS         []string `json:"ds,omitempty"` // data segment entries this statement appended
	Vals       []string `json:"vals,omitempty"`
	Disp       []string `json:"disp,omitempty"`
	Errs       []string `json:"errs,omitempty"`
	Reports    []string `json:"reports,omitempty"` // runtime error report per tree (Coq string), "" if none
	Out        []int    `json:"out"`
	Panic      string   `json:"panic,omitempty"`
	Counters   []int    `json:"counters,omitempty"` // sp, frames, fplen, closures, stacklen, main ip, contexts, len CS, len DS
}

var ctxLine = regexp.MustCompile(`memory context [^\n]*\n`)

// maskReport replaces the context addresses of a runtime error report.
func maskReport(r string) string {
	return ctxLine.ReplaceAllString(r, "memory context @\n")
}

type machine struct {
	m  *memory.Type
	cr compresult.Type
	vm *vm.Type
}

func newMachine() *machine {
	m := memory.New()
	cs := []bytecode.Type{}
	ds := []value.Type{}
	dbg := make(dbginfo.Type)
	cr := compresult.Type{CS: &cs, DS: &ds, Dbg: &dbg}
	builtin.Load(cr)
	return &machine{m: m, cr: cr, vm: vm.New(m, cr)}
}

func (mc *machine) counters() []int {
	mm := mc.vm.VerifMainMemory()
	return []int{mm.VerifSP(), mm.VerifFrameDepth(), mm.VerifFPLen(), mm.VerifClosureDepth(), mm.VerifStackLen(),
		mc.vm.VerifMainIP(), mc.vm.VerifLiveContexts(), len(*mc.cr.CS), len(*mc.cr.DS)}
}

func bytesToInts(b []byte) []int {
	r := make([]int, len(b))
	for i, c := range b {
		r[i] = int(c)
	}
	return r
}

// inflight holds the trees of the statement that is being run, for the
// report of a statement that does not finish.
var inflight []string

// runStatement mirrors cmd/calc/calc_test.go and node.processInput.
func (mc *machine) runStatement(src string, c sessionCase) (res stmtResult) {
	inflight = nil
	res.Out = []int{}
	defer func() {
		if e := recover(); e != nil {
			res.Panic = fmt.Sprint(e)
		}
	}()
	ast, perr := parser.Parse(src)
	if perr != nil {
		res.ParseErr = perr.Message()
		res.ErrFrom, res.ErrTo = perr.From(), perr.To()
		return
	}
	var out []byte
	for _, stmnt := range ast {
		res.Asts = append(res.Asts, coqNode(stmnt))
		inflight = append([]string{}, res.Asts...)
		stmnt = stmnt.STRewrite(node.SymTbl{})
		res.Resolved = append(res.Resolved, coqNode(stmnt))
		cs0, ds0 := len(*mc.cr.CS), len(*mc.cr.DS)
		var cerr error
		if c.NoStck {
			cerr = node.ByteCodeNoStck(stmnt, mc.cr)
		} else {
			cerr = node.ByteCode(stmnt, mc.cr)
		}
		if cerr != nil {
			res.CompileErr = cerr.Error()
			break
		}
		if c.WantCS {
			for _, w := range (*mc.cr.CS)[cs0:] {
				res.CS = append(res.CS, strconv.FormatUint(uint64(w), 10))
			}
			for _, v := range (*mc.cr.DS)[ds0:] {
				res.DS = append(res.DS, coqValue(v))
			}
		}
		var v value.Type
		var err error
		var pv any
		o := captureStdout(func() {
			defer func() { pv = recover() }()
			v, err = mc.vm.Run(!c.NoStck)
		})
		report := ""
		if err != nil {
			if i := bytes.LastIndex(o, []byte("RUNTIME ERROR : ")); i >= 0 {
				report = string(o[i:])
				o = o[:i]
			}
		}
		res.Reports = append(res.Reports, coqStr(maskReport(report)))
		out = append(out, o...)
		if pv != nil {
			res.Out = bytesToInts(out)
			panic(pv)
		}
		res.Errs = append(res.Errs, errClass(err))
		if err == nil && !c.NoStck {
			res.Vals = append(res.Vals, coqValue(v))
			res.Disp = append(res.Disp, coqStr(v.Display()))
		} else {
			res.Vals = append(res.Vals, "VNil")
			res.Disp = append(res.Disp, "\"\"")
		}
	}
	res.Out = bytesToInts(out)
	res.Counters = mc.counters()
	return
}

func cmdSession(in *bufio.Reader) {
	readLines(in, func(line []byte) {
		var c sessionCase
		if err := json.Unmarshal(line, &c); err != nil {
			panic(err)
		}
		if c.Timeout == 0 {
			c.Timeout = 10000
		}
		results := []stmtResult{}
		done := make(chan bool)
		go func() {
			mc := newMachine()
			for _, s := range c.Stmts {
				r := mc.runStatement(s, c)
				results = append(results, r)
				if r.Panic != "" {
					break // the machine is in an unknown state
				}
			}
			done <- true
		}()
		select {
		case <-done:
			emit(map[string]any{"results": results})
		case <-time.After(time.Duration(c.Timeout) * time.Millisecond):
			emit(map[string]any{"hang": true, "completed": len(results), "results": results, "inflight": inflight})
			out.Flush()
			os.Exit(3) // a runaway goroutine cannot be stopped; the driver restarts after this case
		}
	})
}
