package main

import (
	"fmt"
	"math/rand"
	"os"
	"strconv"

	"github.com/paulsonkoly/calc/types/bytecode"
	"github.com/paulsonkoly/calc/types/value"
)

type encRes struct {
	ok   bool
	code uint64
}

func tryEncode(sel int, kind uint64, addr int) (r encRes) {
	defer func() {
		if e := recover(); e != nil {
			r = encRes{ok: false}
		}
	}()
	return encRes{ok: true, code: uint64(bytecode.EncodeSrc(sel, kind, addr))}
}

// cmdEncSrc checks C15's encoding laws exhaustively on the real code and
// prints boundary samples for the model correspondence.
func cmdEncSrc() {
	const span = 70000
	fails := []string{}
	total := 0
	accepted := 0
	for sel := 0; sel < 3; sel++ {
		for kind := uint64(0); kind < 8; kind++ {
			for addr := -span; addr <= span; addr++ {
				total++
				r := tryEncode(sel, kind, addr)
				inRange := addr >= -(1<<15) && addr < (1<<15)
				if r.ok != inRange {
					if len(fails) < 5 {
						fails = append(fails, fmt.Sprintf("sel=%d kind=%d addr=%d accepted=%v", sel, kind, addr, r.ok))
					}
					if !r.ok {
						continue
					}
				}
				if !r.ok {
					continue
				}
				accepted++
				b := bytecode.Type(r.code)
				k := [3]uint64{b.Src0(), b.Src1(), b.Src2()}
				a := [3]int{b.Src0Addr(), b.Src1Addr(), b.Src2Addr()}
				good := b.OpCode() == 0
				for ch := 0; ch < 3; ch++ {
					if ch == sel {
						good = good && k[ch] == kind && a[ch] == addr
					} else {
						good = good && k[ch] == 0 && a[ch] == 0
					}
				}
				if !good && len(fails) < 5 {
					fails = append(fails, fmt.Sprintf("sel=%d kind=%d addr=%d decodes to op=%d kinds=%v addrs=%v", sel, kind, addr, b.OpCode(), k, a))
				}
			}
		}
	}
	// opcode round trip incl. temp flag, and independence from operand fields
	opFails := []string{}
	for op := 0; op < 128; op++ {
		b := bytecode.New(bytecode.OpCode(op))
		total++
		if int(b.OpCode()) != op || b.Src0() != 0 || b.Src1() != 0 || b.Src2() != 0 || b.Src0Addr() != 0 || b.Src1Addr() != 0 || b.Src2Addr() != 0 {
			opFails = append(opFails, fmt.Sprintf("op=%d", op))
		}
		full := b | bytecode.EncodeSrc(0, 7, -1) | bytecode.EncodeSrc(1, 7, -1) | bytecode.EncodeSrc(2, 7, -1)
		if int(full.OpCode()) != op || full.Src0() != 7 || full.Src1() != 7 || full.Src2() != 7 || full.Src0Addr() != -1 || full.Src1Addr() != -1 || full.Src2Addr() != -1 {
			opFails = append(opFails, fmt.Sprintf("op=%d with full operands", op))
		}
	}
	// function packing on boundary grids
	fnFails := []string{}
	grid32 := []int{0, 1, 2, 1000, 1<<16 - 1, 1 << 16, 1<<31 - 1, 1 << 31, 1<<32 - 1}
	grid16 := []int{0, 1, 2, 255, 256, 1<<15 - 1, 1 << 15, 1<<16 - 1}
	fnSamples := [][]int{}
	for _, nd := range grid32 {
		for _, pc := range grid16 {
			for _, lc := range grid16 {
				total++
				f, ok := value.NewFunction(nd, nil, pc, lc).ToFunction()
				if !ok || f.Node != nd || f.ParamCnt != pc || f.LocalCnt != lc {
					fnFails = append(fnFails, fmt.Sprintf("node=%d pc=%d lc=%d -> %d %d %d", nd, pc, lc, f.Node, f.ParamCnt, f.LocalCnt))
				}
				fnSamples = append(fnSamples, []int{nd, pc, lc, f.Node, f.ParamCnt, f.LocalCnt})
			}
		}
	}
	// samples for the model: boundary addresses for every sel/kind
	type sample struct {
		Sel  int    `json:"sel"`
		Kind uint64 `json:"kind"`
		Addr int    `json:"addr"`
		Ok   bool   `json:"ok"`
		Code string `json:"code"`
	}
	samples := []sample{}
	addrs := []int{-70000, -65537, -65536, -65535, -32770, -32769, -32768, -32767, -4097, -256, -2, -1, 0, 1, 2, 255, 256, 4096, 12345, 32766, 32767, 32768, 32769, 65535, 65536, 65537, 70000}
	for sel := 0; sel < 3; sel++ {
		for kind := uint64(0); kind < 8; kind++ {
			for _, addr := range addrs {
				r := tryEncode(sel, kind, addr)
				samples = append(samples, sample{sel, kind, addr, r.ok, fmt.Sprint(r.code)})
			}
		}
	}
	ops := []string{}
	for op := 0; op < 130; op++ {
		ops = append(ops, fmt.Sprint(uint64(bytecode.New(bytecode.OpCode(op)))))
	}
	// decoding of arbitrary words (seeded), for the model's decoders
	seed := int64(1)
	if len(os.Args) > 2 {
		seed, _ = strconv.ParseInt(os.Args[2], 10, 64)
	}
	rng := rand.New(rand.NewSource(seed))
	type dec struct {
		Word   string `json:"word"`
		Fields []int  `json:"fields"`
		Text   string `json:"text"`
	}
	decs := []dec{}
	for i := 0; i < 400; i++ {
		w := rng.Uint64()
		if i%4 == 0 { // bias towards words with few set fields
			w &= rng.Uint64()
		}
		b := bytecode.Type(w)
		decs = append(decs, dec{fmt.Sprint(w), []int{int(b.OpCode()), int(b.Src0()), int(b.Src1()), int(b.Src2()), b.Src0Addr(), b.Src1Addr(), b.Src2Addr()}, ""})
	}
	emit(map[string]any{
		"decs": decs,
		"total": total, "accepted": accepted, "fails": fails, "op_fails": opFails, "fn_fails": fnFails,
		"samples": samples, "ops": ops, "fn_samples": fnSamples,
	})
}
