package main

import (
	"bufio"
	"fmt"
	"strings"

	"github.com/paulsonkoly/calc/parser"
	"github.com/paulsonkoly/calc/types/bytecode"
)

// cmdConsts is the translator for the table-like parts of the source: it
// prints coq/GenConsts.v from the constants the Go compiler sees in /repo now
// (exported ones here; tools/gen_consts.py appends the unexported ones it reads
// from the source text).
func cmdConsts(_ *bufio.Reader) {
	var b strings.Builder
	b.WriteString("(* GenConsts.v — GENERATED on every run from /repo by harness `consts` and tools/gen_consts.py. *)\n")
	b.WriteString("Require Import Calc.Base.\nOpen Scope Z_scope.\n\n")
	def := func(name string, v any) { fmt.Fprintf(&b, "Definition g_%s : Z := %d.\n", name, v) }
	def("OpcodeHi", bytecode.OpcodeHi)
	def("OpcodeLo", bytecode.OpcodeLo)
	def("Src2Hi", bytecode.Src2Hi)
	def("Src2Lo", bytecode.Src2Lo)
	def("Src1Hi", bytecode.Src1Hi)
	def("Src1Lo", bytecode.Src1Lo)
	def("Src0Hi", bytecode.Src0Hi)
	def("Src0Lo", bytecode.Src0Lo)
	def("Src2AddrHi", bytecode.Src2AddrHi)
	def("Src2AddrLo", bytecode.Src2AddrLo)
	def("Src1AddrHi", bytecode.Src1AddrHi)
	def("Src1AddrLo", bytecode.Src1AddrLo)
	def("Src0AddrHi", bytecode.Src0AddrHi)
	def("Src0AddrLo", bytecode.Src0AddrLo)
	def("SrcChanWidth", bytecode.SrcChanWidth)
	def("AddrInv", bytecode.AddrInv)
	def("AddrImm", bytecode.AddrImm)
	def("AddrGbl", bytecode.AddrGbl)
	def("AddrLcl", bytecode.AddrLcl)
	def("AddrCls", bytecode.AddrCls)
	def("AddrStck", bytecode.AddrStck)
	def("AddrTmp", bytecode.AddrTmp)
	def("AddrDS", bytecode.AddrDS)
	def("TempFlag", uint64(bytecode.TempFlag))
	ops := []struct {
		n string
		v bytecode.OpCode
	}{{"NOP", bytecode.NOP}, {"PUSH", bytecode.PUSH}, {"POP", bytecode.POP}, {"MOV", bytecode.MOV}, {"ADD", bytecode.ADD},
		{"SUB", bytecode.SUB}, {"MUL", bytecode.MUL}, {"DIV", bytecode.DIV}, {"MOD", bytecode.MOD}, {"INC", bytecode.INC},
		{"NOT", bytecode.NOT}, {"AND", bytecode.AND}, {"OR", bytecode.OR}, {"LT", bytecode.LT}, {"GT", bytecode.GT},
		{"LE", bytecode.LE}, {"GE", bytecode.GE}, {"EQ", bytecode.EQ}, {"NE", bytecode.NE}, {"LSH", bytecode.LSH},
		{"RSH", bytecode.RSH}, {"FLIP", bytecode.FLIP}, {"IX1", bytecode.IX1}, {"IX2", bytecode.IX2}, {"LEN", bytecode.LEN},
		{"ARR", bytecode.ARR}, {"JMP", bytecode.JMP}, {"JMPF", bytecode.JMPF}, {"JMPT", bytecode.JMPT}, {"FUNC", bytecode.FUNC},
		{"CALL", bytecode.CALL}, {"RET", bytecode.RET}, {"CCONT", bytecode.CCONT}, {"DCONT", bytecode.DCONT},
		{"RCONT", bytecode.RCONT}, {"SCONT", bytecode.SCONT}, {"YIELD", bytecode.YIELD}, {"READ", bytecode.READ},
		{"WRITE", bytecode.WRITE}, {"ATON", bytecode.ATON}, {"TOA", bytecode.TOA}, {"EXIT", bytecode.EXIT},
		{"PUSHTMP", bytecode.PUSHTMP}, {"ADDTMP", bytecode.ADDTMP}, {"SUBTMP", bytecode.SUBTMP}}
	for _, o := range ops {
		def(o.n, uint64(o.v))
	}
	kws := make([]string, len(parser.Keywords))
	for i, k := range parser.Keywords {
		kws[i] = coqStr(k)
	}
	fmt.Fprintf(&b, "Definition g_keywords : list string := [%s]%%string.\n", strings.Join(kws, "; "))
	out.WriteString(b.String())
}
