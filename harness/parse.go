package main

import (
	"bufio"
	"encoding/json"
	"fmt"
	"time"

	"github.com/paulsonkoly/calc/parser"
	"github.com/paulsonkoly/calc/types/node"
)

type parseCase struct {
	Input   []int `json:"input"`
	Timeout int   `json:"timeout_ms"`
	NoTree  bool  `json:"notree"`
}

// cmdParse runs the whole front end on arbitrary bytes: parser.Parse, then
// the error display (reportError), then processInput on a fresh machine to see
// whether anything of a rejected input is executed.
func cmdParse(in *bufio.Reader) {
	readLines(in, func(line []byte) {
		var c parseCase
		if err := json.Unmarshal(line, &c); err != nil {
			panic(err)
		}
		if c.Timeout == 0 {
			c.Timeout = 3000
		}
		input := bytesOf(c.Input)
		res := map[string]any{}
		done := make(chan bool)
		go func() {
			defer func() {
				if e := recover(); e != nil {
					res["panic"] = fmt.Sprint(e)
				}
				done <- true
			}()
			trees, perr := parser.Parse(input)
			if perr != nil {
				res["err"] = map[string]any{"msg": perr.Message(), "from": perr.From(), "to": perr.To()}
				var rp any
				o := captureStdout(func() {
					defer func() { rp = recover() }()
					node.VerifReportError(perr, input)
				})
				res["report"] = bytesToInts(o)
				if rp != nil {
					res["report_panic"] = fmt.Sprint(rp)
				}
				// nothing of a rejected input may be executed
				mc := newMachine()
				cs0, ds0 := len(*mc.cr.CS), len(*mc.cr.DS)
				var pp any
				o2 := captureStdout(func() {
					defer func() { pp = recover() }()
					node.VerifProcessInput(input, parser.Type{}, mc.vm, true)
				})
				res["process_out_is_report"] = string(o2) == string(o)
				res["code_added"] = len(*mc.cr.CS) != cs0 || len(*mc.cr.DS) != ds0
				if pp != nil {
					res["process_panic"] = fmt.Sprint(pp)
				}
			} else {
				res["ntrees"] = len(trees)
				if !c.NoTree {
					ts := make([]string, len(trees))
					for i, t := range trees {
						ts[i] = coqNode(t)
					}
					res["trees"] = ts
				}
			}
		}()
		select {
		case <-done:
			emit(res)
		case <-time.After(time.Duration(c.Timeout) * time.Millisecond):
			emit(map[string]any{"hang": true})
			out.Flush()
			os_exit(3)
		}
	})
}
