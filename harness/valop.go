package main

import (
	"bufio"
	"encoding/json"
	"fmt"
	"strconv"

	"github.com/paulsonkoly/calc/types/bytecode"
	"github.com/paulsonkoly/calc/types/value"
)

// jsonValue builds a value from its neutral JSON form:
// ["nil"] ["int","-5"] ["float","<bits>"] ["str",[104,105]] ["arr",[...]] ["bool",true] ["fun"]
func jsonValue(raw json.RawMessage) value.Type {
	var parts []json.RawMessage
	if err := json.Unmarshal(raw, &parts); err != nil {
		panic(err)
	}
	var kind string
	json.Unmarshal(parts[0], &kind)
	switch kind {
	case "nil":
		return value.Nil
	case "int":
		var s string
		json.Unmarshal(parts[1], &s)
		i, err := strconv.ParseInt(s, 10, 64)
		if err != nil {
			panic(err)
		}
		return value.NewInt(int(i))
	case "float":
		var s string
		json.Unmarshal(parts[1], &s)
		b, err := strconv.ParseUint(s, 10, 64)
		if err != nil {
			panic(err)
		}
		return value.VerifNewFloatBits(b)
	case "str":
		var bs []int
		json.Unmarshal(parts[1], &bs)
		buf := make([]byte, len(bs))
		for i, b := range bs {
			buf[i] = byte(b)
		}
		return value.NewString(string(buf))
	case "arr":
		var elems []json.RawMessage
		json.Unmarshal(parts[1], &elems)
		vs := make([]value.Type, len(elems))
		for i, e := range elems {
			vs[i] = jsonValue(e)
		}
		return value.NewArray(vs)
	case "bool":
		var b bool
		json.Unmarshal(parts[1], &b)
		return value.NewBool(b)
	case "fun":
		return value.NewFunction(0, nil, 0, 0)
	}
	panic("bad value kind " + kind)
}

var binOps = map[string]bytecode.OpCode{
	"+": bytecode.ADD, "-": bytecode.SUB, "*": bytecode.MUL, "/": bytecode.DIV,
	"&": bytecode.AND, "|": bytecode.OR,
	"<": bytecode.LT, ">": bytecode.GT, "<=": bytecode.LE, ">=": bytecode.GE,
	"==": bytecode.EQ, "!=": bytecode.NE,
	"<<": bytecode.LSH, ">>": bytecode.RSH,
}

func applyOp(op string, args []value.Type) (res value.Type, err error, text string) {
	switch op {
	case "+", "-", "*", "/":
		res, err = args[0].Arith(binOps[op], args[1])
	case "%":
		res, err = args[0].Mod(args[1])
	case "&", "|":
		res, err = args[0].Logic(binOps[op], args[1])
	case "<", ">", "<=", ">=":
		res, err = args[0].Relational(binOps[op], args[1])
	case "==", "!=":
		res, err = args[0].Eq(binOps[op], args[1])
	case "<<", ">>":
		res, err = args[0].Shift(binOps[op], args[1])
	case "flip":
		res, err = args[0].Flip()
	case "not":
		res, err = args[0].Not()
	case "len":
		res, err = args[0].Len()
	case "ix1":
		res, err = args[0].Index(args[1])
	case "ix2":
		res, err = args[0].Index(args[1], args[2])
	case "string":
		text = args[0].String()
	case "display":
		text = args[0].Display()
	case "abbrev":
		text = args[0].Abbrev()
	case "stricteq":
		res = value.NewBool(args[0].StrictEq(args[1]))
	default:
		panic("bad op " + op)
	}
	return
}

type valCase struct {
	Op   string            `json:"op"`
	Args []json.RawMessage `json:"args"`
}

func cmdValOp(in *bufio.Reader) {
	readLines(in, func(line []byte) {
		var c valCase
		if err := json.Unmarshal(line, &c); err != nil {
			panic(err)
		}
		args := make([]value.Type, len(c.Args))
		coqArgs := make([]string, len(c.Args))
		for i, a := range c.Args {
			args[i] = jsonValue(a)
			coqArgs[i] = coqValue(args[i])
		}
		res := map[string]any{"op": c.Op, "args": coqArgs}
		func() {
			defer func() {
				if e := recover(); e != nil {
					res["panic"] = fmt.Sprint(e)
				}
			}()
			v, err, text := applyOp(c.Op, args)
			res["err"] = errClass(err)
			if c.Op == "string" || c.Op == "display" || c.Op == "abbrev" {
				res["text"] = coqStr(text)
				res["rawtext"] = []byte(text)
				res["hasfloat"] = hasFloat(args[0])
			} else {
				res["val"] = coqValue(v)
				res["jval"] = jsonOf(v)
				res["kind"] = v.VerifKind()
			}
		}()
		emit(res)
	})
}

// jsonOf renders a value in the neutral JSON form jsonValue reads.
func jsonOf(v value.Type) any {
	switch v.VerifKind() {
	case 0:
		return []any{"nil"}
	case 1:
		i, _ := v.ToInt()
		return []any{"int", strconv.Itoa(i)}
	case 2:
		b, _ := v.VerifFloatBits()
		return []any{"float", strconv.FormatUint(b, 10)}
	case 3:
		s, _ := v.ToString()
		bs := make([]int, len(s))
		for i := 0; i < len(s); i++ {
			bs[i] = int(s[i])
		}
		return []any{"str", bs}
	case 4:
		a, _ := v.ToArray()
		es := make([]any, len(a))
		for i, e := range a {
			es[i] = jsonOf(e)
		}
		return []any{"arr", es}
	case 5:
		b, _ := v.ToBool()
		return []any{"bool", b}
	}
	return []any{"fun"}
}

func hasFloat(v value.Type) bool {
	if v.VerifKind() == 2 {
		return true
	}
	if a, ok := v.ToArray(); ok {
		for _, e := range a {
			if hasFloat(e) {
				return true
			}
		}
	}
	return false
}
