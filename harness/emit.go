package main

import (
	"fmt"
	"math"
	"strconv"
	"strings"

	"github.com/paulsonkoly/calc/types/node"
	"github.com/paulsonkoly/calc/types/value"
)

// coqStr renders a Go byte string as a Coq term of type string.
func coqStr(s string) string {
	plain := true
	for i := 0; i < len(s); i++ {
		c := s[i]
		if c < 32 || c > 126 || c == '"' {
			plain = false
			break
		}
	}
	if plain {
		return "\"" + s + "\""
	}
	var b strings.Builder
	b.WriteString("(sb [")
	for i := 0; i < len(s); i++ {
		if i > 0 {
			b.WriteString(";")
		}
		b.WriteString(strconv.Itoa(int(s[i])))
	}
	b.WriteString("])")
	return b.String()
}

func coqZ(i int) string {
	if i < 0 {
		return "(" + strconv.Itoa(i) + ")"
	}
	return strconv.Itoa(i)
}

func coqFloatBits(bits uint64) string {
	f := math.Float64frombits(bits)
	if f != f {
		return "fnan"
	}
	return "(fb " + strconv.FormatUint(bits, 10) + ")"
}

// coqValue renders a value structurally (functions are opaque).
func coqValue(v value.Type) string {
	switch v.VerifKind() {
	case 0:
		return "VNil"
	case 1:
		i, _ := v.ToInt()
		return "(VInt " + coqZ(i) + ")"
	case 2:
		b, _ := v.VerifFloatBits()
		return "(VFloat " + coqFloatBits(b) + ")"
	case 3:
		s, _ := v.ToString()
		return "(VStr " + coqStr(s) + ")"
	case 4:
		a, _ := v.ToArray()
		parts := make([]string, len(a))
		for i, e := range a {
			parts[i] = coqValue(e)
		}
		return "(VArr [" + strings.Join(parts, ";") + "])"
	case 5:
		b, _ := v.ToBool()
		if b {
			return "(VBool true)"
		}
		return "(VBool false)"
	case 6:
		return "(VFun 0 (-1))"
	}
	panic("unknown kind")
}

func coqList(ns []node.Type) string {
	parts := make([]string, len(ns))
	for i, e := range ns {
		parts[i] = coqNode(e)
	}
	return "[" + strings.Join(parts, ";") + "]"
}

// coqNode renders a syntax tree as a Coq term of type node.
func coqNode(n node.Type) string {
	switch t := n.(type) {
	case node.Int:
		return "(NInt " + coqZ(int(t)) + ")"
	case node.Float:
		return "(NFloat " + coqFloatBits(math.Float64bits(float64(t))) + ")"
	case node.String:
		return "(NStr " + coqStr(string(t)) + ")"
	case node.Bool:
		if bool(t) {
			return "(NBool true)"
		}
		return "(NBool false)"
	case node.Name:
		return "(NName " + coqStr(string(t)) + ")"
	case node.Local:
		return fmt.Sprintf("(NLocal %d %s)", t.Ix, coqStr(t.VarName))
	case node.Closure:
		return fmt.Sprintf("(NClosure %d %s)", t.Ix, coqStr(t.VarName))
	case node.BinOp:
		l, r := "NInvalid", "NInvalid"
		if t.Left != nil {
			l = coqNode(t.Left)
		}
		if t.Right != nil {
			r = coqNode(t.Right)
		}
		return "(NBin " + coqStr(t.Op) + " " + l + " " + r + ")"
	case node.UnOp:
		return "(NUn " + coqStr(t.Op) + " " + coqNode(t.Target) + ")"
	case node.IndexAt:
		return "(NIndexAt " + coqNode(t.Ary) + " " + coqNode(t.At) + ")"
	case node.IndexFromTo:
		return "(NIndexFromTo " + coqNode(t.Ary) + " " + coqNode(t.From) + " " + coqNode(t.To) + ")"
	case node.If:
		return "(NIf " + coqNode(t.Condition) + " " + coqNode(t.TrueCase) + ")"
	case node.IfElse:
		return "(NIfElse " + coqNode(t.Condition) + " " + coqNode(t.TrueCase) + " " + coqNode(t.FalseCase) + ")"
	case node.While:
		return "(NWhile " + coqNode(t.Condition) + " " + coqNode(t.Body) + ")"
	case node.For:
		return "(NFor " + coqList(t.VarRefs.Elems) + " " + coqList(t.Iterators.Elems) + " " + coqNode(t.Body) + ")"
	case node.Return:
		return "(NReturn " + coqNode(t.Target) + ")"
	case node.Yield:
		return "(NYield " + coqNode(t.Target) + ")"
	case node.Assign:
		return "(NAssign " + coqNode(t.VarRef) + " " + coqNode(t.Value) + ")"
	case node.Block:
		return "(NBlock " + coqList(t.Body) + ")"
	case node.List:
		return "(NList " + coqList(t.Elems) + ")"
	case node.Call:
		return "(NCall " + coqNode(t.Name) + " " + coqList(t.Arguments.Elems) + ")"
	case node.Function:
		return fmt.Sprintf("(NFunction %s %s %d)", coqList(t.Parameters.Elems), coqNode(t.Body), t.LocalCnt)
	case node.Read:
		return "NRead"
	case node.Write:
		return "(NWrite " + coqNode(t.Value) + ")"
	case node.Aton:
		return "(NAton " + coqNode(t.Value) + ")"
	case node.Toa:
		return "(NToa " + coqNode(t.Value) + ")"
	case node.Exit:
		return "(NExit " + coqNode(t.Value) + ")"
	}
	panic(fmt.Sprintf("unknown node %T", n))
}
