package main

import (
	"bufio"
	"encoding/json"
	"fmt"
	"strconv"
	"strings"
	"time"

	c "github.com/paulsonkoly/calc/combinator"
	"github.com/paulsonkoly/calc/lexer"
	"github.com/paulsonkoly/calc/types/token"
)

type pdesc struct {
	T  string   `json:"t"`
	V  string   `json:"v,omitempty"`
	A  *pdesc   `json:"a,omitempty"`
	B  *pdesc   `json:"b,omitempty"`
	C  *pdesc   `json:"c,omitempty"`
	Ps []pdesc  `json:"ps,omitempty"`
	Cs [][2]pdesc `json:"cs,omitempty"`
	F  string   `json:"f,omitempty"`
}

type strWrapper struct{}

func (strWrapper) Wrap(t c.Token) c.Node { return t.(token.Type).Value }

func build(d *pdesc) c.Parser {
	switch d.T {
	case "accept":
		v := d.V
		return c.Accept(func(t c.Token) bool { return t.(token.Type).Value == v }, v, strWrapper{})
	case "ok":
		return c.Ok()
	case "and":
		return c.And(build(d.A), build(d.B))
	case "oneof":
		ps := make([]c.Parser, len(d.Ps))
		for i := range d.Ps {
			ps[i] = build(&d.Ps[i])
		}
		return c.OneOf(ps...)
	case "choose":
		cs := make([]c.Conditional, len(d.Cs))
		for i := range d.Cs {
			cs[i] = c.Conditional{Gate: build(&d.Cs[i][0]), OnSuccess: build(&d.Cs[i][1])}
		}
		return c.Choose(cs...)
	case "any":
		return c.Any(c.Conditional{Gate: build(d.A), OnSuccess: build(d.B)})
	case "sepby":
		return c.SeparatedBy(build(d.A), build(d.B))
	case "surr":
		return c.SurroundedBy(build(d.A), build(d.B), build(d.C))
	case "assert":
		return c.Assert(build(d.A))
	case "not":
		return c.Not(build(d.A))
	case "drop":
		return c.Drop(build(d.A))
	case "fmap":
		var f func([]c.Node) []c.Node
		switch d.F {
		case "count":
			f = func(n []c.Node) []c.Node { return []c.Node{strconv.Itoa(len(n))} }
		case "rev":
			f = func(n []c.Node) []c.Node {
				r := make([]c.Node, len(n))
				for i := range n {
					r[len(n)-1-i] = n[i]
				}
				return r
			}
		default:
			f = func(n []c.Node) []c.Node {
				parts := make([]string, len(n))
				for i := range n {
					parts[i] = n[i].(string)
				}
				return []c.Node{"(" + strings.Join(parts, " ") + ")"}
			}
		}
		return c.Fmap(f, build(d.A))
	}
	panic("bad parser description " + d.T)
}

type combCase struct {
	P     pdesc  `json:"p"`
	Input string `json:"input"`
}

// cmdComb builds a parser from the real combinators, runs it on the real
// transactional lexer and reports result, error, the position afterwards (the
// token the next Next shows) and whether a snapshot was left behind.
func cmdComb(in *bufio.Reader) {
	readLines(in, func(line []byte) {
		var cs combCase
		if err := json.Unmarshal(line, &cs); err != nil {
			panic(err)
		}
		res := map[string]any{}
		done := make(chan bool)
		go func() {
			defer func() {
				if e := recover(); e != nil {
					res["panic"] = fmt.Sprint(e)
				}
				done <- true
			}()
			p := build(&cs.P)
			tl := lexer.NewTLexer(cs.Input)
			nodes, err := p(&tl)
			if nodes == nil {
				res["nodes"] = nil
			} else {
				ns := make([]string, len(nodes))
				for i := range nodes {
					ns[i] = nodes[i].(string)
				}
				res["nodes"] = ns
			}
			if err != nil {
				res["err"] = map[string]any{"msg": err.Message(), "from": err.From(), "to": err.To()}
			}
			// a snapshot left behind? a Rollback must find the stack empty
			leak := true
			func() {
				defer func() {
					if e := recover(); e != nil {
						leak = false
					}
				}()
				probe := tl
				probe.Rollback()
			}()
			res["snapshot_left"] = leak
			if tl.Next() {
				t := tokOf(tl.Token().(token.Type), tl.Err())
				res["next"] = t
			} else {
				res["next"] = nil
			}
		}()
		select {
		case <-done:
			emit(res)
		case <-time.After(3 * time.Second):
			emit(map[string]any{"hang": true})
			out.Flush()
			os_exit(3)
		}
	})
}
