package main

import (
	"bufio"
	"encoding/json"
	"fmt"
	"io"
	"os"

	"github.com/paulsonkoly/calc/types/node"
)

type splitCase struct {
	Lines   [][]int `json:"lines"`
	Content []int   `json:"content"`
	File    bool    `json:"file"`
}

// recParser records what the loop hands to the parser and runs nothing.
type recParser struct{ inputs *[]string }

func (r recParser) Parse(input string) ([]node.Type, node.ParserError) {
	*r.inputs = append(*r.inputs, input)
	return nil, nil
}

// cmdLoopSplit runs the real node.Loop with a recording parser: which inputs
// does the loop hand to processInput, for lines given one by one (REPL) or for
// a file read through the real FReader (C16).
func cmdLoopSplit(in *bufio.Reader) {
	readLines(in, func(line []byte) {
		var c splitCase
		if err := json.Unmarshal(line, &c); err != nil {
			panic(err)
		}
		inputs := []string{}
		res := map[string]any{}
		func() {
			defer func() {
				if e := recover(); e != nil {
					res["panic"] = fmt.Sprint(e)
				}
			}()
			mc := newMachine()
			if c.File {
				f, err := os.CreateTemp("", "calc-verif-*.calc")
				if err != nil {
					panic(err)
				}
				defer os.Remove(f.Name())
				f.Write([]byte(bytesOf(c.Content)))
				f.Close()
				fr := node.NewFReader(f.Name())
				defer fr.Close()
				node.Loop(fr, recParser{&inputs}, mc.vm, false)
			} else {
				i := 0
				rd := node.VerifLineReader{Next: func() (string, error) {
					if i >= len(c.Lines) {
						return "", io.EOF
					}
					i++
					return bytesOf(c.Lines[i-1]), nil
				}}
				node.VerifLoop(rd, recParser{&inputs}, mc.vm, false)
			}
		}()
		outs := make([][]int, len(inputs))
		for i, s := range inputs {
			outs[i] = bytesToInts([]byte(s))
		}
		res["inputs"] = outs
		emit(res)
	})
}
