module verifharness

go 1.22.0

require github.com/paulsonkoly/calc v0.0.0

require (
	github.com/chzyer/readline v1.5.1 // indirect
	github.com/kamstrup/intmap v0.4.0 // indirect
)

replace github.com/paulsonkoly/calc => /repo
