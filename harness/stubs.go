package main

import "bufio"

func cmdParse(in *bufio.Reader)   { panic("todo") }
func cmdMemOps(in *bufio.Reader)  { panic("todo") }
