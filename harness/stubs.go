package main

import "bufio"

func cmdLex(in *bufio.Reader)     { panic("todo") }
func cmdTLex(in *bufio.Reader)    { panic("todo") }
func cmdComb(in *bufio.Reader)    { panic("todo") }
func cmdParse(in *bufio.Reader)   { panic("todo") }
func cmdMemOps(in *bufio.Reader)  { panic("todo") }
