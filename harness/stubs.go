package main

import "bufio"

func cmdComb(in *bufio.Reader)    { panic("todo") }
func cmdParse(in *bufio.Reader)   { panic("todo") }
func cmdMemOps(in *bufio.Reader)  { panic("todo") }
