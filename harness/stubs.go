package main

import "bufio"

func cmdMemOps(in *bufio.Reader)  { panic("todo") }
