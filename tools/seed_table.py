#!/usr/bin/env python3
"""Write /verif/seeded/TABLE.md from seeded/RESULTS.json and the meta files."""
import glob
import json
import os

S = "/verif/seeded"
res = json.load(open(os.path.join(S, "RESULTS.json")))
rows = []
for d in sorted(glob.glob(os.path.join(S, "C*-*"))):
    name = os.path.basename(d)
    meta = json.load(open(os.path.join(d, "meta.json")))
    what = meta.get("summary", "").split(". ")[0][:160].replace("|", "/").replace("\n", " ")
    r = res.get(name, {})
    cells = []
    for chk, o in sorted(r.items()):
        if o.get("caught"):
            cells.append("%s: caught%s (%ss)" % (chk, " with failing input" if o.get("with_input") else ", no failing input found",
                                                 int(o.get("wall_s", 0))))
        else:
            cells.append("%s: not caught" % chk)
    rows.append("| %s | %s | %s |" % (name, what, "; ".join(cells) or "not evaluated"))
own = sum(1 for n, r in res.items() if r.get(n.split("-")[0], {}).get("caught"))
own_in = sum(1 for n, r in res.items() if r.get(n.split("-")[0], {}).get("with_input"))
with open(os.path.join(S, "TABLE.md"), "w") as f:
    f.write("# Seeded changes and the quick checks that catch them\n\n")
    f.write("%d changes; %d caught by the quick check of their own property, %d of those with a concrete failing input.\n\n"
            % (len(rows), own, own_in))
    f.write("| change | what it does (first sentence of its description) | checks run against it |\n|---|---|---|\n")
    f.write("\n".join(rows) + "\n")
print(open(os.path.join(S, "TABLE.md")).read()[:600])
