"""Input generators for the front-end checks (lexer, transactional lexer, parser)."""
import itertools
import random

# one representative per character class of the lexer, plus neighbours that matter
ALPHABET = ["a", "z", "0", "9", ".", " ", "\t", "\n", ";", "\"", "\\", "+", "=", "<", "#", "(", ")", "[", ",", ":", "{",
            "n", "\r", "\x00", "é", "\xff", "A", "_", "~", "}"]
CLASS16 = ["a", "1", ".", " ", "\n", ";", "\"", "\\", "+", "<", "(", "]", ",", "\x00", "é", "Z"]


def exhaustive(max_len, alphabet=CLASS16):
    for n in range(0, max_len + 1):
        for tup in itertools.product(alphabet, repeat=n):
            yield "".join(tup)


TOKENS = ["a", "ab", "if", "else", "while", "for", "return", "yield", "true", "false", "x", "12", "0", "3.14", "7.0",
          "\"s\"", "\"a b\"", "\"q\\\"q\"", "\"\"", "\"li\\nne\"", "+", "-", "*", "/", "%", "==", "!=", "<=", ">=", "<", ">",
          "&&", "||", "&", "|", "<<", ">>", "!", "#", "~", "=", "->", "<-", "(", ")", "[", "]", "{", "}", ",", ":"]


def random_source(rng, n_tokens):
    """token soup with random separators (may or may not lex/parse)"""
    out = []
    for _ in range(n_tokens):
        out.append(rng.choice(TOKENS))
        c = rng.random()
        if c < 0.45:
            out.append(" " * rng.randint(1, 3))
        elif c < 0.55:
            out.append("\n")
        elif c < 0.6:
            out.append(" ; note " + rng.choice(["", "{", "\"", "x"]) + "\n")
        elif c < 0.65:
            out.append("\t")
    return "".join(out)


def random_bytes(rng, n):
    pool = "ab01 \n;\"\\+-<=(){}[],:.#~%&|!/*>" + "\x00\r\t" + "é\xff\xc3\x80"
    return "".join(rng.choice(pool) for _ in range(n))


def to_bytes(s):
    return [b for b in s.encode("latin-1", errors="replace")] if all(ord(c) < 256 for c in s) else list(s.encode("utf-8"))


def src_bytes(s):
    """source text -> list of byte values; chars < 256 are taken as raw bytes except that
    'é' etc. in generator alphabets are meant as UTF-8"""
    out = []
    for ch in s:
        o = ord(ch)
        if o < 128 or ch in "\xff\xc3\x80":
            out.append(o)
        else:
            out.extend(ch.encode("utf-8"))
    return out
