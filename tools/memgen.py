"""Legal histories of memory operations for C18.

A light simulator keeps the histories legal (never pop below an activation,
never read through a frame whose activation is gone, ...) and knows when the
Go slice grows, so that profiles can stay clear of K1 (reading through an alias
taken before a growth) or aim at it."""
import random

WIDTHS = [0, 1, 2, 3, 5, 17, 100, 125, 126, 127, 128, 129, 130, 200, 254, 255, 256, 257, 300, 1000]
MIN = 128


class Act:
    def __init__(self, serial, nlocals, nops=0):
        self.serial = serial
        self.nlocals = nlocals
        self.nops = nops


class Mem:
    def __init__(self):
        self.base = 0
        self.acts = []
        self.clos = []       # handle descriptors
        self.sp = 0
        self.len = 0
        self.gen = 0
        self.fps = []
        self.alive = True

    def ops(self):
        return self.acts[-1].nops if self.acts else self.base

    def add_ops(self, d):
        if self.acts:
            self.acts[-1].nops += d
        else:
            self.base += d

    def grow(self, size):
        if self.sp + size >= self.len:
            self.len += max(MIN, size)
            self.gen += 1
            return True
        return False


class Sim:
    def __init__(self, rng, avoid_stale=True):
        self.rng = rng
        self.mems = [Mem()]
        self.handles = []     # ("none",) | ("ref", mid, serial, nlocals, gen) | ("own", n, tainted)
        self.ops = []
        self.serial = 1
        self.counter = 1000
        self.avoid_stale = avoid_stale
        self.globals = []

    def val(self):
        self.counter += 1
        return self.counter

    def emit(self, **o):
        self.ops.append(o)

    # ----- primitive operations, each checks legality and returns False if not applicable -----
    def push(self, m, v="fresh"):
        M = self.mems[m]
        M.grow(1)
        M.sp += 1
        M.add_ops(1)
        self.emit(op="push", m=m, v=(self.val() if v == "fresh" else v))
        return True

    def pop(self, m):
        M = self.mems[m]
        if M.ops() < 1:
            return False
        M.sp -= 1
        M.add_ops(-1)
        self.emit(op="pop", m=m)
        return True

    def pushframe(self, m, a, l):
        M = self.mems[m]
        if M.ops() < a or l < a:
            return False
        M.add_ops(-a)
        M.grow(l - a)
        M.sp += l - a
        M.fps.append(M.sp - l)
        M.acts.append(Act(self.serial, l))
        self.serial += 1
        self.emit(op="pushframe", m=m, a=a, l=l)
        return True

    def popframe(self, m):
        M = self.mems[m]
        if not M.acts:
            return False
        M.acts.pop()
        M.sp = M.fps.pop()
        self.emit(op="popframe", m=m)
        return True

    def set(self, m, i=None):
        M = self.mems[m]
        if not M.acts or M.acts[-1].nlocals == 0:
            return False
        if i is None:
            i = self.pick_slot(M.acts[-1].nlocals)
        self.emit(op="set", m=m, i=i, v=self.val())
        return True

    def pick_slot(self, n):
        r = self.rng
        return r.choice([0, n - 1, n // 2, r.randrange(n), r.randrange(n)])

    def local(self, m, i=None):
        M = self.mems[m]
        if not M.acts or M.acts[-1].nlocals == 0:
            return False
        if i is None:
            i = self.pick_slot(M.acts[-1].nlocals)
        self.emit(op="local", m=m, i=i)
        return True

    def capture(self, m):
        M = self.mems[m]
        if M.acts:
            a = M.acts[-1]
            self.handles.append(("ref", m, a.serial, a.nlocals, M.gen))
        else:
            self.handles.append(("none",))
        self.emit(op="capture", m=m)
        return len(self.handles) - 1

    def handle_state(self, h):
        """(readable, nlocals, stale)"""
        d = self.handles[h]
        if d[0] == "none":
            return (False, 0, False)
        if d[0] == "own":
            return (True, d[1], d[2])
        _, mid, serial, n, gen = d
        M = self.mems[mid]
        live = M.alive and any(a.serial == serial for a in M.acts)
        return (live, n, M.gen != gen)

    def own(self, h):
        ok, n, stale = self.handle_state(h)
        if not ok or (stale and self.avoid_stale):
            return None
        self.handles.append(("own", n, stale))
        self.emit(op="own", h=h)
        return len(self.handles) - 1

    def pushclosure(self, m, h):
        self.mems[m].clos.append(h)
        self.emit(op="pushclosure", m=m, h=h)
        return True

    def popclosure(self, m):
        M = self.mems[m]
        if not M.clos:
            return False
        M.clos.pop()
        self.emit(op="popclosure", m=m)
        return True

    def closure(self, m, i=None):
        M = self.mems[m]
        if not M.clos:
            return False
        ok, n, stale = self.handle_state(M.clos[-1])
        if not ok or n == 0 or (stale and self.avoid_stale):
            return False
        if i is None:
            i = self.pick_slot(n)
        self.emit(op="closure", m=m, i=i)
        return True

    def setglobal(self):
        n = self.rng.choice(["g", "h", "acc", "zz"])
        self.globals.append(n)
        self.emit(op="setglobal", m=0, n=n, v=self.val())
        return True

    def global_(self, m):
        n = self.rng.choice(["g", "h", "acc", "zz", "never"])
        self.emit(op="global", m=m, n=n)
        return True

    def clone(self, m, reuse=None):
        M = self.mems[m]
        C = Mem()
        if reuse is not None:
            R = self.mems[reuse]
            C.len = R.len
            C.gen = R.gen + 1
        if M.acts:
            a = M.acts[-1]
            size = max(M.sp - M.fps[-1], MIN)
            C.acts = [Act(self.serial, a.nlocals, a.nops)]
            C.fps = [0]
            C.sp = M.sp - M.fps[-1]
        else:
            size = MIN
        if reuse is None:
            C.len = size
        else:
            C.len = max(C.len, size)
        self.serial += 1
        C.clos = [M.clos[-1]] if M.clos else []
        if reuse is None:
            self.mems.append(C)
            self.emit(op="clone", m=m)
            return len(self.mems) - 1
        self.mems[reuse] = C
        self.emit(op="clone", m=m, reuse=reuse)
        return reuse

    def ipget(self, m):
        M = self.mems[m]
        if not M.acts or M.acts[-1].nops < 1:
            return False
        self.emit(op="ipget", m=m)
        return True

    def ipset(self, m):
        M = self.mems[m]
        if not M.acts or M.acts[-1].nops < 1:
            return False
        self.emit(op="ipset", m=m, v=self.val())
        return True

    # ----- composite behaviour -----
    def read_back(self, m, k=3):
        for _ in range(k):
            self.local(m)
        if self.mems[m].clos:
            self.closure(m)

    def call(self, m, a, l, body, depth=0):
        """the VM's calling sequence around a body"""
        for _ in range(a):
            self.push(m)
        self.pushframe(m, a, l)
        self.push(m)            # return address
        body(depth)
        # leave: drop the scratch area with the frame, push the result
        self.popframe(m)
        self.push(m)


def history_calls(rng, max_depth=None):
    """nested calls with frame widths across allocation boundaries; every level reads its variables back
    after the inner call returned"""
    s = Sim(rng)
    D = max_depth or rng.choice([1, 2, 3, 5, 8, 20])
    widths = [rng.choice(WIDTHS) for _ in range(D)]

    def body(d):
        m = 0
        l = s.mems[m].acts[-1].nlocals
        written = []
        for _ in range(rng.randint(1, 4)):
            if l:
                i = s.pick_slot(l)
                s.set(m, i)
                written.append(i)
        for _ in range(rng.randint(0, 5)):
            s.push(m)
        if d + 1 < D:
            w = widths[d + 1]
            a = rng.randint(0, min(3, w))
            s.call(m, a, w, body, d + 1)
            s.pop(m)
        for i in written:
            s.local(m, i)
        s.read_back(m, 2)
        s.ipget(m)
        for _ in range(rng.randint(0, 3)):
            s.pop(m)

    w = widths[0]
    s.call(0, rng.randint(0, min(3, w)), w, body, 0)
    s.pop(0)
    return s.ops


def history_deep(rng, depth, width):
    s = Sim(rng)
    m = 0
    marks = []
    for d in range(depth):
        a = min(2, width)
        for _ in range(a):
            s.push(m)
        s.pushframe(m, a, width)
        s.push(m)
        if width:
            s.set(m, width - 1)
            s.set(m, 0)
        if d % 7 == 0:
            s.local(m)
    for d in range(depth):
        if width:
            s.local(m, width - 1)
            s.local(m, 0)
        s.ipget(m)
        s.popframe(m)
    return s.ops


def history_random(rng, n, avoid_stale=True):
    s = Sim(rng, avoid_stale)
    for _ in range(n):
        live = [i for i, M in enumerate(s.mems) if M.alive]
        m = rng.choice(live)
        c = rng.random()
        M = s.mems[m]
        if c < 0.2:
            s.push(m)
        elif c < 0.28:
            s.pop(m)
        elif c < 0.38:
            l = rng.choice(WIDTHS)
            a = min(M.ops(), rng.randint(0, 3), l)
            s.pushframe(m, a, l)
            s.push(m)
        elif c < 0.44:
            if len(M.acts) > (1 if m != 0 else 0):
                # do not pop an activation that a closure on some stack still refers to
                ser = M.acts[-1].serial
                used = any(s.handles[h][0] == "ref" and s.handles[h][2] == ser for X in s.mems for h in X.clos)
                if not used:
                    s.popframe(m)
        elif c < 0.58:
            s.set(m)
        elif c < 0.72:
            s.local(m)
        elif c < 0.77:
            h = s.capture(m)
            if rng.random() < 0.5:
                h2 = s.own(h)
                if h2 is not None and rng.random() < 0.7:
                    h = h2
            if s.handle_state(h)[0]:
                s.pushclosure(rng.choice(live), h)
        elif c < 0.8:
            if M.clos and rng.random() < 0.5:
                s.popclosure(m)
        elif c < 0.87:
            s.closure(m)
        elif c < 0.9:
            s.setglobal()
        elif c < 0.93:
            s.global_(m)
        elif c < 0.96:
            if len(s.mems) < 6:
                s.clone(m)
            else:
                r = rng.choice([i for i in range(1, len(s.mems)) if i != m] or [None])
                if r is not None:
                    used = any(s.handles[h][0] == "ref" and s.handles[h][1] == r for X in s.mems for h in X.clos)
                    if not used:
                        s.clone(m, r)
        elif c < 0.98:
            s.ipget(m)
        else:
            s.ipset(m)
    for i, M in enumerate(s.mems):
        s.read_back(i, 3)
    return s.ops


def history_generators(rng):
    """fork a frame into several contexts, run them interleaved, recycle finished ones"""
    s = Sim(rng)
    w = rng.choice(WIDTHS[1:])
    a = min(2, w)
    for _ in range(a):
        s.push(0)
    s.pushframe(0, a, w)
    s.push(0)
    s.set(0, 0)
    s.set(0, w - 1)
    kids = []
    for _ in range(rng.randint(1, 4)):
        kids.append(s.clone(0))
    for round_ in range(rng.randint(2, 6)):
        for k in kids + [0]:
            s.set(k)
            for _ in range(rng.randint(0, 140)):
                s.push(k)
            s.local(k, 0)
            s.local(k, w - 1)
            s.read_back(k, 2)
            if rng.random() < 0.5:
                w2 = rng.choice(WIDTHS)
                s.pushframe(k, 0, w2)
                s.push(k)
                s.set(k)
                s.read_back(k, 2)
                s.popframe(k)
                s.local(k, 0)
        if kids and rng.random() < 0.6:
            # a context finished: recycle its memory for a new fork
            r = rng.choice(kids)
            s.clone(0, r)
            s.local(r, 0)
            s.local(r, w - 1)
    for k in kids + [0]:
        s.read_back(k, 4)
    return s.ops


def history_closures(rng, stale):
    """a function value captures the frame of its defining call; the frame is read through the capture
    while the defining call goes on (stale=True: and while its stack grows, K1's territory)"""
    s = Sim(rng, avoid_stale=not stale)
    w = rng.choice([1, 2, 5, 100, 127, 128, 200])
    s.pushframe(0, 0, w)
    s.push(0)
    s.set(0, 0)
    s.set(0, w - 1)
    h = s.capture(0)
    if stale:
        for _ in range(rng.choice([130, 260, 600])):
            s.push(0)
    else:
        for _ in range(rng.randint(0, 100)):
            if s.mems[0].sp + 2 >= s.mems[0].len:
                break
            s.push(0)
    # call the captured function: its frame, the closure frame on the closure stack
    s.pushframe(0, 0, rng.choice([0, 3, 50]))
    s.push(0)
    s.pushclosure(0, h)
    s.closure(0, 0)
    s.closure(0, w - 1)
    s.popclosure(0)
    s.popframe(0)
    s.set(0, 0)
    s.pushframe(0, 0, 2)
    s.push(0)
    s.pushclosure(0, h)
    s.closure(0, 0)             # must see the value just written
    s.popclosure(0)
    s.popframe(0)
    # returned directly: the frame is copied, the copy lives on after the call
    h2 = s.own(h)
    s.local(0, 0)
    s.popframe(0)
    if h2 is not None:
        s.pushframe(0, 0, rng.choice(WIDTHS))
        s.push(0)
        s.set(0)
        s.pushclosure(0, h2)
        s.closure(0, 0)
        s.closure(0, w - 1)
        s.popclosure(0)
        s.popframe(0)
    return s.ops


def coq_val(v):
    return "VNil" if v is None else "(VInt %d)" % v


def coq_op(o):
    k = o["op"]
    m = o.get("m", 0)
    if k == "push":
        return "MPush %d %s" % (m, coq_val(o["v"]))
    if k == "pop":
        return "MPop %d" % m
    if k == "pushframe":
        return "MPushFrame %d %d %d" % (m, o["a"], o["l"])
    if k == "popframe":
        return "MPopFrame %d" % m
    if k == "set":
        return "MSet %d %d %s" % (m, o["i"], coq_val(o["v"]))
    if k == "local":
        return "MLocal %d %d" % (m, o["i"])
    if k == "capture":
        return "MCapture %d" % m
    if k == "own":
        return "MOwn %d" % o["h"]
    if k == "pushclosure":
        return "MPushClosure %d %d" % (m, o["h"])
    if k == "popclosure":
        return "MPopClosure %d" % m
    if k == "closure":
        return "MClosure %d %d" % (m, o["i"])
    if k == "setglobal":
        return 'MSetGlobal "%s" %s' % (o["n"], coq_val(o["v"]))
    if k == "global":
        return 'MGlobal "%s"' % o["n"]
    if k == "clone":
        return "MClone %d %s" % (m, "(Some %d)" % o["reuse"] if o.get("reuse") is not None else "None")
    if k == "ipget":
        return "MIPGet %d" % m
    if k == "ipset":
        return "MIPSet %d %s" % (m, coq_val(o["v"]))
    raise ValueError(k)
