#!/usr/bin/env python3
"""Confirm seeded changes produced by the sub-agents and file them under
/verif/seeded/<property>-<k>/.

For every /tmp/wt-Cxx/mutantK: in a scratch worktree of /repo's HEAD
  * the patch applies, `go build ./...` and `go build -tags verif ./...` pass,
    the existing suite passes with the patch,
  * the demonstration FAILS with the patch and PASSES without it.
Only then it is kept (patch.diff, demonstration, meta.json with what was run)."""
import glob
import json
import os
import re
import shutil
import subprocess
import sys

ENV = dict(os.environ, GOFLAGS="-mod=mod", GOPROXY="off", GOSUMDB="off", GOTOOLCHAIN="local")
SCRATCH = "/tmp/seedverify"
SEEDED = "/verif/seeded"


def sh(cmd, cwd, timeout=900):
    p = subprocess.run(cmd, cwd=cwd, shell=True, env=ENV, stdout=subprocess.PIPE, stderr=subprocess.STDOUT, timeout=timeout)
    return p.returncode, p.stdout.decode(errors="replace")


def suite(cwd):
    rc, out = sh("go build ./... && go build -tags verif ./... && go test -vet=off -count=1 $(go list ./... | grep -v /mutant)", cwd)
    oks = len(re.findall(r"^ok\s", out, flags=re.M))
    return rc == 0 and oks == 4 and "FAIL" not in out, out[-1500:]


def run_demo(cwd, mdir, meta):
    """returns (passed, log)"""
    if os.path.exists(os.path.join(mdir, "demo.sh")):
        rc, out = sh("sh %s/demo.sh" % os.path.basename(mdir), cwd)
        return rc == 0, out[-1500:]
    demo = meta.get("demo", "")
    m = re.search(r"cp\s+\S*demo_test\.go\s+(\S+?)/demo_test\.go", demo)
    target = m.group(1) if m else "cmd/calc"
    target = target.replace("/tmp/wt-%s/" % meta.get("property", ""), "")
    tags = ""
    mt = re.search(r"-tags\s+(\S+)", demo)
    if mt and mt.group(1) != "verif":
        tags = "-tags " + mt.group(1)
    dst = os.path.join(cwd, target, "demo_test.go")
    shutil.copy(os.path.join(mdir, "demo_test.go"), dst)
    try:
        rc, out = sh("go test -vet=off -count=1 %s -run TestDemo ./%s/" % (tags, target), cwd)
    finally:
        os.unlink(dst)
    return rc == 0 and re.search(r"^ok\s", out, flags=re.M) is not None, out[-1500:]


def main():
    only = sys.argv[1:]
    sh("git -C /repo worktree remove --force %s; rm -rf %s" % (SCRATCH, SCRATCH), "/tmp")
    rc, out = sh("git -C /repo worktree add -q --detach %s HEAD" % SCRATCH, "/tmp")
    if rc != 0:
        print(out)
        sys.exit(1)
    head = subprocess.check_output(["git", "-C", "/repo", "rev-parse", "--short", "HEAD"]).decode().strip()
    os.makedirs(SEEDED, exist_ok=True)
    summary = []
    for mdir in sorted(glob.glob("/tmp/wt-C*/mutant*")):
        prop = re.search(r"wt-(C\d+)", mdir).group(1)
        k = mdir[-1]
        name = "%s-%s" % (prop, k)
        if only and name not in only and prop not in only:
            continue
        try:
            meta = json.load(open(os.path.join(mdir, "meta.json")))
        except Exception as e:
            summary.append((name, "no meta: %s" % e))
            continue
        work_m = os.path.join(SCRATCH, os.path.basename(mdir))
        if os.path.exists(work_m):
            shutil.rmtree(work_m)
        shutil.copytree(mdir, work_m)
        # keep the demo dir out of ./... of the main module
        with open(os.path.join(work_m, "go.mod"), "w") as f:
            f.write("module calcmutantdemo\n")
        sh("git checkout -q -- . ", SCRATCH)
        ok_clean, log_clean = run_demo(SCRATCH, work_m, meta)
        rc, out = sh("git apply %s/patch.diff" % os.path.basename(work_m), SCRATCH)
        if rc != 0:
            summary.append((name, "patch does not apply: " + out[-300:]))
            shutil.rmtree(work_m)
            continue
        ok_suite, log_suite = suite(SCRATCH)
        ok_mut, log_mut = run_demo(SCRATCH, work_m, meta)
        sh("git checkout -q -- .", SCRATCH)
        shutil.rmtree(work_m)
        verdict = "confirmed" if (ok_clean and ok_suite and not ok_mut) else \
            "REJECTED clean_demo_pass=%s suite_pass=%s mutant_demo_pass=%s" % (ok_clean, ok_suite, ok_mut)
        summary.append((name, verdict))
        if verdict == "confirmed":
            dst = os.path.join(SEEDED, name)
            if os.path.exists(dst):
                shutil.rmtree(dst)
            os.makedirs(dst)
            for fn in os.listdir(mdir):
                if fn in ("patch.diff", "demo_test.go", "demo.sh"):
                    shutil.copy(os.path.join(mdir, fn), os.path.join(dst, fn))
            meta_out = {
                "property": prop,
                "summary": meta.get("summary"),
                "needs": meta.get("needs"),
                "demo": meta.get("demo"),
                "confirmed_on_repo_commit": head,
                "what_was_run": [
                    "scratch worktree of /repo HEAD under /tmp (removed afterwards)",
                    "demonstration on the clean tree: passes",
                    "git apply patch.diff; go build ./... ; go build -tags verif ./... ; go test -vet=off -count=1 (4 packages ok)",
                    "demonstration with the patch: fails",
                ],
            }
            json.dump(meta_out, open(os.path.join(dst, "meta.json"), "w"), indent=1)
        else:
            print(name, verdict)
            print("clean:", log_clean[-400:])
            print("suite:", log_suite[-400:])
            print("mutant:", log_mut[-400:])
    sh("git -C /repo worktree remove --force %s" % SCRATCH, "/tmp")
    for n, v in summary:
        print(n, v)


if __name__ == "__main__":
    main()
