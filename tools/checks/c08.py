"""C08 — a session survives errors: a failed statement leaves no trace but its globals."""
import json
import random
import re

import sessions
import vlib
from checks import common, sesscheck
from gen_prog import make_sessions

PROP = "C08"
LEVEL = "other"
MODULE = "PropC08"
THEOREMS = ["C08_error_leaves_clean_machine", "C08_error_keeps_globals", "C08_error_keeps_the_program", "C08_run_error_resets",
            "C08_simple_failure_is_invisible", "C08_simple_relocation", "C08_simple_sessions", "C08_failed_statement_leaves_ready", "C08_statement_relocation", "C08_twin_sessions_partial",
            "C08_twin_sessions_with_definitions_partial", "C08_failed_statement_then_any_session_partial"]

HELPERS = [
    "bz = (n) -> if n <= 0 1/0 else 1 + bz(n - 1)",
    "bn = (n) -> if n <= 0 nosuchvar + 1 else 1 + bn(n - 1)",
    "bt = (n) -> if n <= 0 1 + \"a\" else 1 + bt(n - 1)",
    "one = [1]",
    "bi = (n) -> if n <= 0 one[5] else 1 + bi(n - 1)",
    "two = (a, b) -> a + b",
    "ba = (n) -> if n <= 0 two(1) else 1 + ba(n - 1)",
    "bc = (n) -> if n <= 0 aton(\"zz\") else 1 + bc(n - 1)",
    "gz = (n) -> {\nyield 1\nbz(n)\nyield 2\n}",
    "gg = (n) -> for v <- gz(n) yield v + 10",
    "ggg = (n) -> for v, w <- gg(n), fromto(0, 9) yield v + w",
    "summ = (n) -> {\nt = 0\nfor v <- gz(n) t = t + v\nt\n}",
]

PARSE_ERRORS = ["1 +", "a = = 2", "if", "x = x + 1 }", "\"abc", "12££12", "f(1,", "]", "else 2", "for i <- ", "{\n1\n", "a[1", "(1 + 2"]


def failing_statement(rng):
    """(source, replacement in the twin session or None)"""
    c = rng.random()
    d = rng.choice([0, 0, 1, 2, 5, 12, 30])
    b = rng.choice(["bz", "bn", "bt", "bi", "ba", "bc"])
    if c < 0.15:
        return rng.choice(PARSE_ERRORS), None
    if c < 0.35:
        return "%s(%d)" % (b, d), None
    if c < 0.45:
        # the loop variable is a global binding completed before the failure: it persists (the property says so),
        # so it gets a name no other statement of the session reads
        return "for zzfi <- fromto(0, 5) if zzfi == %d %s(%d)" % (rng.randint(0, 4), b, d), None
    if c < 0.6:
        return "for zzfv <- %s(%d) zzfv" % (rng.choice(["gz", "gg", "ggg"]), d), None
    if c < 0.68:
        return "summ(%d) + 100" % d, None
    if c < 0.76:
        return "tot = summ(%d) + 100" % d, None
    if c < 0.84:
        k = rng.randint(1, 99)
        name = rng.choice(["keepa", "keepb", "keepc"])
        return "{\n%s = %d\n%s(%d)\n}" % (name, k, b, d), "%s = %d" % (name, k)
    if c < 0.9:
        return "[1, 2, %s(%d)]" % (b, d), None
    if c < 0.95:
        return "while true {\n%s(%d)\n}" % (b, d), None
    return "ff = () -> {\nfor a <- fromto(0, 3) {\nfor q <- gz(%d) q\n}\n}\nff()" % d, None


def make_case(rng, base):
    """insert failures into a base session; returns (with_failures, twin, alignment)"""
    full, twin, align = list(HELPERS), list(HELPERS), []
    for i in range(len(HELPERS)):
        align.append((i, i))
    for s in base:
        while rng.random() < 0.35:
            src, repl = failing_statement(rng)
            for part in src.split("\n") if src.startswith("ff = () ->") and False else [src]:
                full.append(part)
            if src.startswith("ff = () ->"):
                # two inputs: the definition (harmless) and the failing call
                full.pop()
                d, c = src.rsplit("\n", 1)
                full.append(d)
                twin.append(d)
                align.append((len(full) - 1, len(twin) - 1))
                full.append(c)
            elif repl is not None:
                twin.append(repl)
        full.append(s)
        twin.append(s)
        align.append((len(full) - 1, len(twin) - 1))
    # a tail of probes that look at the machine after everything
    for probe in ["summ(0 - 1)", "two(20, 22)", "for v <- fromto(0, 3) v", "return 5", "[keepa, keepb, keepc]"]:
        full.append(probe)
        twin.append(probe)
        align.append((len(full) - 1, len(twin) - 1))
    return full, twin, align


def to_lines(stmts):
    """the statements as input lines, each followed by a marker line that writes @@k@@"""
    lines = []
    for k, s in enumerate(stmts):
        lines.extend(s.split("\n"))
        lines.append('write("@@%d@@")' % k)
    return lines


REPORT = re.compile(r"(RUNTIME ERROR : [^\n]*\n)(?:(?:    |--> )\d+: 0X[^\n]*\n)*"
                    r"(?:memory context @\n= stack =+\n(?:[^\n=][^\n]*\n)*=+\n)+")


def segments(out_bytes, n):
    # error reports carry code and data addresses that legitimately differ between the two sessions
    text = REPORT.sub(lambda m: m.group(1), bytes(out_bytes).decode("latin-1"))
    segs = {}
    pos = 0
    for k in range(n):
        mark = "@@%d@@" % k
        i = text.find(mark, pos)
        if i < 0:
            break
        segs[k] = text[pos:i]
        pos = i + len(mark)
    return segs


def loop_twins(run, cases):
    inputs = []
    for full, twin, align in cases:
        inputs.append({"lines": to_lines(full), "doout": True, "timeout_ms": 8000})
        inputs.append({"lines": to_lines(twin), "doout": True, "timeout_ms": 8000})
    outs = vlib.run_harness("loop", inputs, timeout=3600)
    viol = 0
    compared = 0
    for n, (full, twin, align) in enumerate(cases):
        a, b = outs[2 * n], outs[2 * n + 1]
        if a.get("hang") or b.get("hang"):
            continue
        if a.get("panic"):
            viol += 1
            if viol <= 2:
                run.violation({"what": "the read-eval loop aborted on a history with failures: %s" % a["panic"][:300],
                               "lines": to_lines(full)})
            continue
        sa, sb = segments(a["out"], len(full)), segments(b["out"], len(twin))
        for i, j in align:
            if i not in sa or j not in sb:
                viol += 1
                if viol <= 2:
                    run.violation({"what": "through the read-eval loop, statement %d of the history with failures was not "
                                           "evaluated on its own (its marker is missing from the output)" % i,
                                   "lines": to_lines(full[:i + 1]), "twin_lines": to_lines(twin[:j + 1]),
                                   "output": bytes(a["out"]).decode("latin-1")[-1500:]})
                break
            compared += 1
            if sa[i] != sb[j]:
                viol += 1
                if viol <= 2:
                    run.violation({"what": "through the read-eval loop, statement %d prints differently after failed statements "
                                           "than in the session that never saw them" % i,
                                   "lines": to_lines(full[:i + 1]), "twin_lines": to_lines(twin[:j + 1]),
                                   "with_failures": sa[i], "twin": sb[j]})
                break
    return viol, compared


def obs(st):
    return (st.get("parse_err") is not None, tuple(st.get("vals") or []), tuple(st.get("errs") or []),
            tuple(st.get("out") or []), st.get("compile_err"), st.get("panic"))


def run(tier, seed):
    run = vlib.Run(PROP, LEVEL, tier, seed)
    vlib.build_harness()
    sesscheck.regen_builtins()
    problems = common.prepare(run, PROP, MODULE, THEOREMS)
    for p in problems:
        run.violation({"what": "proof obligation of C08 no longer checks", "broken": p}, no_failing_input=True)
    rng = random.Random(seed)
    n = 150 if tier == "quick" else 4000
    bases = make_sessions(seed + 8, n, "general", lo=3, hi=8)
    cases = [make_case(rng, b) for b in bases]
    fulls = [c[0] for c in cases]
    twins = [c[1] for c in cases]
    rf = sessions.run_sessions(fulls)
    rt = sessions.run_sessions(twins)
    nviol = 0
    compared = 0
    nfail = 0
    classes = {}
    for (full, twin, align), a, b in zip(cases, rf, rt):
        ra, rb = a.get("results", []), b.get("results", [])
        for st in ra:
            for e in (st.get("errs") or []):
                if e != "none":
                    classes[e] = classes.get(e, 0) + 1
                    nfail += 1
            if st.get("parse_err"):
                classes["parse"] = classes.get("parse", 0) + 1
                nfail += 1
        if a.get("hang") or b.get("hang"):
            continue
        for i, j in align:
            if i >= len(ra) or j >= len(rb):
                if any(st.get("panic") for st in ra) and nviol < 3:
                    nviol += 1
                    run.violation({"what": "the interpreter aborted in a session with injected failures: %s" %
                                           [st.get("panic") for st in ra if st.get("panic")][:1],
                                   "session": full[:len(ra)]})
                break
            compared += 1
            if obs(ra[i]) != obs(rb[j]):
                nviol += 1
                if nviol <= 3:
                    run.violation({"what": "statement %d behaves differently after failed statements than in the session that "
                                           "never saw them" % i,
                                   "session": full[:i + 1], "twin_session": twin[:j + 1], "statement": full[i],
                                   "with_failures": ra[i], "twin": rb[j]})
                break
    # the same through the real read-eval loop (REPL style: lines in, "> value" out)
    # in the line-oriented loop an unclosed block, bracket or string literal is not a failing statement but an
    # unfinished one (it swallows the following lines), so histories containing one are left to the per-statement runs
    open_ended = {"{\n1\n", "\"abc", "a[1"}
    line_cases = [c for c in cases if not (open_ended & set(c[0]))]
    lviol, lcompared = loop_twins(run, line_cases[:40 if tier == "quick" else 1500])
    nviol += lviol
    compared += lcompared

    # correspondence of the failing histories with the model (incl. counters after every failure)
    terms_res, codes = sesscheck.evaluate(fulls, name="C08")
    stats = sesscheck.classify(run, PROP, fulls, terms_res, codes, use_sem=True)
    run.cov.update({
        "explanation": "Each history (a generated session with runtime errors of every class at call depth 0-30, in loop bodies, "
                       "in generators 1-3 levels deep, parse errors, several in a row, and failing blocks that complete a global "
                       "assignment first) is run on the real code next to its failure-free twin; every later statement must give "
                       "the same value, output and error. The failing histories are also compared with Sem and the VM model "
                       "(incl. machine counters after each failure). Proved: the model's error reset leaves a clean machine and "
                       "keeps globals. Not proved: relocation invariance (C08_twin_sessions_statement).",
        "evaluations": compared,
        "distinct_nontrivial": len({json.dumps(f) for f in fulls}),
        "rule": "%d histories; %d injected failing statements; classes %s; non-trivial = distinct histories (each has at least "
                "one statement after a failure)" % (len(fulls), nfail, json.dumps(classes)),
        "traces_validated_against_impl": stats["sessions"],
        "samples": [fulls[0][len(HELPERS):], twins[0][len(HELPERS):]],
        "stats": dict(stats), "twin_violations": nviol,
    })
    return run.finish()


def replay(path, seed):
    sesscheck.replay_session(PROP, path)
    return 0
