"""C11 — operators obey the documented value algebra on every operand pair."""
import json
import random
import struct

import vlib
from checks import common

PROP = "C11"
LEVEL = "proof"
MODULE = "PropC11"
THEOREMS = [
    "C11_arith_promotes", "C11_int_div_truncates", "C11_int_div_mod_zero", "C11_eq_symmetric",
    "C11_ne_is_negation", "C11_rel_consistent_int", "C11_rel_mirror", "C11_rel_float_consistent",
    "C11_int_eq_its_float_partial",
    "C11_functions_never_equal", "C11_nil_operand_is_error", "C11_op_total",
    "C11_slice_len", "C11_slice_split_concat", "C11_len_concat", "C11_index_error_iff",
    "C11_logic_commutes", "C11_logic_associates_bool", "C11_logic_associates_int", "C11_not_flip_involutive",
    "C11_de_morgan", "C11_flip_is_complement", "C11_shift_total", "C11_shift_count_out_of_range",
    "C11_shift_zero_is_identity",
    "C11_concat_associates", "C11_concat_unit", "C11_int_add_mul_commute", "C11_int_add_mul_associate",
    "C11_int_sub_self_add_zero", "C11_mod_sign_and_bound", "C11_int_order",
    "C11_relational_defined_iff_numeric", "C11_logic_defined_iff_same_kind", "C11_shift_mod_errors",
    "C11_nil_or_type_error", "C11_index_of_concat", "C11_len_defined",
]

BINOPS = ["+", "-", "*", "/", "%", "&", "|", "<", ">", "<=", ">=", "==", "!=", "<<", ">>"]
UNOPS = ["flip", "not", "len"]
ERRS = {"none", "nil", "type", "zerodiv", "index"}

M63 = 1 << 63


def fbits(x):
    return struct.unpack("<Q", struct.pack("<d", x))[0]


def bits_float(b):
    return struct.unpack("<d", struct.pack("<Q", b))[0]


INTS = [0, 1, -1, 2, -2, 3, 7, 10, 63, 64, 65, -63, -64, 255, 1 << 31, -(1 << 31), (1 << 53) - 1, 1 << 53,
        (1 << 53) + 1, -(1 << 53) - 1, M63 - 1, -M63, -M63 + 1, 1 << 62]
FLOATS = [0.0, -0.0, 1.0, -1.0, 0.5, 1.5, 0.1, 2.0, 3.14, 1e6, 123456789.0, 1e20, 1e21, 1e-5, 1e-4, 5e-324,
          2.2250738585072014e-308, 1.7976931348623157e308, float("inf"), float("-inf"), float("nan"),
          9007199254740992.0, 9223372036854775808.0, -9223372036854775808.0, 1.0000000000000002, 0.9999999999999999]
STRS = [[], [97], [97, 98, 99], [0xc3, 0xa9], [0xff, 0xfe], [34, 97, 34], [104, 105, 10], list(range(97, 123))]


class Gen:
    def __init__(self, seed):
        self.r = random.Random(seed)

    def int(self):
        c = self.r.random()
        if c < 0.55:
            return self.r.choice(INTS)
        if c < 0.8:
            return self.r.randint(-20, 20)
        return self.r.randint(-M63, M63 - 1)

    def float_bits(self):
        c = self.r.random()
        if c < 0.6:
            return fbits(self.r.choice(FLOATS))
        if c < 0.8:
            return fbits(round(self.r.uniform(-1000, 1000), self.r.randint(0, 4)))
        return self.r.getrandbits(64)

    def str(self):
        c = self.r.random()
        if c < 0.6:
            return list(self.r.choice(STRS))
        return [self.r.choice([97, 98, 32, 48, 0xc3, 0xa9, 0x80, 34]) for _ in range(self.r.randint(0, 30))]

    def value(self, depth=0, kind=None):
        k = kind or self.r.choice(["nil", "int", "int", "float", "float", "str", "arr", "bool", "fun"])
        if k == "nil":
            return ["nil"]
        if k == "int":
            return ["int", str(self.int())]
        if k == "float":
            return ["float", str(self.float_bits())]
        if k == "str":
            return ["str", self.str()]
        if k == "bool":
            return ["bool", self.r.random() < 0.5]
        if k == "fun":
            return ["fun"]
        n = self.r.choice([0, 0, 1, 2, 3, 5]) if depth < 2 else 0
        return ["arr", [self.value(depth + 1, self.r.choice(["int", "int", "float", "str", "arr", "bool", "fun", "nil"]))
                        for _ in range(n)]]


KINDS = ["nil", "int", "float", "str", "arr", "bool", "fun"]


def jlen(v):
    return len(v[1])


def is_num(v):
    return v[0] in ("int", "float")


def num_is_nan(v):
    return v[0] == "float" and bits_float(int(v[1])) != bits_float(int(v[1]))


def wrap64(z):
    return (z + M63) % (1 << 64) - M63


def tdiv(a, b):
    q = abs(a) // abs(b)
    return q if (a < 0) == (b < 0) else -q


def gen_cases(g, n_random):
    cases = []
    # every binary operator on every kind pairing, several payloads
    for op in BINOPS:
        for ka in KINDS:
            for kb in KINDS:
                for _ in range(3):
                    cases.append({"op": op, "args": [g.value(kind=ka), g.value(kind=kb)]})
    for op in UNOPS:
        for ka in KINDS:
            for _ in range(6):
                cases.append({"op": op, "args": [g.value(kind=ka)]})
    # integer boundary grid for arithmetic, division, modulo and shifts
    for op in ["+", "-", "*", "/", "%", "<<", ">>", "&", "|", "<", "<=", "==", "!="]:
        for a in INTS:
            for b in INTS:
                cases.append({"op": op, "args": [["int", str(a)], ["int", str(b)]]})
    # float and mixed grids
    for op in ["+", "-", "*", "/", "<", ">", "<=", ">=", "==", "!="]:
        for a in FLOATS:
            for b in FLOATS[:14] + [float("inf"), float("nan")]:
                cases.append({"op": op, "args": [["float", str(fbits(a))], ["float", str(fbits(b))]]})
            for b in INTS[:12] + INTS[-8:]:
                cases.append({"op": op, "args": [["float", str(fbits(a))], ["int", str(b)]]})
                cases.append({"op": op, "args": [["int", str(b)], ["float", str(fbits(a))]]})
    # an int equals the float of the same value
    for a in INTS + [g.r.randint(-(1 << 53), 1 << 53) for _ in range(40)]:
        if abs(a) <= (1 << 53):
            cases.append({"op": "==", "args": [["int", str(a)], ["float", str(fbits(float(a)))]], "law": "int_eq_float"})
            cases.append({"op": "==", "args": [["float", str(fbits(float(a)))], ["int", str(a)]], "law": "int_eq_float"})
    # indexing: every position around the bounds
    targets = [["str", s] for s in STRS[:7]] + [g.value(kind="arr") for _ in range(8)] + \
              [["arr", [["int", "1"], ["int", "2"], ["int", "3"]]], ["arr", []]]
    for t in targets:
        n = jlen(t)
        for i in range(-2, n + 3):
            cases.append({"op": "ix1", "args": [t, ["int", str(i)]]})
            for j in range(-2, n + 3):
                cases.append({"op": "ix2", "args": [t, ["int", str(i)], ["int", str(j)]]})
        for bad in (["nil"], ["float", str(fbits(1.0))], ["bool", True], ["str", [49]], ["int", str(M63 - 1)], ["int", str(-M63)]):
            cases.append({"op": "ix1", "args": [t, bad]})
            cases.append({"op": "ix2", "args": [t, bad, ["int", "1"]]})
            cases.append({"op": "ix2", "args": [t, ["int", "0"], bad]})
    for k in KINDS:
        if k not in ("str", "arr"):
            v = g.value(kind=k)
            cases.append({"op": "ix1", "args": [v, ["int", "0"]]})
            cases.append({"op": "ix1", "args": [v, ["nil"]]})
            cases.append({"op": "ix2", "args": [v, ["int", "0"], ["int", "0"]]})
    # text
    for _ in range(150):
        v = g.value()
        for op in ("string", "display", "abbrev"):
            cases.append({"op": op, "args": [v]})
    for f in FLOATS:
        cases.append({"op": "string", "args": [["float", str(fbits(f))]]})
    for _ in range(300):
        cases.append({"op": "string", "args": [["float", str(g.float_bits())]]})
    for i in INTS:
        cases.append({"op": "string", "args": [["int", str(i)]]})
    # random tuples
    for _ in range(n_random):
        op = g.r.choice(BINOPS)
        cases.append({"op": op, "args": [g.value(), g.value()]})
    return cases


def law_violations(cases, outs, idx):
    """The property's own statement evaluated on what Go returned."""
    bad = []

    def look(op, args):
        return idx.get((op, json.dumps(args)))

    for c, o in zip(cases, outs):
        op, args = c["op"], c["args"]
        if "panic" in o:
            bad.append((c, "operator aborted: %s" % o["panic"]))
            continue
        if op in ("string", "display", "abbrev", "stricteq"):
            continue
        e = o["err"]
        if e not in ERRS:
            bad.append((c, "undocumented error %s" % e))
            continue
        if any(a[0] == "nil" for a in args) and e == "none":
            bad.append((c, "nil operand accepted"))
        if op in ("+", "-", "*", "/") and len(args) == 2 and is_num(args[0]) and is_num(args[1]):
            want = "int" if args[0][0] == "int" and args[1][0] == "int" else "float"
            if e == "none" and o["jval"][0] != want:
                bad.append((c, "promotion: result kind %s, want %s" % (o["jval"][0], want)))
        if op in ("/", "%") and args[0][0] == "int" and args[1][0] == "int":
            a, b = int(args[0][1]), int(args[1][1])
            if b == 0:
                if e != "zerodiv":
                    bad.append((c, "integer %s by zero gives %s" % (op, e)))
            elif e != "none":
                bad.append((c, "integer %s fails with %s" % (op, e)))
            else:
                want = wrap64(tdiv(a, b)) if op == "/" else a - b * tdiv(a, b)
                if int(o["jval"][1]) != want:
                    bad.append((c, "integer %s: got %s want %d" % (op, o["jval"][1], want)))
        if op == "==":
            rev = look("==", [args[1], args[0]])
            if rev is not None and (rev["err"], rev.get("jval")) != (e, o.get("jval")):
                bad.append((c, "== not symmetric"))
            ne = look("!=", args)
            if ne is not None:
                if ne["err"] != e or (e == "none" and ne["jval"][1] == o["jval"][1]):
                    bad.append((c, "!= is not the negation of =="))
            if args[0][0] == "fun" and args[1][0] != "nil" and (e != "none" or o["jval"][1] is not False):
                bad.append((c, "function compared equal or failed"))
            if c.get("law") == "int_eq_float" and (e != "none" or o["jval"][1] is not True):
                bad.append((c, "an int does not equal the float of the same value"))
        if op == "<" and is_num(args[0]) and is_num(args[1]) and e == "none":
            gt = look(">", [args[1], args[0]])
            if gt is not None and gt.get("jval") != o["jval"]:
                bad.append((c, "a<b differs from b>a"))
            ge = look(">=", args)
            if ge is not None and not num_is_nan(args[0]) and not num_is_nan(args[1]) and \
                    ge["err"] == "none" and ge["jval"][1] == o["jval"][1]:
                bad.append((c, "a<b and a>=b agree on non-NaN numbers"))
        if op == "<=" and is_num(args[0]) and is_num(args[1]) and e == "none":
            ge = look(">=", [args[1], args[0]])
            if ge is not None and ge.get("jval") != o["jval"]:
                bad.append((c, "a<=b differs from b>=a"))
        if op in ("<=", ">=") and is_num(args[0]) and is_num(args[1]) and e == "none":
            strict = look(op[0], args)
            eq = look("==", args)
            if strict is not None and eq is not None and strict["err"] == "none" and eq["err"] == "none":
                if o["jval"][1] != (strict["jval"][1] or eq["jval"][1]):
                    bad.append((c, "a%sb differs from (a%sb or a==b)" % (op, op[0])))
        if op in ("ix1", "ix2") and args[0][0] in ("str", "arr") and all(a[0] == "int" for a in args[1:]):
            n = jlen(args[0])
            ii = [int(a[1]) for a in args[1:]]
            inb = (0 <= ii[0] < n) if op == "ix1" else (0 <= ii[0] <= ii[1] <= n)
            if inb and e != "none":
                bad.append((c, "in-bounds index fails with %s" % e))
            if not inb and e != "index":
                bad.append((c, "out-of-bounds index gives %s" % e))
            if inb and e == "none" and op == "ix2" and jlen(o["jval"]) != ii[1] - ii[0]:
                bad.append((c, "slice length is not j-i"))
        if op == "+" and e == "none" and args[0][0] in ("str", "arr") and jlen(o["jval"]) != jlen(args[0]) + jlen(args[1]):
            bad.append((c, "#(a+b) != #a+#b"))
    return bad


def val_term(o):
    return ("(Ok %s)" % o["val"]) if o["err"] == "none" else "(Fail Err%s)" % {
        "nil": "Nil", "type": "Type", "zerodiv": "ZeroDiv", "index": "Index"}.get(o["err"], "Read")


def run(tier, seed):
    run = vlib.Run(PROP, LEVEL, tier, seed)
    problems = common.prepare(run, PROP, MODULE, THEOREMS)
    for p in problems:
        run.violation({"what": "proof obligation of C11 no longer checks", "broken": p}, no_failing_input=True)

    g = Gen(seed)
    cases = gen_cases(g, 4000 if tier == "quick" else 150000)
    outs = vlib.run_harness("valop", cases, timeout=1200)
    if len(outs) != len(cases):
        raise vlib.CheckError("harness returned %d results for %d cases" % (len(outs), len(cases)))
    idx = {}
    for c, o in zip(cases, outs):
        idx[(c["op"], json.dumps(c["args"]))] = o

    bad = law_violations(cases, outs, idx)

    # s[0:i] + s[i:#s] == s, on Go's own results
    split_cases, split_src = [], []
    for c, o in zip(cases, outs):
        if c["op"] == "ix2" and o.get("err") == "none" and c["args"][1][1] == "0":
            t, i = c["args"][0], c["args"][2]
            rest = idx.get(("ix2", json.dumps([t, i, ["int", str(jlen(t))]])))
            if rest is not None and rest.get("err") == "none":
                split_cases.append({"op": "+", "args": [o["jval"], rest["jval"]]})
                split_src.append(t)
    souts = vlib.run_harness("valop", split_cases) if split_cases else []
    for c, t, o in zip(split_cases, split_src, souts):
        if o.get("err") != "none" or o["jval"] != t:
            bad.append((c, "s[0:i]+s[i:#s] differs from s = %s" % json.dumps(t)))

    for c, why in bad[:20]:
        run.violation({"what": why, "operator": c["op"], "operands": c["args"],
                       "how": "echo '<case json>' | build/harness valop", "case": c})

    # correspondence with the model
    op_terms, op_idx, txt_terms, txt_idx = [], [], [], []
    for n, (c, o) in enumerate(zip(cases, outs)):
        if "panic" in o:
            continue
        if c["op"] in ("string", "display", "abbrev"):
            txt_terms.append('("%s", %s, %s)' % (c["op"], o["args"][0], o["text"]))
            txt_idx.append(n)
        else:
            op_terms.append('("%s", [%s], %s)' % (c["op"], ";".join(o["args"]), val_term(o)))
            op_idx.append(n)
    imports = ["Base", "Bytecode", "Value", "FloatText", "CorrC11"]
    badop = vlib.coq_eval_cases("C11op", imports, op_terms, "chk_valop", shard=1500)
    badtx = vlib.coq_eval_cases("C11txt", imports, txt_terms, "chk_text", shard=300)
    if badop or badtx:
        dis = [cases[op_idx[i]] for i in badop[:8]] + [cases[txt_idx[i]] for i in badtx[:8]]
        det = vlib.coq_eval_terms("C11", imports,
                                  ['model_op "%s" [%s]' % (cases[op_idx[i]]["op"], ";".join(outs[op_idx[i]]["args"]))
                                   for i in badop[:8]] +
                                  ['model_text "%s" %s' % (cases[txt_idx[i]]["op"], outs[txt_idx[i]]["args"][0])
                                   for i in badtx[:8]])
        impl = [outs[op_idx[i]] for i in badop[:8]] + [outs[txt_idx[i]] for i in badtx[:8]]
        run.violation({"what": "the operator model (coq/Value.v, FloatText.v) and types/value disagree; the C11 "
                               "theorems are about the model and no longer transfer to the code",
                       "correspondence": "CorrC11.chk_valop / chk_text",
                       "disagreeing_cases": dis, "model_says": det, "implementation_says": impl},
                      no_failing_input=not bad)

    kinds = {}
    errs = {}
    for c, o in zip(cases, outs):
        key = c["op"] + ":" + ",".join(a[0] for a in c["args"])
        kinds[key] = kinds.get(key, 0) + 1
        errs[o.get("err", "panic")] = errs.get(o.get("err", "panic"), 0) + 1
    nontrivial = {json.dumps([c["op"], c["args"]]) for c, o in zip(cases, outs) if o.get("err") == "none"}
    run.cov.update({
        "evaluations": len(cases) + len(split_cases),
        "distinct_nontrivial": len(nontrivial),
        "rule": "operand tuples: all 15 binary operators x 7x7 kind pairings x 3 payloads, unary operators x kinds, "
                "integer boundary grid (%d values squared) for 13 operators, float and mixed grids incl. NaN, "
                "infinities, signed zero, subnormals, every index position in [-2,len+2] (squared for slices) over "
                "%d strings/arrays, text rendering of random values and floats, plus random tuples; "
                "non-trivial = distinct tuples for which the real operator returned a value (not an error)" % (len(INTS), 17),
        "traces_validated_against_impl": len(op_terms) + len(txt_terms),
        "samples": [cases[0], cases[len(cases) // 2], cases[-1]],
        "input_distribution": {"by_error_class": errs, "distinct_op_kind_signatures": len(kinds)},
        "laws_checked_on_impl": ["promotion", "int div truncation / zero", "== symmetric", "!= negation", "relational consistency",
                                 "int == float(int)", "functions never equal", "nil operand is an error", "documented errors only",
                                 "slice length", "split+concat", "len of concat", "index error iff out of bounds"],
    })
    run.assumptions = ["float arithmetic: Coq primitive floats and Go float64 both implement IEEE-754 binary64 (compared by bit pattern each run)"]
    return run.finish()


def replay(path, seed):
    d = json.load(open(path))
    if "case" in d:
        out = vlib.run_harness("valop", [d["case"]])
        print(json.dumps(out, indent=1))
    return run("quick", seed)
