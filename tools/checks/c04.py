"""C04 — lexical scoping and isolation: a call cannot disturb its caller."""
import json
import random

import sessions
import vlib
from checks import common, sesscheck
from gen_prog import make_sessions, closure_loop_session

PROP = "C04"
LEVEL = "other"
MODULE = "PropC04"
THEOREMS = ["C04_read_resolution_rule", "C04_read_resolution_one_scope", "C04_write_targets_own_scope",
            "C04_assignment_in_function_is_local", "C04_fresh_slot_is_distinct", "C04_top_level_assign_is_global",
            "C04_builtin_call_changes_no_global", "C04_assignment_from_call_binds_only_its_target",
            "C04_compiled_call_restores_the_caller", "C04_user_call_changes_nothing", "C04_parameter_is_the_argument",
            "C04_definition_binds_only_its_name", "C04_any_call_changes_no_global",
            "C04_call_in_a_session_changes_no_global"]

POOL = ["a", "b", "c", "x", "y"]
COUNTER = [0]


def lit(rng):
    COUNTER[0] += 1
    return str(COUNTER[0] * 10 + rng.randint(0, 9))


def nest(rng, level, maxdepth, escape):
    """source of a function literal whose result is a fingerprint of every pool variable it can see"""
    params = rng.sample(POOL, rng.randint(0, 3))
    body = []
    for _ in range(rng.randint(0, 3)):
        n = rng.choice(POOL)
        body.append(rng.choice(["%s = %s" % (n, lit(rng)), "%s = %s + 1" % (n, n), "%s = 1 + %s" % (n, n),
                                "if %s == %s %s = %s" % (rng.choice(POOL), rng.choice(POOL), n, lit(rng))]))
    if rng.random() < 0.25:
        lv = rng.choice(POOL)
        body.append("for %s <- fromto(%s, %s + 2) %s = %s" % (lv, lit(rng), "1", rng.choice(POOL), lv))
    fp = "[" + ", ".join(POOL) + "]"
    if level < maxdepth:
        inner, iar = nest(rng, level + 1, maxdepth, escape)
        body.append("inner = %s" % inner)
        args = ", ".join(rng.choice([lit(rng), rng.choice(POOL)]) for _ in range(iar))
        if escape and level == 0:
            for _ in range(rng.randint(0, 2)):
                body.append("%s = %s" % (rng.choice(POOL), lit(rng)))
            body.append("inner")          # the closure escapes as the direct return value
        else:
            body.append("res = inner(%s)" % args)
            for _ in range(rng.randint(0, 2)):
                body.append("%s = %s" % (rng.choice(POOL), lit(rng)))
            body.append("[%s, res]" % fp)
    else:
        body.append(fp)
    return "(%s) -> {\n%s\n}" % (", ".join(params), "\n".join(body)), len(params)


def scoping_session(rng):
    s = []
    for n in rng.sample(POOL, rng.randint(1, 5)):
        s.append("%s = %s" % (n, lit(rng)))
    fp = "[" + ", ".join(POOL) + "]"
    s.append(fp)
    probes = [len(s) - 1]
    escape = rng.random() < 0.35
    src, ar = nest(rng, 0, rng.randint(0, 3), escape)
    s.append("top = %s" % src)
    args = ", ".join(lit(rng) for _ in range(ar))
    if escape:
        s.append("k = top(%s)" % args)
        s.append("grow = (n) -> if n <= 0 0 else 1 + grow(n - 1)")
        s.append("grow(%d)" % rng.choice([3, 40]))
        s.append("kk = k")
        # the escaped closure's arity is unknown here: probe with 0..3 arguments, arity errors are fine and deterministic
        for na in range(0, 4):
            s.append("k(%s)" % ", ".join(lit(rng) for _ in range(na)))
    else:
        s.append("top(%s)" % args)
        s.append("top(%s)" % args)
    s.append(fp)
    probes.append(len(s) - 1)
    return s, probes


def run(tier, seed):
    run = vlib.Run(PROP, LEVEL, tier, seed)
    vlib.build_harness()
    sesscheck.regen_builtins()
    problems = common.prepare(run, PROP, MODULE, THEOREMS)
    for p in problems:
        run.violation({"what": "proof obligation of C04 no longer checks", "broken": p}, no_failing_input=True)
    sesscheck.known_finding_lines(run, PROP)
    rng = random.Random(seed)
    COUNTER[0] = 0
    n = 250 if tier == "quick" else 6000
    scases = [scoping_session(rng) for _ in range(n)]
    sess = [s for s, _ in scases] + make_sessions(seed + 4, n // 3, "general") + \
        [closure_loop_session(rng) for _ in range(n // 4)]
    res, codes = sesscheck.evaluate(sess, name="C04")
    stats = sesscheck.classify(run, PROP, sess, res, codes)
    # globals are the same before and after the calls
    nviol = 0
    for (s, probes), r in zip(scases, res):
        rs = r.get("results", [])
        if len(rs) < len(s) or r.get("hang"):
            continue
        a, b = rs[probes[0]], rs[probes[1]]
        if a.get("vals") != b.get("vals"):
            nviol += 1
            if nviol <= 3:
                run.violation({"what": "calling a function changed a global: %s before, %s after" % (a.get("vals"), b.get("vals")),
                               "session": s})
    # the resolver model against STRewrite, tree for tree (and the compiler model against the emitted code)
    cres = sessions.run_sessions(sess[:n], want_cs=True)
    cterms = [sessions.compile_case_term(r) for r in cres]
    cbad = vlib.coq_eval_cases("C04res", ["Base", "Bytecode", "Value", "Ast", "Resolve", "Compile", "Session", "CorrCompile"],
                               cterms, "chk_compile", shard=25)
    for i in cbad[:2]:
        run.violation({"what": "the resolver/compiler model and the implementation disagree on the resolved tree or the emitted "
                               "code of this session; the scoping theorems are about the model",
                       "correspondence": "CorrCompile.chk_compile", "session": sess[i]}, no_failing_input=not run.violations)
    run.cov.update({
        "explanation": "Scoping sessions: globals for a pool of 5 names, a nest of function literals up to 4 deep whose parameters, "
                       "assignments, increments, conditional assignments and for-variables reuse the same names, each level "
                       "returning a fingerprint of every name it can see plus its callee's fingerprint; closures that escape as the "
                       "return value and are called after unrelated calls with 0-3 arguments. Oracles: Sem (coq) for every value, "
                       "globals fingerprint before = after on the real code, resolver model = STRewrite tree-for-tree, compiler "
                       "model = emitted code. Proved: the static resolution rule (PropC04.v). Not proved: frame isolation in the VM.",
        "evaluations": stats["statements"],
        "distinct_nontrivial": sesscheck.distinct_nontrivial(sess, res),
        "rule": "generated scoping sessions + general sessions; non-trivial = distinct sessions with a statement that evaluates",
        "traces_validated_against_impl": stats["sessions"] + len(cterms),
        "samples": [scases[0][0], scases[1][0][-4:]],
        "stats": dict(stats), "global_fingerprint_violations": nviol, "resolver_disagreements": len(cbad),
    })
    return run.finish()


def replay(path, seed):
    sesscheck.replay_session(PROP, path)
    return 0
