"""C05 — no accepted program can crash the interpreter; failures are calc runtime errors."""
import json
import random

import sessions
import vlib
from checks import common, sesscheck
from gen_prog import make_sessions

PROP = "C05"
LEVEL = "other"
MODULE = "PropC05"
THEOREMS = ["C05_operators_total", "C05_division_by_zero_is_an_error", "C05_index_out_of_range_is_an_error",
            "C05_shift_total", "C05_compiler_never_panics", "C05_every_node_compiles_safely",
            "C05_no_input_makes_the_compiler_panic", "C05_statement_runs_never_abort", "C05_definition_never_faults"]

PRELUDE = ["vi = 5", "vz = 0", "vf = 1.5", "vs = \"ab\"", "va = [1, 2]", "vb = true", "vfn = (x) -> x",
           "vbig = 9223372036854775807", "vneg = 0 - 9223372036854775807 - 1", "ve = []", "vnested = [[1], \"s\", vfn]"]
OPERANDS = ["vi", "vz", "vf", "vs", "va", "vb", "vn", "vfn", "vbig", "vneg", "ve", "vnested", "1", "0", "2.5", "\"\"", "[]",
            "true", "(1 + 2)", "vfn(1)", "va[0]"]
BINOPS = ["+", "-", "*", "/", "%", "&", "|", "&&", "||", "<", ">", "<=", ">=", "==", "!=", "<<", ">>"]
UNOPS = ["-", "#", "!", "~"]

SHAPES = [
    "%(e)s",
    "x = %(e)s",
    "{\n%(e)s\n0\n}",
    "ff = () -> %(e)s\nff()",
    "if %(e)s 1 else 2",
    "if !(%(e)s) 1",
    "while %(e)s return 1",
    "[%(e)s, 1]",
    "[0, %(e)s][1]",
    "va[%(e)s]",
    "vs[%(e)s:%(e)s]",
    "(%(e)s)[0]",
    "vfn(%(e)s)",
    "(%(e)s) + (%(e)s)",
    "for q <- %(e)s q",
    "for q <- elems(%(e)s) q",
    "for q <- fromto(%(e)s, (%(e)s) + 2) q",
    "toa(%(e)s)",
    "aton(%(e)s)",
    "ff = () -> {\nwhile true {\nt = %(e)s\nreturn t\n}\n}\nff()",
    "ff = () -> yield %(e)s\nff()",
    "#(%(e)s)",
    "-(%(e)s) * 2",
]


def systematic(rng, limit):
    exprs = []
    for op in BINOPS:
        for a in OPERANDS:
            for b in OPERANDS:
                exprs.append("%s %s %s" % (a, op, b))
    for op in UNOPS:
        for a in OPERANDS:
            exprs.append("%s%s" % (op, a))
    for a in OPERANDS:
        for i in ["-1", "0", "2", "3", "vbig", "vneg", "vf", "vn", "vs"]:
            exprs.append("%s[%s]" % (a, i))
            exprs.append("%s[%s:%s]" % (a, i, rng.choice(["0", "1", "2", "3", "vn", "vbig"])))
    rng.shuffle(exprs)
    exprs = exprs[:limit]
    sess = []
    chunk = 12
    for k in range(0, len(exprs), chunk):
        stmts = []
        for e in exprs[k:k + chunk]:
            shape = rng.choice(SHAPES)
            stmts.extend((shape % {"e": e}).split("\n") if "\n" in shape and not shape.startswith(("{", "ff = () -> {")) else [shape % {"e": e}])
        sess.append(PRELUDE + stmts)
    return sess, len(exprs)


def mutate(rng, src):
    """replace one token of a valid statement by a token of another kind (keeps most programs parseable)"""
    import re
    toks = list(re.finditer(r"[a-z]+|\d+(?:\.\d+)?|\"[^\"]*\"", src))
    if not toks:
        return src
    m = rng.choice(toks)
    if m.group(0) in ("if", "else", "while", "for", "return", "yield"):
        return src
    rep = rng.choice(["vn", "1", "0", "2.5", "\"s\"", "[]", "true", "vfn", "9223372036854775807", "[1, [2]]", "vneg"])
    return src[:m.start()] + rep + src[m.end():]


def run(tier, seed):
    run = vlib.Run(PROP, LEVEL, tier, seed)
    vlib.build_harness()
    sesscheck.regen_builtins()
    problems = common.prepare(run, PROP, MODULE, THEOREMS)
    for p in problems:
        run.violation({"what": "proof obligation of C05 no longer checks", "broken": p}, no_failing_input=True)
    rng = random.Random(seed)
    sys_sess, nexpr = systematic(rng, 1500 if tier == "quick" else 100000)
    n = 300 if tier == "quick" else 8000
    adv = make_sessions(seed + 5, n, "adversarial")
    base = make_sessions(seed + 55, n // 2, "general")
    mut = [PRELUDE + [s if ("while" in s or "fromto" in s) else mutate(rng, s) for s in sess] for sess in base]
    sess = sys_sess + adv + mut
    res, codes = sesscheck.evaluate(sess, name="C05")
    faults = 0
    for s, r in zip(sess, res):
        for kind, at, text in sesscheck.go_problems(r):
            if kind == "hang":
                continue    # a program that does not terminate is not a fault; the model must run out of fuel too
            faults += 1
            if faults <= 4:
                stmts = s[:at + 1]
                run.violation({"what": "the interpreter %s on a parseable program (statement %d): %s" % (kind, at, text),
                               "session": stmts, "failing_statement": s[at] if at < len(s) else None})
    # every resolved tree of this run lies in the domain of the compiler theorem (wfb)
    trees = []
    for r in res:
        for st in r.get("results", []):
            trees.extend(st.get("resolved") or [])
    wterms = ["[%s]" % ";".join(trees[i:i + 40]) for i in range(0, len(trees), 40)]
    badw = vlib.coq_eval_cases("c05w", sesscheck.IMPORTS + ["CompileWf", "CorrCompile"], wterms, "chk_wfb", shard=20)
    for j in sorted(badw)[:2]:
        run.violation({"what": "a tree produced by the parser and the resolver is outside the shape the compiler theorem "
                               "assumes (wfb false): C05_compiler_never_panics does not speak about it",
                       "trees": trees[j * 40:(j + 1) * 40][:5]}, no_failing_input=True)
    # the model must agree, Abort = panic included
    stats = sesscheck.classify(run, PROP, sess, res, codes, use_sem=False)
    dist = sesscheck.distribution(sess, res)
    run.cov.update({
        "explanation": "Adversarial programs are run on the real code in-process with panics recovered and a time limit: "
                       "%d operator/operand/shape combinations (every operator x 21 operands of every type incl. nil, function, "
                       "extreme ints, nested arrays, in 23 statement shapes), %d sessions from the generator's adversarial "
                       "profile and %d token-mutated valid sessions. Any panic, hang or undocumented error is a violation. "
                       "The VM model (every Go panic site = Abort) must agree on all of them. Proved: operator totality and "
                       "that the compiler model never panics on trees of the parser's shape (PropC05.v); all %d resolved trees "
                       "of this run have that shape (chk_wfb). Not proved: absence of internal faults of the VM for all programs." %
                       (nexpr, len(adv), len(mut), len(trees)),
        "evaluations": stats["statements"],
        "distinct_nontrivial": len({json.dumps(s) for s in sess}),
        "rule": "systematic operator x operand x shape programs + adversarial generated sessions + token mutations; every "
                "session is non-trivial (it parses at least in part and runs); distinct by text",
        "traces_validated_against_impl": stats["sessions"],
        "samples": [sys_sess[0][len(PRELUDE):len(PRELUDE) + 3], adv[0], mut[0][len(PRELUDE):]],
        "input_distribution": dist, "stats": dict(stats), "internal_faults": faults,
    })
    return run.finish()


def replay(path, seed):
    sesscheck.replay_session(PROP, path)
    return 0
