"""Steps shared by all property checks."""
import vlib


def prepare(run, prop, module, theorems, need_calc=False):
    """Rebuild from the working tree, rebuild/recheck the Coq development and
    audit the property's theorems.  Fills the proof part of the coverage and
    reports broken obligations; returns the list of problems (strings)."""
    vlib.build_harness()
    if need_calc:
        vlib.build_calc()
    vlib.build_coq(clean=(run.tier == "thorough" and False))
    problems = []
    bad = vlib.gate_no_admits()
    if bad:
        problems.append("forbidden declarations in the development: " + "; ".join(bad[:10]))
    obligations, discharged, axioms, aprobs = vlib.audit_theorems(prop, module, theorems)
    problems.extend(aprobs)
    used = sorted({a for l in axioms.values() for a in l})
    run.cov.update({
        "obligations": obligations,
        "discharged": discharged if not bad else 0,
        "checker_cmd": "make -C /verif/coq && coqc -Q /verif/coq Calc /verif/build/audit/Audit_%s.v" % prop,
        "trusted_base": vlib.TRUSTED_BASE + ["axioms reported by Print Assumptions for this property's theorems: %s"
                                             % (", ".join(used) if used else "none (closed under the global context)")],
        "theorems": theorems,
    })
    return problems
