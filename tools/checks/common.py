"""Steps shared by all property checks."""
import vlib


def prepare(run, prop, module, theorems, need_calc=False):
    """Rebuild from the working tree, rebuild/recheck the Coq development and
    audit the property's theorems.  Fills the proof part of the coverage and
    reports broken obligations; returns the list of problems (strings)."""
    vlib.build_harness()
    # translator step: constants and operator tables are re-read from the source and the Coq
    # development is re-checked against them (coq/CheckConsts.v)
    import gen_consts
    gen_consts.generate()
    if need_calc:
        vlib.build_calc()
    vlib.build_coq(clean=(run.tier == "thorough" and False))
    problems = []
    broken = vlib.coq_broken_for(module)
    if broken:
        problems.append(broken)
    bad = vlib.gate_no_admits()
    if bad:
        problems.append("forbidden declarations in the development: " + "; ".join(bad[:10]))
    if broken:
        # theorems of this property are re-audited only on a development that builds
        obligations, discharged, axioms, aprobs = len(theorems), 0, {}, []
    else:
        obligations, discharged, axioms, aprobs = vlib.audit_theorems(prop, module, theorems)
    problems.extend(aprobs)
    used = sorted({a for l in axioms.values() for a in l})
    chk_note = []
    if run.tier == "thorough":
        cprobs, caxioms = vlib.coqchk_module(module)
        problems.extend(cprobs)
        groups = sorted({".".join(a.split(".")[:3]) for a in caxioms})
        other = sorted(a for a in caxioms if not a.startswith(("Coq.Floats.", "Coq.Numbers.Cyclic.Int63.")))
        chk_note = ["coqchk -o re-checked %s and all its dependencies: no type-in-type, no unsafe fixpoints, no assumed "
                    "positivity; axioms of the loaded standard-library files (used by a theorem or not): %d primitive "
                    "float/int constants and their specification axioms under %s, and %s"
                    % (module, len(caxioms) - len(other), ", ".join(g for g in groups if g.startswith(("Coq.Floats", "Coq.Numbers"))),
                       ", ".join(other) if other else "nothing else")]
    run.cov.update({
        "obligations": obligations,
        "discharged": discharged if not bad else 0,
        "checker_cmd": "make -C /verif/coq && coqc -Q /verif/coq Calc /verif/build/audit/Audit_%s.v" % prop,
        "trusted_base": vlib.TRUSTED_BASE + ["axioms reported by Print Assumptions for this property's theorems: %s"
                                             % (", ".join(used) if used else "none (closed under the global context)")] + chk_note,
        "theorems": theorems,
    })
    return problems
