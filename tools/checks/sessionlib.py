"""Helpers for checks that run calc sessions through the harness."""
import json

import sessions
import vlib


def _vals(st):
    return st.get("vals") or []


def scale_sessions(run, tier):
    """C15: sessions and programs whose size crosses what an instruction can
    address.  Every statement must evaluate correctly or be refused with a
    compile error; nothing may abort or run with wrapped addresses, and a
    refused statement must leave the session as it was."""
    cases = []
    expect = []   # per session: function(results) -> list of problems

    # S1: a refused big block must leave no trace
    big = "{\n" + "\n".join("x = 1" for _ in range(17000)) + "\n}"
    s1 = ["1 + 1", big, 'y = "hello"', "x", 'y + " world"', "z = 2", "z + 40"]

    def e1(rs):
        p = []
        want = ["(VInt 2)", None, '(VStr "hello")', "VNil", '(VStr "hello world")', "(VInt 2)", "(VInt 42)"]
        for i, (st, w) in enumerate(zip(rs, want)):
            if w is None:
                if not st.get("compile_err"):
                    p.append("oversize block was not refused: %s" % json.dumps(st)[:300])
            elif st.get("panic") or st.get("compile_err") or _vals(st) != [w]:
                p.append("statement %d after a refused block: got %s want %s" % (i, json.dumps(st)[:300], w))
        if len(rs) != len(want):
            p.append("session stopped after %d statements" % len(rs))
        return p
    cases.append(s1)
    expect.append(e1)

    # S2: one constant per statement until the data segment is exhausted
    n2 = 33000
    s2 = ["7"] * n2

    def e2(rs):
        p = []
        refused_at = None
        for i, st in enumerate(rs):
            if st.get("panic"):
                p.append("statement %d aborted: %s" % (i, st["panic"][:200]))
                break
            if st.get("compile_err"):
                if refused_at is None:
                    refused_at = i
            else:
                if refused_at is not None:
                    p.append("statement %d accepted after statement %d was refused" % (i, refused_at))
                    break
                if _vals(st) != ["(VInt 7)"]:
                    p.append("statement %d gives %s, want 7" % (i, _vals(st)))
                    break
        if refused_at is None and not p:
            p.append("33000 constants were all accepted (the data segment holds at most 32768 addressable entries)")
        if len(rs) != n2 and not p:
            p.append("session stopped after %d statements" % len(rs))
        return p
    cases.append(s2)
    expect.append(e2)

    # S3: function bodies around the jump range
    def fn(n):
        return "f = () -> {\na = 0\n" + "\n".join("a = a + 1" for _ in range(n)) + "\n}"
    s3 = [fn(32000), "f()", fn(33000), "f()", "2 * 21"]

    def e3(rs):
        p = []
        if len(rs) != 5:
            return ["session stopped after %d statements: %s" % (len(rs), json.dumps(rs[-1])[:300] if rs else "")]
        if rs[0].get("compile_err") or rs[0].get("panic"):
            p.append("a 32000-statement function was refused or aborted: %s" % json.dumps(rs[0])[:200])
        elif _vals(rs[1]) != ["(VInt 32000)"]:
            p.append("32000-statement function returns %s" % _vals(rs[1]))
        if rs[2].get("panic"):
            p.append("33000-statement function aborted: %s" % rs[2]["panic"][:200])
        elif not rs[2].get("compile_err"):
            # accepted: then it must work
            if _vals(rs[3]) != ["(VInt 33000)"]:
                p.append("33000-statement function was accepted and returns %s" % _vals(rs[3]))
        else:
            if _vals(rs[3]) != ["(VInt 32000)"]:
                p.append("after a refused redefinition f() gives %s, want the old function's 32000" % _vals(rs[3]))
        if _vals(rs[4]) != ["(VInt 42)"]:
            p.append("statement after the refusal gives %s" % _vals(rs[4]))
        return p
    cases.append(s3)
    expect.append(e3)

    # S4: code segment beyond 2^16 instructions, then define and call a function
    def bigf(name):
        return name + " = (a) -> {\n" + "\n".join("a = a + 1" for _ in range(22000)) + "\n}"
    s4 = [bigf("fa"), bigf("fb"), bigf("fc"), "h = (a) -> a + 100", "h(1)", "fb(0)", "[h(2), fa(1)]"]

    def e4(rs):
        p = []
        want = [None, None, None, None, "(VInt 101)", "(VInt 22000)", "(VArr [(VInt 102);(VInt 22001)])"]
        if len(rs) != len(want):
            return ["session stopped after %d statements: %s" % (len(rs), json.dumps(rs[-1])[:300] if rs else "")]
        for i, (st, w) in enumerate(zip(rs, want)):
            if st.get("panic"):
                p.append("statement %d aborted: %s" % (i, st["panic"][:200]))
            elif w is not None and not st.get("compile_err") and _vals(st) != [w]:
                p.append("statement %d in a session with more than 2^16 instructions gives %s, want %s" % (i, _vals(st), w))
        return p
    cases.append(s4)
    expect.append(e4)

    res = sessions.run_sessions(cases, timeout_ms=120000)
    total = 0
    probs = []
    for c, r, e in zip(cases, res, expect):
        rs = r.get("results", [])
        total += len(rs)
        if r.get("hang"):
            probs.append(("session hangs", c))
            continue
        for msg in e(rs):
            probs.append((msg, c))
    for msg, c in probs[:6]:
        run.violation({"what": msg, "session_statements": len(c),
                       "session_head": [s[:200] for s in c[:8]],
                       "how": "harness session: statements compiled and run one by one on one VM"})
    return {"evaluations": total,
            "rule": "4 scale sessions: refused 17000-line block then ordinary statements; 33000 one-constant statements "
                    "crossing 2^15 data entries; functions of 32000 / 33000 instructions; three 22000-instruction "
                    "functions (code beyond 2^16) then a call; each statement must be correct or refused",
            "sample": {"session": "S3", "head": s3[1], "sizes": [32000, 33000]}, "problems": len(probs)}
