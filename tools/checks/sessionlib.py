"""Helpers for checks that run calc sessions through the harness."""


def scale_sessions(run, tier):
    return {"evaluations": 0, "rule": "not yet wired", "sample": "n/a"}
