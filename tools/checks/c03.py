"""C03 — functions are pure: same arguments, same result, whatever happened before."""
import json
import random

import sessions
import vlib
from checks import common, sesscheck
from gen_prog import ProgGen

PROP = "C03"
LEVEL = "other"
MODULE = "PropC03"
THEOREMS = ["C03_new_frame_is_fresh", "C03_new_closure_touches_nothing", "C03_assign_writes_one_slot",
            "C03_pure_builtin_depends_on_argument_only", "C03_compiled_builtin_call_anywhere",
            "C03_compiled_builtin_call_any_history", "C03_user_function_result", "C03_compiled_user_call_anywhere",
            "C03_compiled_user_call_any_history", "C03_call_after_any_two_histories_partial"]

LETTERS = "abcdefghijklmnopqrstuvwxyz"


def pname(i):
    a, b = divmod(i, 26)
    return "p" + LETTERS[a % 26] + LETTERS[b]


def sink(k):
    """a function of k+1 parameters that returns the last: evaluating a call of it
    pushes k values on the operand stack before the last argument is evaluated"""
    ps = [pname(i) for i in range(k)] + ["last"]
    return "sink%s = (%s) -> last" % ("".join(LETTERS[int(d)] for d in str(k)), ", ".join(ps)), \
           "sink%s" % "".join(LETTERS[int(d)] for d in str(k))


def wide(k):
    """a function with k locals that calls its argument thunk last"""
    body = "\n".join("%s = %d" % (pname(i), i) for i in range(k))
    return "wide%s = (th) -> {\n%s\nth()\n}" % ("".join(LETTERS[int(d)] for d in str(k)), body), \
           "wide%s" % "".join(LETTERS[int(d)] for d in str(k))


HELPERS = [
    "deep = (th, n) -> if n <= 0 th() else deep(th, n - 1)",
    "grow = (n) -> if n <= 0 0 else 1 + grow(n - 1)",
    "viagen = (th) -> yield th()",
    "idf = (x) -> x",
]

FIXED_FUNCS = [
    # (definitions, call expression)
    (["mkc = (k) -> () -> {\ns = 0\nfor i <- fromto(0, k) s = s + i\ns\n}", "ca = mkc(3)", "cb = mkc(5)"], "[ca(), cb(), ca()]"),
    (["series = (k) -> () -> {\ni = 0\nwhile i < 3 {\nyield k + i\ni = i + 1\n}\n}", "plus = (k) -> (x) -> x + k",
      "total = (it, f) -> {\nt = 0\nfor e <- it() t = t + f(e)\nt\n}", "sa = series(10)", "pa = plus(100)"], "total(sa, pa)"),
    (["cnt = (n) -> {\nc = 0\ni = 0\nwhile i < n {\ni = i + 1\nif i % 3 == 0 c = c + 1\n}\nc\n}"], "cnt(62)"),
    (["via = (a, b) -> {\nif a > 0 {\nx = 8\ny = 76\nz = true\nw = 1\n}\n[x, y, z, w]\n}"], "via(0, 17)"),
    (["fib = (n) -> if n < 2 n else fib(n - 1) + fib(n - 2)"], "fib(12)"),
    (["mapg = (f, it) -> for e <- it() yield f(e)", "sq = (x) -> x * x", "src = () -> fromto(0, 5)",
      "sumg = (it) -> {\nt = 0\nfor e <- it() t = t + e\nt\n}"], "sumg(() -> mapg(sq, src))"),
    (["qs = (a) -> {\nif #a <= 1 return a\np = a[0]\nlo = []\nhi = []\nfor e <- elems(a[1:#a]) {\nif e <= p lo = lo + [e] else hi = hi + [e]\n}\nqs(lo) + [p] + qs(hi)\n}"],
     "qs([5, 2, 9, 1, 5, 6])"),
    (["adder = (n) -> {\nbase = n * 2\n(x) -> x + base + n\n}", "ad = adder(7)"], "ad(1) + ad(2)"),
    (["zipg = () -> for i, j <- fromto(0, 4), elems(\"abcd\") yield toa(i) + j", "join = (it) -> {\ns = \"\"\nfor e <- it() s = s + e\ns\n}"],
     "join(zipg)"),
]


def placements(call, rng, tier):
    C = "toa(%s)" % call
    defs = []
    P = []
    P.append(("first", [C]))
    P.append(("after_calls", ["grow(5)", "for i <- fromto(0, 4) idf(i)", "idf(1) + idf(2)", C]))
    depths = [1, 2, 3, 4, 5, 6, 7, 8, 9, 17, 33, 65] + ([130, 400] if tier != "quick" else [130])
    for d in depths:
        P.append(("depth_%d" % d, ["deep(() -> %s, %d)" % (C, d)]))
    P.append(("loop_body", ["for i <- fromto(0, 3) {\n%s\n}" % C]))
    P.append(("while_body", ["{\nwk = 0\nwhile wk < 2 {\nwk = wk + 1\n%s\n}\n}" % C]))
    P.append(("generator", ["for v <- viagen(() -> %s) v" % C]))
    P.append(("nested_generator", ["for v <- viagen(() -> deep(() -> %s, 3)) v" % C]))
    P.append(("after_growth", ["grow(300)", C]))
    P.append(("twice", ["[%s, %s]" % (C, C)]))
    P.append(("deep_operand", ["[1, 2, [3, %s]][2][1]" % C]))
    P.append(("after_error", ["1/0", C]))
    for k in [5, 60]:
        d, name = sink(k)
        defs.append(d)
        P.append(("stack_%d" % k, ["%s(%s%s)" % (name, "1, " * k, C)]))
    for k in [3, 100, 150, 300]:
        d, name = wide(k)
        defs.append(d)
        P.append(("wide_%d" % k, ["%s(() -> %s)" % (name, C)]))
        P.append(("wide_in_gen_%d" % k, ["for v <- viagen(() -> %s(() -> %s)) v" % (name, C)]))
    P.append(("again", [C]))
    return defs, P


def sweep_sessions(defs, call, tier):
    """fresh sessions in which the operand stack height below the call sweeps a 128-slot
    allocation boundary B upwards, after the slots below B were filled with junk"""
    C = "toa(%s)" % call
    out = []
    bounds = [128, 256] if tier == "quick" else [128, 256, 384, 512, 640]
    for B in bounds:
        for k in range(B - 12, B + 1):
            # one fresh session per height: the stack grows only once per boundary
            sd = []
            # B-3 arguments: slots 0..B-4 hold junk afterwards and the stack has not grown past B
            d, jname = sink(B - 4)
            sd.append(d)
            d, name = sink(k)
            if d not in sd:
                sd.append(d)
            P = [("first", [C]), ("junk_%d" % B, ["%s(%s0)" % (jname, "7, " * (B - 4))]),
                 ("stack_%d" % k, ["%s(%s%s)" % (name, "1, " * k, C)]), ("again", [C])]
            out.append((sd, P))
    return out


def gen_pure(rng):
    """definitions from the generator's pure profile and a call of one of them"""
    g = ProgGen(rng.getrandbits(40), "pure")
    defs = []
    for _ in range(rng.randint(2, 4)):
        defs.append(g.func_def())
        u = g.use_closure_maker()
        if u:
            defs.append(u)
    cands = [(n, a) for n, (a, k, rt) in g.funcs.items() if k in ("pure", "rec") and rt in ("int", "str", "arr", "bool")]
    if not cands:
        return None
    n, a = rng.choice(cands)
    return defs, "%s(%s)" % (n, ", ".join(str(rng.randint(0, 5)) for _ in range(a)))


def run(tier, seed):
    run = vlib.Run(PROP, LEVEL, tier, seed)
    vlib.build_harness()
    sesscheck.regen_builtins()
    problems = common.prepare(run, PROP, MODULE, THEOREMS)
    for p in problems:
        run.violation({"what": "proof obligation of C03 no longer checks", "broken": p}, no_failing_input=True)
    sesscheck.known_finding_lines(run, PROP)
    rng = random.Random(seed)
    funcs = list(FIXED_FUNCS)
    want = 25 if tier == "quick" else 600
    while len(funcs) < len(FIXED_FUNCS) + want:
        gp = gen_pure(rng)
        if gp:
            funcs.append(gp)
    sess, index, owner = [], [], []
    for defs, call in funcs:
        pdefs, P = placements(call, rng, tier)
        plans = [(pdefs, P)] + sweep_sessions(defs, call, tier)
        for pd, PP in plans:
            s = HELPERS + pd + list(defs)
            ix = []
            for name, stmts in PP:
                s.extend(stmts)
                ix.append((name, len(s) - 1))
            sess.append(s)
            index.append(ix)
            owner.append((defs, call))
    res = sessions.run_sessions(sess, timeout_ms=20000)
    open_ids = {f["id"] for f in vlib.open_findings(PROP)}
    nviol = 0
    pairs = 0
    stats = {"sessions": 0, "statements": 0}
    light = []
    seen_light = set()
    for n, ((defs, call), s, ix, r) in enumerate(zip(owner, sess, index, res)):
        rs = r.get("results", [])
        # a light version of the session (no stack sweeps, no wide frames) goes to Sem and the VM model
        if call not in seen_light:
            seen_light.add(call)
            light.append(HELPERS + list(defs) + ["toa(%s)" % call, "deep(() -> toa(%s), 9)" % call,
                                                     "for v <- viagen(() -> toa(%s)) v" % call, "[toa(%s), toa(%s)]" % (call, call)])
        if r.get("hang"):
            continue
        if len(rs) < len(s):
            bad = [st.get("panic") for st in rs if st.get("panic")]
            nviol += 1
            if nviol <= 3:
                run.violation({"what": "the interpreter aborted while the same call was placed in different contexts: %s" % (bad[:1]),
                               "call": call, "session": s[:len(rs)]})
            continue

        def ob(k):
            st = rs[k]
            return ((st.get("errs") or ["?"])[-1], (st.get("vals") or [None])[-1])
        ref = ob(ix[0][1])
        if ref[0] != "none":
            continue    # the function fails on these arguments: nothing to compare
        for name, k in ix[1:]:
            if name.startswith("junk_"):
                continue
            pairs += 1
            o = ob(k)
            want_o = ref
            if name == "twice":
                want_o = ("none", "(VArr [%s;%s])" % (ref[1], ref[1]))
            if o != want_o:
                # is this the recorded finding K1?  ask the model about this very prefix
                _, cds = sesscheck.evaluate([s[:k + 1]], name="C03k", shard=1)
                if cds.get(0, 0) % 10 == 2 and "K1" in open_ids:
                    stats["attributed_K1_placements"] = stats.get("attributed_K1_placements", 0) + 1
                    break
                nviol += 1
                if nviol <= 4:
                    run.violation({"what": "the same call with the same arguments gives a different result in placement '%s' "
                                           "than when first made" % name,
                                   "call": call, "first": ref, "placement": s[k], "observed": o,
                                   "session": s[:k + 1]})
                break
    lres, codes = sesscheck.evaluate(light, name="C03")
    stats = dict(stats, **sesscheck.classify(run, PROP, light, lres, codes, use_sem=True))
    run.cov.update({
        "explanation": "Each side-effect-free function (9 hand-written ones covering closures, generators, recursion, wide frames "
                       "and uninitialised locals, plus generated ones) is called with the same arguments in one session in about "
                       "%d placements: first, after other calls, at call depth 1..400, in loop bodies, inside generators, after "
                       "the stack has grown, twice in one array, deep in an expression, after a runtime error, with 5..385 values "
                       "on the operand stack below the call (sweeping the 128-slot allocation boundaries), from functions with "
                       "3..300 locals, inside recycled generator contexts. All renderings must be equal. The sessions are also "
                       "run on Sem and the VM model (K1 classification)." % len(index[0]),
        "evaluations": pairs,
        "distinct_nontrivial": len({c for _, c in funcs}),
        "rule": "functions x placements; non-trivial = distinct calls whose first evaluation yields a value",
        "traces_validated_against_impl": stats["sessions"],
        "samples": [funcs[0][1], funcs[-1][1], sess[0][-3:]],
        "stats": dict(stats), "placement_violations": nviol,
    })
    return run.finish()


def replay(path, seed):
    sesscheck.replay_session(PROP, path)
    return 0
