"""C14 — tokenisation is faithful to the text."""
import json
import random
import re

import vlib
from checks import common
import lexgen

PROP = "C14"
LEVEL = "other"
MODULE = "PropC14"
THEOREMS = ["C14_decode_ascii", "C14_decode_progress", "C14_state_fn_total_but_eof", "C14_sticky_run_continues",
            "C14_emitted_text_is_slice", "C14_tokens_in_source_order", "C14_next_token_span"]

EOL, EOF, INT, FLOAT, STR, NAME, STICKY, NOTSTICKY = 1, 2, 3, 4, 5, 6, 7, 8
STICKYCH = set(b"+*/=<>!-&|#%~")
IMPORTS = ["Base", "Lexer", "CorrLexer"]


def stream_problems(inp, toks):
    """the property's clauses on one accepted token stream; returns a list of (clause, detail, is_k4)"""
    probs = []
    n = len(inp)
    real = [t for t in toks if not (t["kind"] in (EOL, EOF) and t["from"] == 0 and t["to"] == 0 and t is not toks[0]) or
            (t["kind"] == EOL and t["to"] > t["from"])]
    # the stream ends with end-of-line then end-of-file, exactly once
    kinds = [t["kind"] for t in toks]
    if kinds[-2:] != [EOL, EOF] or kinds.count(EOF) != 1:
        probs.append(("ends with EOL then EOF exactly once", kinds[-4:], False))
    body = toks[:-1]
    if body and body[-1]["kind"] == EOL and body[-1]["from"] == 0 and body[-1]["to"] == 0 and len(body) > 0:
        synthetic_eol = True
        body = body[:-1]
    prev_to = 0
    nl_tokens = 0
    for i, t in enumerate(body):
        f, to = t["from"], t["to"]
        if not (prev_to <= f <= to <= n):
            probs.append(("spans in source order, not overlapping, inside the input", (i, f, to, prev_to), False))
            break
        text = inp[f:to]
        if t["val"] != text:
            k4 = t["kind"] == STR and bytes(t["val"]) == bytes(text).replace(b"\\n", b"\n") and b"\\n" in bytes(text)
            probs.append(("token text is the input between its span bounds", (i, t["val"][:30], text[:30]), k4))
        gap = bytes(inp[prev_to:f])
        if not re.fullmatch(rb"[ \t]*(;[^\n]*)?", gap):
            probs.append(("between tokens only blanks and comments", (i, list(gap)[:30]), False))
        if t["kind"] == STICKY:
            if not all(b in STICKYCH for b in text):
                probs.append(("operator token holds operator characters only", (i, text), False))
            if i + 1 < len(body) and body[i + 1]["kind"] == STICKY and body[i + 1]["from"] == to:
                probs.append(("operator characters are grouped by longest run", (i, text, body[i + 1]["val"]), False))
        if t["kind"] == EOL:
            nl_tokens += 1
            if text != [10]:
                probs.append(("an end-of-line token is one line break", (i, text), False))
        prev_to = to
    tail = bytes(inp[prev_to:])
    if not re.fullmatch(rb"[ \t]*(;[^\n]*)?", tail):
        probs.append(("after the last token only blanks and comments", list(tail)[:30], False))
    # each line break outside string literals yields one end-of-line token
    in_str = set()
    for t in body:
        if t["kind"] == STR:
            in_str.update(range(t["from"], t["to"]))
    nl_src = sum(1 for i, b in enumerate(inp) if b == 10 and i not in in_str)
    if nl_src != nl_tokens:
        probs.append(("each line break yields one end-of-line token", (nl_src, nl_tokens), False))
    return probs


def relayout(rng, inp, toks):
    """same tokens, different blank space / comments: returns new input bytes"""
    out = []
    body = [t for t in toks if t["to"] > t["from"]]
    prev = 0
    for t in body:
        gap = inp[prev:t["from"]]
        had = len(gap) > 0
        c = rng.random()
        if not had:
            new = []                       # no gap stays no gap (it may be what separates nothing)
        elif c < 0.4:
            new = [32] * rng.randint(1, 4)
        elif c < 0.6:
            new = [9]
        else:
            new = list(gap)
        if t["kind"] == EOL and rng.random() < 0.3:
            new = new + list(b"  ; a comment { [ \" ")
        out.extend(new)
        out.extend(inp[t["from"]:t["to"]])
        prev = t["to"]
    return out


def run(tier, seed):
    run = vlib.Run(PROP, LEVEL, tier, seed)
    vlib.build_harness()
    problems = common.prepare(run, PROP, MODULE, THEOREMS)
    for p in problems:
        run.violation({"what": "proof obligation of C14 no longer checks", "broken": p}, no_failing_input=True)
    rng = random.Random(seed)
    inputs = []
    for s in lexgen.exhaustive(3 if tier == "quick" else 4):
        inputs.append(lexgen.src_bytes(s))
    nrand = 2500 if tier == "quick" else 60000
    for _ in range(nrand):
        c = rng.random()
        if c < 0.6:
            inputs.append(lexgen.src_bytes(lexgen.random_source(rng, rng.randint(1, 14))))
        else:
            inputs.append(lexgen.src_bytes(lexgen.random_bytes(rng, rng.randint(1, 24))))
    outs = vlib.run_harness("lex", [{"input": i} for i in inputs], timeout=3600)
    nviol = 0
    accepted = 0
    k4 = 0
    clause_hits = {}
    relaid = []
    for inp, o in zip(inputs, outs):
        if o.get("hang") or o.get("over") or o.get("panic"):
            continue     # totality is C06's business
        toks = o.get("toks") or []
        if not toks or toks[-1].get("err"):
            continue
        accepted += 1
        for clause, detail, is_k4 in stream_problems(inp, toks):
            if is_k4:
                k4 += 1
                continue
            nviol += 1
            clause_hits[clause] = clause_hits.get(clause, 0) + 1
            if nviol <= 4:
                run.violation({"what": "token stream breaks the clause: " + clause, "input_bytes": inp,
                               "input_text": bytes(inp).decode("latin-1"), "detail": detail,
                               "tokens": [(t["kind"], bytes(t["val"]).decode("latin-1"), t["from"], t["to"]) for t in toks]})
        if len(relaid) < (600 if tier == "quick" else 20000) and len(toks) > 3:
            relaid.append((inp, toks, relayout(rng, inp, toks)))
    # layout insensitivity
    routs = vlib.run_harness("lex", [{"input": r[2]} for r in relaid], timeout=3600)
    for (inp, toks, new), o in zip(relaid, routs):
        a = [(t["kind"], t["val"]) for t in toks]
        b = [(t["kind"], t["val"]) for t in (o.get("toks") or [])]
        if a != b:
            nviol += 1
            if nviol <= 4:
                run.violation({"what": "changing blank space / adding comments changes the token kinds or texts",
                               "input_text": bytes(inp).decode("latin-1"), "relaid_text": bytes(new).decode("latin-1"),
                               "tokens": a[:40], "relaid_tokens": b[:40]})
    # replay the witness of the open finding K4 on the real lexer
    for f in vlib.open_findings(PROP):
        w = list(f.get("witness_input", "").encode())
        o = vlib.run_harness("lex", [{"input": w}])[0]
        t0 = (o.get("toks") or [{}])[0]
        if t0.get("kind") == STR and t0.get("val") != w[t0.get("from", 0):t0.get("to", 0)]:
            run.known_finding("%s: %s" % (f["id"], f["what"]))
        else:
            run.notes.append("finding %s no longer reproduces" % f["id"])
    # correspondence with the lexer model (all inputs, incl. rejected ones up to the first error)
    terms = []
    for inp, o in zip(inputs, outs):
        if o.get("hang") or o.get("over") or o.get("panic"):
            continue
        toks = o.get("toks") or []
        terms.append("(%s, [%s])" % (bt(inp), ";".join("(%d, %s, %d, %d, %s)" % (
            t["kind"], bt(t["val"]), t["from"], t["to"], bt(list((t.get("err") or "").encode("utf-8")))) for t in toks)))
    bad = vlib.coq_eval_cases("C14lex", IMPORTS, terms, "chk_lex", shard=800)
    if bad:
        run.violation({"what": "the lexer model (coq/Lexer.v) and lexer.Lexer disagree on these inputs; the C14 theorems are about the model",
                       "correspondence": "CorrLexer.chk_lex", "disagreeing_cases": [terms[i][:600] for i in bad[:5]]},
                      no_failing_input=(nviol == 0))
    run.cov.update({
        "explanation": "Every clause of the property is evaluated on the token streams the real lexer produces: all strings up to "
                       "length %d over a 16-symbol class alphabet (exhaustive), token soup with random layout and random byte "
                       "strings (%d); %d accepted streams checked, %d re-laid-out variants (blanks widened/narrowed, comments "
                       "added before line breaks) must give the same kinds and texts. The lexer model is compared token for token "
                       "(kind, text, span, error message) on all %d inputs. Proved: table facts of the model (PropC14.v). The "
                       "stream invariants as theorems over the model are open." %
                       (3 if tier == "quick" else 4, nrand, accepted, len(relaid), len(terms)),
        "evaluations": len(inputs) + len(relaid),
        "distinct_nontrivial": len({bytes(i) for i, o in zip(inputs, outs) if (o.get("toks") and not o["toks"][-1].get("err") and len(o["toks"]) > 2)}),
        "rule": "inputs as described; non-trivial = distinct accepted inputs with at least one token besides the end markers",
        "traces_validated_against_impl": len(terms),
        "exhaustive": False,
        "samples": [bytes(inputs[100]).decode("latin-1"), bytes(inputs[-1]).decode("latin-1")],
        "clause_violations": clause_hits, "k4_streams": k4,
    })
    return run.finish()


def bt(bs):
    if all(32 <= b <= 126 and b != 34 for b in bs):
        return '"' + "".join(chr(b) for b in bs) + '"'
    return "(sb [" + ";".join(str(b) for b in bs) + "])"


def replay(path, seed):
    d = json.load(open(path))
    vlib.build_harness()
    if "input_bytes" in d:
        print(json.dumps(vlib.run_harness("lex", [{"input": d["input_bytes"]}]), indent=1))
    return 0
