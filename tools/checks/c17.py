"""C17 — built-in functions keep their contracts for every argument."""
import json
import os
import random
import struct
import subprocess

import sessions
import vlib
from checks import common, sesscheck

PROP = "C17"
LEVEL = "other"
MODULE = "PropC17"
THEOREMS = ["C17_aton_toa_int", "C17_toa_is_write_rendering", "C17_aton_non_string_is_type_error",
            "C17_generators_are_the_generated_trees", "C17_fromto_yields", "C17_fromto_empty", "C17_fromto_steps",
            "C17_indices_yields", "C17_elems_yields", "C17_seq_at_is_indexing", "C17_elems_of_non_sequence",
            "C17_for_over_fromto_collects", "C17_fromto_session", "C17_for_over_elems_returns_the_array",
            "C17_for_over_indices_collects", "C17_reads_successive_lines", "C17_read_at_end_of_input", "C17_compiled_toa_is_what_write_prints", "C17_compiled_aton_toa_int", "C17_compiled_aton_errors", "C17_compiled_reads_successive_lines"]

M63 = 1 << 63
INTS = [0, 1, -1, 9, 10, 99, 100, 12345, 1 << 31, (1 << 53) - 1, 1 << 53, (1 << 53) + 1, (1 << 53) + 3,
        999999999999999999, (1 << 62) + 1, M63 - 1, -(M63 - 1), -M63, -(1 << 53) - 1]


def int_expr(n):
    if n >= 0:
        return str(n)
    if n == -M63:
        return "(0 - 9223372036854775807 - 1)"
    return "(0 - %d)" % (-n)


def py_float_text(f):
    """a decimal text that parses back to exactly f (repr is shortest round-trip)"""
    return repr(f)


def float_values(rng, n):
    vals = [0.1, 0.5, 1.0, 1.5, 100.0, 1e6, 123456789.0, 1e20, 1e21, 1e22, 1e-4, 1e-5, 1e-7, 5e-324, 2.2250738585072014e-308,
            1.7976931348623157e308, 3.141592653589793, 2.0 ** 53, 2.0 ** 63, 0.30000000000000004, 1e23, 9.5e-5, 123456.7]
    while len(vals) < n:
        c = rng.random()
        if c < 0.4:
            vals.append(struct.unpack("<d", struct.pack("<Q", rng.getrandbits(64)))[0])
        elif c < 0.7:
            vals.append(round(rng.uniform(-1e6, 1e6), rng.randint(0, 6)))
        else:
            vals.append(rng.uniform(0, 1) * 10 ** rng.randint(-30, 30))
    return [v for v in vals if v == v and abs(v) != float("inf")]


def value_exprs(rng, n):
    ex = ["nosuchvar", "true", "false", "\"\"", "\"a b\"", "[]", "[1, [2, \"x\"], true]", "toa", "[toa, 1.5]", "[[[]]]",
          "\"q\\\"uote\"", "[0.1, 1e]"[:0] or "[0.5, 2]"]
    for i in INTS:
        ex.append(int_expr(i))
    for f in float_values(rng, n):
        t = py_float_text(abs(f))
        ex.append(("(0 - aton(\"%s\"))" if f < 0 else "aton(\"%s\")") % t)
    return ex


def run(tier, seed):
    run = vlib.Run(PROP, LEVEL, tier, seed)
    vlib.build_harness()
    vlib.build_calc()
    sesscheck.regen_builtins()
    problems = common.prepare(run, PROP, MODULE, THEOREMS)
    for p in problems:
        run.violation({"what": "proof obligation of C17 no longer checks (the built-in trees are regenerated from "
                               "builtin/builtin.go each run)", "broken": p}, no_failing_input=True)
    rng = random.Random(seed)
    nviol = 0
    evals = 0

    def viol(payload):
        nonlocal nviol
        nviol += 1
        if nviol <= 5:
            run.violation(payload)

    # (1) toa renders as write prints; (2) aton(toa(x)) == x
    exprs = value_exprs(rng, 120 if tier == "quick" else 5000)
    sess = []
    for k in range(0, len(exprs), 10):
        s = []
        for e in exprs[k:k + 10]:
            s += ["v = %s" % e if e not in ("nosuchvar",) else "v = 0", "write(%s)" % e, "toa(%s)" % e, "aton(toa(%s)) == %s" % (e, e)]
        sess.append(s)
    res = sessions.run_sessions(sess)
    for s, r in zip(sess, res):
        rs = r.get("results", [])
        for j in range(0, min(len(rs), len(s)) - 3, 4):
            evals += 1
            w, t, q = rs[j + 1], rs[j + 2], rs[j + 3]
            if w.get("panic") or t.get("panic") or q.get("panic"):
                viol({"what": "a built-in aborted the interpreter", "session": s[:j + 4], "panics": [w.get("panic"), t.get("panic"), q.get("panic")]})
                break
            if (t.get("errs") or ["?"])[-1] == "none" and (w.get("errs") or ["?"])[-1] == "none":
                tv = (t.get("vals") or [""])[-1]
                wb = sessions.bytes_term(w.get("out") or [])
                if tv != "(VStr %s)" % wb:
                    viol({"what": "toa renders a value differently from what write prints", "statements": s[j + 1:j + 3],
                          "written": w.get("out"), "toa": tv})
            src = s[j + 3]
            numeric = src.startswith("aton(toa((0 -") or src.startswith("aton(toa(aton") or src[9:10].isdigit()
            if numeric and ((q.get("errs") or ["?"])[-1] != "none" or (q.get("vals") or [""])[-1] != "(VBool true)"):
                viol({"what": "aton(toa(x)) is not x for a number", "statement": src, "observed": q})

    # (3) fromto / elems / indices against expectations computed here
    gen_sess, gen_exp = [], []
    collect = "collect = (it) -> {\nr = []\nfor e <- it() r = r + [e]\nr\n}"
    pairs = [(a, b) for a in (-3, 0, 1, 5) for b in (-3, 0, 1, 5, 9)] + [(M63 - 3, M63 - 1), (-M63, -M63 + 2), (7, 7), (8, 7)]
    for a, b in pairs:
        gen_sess.append([collect, "collect(() -> fromto(%s, %s))" % (int_expr(a), int_expr(b))])
        gen_exp.append("(VArr [%s])" % ";".join("(VInt %s)" % ("(%d)" % i if i < 0 else i) for i in range(a, b)))
    arrays = [[], [1], [1, 2, 3], list(range(20))]
    for arr in arrays:
        lit = "[" + ", ".join(map(str, arr)) + "]"
        gen_sess.append([collect, "collect(() -> elems(%s))" % lit])
        gen_exp.append("(VArr [%s])" % ";".join("(VInt %d)" % i for i in arr))
        gen_sess.append([collect, "collect(() -> indices(%s))" % lit])
        gen_exp.append("(VArr [%s])" % ";".join("(VInt %d)" % i for i in range(len(arr))))
    for st in ["", "a", "hello"]:
        gen_sess.append([collect, "collect(() -> elems(\"%s\"))" % st])
        gen_exp.append("(VArr [%s])" % ";".join('(VStr "%s")' % ch for ch in st))
        gen_sess.append([collect, "collect(() -> indices(\"%s\"))" % st])
        gen_exp.append("(VArr [%s])" % ";".join("(VInt %d)" % i for i in range(len(st))))
    gres = sessions.run_sessions(gen_sess)
    for s, r, want in zip(gen_sess, gres, gen_exp):
        evals += 1
        rs = r.get("results", [])
        got = (rs[-1].get("vals") or [None])[-1] if len(rs) == 2 else None
        if got != want:
            viol({"what": "a generator built-in does not yield what its contract says", "statement": s[-1],
                  "expected": want, "observed": rs[-1] if rs else r})

    # (4) wrong argument types and counts are runtime errors
    wrong = [("fromto(1)", "arity"), ("fromto(1, 2, 3)", "arity"), ("toa()", "arity"), ("aton(5)", "type"), ("aton(\"zz\")", "conversion"),
             ("write()", "arity"), ("elems()", "arity"), ("exit(\"x\")", "type"), ("exit([1])", "type"), ("read(1)", "arity"),
             ("for e <- elems(5) e", "type"), ("for e <- indices(true) e", "type"), ("for e <- fromto(\"a\", 3) e", "type"),
             ("for e <- fromto(1, nosuch) e", "nil"), ("aton(nosuch)", "type"), ("for e <- elems(nosuch) e", "nil")]
    wres = sessions.run_sessions([[w for w, _ in wrong]])[0].get("results", [])
    for (src, cls), st in zip(wrong, wres):
        evals += 1
        if st.get("panic") or (st.get("errs") or ["?"])[-1] != cls:
            viol({"what": "a built-in called with wrong arguments gives %s instead of a %s error" %
                          (st.get("panic") or st.get("errs"), cls), "statement": src})
    if len(wres) != len(wrong):
        viol({"what": "the session of wrong-argument calls stopped early", "results": wres[-1:] })

    # (5) successive read() calls return successive lines of standard input
    evals += read_cases(rng, tier, viol)

    # correspondence with the models on the same sessions
    allsess = sess + gen_sess
    res2, codes = sesscheck.evaluate(allsess, name="C17")
    stats = sesscheck.classify(run, PROP, allsess, res2, codes)
    run.cov.update({
        "explanation": "On the real code: toa(v) against the bytes write(v) prints and aton(toa(x)) == x for %d values (all int "
                       "boundary classes, floats by exact decimal text incl. subnormal/huge/random bit patterns, strings, nested "
                       "arrays, nil, functions); fromto/elems/indices against expectations for %d argument sets incl. the ends of "
                       "the int range; 16 wrong-argument calls; read() histories through the real binary with piped input (0-40 "
                       "lines, lines of 1-20000 bytes, with and without final newline). The sessions are also compared with Sem "
                       "(built-in trees regenerated from builtin.go) and the VM model. Proved: integer text round trip, toa = write "
                       "rendering. Open: general generator specs, float text round trip." % (len(exprs), len(gen_sess)),
        "evaluations": evals,
        "distinct_nontrivial": len(set(exprs)) + len(gen_sess),
        "rule": "value expressions x {write, toa, aton(toa)} + generator argument sets + read histories; non-trivial = distinct values",
        "traces_validated_against_impl": stats["sessions"],
        "samples": [sess[2][:4], gen_sess[0], wrong[0]],
        "stats": dict(stats), "contract_violations": nviol,
    })
    return run.finish()


def read_cases(rng, tier, viol):
    """scripts that call read() k times against piped input"""
    n = 25 if tier == "quick" else 400
    count = 0
    os.makedirs(os.path.join(vlib.BUILD, "cases"), exist_ok=True)
    for k in range(n):
        nlines = rng.choice([0, 1, 2, 3, 5, 10, 40])
        lines = []
        for _ in range(nlines):
            ln = rng.choice([0, 1, 5, 30, 200, 4094, 4095, 4096, 4097, 5000, 20000] if rng.random() < 0.3 else [0, 1, 3, 8, 20])
            lines.append("".join(rng.choice("abc xyz0123") for _ in range(ln)))
        final_nl = rng.random() < 0.7
        data = "\n".join(lines) + ("\n" if final_nl and lines else "")
        reads = nlines + rng.choice([0, 0, 1])
        script = "\n".join(["s = read()\nwrite(#s)\nwrite(\":\")\nwrite(s)\nwrite(\"|\")" for _ in range(reads)]) + "\nwrite(\"done\")\n"
        path = os.path.join(vlib.BUILD, "cases", "read_%d.calc" % os.getpid())
        with open(path, "w") as f:
            f.write(script)
        p = subprocess.run([vlib.CALC_BIN, path], input=data.encode(), stdout=subprocess.PIPE, stderr=subprocess.PIPE, timeout=60)
        os.unlink(path)
        out = p.stdout.decode("latin-1")
        # expected: each line as read returns it (with its line break when it has one)
        exp = ""
        for i in range(reads):
            if i < len(lines):
                s = lines[i] + ("\n" if (i < len(lines) - 1 or final_nl) else "")
                if s == "":
                    exp = None   # an empty final line without newline: end of input
                    break
                exp += "%d:%s|" % (len(s), s)
            else:
                exp = None
                break
        count += 1
        if exp is not None:
            exp += "done"
            if out != exp:
                viol({"what": "successive read() calls do not return the successive lines of standard input",
                      "stdin": data[:300] + ("..." if len(data) > 300 else ""), "line_lengths": [len(x) for x in lines],
                      "final_newline": final_nl, "reads": reads, "expected_head": exp[:200], "output_head": out[:200]})
        else:
            # reading past the end: a read error report, and what was read before is intact
            if "RUNTIME ERROR : read error" not in out:
                viol({"what": "read() past the end of input is not reported as a read error",
                      "line_lengths": [len(x) for x in lines], "reads": reads, "output_head": out[:300]})
    return count


def replay(path, seed):
    sesscheck.replay_session(PROP, path)
    return 0
