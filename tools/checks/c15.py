"""C15 — encodings are lossless and size limits are enforced, never wrapped."""
import json
import random

import vlib
from checks import common

PROP = "C15"
LEVEL = "proof"
MODULE = "PropC15"
THEOREMS = ["C15_src_roundtrip", "C15_encode_refuses", "C15_encode_accepts_iff", "C15_opcode_roundtrip",
            "C15_instr_roundtrip", "C15_patch_src0", "C15_patch_src1", "C15_function_pack_roundtrip"]


def zt(i):
    return "(%d)" % i if i < 0 else "%d" % i


def run(tier, seed):
    run = vlib.Run(PROP, LEVEL, tier, seed)
    problems = common.prepare(run, PROP, MODULE, THEOREMS)
    for p in problems:
        run.violation({"what": "proof obligation of C15 no longer checks", "broken": p}, no_failing_input=True)

    # (b) the property itself, exhaustively, on the real code
    p = vlib.sh([vlib.HARNESS, "encsrc", str(seed)], timeout=600)
    d = json.loads(p.stdout.decode())
    for key, what in (("fails", "EncodeSrc"), ("op_fails", "New/OpCode"), ("fn_fails", "NewFunction/ToFunction")):
        if d[key]:
            run.violation({"what": "%s does not round-trip or does not enforce the 16-bit range on the real code" % what,
                           "failing_inputs": d[key]})
    # (a) correspondence of the model with the real code
    enc_terms = ["(%s, %s, %s, %s)" % (s["sel"], s["kind"], zt(s["addr"]),
                                        ("(Some %s)" % s["code"]) if s["ok"] else "None") for s in d["samples"]]
    bad = vlib.coq_eval_cases("C15enc", ["Base", "Bytecode", "CorrC15"], enc_terms, "chk_enc")
    new_terms = ["(%d, %s)" % (i, w) for i, w in enumerate(d["ops"])]
    badn = vlib.coq_eval_cases("C15new", ["Base", "Bytecode", "CorrC15"], new_terms, "chk_new")
    dec_terms = ["(%s, [%s])" % (x["word"], ";".join(zt(f) for f in x["fields"])) for x in d["decs"]]
    badd = vlib.coq_eval_cases("C15dec", ["Base", "Bytecode", "CorrC15"], dec_terms, "chk_dec")
    fn_terms = ["[%s]" % ";".join(zt(f) for f in x) for x in d["fn_samples"]]
    badf = vlib.coq_eval_cases("C15fn", ["Base", "Bytecode", "CorrC15"], fn_terms, "chk_fn")
    for name, badl, terms in (("EncodeSrc", bad, enc_terms), ("New", badn, new_terms),
                              ("decoders", badd, dec_terms), ("function packing", badf, fn_terms)):
        if badl:
            run.violation({"what": "model of %s (coq/Bytecode.v) and types/bytecode disagree; the C15 theorems are "
                                   "about the model and no longer transfer to the code" % name,
                           "correspondence": "CorrC15", "disagreeing_cases": [terms[i] for i in badl[:10]]},
                          no_failing_input=not any(d[k] for k in ("fails", "op_fails", "fn_fails")))
    n_corr = len(enc_terms) + len(new_terms) + len(dec_terms) + len(fn_terms)

    # scale: sessions whose data segment crosses 2^15 entries must work or be refused
    scale = scale_cases(run, tier)

    run.cov.update({
        "evaluations": d["total"] + n_corr + scale["evaluations"],
        "distinct_nontrivial": d["accepted"] + 128 + len(d["fn_samples"]),
        "exhaustive": True,
        "rule": "exhaustive on the real code: 3 selectors x 8 kinds x addresses -70000..70000 (accepted iff in "
                "[-2^15,2^15), accepted ones decode to their inputs with all other fields zero), all 128 opcodes "
                "alone and with saturated operands, function packing on a 9x8x8 boundary grid; non-trivial = "
                "accepted encodings + opcodes + packing grid points (all distinct by construction). "
                "Model correspondence on %d boundary/random samples. Scale sessions: %s" % (n_corr, scale["rule"]),
        "traces_validated_against_impl": n_corr,
        "samples": [d["samples"][11], d["samples"][20], d["decs"][0], scale["sample"]],
        "scale": scale,
    })
    run.assumptions = ["EncodeSrc's panic value is recovered by node.ByteCode/ByteCodeNoStck (checked by the scale sessions)"]
    return run.finish()


def scale_cases(run, tier):
    """Sessions that exhaust the 2^15 data-segment addresses: every statement
    must either evaluate correctly or be refused at compile time."""
    from checks import sessionlib
    return sessionlib.scale_sessions(run, tier)


def replay(path, seed):
    print(open(path).read())
    return run("quick", seed)
