"""C16 — all three run modes execute the same program the same way."""
import json
import os
import random
import re
import subprocess

import vlib
from checks import common, sesscheck
import sessions

PROP = "C16"
LEVEL = "other"
MODULE = "PropC16"
THEOREMS = ["C16_script_runs_statement_by_statement", "C16_final_line_break_is_irrelevant",
            "C16_inside_string_nothing_counts", "C16_inside_comment_nothing_counts", "C16_comment_ends_at_line_break",
            "C16_modes_bind_the_same_globals", "C16_sessions_in_both_modes_partial", "C16_definition_in_file_mode",
            "C16_counted_trees_are_covered_in_both_modes"]
IMPORTS = ["Base", "Repl", "ReplProofs", "CorrRepl"]

CTX = re.compile(rb"memory context [^\n]*\n")


def mask(b):
    return CTX.sub(b"memory context @\n", b)


def cstr(s):
    b = s.encode("latin-1") if isinstance(s, str) else bytes(s)
    if all(32 <= c <= 126 and c != 34 for c in b):
        return '"' + b.decode("latin-1") + '"'
    return "(sb [" + ";".join(str(c) for c in b) + "])"


TRICKY = ['{', '}', '[', ']', '"', '\\"', ';', ' ', 'a', '1', ',', '(', ')', '\\', '->', 'x = ', 'write(', '"{"', '"}"', '"["',
          '"]"', '"\\""', '; {', '; "', '; [', '"a;b"', '+']


def soup_line(rng):
    return "".join(rng.choice(TRICKY) for _ in range(rng.randint(0, 8)))


# ---------- statements whose extent is known by construction ----------
STR_BODIES = ["{", "}", "[", "]", ";", "a;b", "}{", "][", "\\\"", "\\\"{", "x\\\\", "; not a comment {", "(", ""]
COMMENTS = ["", " ; note", " ; {", " ; }", " ; [", " ; ]", " ; \"", " ; \\", " ;;", " ; a \" b { c"]


def one_liner(rng, k):
    c = rng.random()
    cm = rng.choice(COMMENTS)
    if c < 0.3:
        return ["write(\"%s\")%s" % (rng.choice(STR_BODIES), cm)]
    if c < 0.5:
        return ["v%s = %d%s" % ("abcdefgh"[k % 8], rng.randrange(100), cm)]
    if c < 0.65:
        return ["write(toa(%d + %d) + \"%s\")%s" % (rng.randrange(9), rng.randrange(9), rng.choice(STR_BODIES), cm)]
    if c < 0.8:
        return ["[%d, %d][%d]%s" % (rng.randrange(9), rng.randrange(9), rng.randrange(2), cm)]
    if c < 0.9:
        return ["if %s write(\"%s\") else write(\"n\")%s" % (rng.choice(["true", "false"]), rng.choice(STR_BODIES), cm)]
    return ["#\"%s\"%s" % (rng.choice(STR_BODIES), cm)]


def long_liner(rng, k):
    """a line longer than any reader buffer (4096 and 65536 are the usual sizes)"""
    n = rng.choice([4090, 4096, 4097, 5000, 8192, 9000])
    c = rng.random()
    if c < 0.35:
        return ["w%s = %s" % ("abcdefgh"[k % 8], "+".join(["1"] * (n // 2))), "write(toa(w%s))" % "abcdefgh"[k % 8]]
    if c < 0.6:
        return ["write(toa(#\"%s\"))" % ("ab{" * (n // 3))]
    if c < 0.8:
        return ["write(\"c\") ; %s" % ("note } " * (n // 7))]
    return ["write(toa(#[%s]))" % ", ".join(["7"] * (n // 3))]


def block_stmt(rng, k, depth=0):
    name = "f" + "abcdefgh"[k % 8]
    lines = ["%s = (p) -> {%s" % (name, rng.choice(COMMENTS))]
    for _ in range(rng.randint(1, 3)):
        c = rng.random()
        if c < 0.5:
            lines += one_liner(rng, k + 1)
        elif c < 0.7 and depth < 2:
            lines.append("if p > %d {%s" % (rng.randrange(5), rng.choice(COMMENTS)))
            lines += one_liner(rng, k + 2)
            lines += one_liner(rng, k + 3)
            lines.append("}%s" % rng.choice(COMMENTS))
        elif c < 0.85:
            lines += array_stmt(rng, k + 4)
        else:
            lines += string_stmt(rng, k + 5)
    lines.append("p + %d" % rng.randrange(9))
    lines.append("}%s" % rng.choice(COMMENTS))
    return lines


def array_stmt(rng, k):
    n = rng.randint(2, 4)
    elems = [rng.choice(["%d" % rng.randrange(9), "\"%s\"" % rng.choice(STR_BODIES), "[1, 2]"]) for _ in range(n)]
    lines = ["l%s = [%s,%s" % ("abcdefgh"[k % 8], elems[0], rng.choice(COMMENTS))]
    for e in elems[1:-1]:
        lines.append("%s,%s" % (e, rng.choice(COMMENTS)))
    lines.append("%s]%s" % (elems[-1], rng.choice(COMMENTS)))
    return lines


def string_stmt(rng, k):
    a, b = rng.choice(STR_BODIES), rng.choice(STR_BODIES)
    return ["s%s = \"%s" % ("abcdefgh"[k % 8], a), "%s; } ]\"%s" % (b, rng.choice(COMMENTS))]


def gen_script(rng):
    stmts = []
    for k in range(rng.randint(1, 7)):
        c = rng.random()
        if c < 0.04:
            for l in long_liner(rng, k):
                stmts.append([l])
        elif c < 0.5:
            stmts.append(one_liner(rng, k))
        elif c < 0.7:
            stmts.append(block_stmt(rng, k))
            stmts.append(["write(toa(f%s(%d)))" % ("abcdefgh"[k % 8], rng.randrange(9))])
        elif c < 0.85:
            stmts.append(array_stmt(rng, k))
        else:
            stmts.append(string_stmt(rng, k))
            stmts.append(["write(s%s)" % "abcdefgh"[k % 8]])
    return stmts


# self-contained statements for the -eval comparison: (text, comparable value line)
EVAL_STMTS = [
    "1 + 2", "write(5)", "{\nf = (n) -> if n == 0 0 else n + f(n - 1)\nf(10)\n}", "{\nwrite(\"a\")\nwrite(\"b\")\n3\n}",
    "[1, 2, 3] + [4]", "{\na = 5\nb = a * 2\n[a, b]\n}", "1 / 0", "{\nwrite(1)\n1 / 0\nwrite(2)\n}", "true & false",
    "{\ng = () -> for i <- fromto(0, 3) yield i * i\nt = 0\nfor x <- g() t = t + x\nt\n}", "write(\"{\")", "#\"a;b\"",
    "{\nk = (a) -> {\nb = a + 1\n(c) -> a + b + c\n}\nk(1)(2)\n}", "x", "1 2", "write(1) write(2)", "2.5 * 2", "1 < 2",
    "{\nm = [1,\n2]\n#m\n}", "write(\"a\nb\")", "toa(12) + \"!\"" , "aton(\"12\") + 1", "[1, [2, 3]][1][0]",
]


def run_bin(args, stdin=None, timeout=60):
    p = subprocess.run([vlib.CALC_BIN] + args, input=stdin, stdout=subprocess.PIPE, stderr=subprocess.PIPE, timeout=timeout)
    return p.returncode, mask(p.stdout)


def run(tier, seed):
    run = vlib.Run(PROP, LEVEL, tier, seed)
    vlib.build_harness()
    vlib.build_calc()
    sesscheck.regen_builtins()
    problems = common.prepare(run, PROP, MODULE, THEOREMS)
    for p in problems:
        run.violation({"what": "proof obligation of C16 no longer checks", "broken": p}, no_failing_input=True)
    rng = random.Random(seed)
    nviol = 0
    scratch = os.path.join(vlib.BUILD, "c16")
    os.makedirs(scratch, exist_ok=True)
    # ---- 1. the splitter model against the real Loop and FReader on arbitrary lines
    nsoup = 2500 if tier == "quick" else 20000
    cases = []
    for _ in range(nsoup):
        lines = [soup_line(rng) for _ in range(rng.randint(0, 6))]
        if rng.random() < 0.5:
            cases.append(("lines", lines))
        else:
            content = "\n".join(lines) + rng.choice(["", "\n", "\n\n"])
            cases.append(("file", content))
    outs = vlib.run_harness("loopsplit", [
        {"lines": [list(l.encode("latin-1")) for l in c]} if k == "lines" else {"file": True, "content": list(c.encode("latin-1"))}
        for k, c in cases], timeout=3600)
    t_lines, t_file, i_lines, i_file = [], [], [], []
    for i, ((k, c), o) in enumerate(zip(cases, outs)):
        obs = "[%s]" % ";".join(cstr(bytes(x)) for x in o.get("inputs", []))
        if k == "lines":
            t_lines.append("([%s], %s)" % (";".join(cstr(l) for l in c), obs))
            i_lines.append(i)
        else:
            t_file.append("(%s, %s)" % (cstr(c), obs))
            i_file.append(i)
    bad = [i_lines[j] for j in vlib.coq_eval_cases("c16l", IMPORTS, t_lines, "chk_split", shard=150)]
    bad += [i_file[j] for j in vlib.coq_eval_cases("c16f", IMPORTS, t_file, "chk_file", shard=150)]
    for i in bad[:3]:
        nviol += 1
        run.violation({"what": "the real read-eval loop and its model (Repl.v) hand different inputs to processInput; the "
                               "theorems no longer speak about the code", "input": cases[i],
                       "observed_inputs": [bytes(x).decode("latin-1") for x in outs[i].get("inputs", [])]},
                      no_failing_input=True)
    # ---- 2. scripts built from statements of known extent
    nscripts = 350 if tier == "quick" else 3000
    scripts = [gen_script(rng) for _ in range(nscripts)]
    finals = [rng.random() < 0.5 for _ in scripts]
    texts = ["\n".join("\n".join(st) for st in s) + ("\n" if f else "") for s, f in zip(scripts, finals)]
    split_obs = vlib.run_harness("loopsplit", [{"file": True, "content": list(t.encode("latin-1"))} for t in texts], timeout=3600)
    sterms = ["([%s], %s, [%s])" % (";".join("[%s]" % ";".join(cstr(l) for l in st) for st in s), "true" if f else "false",
                                    ";".join(cstr(bytes(x)) for x in o.get("inputs", [])))
              for s, f, o in zip(scripts, finals, split_obs)]
    scodes = vlib.coq_eval_codes("c16s", IMPORTS, sterms, "chk_script", shard=40)
    for i in sorted(scodes)[:3]:
        nviol += 1
        code = scodes[i]
        if code == 1:
            run.violation({"what": "a script is not executed statement by statement: the loop handed over %d inputs for %d "
                                   "top-level statements" % (len(split_obs[i].get("inputs", [])), len(scripts[i])),
                           "script": texts[i], "statements": ["\n".join(st) for st in scripts[i]],
                           "handed_over": [bytes(x).decode("latin-1") for x in split_obs[i].get("inputs", [])]})
        else:
            run.violation({"what": "script check code %d (2: generated statement not complete; 3: model splits differently)" % code,
                           "script": texts[i]}, no_failing_input=True)
    ref_file = vlib.run_harness("stmts", [{"stmts": [list("\n".join(st).encode("latin-1")) for st in s], "doout": False} for s in scripts],
                                timeout=3600)
    ref_repl = vlib.run_harness("stmts", [{"stmts": [list("\n".join(st).encode("latin-1")) for st in s], "doout": True} for s in scripts],
                                timeout=3600)
    modes = 0
    for i, (s, t) in enumerate(zip(scripts, texts)):
        want_file = b"".join(bytes(o) for o in ref_file[i].get("outs", []))
        want_repl = b"calc repl\n" + b"".join(bytes(o) for o in ref_repl[i].get("outs", []))
        path = os.path.join(scratch, "s%d.calc" % i)
        with open(path, "wb") as f:
            f.write(t.encode("latin-1"))
        rc, got_file = run_bin([path])
        os.unlink(path)
        rc2, got_repl = run_bin([], stdin=t.encode("latin-1"))
        modes += 2
        if got_file != want_file or rc != 0:
            nviol += 1
            if nviol <= 5:
                run.violation({"what": "file mode prints something else than the same statements entered one by one (exit %d)" % rc,
                               "script": t, "file_mode_output": got_file.decode("latin-1")[:600],
                               "one_by_one_output": want_file.decode("latin-1")[:600]})
        if got_repl != want_repl or rc2 != 0:
            nviol += 1
            if nviol <= 5:
                run.violation({"what": "the REPL prints something else than the same statements entered one by one (exit %d)" % rc2,
                               "script": t, "repl_output": got_repl.decode("latin-1")[:600],
                               "one_by_one_output": want_repl.decode("latin-1")[:600]})
    # ---- 3. one statement, three modes
    stmts = list(EVAL_STMTS)
    for _ in range(60 if tier == "quick" else 400):
        s = gen_script(rng)
        body = [l for st in s for l in st]
        stmts.append("{\n%s\n0\n}" % "\n".join(body) if len(body) > 0 else "0")
    ref = vlib.run_harness("stmts", [{"stmts": [list(x.encode("latin-1"))], "doout": True} for x in stmts], timeout=3600)
    ref_f = vlib.run_harness("stmts", [{"stmts": [list(x.encode("latin-1"))], "doout": False} for x in stmts], timeout=3600)
    for x, r, rf in zip(stmts, ref, ref_f):
        want = bytes(r["outs"][0]) if r.get("outs") else b""
        want_f = bytes(rf["outs"][0]) if rf.get("outs") else b""
        rc, got_eval = run_bin(["-eval", x])
        rc2, got_repl = run_bin([], stdin=(x + "\n").encode("latin-1"))
        path = os.path.join(scratch, "one.calc")
        with open(path, "wb") as f:
            f.write(x.encode("latin-1"))
        rc3, got_file = run_bin([path])
        os.unlink(path)
        modes += 3
        probs = []
        if got_repl != b"calc repl\n" + want:
            probs.append(("REPL", got_repl, b"calc repl\n" + want))
        if got_file != want_f:
            probs.append(("file mode", got_file, want_f))
        if want.startswith(b"Parser:") or want.startswith(b"Lexer:"):
            # a syntax error: -eval prints the error in its own format and runs nothing
            if not (got_eval.startswith(b"Parser:") or got_eval.startswith(b"Lexer:")) or got_eval.count(b"\n") != 1:
                probs.append(("-eval", got_eval, b"<one line syntax error, nothing executed>"))
        else:
            # value lines: the REPL shows "> " + Display, -eval shows String; equal for everything but strings
            # (no statement of this check writes "> " itself)
            canon_repl = re.sub(rb"(?<!--)> ", b"", want)
            canon_eval = got_eval
            if canon_repl != canon_eval:
                # a string value is shown quoted by the REPL and raw by -eval
                unq = re.sub(rb'> "((?:[^"\\]|\\.)*)"\n', lambda m: m.group(1) + b"\n", want)
                unq = re.sub(rb"(?<!--)> ", b"", unq)
                if unq != canon_eval:
                    probs.append(("-eval", got_eval, canon_repl))
        for mode, got, wanted in probs[:1]:
            nviol += 1
            if nviol <= 5:
                run.violation({"what": "%s computes or prints something else for this statement than entering it on its own" % mode,
                               "statement": x, "observed": got.decode("latin-1")[:600], "expected": wanted.decode("latin-1")[:600]})
    try:
        os.rmdir(scratch)
    except OSError:
        pass
    # ---- 4. sessions of the proven fragment: on the trees the Go parser produced, Coq evaluates the (sound) checkers of the
    # premises of the two-machine session theorem, value mode and file mode each from the fresh machine
    import gen_frag
    fsess = gen_frag.sessions(seed + 16, 40 if tier == "quick" else 600)
    fres = sessions.run_sessions(fsess, nostck=False)
    terms = [sessions.session_case_term(r) for r in fres]
    mcov = vlib.coq_eval_codes("C16modes", sesscheck.IMPORTS + ["StmtSem", "CorrFragment"], terms, "chk_modes", shard=40)
    modes_cov = {"sessions": len(fsess), "trees": sum(c % 100000 for c in mcov.values()),
                 "trees_covered_by_the_two_mode_session_theorem": sum(c // 100000 for c in mcov.values())}
    run.cov.update({
        "proven_fragment_in_both_modes": modes_cov,
        "explanation": "1. %d arbitrary line sequences and file contents over braces, brackets, quotes, escapes and semicolons: the "
                       "inputs the real node.Loop (with the real FReader for files) hands to processInput equal those of the model "
                       "Repl.v.  2. %d scripts built from statements of known extent (one-liners, multi-line blocks, array "
                       "literals and strings with braces, brackets, quotes and semicolons inside strings and comments; with and "
                       "without a final line break): Coq checks each statement meets the theorem's hypothesis and that the real "
                       "loop handed over exactly the statements; the built binary in file mode and as REPL (piped) prints exactly "
                       "what the statements print when entered one by one (node.processInput per statement).  3. %d single "
                       "statements are run with -eval, in the REPL and from a file and compared with processInput (value line "
                       "modulo the '> ' prefix and string quoting; a syntax error runs nothing).  4. %d generated sessions of the proven "
                       "fragment (definitions and statements): Coq evaluated the sound checkers of the premises of "
                       "C16_sessions_in_both_modes_partial on the parsed trees; %d of their %d trees are covered in the sense of "
                       "C16_counted_trees_are_covered_in_both_modes (all but the first tree of a session, whose run also executes "
                       "the built-ins' definitions)." % (nsoup, nscripts, len(stmts), modes_cov["sessions"],
                                                        modes_cov["trees_covered_by_the_two_mode_session_theorem"], modes_cov["trees"]),
        "evaluations": nsoup + nscripts + modes,
        "distinct_nontrivial": len({c if isinstance(c, str) else tuple(c) for _, c in cases}) + len(set(texts)) + len(set(stmts)),
        "rule": "distinct line sequences / scripts / statements",
        "traces_validated_against_impl": nsoup + nscripts,
        "samples": [texts[0][:300], stmts[-1][:300]],
        "violations_found": nviol,
    })
    return run.finish()


def replay(path, seed):
    d = json.load(open(path))
    vlib.build_calc()
    if "script" in d:
        p = os.path.join(vlib.BUILD, "replay.calc")
        open(p, "wb").write(d["script"].encode("latin-1"))
        print(run_bin([p])[1].decode("latin-1"))
        os.unlink(p)
    if "statement" in d:
        print(run_bin(["-eval", d["statement"]])[1].decode("latin-1"))
    return 0
