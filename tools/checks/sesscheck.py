"""Shared machinery of the properties that are decided on whole sessions
(C01-C05, C08, C09, C12, C17, C19): run generated sessions on the real code,
compare with the definitional semantics (property oracle) and with the VM
model (correspondence), classify known findings, shrink, report."""
import collections
import json
import os
import re

import sessions
import vlib

IMPORTS = sessions.SESSION_IMPORTS + ["Sem", "SemSession"]

FINDING_EVENTS = {2: "K1", 3: "K2"}


def regen_builtins():
    """Translator step: regenerate coq/GenBuiltins.v from builtin/builtin.go
    (through the verif hook) so that every theorem and model that mentions the
    built-ins is re-checked against what the source says now."""
    p = vlib.sh([vlib.HARNESS, "builtins"], timeout=120)
    text = p.stdout.decode()
    path = os.path.join(vlib.COQ, "GenBuiltins.v")
    old = open(path).read() if os.path.exists(path) else ""
    if text != old:
        with open(path, "w") as f:
            f.write(text)
        return True
    return False


def evaluate(sess_list, nostck=False, fn="chk_session_both", shard=25, name="sess"):
    res = sessions.run_sessions(sess_list, nostck=nostck)
    if len(res) != len(sess_list):
        raise vlib.CheckError("harness returned %d results for %d sessions" % (len(res), len(sess_list)))
    terms = [sessions.session_case_term(r) for r in res]
    codes = vlib.coq_eval_codes(name, IMPORTS, terms, fn, shard=shard)
    return res, codes


def go_problems(res_one):
    """internal faults of the real interpreter in one session: (kind, statement index, text)"""
    out = []
    if res_one.get("hang"):
        out.append(("hang", res_one.get("completed", 0), "statement does not finish"))
    for i, st in enumerate(res_one.get("results", [])):
        if st.get("panic"):
            out.append(("panic", i, st["panic"][:300]))
        for e in st.get("errs", []) or []:
            if e.startswith("other"):
                out.append(("undocumented error", i, e))
    return out


def trace(sess, res_one):
    """what the implementation, the semantics and the VM model observe (for replay files)"""
    trees = ";".join("[%s]" % ";".join(st.get("asts", [])) for st in res_one.get("results", []) if not st.get("parse_err"))
    det = vlib.coq_eval_terms("trace", IMPORTS, ["sem_trace_session [%s]" % trees, "trace_session [%s]" % trees])
    impl = [{k: st.get(k) for k in ("vals", "errs", "out", "counters", "parse_err", "compile_err", "panic") if st.get(k)}
            for st in res_one.get("results", [])]
    return {"implementation": impl, "semantics": det[0][:3000], "vm_model": det[1][:3000]}


def still_bad(sess, pred):
    res, codes = evaluate([sess], name="shrink", shard=1)
    return pred(res[0], codes.get(0, 0))


def shrink(sess, pred, budget=10):
    """drop statements while the failure persists"""
    cur = list(sess)
    i = len(cur) - 1
    tries = 0
    while i >= 0 and tries < budget and len(cur) > 1:
        cand = cur[:i] + cur[i + 1:]
        tries += 1
        try:
            if still_bad(cand, pred):
                cur = cand
        except vlib.CheckError:
            pass
        i -= 1
    return cur


def known_finding_lines(run, prop):
    """replay the witnesses of the open findings of this property on the real code"""
    hits = {}
    for f in vlib.open_findings(prop):
        w = f.get("witness_session")
        if not w:
            continue
        res, codes = evaluate([w], name="kf", shard=1)
        code = codes.get(0, 0)
        ok_still_fails = (code // 10 == 1)
        hits[f["id"]] = ok_still_fails
        if ok_still_fails:
            run.known_finding("%s: %s" % (f["id"], f["what"]))
        else:
            run.notes.append("finding %s no longer reproduces on this tree" % f["id"])
    return hits


def classify(run, prop, sess_list, res, codes, use_sem=True, use_vm=True, max_report=4, labels=None):
    """Turn codes into violations / known-finding attributions.  Returns stats."""
    stats = collections.Counter()
    open_ids = {f["id"] for f in vlib.open_findings(prop)}
    reported = 0
    todo = []
    for i, s in enumerate(sess_list):
        code = codes.get(i, 0)
        semc, vmc = code // 10, code % 10
        probs = go_problems(res[i])
        stats["sessions"] += 1
        stats["statements"] += len(res[i].get("results", []))
        if vmc in FINDING_EVENTS:
            stats["event_" + FINDING_EVENTS[vmc]] += 1
        if semc == 4 or vmc == 4:
            stats["fuel"] += 1
        if semc == 6:
            stats["outside_semantics"] += 1
        bad_sem = use_sem and semc == 1
        bad_vm = use_vm and vmc == 1
        if probs:
            stats["internal_faults"] += 1
        if not (bad_sem or bad_vm):
            continue
        if bad_sem and vmc in FINDING_EVENTS and FINDING_EVENTS[vmc] in open_ids:
            stats["attributed_" + FINDING_EVENTS[vmc]] += 1
            continue
        stats["disagree_semantics" if bad_sem else "disagree_model_only"] += 1
        todo.append((0 if bad_sem else 1, len("".join(s)), i, bad_sem))
    # failing inputs (semantics disagrees) first, smallest first
    for _, _, i, bad_sem in sorted(todo):
        s = sess_list[i]
        if reported >= max_report:
            stats["unreported"] += 1
            continue
        reported += 1
        if bad_sem:
            want = (lambda r, c: c // 10 == 1 and c % 10 not in FINDING_EVENTS)
        else:
            want = (lambda r, c: c % 10 == 1)
        small = shrink(s, want)
        r2, c2 = evaluate([small], name="shrunk", shard=1)
        t = trace(small, r2[0])
        if bad_sem:
            run.violation({"what": "the implementation and the definitional semantics (coq/Sem.v) disagree on this session: "
                                   "value, output or error class of some statement differs",
                           "session": small, "original_session": s, "label": (labels or {}).get(i),
                           "observed": t, "replay": "./check %s --replay <this file>" % prop})
        else:
            run.violation({"what": "the VM/compiler model (coq/VM.v, Compile.v) and the implementation disagree on this session "
                                   "(values, output, error class or machine counters incl. code/data segment sizes) while the "
                                   "definitional semantics agrees with the implementation: the theorems about the model "
                                   "no longer transfer to the code",
                           "correspondence": "CorrSession.chk_session", "session": small, "original_session": s,
                           "observed": t}, no_failing_input=not any(b for _, _, _, b in todo))
    return stats


def distribution(sess_list, res):
    kinds = collections.Counter()
    errs = collections.Counter()
    for s, r in zip(sess_list, res):
        for src in s:
            for kw, pat in (("function", "->"), ("for", r"\bfor\b"), ("while", r"\bwhile\b"), ("if", r"\bif\b"),
                            ("else", r"\belse\b"), ("return", r"\breturn\b"), ("yield", r"\byield\b"),
                            ("call", r"[a-z]\("), ("index", r"\["), ("write", r"write\(")):
                if re.search(pat if kw != "function" else re.escape(pat), src):
                    kinds[kw] += 1
        for st in r.get("results", []):
            if st.get("parse_err"):
                errs["parse error"] += 1
            if st.get("compile_err"):
                errs["refused"] += 1
            if st.get("panic"):
                errs["panic"] += 1
            for e in st.get("errs", []) or []:
                errs[e] += 1
    return {"statements_containing": dict(kinds), "outcomes": dict(errs)}


def distinct_nontrivial(sess_list, res):
    """distinct sessions (by text) in which at least one statement ran to a value"""
    seen = set()
    for s, r in zip(sess_list, res):
        if any(e == "none" for st in r.get("results", []) for e in (st.get("errs") or [])):
            seen.add("\n@@\n".join(s))
    return len(seen)


def replay_session(prop, path):
    d = json.load(open(path))
    s = d.get("session") or d.get("original_session")
    if not s:
        print(json.dumps(d, indent=1)[:4000])
        return
    vlib.build_harness()
    vlib.build_coq()
    res, codes = evaluate([s], name="replay", shard=1)
    print(json.dumps({"session": s, "code": codes.get(0, 0), "observed": trace(s, res[0])}, indent=1))
