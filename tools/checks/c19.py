"""C19 — runtime error reports point at the real failure."""
import json
import random
import re

import sessions
import vlib
from checks import common, sesscheck
from gen_prog import make_sessions

PROP = "C19"
LEVEL = "other"
MODULE = "PropC19"
THEOREMS = ["C19_report_names_the_class", "C19_class_names_distinct", "C19_error_attributed_to_executing_instruction",
            "C19_binop_report_lists_the_operands", "C19_report_marks_the_failing_instruction", "C19_run_reports_the_failing_step"]

CLASS_TEXT = {"zerodiv": "division by zero", "type": "type error", "nil": "nil error", "index": "index error",
              "arity": "arity mismatch", "conversion": "conversion error"}

# (class, failing expression over parameters a and b, opcode mnemonic prefix, operand renderings given a, b)
FAILS = [
    ("zerodiv", "a / b", "DIV", lambda a, b: [a, b], ("7", "0")),
    ("zerodiv", "a % b", "MOD", lambda a, b: [a, b], ("7", "0")),
    ("zerodiv", "(a + 1) / b", "DIVTMP", lambda a, b: [str(int(a) + 1), b], ("7", "0")),
    ("zerodiv", "(a + 1) % b", "MODTMP", lambda a, b: [str(int(a) + 1), b], ("7", "0")),
    ("type", "a + b", "ADD", lambda a, b: [a, b.strip('"')], ("7", '"x"')),
    ("type", "(a * 2) - b", "SUBTMP", lambda a, b: [str(int(a) * 2), b.strip('"')], ("7", '"x"')),
    ("type", "a < b", "LT", lambda a, b: [a, b.strip('"')], ("7", '"x"')),
    ("type", "!a", "NOT", lambda a, b: [a], ("7", "0")),
    ("type", "#a", "LEN", lambda a, b: [a], ("7", "0")),
    ("type", "~b", "FLIP", lambda a, b: [b.strip('"')], ("7", '"x"')),
    ("nil", "a + nosuch", "ADD", lambda a, b: [a, "nil"], ("7", "0")),
    ("nil", "(a + 1) * nosuch", "MULTMP", lambda a, b: [str(int(a) + 1), "nil"], ("7", "0")),
    ("index", "[1, 2, 3][a]", "IX1", lambda a, b: ["[1, 2, 3]", a], ("7", "0")),
    ("index", "\"abc\"[b:a]", "IX2", lambda a, b: ["abc", b, a], ("7", "1")),
    ("type", "a[b]", "IX1", lambda a, b: [a, b], ("7", "0")),
    ("arity", "idf(a, b)", "CALL", lambda a, b: ["function"], ("7", "0")),
    ("type", "a(b)", "CALL", lambda a, b: [a], ("7", "0")),
    ("conversion", "aton(b)", "ATON", lambda a, b: [b.strip('"')], ("7", '"zz"')),
    ("type", "aton(a)", "ATON", lambda a, b: [a], ("7", "0")),
    ("nil", "x = nosuch", "MOV", lambda a, b: ["nil"], ("7", "0")),
    ("type", "if a 1 else 2", "JMPF", lambda a, b: [a], ("7", "0")),
    ("type", "a << b", "LSH", lambda a, b: [a, b.strip('"')], ("7", '"x"')),
]


def chain_case(rng):
    """a failing call chain of known shape: returns (session, expectation)"""
    cls, expr, opname, operands, (a, b) = rng.choice(FAILS)
    depth = rng.randint(0, 6)
    names = rng.sample(["fa", "fb", "fc", "fd", "fe", "ff", "fg", "fh"], depth + 1)
    s = ["idf = (x) -> x"]
    # innermost function fails on its parameters a and b
    s.append("%s = (a, b) -> %s" % (names[0], expr))
    frames = [(names[0], [a.strip('"'), b.strip('"')])]
    if expr.startswith("aton("):
        # the built-ins are ordinary calc functions: the failing ATON runs inside a call of aton
        frames.insert(0, ("aton", [(b if expr == "aton(b)" else a).strip('"')]))
    prev = names[0]
    extra = rng.choice(["11", "\"tag\"", "[1, 2]", "true", "idf", "1.5"])
    for d in range(1, depth + 1):
        s.append("%s = (a, b, c) -> %s(%s) + 0" % (names[d], prev, "a, b" if d == 1 else "a, b, c"))
        frames.append((names[d], [a.strip('"'), b.strip('"'), render(extra)]))
        prev = names[d]
    extras = [extra]
    ctx_style = rng.choice(["plain", "plain", "loop", "generator", "generator2", "alias", "recycled_top", "recycled_fn"])
    top_args = "%s, %s" % (a, b) if depth == 0 else "%s, %s, %s" % (a, b, extras[-1])
    contexts = [list(frames)]   # innermost context first; each a list of frames innermost first
    if ctx_style == "plain":
        s.append("%s(%s)" % (prev, top_args))
    elif ctx_style == "alias":
        s.append("other = %s" % prev)
        s.append("other(%s)" % top_args)
        contexts[0][-1] = ("other", contexts[0][-1][1])
    elif ctx_style == "loop":
        s.append("drv = (n) -> {\nfor i <- fromto(0, 3) if i == n %s(%s)\n}" % (prev, top_args))
        s.append("drv(1)")
        contexts[0].append(("drv", ["1"]))
    elif ctx_style == "generator":
        s.append("gen = (n) -> {\nyield n\n%s(%s)\nyield 2\n}" % (prev, top_args))
        s.append("drv = (m) -> {\nfor v <- gen(5) write(toa(v + m))\n}")
        s.append("drv(13)")
        contexts[0].append(("gen", ["5"]))
        contexts[0].append(("drv", ["13"]))
        contexts.append([("drv", ["13"])])
    elif ctx_style in ("recycled_top", "recycled_fn"):
        # an earlier loop inside a function has finished within the same statement: its context is recycled
        s.append("gen = (n) -> {\nyield n\n%s(%s)\nyield 2\n}" % (prev, top_args))
        s.append("warm = (n) -> {\nt = 0\nfor i <- fromto(0, n) t = t + i\nt\n}")
        if ctx_style == "recycled_top":
            s.append("{\nwarm(9)\nfor v <- gen(5) write(toa(v))\n}")
            contexts[0].append(("gen", ["5"]))
            contexts.append([])
        else:
            s.append("drv = (m) -> {\nwarm(9)\nfor v <- gen(5) write(toa(v + m))\n}")
            s.append("drv(13)")
            contexts[0].append(("gen", ["5"]))
            contexts[0].append(("drv", ["13"]))
            contexts.append([("drv", ["13"])])
    else:
        s.append("gen = (n) -> {\nyield n\n%s(%s)\nyield 2\n}" % (prev, top_args))
        s.append("mid = (k) -> for v <- gen(k) yield v + 1")
        s.append("drv = (m) -> {\nfor v <- mid(4) write(toa(v + m))\n}")
        s.append("drv(13)")
        # a forked context holds a copy of the forking call's frame only
        contexts[0].append(("gen", ["4"]))
        contexts[0].append(("mid", ["4"]))
        contexts.append([("mid", ["4"]), ("drv", ["13"])])
        contexts.append([("drv", ["13"])])
    exp = {"class": cls, "op": opname, "operands": [abbrev(x) for x in operands(a, b)], "contexts": contexts}
    return s, exp


def render(lit):
    if lit.startswith('"'):
        return lit.strip('"')
    if lit == "idf":
        return "function"
    return lit


def abbrev(s):
    return s if len(s) <= 20 else s[:17] + "..."


def parse_report(text):
    """-> (class, marked opcode, operand text, contexts as lists of (name, [args]))"""
    m = re.match(r"RUNTIME ERROR : ([^\n]*)\n", text)
    cls = m.group(1) if m else None
    mk = re.search(r"^--> \d+: 0X[0-9A-F]+ : (\S+) [^;\n]*; ([^\n]*)$", text, flags=re.M)
    op, operands = (mk.group(1), mk.group(2)) if mk else (None, None)
    ctxs = []
    for block in text.split("memory context @\n")[1:]:
        frames = []
        for line in block.splitlines():
            fm = re.match(r"IP: \d+ (\S+)\(\) args: (.*)$", line)
            if fm:
                args = re.findall(r"arg\[\d+\]: (.*?)(?= arg\[\d+\]: |$)", fm.group(2))
                frames.append((fm.group(1), args))
        ctxs.append(frames)
    return cls, op, operands, ctxs


def decode(coqstr):
    if coqstr.startswith("(sb ["):
        return bytes(int(x) for x in coqstr[5:-2].split(";") if x).decode("latin-1")
    return coqstr.strip('"')


def run(tier, seed):
    run = vlib.Run(PROP, LEVEL, tier, seed)
    vlib.build_harness()
    sesscheck.regen_builtins()
    problems = common.prepare(run, PROP, MODULE, THEOREMS)
    for p in problems:
        run.violation({"what": "proof obligation of C19 no longer checks", "broken": p}, no_failing_input=True)
    rng = random.Random(seed)
    n = 250 if tier == "quick" else 8000
    cases = [chain_case(rng) for _ in range(n)]
    sess = [c[0] for c in cases]
    res = sessions.run_sessions(sess)
    nviol = 0
    checked = 0
    for (s, exp), r in zip(cases, res):
        rs = r.get("results", [])
        if len(rs) < len(s):
            if any(st.get("panic") for st in rs):
                nviol += 1
                if nviol <= 3:
                    run.violation({"what": "producing the report (or running the failing program) aborted the interpreter: %s" %
                                           [st.get("panic") for st in rs if st.get("panic")][:1], "session": s})
            continue
        st = rs[-1]
        rep = decode((st.get("reports") or ['""'])[-1])
        cls, op, operands, ctxs = parse_report(rep)
        checked += 1
        why = None
        if (st.get("errs") or [None])[-1] != exp["class"]:
            why = "error class returned is %s, expected %s" % (st.get("errs"), exp["class"])
        elif cls != CLASS_TEXT[exp["class"]]:
            why = "report names class %r, the error returned is %s" % (cls, exp["class"])
        elif op != exp["op"]:
            why = "marked instruction is %s, the failing operation is %s" % (op, exp["op"])
        elif operands != ", ".join(exp["operands"]):
            why = "marked instruction lists operands %r, the operation saw %r" % (operands, ", ".join(exp["operands"]))
        elif [[(nme, a) for nme, a in c] for c in ctxs] != [[(nme, [abbrev(x) for x in a]) for nme, a in c] for c in exp["contexts"]]:
            why = "backtrace %r, the active calls are %r" % (ctxs, exp["contexts"])
        elif "giving up" in rep:
            why = "the report gave up"
        if why:
            nviol += 1
            if nviol <= 4:
                run.violation({"what": "runtime error report does not point at the real failure: " + why,
                               "session": s, "report": rep, "expected": exp})
    # byte-for-byte correspondence of report texts with the VM model, on these and on general failing sessions
    extra = make_sessions(seed + 19, n // 2, "errors")
    allsess = sess[:n // 2] + extra
    res2, codes = sesscheck.evaluate(allsess, fn="chk_session_reports", name="C19", shard=20)
    # chk_session_reports returns plain codes (no semantics digit)
    bad = [i for i, c in codes.items() if c == 1]
    for i in bad[:2]:
        t = sesscheck.trace(allsess[i], res2[i])
        run.violation({"what": "the report text of the VM model (coq/VM.v report_text) and of the implementation differ (or the "
                               "runs differ) on this session; the C19 theorems are about the model",
                       "correspondence": "CorrSession.chk_session_reports", "session": allsess[i], "observed": t,
                       "implementation_reports": [decode(x) for st in res2[i].get("results", []) for x in (st.get("reports") or []) if x != '""'][:3]},
                      no_failing_input=(nviol == 0))
    nrep = sum(1 for r in res2 for st in r.get("results", []) for x in (st.get("reports") or []) if x != '""')
    run.cov.update({
        "explanation": "Failing programs with known failing operator, operand values and call chain (23 failure forms x call depth "
                       "0-6 x plain / aliased name / loop body / generator / nested generator, parameters holding strings, arrays, "
                       "floats and functions) are run on the real code; the report is parsed and class, marked instruction, its "
                       "operand values and the frames of every context (names, current argument values) are compared with the "
                       "construction. Report texts are also compared byte for byte (context addresses masked) with the VM model "
                       "on %d reports. Proved: the report names the returned class; class names are distinct." % nrep,
        "evaluations": checked + len(allsess),
        "distinct_nontrivial": len({json.dumps(c[0]) for c in cases}),
        "rule": "constructed failing chains + generated failing sessions; non-trivial = distinct failing programs",
        "traces_validated_against_impl": nrep,
        "samples": [cases[0][0], cases[0][1]],
        "report_violations": nviol, "model_disagreements": len(bad),
    })
    return run.finish()


def replay(path, seed):
    sesscheck.replay_session(PROP, path)
    return 0
