"""C13 — backtracking is invisible: failed alternatives consume nothing."""
import itertools
import json
import random

import vlib
from checks import common
from checks.c14 import bt

PROP = "C13"
LEVEL = "proof"
MODULE = "PropC13"
THEOREMS = ["C13_snapshot_rollback_restores", "C13_snapshot_commit_keeps", "C13_replay_returns_cached",
            "C13_assert_consumes_nothing", "C13_not_consumes_nothing", "C13_ok_is_neutral",
            "C13_backtracking_is_invisible", "C13_go_is_spec_from_any_state"]
IMPORTS = ["Base", "Lexer", "CorrLexer", "Comb", "CorrComb"]


def otok(t):
    return "(%d, %s, %d, %d, %s)" % (t["kind"], bt(t["val"]), t["from"], t["to"], bt(list((t.get("err") or "").encode("utf-8"))))


def tlex_term(inp, ops, steps):
    opmap = {"N": "ONext", "S": "OSnap", "R": "ORoll", "C": "OCommit"}
    obs = []
    for s in steps:
        if s["op"] == "N":
            tok = "(Some %s)" % otok(s["tok"]) if s.get("tok") else "None"
            obs.append("(%s, %s, %d, %d)" % ("true" if s["ret"] else "false", tok, s["from"], s["to"]))
    return "(%s, [%s], [%s])" % (bt(inp), ";".join(opmap[o] for o in ops), ";".join(obs))


# ---- parser expressions ----
def consuming(p):
    t = p["t"]
    if t == "accept":
        return True
    if t in ("ok", "assert", "not", "any", "sepby"):
        return False
    if t == "and":
        return consuming(p["a"]) or consuming(p["b"])
    if t == "oneof":
        return all(consuming(q) for q in p["ps"])
    if t == "choose":
        return all(consuming(g) or consuming(s) for g, s in p["cs"])
    if t == "surr":
        return consuming(p["a"]) or consuming(p["b"]) or consuming(p["c"])
    if t in ("drop", "fmap"):
        return consuming(p["a"])
    return False


def gen_p(rng, depth, need_consuming=False):
    for _ in range(50):
        p = gen_p1(rng, depth)
        if not need_consuming or consuming(p):
            return p
    return {"t": "accept", "v": rng.choice("abc")}


def gen_p1(rng, depth):
    if depth <= 0 or rng.random() < 0.25:
        return {"t": "accept", "v": rng.choice("abc")} if rng.random() < 0.85 else {"t": "ok"}
    c = rng.random()
    d = depth - 1
    if c < 0.2:
        return {"t": "and", "a": gen_p(rng, d), "b": gen_p(rng, d)}
    if c < 0.35:
        return {"t": "oneof", "ps": [gen_p(rng, d) for _ in range(rng.randint(1, 3))]}
    if c < 0.5:
        n = rng.randint(1, 3)
        cs = [[gen_p(rng, d), gen_p(rng, d)] for _ in range(n)]
        if rng.random() < 0.85:
            cs.append([{"t": "ok"}, gen_p(rng, d)])      # the mandatory always-passing last alternative
        return {"t": "choose", "cs": cs}
    if c < 0.62:
        return {"t": "any", "a": gen_p(rng, d, True), "b": gen_p(rng, d)}
    if c < 0.72:
        return {"t": "sepby", "a": gen_p(rng, d, True), "b": gen_p(rng, d)}
    if c < 0.8:
        return {"t": "surr", "a": gen_p(rng, d), "b": gen_p(rng, d), "c": gen_p(rng, d)}
    if c < 0.87:
        return {"t": "assert", "a": gen_p(rng, d)}
    if c < 0.93:
        return {"t": "not", "a": gen_p(rng, d)}
    if c < 0.96:
        return {"t": "drop", "a": gen_p(rng, d)}
    return {"t": "fmap", "f": rng.choice(["count", "rev", "wrap"]), "a": gen_p(rng, d)}


def p_term(p):
    t = p["t"]
    if t == "accept":
        return '(PAccept "%s")' % p["v"]
    if t == "ok":
        return "POk"
    if t == "and":
        return "(PAnd %s %s)" % (p_term(p["a"]), p_term(p["b"]))
    if t == "oneof":
        return "(POneOf [%s])" % ";".join(p_term(q) for q in p["ps"])
    if t == "choose":
        return "(PChoose [%s])" % ";".join("(%s, %s)" % (p_term(g), p_term(s)) for g, s in p["cs"])
    if t == "any":
        return "(PAny %s %s)" % (p_term(p["a"]), p_term(p["b"]))
    if t == "sepby":
        return "(PSepBy %s %s)" % (p_term(p["a"]), p_term(p["b"]))
    if t == "surr":
        return "(PSurr %s %s %s)" % (p_term(p["a"]), p_term(p["b"]), p_term(p["c"]))
    if t == "assert":
        return "(PAssert %s)" % p_term(p["a"])
    if t == "not":
        return "(PNot %s)" % p_term(p["a"])
    if t == "drop":
        return "(PDrop %s)" % p_term(p["a"])
    return "(PFmap %s %s)" % ({"count": "FCount", "rev": "FRev", "wrap": "FWrap"}[p["f"]], p_term(p["a"]))


def comb_term(p, inp, o):
    nodes = "None" if o.get("nodes") is None else "(Some [%s])" % ";".join('"%s"' % n for n in o["nodes"])
    e = o.get("err")
    err = "None" if not e else "(Some (%s, %d, %d))" % (bt(list(e["msg"].encode("utf-8"))), e["from"], e["to"])
    nxt = "None" if not o.get("next") else "(Some %s)" % otok(o["next"])
    return "(%s, %s, {| co_panic := %s; co_nodes := %s; co_err := %s; co_left := %s; co_next := %s |})" % (
        p_term(p), bt(list(inp.encode())), "true" if o.get("panic") else "false", nodes, err,
        "true" if o.get("snapshot_left") else "false", nxt)


def run(tier, seed):
    run = vlib.Run(PROP, LEVEL, tier, seed)
    vlib.build_harness()
    problems = common.prepare(run, PROP, MODULE, THEOREMS)
    for p in problems:
        run.violation({"what": "proof obligation of C13 no longer checks", "broken": p}, no_failing_input=True)
    rng = random.Random(seed)

    # ---- transactional lexer: operation sequences ----
    inputs = ["a b c", "a", "", "x = 1 +\n2", "a £ b", "\"s\" ; c\nq", "12.5(a)"]
    tcases = []
    L = 6 if tier == "quick" else 9
    for n in range(0, L + 1):
        for ops in itertools.product("NSRC", repeat=n):
            tcases.append((inputs[0] if n > 4 else rng.choice(inputs[:4]), "".join(ops)))
    for _ in range(1500 if tier == "quick" else 60000):
        tcases.append((rng.choice(inputs), "".join(rng.choice("NNNSRC") for _ in range(rng.randint(5, 40)))))
    touts = vlib.run_harness("tlex", [{"input": list(i.encode()), "ops": o} for i, o in tcases], timeout=3600)
    tterms = []
    tidx = []
    for k, ((inp, ops), o) in enumerate(zip(tcases, touts)):
        if o.get("panic"):
            # pops on an empty snapshot stack are skipped by the harness, so nothing may panic
            run.violation({"what": "the transactional lexer aborted on a legal operation sequence: %s" % o["panic"][:200],
                           "input": inp, "ops": ops})
            continue
        tterms.append(tlex_term(list(inp.encode()), ops, o["steps"]))
        tidx.append(k)
    tbad_spec = vlib.coq_eval_cases("C13tspec", IMPORTS, tterms, "chk_tlex_spec", shard=1500)
    tbad_model = vlib.coq_eval_cases("C13tmodel", IMPORTS, tterms, "chk_tlex", shard=1500)
    for i in tbad_spec[:3]:
        inp, ops = tcases[tidx[i]]
        run.violation({"what": "after this operation sequence the transactional lexer does not return the tokens a fresh scan "
                               "resumed at the restored position returns", "input": inp, "ops": ops,
                       "observed_steps": touts[tidx[i]]["steps"]})
    if tbad_model and not tbad_spec:
        inp, ops = tcases[tidx[tbad_model[0]]]
        run.violation({"what": "the transactional lexer model (coq/Lexer.v) and lexer.TLexer disagree", "input": inp, "ops": ops,
                       "correspondence": "CorrLexer.chk_tlex"}, no_failing_input=True)

    # ---- combinators ----
    ccases = []
    ninp = ["", "a", "b", "a b", "a a", "b a", "a b c", "a a b", "a b a b", "c c c a", "a £", "a b a c b a"]
    n = 2500 if tier == "quick" else 80000
    for _ in range(n):
        p = gen_p(rng, rng.randint(1, 3))
        for inp in rng.sample(ninp, 3):
            ccases.append((p, inp))
    couts = vlib.run_harness("comb", [{"p": p, "input": i} for p, i in ccases], timeout=3600)
    cterms, cidx = [], []
    hangs = 0
    for k, ((p, inp), o) in enumerate(zip(ccases, couts)):
        if o.get("hang"):
            hangs += 1
            continue
        cterms.append(comb_term(p, inp, o))
        cidx.append(k)
    codes = vlib.coq_eval_codes("C13comb", IMPORTS, cterms, "chk_comb", shard=400)
    spec_bad = [i for i, c in codes.items() if c >= 2]
    model_bad = [i for i, c in codes.items() if c % 2 == 1]
    for i in sorted(spec_bad, key=lambda i: len(json.dumps(ccases[cidx[i]][0])))[:4]:
        p, inp = ccases[cidx[i]]
        run.violation({"what": "a combined parser does not behave as the ordered-choice recogniser on the token list (accept/reject, "
                               "nodes, error, position afterwards, or a snapshot left behind)",
                       "parser": p, "input": inp, "observed": couts[cidx[i]], "coq_term": cterms[i][:1500]})
    if model_bad and not spec_bad:
        p, inp = ccases[cidx[model_bad[0]]]
        run.violation({"what": "the Go-faithful combinator interpreter (coq/Comb.v run_go) and the real combinators disagree",
                       "parser": p, "input": inp, "observed": couts[cidx[model_bad[0]]],
                       "correspondence": "CorrComb.go_agrees"}, no_failing_input=True)
    kinds = {}
    for p, _ in ccases:
        kinds[p["t"]] = kinds.get(p["t"], 0) + 1
    run.cov.update({
        "explanation": "Transactional lexer: all operation sequences over Next/Snapshot/Rollback/Commit up to length %d (exhaustive) "
                       "and random ones up to 40 operations on 7 inputs incl. lexer errors; after every Next the visible token, "
                       "error and span must be those of a fresh scan at the abstract position (cursor specification evaluated in "
                       "Coq). Combinators: %d random parser expressions (depth <= 3, all 12 combinators) x 3 inputs, run with the "
                       "real combinators on the real TLexer; result nodes, error, position afterwards and snapshot balance are "
                       "compared with the ordered-choice specification run_spec and with the Go-faithful interpreter run_go. "
                       "Proved: snapshot/rollback/commit laws of the TLexer model and that Assert/Not/Ok consume nothing "
                       "(PropC13.v). The refinement run_go = run_spec as a theorem is open." % (L, n),
        "evaluations": len(tcases) + len(ccases),
        "distinct_nontrivial": len({json.dumps(c[0]) for c in ccases}) + len({c for c in tcases}),
        "rule": "exhaustive short op sequences + random; random parser expressions; non-trivial = distinct cases",
        "traces_validated_against_impl": len(tterms) + len(cterms),
        "exhaustive": False,
        "samples": [tcases[-1], ccases[0]],
        "by_top_combinator": kinds, "hangs": hangs,
        "disagreements": {"tlex_spec": len(tbad_spec), "tlex_model": len(tbad_model), "comb_spec": len(spec_bad), "comb_model": len(model_bad)},
    })
    return run.finish()


def replay(path, seed):
    d = json.load(open(path))
    vlib.build_harness()
    if "parser" in d:
        print(json.dumps(vlib.run_harness("comb", [{"p": d["parser"], "input": d["input"]}]), indent=1))
    elif "ops" in d:
        print(json.dumps(vlib.run_harness("tlex", [{"input": list(d["input"].encode()), "ops": d["ops"]}]), indent=1))
    return 0
