"""C12 — an expression means the same wherever it is written."""
import json
import random

import sessions
import vlib
from checks import common, sesscheck
from gen_prog import ProgGen, Scope

PROP = "C12"
LEVEL = "other"
MODULE = "PropC12"
THEOREMS = ["C12_inc_forms_int", "C12_block_of_one", "C12_if_true_is_body", "C12_negated_if_swap",
            "C12_condition_must_be_boolean", "C12_while_condition_must_be_boolean",
            "C12_pure_expression_any_context", "C12_same_operands", "C12_statement_used_or_discarded",
            "C12_condition_class", "C12_negated_if_swap_compiled", "C12_inc_forms", "C12_same_operands_via_temp", "C12_same_operands_via_temp_error",
            "C12_increment_via_temp", "C12_body_expression_any_context", "C12_call_used_or_discarded"]

PRELUDE = [
    "gi = 7", "gj = 3", "gf = 2.5", "gs = \"hey\"", "ga = [4, 5, 6]", "gb = true", "gc = false", "gaa = [[1, 2], [3]]",
    "idf = (x) -> x",
    "dbl = (n) -> n * 2 + 1",
    "wr = (n) -> {\nwrite(n)\nn\n}",
    "cat = (a, b) -> toa(a) + toa(b)",
    "pick = (a, i) -> a[i]",
]
GLOBALS = {"gi": "int", "gj": "int", "gf": "float", "gs": "str", "ga": "arr", "gb": "bool", "gc": "bool"}
FUNCS = {"idf": (1, "pure", "int"), "dbl": (1, "pure", "int"), "wr": (1, "pure", "int"),
         "pick": (2, "pure", "int")}

# value contexts: each is a list of inputs, the observable is the last input's
VALUE_CTX = [
    ("top", ["%(e)s"]),
    ("paren", ["(%(e)s)"]),
    ("fn_tail", ["ffa = () -> %(e)s", "ffa()"]),
    ("fn_block_tail", ["ffb = () -> {\ntmpt = 0\n%(e)s\n}", "ffb()"]),
    ("call_arg", ["idf(%(e)s)"]),
    ("array_elem", ["[%(e)s][0]"]),
    ("array_elem_late", ["[gi, %(e)s][1]"]),
    ("block", ["{\n%(e)s\n}"]),
    ("block_after_stmt", ["{\ntmpu = 1\n%(e)s\n}"]),
    ("for_body", ["for loopv <- fromto(0, 1) {\n%(e)s\n}"]),
    ("for_body_fn", ["ffc = () -> for loopv <- fromto(0, 1) {\n%(e)s\n}", "ffc()"]),
    ("while_body", ["{\ntmpw = 0\nwhile tmpw < 1 {\ntmpw = tmpw + 1\n%(e)s\n}\n}"]),
    ("while_body_fn", ["ffd = () -> {\ntmpw = 0\nwhile tmpw < 1 {\ntmpw = tmpw + 1\n%(e)s\n}\n}", "ffd()"]),
    ("if_true", ["if gb {\n%(e)s\n}"]),
    ("if_true_fn", ["ffe = () -> if gb {\n%(e)s\n}", "ffe()"]),
    ("else_branch", ["if gc 0 else {\n%(e)s\n}"]),
    ("neg_if", ["if !gb 0 else {\n%(e)s\n}"]),
    ("return_top", ["return %(e)s"]),
    ("return_fn", ["fff = () -> {\nreturn %(e)s\n0\n}", "fff()"]),
    ("return_in_for", ["ffg = () -> {\nfor loopv <- fromto(0, 3) {\nreturn %(e)s\n}\n0\n}", "ffg()"]),
    ("yield_naked", ["ffh = () -> yield %(e)s", "ffh()"]),
]
# contexts that go through an assignment: a nil value is an error there
ASSIGN_CTX = [
    ("generator", ["ffi = () -> yield %(e)s", "for genv <- ffi() genv"]),
    ("assign", ["tmpx = %(e)s"]),
    ("assign_fn", ["ffj = () -> {\nrr = %(e)s\nrr\n}", "ffj()"]),
    ("assign_then_read", ["{\ntmpy = %(e)s\ntmpy\n}"]),
]
# discarded: only errors and output are observable, the value is the 7 that follows
DISCARD_CTX = [
    ("discard_block", ["{\n%(e)s\n7\n}"]),
    ("discard_fn", ["ffk = () -> {\n%(e)s\n7\n}", "ffk()"]),
    ("discard_for", ["for loopv <- fromto(0, 1) {\n%(e)s\n7\n}"]),
    ("discard_if", ["{\nif gb {\n%(e)s\n}\n7\n}"]),
    ("discard_while", ["{\ntmpw = 0\nwhile tmpw < 1 {\ntmpw = tmpw + 1\n%(e)s\n7\n}\n}"]),
]
TYPED_CTX = {
    "int": [("plus0", ["(%(e)s) + 0"]), ("0plus", ["0 + (%(e)s)"]), ("times1_deep", ["((%(e)s) + 0) * 1"]),
            ("assign_plus0", ["tmpz = (%(e)s) + 0"]), ("minus_minus", ["-(-(%(e)s))"]), ("index_pos", ["[(%(e)s)][0] + 0"]),
            ("chain_right", ["gi - gi + gj - gj + (%(e)s)"]), ("chain_mid", ["gi - gi + (%(e)s) + gj - gj"]),
            ("chain_mul", ["(gi - gi + 1) * (%(e)s)"]), ("chain_fn", ["ffn = () -> gi - gi + gj - gj + (%(e)s)", "ffn()"]),
            ("chain_assign", ["tmpq = gi - gi + gj - gj + (%(e)s)"])],
    "float": [("plus0", ["(%(e)s) + 0"]), ("times1", ["1 * (%(e)s)"])],
    "str": [("plus_empty", ["(%(e)s) + \"\""]), ("empty_plus", ["\"\" + (%(e)s)"]), ("slice_all", ["((%(e)s) + \"\")[0:#(%(e)s)]"])],
    "arr": [("plus_empty", ["(%(e)s) + []"]), ("empty_plus", ["[] + (%(e)s)"])],
    "bool": [("and_true", ["(%(e)s) & true"]), ("notnot", ["!(!(%(e)s))"]), ("or_false_deep", ["((%(e)s) | false) & true"]),
             ("if_cond", ["if %(e)s true else false"]), ("if_neg_cond", ["if !(%(e)s) false else true"]),
             ("while_cond", ["{\nrr = false\ntmpw = 0\nwhile (%(e)s) & (tmpw < 1) {\ntmpw = tmpw + 1\nrr = true\n}\nrr\n}"])],
}
COND_CTX = [
    ("if", ["if %(e)s 1"]), ("ifelse", ["if %(e)s 1 else 2"]), ("if_discard", ["{\nif %(e)s 1\n7\n}"]),
    ("if_fn", ["ffl = () -> if %(e)s 1", "ffl()"]), ("while", ["while %(e)s return 1"]),
    ("while_discard", ["{\nwhile %(e)s return 1\n7\n}"]), ("if_const_discard", ["{\nif %(e)s 5\n7\n}"]),
    ("neg", ["if !(%(e)s) 1 else 2"]), ("while_fn", ["ffm = () -> while %(e)s return 1", "ffm()"]),
]


# one expression per node kind and operand source, always included
FIXED = [("int", "ga[dbl(0)]"), ("int", "pick(ga, 1)"), ("int", "ga[gj - 1]"), ("int", "#gs"), ("int", "-gi"),
         ("int", "gaa[1][0]"), ("arr", "ga[0:dbl(0)]"), ("str", "cat(gi, gs)"), ("int", "wr(3)"), ("arr", "[gi, dbl(1)]"),
         ("str", "gs + toa(gi)"), ("bool", "!gb"), ("int", "gi % gj"), ("int", "gi << 2"), ("int", "dbl(gi) % dbl(gj)"),
         ("int", "ga[0] % ga[1]"), ("int", "gi * gi"), ("arr", "ga + ga"), ("bool", "gi < gj"), ("int", "~gi"),
         ("float", "gf * 2"), ("int", "gi / 0"), ("int", "nosuch + 1"), ("str", "gs[1]"), ("str", "gs[0:2]"),
         ("int", "idf(dbl(idf(2)))"), ("arr", "[[gi], [dbl(1), [gj]]]"), ("bool", "ga == [4, 5, 6]"), ("int", "gi + 1/0"),
         ("int", "[10, 20, 30][dbl(0)]"), ("int", "gaa[dbl(0) - 1][dbl(0)]")]


def obs_of(st):
    if st.get("panic"):
        return ("panic", st["panic"][:80])
    if st.get("parse_err"):
        return ("parse", st["parse_err"][:60])
    errs = st.get("errs") or []
    vals = st.get("vals") or []
    return (errs[-1] if errs else "?", vals[-1] if vals and errs and errs[-1] == "none" else None, tuple(st.get("out") or []))


def gen_expr(g, scope, typ, depth):
    return g.expr(scope, typ, depth)


def build_cases(rng, count, wild):
    cases = []
    for k in range(count):
        g = ProgGen(rng.getrandbits(40), "general")
        g.wild = wild
        g.funcs = dict(FUNCS)
        scope = g.glob
        scope.vars.update(GLOBALS)
        typ = rng.choice(["int", "int", "int", "str", "arr", "bool", "float", "bool"])
        e = gen_expr(g, scope, typ, rng.randint(1, 3))
        cases.append((typ, e))
    return cases


def session_for(typ, e):
    stmts = list(PRELUDE)
    index = []   # (group, name, index of the observable input)
    for group, ctxs in (("value", VALUE_CTX), ("assign", ASSIGN_CTX), ("discard", DISCARD_CTX),
                        ("typed", TYPED_CTX.get(typ, [])), ("cond", COND_CTX)):
        for name, inputs in ctxs:
            for inp in inputs:
                stmts.append(inp % {"e": e})
            index.append((group, name, len(stmts) - 1))
    return stmts, index


def run(tier, seed):
    run = vlib.Run(PROP, LEVEL, tier, seed)
    vlib.build_harness()
    sesscheck.regen_builtins()
    problems = common.prepare(run, PROP, MODULE, THEOREMS)
    for p in problems:
        run.violation({"what": "proof obligation of C12 no longer checks", "broken": p}, no_failing_input=True)
    rng = random.Random(seed)
    n = 120 if tier == "quick" else 4000
    cases = list(FIXED) + build_cases(rng, n, 0.05) + build_cases(rng, n // 3, 0.35)
    sess, idx = [], []
    for typ, e in cases:
        s, ix = session_for(typ, e)
        sess.append(s)
        idx.append(ix)
    res = sessions.run_sessions(sess)
    nviol = 0
    pairs = 0
    for (typ, e), s, ix, r in zip(cases, sess, idx, res):
        rs = r.get("results", [])
        if r.get("hang") or len(rs) < len(s):
            bad = [st.get("panic") for st in rs if st.get("panic")]
            if bad:
                nviol += 1
                if nviol <= 3:
                    run.violation({"what": "the interpreter aborted while evaluating an expression in some position: %s" % bad[0][:200],
                                   "expression": e, "session": s[:len(rs)]})
            continue
        ob = {(g, nme): obs_of(rs[k]) for g, nme, k in ix}
        ref = ob[("value", "top")]

        def differs(a, b, what):
            nonlocal nviol
            nviol += 1
            if nviol <= 4:
                ka = [k for g, nme, k in ix if (g, nme) == a][0]
                kb = [k for g, nme, k in ix if (g, nme) == b][0]
                run.violation({"what": "the same expression behaves differently in two positions (%s): %s vs %s" % (what, a[1], b[1]),
                               "expression": e, "position_a": s[ka], "observed_a": ob[a],
                               "position_b": s[kb], "observed_b": ob[b], "prelude": PRELUDE})

        for key, o in ob.items():
            g, nme = key
            pairs += 1
            if g == "value":
                if o != ref:
                    differs(("value", "top"), key, "value, output or error")
                    break
            elif g == "assign":
                if ref[0] == "none" and ref[1] == "VNil":
                    if o[0] != "nil":
                        differs(("value", "top"), key, "assigning nil must be a nil error")
                        break
                elif o != ref:
                    differs(("value", "top"), key, "value through an assignment")
                    break
            elif g == "discard":
                want = ("none", "(VInt 7)", ref[2]) if ref[0] == "none" else ref
                if o != want:
                    differs(("value", "top"), key, "discarded position: errors and output must be those of the expression")
                    break
            elif g == "typed":
                # e + 0 etc. is e again when e has the expected type; otherwise only the error class of e itself is comparable
                # slice_all writes the expression twice: with an expression that writes, the output legitimately doubles
                if ref[0] == "none" and type_of(ref[1]) == typ and nme not in ("if_cond", "if_neg_cond", "while_cond") \
                        and not (nme == "slice_all" and ref[2]):
                    if (o[0], o[2]) != (ref[0], ref[2]) or (typ != "float" and o[1] != ref[1] and nme != "slice_all"):
                        differs(("value", "top"), key, "identity embedding")
                        break
                if nme in ("if_cond", "if_neg_cond", "while_cond") and ref[0] == "none" and type_of(ref[1]) == "bool":
                    if o[0] != "none" or o[1] != ref[1]:
                        differs(("value", "top"), key, "boolean used as a condition")
                        break
            elif g == "cond":
                if ref[0] != "none":
                    want_err = ref[0]
                elif type_of(ref[1]) == "bool":
                    want_err = "none"
                elif ref[1] == "VNil":
                    want_err = "nil"
                else:
                    want_err = "type"
                if o[0] != want_err:
                    differs(("value", "top"), key, "a condition must be boolean in every position (want %s)" % want_err)
                    break
    # statement-form equivalences
    eqv, eqviol = equivalences(run, rng, 60 if tier == "quick" else 1500)
    nviol += eqviol
    # model correspondence on the same sessions (cheap subset)
    sub = sess[:40 if tier == "quick" else 600]
    r2, codes = sesscheck.evaluate(sub, name="C12")
    stats = sesscheck.classify(run, PROP, sub, r2, codes, use_sem=True)
    run.cov.update({
        "explanation": "Metamorphic testing on the real code: each generated expression is placed in %d positions (used, "
                       "discarded, function tail, loop body, call argument, array element, assignment, return, yield, generator, "
                       "typed identity embeddings at several operator depths, condition positions) and the value / output / error "
                       "class compared; plus statement-form equivalences (increment forms, e op e vs t op t, negated if). Proved "
                       "on the semantics: PropC12.v. The compiled side is C01's open statement." %
                       (len(VALUE_CTX) + len(ASSIGN_CTX) + len(DISCARD_CTX) + len(COND_CTX) + 6),
        "evaluations": pairs + eqv,
        "distinct_nontrivial": len({e for _, e in cases}),
        "rule": "expressions from the typed generator (5%% and 35%% ill-typed streams) x all positions; non-trivial = distinct expressions",
        "traces_validated_against_impl": stats["sessions"],
        "samples": [cases[0][1], cases[1][1], sess[0][len(PRELUDE):len(PRELUDE) + 6]],
        "stats": dict(stats), "position_violations": nviol,
    })
    return run.finish()


def type_of(coqval):
    if coqval is None:
        return None
    for t, p in (("int", "(VInt"), ("float", "(VFloat"), ("str", "(VStr"), ("arr", "(VArr"), ("bool", "(VBool"), ("fun", "(VFun")):
        if coqval.startswith(p):
            return t
    return "nil"


def equivalences(run, rng, count):
    """x = x + 1 / x = 1 + x / t = x; x = t + 1;  e op e / t = e; t op t;  if !c A else B / if c B else A"""
    sess = []
    meta = []
    inits = ["0", "41", "9223372036854775807", "2.5", "\"s\"", "[1]", "true", "nosuch"]
    for init in inits:
        for place in ("top", "fn", "fn_closure", "loop"):
            forms = ["x = x + 1", "x = 1 + x", "t = x\nx = t + 1"]
            group = []
            for f in forms:
                if place == "top":
                    s = ["x = %s" % init] + f.split("\n") + ["x"]
                elif place == "fn":
                    s = ["ff = (x) -> {\n%s\nx\n}" % f, "ff(%s)" % init]
                elif place == "fn_closure":
                    s = ["mk = (x) -> () -> {\n%s\nx\n}" % f, "cl = mk(%s)" % init, "cl()"]
                else:
                    s = ["x = %s" % init, "for q <- fromto(0, 3) {\n%s\n}" % f, "x"]
                group.append(len(sess))
                sess.append(s)
            meta.append(("increment forms (%s, x = %s)" % (place, init), group))
    ops = ["+", "-", "*", "/", "%", "==", "<", "&", "|"]
    exprs = ["gi", "gi + gj", "ga[1]", "gs", "ga", "gf", "[gi, 2]", "#gs", "-gi", "gb", "gaa[0]", "(gi * 2)"]
    for k in range(count):
        e = rng.choice(exprs)
        op = rng.choice(ops)
        a = ["gi = 7", "gj = 3", "gf = 2.5", "gs = \"hey\"", "ga = [4, 5, 6]", "gb = true", "gaa = [[1, 2], [3]]"]
        s1 = a + ["(%s) %s (%s)" % (e, op, e)]
        s2 = a + ["t = %s" % e, "t %s t" % op]
        s3 = a + ["((%s) %s (%s)) %s (%s)" % (e, op, e, op, e)]
        s4 = a + ["t = %s" % e, "u = t %s t" % op, "u %s t" % op]
        meta.append(("e op e vs t op t (%s %s)" % (e, op), [len(sess), len(sess) + 1]))
        meta.append(("(e op e) op e vs via temporaries (%s %s)" % (e, op), [len(sess) + 2, len(sess) + 3]))
        sess += [s1, s2, s3, s4]
        c = rng.choice(["gb", "gi < gj", "gs == \"hey\"", "gi", "nosuch", "!gb"])
        A, B = rng.choice(["1", "gi + 1", "wr(1)"]), rng.choice(["2", "gs", "wr(2)"])
        pre = a + ["wr = (n) -> {\nwrite(n)\nn\n}"]
        meta.append(("if !c A else B vs if c B else A (%s)" % c, [len(sess), len(sess) + 1]))
        sess += [pre + ["if !(%s) %s else %s" % (c, A, B)], pre + ["if %s %s else %s" % (c, B, A)]]
    res = sessions.run_sessions(sess)
    viol = 0
    for what, group in meta:
        obs = []
        for k in group:
            rs = res[k].get("results", [])
            # the first failure decides; otherwise the last value (outputs concatenated)
            o = obs_of(rs[-1]) if rs else ("none?",)
            for st in rs:
                oo = obs_of(st)
                if oo[0] not in ("none", "?"):
                    o = (oo[0], None, ())
                    break
            obs.append(o)
            # an assignment of nil in the temporaries form is an error the direct form does not have
        if "t op t" in what or "temporaries" in what:
            first = res[group[0]].get("results", [])
            if first and obs_of(first[-1])[0] == "nil":
                continue   # e is nil: the direct form fails in the operator, the other already in the assignment; both nil errors
        if any(o != obs[0] for o in obs[1:]):
            if "increment" in what and len({o[0] for o in obs}) == 1 and obs[0][0] != "none":
                continue
            viol += 1
            if viol <= 3:
                run.violation({"what": "equivalent statement forms disagree: %s" % what,
                               "sessions": [sess[k] for k in group], "observed": obs})
    return len(sess), viol


def replay(path, seed):
    sesscheck.replay_session(PROP, path)
    return 0
