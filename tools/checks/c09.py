"""C09 — evaluation leaves the machine clean: no stack, frame or context residue."""
import json
import os
import random

import sessions
import vlib
from checks import common, sesscheck
from gen_prog import make_sessions

PROP = "C09"
LEVEL = "other"
MODULE = "PropC09"
THEOREMS = ["C09_error_leaves_clean_machine", "C09_growStack_only_grows", "C09_push_pop_balanced",
            "C09_pushframe_popframe_balanced", "C09_pure_expression_is_balanced", "C09_statement_is_balanced",
            "C09_statement_is_balanced_file_mode", "C09_definition_is_balanced",
            "C09_statement_leaves_top_level", "C09_definition_leaves_top_level"]

BODY_TAILS = [
    ("assign", "t = t + i"),
    ("binop", "t + i * 2"),
    ("const", "5"),
    ("call", "id(i)"),
    ("index", "[1, 2, 3][i % 3]"),
    ("if_noelse", "if i % 3 == 0 t = t + 1"),
    ("if_noelse_const", "if i % 2 == 0 5"),
    ("ifelse", "if i % 2 == 0 t else i"),
    ("while", "k = 0\nwhile k < 2 k = k + 1"),
    ("for", "for q <- fromto(0, 2) t = t + q"),
    ("for2", "for q, r <- fromto(0, 3), fromto(0, 2) q + r"),
    ("array", "[i, t]"),
    ("str", "toa(i) + \"x\""),
    ("neg", "-i"),
    ("not", "!(i < 0)"),
    ("nested_if", "if i > 1 {\nif i > 2 i else t\n}"),
    ("yield", "yield i"),
]

LOOPS = [
    ("while", "i = 0\nwhile i < %(n)d {\ni = i + 1\n%(tail)s\n}"),
    ("while_neg", "i = 0\nwhile !(i >= %(n)d) {\ni = i + 1\n%(tail)s\n}"),
    ("for", "for i <- fromto(0, %(n)d) {\n%(tail)s\n}"),
    ("for_zip", "for i, j <- fromto(0, %(n)d), fromto(0, %(n)d + 2) {\n%(tail)s\n}"),
    ("for_zip_short", "for j, i <- fromto(0, %(n)d + 3), fromto(0, %(n)d) {\n%(tail)s\n}"),
    ("for_gen", "for i <- evens(%(n)d) {\n%(tail)s\n}"),
]

POSITIONS = [
    ("top_used", "{\nt = 0\n%(loop)s\n}"),
    ("top_discarded", "{\nt = 0\n%(loop)s\nt\n}"),
    ("fn_returning", "{\nf = () -> {\nt = 0\n%(loop)s\n}\nf()\n}"),
    ("fn_discarded", "{\nf = () -> {\nt = 0\n%(loop)s\nt\n}\nf()\n}"),
    ("fn_early_return", "{\nf = () -> {\nt = 0\n%(loop)s\nreturn t\n0\n}\nf()\n}"),
    ("in_generator", "{\ng = () -> {\nt = 0\n%(loop)s\nyield t\n}\nfor v <- g() v\n}"),
    ("return_from_nested", "{\nf = () -> {\nt = 0\nfor a <- fromto(0, 3) {\n%(loop)s\nif a == 1 return t\n}\n}\nf()\n}"),
]

PRELUDE = ["id = (x) -> x", "evens = (n) -> {\nk = 0\nwhile k < n {\nyield k\nk = k + 1\n}\n}"]


def scaling_cases(rng, count):
    combos = [(p, l, b) for p in POSITIONS for l in LOOPS for b in BODY_TAILS]
    rng.shuffle(combos)
    return combos[:count]


def run(tier, seed):
    run = vlib.Run(PROP, LEVEL, tier, seed)
    vlib.build_harness()
    sesscheck.regen_builtins()
    problems = common.prepare(run, PROP, MODULE, THEOREMS)
    for p in problems:
        run.violation({"what": "proof obligation of C09 no longer checks", "broken": p}, no_failing_input=True)
    sesscheck.known_finding_lines(run, PROP)
    rng = random.Random(seed)

    # (1) residue after every statement of general sessions (both compile modes)
    n = 300 if tier == "quick" else 6000
    sess = make_sessions(seed + 9, n, "general")
    viol = 0
    evals = 0
    for nostck in (False, True):
        res = sessions.run_sessions(sess, nostck=nostck)
        for s, r in zip(sess, res):
            for k, st in enumerate(r.get("results", [])):
                evals += 1
                c = st.get("counters")
                if not c or st.get("parse_err") or st.get("panic"):
                    continue
                sp, frames, fplen, clos, stacklen, mip, ctxs, ncs, nds = c
                if (sp, frames, fplen, clos, ctxs) != (0, 0, 0, 0, 0) or mip != ncs:
                    viol += 1
                    if viol <= 3:
                        run.violation({"what": "machine not clean after statement %d (file mode=%s): sp=%d frames=%d closures=%d "
                                               "live contexts=%d, main ip=%d, code length=%d" % (k, nostck, sp, frames, clos, ctxs, mip, ncs),
                                       "session": s[:k + 1], "counters": c})
    # correspondence of the counters with the model (Run(true) mode)
    res, codes = sesscheck.evaluate(sess, name="C09")
    stats = sesscheck.classify(run, PROP, sess, res, codes, use_sem=False)

    # (2) loop scaling: the value stack must not grow with the iteration count
    ncombo = 120 if tier == "quick" else len(POSITIONS) * len(LOOPS) * len(BODY_TAILS)
    combos = scaling_cases(rng, ncombo)
    sizes = [1, 9, 400, 3000] if tier == "quick" else [1, 9, 400, 3000, 30000]
    scase, meta = [], []
    for (pn, ptxt), (ln, ltxt), (bn, btxt) in combos:
        if bn == "yield" and pn not in ("in_generator",):
            continue
        for nn in sizes:
            loop = ltxt % {"n": nn, "tail": btxt}
            scase.append(PRELUDE + [ptxt % {"loop": loop}, "1 + 1"])
            meta.append((pn, ln, bn, nn))
    sres = sessions.run_sessions(scase, timeout_ms=60000)
    base = {}
    sviol = 0
    for s, r, (pn, ln, bn, nn) in zip(scase, sres, meta):
        evals += 1
        rs = r.get("results", [])
        if r.get("hang") or len(rs) < len(s) or any(st.get("panic") for st in rs):
            sviol += 1
            if sviol <= 3:
                run.violation({"what": "loop program aborts or hangs (%s/%s/%s n=%d)" % (pn, ln, bn, nn), "session": s,
                               "result": rs[-1] if rs else r})
            continue
        c = rs[len(PRELUDE)].get("counters")
        sp, frames, fplen, clos, stacklen, mip, ctxs, ncs, nds = c
        key = (pn, ln, bn)
        if (sp, frames, clos, ctxs) != (0, 0, 0, 0):
            sviol += 1
            if sviol <= 3:
                run.violation({"what": "residue after a loop (%s/%s/%s n=%d): sp=%d frames=%d closures=%d contexts=%d" %
                                       (pn, ln, bn, nn, sp, frames, clos, ctxs), "session": s, "counters": c})
        if key not in base:
            base[key] = (nn, stacklen)
        elif stacklen != base[key][1]:
            sviol += 1
            if sviol <= 3:
                run.violation({"what": "the value stack grows with the iteration count (%s/%s/%s): length %d after n=%d "
                                       "but %d after n=%d" % (pn, ln, bn, base[key][1], base[key][0], stacklen, nn),
                               "session": s, "counters": c})
    run.cov.update({
        "explanation": "Residue counters (sp, frame depth, closure depth, live contexts, main ip) are read through the verif "
                       "accessors after every statement of generated sessions in both compile modes; loop programs "
                       "(%d position x loop x body-tail shapes x %s iterations) must leave the stack length independent of the "
                       "iteration count; the counters are also compared with the VM model. Proved in Coq: the model's error "
                       "reset leaves a clean machine; push/pop and frame push/pop are balanced in the memory model. The "
                       "stack-balance theorem over all compiled programs is not proved (partial)." % (len(base), sizes),
        "evaluations": evals,
        "distinct_nontrivial": len(base) + sesscheck.distinct_nontrivial(sess, res),
        "rule": "general sessions + loop-scaling programs; non-trivial = distinct loop shapes and distinct sessions that evaluate",
        "traces_validated_against_impl": stats["sessions"],
        "samples": [scase[0][-2], sess[0]],
        "stats": dict(stats), "residue_violations": viol, "scaling_violations": sviol,
    })
    return run.finish()


def replay(path, seed):
    sesscheck.replay_session(PROP, path)
    return 0
