"""C02 — for loops consume exactly what their iterators yield, lazily and in order."""
import json
import random

import vlib
from checks import common, sesscheck
from gen_prog import make_sessions, closure_loop_session

PROP = "C02"
LEVEL = "other"
MODULE = "PropC02"
THEOREMS = ["C02_naked_yield_is_identity", "C02_for1_is_bind_body_resume", "C02_no_yield_no_body",
            "C02_single_yield_single_body", "C02_return_in_body_abandons_generator",
            "C02_two_yields_two_bodies_in_order", "C02_error_in_resumed_generator",
            "C02_n_yields_n_bodies_in_order"]

LIB = [
    "mapg = (f, it) -> for e <- it() yield f(e)",
    "filterg = (p, it) -> for e <- it() if p(e) yield e",
    "takeg = (n, it) -> {\nc = 0\nfor e <- it() {\nif c >= n return 0\nc = c + 1\nyield e\n}\n}",
    "chaing = (ia, ib) -> {\nfor e <- ia() yield e\nfor e <- ib() yield e\n}",
    "zipg = (ia, ib) -> for a, b <- ia(), ib() yield [a, b]",
    "countg = (lo, hi) -> () -> fromto(lo, hi)",
    "listg = (a) -> () -> elems(a)",
    "collect = (it) -> {\nr = []\nfor e <- it() r = r + [e]\nr\n}",
    "sumg = (it) -> {\nt = 0\nfor e <- it() t = t + e\nt\n}",
    "tracing = (it) -> for e <- it() {\nwrite(\"<\" + toa(e) + \">\")\nyield e\n}",
    "sq = (x) -> x * x",
    "odd = (x) -> x % 2 == 1",
    "inc = (x) -> x + 1",
    "recg = (n) -> {\nif n <= 0 return 0\nyield n\nfor e <- recg(n - 1) yield e * 10\n}",
    "twice = (it) -> for e <- it() {\nyield e\nyield e + 100\n}",
    "echo = (it) -> for e <- it() {\nwrite(\"[\" + toa(e) + \"]\")\nyield e\n}",
]


def source(rng, depth):
    """an expression for a thunk that, when called, runs a generator"""
    if depth <= 0 or rng.random() < 0.3:
        c = rng.random()
        if c < 0.5:
            return "countg(%d, %d)" % (rng.randint(0, 3), rng.randint(0, 7))
        if c < 0.8:
            return "listg([%s])" % ", ".join(str(rng.randint(0, 9)) for _ in range(rng.randint(0, 5)))
        return "() -> recg(%d)" % rng.randint(0, 4)
    c = rng.random()
    inner = source(rng, depth - 1)
    if c < 0.22:
        return "() -> mapg(%s, %s)" % (rng.choice(["sq", "inc"]), inner)
    if c < 0.4:
        return "() -> filterg(odd, %s)" % inner
    if c < 0.52:
        return "() -> takeg(%d, %s)" % (rng.randint(0, 4), inner)
    if c < 0.66:
        return "() -> chaing(%s, %s)" % (inner, source(rng, depth - 1))
    if c < 0.8:
        return "() -> mapg((p) -> p[0] * 10 + p[1], () -> zipg(%s, %s))" % (inner, source(rng, depth - 1))
    if c < 0.88:
        return "() -> tracing(%s)" % inner
    if c < 0.94:
        return "() -> twice(%s)" % inner
    return "() -> echo(%s)" % inner


def consumer(rng, src):
    c = rng.random()
    if c < 0.3:
        return ["collect(%s)" % src]
    if c < 0.45:
        return ["sumg(%s)" % src]
    if c < 0.6:
        return ["for e <- (%s)() {\nwrite(e)\nwrite(\" \")\ne\n}" % src.replace("() -> ", "", 1) if False else
                "it = %s" % src, "for e <- it() {\nwrite(e)\nwrite(\" \")\ne\n}"]
    if c < 0.7:
        return ["it = %s" % src, "jt = %s" % source(rng, 1),
                "for a, b <- it(), jt() write(toa(a) + \":\" + toa(b) + \" \")", "a", "b"]
    if c < 0.8:
        return ["it = %s" % src, "{\nr = []\nfor a <- it() {\nfor b <- fromto(0, 2) r = r + [[a, b]]\n}\nr\n}"]
    if c < 0.9:
        return ["it = %s" % src, "ff = () -> {\nfor e <- it() if e > 2 return e\n0 - 1\n}", "[ff(), ff()]"]
    return ["it = %s" % src, "deepc = (n) -> if n <= 0 collect(it) else deepc(n - 1)", "deepc(%d)" % rng.choice([1, 7, 40])]


def generator_session(rng):
    s = list(LIB)
    for _ in range(rng.randint(2, 5)):
        s.extend(consumer(rng, source(rng, rng.randint(0, 4))))
    return s


def run(tier, seed):
    run = vlib.Run(PROP, LEVEL, tier, seed)
    vlib.build_harness()
    sesscheck.regen_builtins()
    problems = common.prepare(run, PROP, MODULE, THEOREMS)
    for p in problems:
        run.violation({"what": "proof obligation of C02 no longer checks", "broken": p}, no_failing_input=True)
    rng = random.Random(seed)
    n = 150 if tier == "quick" else 4000
    sess = [generator_session(rng) for _ in range(n)] + [closure_loop_session(rng) for _ in range(n // 2)] + \
        make_sessions(seed + 2, n // 2, "generators")
    res, codes = sesscheck.evaluate(sess, name="C02", shard=12)
    stats = sesscheck.classify(run, PROP, sess, res, codes)
    nf = 0
    for i, r in enumerate(res):
        for kind, at, text in sesscheck.go_problems(r)[:1]:
            if kind == "panic" and nf < 3:
                nf += 1
                run.violation({"what": "the interpreter aborted in a generator program (statement %d): %s" % (at, text),
                               "session": sess[i] if res[i].get("crash") else sess[i][:at + 1]})
    run.cov.update({
        "explanation": "Generator-heavy sessions run on the real code and compared inside Coq with the definitional semantics "
                       "(values, loop variables after the loop, interleaved write output of generator and body, error class) and "
                       "with the VM model: towers of map/filter/take/chain/zip/trace/twice/echo over counting, list and recursive "
                       "generators to depth 4, consumed by collect/sum/for/zip/nested loops/early return/deep recursion; closure "
                       "instances with loops in one statement; the generator profile of the program generator. Proved on Sem: "
                       "PropC02.v (uses functional extensionality). Not proved: the context machinery of the VM implements it.",
        "evaluations": stats["statements"],
        "distinct_nontrivial": sesscheck.distinct_nontrivial(sess, res),
        "rule": "generated generator towers and consumers; non-trivial = distinct sessions in which a statement evaluates",
        "traces_validated_against_impl": stats["sessions"],
        "samples": [sess[0][len(LIB):], sess[n][:]],
        "input_distribution": sesscheck.distribution(sess, res), "stats": dict(stats),
    })
    return run.finish()


def replay(path, seed):
    sesscheck.replay_session(PROP, path)
    return 0
