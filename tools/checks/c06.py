"""C06 — the front end is total: any text is parsed or rejected, in finite time."""
import json
import os
import random
import subprocess

import vlib
from checks import common
from checks.c14 import bt
import lexgen
import gen_prog

PROP = "C06"
LEVEL = "other"
MODULE = "PropC06"
THEOREMS = ["C06_lexer_next_terminates", "C06_new_lexer_wf", "C06_next_keeps_wf", "C06_eof_forces_progress",
            "C06_spans_inside_input", "C06_only_eof_state_can_abort", "C06_parser_total",
            "C06_program_never_out_of_fuel", "C06_successful_parse_consumes_a_token"]


def special_inputs(tier):
    depth = 10000 if tier == "quick" else 100000
    sp = [
        "", " ", "\n", "\n\n\n", ";", "; note", "1 ; note", "\"abc", "\"abc\\", "\"", "\\", "1 +", "(", ")", "{", "}", "[", "]",
        "a = ", "if", "if 1", "for", "for i <-", "for i, j <- a", "return", "yield", "(a, b", "f(", "f(1,", "a[", "a[1:", "a[1 2]",
        "1 2", "a b", "else", "-> 1", "() ->", "12££12", "1\x002", "\x00", "\xff\xfe", "é", "a\r\nb", "1.", "1..2", ".5", "1.2.3",
        "9" * 19, "9" * 20, "9" * 400, "1." + "0" * 400, "9" * 310 + ".5", "2" + "0" * 308 + ".0", "a" * 5000,
        "\"" + "x" * 5000 + "\"", "1" + " + 1" * 3000, "(" * depth + "1" + ")" * depth, "[" * 2000 + "]" * 2000,
        "-" * 3000 + "1", "!" * 3000 + "true", "a" + "[0]" * 3000, "{\n" * 300 + "1" + "\n}" * 300,
        "f(" * 2000 + "1" + ")" * 2000, "{\n1\n2\n\n}", "if true {\n1\n}\nelse 2", "x = x + 1 }", "a[1\n]",
        "write(7)\n2 +", "((((", "))))", "\"a\nb\"", "\"\\n\"", "1 ;" + "z" * 3000, "a = = 1", "true = false", "if = 3",
    ]
    return sp


def run(tier, seed):
    run = vlib.Run(PROP, LEVEL, tier, seed)
    vlib.build_harness()
    vlib.build_calc()
    problems = common.prepare(run, PROP, MODULE, THEOREMS)
    for p in problems:
        run.violation({"what": "proof obligation of C06 no longer checks", "broken": p}, no_failing_input=True)
    for f in vlib.open_findings(PROP):
        run.known_finding("%s: %s" % (f["id"], f["what"]))
    rng = random.Random(seed)
    inputs = [lexgen.src_bytes(s) for s in special_inputs(tier)]
    for s in lexgen.exhaustive(3 if tier == "quick" else 4):
        inputs.append(lexgen.src_bytes(s))
    nrand = 6000 if tier == "quick" else 300000
    for _ in range(nrand):
        c = rng.random()
        if c < 0.55:
            inputs.append(lexgen.src_bytes(lexgen.random_source(rng, rng.randint(1, 20))))
        elif c < 0.8:
            inputs.append(lexgen.src_bytes(lexgen.random_bytes(rng, rng.randint(1, 30))))
        else:
            # a valid-looking program with one byte damaged
            base = lexgen.src_bytes(lexgen.random_source(rng, rng.randint(3, 20)))
            if base:
                base[rng.randrange(len(base))] = rng.choice([0, 10, 34, 59, 92, 123, 125, 255, 40, 41])
            inputs.append(base)
    # generated programs: whole, cut short at every kind of place, one byte damaged, two glued together
    nprog = 150 if tier == "quick" else 3000
    for sess in gen_prog.make_sessions(seed, nprog, "general", 1, 3):
        for st in sess:
            b = list(st.encode())
            inputs.append(b)
            for _ in range(4):
                inputs.append(b[:rng.randrange(len(b) + 1)])
            for _ in range(3):
                d = list(b)
                d[rng.randrange(len(d))] = rng.choice(list(b"\x00\n\";\\{}()[],:<-> =!") + [255, 0xc3])
                inputs.append(d)
            d = list(b)
            del d[rng.randrange(len(d))]
            inputs.append(d)
    outs = vlib.run_harness("parse", [{"input": i, "notree": True, "timeout_ms": 20000 if len(i) > 5000 else 3000} for i in inputs],
                            timeout=7200)
    nviol = 0
    stats = {"accepted": 0, "rejected": 0}

    def viol(what, inp, o):
        nonlocal nviol
        nviol += 1
        if nviol <= 5:
            run.violation({"what": what, "input_bytes": inp if len(inp) < 400 else inp[:200] + ["..."] + inp[-100:],
                           "input_length": len(inp), "input_text": bytes(inp[:300]).decode("latin-1"), "observed": {k: v for k, v in o.items() if k != "report"}})

    for inp, o in zip(inputs, outs):
        n = len(inp)
        if o.get("hang"):
            viol("the front end does not finish on this input", inp, o)
            continue
        if o.get("crash") or o.get("panic"):
            viol("the front end aborts on this input: %s" % (o.get("panic") or o.get("fatal")), inp, o)
            continue
        if "err" in o:
            stats["rejected"] += 1
            e = o["err"]
            if not (0 <= e["from"] <= e["to"] <= n):
                viol("the reported error span [%d, %d) does not lie inside the input of length %d" % (e["from"], e["to"], n), inp, o)
            if o.get("report_panic"):
                viol("displaying the error with its caret line failed: %s" % o["report_panic"], inp, o)
            if o.get("process_panic"):
                viol("processing the rejected input aborted: %s" % o["process_panic"], inp, o)
            if o.get("code_added") or not o.get("process_out_is_report"):
                viol("part of a rejected input was compiled or executed (code added: %s, output is only the report: %s)" %
                     (o.get("code_added"), o.get("process_out_is_report")), inp, o)
        else:
            stats["accepted"] += 1
    # the grammar model (about which totality is proved) against parser.Parse on a sample of these inputs
    small = [i for i in inputs if len(i) <= 120]
    sample = rng.sample(small, min(len(small), 900 if tier == "quick" else 20000))
    souts = vlib.run_harness("parse", [{"input": i, "timeout_ms": 5000} for i in sample], timeout=7200)
    import treegen
    sterms = ["(%s, %s)" % (treegen.coq_str(bytes(i)), "(Some [" + ";".join(o["trees"]) + "])" if "trees" in o else "(@None (list node))")
              for i, o in zip(sample, souts)]
    scodes = vlib.coq_eval_codes("c06p", ["Base", "Bytecode", "Value", "FloatText", "Ast", "Lexer", "Grammar", "Printer", "CorrParse"],
                                 sterms, "chk_parse", shard=150)
    for k in sorted(scodes)[:3]:
        nviol += 1
        run.violation({"what": "parser.Parse and the grammar model (Grammar.v) differ on this input (code %d): the totality "
                               "theorem no longer speaks about the code" % scodes[k], "input_bytes": sample[k],
                       "input_text": bytes(sample[k]).decode("latin-1"), "observed": souts[k]}, no_failing_input=True)
    # -eval: nothing of an input with a syntax error is run
    ev = 0
    for src in ["write(7)\n2 +", "write(7) )", "write(1) write(2) +", "{\nwrite(3)\n", "write(5) \"abc"]:
        p = subprocess.run([vlib.CALC_BIN, "-eval", src], stdout=subprocess.PIPE, stderr=subprocess.PIPE, timeout=30)
        ev += 1
        out = p.stdout.decode("latin-1")
        if p.returncode != 0 or any(d in out.split("\n")[0] for d in []) or any(out.startswith(x) or ("\n" + x) in out for x in ["7", "1", "3", "5"]):
            viol("-eval ran part of an input that has a syntax error (or failed): exit %d, output %r" % (p.returncode, out[:200]),
                 list(src.encode()), {})
    run.cov.update({
        "explanation": "parser.Parse, the error display and processInput are run (time limit, panics recovered, fatal crashes "
                       "detected) on: %d hand-picked hostile inputs (unterminated strings/comments, NUL, invalid UTF-8, literals of "
                       "400 digits, nesting depth %d, every construct cut short), all strings up to length %d over a 16-class "
                       "alphabet, and %d random inputs (token soup, random bytes, damaged programs). For every rejected input: span "
                       "inside the input, report printable, nothing compiled or executed; -eval likewise. Proved: the lexer model "
                       "terminates and stays well formed on every input and the grammar model never exhausts its fuel (PropC06.v); K3 (Go stack limit at "
                       "about 10^6 nested brackets) is a known finding." %
                       (len(special_inputs(tier)), 10000 if tier == "quick" else 100000, 3 if tier == "quick" else 4, nrand),
        "evaluations": len(inputs) + ev,
        "distinct_nontrivial": len({bytes(i) if all(isinstance(x, int) for x in i) else b"" for i in inputs}),
        "rule": "inputs as described; every input is a non-trivial case for totality; distinct by bytes",
        "samples": [bytes(inputs[5]).decode("latin-1"), bytes(inputs[-1]).decode("latin-1")],
        "outcomes": stats, "violations_found": nviol,
    })
    return run.finish()


def replay(path, seed):
    d = json.load(open(path))
    vlib.build_harness()
    if "input_bytes" in d and "..." not in d["input_bytes"]:
        print(json.dumps(vlib.run_harness("parse", [{"input": d["input_bytes"], "notree": True}]), indent=1)[:3000])
    return 0
