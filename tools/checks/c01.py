"""C01 — compiled execution matches the definitional semantics of the language."""
import json
import os

import vlib
from checks import common, sesscheck
from gen_prog import make_sessions
import sessions

PROP = "C01"
LEVEL = "other"
MODULE = "PropC01"
THEOREMS = ["C01_sem_binop_left_error", "C01_sem_binop_right_error", "C01_sem_binop_values",
            "C01_sem_if_false_is_nil", "C01_sem_ifelse", "C01_sem_condition_must_be_bool",
            "C01_sem_while_false_is_nil", "C01_sem_while_condition_must_be_bool", "C01_sem_block_cons",
            "C01_sem_block_stops", "C01_sem_assign_nil", "C01_sem_assign_global", "C01_sem_return",
            "C01_sem_call_non_function", "C01_pure_expressions_partial", "C01_pure_expression_run",
            "C01_pure_expression_in_a_session", "C01_sem_pure", "C01_sem_simple", "C01_simple_statement",
            "C01_simple_sessions_partial", "C01_sem_statement", "C01_statement_compiled", "C01_statement_run",
            "C01_statement_run_file_mode", "C01_statement_sessions_partial", "C01_statement_worlds_related",
            "C01_statement_sem_vs_vm", "C01_body_expression_compiled", "C01_sem_body_expression",
            "C01_user_call_compiled", "C01_definition_compiled_and_run", "C01_definition_extends_the_table",
            "C01_sem_definition", "C01_sessions_with_definitions_partial", "C01_sem_counter_monotone",
            "C01_sessions_sem_vs_vm_partial", "C01_meaning_is_stable_in_fuel", "C01_meaning_is_unique",
            "C01_checked_machine_meets_the_premise", "C01_counted_trees_are_covered",
            "C01_counted_trees_are_covered_sem_vs_vm"]

CORPUS = [
    # witnesses of defects repaired in /repo (they stay in the corpus)
    ["a = [5, 6, 7]", "i = 0", "a[i+1] + 1", "[1+2] + [3]"],
    ["g + 1/0", "(g + 1/0) * 2", "if !g 1 else 2", "x = !g"],
    ["1 % 0", "([1][0] + [1][0]) * 1"],
    ["f = (c) -> {\nwhile c {\nx = 1\nreturn x\n}\n}", "f(true)", "f(false)"],
    ["inner = () -> yield 7", "gen = () -> {\ninner() + 100\n}", "for v <- gen() {\nw = (1 + 2) * 3\nv\n}"],
    ["mk = (k) -> () -> {\ns = 0\nfor i <- fromto(0, k) s = s + i\ns\n}", "a = mk(3)", "b = mk(5)", "[a(), b()]"],
    ["f = (n) -> n*2+1", "a = 3", "b = 4", "a + b + [10,20,30][f(0)]", "(a+b) % f(6)"],
    ["for i, j <- fromto(0,5), fromto(0,2) i + j", "i", "j"],
    ["x = 5", "f = () -> {\nx = x + 1\nx\n}", "f()", "x"],
    ["count = (n) -> {\ni = 0\ns = 0\nwhile i < n {\ni = i + 1\nif i % 3 == 0 s = s + 1\n}\n}", "count(10)"],
]


def run(tier, seed):
    run = vlib.Run(PROP, LEVEL, tier, seed)
    vlib.build_harness()
    sesscheck.regen_builtins()
    problems = common.prepare(run, PROP, MODULE, THEOREMS)
    for p in problems:
        run.violation({"what": "proof obligation of C01 no longer checks", "broken": p}, no_failing_input=True)
    sesscheck.known_finding_lines(run, PROP)

    n = 500 if tier == "quick" else 12000
    corpus = [] if os.environ.get("VERIF_NO_CORPUS") else CORPUS
    sess = corpus + make_sessions(seed, n, "general")
    res, codes = sesscheck.evaluate(sess, name="C01")
    stats = sesscheck.classify(run, PROP, sess, res, codes)
    for i, r in enumerate(res):
        for kind, at, text in sesscheck.go_problems(r)[:1]:
            if kind in ("panic", "hang") and stats["reported_faults"] < 3:
                stats["reported_faults"] += 1
                run.violation({"what": "the interpreter %s on a parseable program (statement %d): %s" % (kind, at, text),
                               "session": sess[i]})
    # programs of the fragment for which compiler correctness is PROVED (StmtTop.v): run on the real code in both
    # compile modes, compared with Sem and the VM model like all others; and the theorems' premises (wstmt, wfb) are
    # evaluated in Coq on the trees the Go parser produced
    import gen_frag
    fsess = gen_frag.sessions(seed, 120 if tier == "quick" else 3000)
    frag = {"sessions": len(fsess)}
    for mode, nostck in (("value_mode", False), ("file_mode", True)):
        # file mode yields no values: there the runs are compared with the VM model in the same mode only
        fres, fcodes = sesscheck.evaluate(fsess, nostck=nostck, name="C01f" + mode[:1],
                                          fn="chk_session_nostck" if nostck else "chk_session_both")
        fstats = sesscheck.classify(run, PROP, fsess, fres, fcodes)
        frag[mode] = {k: fstats[k] for k in ("sessions", "statements") if k in fstats}
        for i, r in enumerate(fres):
            for kind, at, text in sesscheck.go_problems(r)[:1]:
                if kind in ("panic", "hang") and stats["reported_faults"] < 3:
                    stats["reported_faults"] += 1
                    run.violation({"what": "the interpreter %s on a program of the proven fragment (statement %d): %s"
                                           % (kind, at, text), "session": fsess[i], "mode": mode})
        if not nostck:
            terms = [sessions.session_case_term(r) for r in fres]
            cov = vlib.coq_eval_codes("C01frag", sesscheck.IMPORTS + ["StmtSem", "CorrFragment"], terms, "chk_fragment", shard=40)
            inside = sum((c // 100000) % 100000 for c in cov.values())
            total = sum(c % 100000 for c in cov.values())
            frag["trees"] = total
            frag["trees_inside_proven_fragment"] = inside
            frag["trees_covered_by_the_session_theorem"] = sum((c // 10**10) % 10**5 for c in cov.values())
            frag["trees_covered_by_the_sem_vs_vm_session_theorem"] = sum(c // 10**15 for c in cov.values())
    gterms = [sessions.session_case_term(r) for r in res]
    gcov = vlib.coq_eval_codes("C01gfrag", sesscheck.IMPORTS + ["StmtSem", "CorrFragment"], gterms, "chk_fragment", shard=40)
    frag["general_trees"] = sum(c % 100000 for c in gcov.values())
    frag["general_trees_inside_proven_fragment"] = sum((c // 100000) % 100000 for c in gcov.values())
    frag["general_trees_covered_by_the_session_theorem"] = sum((c // 10**10) % 10**5 for c in gcov.values())
    frag["general_trees_covered_by_the_sem_vs_vm_session_theorem"] = sum(c // 10**15 for c in gcov.values())
    stats["proven_fragment"] = frag
    run.cov.update({
        "explanation": "The property itself (compiler+VM agree with the language semantics on every program) is NOT proved; "
                       "it is decided by differential testing against two Coq artefacts: coq/Sem.v (definitional semantics, "
                       "whose rules are proved to be the documented ones: %d theorems) and the compiler/VM model. "
                       "%d sessions (%d statements) were run on the real code and evaluated in Coq on both. "
                       "For the while-language over globals with calls of the built-ins write/toa/aton/read and their I/O, definitions of "
                       "functions whose body is a pure expression of the parameters and globals, and calls of those functions, the "
                       "property IS proved on the models, for whole sessions, between the two functions this check evaluates (sem_tree and "
                       "run_tree: C01_sessions_sem_vs_vm_partial; C01_sessions_with_definitions_partial for the compiled side alone); "
                       "%d further sessions of that fragment were run in value mode and file mode, and Coq evaluated the theorems' "
                       "premises on the parsed trees: %d of %d trees of those sessions and %d of %d trees of the general sessions "
                       "meet the premises the theorems put on trees; %d and %d of them are COVERED by the compiled-side session theorem "
                       "(C01_sessions_with_definitions_partial) in the sense of C01_counted_trees_are_covered: the machine their session "
                       "reaches after its first tree passes the sound check of the machine premise (start_ok; the first run also executes "
                       "the definitions of the built-ins and is not covered), and they lie in the prefix of the remaining trees all of "
                       "which meet the premises on trees; %d and %d are covered in the same sense by the Sem-vs-VM session theorem "
                       "(C01_sessions_sem_vs_vm_partial, C01_counted_trees_are_covered_sem_vs_vm: the Sem state and the machine after the "
                       "first tree also pass the sound checks of that theorem's premises on the two states, start_ok2)." %
                       (len(THEOREMS), stats["sessions"], stats["statements"], frag["sessions"],
                        frag.get("trees_inside_proven_fragment", 0), frag.get("trees", 0),
                        frag["general_trees_inside_proven_fragment"], frag["general_trees"],
                        frag.get("trees_covered_by_the_session_theorem", 0),
                        frag["general_trees_covered_by_the_session_theorem"],
                        frag.get("trees_covered_by_the_sem_vs_vm_session_theorem", 0),
                        frag["general_trees_covered_by_the_sem_vs_vm_session_theorem"]),
        "evaluations": stats["statements"],
        "distinct_nontrivial": sesscheck.distinct_nontrivial(sess, res),
        "rule": "sessions of 3-10 top-level statements from a grammar-directed, scope-tracking, terminating generator "
                "(profile general) plus a corpus of %d witness sessions; non-trivial = distinct sessions in which at least "
                "one statement evaluates to a value" % len(CORPUS),
        "traces_validated_against_impl": stats["sessions"],
        "samples": [sess[len(corpus)], sess[-1]],
        "input_distribution": sesscheck.distribution(sess, res),
        "stats": dict(stats),
    })
    run.assumptions = ["sessions that trigger the model's staleness events are attributed to the open findings K1/K2 only "
                       "when the implementation disagrees with the semantics on them",
                       "the session theorems for calls carry the premise that the code of the built-ins and of the user functions "
                       "lies at their entry points (bcode): for the user functions it is PROVED from the definition itself "
                       "(C01_definition_extends_the_table: running f = (params) -> pure expression leaves a machine that meets it under "
                       "the table with one more entry), for the built-ins it is discharged by computation on the machine after "
                       "builtin.Load and a first statement (C01_builtin_premises_hold, C01_builtin_machine_is_at_top_level) and, per generated session, by the sound checker start_ok; the 'inside the proven fragment' "
                       "count evaluates the premises of C01_sessions_with_definitions_partial on every parsed tree"]
    return run.finish()


def replay(path, seed):
    sesscheck.replay_session(PROP, path)
    return 0
