"""C10 — values are immutable: operations never alter operands or program constants."""
import json
import random
import re

import sessions
import vlib
from checks import common, sesscheck

PROP = "C10"
LEVEL = "proof"
MODULE = "PropC10"
THEOREMS = ["C10_existing_values_never_change", "C10_step_touches_nothing_existing", "C10_without_copy_refuted",
            "C10_program_constants_never_change", "C10_constant_read_is_stable"]
IMPORTS = ["Base", "Bytecode", "Value", "Slice", "CorrSlice"]


# ---------- part A: sequences of operations on value.Type ----------
def gen_seq(rng, n):
    """operations over a growing pool; tracks which pool entries are arrays and their lengths"""
    pool = []      # ("arr", len) | ("other",)
    ops = []

    def arrays(minlen=0):
        return [i for i, p in enumerate(pool) if p[0] == "arr" and p[1] >= minlen]

    def lit():
        k = rng.choice([0, 1, 2, 3, 3, 4, 5, 7, 8, 9])
        ops.append({"op": "lit", "vals": [rng.randrange(100) for _ in range(k)]})
        pool.append(("arr", k))

    lit()
    lit()
    while len(ops) < n:
        c = rng.random()
        A = arrays()
        if c < 0.12 or not A:
            lit()
        elif c < 0.5:
            # concatenation; often the same base again, or a slice that stops short of its parent's end
            a = rng.choice(A[-6:] if rng.random() < 0.6 else A)
            b = rng.choice(A)
            ops.append({"op": "concat", "a": a, "b": b})
            pool.append(("arr", pool[a][1] + pool[b][1]))
        elif c < 0.75:
            a = rng.choice(A)
            l = pool[a][1]
            i = rng.randint(0, l)
            j = rng.randint(i, l)
            if rng.random() < 0.5 and l > 0:
                i, j = 0, rng.randint(0, l - 1)      # a prefix that leaves room behind it
            ops.append({"op": "sub", "a": a, "i": i, "j": j})
            pool.append(("arr", j - i))
        elif c < 0.85:
            A1 = arrays(1)
            if not A1:
                continue
            a = rng.choice(A1)
            i = rng.randrange(pool[a][1])
            ops.append({"op": "index", "a": a, "i": i})
            pool.append(("unknown",))          # an int or a nested array: resolved after the run
        else:
            xs = [rng.randrange(len(pool)) for _ in range(rng.randint(0, 4))]
            ops.append({"op": "pack", "xs": xs})
            pool.append(("arr", len(xs)))
    return ops


def run_seqs(seqs):
    """run op sequences; 'index' results of unknown kind are resolved by running prefix by prefix:
    simpler: generate, run, and drop the operations that used a non-array operand (the Go result tells)"""
    outs = vlib.run_harness("valseq", [{"ops": s} for s in seqs], timeout=3600)
    return outs


def fix_seq(rng, n):
    """generate a sequence in which every operand that must be an array is one: run the real code to
    learn what 'index' returned, regenerate the tail if needed"""
    ops = gen_seq(rng, n)
    return ops


def model_terms(ops, results):
    """Coq operation list with capacity oracles taken from the observed capacities, and the observations"""
    lens = []
    caps = []
    isarr = []
    mops = []
    obs = []
    for o, r in zip(ops, results):
        arr = "len" in r
        l, c = (r["len"], r["cap"]) if arr else (0, 0)
        k = o["op"]
        if k == "lit":
            mops.append("OLit [%s]" % ";".join("VInt %d" % v for v in o["vals"]))
        elif k == "concat":
            la, lb = lens[o["a"]], lens[o["b"]]
            if not (isarr[o["a"]] and isarr[o["b"]]):
                return None
            if lb == 0:
                mops.append("OConcat %d %d %d 0" % (o["a"], o["b"], max(c - la, 0)))
            else:
                mops.append("OConcat %d %d 0 %d" % (o["a"], o["b"], max(c - (la + lb), 0)))
        elif k == "sub":
            if not isarr[o["a"]]:
                return None
            mops.append("OSub %d %d %d" % (o["a"], o["i"], o["j"]))
        elif k == "index":
            if not isarr[o["a"]]:
                return None
            mops.append("OIndex %d %d" % (o["a"], o["i"]))
        elif k == "pack":
            mops.append("OPack [%s]%%nat %d" % (";".join(str(x) for x in o["xs"]), max(c - len(o["xs"]), 0)))
        lens.append(l)
        caps.append(c)
        isarr.append(arr)
        obs.append("(%s, %d%%nat, %d%%nat)" % (r["val"], l, c))
    return mops, obs


# ---------- part B: programs ----------
VARS = ["a", "b", "c", "d", "e", "s", "t", "u"]

DEFS = [
    "mk = () -> [1, 2, 3]",
    "mkx = (x) -> [1, x, 3]",
    "ext = (p, v) -> p + [v]",
    "paths = (p, n) -> if n == 0 [p] else paths(p + [0], n - 1) + paths(p + [1], n - 1)",
    "holder = (arr) -> () -> arr",
    "gen = (arr) -> for x <- elems(arr) yield arr + [x]",
    "collect = (it) -> {\nr = []\nfor v <- it() r = r + [v]\nr\n}",
    "twice = (f) -> [f(), f()]",
    "word = () -> \"hello\"",
    "rec = (n) -> if n == 0 [0] else rec(n - 1) + [n]",
    "first = (arr, n) -> arr[0:n]",
]


def arr_expr(rng, env, depth=0):
    """an expression of array type over the variables of env (name -> kind)"""
    arrs = [v for v, k in env.items() if k == "arr"]
    c = rng.random()
    if depth > 2 or not arrs or c < 0.12:
        k = rng.randint(0, 5)
        if rng.random() < 0.3 and arrs:
            return "[%s]" % ", ".join(rng.choice([str(rng.randrange(9)), "#" + rng.choice(arrs), rng.choice(arrs)]) for _ in range(k))
        return "[%s]" % ", ".join(str(rng.randrange(50)) for _ in range(k))
    if c < 0.3:
        return rng.choice(arrs)
    if c < 0.5:
        # a chain of concatenations in one expression (compiled with the temp register)
        n = rng.randint(2, 4)
        return " + ".join(arr_expr(rng, env, depth + 2) for _ in range(n))
    if c < 0.7:
        v = rng.choice(arrs)
        i = rng.randint(0, 2)
        return "%s[%d:%s]" % (v, 0 if rng.random() < 0.6 else i, rng.choice(["#%s" % v, "#%s / 2" % v, "#%s - 1" % v]))
    if c < 0.78:
        return "ext(%s, %d)" % (rng.choice(arrs), rng.randrange(90))
    if c < 0.84:
        return "mk()" if rng.random() < 0.5 else "mkx(%d)" % rng.randrange(9)
    if c < 0.9:
        return "first(%s, #%s / 2)" % ((rng.choice(arrs),) * 2)
    if c < 0.95:
        return "collect(() -> gen(%s))" % rng.choice(arrs)
    return "holder(%s)()" % rng.choice(arrs)


def str_expr(rng, env):
    strs = [v for v, k in env.items() if k == "str"]
    c = rng.random()
    if not strs or c < 0.3:
        return '"%s"' % rng.choice(["", "a", "hello", "abcdef", "xyzzy"])
    v = rng.choice(strs)
    if c < 0.6:
        return "%s + %s" % (v, str_expr(rng, env))
    if c < 0.8:
        return "%s[0:#%s / 2]" % (v, v)
    return "word() + %s" % v


def gen_session(rng, n):
    env = {}
    sess = list(DEFS)
    meta = [None] * len(sess)      # assigned variable per statement
    for _ in range(n):
        c = rng.random()
        v = rng.choice(VARS)
        if c < 0.6:
            e = arr_expr(rng, env)
            sess.append("%s = %s" % (v, e))
            env[v] = "arr"
            meta.append(v)
        elif c < 0.7:
            e = str_expr(rng, env)
            sess.append("%s = %s" % (v, e))
            env[v] = "str"
            meta.append(v)
        elif c < 0.8 and any(k == "arr" for k in env.values()):
            src = rng.choice([x for x, k in env.items() if k == "arr"])
            # same base extended repeatedly, earlier results kept
            sess.append("%s = {\nrows = []\nfor i <- fromto(0, %d) rows = rows + [%s + [i]]\nrows\n}" % (v, rng.randint(2, 5), src))
            env[v] = "arr"
            env["rows"] = "arr"
            meta.append((v, "rows"))
        elif c < 0.86:
            sess.append("%s = paths([], %d)" % (v, rng.randint(1, 4)))
            env[v] = "arr"
            meta.append(v)
        elif c < 0.92 and any(k == "arr" for k in env.values()):
            src = rng.choice([x for x, k in env.items() if k == "arr"])
            # pure expression statements: must change nothing
            sess.append(rng.choice(["%s + [7] + [8]" % src, "twice(() -> %s + [1])" % src, "for x <- elems(%s) %s + [x]" % (src, src),
                                    "ext(%s[0:#%s / 2], 5) + %s" % (src, src, src), "rec(6)"]))
            meta.append(None)
        else:
            sess.append("%s = rec(%d)" % (v, rng.randint(1, 9)))
            env[v] = "arr"
            meta.append(v)
    return sess, meta


def with_dumps(sess, meta):
    """after every statement, one that renders every variable seen so far"""
    out = []
    kinds = []
    seen = []
    for s, m in zip(sess, meta):
        out.append(s)
        kinds.append(("stmt", m))
        if m is not None:
            for v in (m if isinstance(m, tuple) else (m,)):
                if v not in seen:
                    seen.append(v)
        if seen:
            out.append("[%s]" % ", ".join("toa(%s)" % v for v in seen))
            kinds.append(("dump", list(seen)))
    return out, kinds


FIXED = [
    # (session, description): the classic sharing shapes
    (["a = [1, 2, 3, 4, 5]", "b = a[0:2] + [9] + a[2:5]", "toa(a)"], "slice short of its parent's end extended by a chain"),
    (["base = [1, 2, 3] + [4]", "d = base + [5]", "e = base + [6]", "toa(d)"], "same base extended twice"),
    (["x = 7", "a = [1, 2, x]", "d = a + [5]", "e = a + [6]", "[toa(d), toa(e), toa(a)]"], "computed literal extended twice"),
    (["mk = () -> [1, 2, 3]", "a = mk()", "b = a + [4] + [5]", "c = mk()", "[toa(a), toa(c)]"], "literal in a function"),
    (["f = (n) -> {\nl = [1, 2]\nif n == 0 l else f(n - 1) + l + [n]\n}", "f(3)", "f(3)"], "literal in a recursive function"),
    (["s = \"hello\"", "t = s[0:2] + \"y\" + s[2:5]", "[s, t]"], "string slices"),
    (["a = [[1, 2], [3]]", "b = a[0] + [9] + a[1]", "toa(a)"], "nested arrays"),
    (["a = [1, 2, 3, 4]", "k = () -> a", "b = k()[0:2] + [7] + [8]", "toa(a)"], "array captured by a closure"),
    (["a = [1, 2, 3, 4]", "g = () -> for i <- fromto(0, 3) yield a[0:i] + [i] + [i]", "for v <- g() v", "toa(a)"], "generator"),
    (["paths = (p, n) -> if n == 0 [p] else paths(p + [0], n - 1) + paths(p + [1], n - 1)", "toa(paths([], 5))"], "recursive path enumeration"),
]


def run(tier, seed):
    run = vlib.Run(PROP, LEVEL, tier, seed)
    vlib.build_harness()
    sesscheck.regen_builtins()
    problems = common.prepare(run, PROP, MODULE, THEOREMS)
    for p in problems:
        run.violation({"what": "proof obligation of C10 no longer checks", "broken": p}, no_failing_input=True)
    rng = random.Random(seed)
    nviol = 0
    # ---- part A
    nseq = 250 if tier == "quick" else 6000
    seqs = [gen_seq(rng, rng.choice([8, 15, 30, 60])) for _ in range(nseq)]
    outs = run_seqs(seqs)
    terms = []
    owners = []
    nops = 0
    for i, (s, o) in enumerate(zip(seqs, outs)):
        rs = o.get("results", [])
        nops += len(rs)
        if o.get("panic"):
            nviol += 1
            run.violation({"what": "array operation aborted: %s" % o["panic"], "operations": s[:len(rs) + 1]})
            continue
        bad = next((k for k, r in enumerate(rs) if r.get("changed")), None)
        if bad is not None:
            nviol += 1
            if nviol <= 4:
                r = rs[bad]
                run.violation({"what": "operation %d changed value %d that already existed: it printed %s when created and prints "
                                       "%s now" % (bad, r["changed"][0], r["was"], r["now"]),
                               "operations": s[:bad + 1]})
            continue
        mt = model_terms(s, rs)
        if mt is None:
            continue
        mops, obs = mt
        terms.append("([%s], [%s], [%s])" % (";".join(mops), ";".join(obs), ";".join(o["final"])))
        owners.append(i)
    codes = vlib.coq_eval_codes("c10", IMPORTS, terms, "chk_slice", shard=25)
    for j in sorted(codes)[:3]:
        i = owners[j]
        nviol += 1
        run.violation({"what": "the slice model (Slice.v) and the real value.Type differ (code %d: 1+100k = result k differs in value, "
                               "length or capacity; 2 = a pool value differs at the end); the immutability theorem no longer "
                               "speaks about the code" % codes[j], "operations": seqs[i], "observed": outs[i]["results"]},
                      no_failing_input=True)
    # ---- part B
    sess_list = []
    kinds_list = []
    for s, _ in FIXED:
        sess_list.append(s)
        kinds_list.append(None)
    nsess = 120 if tier == "quick" else 4000
    for _ in range(nsess):
        s, m = gen_session(rng, rng.randint(4, 12))
        s2, k2 = with_dumps(s, m)
        sess_list.append(s2)
        kinds_list.append(k2)
    res, pcodes = sesscheck.evaluate(sess_list, name="C10")
    dumps = 0
    for s, kinds, r in zip(sess_list, kinds_list, res):
        if kinds is None:
            continue
        rs = r.get("results", [])
        prev = {}
        last_assigned = None
        for k, (st, kd) in enumerate(zip(rs, kinds)):
            if kd[0] == "stmt":
                last_assigned = kd[1]
                continue
            val = (st.get("vals") or [None])[-1]
            if not val or (st.get("errs") or ["none"])[-1] != "none":
                break
            items = re.findall(r'\(VStr (?:"[^"]*"|\(sb \[[0-9;]*\]\))\)', val)
            names = kd[1]
            if len(items) != len(names):
                break
            dumps += 1
            cur = dict(zip(names, items))
            assigned = set(last_assigned if isinstance(last_assigned, tuple) else (last_assigned,)) if last_assigned else set()
            for v in names:
                if v in prev and v not in assigned and prev[v] != cur[v]:
                    nviol += 1
                    if nviol <= 4:
                        run.violation({"what": "variable %s was not assigned by statement %d but prints differently afterwards: "
                                               "%s before, %s after" % (v, k - 1, prev[v], cur[v]),
                                       "session": s[:k + 1]})
                    break
            prev = cur
    pst = sesscheck.classify(run, PROP, sess_list, res, pcodes, use_sem=True)
    run.cov.update({
        "explanation": "Part A: %d sequences (%d operations) of concatenation, slicing, indexing and array building over a growing "
                       "pool of real value.Type values that share structure (slices of slices, prefixes that stop short of their "
                       "parent's end, the same base extended again and again, nested arrays); after every operation every pool "
                       "value is rendered again and must print as when created; the slice model of Slice.v runs the same "
                       "operations and must give the same values, slice lengths and capacities (the capacities left by the Go "
                       "runtime are fed to the model as its oracle).  Part B: %d sessions (10 classic sharing shapes, the rest "
                       "generated: chains compiled with the temp register, literals in functions, recursion and loops, arrays "
                       "captured by closures and generators, strings) dump every variable after every statement (%d dumps): a "
                       "variable not assigned by the statement must print as before; the sessions are also compared with Sem "
                       "and the VM model.  Proved: on the slice model no sequence of operations changes an existing value, for "
                       "every capacity oracle; without the copy it is false." % (nseq, nops, len(sess_list), dumps),
        "evaluations": nops + dumps,
        "distinct_nontrivial": len(terms) + dumps,
        "rule": "operations with all pool values re-rendered + variable dumps; non-trivial = sequences compared with the model "
                "plus dumps compared with the previous dump",
        "traces_validated_against_impl": len(terms) + len(sess_list),
        "samples": [seqs[0][:5], sess_list[-1][-4:]],
        "stats": {k: v for k, v in pst.items()}, "violations_found": nviol,
    })
    return run.finish()


def replay(path, seed):
    d = json.load(open(path))
    vlib.build_harness()
    if "operations" in d:
        print(json.dumps(vlib.run_harness("valseq", [{"ops": d["operations"]}]), indent=1)[:3000])
    elif "session" in d:
        sesscheck.replay_session(PROP, path)
    return 0
