"""C18 — frames are isolated under any growth: a variable holds its last written value."""
import json
import random
import subprocess

import memgen
import vlib
from checks import common, sesscheck

PROP = "C18"
LEVEL = "other"
MODULE = "PropC18"
THEOREMS = ["C18_write_then_read", "C18_write_leaves_other_slots", "C18_write_touches_one_cell",
            "C18_growth_keeps_every_cell", "C18_push_pop_restores", "C18_frame_push_pop_restores",
            "C18_new_frame_leaves_lower_cells", "C18_go_memory_refines_activations", "C18_step_keeps_simulation",
            "C18_go_memory_refines_activations_full", "C18_full_step_keeps_simulation",
            "C18_local_operand_is_the_variable", "C18_frame_survives_what_keeps_the_stack_below"]
IMPORTS = ["Base", "Bytecode", "Value", "FloatText", "Compile", "VM", "Mem18", "CorrMem"]


def obs_term(r):
    sp = r.get("sp", -1)
    if r.get("panic"):
        return "(RPanic, %d)" % -1
    if r.get("skipped"):
        return "(RSkip, -1)"
    if r.get("read"):
        v = r.get("val")
        if isinstance(v, str):
            return "(RPanic, -1)"
        return "(RVal %s, %d)" % (memgen.coq_val(v), sp)
    return "(RNone, %d)" % sp


def case_term(ops, res):
    return "([%s], [%s])" % (";".join(memgen.coq_op(o) for o in ops), ";".join(obs_term(r) for r in res))


def histories(tier, rng):
    H = []
    n = 1 if tier == "quick" else 12
    for _ in range(60 * n):
        H.append(("calls", memgen.history_calls(rng)))
    for w in [0, 1, 2, 126, 127, 128, 129, 200, 256, 1000]:
        for d in ([3, 40] if tier == "quick" else [3, 40, 300, 1000]):
            if d * max(w, 1) > 40000:
                continue   # the model's stack is a list: beyond this a history takes the evaluator minutes
            H.append(("deep", memgen.history_deep(rng, d, w)))
    for _ in range(120 * n):
        H.append(("random", memgen.history_random(rng, rng.choice([30, 80, 200, 400]))))
    for _ in range(40 * n):
        H.append(("generators", memgen.history_generators(rng)))
    for _ in range(30 * n):
        H.append(("closures", memgen.history_closures(rng, stale=False)))
    for _ in range(6 * n):
        H.append(("closures_over_growth", memgen.history_closures(rng, stale=True)))
    return H


def wide_program(k, reader_first):
    """a function of k locals whose loop reads its last variable (the pinned tree failed here when a small
    loop ran earlier in the same statement)"""
    names = ["v" + "".join("abcdefghij"[int(c)] for c in str(i)) for i in range(k)]
    body = "\n".join("%s = %d" % (n, i * 3 + 1) for i, n in enumerate(names))
    f = "wide = () -> {\n%s\nt = 0\nfor i <- fromto(0, 3) t = t + %s\nt\n}" % (body, names[-1])
    call = "{\nfor j <- fromto(0, 2) j\nwide()\n}" if reader_first else "wide()"
    return [f, call], 3 * ((k - 1) * 3 + 1)


def run(tier, seed):
    run = vlib.Run(PROP, LEVEL, tier, seed)
    vlib.build_harness()
    vlib.build_calc()
    sesscheck.regen_builtins()
    problems = common.prepare(run, PROP, MODULE, THEOREMS)
    for p in problems:
        run.violation({"what": "proof obligation of C18 no longer checks", "broken": p}, no_failing_input=True)
    sesscheck.known_finding_lines(run, PROP)
    open_ids = {f["id"] for f in vlib.open_findings(PROP)}
    rng = random.Random(seed)
    H = histories(tier, rng)
    outs = vlib.run_harness("memops", [{"ops": ops} for _, ops in H], timeout=7200)
    terms = [case_term(ops, o.get("results", [])) for (_, ops), o in zip(H, outs)]
    codes = vlib.coq_eval_codes("c18", IMPORTS, terms, "chk_mem", shard=20)
    stats = {}
    nviol = 0
    nops = 0
    reads = 0
    for i, ((kind, ops), o) in enumerate(zip(H, outs)):
        nops += len(ops)
        reads += sum(1 for r in o.get("results", []) if r.get("read"))
        stats[kind] = stats.get(kind, 0) + 1
        code = codes.get(i, 0)
        if code == 0:
            continue
        c, k = code % 100, code // 100
        if c == 12 and "K1" in open_ids:
            stats["attributed_K1"] = stats.get("attributed_K1", 0) + 1
            continue
        nviol += 1
        if nviol > 4:
            continue
        res = o.get("results", [])
        detail = {"history_kind": kind, "operation_index": k, "operation": ops[k], "observed": res[k] if k < len(res) else None,
                  "history": ops[:k + 1]}
        if c in (2, 12, 13):
            detail["what"] = ("operation %d of this history of memory operations gives %s on the real memory.Type where the "
                              "specification (last value written to that variable in that activation) says otherwise" %
                              (k, json.dumps(res[k] if k < len(res) else None)))
            run.violation(detail)
        elif c == 1:
            detail["what"] = "the real memory.Type and the model G (Mem18.v / VM.v memory operations) differ at operation %d" % k
            run.violation(detail, no_failing_input=True)
        else:
            detail["what"] = "the history generator produced an operation the specification rejects (code %d)" % c
            run.violation(detail, no_failing_input=True)
    # whole programs: wide frames, deep recursion
    sess = []
    expect = []
    for k in ([3, 127, 128, 129, 200] if tier == "quick" else [3, 100, 126, 127, 128, 129, 130, 200, 255, 256, 257, 400]):
        for rf in (False, True):
            s, want = wide_program(k, rf)
            sess.append(s)
            expect.append(want)
    res, pcodes = sesscheck.evaluate(sess, name="C18p")
    for s, want, r in zip(sess, expect, res):
        rs = r.get("results", [])
        got = (rs[-1].get("vals") or [None])[-1] if len(rs) == len(s) else None
        if got != "(VInt %d)" % want:
            nviol += 1
            run.violation({"what": "a function with many local variables returns %s instead of %d" % (got, want), "session": s})
    pst = sesscheck.classify(run, PROP, sess, res, pcodes, use_sem=True)
    depth = 100000 if tier == "quick" else 1000000
    p = subprocess.run([vlib.CALC_BIN, "-eval", "{\nf = (n) -> if n == 0 0 else 1 + f(n - 1)\nf(%d)\n}" % depth],
                       stdout=subprocess.PIPE, stderr=subprocess.PIPE, timeout=600)
    out = p.stdout.decode("latin-1").strip()
    if p.returncode != 0 or out.split("\n")[-1].strip() != str(depth):
        nviol += 1
        run.violation({"what": "recursion of depth %d fails: exit %d, output %r" % (depth, p.returncode, out[-200:]),
                       "input_text": "f = (n) -> if n == 0 0 else 1 + f(n - 1); f(%d)" % depth})
    run.cov.update({
        "explanation": "%d histories of memory operations (%d operations, %d reads) are replayed on the real memory.Type "
                       "(Push, Pop, PushFrame, PopFrame, Set, LookUpLocal, Top captured and copied, PushClosure, PopClosure, "
                       "LookUpClosure, globals, Clone with and without a recycled target, IP) and in Coq on G (the Go algorithm: "
                       "VM.v memory operations) and A (activations with their own variables).  Profiles: VM-like nested calls "
                       "with frame widths 0..1000 across the 128-slot growth steps, call depth up to %d, random mixes over "
                       "several memories, forked and recycled generator memories run interleaved, captured frames read during "
                       "and after their call, and captured frames read after the stack grew (K1's territory, attributed to the "
                       "known finding).  Every read must give the last value written to that variable in that activation.  "
                       "Whole programs: functions of 3..%d locals read after a loop ran earlier, against Sem and the VM model; "
                       "recursion depth %d through the built binary." %
                       (len(H), nops, reads, 40 if tier == "quick" else 1000, 200 if tier == "quick" else 400, depth),
        "evaluations": nops,
        "distinct_nontrivial": reads,
        "rule": "operations replayed; non-trivial = read operations compared with the specification",
        "traces_validated_against_impl": len(H),
        "samples": [H[0][1][:6], H[-1][1][:6]],
        "stats": dict(stats, **{"program_" + k: v for k, v in pst.items()}), "violations_found": nviol,
    })
    return run.finish()


def replay(path, seed):
    d = json.load(open(path))
    vlib.build_harness()
    if "history" in d:
        o = vlib.run_harness("memops", [{"ops": d["history"]}])
        print(json.dumps(o[0]["results"][-3:], indent=1))
        print(vlib.coq_eval_terms("c18r", IMPORTS, ["show_mem [%s]" % ";".join(memgen.coq_op(x) for x in d["history"])])[0][-1500:])
    elif "session" in d:
        sesscheck.replay_session(PROP, path)
    return 0
