"""C07 — parsing follows the documented grammar: trees round-trip through source text."""
import json
import random

import vlib
from checks import common
import treegen
import lexgen

PROP = "C07"
LEVEL = "other"
MODULE = "PropC07"
THEOREMS = ["C07_expression_round_trip", "C07_redundant_parentheses", "C07_every_operand_position",
            "C07_string_literal_round_trip", "C07_statement_round_trip", "C07_body_round_trip", "C07_program_round_trip"]
IMPORTS = ["Base", "Bytecode", "Value", "FloatText", "Ast", "Lexer", "Grammar", "Printer", "CorrParse"]

STYLES = [
    ("canonical + newline", None),
    ("minimal spacing", {"gap": "min", "blank": 0.0, "comment": 0.0, "tail": ""}),
    ("wide spacing, blank lines", {"gap": "wide", "blank": 0.35, "comment": 0.0, "tail": "\n\n"}),
    ("comments", {"gap": "one", "blank": 0.2, "comment": 0.6, "tail": "comment"}),
    ("redundant parentheses", {"gap": "one", "blank": 0.0, "comment": 0.0, "tail": "", "paren": 0.35}),
    ("redundant braces", {"gap": "one", "blank": 0.0, "comment": 0.0, "tail": "\n", "brace": 0.6}),
    ("everything", {"gap": "wide", "blank": 0.3, "comment": 0.3, "tail": "nlcomment", "paren": 0.2, "brace": 0.3}),
]


def layouts(t, rng):
    canon = treegen.render_canonical(treegen.Printer().pp(t))
    out = [("canonical", canon)]
    for name, st in STYLES:
        if st is None:
            out.append((name, canon + "\n"))
            continue
        pr = treegen.Printer(rng, st.get("paren", 0.0), st.get("brace", 0.0))
        out.append((name, treegen.render_layout(pr.pp(t), rng, st)))
    return canon, out


def go_term(o):
    if "trees" in o:
        return "(Some [" + ";".join(o["trees"]) + "])"
    return "(@None (list node))"


def run(tier, seed):
    run = vlib.Run(PROP, LEVEL, tier, seed)
    vlib.build_harness()
    problems = common.prepare(run, PROP, MODULE, THEOREMS)
    for p in problems:
        run.violation({"what": "proof obligation of C07 no longer checks", "broken": p}, no_failing_input=True)
    rng = random.Random(seed)
    trees = list(treegen.systematic())
    g = treegen.TreeGen(seed)
    nrand = 200 if tier == "quick" else 20000
    for i in range(nrand):
        trees.append(g.top(rng.choice([1, 2, 2, 3, 3, 4])))
    # deep chains: nesting far beyond what a test would write
    a = ("Name", "a")
    for op in ["+", "&&", "<", "*", "|"]:
        t = a
        u = a
        for i in range(150):
            t = ("Bin", op, t, ("Int", i))
            u = ("Bin", op, ("Int", i), u)
        trees += [t, u]
    t = a
    for i in range(100):
        t = ("Un", "-", t) if i % 2 else ("IndexAt", t, ("Int", i))
    trees.append(t)
    cases = []
    texts = []
    for t in trees:
        canon, lays = layouts(t, rng)
        cases.append((t, canon, lays))
        for _, txt in lays:
            texts.append(txt)
    outs = vlib.run_harness("parse", [{"input": list(x.encode("latin-1")), "timeout_ms": 5000} for x in texts], timeout=7200)
    terms = []
    k = 0
    per_case = []
    for t, canon, lays in cases:
        rs = outs[k:k + len(lays)]
        k += len(lays)
        per_case.append(rs)
        terms.append("(%s, %s, [%s])" % (treegen.coq_tree(t), treegen.coq_str(canon),
                                        ";".join("(%s, %s)" % (treegen.coq_str(txt), go_term(o)) for (_, txt), o in zip(lays, rs))))
    codes = vlib.coq_eval_codes("c07", IMPORTS, terms, "chk_roundtrip", shard=40)
    nviol = 0
    for i in sorted(codes):
        code = codes[i]
        t, canon, lays = cases[i]
        nviol += 1
        if nviol > 5:
            continue
        if code >= 100 and code < 200:
            name, txt = lays[code - 100]
            run.violation({"what": "parsing the text written from a tree does not give the tree back (layout: %s)" % name,
                           "tree": treegen.coq_tree(t), "input_text": txt, "input_bytes": list(txt.encode("latin-1")),
                           "parsed": per_case[i][code - 100]})
        elif code >= 200:
            name, txt = lays[code - 200]
            run.violation({"what": "parser.Parse and the grammar model (Grammar.v) differ on this input; the round-trip theorem "
                                   "no longer speaks about the code", "input_text": txt,
                           "input_bytes": list(txt.encode("latin-1")), "parsed": per_case[i][code - 200]}, no_failing_input=True)
        else:
            what = {1: "the grammar model does not give the tree back from the canonical text (the theorem's statement fails on this tree)",
                    2: "generated tree outside the printer's domain (wfb false)",
                    3: "the check's printer and coq/Printer.v differ on this tree",
                    4: "model out of fuel",
                    5: "the lexer model does not give back the printed tokens"}.get(code, "code %d" % code)
            run.violation({"what": what, "tree": treegen.coq_tree(t), "canonical": canon}, no_failing_input=True)
    # the grammar model against parser.Parse on arbitrary (mostly rejected) inputs
    soup = []
    for s in lexgen.exhaustive(2):
        soup.append(lexgen.src_bytes(s))
    nsoup = 1000 if tier == "quick" else 40000
    for _ in range(nsoup):
        c = rng.random()
        if c < 0.6:
            soup.append(lexgen.src_bytes(lexgen.random_source(rng, rng.randint(1, 14))))
        else:
            # a printed tree with one token removed, doubled or replaced
            t = g.top(rng.choice([1, 2, 3]))
            toks = treegen.Printer().pp(t)
            j = rng.randrange(len(toks))
            c2 = rng.random()
            if c2 < 0.4:
                toks = toks[:j] + toks[j + 1:]
            elif c2 < 0.7:
                toks = toks[:j] + [toks[j]] + toks[j:]
            else:
                toks = toks[:j] + [rng.choice([("n", "("), ("n", ")"), ("n", "["), ("n", "]"), ("n", "{"), ("n", "}"), ("n", ","),
                                               ("n", ":"), ("s", "-"), ("s", "->"), ("s", "="), ("w", "else"), ("w", "if"),
                                               ("l", "\n"), ("w", "x"), ("w", "1")])] + toks[j + 1:]
            soup.append(list(treegen.render_canonical(toks).encode("latin-1")))
    souts = vlib.run_harness("parse", [{"input": x, "timeout_ms": 5000} for x in soup], timeout=7200)
    sterms = ["(%s, %s)" % (treegen.coq_str(bytes(x)), go_term(o)) for x, o in zip(soup, souts)]
    scodes = vlib.coq_eval_codes("c07s", IMPORTS, sterms, "chk_parse", shard=150)
    acc = sum(1 for o in souts if "trees" in o)
    for i in sorted(scodes)[:5]:
        nviol += 1
        run.violation({"what": "parser.Parse and the grammar model (Grammar.v) differ on this input (code %d); the round-trip "
                               "theorem no longer speaks about the code" % scodes[i],
                       "input_bytes": soup[i], "input_text": bytes(soup[i]).decode("latin-1"),
                       "parsed": souts[i]}, no_failing_input=True)
    run.cov.update({
        "explanation": "For %d trees (systematic: every pair of the 15 binary operators in both nestings, every unary operator "
                       "over/under every binary operator and index form, every statement form in every body position one-line "
                       "and braced, dangling-else shapes; %d random trees of depth up to 4; chains of depth 150) the tree is "
                       "written out by the documented rules in %d layouts (canonical, minimal spacing, wide spacing with blank "
                       "lines in blocks and array literals, comments, redundant parentheses, redundant braces, all at once) "
                       "and parsed by parser.Parse; Coq checks that every result is the tree (node_same), that Printer.v "
                       "prints the same canonical text, that the lexer model returns the printed tokens and that the grammar "
                       "model parses it back.  Separately the grammar model is compared with parser.Parse on %d arbitrary "
                       "inputs (%d accepted)." % (len(trees), nrand, len(STYLES) + 1, len(soup), acc),
        "evaluations": len(texts) + len(soup),
        "distinct_nontrivial": len(set(texts)) + len({bytes(x) for x in soup}),
        "rule": "distinct source texts; each is a non-trivial case (a full parse compared with a tree)",
        "samples": [texts[7][:200], texts[-3][:200]],
        "violations_found": nviol,
    })
    return run.finish()


def replay(path, seed):
    d = json.load(open(path))
    vlib.build_harness()
    if "input_bytes" in d:
        print(json.dumps(vlib.run_harness("parse", [{"input": d["input_bytes"]}]), indent=1)[:3000])
    return 0
